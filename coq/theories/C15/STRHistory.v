(* C15 — every legal history of the STRtree model behaves like the abstract multiset of live (envelope,item) pairs. *)
From Coq Require Import ZArith List Bool Lia Permutation Arith.
From GeosV.C15 Require Import STRDefs STRProofs.
Import ListNotations.
Local Open Scope Z_scope.

Section Hist.
  Variable coords : Z -> Z * Z.
  Notation step := (step coords).
  Notation run := (run coords).

  (* the documented rule: no insert after the tree has been built *)
  Definition legal (s : st) (o : op) : Prop := match o with Insert _ _ => s_built s = false | _ => True end.
  Fixpoint legal_run (s : st) (ops : list op) : Prop :=
    match ops with [] => True | o :: r => legal s o /\ legal_run (fst (step s o)) r end.

  Definition Inv (s : st) (a : list (env * Z)) : Prop :=
    (2 <= s_cap s)%nat /\
    if s_built s then match s_root s with Some t => WF t /\ Permutation (live t) a | None => False end
    else s_root s = None /\ leaves_ok (s_pending s) /\ flat_map live (s_pending s) = a.

  (* what the abstract multiset `a` allows as the visible outcome of one operation, and the multiset afterwards *)
  Definition out_ok (a : list (env * Z)) (o : op) (x : out) (a' : list (env * Z)) : Prop :=
    match o with
    | Insert e it => x = ONone /\ a' = if is_null e then a else a ++ [(e, it)]
    | Build => x = ONone /\ a' = a
    | Query q => exists l, x = OItems l /\ Permutation l (spec_query q a) /\ a' = a
    | Iterate => exists l, x = OItems l /\ Permutation l (map snd a) /\ a' = a
    | Remove e it => exists b, x = OBool b /\
                     (b = true -> exists e', In (e', it) a /\ Permutation a ((e', it) :: a')) /\
                     (b = false -> a' = a /\ forall e', In (e', it) a -> inter e' e = false)
    | Nearest e px py => exists r, x = ONear r /\ a' = a /\
                     ((forall e0 it, In (e0, it) a -> edist2 e0 e <= sqd coords px py it) -> is_min (sqd coords px py) a r)
    end.

  Lemma sqd_nonneg px py it : 0 <= sqd coords px py it.
  Proof. unfold sqd. destruct (coords it) as [x y]. pose proof (Z.square_nonneg (x - px)). pose proof (Z.square_nonneg (y - py)). lia. Qed.

  Lemma is_min_perm f a a' r : Permutation a a' -> is_min f a r -> is_min f a' r.
  Proof. intros Hp. unfold is_min. destruct r as [[d b]|].
    - intros (H1 & (e & H2) & H3). split; [exact H1|split].
      + exists e. eapply Permutation_in; eauto.
      + intros e0 it Hin. apply (H3 e0 it). eapply Permutation_in; [symmetry; exact Hp|exact Hin].
    - intros ->. apply Permutation_nil in Hp. exact Hp. Qed.

  Lemma do_build_inv s a : Inv s a ->
    Inv (do_build s) a /\ (s_root (do_build s) = None -> a = []) /\ s_cap (do_build s) = s_cap s.
  Proof. intros (Hc & H). unfold do_build. destruct (s_built s) eqn:Eb.
    - split; [split; [exact Hc|rewrite Eb; exact H]|split; [|reflexivity]]. destruct (s_root s); [discriminate|destruct H].
    - destruct H as (Hr & Hl & Ha). destruct (s_pending s) as [|c r] eqn:Ep.
      + split; [split; [exact Hc|rewrite Eb, Ep; auto]|split; [|reflexivity]]. intros _. subst a. reflexivity.
      + destruct (build_terminates (s_cap s) (c :: r) Hc ltac:(discriminate) Hl) as (t & Ht & Hw & Hp).
        split; [|split; [|reflexivity]].
        * split; [exact Hc|]. cbn [s_built s_root]. rewrite Ht. split; [exact Hw|]. rewrite <- Ha. exact Hp.
        * cbn [s_root]. rewrite Ht. discriminate. Qed.

  Lemma built_root s a : Inv s a -> s_built s = true -> exists t, s_root s = Some t /\ WF t /\ Permutation (live t) a.
  Proof. intros (_ & H) Eb. rewrite Eb in H. destruct (s_root s) as [t|]; [exists t; tauto|destruct H]. Qed.
  Lemma unbuilt_root s a : Inv s a -> s_built s = false -> s_root s = None.
  Proof. intros (_ & H) Eb. rewrite Eb in H. tauto. Qed.

  Theorem step_refines s a o : Inv s a -> legal s o ->
    exists a', Inv (fst (step s o)) a' /\ out_ok a o (snd (step s o)) a'.
  Proof. intros HI Hleg. destruct o as [e it| |q|e it| |e px py]; cbn [step legal] in *.
    - (* insert *) rewrite Hleg. destruct HI as (Hc & H). rewrite Hleg in H. destruct H as (Hr & Hl & Ha).
      destruct (is_null e) eqn:En; cbn [fst snd out_ok].
      + exists a. rewrite En. split; [|auto]. split; [exact Hc|]. rewrite Hleg. auto.
      + exists (a ++ [(e, it)]). rewrite En. split; [|auto]. split; [exact Hc|]. cbn [s_built s_root s_pending]. split; [reflexivity|split].
        * apply Forall_app. split; [exact Hl|constructor; [reflexivity|constructor]].
        * rewrite flat_map_app, Ha. reflexivity.
    - (* build *) exists a. destruct (do_build_inv s a HI) as (H & _). split; [exact H|split; reflexivity].
    - (* query *) destruct (do_build_inv s a HI) as (H & Hn & _). exists a. cbn [fst snd]. split; [exact H|].
      exists (query q (s_root (do_build s))). split; [reflexivity|split; [|reflexivity]].
      destruct (s_built (do_build s)) eqn:Eb.
      + destruct (built_root _ _ H Eb) as (t & Ht & Hw & Hp). rewrite Ht. simpl. rewrite qnode_spec by exact Hw. apply spec_query_perm, Hp.
      + rewrite (unbuilt_root _ _ H Eb). rewrite (Hn (unbuilt_root _ _ H Eb)). reflexivity.
    - (* remove *) destruct (do_build_inv s a HI) as (H & Hn & Hcap). set (s' := do_build s) in *.
      destruct (s_built s') eqn:Eb.
      + destruct (built_root _ _ H Eb) as (t & Ht & Hw & Hp). rewrite Ht. unfold remove.
        destruct t as [e0 i0 d0|e0 ch0].
        * destruct (negb d0 && (i0 =? it)) eqn:Ec.
          -- assert (d0 = false /\ i0 = it) as (-> & ->) by (destruct d0; simpl in Ec; [discriminate|split; [reflexivity|lia]]).
             exists []. cbn [fst snd]. split.
             ++ split; [cbn [s_cap]; destruct H as (Hc' & _); exact Hc'|]. cbn [s_built s_root]. split; [constructor|]. simpl. constructor.
             ++ exists true. split; [reflexivity|split; [|discriminate]]. intros _. exists e0. simpl in Hp.
                split; [eapply Permutation_in; [exact Hp|left; reflexivity]|]. symmetry. exact Hp.
          -- exists a. cbn [fst snd]. split.
             ++ split; [cbn [s_cap]; destruct H as (Hc' & _); exact Hc'|]. cbn [s_built s_root]. split; [exact Hw|exact Hp].
             ++ exists false. split; [reflexivity|split; [discriminate|]]. intros _. split; [reflexivity|].
                intros e' Hin. exfalso. apply (Permutation_in _ (Permutation_sym Hp)) in Hin. simpl in Hin.
                destruct d0; [destruct Hin|]. destruct Hin as [Hin|[]]. inversion Hin; subst. simpl in Ec. lia.
        * pose proof (remove_node_spec e it (Node e0 ch0) Hw) as Hr. destruct (remove_node e it (Node e0 ch0)) as [t'|].
          -- destruct Hr as (Hw' & _ & e' & He' & Hp'). exists (live t'). cbn [fst snd]. split.
             ++ split; [cbn [s_cap]; destruct H as (Hc' & _); exact Hc'|]. cbn [s_built s_root]. split; [exact Hw'|reflexivity].
             ++ exists true. split; [reflexivity|split; [|discriminate]]. intros _. exists e'. split.
                ** eapply Permutation_in; [exact Hp|]. eapply Permutation_in; [symmetry; exact Hp'|left; reflexivity].
                ** etransitivity; [symmetry; exact Hp|exact Hp'].
          -- exists a. cbn [fst snd]. split.
             ++ split; [cbn [s_cap]; destruct H as (Hc' & _); exact Hc'|]. cbn [s_built s_root]. split; [exact Hw|exact Hp].
             ++ exists false. split; [reflexivity|split; [discriminate|]]. intros _. split; [reflexivity|].
                intros e' Hin. apply Hr. eapply Permutation_in; [symmetry; exact Hp|exact Hin].
      + pose proof (unbuilt_root _ _ H Eb) as Hr. rewrite Hr. cbn [remove fst snd]. exists a. split.
        * destruct H as (Hc & H). split; [exact Hc|]. cbn [s_built s_root s_pending]. rewrite Eb in *. rewrite Hr in H. exact H.
        * exists false. split; [reflexivity|split; [discriminate|]]. intros _. split; [reflexivity|]. rewrite (Hn Hr). intros e' [].
    - (* iterate *) exists a. cbn [fst snd]. split; [exact HI|]. exists (iterate_items s). split; [reflexivity|split; [|reflexivity]].
      unfold iterate_items. destruct (s_built s) eqn:Eb.
      + destruct (built_root _ _ HI Eb) as (t & Ht & Hw & Hp). rewrite Ht. apply Permutation_map, Hp.
      + destruct HI as (_ & H). rewrite Eb in H. destruct H as (_ & _ & <-). rewrite map_flat_map. reflexivity.
    - (* nearest *) destruct (do_build_inv s a HI) as (H & Hn & _). exists a. cbn [fst snd]. split; [exact H|].
      eexists. split; [reflexivity|split; [reflexivity|]]. intros Hadm.
      destruct (s_built (do_build s)) eqn:Eb.
      + destruct (built_root _ _ H Eb) as (t & Ht & Hw & Hp). rewrite Ht.
        apply (is_min_perm _ _ _ _ Hp). apply nearest_min; auto using sqd_nonneg.
        intros e0 it Hin. apply Hadm. eapply Permutation_in; eauto.
      + rewrite (unbuilt_root _ _ H Eb). rewrite (Hn (unbuilt_root _ _ H Eb)). reflexivity.
  Qed.

  Inductive trace_ok : list (env * Z) -> list op -> list out -> Prop :=
  | t_nil a : trace_ok a [] []
  | t_cons a o x a' ops outs : out_ok a o x a' -> trace_ok a' ops outs -> trace_ok a (o :: ops) (x :: outs).

  Theorem run_refines ops : forall s a, Inv s a -> legal_run s ops -> trace_ok a ops (run s ops).
  Proof. induction ops as [|o r IH]; intros s a HI Hl; [constructor|].
    destruct Hl as (Hl1 & Hl2). destruct (step_refines s a o HI Hl1) as (a' & HI' & Hok).
    cbn [STRDefs.run]. destruct (step s o) as [s' x] eqn:E. cbn [fst snd] in *.
    econstructor; [exact Hok|apply IH; auto]. Qed.

  Theorem history_refines cap ops : (2 <= cap)%nat -> legal_run (init cap) ops -> trace_ok [] ops (run (init cap) ops).
  Proof. intros Hc Hl. apply run_refines; [|exact Hl]. split; [exact Hc|]. simpl. repeat split. constructor. Qed.
End Hist.
