(* C15 — proofs about the STRtree model (STRDefs.v). *)
From Coq Require Import ZArith List Bool Lia Permutation Arith.
From GeosV.C15 Require Import STRDefs.
Import ListNotations.
Require Import ZifyBool ZifyNat.
Ltac Zify.zify_post_hook ::= Z.div_mod_to_equations.
Local Open Scope Z_scope.

(* ------------------------------------------------------------------ envelopes *)
Lemma inter_covers a b q : covers a b -> inter b q = true -> inter a q = true.
Proof. unfold covers, inter. intros (C1&C2&C3&C4) Hq. lia. Qed.
Lemma covers_refl a : covers a a. Proof. unfold covers; lia. Qed.
Lemma covers_trans a b c : covers a b -> covers b c -> covers a c. Proof. unfold covers; lia. Qed.
Lemma hull_covers_l a b : covers (hull a b) a. Proof. unfold covers, hull; simpl; lia. Qed.
Lemma hull_covers_r a b : covers (hull a b) b. Proof. unfold covers, hull; simpl; lia. Qed.
Lemma inter_sym a b : inter a b = inter b a. Proof. unfold inter. lia. Qed.
Lemma inter_self a : wfenv a -> inter a a = true. Proof. unfold wfenv, inter. lia. Qed.

(* ------------------------------------------------------------------ induction principle for the nested tree *)
Section Ind.
  Variable P : tree -> Prop.
  Hypothesis Hleaf : forall e it d, P (Leaf e it d).
  Hypothesis Hnode : forall e ch, Forall P ch -> P (Node e ch).
  Fixpoint tree_ind' (t : tree) : P t :=
    match t with
    | Leaf e it d => Hleaf e it d
    | Node e ch => Hnode e ch ((fix go (l : list tree) : Forall P l :=
                       match l with [] => Forall_nil _ | c :: r => Forall_cons _ (tree_ind' c) (go r) end) ch)
    end.
End Ind.

(* well-formed: every branch's bounds cover its children's bounds (boundsFromChildren) and it has at least one child *)
Inductive WF : tree -> Prop :=
| WF_leaf e it d : WF (Leaf e it d)
| WF_node e ch : ch <> [] -> Forall WF ch -> Forall (fun c => covers e (bounds c)) ch -> WF (Node e ch).

(* ------------------------------------------------------------------ query = filter on live items, on every WF tree *)
Lemma flat_map_filter {A B} (f : A -> bool) (g : B -> list A) ch :
  filter f (flat_map g ch) = flat_map (fun c => filter f (g c)) ch.
Proof. induction ch as [|c r IH]; simpl; [reflexivity|]. rewrite filter_app, IH. reflexivity. Qed.
Lemma map_flat_map {A B C} (f : A -> B) (g : C -> list A) l : map f (flat_map g l) = flat_map (fun c => map f (g c)) l.
Proof. induction l as [|c r IH]; simpl; [reflexivity|]. rewrite map_app, IH. reflexivity. Qed.

Definition spec (q : env) (t : tree) : list Z := spec_query q (live t).

Lemma spec_leaf q e it d : spec q (Leaf e it d) = if inter e q && negb d then [it] else [].
Proof. unfold spec, spec_query; simpl. destruct d; simpl; [rewrite andb_false_r; reflexivity|].
  destruct (inter e q); reflexivity. Qed.
Lemma spec_node q e ch : spec q (Node e ch) = flat_map (spec q) ch.
Proof. unfold spec, spec_query; simpl. rewrite flat_map_filter, map_flat_map. reflexivity. Qed.

Lemma flat_map_nil {A B} (f : A -> list B) l : Forall (fun c => f c = []) l -> flat_map f l = [].
Proof. induction 1 as [|c r Hc _ IH]; simpl; [reflexivity|]. rewrite Hc, IH. reflexivity. Qed.
Lemma flat_map_ext_Forall {A B} (f g : A -> list B) l : Forall (fun c => f c = g c) l -> flat_map f l = flat_map g l.
Proof. induction 1 as [|c r Hc _ IH]; simpl; [reflexivity|]. rewrite Hc, IH. reflexivity. Qed.

Lemma no_hit_below q t : WF t -> inter (bounds t) q = false -> spec q t = [].
Proof.
  induction t as [e it d | e ch IH] using tree_ind'; intros Hwf Hq; simpl in Hq.
  - rewrite spec_leaf, Hq. reflexivity.
  - rewrite spec_node. inversion Hwf as [|? ? _ Hc Hb]; subst.
    apply flat_map_nil. rewrite Forall_forall in *. intros c Hin.
    apply IH; auto. destruct (inter (bounds c) q) eqn:E; [|reflexivity].
    rewrite (inter_covers _ _ _ (Hb c Hin) E) in Hq. discriminate.
Qed.

Theorem qnode_spec q t : WF t -> qnode q t = spec q t.
Proof.
  induction t as [e it d | e ch IH] using tree_ind'; intros Hwf.
  - rewrite spec_leaf. reflexivity.
  - simpl. destruct (inter e q) eqn:E.
    + rewrite spec_node. inversion Hwf as [|? ? _ Hc Hb]; subst.
      apply flat_map_ext_Forall. rewrite Forall_forall in *. auto.
    + symmetry. apply (no_hit_below q (Node e ch) Hwf E).
Qed.

(* ------------------------------------------------------------------ packing arithmetic *)
Local Open Scope nat_scope.
Lemma cdiv_mul_ge n s : 0 < s -> n <= cdiv n s * s.
Proof. unfold cdiv. intros. nia. Qed.
Lemma cdiv_pos n s : 0 < s -> 0 < n -> 0 < cdiv n s.
Proof. unfold cdiv. intros. nia. Qed.
Lemma cdiv_0 s : 0 < s -> cdiv 0 s = 0.
Proof. unfold cdiv. intros. nia. Qed.
Lemma cdiv_le_half n c : 2 <= c -> cdiv n c <= (n + 1) / 2.
Proof. unfold cdiv. intros. nia. Qed.
Lemma cdiv_le n c : 0 < c -> cdiv n c <= n.
Proof. unfold cdiv. intros. nia. Qed.
Lemma cdiv_lt n c : 2 <= c -> 2 <= n -> cdiv n c < n.
Proof. unfold cdiv. intros. nia. Qed.
Lemma csqrt_pos m : 0 < m -> 0 < csqrt m.
Proof. unfold csqrt. intros. pose proof (Nat.sqrt_spec m ltac:(lia)) as [H1 H2].
  destruct (Nat.eqb_spec (Nat.sqrt m * Nat.sqrt m) m); nia. Qed.
Lemma csqrt_le m : csqrt m <= m.
Proof. unfold csqrt. pose proof (Nat.sqrt_spec m ltac:(lia)) as [H1 H2].
  destruct (Nat.eqb_spec (Nat.sqrt m * Nat.sqrt m) m); nia. Qed.
Lemma sliceCount_pos cap n : 0 < cap -> 0 < n -> 0 < sliceCount cap n.
Proof. intros. apply csqrt_pos, cdiv_pos; lia. Qed.
Lemma sliceCount_lt cap n : 2 <= cap -> 2 <= n -> sliceCount cap n < n.
Proof. intros. unfold sliceCount. pose proof (csqrt_le (cdiv n cap)). pose proof (cdiv_lt n cap). lia. Qed.
(* with capacity >= 2 a slice holds at least two nodes *)
Lemma sliceCapacity_ge2 cap n : 2 <= cap -> 2 <= n -> 2 <= sliceCapacity n (sliceCount cap n).
Proof. intros Hc Hn. unfold sliceCapacity. pose proof (sliceCount_lt cap n Hc Hn). pose proof (sliceCount_pos cap n ltac:(lia) ltac:(lia)).
  unfold cdiv. apply Nat.div_le_lower_bound; lia. Qed.

(* ------------------------------------------------------------------ chunks / slices are partitions *)
Lemma chunks_fuel_concat {A} fuel k (l : list A) : 0 < k -> length l <= fuel -> concat (chunks_fuel fuel k l) = l.
Proof. revert l. induction fuel as [|f IH]; intros l Hk Hl.
  - destruct l; [reflexivity|simpl in Hl; lia].
  - destruct l as [|a r]; [reflexivity|]. cbn [chunks_fuel concat]. rewrite IH; [apply firstn_skipn|lia|].
    rewrite skipn_length. cbn [length] in *. lia. Qed.
Lemma chunks_concat {A} k (l : list A) : 0 < k -> concat (chunks k l) = l.
Proof. intros. apply chunks_fuel_concat; lia. Qed.
Lemma chunks_fuel_nonempty {A} fuel k (l : list A) : 0 < k -> Forall (fun c => c <> []) (chunks_fuel fuel k l).
Proof. revert l. induction fuel as [|f IH]; intros l Hk; destruct l as [|a r]; cbn [chunks_fuel]; try constructor; try discriminate; auto.
  destruct k; [lia|]. simpl. discriminate. Qed.
Lemma chunks_fuel_length {A} fuel k (l : list A) : 0 < k -> length l <= fuel -> length (chunks_fuel fuel k l) = cdiv (length l) k.
Proof. revert l. induction fuel as [|f IH]; intros l Hk Hl.
  - destruct l; [|simpl in Hl; lia]. simpl. symmetry. apply cdiv_0. lia.
  - destruct l as [|a r]; [simpl; symmetry; apply cdiv_0; lia|]. cbn [chunks_fuel length].
    rewrite IH; [|lia|rewrite skipn_length; cbn [length] in *; lia]. rewrite skipn_length. cbn [length]. unfold cdiv.
    destruct (Nat.le_gt_cases k (S (length r))) as [Hle|Hgt].
    + replace (S (length r) + k - 1) with ((S (length r) - k + k - 1) + 1 * k) by lia.
      rewrite Nat.div_add by lia. lia.
    + replace (S (length r) - k) with 0 by lia. rewrite (Nat.div_small (0 + k - 1)) by lia.
      assert (1 = (S (length r) + k - 1) / k); [|lia]. apply Nat.div_unique with (r := S (length r) - 1); lia. Qed.
Lemma slices_loop_concat per s (l : list tree) : length l <= per * s -> concat (slices_loop per s l) = l.
Proof. revert l. induction s as [|k IH]; intros l Hl.
  - destruct l; [reflexivity|simpl in Hl; lia].
  - cbn [slices_loop concat]. rewrite IH; [apply firstn_skipn|]. rewrite skipn_length. lia. Qed.

Lemma flat_map_concat_map {A B} (f : A -> list B) l : flat_map f l = concat (map f l).
Proof. induction l; simpl; congruence. Qed.

(* ------------------------------------------------------------------ one level of the build *)
Local Open Scope Z_scope.
Lemma hull_fold_covers_acc r b : covers (fold_left (fun b t => hull b (bounds t)) r b) b.
Proof. revert b. induction r as [|c r IH]; intros b; simpl; [apply covers_refl|].
  eapply covers_trans; [apply IH|apply hull_covers_l]. Qed.
Lemma hull_fold_covers_all r b : Forall (fun c => covers (fold_left (fun b t => hull b (bounds t)) r b) (bounds c)) r.
Proof. revert b. induction r as [|c r IH]; intros b; simpl; constructor.
  - eapply covers_trans; [apply hull_fold_covers_acc|apply hull_covers_r].
  - apply IH. Qed.
Lemma mkNode_WF ch : ch <> [] -> Forall WF ch -> WF (mkNode ch).
Proof. intros Hne Hwf. unfold mkNode. constructor; auto. destruct ch as [|c r]; [congruence|].
  simpl. constructor; [apply hull_fold_covers_acc|apply hull_fold_covers_all]. Qed.
Lemma live_mkNode ch : live (mkNode ch) = flat_map live ch. Proof. reflexivity. Qed.

Lemma Forall_concat {A} (P : A -> Prop) ll : Forall P (concat ll) -> Forall (Forall P) ll.
Proof. induction ll as [|l r IH]; simpl; intros H; constructor; apply Forall_app in H as [H1 H2]; auto. Qed.

Lemma flat_map_live_perm l l' : Permutation l l' -> Permutation (flat_map live l) (flat_map live l').
Proof. induction 1; simpl; auto using Permutation_app_head.
  - rewrite !app_assoc. apply Permutation_app_tail, Permutation_app_comm.
  - etransitivity; eauto. Qed.

Lemma slice_parents_live cap sl : (0 < cap)%nat -> Permutation (flat_map live (slice_parents cap sl)) (flat_map live sl).
Proof. intros Hc. unfold slice_parents.
  transitivity (flat_map live (SortY.sort sl)); [|apply flat_map_live_perm; symmetry; apply SortY.Permuted_sort].
  rewrite <- (chunks_concat cap (SortY.sort sl) Hc) at 2.
  generalize (chunks cap (SortY.sort sl)). intros ll. induction ll as [|c r IH]; simpl; [constructor|].
  rewrite flat_map_app. apply Permutation_app_head, IH. Qed.
Lemma slice_parents_WF cap sl : (0 < cap)%nat -> Forall WF sl -> Forall WF (slice_parents cap sl).
Proof. intros Hc Hwf. unfold slice_parents.
  assert (Hs : Forall WF (SortY.sort sl)).
  { rewrite Forall_forall in *. intros x Hx. apply Hwf. eapply Permutation_in; [symmetry; apply SortY.Permuted_sort|exact Hx]. }
  rewrite <- (chunks_concat cap _ Hc) in Hs. apply Forall_concat in Hs.
  pose proof (chunks_fuel_nonempty (length (SortY.sort sl)) cap (SortY.sort sl) Hc) as Hne. fold (chunks cap (SortY.sort sl)) in Hne.
  revert Hs Hne. generalize (chunks cap (SortY.sort sl)). intros ll. induction ll as [|c r IH]; simpl; intros Hs Hne; constructor;
    inversion Hs; inversion Hne; subst; auto using mkNode_WF. Qed.
Lemma slice_parents_length cap sl : (0 < cap)%nat -> length (slice_parents cap sl) = cdiv (length sl) cap.
Proof. intros Hc. unfold slice_parents, chunks. rewrite map_length, chunks_fuel_length by lia.
  f_equal. symmetry. apply Permutation_length, SortY.Permuted_sort. Qed.

Lemma level_slices_cover cap (l : list tree) : (0 < cap)%nat -> l <> [] ->
  concat (slices_loop (sliceCapacity (length l) (sliceCount cap (length l))) (sliceCount cap (length l)) (SortX.sort l)) = SortX.sort l.
Proof. intros Hc Hne. apply slices_loop_concat. rewrite <- (Permutation_length (SortX.Permuted_sort l)).
  apply cdiv_mul_ge, sliceCount_pos; [lia|]. destruct l; [congruence|simpl; lia]. Qed.

Lemma build_level_live cap l : (0 < cap)%nat -> l <> [] -> Permutation (flat_map live (build_level cap l)) (flat_map live l).
Proof. intros Hc Hne. unfold build_level.
  transitivity (flat_map live (SortX.sort l)); [|apply flat_map_live_perm; symmetry; apply SortX.Permuted_sort].
  rewrite <- (level_slices_cover cap l Hc Hne) at 2.
  generalize (slices_loop (sliceCapacity (length l) (sliceCount cap (length l))) (sliceCount cap (length l)) (SortX.sort l)).
  intros ll. induction ll as [|c r IH]; simpl; [constructor|]. rewrite !flat_map_app.
  apply Permutation_app; [apply slice_parents_live; lia|apply IH]. Qed.

Lemma build_level_WF cap l : (0 < cap)%nat -> l <> [] -> Forall WF l -> Forall WF (build_level cap l).
Proof. intros Hc Hne Hwf. unfold build_level.
  assert (Hs : Forall WF (SortX.sort l)).
  { rewrite Forall_forall in *. intros x Hx. apply Hwf. eapply Permutation_in; [symmetry; apply SortX.Permuted_sort|exact Hx]. }
  rewrite <- (level_slices_cover cap l Hc Hne) in Hs. apply Forall_concat in Hs. revert Hs.
  generalize (slices_loop (sliceCapacity (length l) (sliceCount cap (length l))) (sliceCount cap (length l)) (SortX.sort l)).
  intros ll. induction ll as [|c r IH]; simpl; intros Hs; [constructor|]. inversion Hs; subst.
  apply Forall_app; split; [apply slice_parents_WF; auto|auto]. Qed.

(* length of a level = the parent count the reserve computation (treeSize) uses *)
Local Open Scope nat_scope.
Lemma slices_parents_length cap per s (l : list tree) : 0 < cap ->
  length (flat_map (slice_parents cap) (slices_loop per s l)) = parents_of_slices cap per s (length l).
Proof. intros Hc. revert l. induction s as [|k IH]; intros l; [reflexivity|].
  cbn [slices_loop flat_map parents_of_slices]. rewrite app_length, IH, slice_parents_length, firstn_length, skipn_length by lia.
  rewrite (Nat.min_comm per). replace (length l - Nat.min (length l) per) with (length l - per) by lia. reflexivity. Qed.
Lemma build_level_length cap l : 0 < cap -> length (build_level cap l) = level_parents cap (length l).
Proof. intros Hc. unfold build_level, level_parents. rewrite slices_parents_length by lia.
  rewrite <- (Permutation_length (SortX.Permuted_sort l)). reflexivity. Qed.

Lemma parents_of_slices_le cap per s rem : 0 < cap -> parents_of_slices cap per s rem <= rem.
Proof. intros Hc. revert rem. induction s as [|k IH]; intros rem; cbn [parents_of_slices]; [lia|].
  pose proof (IH (rem - Nat.min rem per)). pose proof (cdiv_le (Nat.min rem per) cap Hc). lia. Qed.
Lemma level_parents_lt cap n : 2 <= cap -> 2 <= n -> level_parents cap n < n.
Proof. intros Hc Hn. unfold level_parents.
  pose proof (sliceCapacity_ge2 cap n Hc Hn) as Hper. pose proof (sliceCount_pos cap n ltac:(lia) ltac:(lia)) as Hs.
  destruct (sliceCount cap n) as [|k]; [lia|]. cbn [parents_of_slices].
  set (per := sliceCapacity n (S k)) in *.
  pose proof (parents_of_slices_le cap per k (n - Nat.min n per) ltac:(lia)).
  pose proof (cdiv_lt (Nat.min n per) cap Hc ltac:(lia)). lia. Qed.
Lemma level_parents_pos cap n : 0 < cap -> 0 < n -> 0 < level_parents cap n.
Proof. intros Hc Hn. unfold level_parents. pose proof (sliceCount_pos cap n Hc Hn) as Hs.
  destruct (sliceCount cap n) as [|k]; [lia|]. cbn [parents_of_slices].
  set (per := sliceCapacity n (S k)).
  assert (0 < per) by (apply cdiv_pos; lia).
  pose proof (cdiv_pos (Nat.min n per) cap Hc ltac:(lia)). lia. Qed.
(* capacity 1 (finding F7, now rejected by the constructor): a level is as long as the one below — build never ends *)
Lemma level_parents_cap1 n : level_parents 1 n = n.
Proof. unfold level_parents.
  assert (Hk : forall per s rem, rem <= per * s -> parents_of_slices 1 per s rem = rem).
  { intros per s. induction s as [|k IH]; intros rem Hr; cbn [parents_of_slices]; [lia|].
    rewrite IH by lia. unfold cdiv. rewrite Nat.div_1_r. lia. }
  destruct n; [unfold sliceCount, sliceCapacity; reflexivity|].
  apply Hk. unfold sliceCapacity. apply cdiv_mul_ge. apply sliceCount_pos; lia. Qed.

(* ------------------------------------------------------------------ build: termination, well-formedness, contents *)
Theorem build_fuel_spec cap : 2 <= cap -> forall fuel l, l <> [] -> length l <= S fuel -> Forall WF l ->
  exists t, build_fuel fuel cap l = Some t /\ WF t /\ Permutation (live t) (flat_map live l).
Proof. intros Hc. induction fuel as [|f IH]; intros l Hne Hl Hwf.
  - destruct l as [|a [|b r]]; [congruence| |simpl in Hl; lia].
    exists a. simpl. rewrite app_nil_r. inversion Hwf; auto.
  - destruct l as [|a [|b r]]; [congruence| |].
    + exists a. simpl. rewrite app_nil_r. inversion Hwf; auto.
    + cbn [build_fuel]. set (l := a :: b :: r) in *.
      assert (Hlen : 2 <= length l) by (unfold l; simpl; lia).
      pose proof (build_level_length cap l ltac:(lia)) as HL.
      pose proof (level_parents_lt cap (length l) Hc Hlen). pose proof (level_parents_pos cap (length l) ltac:(lia) ltac:(lia)).
      destruct (IH (build_level cap l)) as (t & Ht & Hw & Hp).
      * intros E. rewrite E in HL. cbn [length] in HL. lia.
      * lia.
      * apply build_level_WF; auto; lia.
      * exists t. split; [exact Ht|split; [exact Hw|]]. etransitivity; [exact Hp|]. apply build_level_live; [lia|exact Hne]. Qed.

Definition leaves_ok (l : list tree) : Prop := Forall (fun t => is_leaf t = true) l.
Lemma leaves_WF l : leaves_ok l -> Forall WF l.
Proof. apply Forall_impl. intros [e i d|e ch]; [constructor|discriminate]. Qed.

Theorem build_terminates cap leaves : 2 <= cap -> leaves <> [] -> leaves_ok leaves ->
  exists t, build cap leaves = Some t /\ WF t /\ Permutation (live t) (flat_map live leaves).
Proof. intros. apply build_fuel_spec; auto using leaves_WF; lia. Qed.

(* the query on the built tree returns exactly the live matching items, each once (up to the order std::sort leaves) *)
Lemma spec_query_perm q l l' : Permutation l l' -> Permutation (spec_query q l) (spec_query q l').
Proof. intros H. unfold spec_query. apply Permutation_map. induction H; simpl; auto.
  - destruct (inter (fst x) q); auto.
  - destruct (inter (fst x) q), (inter (fst y) q); auto. constructor.
  - etransitivity; eauto. Qed.

Theorem query_exact cap leaves q : 2 <= cap -> leaves_ok leaves ->
  Permutation (query q (build cap leaves)) (spec_query q (flat_map live leaves)).
Proof. intros Hc Hl. destruct leaves as [|a r] eqn:E; [reflexivity|]. rewrite <- E in *.
  destruct (build_terminates cap leaves Hc ltac:(subst; discriminate) Hl) as (t & Ht & Hw & Hp).
  rewrite Ht. simpl. rewrite qnode_spec by exact Hw. apply spec_query_perm, Hp. Qed.

(* ------------------------------------------------------------------ remove *)
Local Open Scope Z_scope.
Lemma remove_node_spec q it t : WF t ->
  match remove_node q it t with
  | Some t' => WF t' /\ bounds t' = bounds t /\ exists e', inter e' q = true /\ Permutation (live t) ((e', it) :: live t')
  | None => forall e', In (e', it) (live t) -> inter e' q = false
  end.
Proof.
  induction t as [e i d | e ch IH] using tree_ind'; intros Hwf.
  - cbn [remove_node]. destruct (inter e q) eqn:Ei, d, (Z.eqb_spec i it); cbn [andb negb live]; subst;
      try (intros e' []; fail); try (intros e' [H|[]]; inversion H; subst; congruence).
    split; [constructor|split; [reflexivity|]]. exists e. split; [exact Ei|constructor; constructor].
  - cbn [remove_node]. destruct (inter e q) eqn:Ei.
    + inversion Hwf as [|? ? Hne Hc Hb]; subst. clear Hwf.
      set (go := first_some (remove_node q it)).
      assert (Hgo : match go ch with
                    | Some ch' => ch' <> [] /\ Forall WF ch' /\ map bounds ch' = map bounds ch /\
                                  exists e', inter e' q = true /\ Permutation (flat_map live ch) ((e', it) :: flat_map live ch')
                    | None => forall e', In (e', it) (flat_map live ch) -> inter e' q = false
                    end).
      { clear Hne Hb. induction ch as [|c r IHr]; [simpl; intros e' []|].
        inversion IH as [|? ? IHc IHrest]; inversion Hc as [|? ? Hwc Hwr]; subst.
        unfold go. cbn [first_some]. fold go. specialize (IHc Hwc). destruct (remove_node q it c) as [c'|].
        - destruct IHc as (Hw' & Hbd & e' & He' & Hp). split; [discriminate|split; [constructor; auto|split; [simpl; congruence|]]].
          exists e'. split; [exact He'|]. cbn [flat_map]. change ((e', it) :: live c' ++ flat_map live r) with (((e', it) :: live c') ++ flat_map live r).
          apply Permutation_app_tail, Hp.
        - specialize (IHr IHrest Hwr). destruct (go r) as [r'|].
          + destruct IHr as (_ & Hw' & Hbd & e' & He' & Hp). split; [discriminate|split; [constructor; auto|split; [simpl; congruence|]]].
            exists e'. split; [exact He'|]. cbn [flat_map]. etransitivity; [apply Permutation_app_head, Hp|]. symmetry. apply Permutation_middle.
          + intros e' Hin. cbn [flat_map] in Hin. apply in_app_or in Hin as [Hin|Hin]; auto. }
      destruct (go ch) as [ch'|].
      * destruct Hgo as (Hne' & Hw' & Hbd & e' & He' & Hp). split; [|split; [reflexivity|exists e'; split; [exact He'|exact Hp]]].
        constructor; auto. clear - Hb Hbd. revert ch' Hbd. induction Hb as [|c r Hcv _ IHb]; intros [|c' r'] Hbd; try discriminate; constructor.
        -- simpl in Hbd. injection Hbd as H1 H2. rewrite H1. exact Hcv.
        -- apply IHb. simpl in Hbd. injection Hbd as H1 H2. exact H2.
      * exact Hgo.
    + intros e' Hin. change (live (Node e ch)) with (flat_map live ch) in Hin.
      pose proof (no_hit_below q (Node e ch) Hwf Ei) as Hn. unfold spec, spec_query in Hn. cbn [live] in Hn.
      destruct (inter e' q) eqn:E'; [|reflexivity].
      assert (Hin' : In it (map snd (filter (fun p => inter (fst p) q) (flat_map live ch)))).
      { apply in_map_iff. exists (e', it). split; [reflexivity|]. apply filter_In. split; [exact Hin|exact E']. }
      rewrite Hn in Hin'. destruct Hin'.
Qed.

(* ------------------------------------------------------------------ nearest neighbour: best-first search returns a minimum *)
Lemma gap_mono lo1 hi1 lo1' hi1' lo2 hi2 : lo1 <= lo1' -> hi1' <= hi1 -> gap lo1 hi1 lo2 hi2 <= gap lo1' hi1' lo2 hi2.
Proof. unfold gap. lia. Qed.
Lemma gap_nonneg a b c d : 0 <= gap a b c d. Proof. unfold gap. lia. Qed.
Lemma edist2_covers a b q : covers a b -> edist2 a q <= edist2 b q.
Proof. unfold covers, edist2. intros (H1 & H2 & H3 & H4).
  pose proof (gap_mono (x0 a) (x1 a) (x0 b) (x1 b) (x0 q) (x1 q) H1 H2).
  pose proof (gap_mono (y0 a) (y1 a) (y0 b) (y1 b) (y0 q) (y1 q) H3 H4).
  pose proof (gap_nonneg (x0 a) (x1 a) (x0 q) (x1 q)). pose proof (gap_nonneg (y0 a) (y1 a) (y0 q) (y1 q)). nia. Qed.

Section NNProof.
  Variable idist : Z -> Z.
  Variable qenv : env.
  Hypothesis idist_nonneg : forall it, 0 <= idist it.
  Notation pdist := (pdist idist qenv).

  (* admissibility of the metric on a tree: never below the envelope distance *)
  Definition admissible (t : tree) : Prop := forall e it, In (e, it) (live t) -> edist2 e qenv <= idist it.

  Lemma live_bounds t : WF t -> forall e it, In (e, it) (live t) -> covers (bounds t) e.
  Proof. induction t as [e0 i d|e0 ch IH] using tree_ind'; intros Hwf e it Hin.
    - simpl in Hin. destruct d; [destruct Hin|]. destruct Hin as [H|[]]. inversion H; subst. apply covers_refl.
    - inversion Hwf as [|? ? _ Hc Hb]; subst. cbn [live] in Hin. apply in_flat_map in Hin as (c & Hc1 & Hc2).
      rewrite Forall_forall in *. eapply covers_trans; [apply (Hb c Hc1)|apply (IH c Hc1 (Hc c Hc1) e it Hc2)]. Qed.

  Lemma pdist_lower t : WF t -> admissible t -> forall e it, In (e, it) (live t) -> pdist t <= idist it.
  Proof. intros Hwf Ha e it Hin. destruct t as [e0 i d|e0 ch].
    - simpl in Hin. destruct d; [destruct Hin|]. destruct Hin as [H|[]]. inversion H; subst. simpl. lia.
    - cbn [STRDefs.pdist]. etransitivity; [apply edist2_covers, (live_bounds _ Hwf e it Hin)|apply (Ha e it Hin)]. Qed.

  Definition qsorted (q : list (Z * tree)) : Prop := forall d t, In (d, t) q -> match q with [] => True | (d0, _) :: _ => d0 <= d end.
  Inductive sorted_q : list (Z * tree) -> Prop :=
  | sq_nil : sorted_q []
  | sq_cons d t r : sorted_q r -> (forall d' t', In (d', t') r -> d <= d') -> sorted_q ((d, t) :: r).

  Lemma pq_insert_in d t q x : In x (pq_insert d t q) <-> x = (d, t) \/ In x q.
  Proof. induction q as [|[d' t'] r IH]; simpl; [intuition|]. destruct (d <? d'); simpl; rewrite ?IH; intuition. Qed.
  Lemma pq_insert_sorted d t q : sorted_q q -> sorted_q (pq_insert d t q).
  Proof. induction 1 as [|d' t' r Hs IH Hle]; simpl; [constructor; [constructor|intros ? ? []]|].
    destruct (Z.ltb_spec d d').
    - constructor; [constructor; auto|]. intros d2 t2 [H2|H2]; [inversion H2; lia|specialize (Hle _ _ H2); lia].
    - constructor; auto. intros d2 t2 H2. apply pq_insert_in in H2 as [H2|H2]; [inversion H2; lia|eauto]. Qed.

  (* an entry is good: key is its distance, it is well formed, admissible, and not a deleted leaf *)
  Definition good (x : Z * tree) : Prop :=
    fst x = pdist (snd x) /\ WF (snd x) /\ admissible (snd x) /\ (forall e i, snd x <> Leaf e i true).
  Definition weight (q : list (Z * tree)) : nat := fold_right (fun x a => (nnodes (snd x) + a)%nat) O q.

  (* items of the original tree that still have to be accounted for are under a queue entry, or not better than best *)
  Definition covered (all : list (env * Z)) (q : list (Z * tree)) (best : option (Z * Z)) : Prop :=
    forall e it, In (e, it) all ->
      (exists d t, In (d, t) q /\ In (e, it) (live t)) \/ (exists bd b, best = Some (bd, b) /\ bd <= idist it).
  Definition best_ok (all : list (env * Z)) (best : option (Z * Z)) : Prop :=
    match best with Some (bd, b) => bd = idist b /\ exists e, In (e, b) all | None => True end.
  Definition is_min (all : list (env * Z)) (r : option (Z * Z)) : Prop :=
    match r with
    | Some (d, b) => d = idist b /\ (exists e, In (e, b) all) /\ forall e it, In (e, it) all -> d <= idist it
    | None => all = []
    end.

  Lemma weight_pq_insert d t q : weight (pq_insert d t q) = (nnodes t + weight q)%nat.
  Proof. induction q as [|[d' t'] r IH]; simpl; [reflexivity|]. destruct (d <? d'); simpl; [reflexivity|]. rewrite IH. lia. Qed.
  Lemma nnodes_node e ch : nnodes (Node e ch) = S (fold_right (fun c a => (nnodes c + a)%nat) O ch).
  Proof. cbn [nnodes]. f_equal. rewrite <- fold_left_rev_right.
    assert (H : forall l, fold_right (fun (y : tree) (x : nat) => (x + nnodes y)%nat) O l = fold_right (fun c a => (nnodes c + a)%nat) O l).
    { induction l as [|c r IHr]; simpl; [reflexivity|]. rewrite IHr. lia. }
    rewrite H. clear H. induction ch as [|c r IHr]; [reflexivity|]. simpl. rewrite fold_right_app. simpl.
    rewrite <- IHr. clear IHr. generalize (rev r). intros l. induction l as [|x l IHl]; simpl; [lia|]. rewrite IHl. lia. Qed.

  Lemma expand_spec bound ch q :
    sorted_q q -> Forall good q -> Forall WF ch -> Forall admissible ch ->
    let q' := expand idist qenv bound ch q in
    sorted_q q' /\ Forall good q' /\ (weight q' <= fold_right (fun c a => (nnodes c + a)%nat) O ch + weight q)%nat /\
    (forall x, In x q -> In x q') /\
    (forall c e it, In c ch -> In (e, it) (live c) ->
        (exists d, In (d, c) q') \/ (exists b, bound = Some b /\ b <= idist it)).
  Proof. revert q. induction ch as [|c r IH]; intros q Hs Hg Hw Ha; cbn [expand fold_left].
    - repeat split; auto. intros c e it [].
    - inversion Hw as [|? ? Hwc Hwr]; inversion Ha as [|? ? Hac Har]; subst.
      set (q1 := match c with Leaf _ _ true => q | _ => let d := pdist c in
                 match bound with Some b => if d <? b then pq_insert d c q else q | None => pq_insert d c q end end).
      set (P := fun q1 : list (Z * tree) => sorted_q q1 /\ Forall good q1 /\ (weight q1 <= nnodes c + weight q)%nat /\ (forall x, In x q -> In x q1) /\
                   (forall e it, In (e, it) (live c) -> (exists d, In (d, c) q1) \/ (exists b, bound = Some b /\ b <= idist it))).
      assert (H1 : P q1).
      { assert (Hins : (forall e i, c <> Leaf e i true) -> P (pq_insert (pdist c) c q)).
        { intros Hnd. unfold P. repeat split.
          - apply pq_insert_sorted, Hs.
          - apply Forall_forall. intros x Hx. apply pq_insert_in in Hx as [Hx|Hx]; [subst; repeat split; auto|].
            rewrite Forall_forall in Hg. auto.
          - rewrite weight_pq_insert. lia.
          - intros x Hx. apply pq_insert_in. auto.
          - intros e it _. left. exists (pdist c). apply pq_insert_in. auto. }
        assert (Hskip : (forall e it, In (e, it) (live c) -> exists b, bound = Some b /\ b <= idist it) -> P q).
        { intros Hk. unfold P. repeat split; auto; [lia|]. intros e it Hin. right. exact (Hk e it Hin). }
        assert (Hprune : (forall e i, c <> Leaf e i true) ->
                  P (match bound with Some b => if pdist c <? b then pq_insert (pdist c) c q else q | None => pq_insert (pdist c) c q end)).
        { intros Hnd. destruct bound as [b|]; [|apply Hins, Hnd]. destruct (Z.ltb_spec (pdist c) b); [apply Hins, Hnd|].
          apply Hskip. intros e it Hin. exists b. split; [reflexivity|]. pose proof (pdist_lower c Hwc Hac e it Hin). lia. }
        destruct c as [e0 i0 [|]|e0 ch0]; unfold q1; [apply Hskip; intros e it []| |]; apply Hprune; intros; discriminate. }
      unfold P in H1.
      destruct H1 as (Hs1 & Hg1 & Hw1 & Hin1 & Hc1).
      specialize (IH q1 Hs1 Hg1 Hwr Har). cbn zeta in IH. fold q1. fold (expand idist qenv bound r q1). destruct IH as (Hs2 & Hg2 & Hw2 & Hin2 & Hc2).
      repeat split; auto.
      + cbn [fold_right]. lia.
      + intros c0 e it [Hc0|Hc0] Hl; [subst c0|eauto]. destruct (Hc1 e it Hl) as [(d & Hd)|Hb]; [left; exists d; auto|right; exact Hb]. Qed.

  Lemma nn_loop_min all fuel q best :
    sorted_q q -> Forall good q -> (weight q <= fuel)%nat ->
    covered all q best -> best_ok all best ->
    (forall d t e it, In (d, t) q -> In (e, it) (live t) -> In (e, it) all) ->
    is_min all (nn_loop idist qenv fuel q best).
  Proof. revert q best. induction fuel as [|f IH]; intros q best Hs Hg Hw Hcov Hb Hsub.
    - (* no fuel left: the queue is empty because every entry weighs at least one *)
      destruct q as [|[d t] r].
      + cbn [nn_loop]. clear - Hcov Hb idist_nonneg. unfold is_min, best_ok, covered in *. destruct best as [[bd b]|].
        * destruct Hb as (H1 & H2). repeat split; auto. intros e it Hin. destruct (Hcov e it Hin) as [(d & t & [] & _)|(bd' & b' & E & Hle)].
          inversion E; subst. lia.
        * destruct all as [|[e it] r]; [reflexivity|]. destruct (Hcov e it (or_introl eq_refl)) as [(d & t & [] & _)|(bd' & b' & E & _)]. discriminate.
      + exfalso. simpl in Hw. destruct t; simpl in Hw; lia.
    - destruct q as [|[d t] r].
      + cbn [nn_loop]. clear - Hcov Hb idist_nonneg. unfold is_min, best_ok, covered in *. destruct best as [[bd b]|].
        * destruct Hb as (H1 & H2). repeat split; auto. intros e it Hin. destruct (Hcov e it Hin) as [(d & t & [] & _)|(bd' & b' & E & Hle)].
          inversion E; subst. lia.
        * destruct all as [|[e it] r]; [reflexivity|]. destruct (Hcov e it (or_introl eq_refl)) as [(d & t & [] & _)|(bd' & b' & E & _)]. discriminate.
      + inversion Hs as [|? ? ? Hsr Hle]; subst. inversion Hg as [|? ? Hgt Hgr]; subst.
        destruct Hgt as (Hd & Hwf & Hadm & Hnd). cbn [fst snd] in *.
        assert (Hstop : forall bd b, best = Some (bd, b) -> (bd <=? 0) || (bd <=? d) = true -> is_min all best).
        { intros bd b E Hc. subst best. destruct Hb as (H1 & H2). repeat split; auto. intros e it Hin.
          destruct (Hcov e it Hin) as [(d' & t' & Hq & Hl)|(bd' & b' & E & Hle')]; [|inversion E; subst; lia].
          pose proof (idist_nonneg it).
          assert (d <= idist it); [|lia].
          destruct Hq as [Hq|Hq].
          - inversion Hq; subst d' t'. rewrite Hd. eapply pdist_lower; eauto.
          - specialize (Hle _ _ Hq). rewrite Forall_forall in Hgr. destruct (Hgr _ Hq) as (Hd' & Hwf' & Hadm' & _). cbn [fst snd] in *.
            pose proof (pdist_lower t' Hwf' Hadm' e it Hl). lia. }
        (* the two ways of continuing *)
        assert (Hleaf : forall e0 it0, t = Leaf e0 it0 false -> (forall bd b, best = Some (bd, b) -> d < bd) ->
                          is_min all (nn_loop idist qenv f r (Some (d, it0)))).
        { intros e0 it0 Et Hlt. subst t. apply IH; auto.
          - simpl in Hw. lia.
          - intros e it Hin. destruct (Hcov e it Hin) as [(d' & t' & [Hq|Hq] & Hl)|(bd' & b' & E & Hle')].
            + inversion Hq; subst d' t'. simpl in Hl. destruct Hl as [Hl|[]]. injection Hl as He Hi. right. exists d, it0. split; [reflexivity|]. simpl in Hd. rewrite <- Hi. lia.
            + left. eauto.
            + right. exists d, it0. split; [reflexivity|]. specialize (Hlt _ _ E). lia.
          - simpl. split; [exact Hd|]. exists e0. apply (Hsub d (Leaf e0 it0 false) e0 it0); [left; reflexivity|left; reflexivity].
          - intros d' t' e it Hq Hl. apply (Hsub d' t' e it); [right; exact Hq|exact Hl]. }
        assert (Hnode : forall e0 ch bound, t = Node e0 ch ->
                          (forall b, bound = Some b -> exists bb, best = Some (b, bb)) ->
                          is_min all (nn_loop idist qenv f (expand idist qenv bound ch r) best)).
        { intros e0 ch bound Et Hbound. subst t. clear Hd. inversion Hwf as [|? ? Hne Hwc Hbc]; subst.
          assert (Hac : Forall admissible ch).
          { apply Forall_forall. intros c Hc e it Hl. apply (Hadm e it). cbn [live]. apply in_flat_map. eauto. }
          destruct (expand_spec bound ch r Hsr Hgr Hwc Hac) as (Hs' & Hg' & Hw' & Hin' & Hc').
          apply IH; auto.
          - unfold weight in Hw. cbn [fold_right snd] in Hw. fold (weight r) in Hw. rewrite nnodes_node in Hw. lia.
          - intros e it Hin. destruct (Hcov e it Hin) as [(d' & t' & [Hq|Hq] & Hl)|Hbest]; [| |right; exact Hbest].
            + inversion Hq; subst d' t'. cbn [live] in Hl. apply in_flat_map in Hl as (c & Hc1 & Hc2).
              destruct (Hc' c e it Hc1 Hc2) as [(dc & Hdc)|(b & Eb & Hle')]; [left; eauto|].
              right. destruct (Hbound b Eb) as (bb & Ebb). eauto.
            + left. exists d', t'. auto.
          - intros d' t' e it Hq Hl.
            assert (Hor : In (d', t') r \/ In t' ch).
            { clear - Hq. unfold expand in Hq. revert r Hq. induction ch as [|c l IHl]; intros r Hq; [left; exact Hq|].
              cbn [fold_left] in Hq. apply IHl in Hq as [Hq|Hq]; [|right; right; exact Hq].
              destruct c as [? ? [|]|? ?]; auto; destruct bound; try destruct (_ <? _); auto;
                apply pq_insert_in in Hq as [Hq|Hq]; auto; inversion Hq; right; left; reflexivity. }
            destruct Hor as [Hr|Hc]; [apply (Hsub d' t' e it); [right; exact Hr|exact Hl]|].
            apply (Hsub d (Node e0 ch) e it); [left; reflexivity|]. cbn [live]. apply in_flat_map. eauto. }
        cbn [nn_loop]. destruct best as [[bd b]|].
        * destruct ((bd <=? 0) || (bd <=? d)) eqn:Ec; [eapply Hstop; eauto|].
          destruct t as [e0 it0 [|]|e0 ch]; [exfalso; eapply Hnd; reflexivity| |].
          -- eapply Hleaf; [reflexivity|]. intros bd' b' E. inversion E; subst. lia.
          -- eapply Hnode; [reflexivity|]. intros b0 E. inversion E; subst. eauto.
        * destruct t as [e0 it0 [|]|e0 ch]; [exfalso; eapply Hnd; reflexivity| |].
          -- eapply Hleaf; [reflexivity|]. intros bd' b' E. discriminate.
          -- eapply Hnode; [reflexivity|]. intros b0 E. discriminate.
  Qed.

  Theorem nearest_min t : WF t -> admissible t -> is_min (live t) (nearest idist qenv (Some t)).
  Proof. intros Hwf Ha. unfold nearest.
    assert (Hgen : (forall e i, t <> Leaf e i true) -> is_min (live t) (nn_loop idist qenv (S (nnodes t)) [(pdist t, t)] None)).
    { intros Hnd. apply nn_loop_min.
      - constructor; [constructor|intros ? ? []].
      - constructor; [|constructor]. repeat split; auto.
      - simpl. lia.
      - intros e it Hin. left. exists (pdist t), t. split; [left; reflexivity|exact Hin].
      - exact I.
      - intros d t' e it [Hq|[]] Hl. inversion Hq; subst. exact Hl. }
    destruct t as [e i [|]|e ch]; [reflexivity| |]; apply Hgen; intros; discriminate. Qed.
End NNProof.
