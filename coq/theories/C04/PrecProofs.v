(* C04/PrecProofs — theorems about the models of C04/PrecDefs. *)
From Coq Require Import ZArith List Bool Lia Floats.SpecFloat.
From GeosV.Lib Require Import GeomDefs LocateDefs ValidDefs GenPreludeF Geom.
From GeosV.C03 Require Import OverlayDefs OverlayGeom OverlayProofs.
From GeosV.C04 Require Import GenPreludePM PrecDefs PrecRun.
From GeosV.C04 Require GenPreludeHP.
From GeosV.Gen Require PM_makePrecise HP_intersectsScaled.
Import ListNotations.
Local Open Scope Z_scope.

(* ------------------------------------------------------------------ G: generated makePrecise = hand model *)
Theorem gen_makePrecise_eq : forall st v, f_modelType st = E_FIXED -> PM_makePrecise.g_makePrecise st v = make_precise st v.
Proof.
  intros st v H. unfold PM_makePrecise.g_makePrecise, make_precise. rewrite H.
  change (E_FIXED =? PM_makePrecise.E_Type_FLOATING_SINGLE) with false. change (E_FIXED =? PM_makePrecise.E_Type_FIXED) with true.
  cbv iota. reflexivity.
Qed.
Lemma pm_of_scale_fixed : forall s, f_modelType (pm_of_scale s) = E_FIXED.
Proof. intro s. unfold pm_of_scale. destruct (ltb (if ltb s sf_zero then _ else _) sf_one); reflexivity. Qed.
Theorem mp_bits_eq : forall scale v, mp_bits scale v = mp_bits_hand scale v.
Proof. intros. unfold mp_bits, mp_bits_hand. rewrite gen_makePrecise_eq; [reflexivity|apply pm_of_scale_fixed]. Qed.

(* ------------------------------------------------------------------ the rounding rule over the integers *)
(* k = floor(V/G + 1/2):  V - kG in [-G/2, G/2) — a nearest multiple, ties towards +infinity *)
Theorem round_half_up_spec : forall V G, 0 < G -> let k := round_half_up V G in - G <= 2 * (V - k * G) < G.
Proof.
  intros V G HG k. subst k. unfold round_half_up.
  pose proof (Z.div_mod (2 * V + G) (2 * G) ltac:(lia)) as Hd.
  pose proof (Z.mod_pos_bound (2 * V + G) (2 * G) ltac:(lia)) as Hb.
  set (q := (2 * V + G) / (2 * G)) in *. set (r := (2 * V + G) mod (2 * G)) in *.
  replace (2 * (V - q * G)) with (2 * V + G - 2 * G * q - G) by ring. lia.
Qed.
Theorem round_half_up_nearest : forall V G j, 0 < G -> Z.abs (V - round_half_up V G * G) <= Z.abs (V - j * G).
Proof.
  intros V G j HG. pose proof (round_half_up_spec V G HG) as H. cbv zeta in H.
  set (k := round_half_up V G) in *.
  destruct (Z.eq_dec j k) as [->|Hne]; [lia|].
  (* |V - jG| >= |k - j| G - |V - kG| >= G - G/2 *)
  assert (Hd : 1 <= Z.abs (k - j)) by lia.
  assert (Hm : G <= Z.abs ((k - j) * G)).
  { rewrite Z.abs_mul. rewrite (Z.abs_eq G) by lia. nia. }
  replace (V - j * G) with ((V - k * G) + (k - j) * G) by ring.
  lia.
Qed.
Theorem nearest_multiple_of_multiple : forall j G, 0 < G -> nearest_multiple (j * G) G = j * G.
Proof.
  intros j G HG. unfold nearest_multiple, round_half_up. f_equal.
  replace (2 * (j * G) + G) with (G + j * (2 * G)) by ring. rewrite Z.div_add by lia.
  rewrite (Z.div_small G (2 * G)) by lia. lia.
Qed.
Theorem nearest_multiple_fixed_point : forall V G, 0 < G -> nearest_multiple (nearest_multiple V G) G = nearest_multiple V G.
Proof. intros V G HG. unfold nearest_multiple at 2 3. apply nearest_multiple_of_multiple. exact HG. Qed.
(* java_math_round on a finite non-integer binary64 value s m 2^e (e < 0): the integer floor(value + 1/2), as a double;
   a zero result keeps the sign of the argument *)
Theorem jround_spec : forall s m e, e < 0 ->
  jround (S754_finite s m e) =
  let k := round_half_up (signed s m) (2 ^ (- e)) in if k =? 0 then S754_zero s else ofZ k.
Proof. intros s m e He. unfold jround. destruct (Z.leb_spec 0 e); [lia|reflexivity]. Qed.
Theorem jround_integer : forall s m e, 0 <= e -> jround (S754_finite s m e) = S754_finite s m e.
Proof. intros s m e He. unfold jround. destruct (Z.leb_spec 0 e); [reflexivity|lia]. Qed.

(* ------------------------------------------------------------------ pointwise reduction *)
Lemma map_geom_compose : forall f h g, map_geom f (map_geom h g) = map_geom (fun p => f (h p)) g.
Proof.
  intros f h. apply (geom_ind' (fun g => map_geom f (map_geom h g) = map_geom (fun p => f (h p)) g)); intros; cbn [map_geom].
  - destruct p; reflexivity.
  - rewrite map_map. reflexivity.
  - rewrite map_map. reflexivity.
  - rewrite map_map. f_equal. rewrite map_map. apply map_ext. intro. apply map_map.
  - rewrite map_map. f_equal. apply map_ext. intros [p|]; reflexivity.
  - rewrite map_map. f_equal. apply map_ext. intro. apply map_map.
  - rewrite map_map. f_equal. apply map_ext. intros [s hs]. unfold map_poly; cbn [fst snd]. rewrite map_map. f_equal.
    rewrite map_map. apply map_ext. intro. apply map_map.
  - f_equal. rewrite map_map. apply map_ext_in. intros a Ha. rewrite Forall_forall in H. exact (H a Ha).
Qed.
Lemma coords_of_map : forall f g, coords_of (map_geom f g) = map f (coords_of g).
Proof.
  intro f. apply (geom_ind' (fun g => coords_of (map_geom f g) = map f (coords_of g))); intros; cbn [map_geom coords_of].
  - destruct p; reflexivity.
  - reflexivity.
  - reflexivity.
  - rewrite map_app, concat_map. reflexivity.
  - induction ps as [|[p|] ps IH]; cbn; [reflexivity| |]; rewrite IH; reflexivity.
  - rewrite concat_map. reflexivity.
  - induction ps as [|[s hs] ps IH]; cbn [map flat_map]; [reflexivity|]. rewrite IH, map_app. f_equal.
    unfold map_poly; cbn [fst snd]. rewrite map_app, concat_map. reflexivity.
  - induction gs as [|a gs IH]; cbn [map flat_map]; [reflexivity|]. inversion H; subst. rewrite map_app. f_equal; [assumption|]. apply IH. assumption.
Qed.
(* the pointwise reducer keeps the shape of the tree (same types, same element / ring / vertex counts, same order) and
   changes every X and Y to the rounding function of itself — nothing else *)
Theorem pointwise_structure : forall f g,
  shape_of (pointwise f g) = shape_of g
  /\ coords_of (pointwise f g) = map (fun p => (f (fst p), f (snd p))) (coords_of g).
Proof.
  intros f g. split.
  - unfold shape_of, pointwise. apply map_geom_compose.
  - unfold pointwise. apply coords_of_map.
Qed.
Theorem pointwise_fixed_points : forall f g, (forall z, f (f z) = f z) -> pointwise f (pointwise f g) = pointwise f g.
Proof.
  intros f g Hf. unfold pointwise. rewrite map_geom_compose. cbn [fst snd].
  assert (E : forall g, map_geom (fun p : pt => (f (f (fst p)), f (f (snd p)))) g = map_geom (fun p : pt => (f (fst p), f (snd p))) g).
  { clear g. apply (geom_ind' (fun g => map_geom (fun p : pt => (f (f (fst p)), f (f (snd p)))) g = map_geom (fun p : pt => (f (fst p), f (snd p))) g));
      intros; cbn [map_geom];
      assert (Hp : forall c : pt, (f (f (fst c)), f (f (snd c))) = (f (fst c), f (snd c))) by (intro c; rewrite !Hf; reflexivity).
    - destruct p as [q|]; cbn; [rewrite Hp|]; reflexivity.
    - f_equal. apply map_ext. exact Hp.
    - f_equal. apply map_ext. exact Hp.
    - f_equal; [apply map_ext; exact Hp|]. apply map_ext. intro. apply map_ext. exact Hp.
    - f_equal. apply map_ext. intros [p|]; cbn; [rewrite Hp|]; reflexivity.
    - f_equal. apply map_ext. intro. apply map_ext. exact Hp.
    - f_equal. apply map_ext. intros [s hs]. unfold map_poly; cbn [fst snd]. f_equal; [apply map_ext; exact Hp|]. apply map_ext. intro. apply map_ext. exact Hp.
    - f_equal. apply map_ext_in. intros a Ha. rewrite Forall_forall in H. exact (H a Ha). }
  apply E.
Qed.

(* ------------------------------------------------------------------ PrecSpec: soundness of the checker *)
Record PrecSpecW (p : params) (o : ovop) (A B R : geom) : Prop := mkPrecSpec {
  ps_valid : valid_geom R = true;
  (* at every side witness of W(A, B, R) farther than tol = 2g from EVERY point of the linework and point components of A
     and B: membership in R is the Boolean combination of the memberships in A and B *)
  ps_sides : forall x y w, In (x, y, w) (side_witnesses p A B R) ->
     (forall c, on_linework A c \/ on_linework B c -> 0 < snd c -> ~ within (p_tn p) (p_td p) (x, y, w) c) ->
     mem R (x, y, w) = boolop o (mem A (x, y, w)) (mem B (x, y, w));
  (* every vertex of R is within tol of the point set of A or of B *)
  ps_verts : forall v, In v (coords_of R) ->
     near_geom (p_tn p) (p_td p) A (hp v) = true \/ near_geom (p_tn p) (p_td p) B (hp v) = true
}.
Theorem prec_check_sound : forall p o A B R, prec_check p o A B R = true -> params_ok p = true /\ PrecSpecW p o A B R.
Proof.
  intros p o A B R H. unfold prec_check in H.
  apply andb_prop in H; destruct H as [H Cv]. apply andb_prop in H; destruct H as [H Cs]. apply andb_prop in H; destruct H as [Hp Cval].
  split; [exact Hp|].
  assert (Hp' := Hp). unfold params_ok in Hp'.
  apply andb_prop in Hp'; destruct Hp' as [Hp' Hed]. apply andb_prop in Hp'; destruct Hp' as [Hp' Hen]. apply andb_prop in Hp'; destruct Hp' as [Htn Htd].
  apply Z.leb_le in Htn. apply Z.ltb_lt in Htd.
  constructor.
  - exact Cval.
  - intros x y w Hin Hgeo.
    destruct (side_witness_geometry p A B R _ Hp Hin) as (_ & _ & _ & _ & _ & _ & _ & _ & _ & _ & _ & _ & Hw & _). cbn [snd] in Hw.
    assert (Hfar : far_inputs p A B (x, y, w) = true).
    { unfold far_inputs. apply andb_true_intro. split; apply far_geom_complete; try assumption; intros c Hc; apply Hgeo; [left|right]; exact Hc. }
    pose proof (isnil_filter_forall _ _ Cs _ Hin) as Hb. unfold side_bad in Hb. rewrite Hfar in Hb. cbn [andb] in Hb.
    apply negb_false_iff in Hb. apply eqb_prop in Hb. exact Hb.
  - intros v Hin. pose proof (isnil_filter_forall _ _ Cv _ Hin) as Hb. cbv beta in Hb. apply negb_false_iff in Hb.
    apply orb_prop in Hb. exact Hb.
Qed.

Theorem prec_check_nv_sound : forall p o A B R, prec_check_nv p o A B R = true ->
  (forall q, In q (side_witnesses p A B R) -> far_inputs p A B q = true -> mem R q = boolop o (mem A q) (mem B q))
  /\ (forall v, In v (coords_of R) -> near_geom (p_tn p) (p_td p) A (hp v) = true \/ near_geom (p_tn p) (p_td p) B (hp v) = true).
Proof.
  intros p o A B R H. unfold prec_check_nv in H.
  apply andb_prop in H; destruct H as [H Cv]. apply andb_prop in H; destruct H as [Hp Cs]. split.
  - intros q Hin Hfar. pose proof (isnil_filter_forall _ _ Cs _ Hin) as Hb. unfold side_bad in Hb. rewrite Hfar in Hb. cbn [andb] in Hb.
    apply negb_false_iff in Hb. apply eqb_prop in Hb. exact Hb.
  - intros v Hin. pose proof (isnil_filter_forall _ _ Cv _ Hin) as Hb. cbv beta in Hb. apply negb_false_iff in Hb. apply orb_prop in Hb. exact Hb.
Qed.
