(* C04/GenPreludePM — meaning of the names used by the generated unit Gen/PM_makePrecise (doubles = SpecFloat.spec_float,
   Lib/GenPreludeF), read from include/geos/geom/PrecisionModel.h and src/util/math.cpp:
   * the PrecisionModel object is the record of its three data members;
   * util::round(double) is java_math_round (src/util/math.cpp): with n = trunc(val), f = |val - n|:
       val >= 0:  f < 0.5 -> floor(val) | f > 0.5 -> ceil(val) | f = 0.5 -> n + 1.0
       val <  0:  f < 0.5 -> ceil(val)  | f > 0.5 -> floor(val)| f = 0.5 -> n
     i.e. the integer floor(val + 1/2) — round half UP (towards +infinity), not half away from zero — computed without
     rounding error; a zero result carries the sign of val (ceil(-0.3) = -0.0, n = -0.0 for -0.5); infinities and NaN
     are returned as they are (modf gives f = 0 for an infinity; every comparison with NaN is false, n = NaN). *)
From Coq Require Import ZArith Bool Floats.SpecFloat.
From GeosV Require Import Lib.GenPreludeF.
Local Open Scope Z_scope.

Record pmst := mkPM { f_modelType : Z; f_scale : spec_float; f_gridSize : spec_float }.

(* floor (V / G + 1/2) for G > 0 *)
Definition round_half_up (V G : Z) : Z := (2 * V + G) / (2 * G).
Definition signed (s : bool) (m : positive) : Z := if s then Zneg m else Zpos m.
Definition jround (v : spec_float) : spec_float :=
  match v with
  | S754_finite s m e =>
      if 0 <=? e then v
      else let k := round_half_up (signed s m) (2 ^ (- e)) in
           if k =? 0 then S754_zero s else ofZ k
  | _ => v
  end.
Definition c_round_1 := jround.
