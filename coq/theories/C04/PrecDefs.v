(* C04/PrecDefs — fixed-precision results: executable models and the relational specification.  DEFINITIONS ONLY.

   1. binary64 (carrier SpecFloat.spec_float, Lib/GenPreludeF) models of
        PrecisionModel::setScale / snapToInt (std::round = half away from zero), PrecisionModel::makePrecise (both branches;
        util::round = java_math_round = floor(v + 1/2), see GenPreludePM), the scale GEOS*Prec_r / GEOSGeom_setPrecision_r
        derive from a grid size (1.0 / |gridSize|) and what GEOSGeom_getPrecision_r reports (1.0 / scale);
      they are run bit-for-bit against the real PrecisionModel.
   2. the exact specification of the rounding rule over the integers: V, G > 0 integers in one common unit,
        round_half_up V G = floor(V/G + 1/2), nearest multiple = round_half_up V G * G.
   3. HotPixel::intersectsScaled over integers in half pixel units: hand model, the real class "closed segment meets the
      half-open pixel [cx-1/2, cx+1/2) x [cy-1/2, cy+1/2)" as a Prop and as an exact decision procedure (Fourier-Motzkin
      on the parameter of the segment).
   4. the pointwise reducer: map over every vertex of the tree.
   5. PrecSpec g A B R and its checker: validity, membership at the side witnesses farther than 2g from the inputs (the
      witness family and the distance tests of C03/OverlayDefs with tol = 2g), every vertex of R within 2g of the inputs.
      The grid clause (every ordinate of R is a fixed point of makePrecise) is evaluated with the binary64 model. *)
From Coq Require Import ZArith List Bool Floats.SpecFloat.
From GeosV.Lib Require Import GeomDefs LocateDefs ValidDefs GenPreludeF.
From GeosV.C03 Require Import OverlayDefs.
From GeosV.C04 Require Import GenPreludePM.
From GeosV.C04 Require GenPreludeHP.
Import ListNotations.
Local Open Scope Z_scope.

(* ------------------------------------------------------------------ 1. binary64 *)
Definition sf_one : spec_float := ofZ 1.
Definition sf_zero : spec_float := S754_zero false.
(* std::round: half away from zero; exact; zero results carry the sign of the argument *)
Definition sround (v : spec_float) : spec_float :=
  match v with
  | S754_finite s m e =>
      if 0 <=? e then v
      else let k := round_half_up (Zpos m) (2 ^ (- e)) in         (* floor(|v| + 1/2) *)
           if k =? 0 then S754_zero s else ofZ (if s then - k else k)
  | _ => v
  end.
(* GRIDSIZE_INTEGER_TOLERANCE = 1e-5 *)
Definition grid_tol : spec_float := of_bits 4532020583610935537.
(* PrecisionModel::snapToInt *)
Definition snap_to_int (val tol : spec_float) : spec_float :=
  let vi := sround val in
  if ltb (SFabs (sub val vi)) tol then vi else val.
Definition E_FIXED : Z := 0.
(* PrecisionModel(double newScale): modelType = FIXED; setScale(newScale) for newScale <> 0 *)
Definition pm_of_scale (newScale : spec_float) : pmst :=
  let scale := if ltb newScale sf_zero then div sf_one (SFabs newScale) else newScale in
  if ltb scale sf_one
  then mkPM E_FIXED scale (snap_to_int (div sf_one scale) grid_tol)
  else let scale' := snap_to_int scale grid_tol in mkPM E_FIXED scale' (div sf_one scale').
(* the hand model of makePrecise for a FIXED model *)
Definition make_precise (st : pmst) (v : spec_float) : spec_float :=
  if gtb (f_gridSize st) sf_one then mul (jround (div v (f_gridSize st))) (f_gridSize st)
  else if neb (f_scale st) sf_zero then div (jround (mul v (f_scale st))) (f_scale st)
  else v.
(* the precision model the C API builds from a grid size, and the grid size it reports back *)
Definition pm_of_grid (g : spec_float) : pmst := pm_of_scale (div sf_one (SFabs g)).
Definition reported_grid (st : pmst) : spec_float := div sf_one (f_scale st).

(* ------------------------------------------------------------------ 2. the rounding rule over the integers *)
Definition nearest_multiple (V G : Z) : Z := round_half_up V G * G.

(* ------------------------------------------------------------------ 3. hot pixel (integers in half pixel units) *)
(* the closed segment pq meets the half-open square [hx-1, hx+1) x [hy-1, hy+1): some parameter n/m in [0,1] *)
Definition seg_meets_pixel (hx hy px py qx qy : Z) : Prop :=
  exists n m, 0 < m /\ 0 <= n <= m
    /\ m * (hx - 1) <= (m - n) * px + n * qx < m * (hx + 1)
    /\ m * (hy - 1) <= (m - n) * py + n * qy < m * (hy + 1).
(* hand model of HotPixel::intersectsScaled *)
Definition osgn (px py qx qy x y : Z) : Z := Z.sgn ((qx - px) * (y - py) - (qy - py) * (x - px)).
Definition hp_model (hx hy p0x p0y p1x p1y : Z) : bool :=
  let '(px, py, qx, qy) := if p0x >? p1x then (p1x, p1y, p0x, p0y) else (p0x, p0y, p1x, p1y) in
  let maxx := hx + 1 in let minx := hx - 1 in let maxy := hy + 1 in let miny := hy - 1 in
  if Z.min px qx >=? maxx then false else
  if Z.max px qx <? minx then false else
  if Z.min py qy >=? maxy then false else
  if Z.max py qy <? miny then false else
  if px =? qx then true else
  if py =? qy then true else
  let oUL := osgn px py qx qy minx maxy in
  if oUL =? 0 then negb (py <? qy) else
  let oUR := osgn px py qx qy maxx maxy in
  if oUR =? 0 then negb (py >? qy) else
  if negb (oUL =? oUR) then true else
  let oLL := osgn px py qx qy minx miny in
  if oLL =? 0 then true else
  if negb (oLL =? oUL) then true else
  let oLR := osgn px py qx qy maxx miny in
  if oLR =? 0 then negb (py <? qy) else
  if negb (oLL =? oLR) then true else
  if negb (oLR =? oUR) then true else false.

(* the real class decided exactly: bounds on the parameter t of p + t (q - p), as fractions num/den (den > 0) with a
   strictness flag; a constraint that does not depend on t is a Boolean *)
Record bound := mkB { b_num : Z; b_den : Z; b_strict : bool }.
(* c0 + t d >= lo  and  c0 + t d < hi  on one axis: (feasible so far, lower bounds, upper bounds) *)
Definition axis_bounds (c0 d lo hi : Z) : bool * list bound * list bound :=
  if d =? 0 then ((lo <=? c0) && (c0 <? hi), [], [])
  else if 0 <? d then (true, [mkB (lo - c0) d false], [mkB (hi - c0) d true])
  else (true, [mkB (c0 - hi) (- d) true], [mkB (c0 - lo) (- d) false]).
(* lower bound l and upper bound u leave room: l < u, or l = u with both closed *)
Definition compat (l u : bound) : bool :=
  let a := b_num l * b_den u in let b := b_num u * b_den l in
  (a <? b) || ((a =? b) && negb (b_strict l) && negb (b_strict u)).
Definition meets_fm (hx hy px py qx qy : Z) : bool :=
  let '(okx, lx, ux) := axis_bounds px (qx - px) (hx - 1) (hx + 1) in
  let '(oky, ly, uy) := axis_bounds py (qy - py) (hy - 1) (hy + 1) in
  let lows := mkB 0 1 false :: lx ++ ly in
  let ups := mkB 1 1 false :: ux ++ uy in
  okx && oky && forallb (fun l => forallb (compat l) ups) lows.

(* the same class decided by EXHIBITING a point: the largest lower bound (a strict one among equals), the smallest upper
   bound, the parameter between them (their midpoint when they differ), and the inequalities of seg_meets_pixel checked at
   that parameter *)
Definition pick_low (a b : bound) : bound :=
  let x := b_num a * b_den b in let y := b_num b * b_den a in
  if x <? y then b else if y <? x then a else if b_strict a then a else b.
Definition pick_up (a b : bound) : bound :=
  let x := b_num a * b_den b in let y := b_num b * b_den a in
  if x <? y then a else if y <? x then b else if b_strict a then a else b.
Definition check_param (hx hy px py qx qy n m : Z) : bool :=
  (0 <? m) && (0 <=? n) && (n <=? m)
  && (m * (hx - 1) <=? (m - n) * px + n * qx) && ((m - n) * px + n * qx <? m * (hx + 1))
  && (m * (hy - 1) <=? (m - n) * py + n * qy) && ((m - n) * py + n * qy <? m * (hy + 1)).
Definition meets_wit (hx hy px py qx qy : Z) : bool :=
  let '(okx, lx, ux) := axis_bounds px (qx - px) (hx - 1) (hx + 1) in
  let '(oky, ly, uy) := axis_bounds py (qy - py) (hy - 1) (hy + 1) in
  let l := fold_left pick_low (lx ++ ly) (mkB 0 1 false) in
  let u := fold_left pick_up (ux ++ uy) (mkB 1 1 false) in
  let a := b_num l * b_den u in let b := b_num u * b_den l in
  if a <? b then check_param hx hy px py qx qy (a + b) (2 * (b_den l * b_den u))
  else check_param hx hy px py qx qy (b_num l) (b_den l).

(* all configurations with the pixel at the origin and both end points in the window [-w, w]^2 (half units) *)
Definition zrange (lo hi : Z) : list Z := map (fun k => lo + Z.of_nat k) (List.seq 0%nat (Z.to_nat (hi - lo + 1))).
Definition window_ok (f g h : Z -> Z -> Z -> Z -> bool) (w : Z) : bool :=
  let r := zrange (- w) w in
  forallb (fun px => forallb (fun py => forallb (fun qx => forallb (fun qy =>
     Bool.eqb (f px py qx qy) (g px py qx qy) && Bool.eqb (g px py qx qy) (h px py qx qy)) r) r) r) r.

(* ------------------------------------------------------------------ 4. pointwise reduction *)
Definition pointwise (f : Z -> Z) (g : geom) : geom := map_geom (fun p => (f (fst p), f (snd p))) g.
(* the shape of a tree: every coordinate erased *)
Definition shape_of (g : geom) : geom := map_geom (fun _ => (0, 0)) g.

(* ------------------------------------------------------------------ 5. PrecSpec *)
(* every vertex of R within tol of the point set of A or of B *)
Definition bad_prec_vertices (p : params) (A B R : geom) : list pt :=
  filter (fun c => negb (near_geom (p_tn p) (p_td p) A (hp c) || near_geom (p_tn p) (p_td p) B (hp c))) (coords_of R).
Definition prec_check (p : params) (o : ovop) (A B R : geom) : bool :=
  params_ok p && valid_geom R && isnil (bad_sides p o A B R) && isnil (bad_prec_vertices p A B R).
(* GEOS_PREC_KEEP_COLLAPSED: validity is not promised (collapsed lines are kept as they are) *)
Definition prec_check_nv (p : params) (o : ovop) (A B R : geom) : bool :=
  params_ok p && isnil (bad_sides p o A B R) && isnil (bad_prec_vertices p A B R).
(* diagnostics *)
Definition prec_verdict (p : params) (o : ovop) (A B R : geom) : bool * list hpt * list pt :=
  (valid_geom R, bad_sides p o A B R, bad_prec_vertices p A B R).

(* ------------------------------------------------------------------ entry points on bit patterns *)
Definition mp_bits_hand (scale v : Z) : Z := to_bits (make_precise (pm_of_scale (of_bits scale)) (of_bits v)).
Definition pm_bits (scale : Z) : Z * Z := let st := pm_of_scale (of_bits scale) in (to_bits (f_scale st), to_bits (f_gridSize st)).
Definition grid_scale_bits (g : Z) : Z := to_bits (div sf_one (SFabs (of_bits g))).
Definition reported_grid_bits (g : Z) : Z := to_bits (reported_grid (pm_of_grid (of_bits g))).
