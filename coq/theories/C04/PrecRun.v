(* C04/PrecRun — entry points of the extracted models that go through the GENERATED units (tie G executed). *)
From Coq Require Import ZArith List Bool Floats.SpecFloat.
From GeosV.Lib Require Import GenPreludeF.
From GeosV.C04 Require Import GenPreludePM PrecDefs.
From GeosV.C04 Require GenPreludeHP.
From GeosV.Gen Require PM_makePrecise HP_intersectsScaled HP_intersectsPt.
Local Open Scope Z_scope.

(* PrecisionModel(scale).makePrecise(v), on bit patterns, through the generated makePrecise *)
Definition mp_bits (scale v : Z) : Z := to_bits (PM_makePrecise.g_makePrecise (pm_of_scale (of_bits scale)) (of_bits v)).
(* HotPixel(centre (cx, cy), scale factor 1).intersects(p0, p1) with integer scaled coordinates, through the generated
   intersectsScaled in half units *)
Definition hp_gen (hx hy p0x p0y p1x p1y : Z) : bool :=
  HP_intersectsScaled.g_intersectsScaled (GenPreludeHP.mkHP hx hy) p0x p0y p1x p1y.
Definition hp_run (cx cy p0x p0y p1x p1y : Z) : bool * bool * bool :=
  (hp_gen (2 * cx) (2 * cy) (2 * p0x) (2 * p0y) (2 * p1x) (2 * p1y),
   hp_model (2 * cx) (2 * cy) (2 * p0x) (2 * p0y) (2 * p1x) (2 * p1y),
   meets_fm (2 * cx) (2 * cy) (2 * p0x) (2 * p0y) (2 * p1x) (2 * p1y)).
(* the same with ordinates given directly in half units (end points at half-integer scaled coordinates) *)
Definition hp_run_half (hx hy p0x p0y p1x p1y : Z) : bool * bool * bool :=
  (hp_gen hx hy p0x p0y p1x p1y, hp_model hx hy p0x p0y p1x p1y, meets_fm hx hy p0x p0y p1x p1y).
(* HotPixel(centre).intersects(p), half units, through the generated unit; and the half-open square *)
Definition hp_pt (hx hy x y : Z) : bool * bool :=
  (HP_intersectsPt.g_intersectsPt (GenPreludeHP.mkHP hx hy) (x, y),
   (hx - 1 <=? x) && (x <? hx + 1) && (hy - 1 <=? y) && (y <? hy + 1)).
