(* C04/GenPreludeHP — meaning of the names used by the generated unit Gen/HP_intersectsScaled when every double is an
   INTEGER number of HALF pixel units (scaled coordinates multiplied by 2: the pixel of centre (cx, cy) has hpx = 2 cx,
   hpy = 2 cy and the literal TOLERANCE = 0.5 is one unit).  Comparisons and + - are exact on such values in binary64
   (|values| < 2^52); CGAlgorithmsDD::orientationIndex(x1,y1,x2,y2,x,y) is the exact sign of the determinant
   (C07: orientationIndex on the grid), which does not depend on the unit. *)
From Coq Require Import ZArith Bool.
Local Open Scope Z_scope.

Definition add := Z.add.
Definition sub := Z.sub.
Definition ltb := Z.ltb.
Definition leb := Z.leb.
Definition gtb := Z.gtb.
Definition geb := Z.geb.
Definition eqb := Z.eqb.
Definition neb (a b : Z) := negb (Z.eqb a b).
Definition zneb (a b : Z) := negb (Z.eqb a b).
Definition c_min_2 := Z.min.
Definition c_max_2 := Z.max.
(* a literal num/den in pixel units is 2 num / den half units (only 0.5 occurs) *)
Definition flit (bits num den : Z) : Z := (2 * num) / den.
Record hpst := mkHP { f_hpx : Z; f_hpy : Z }.
Definition c_orientationIndex_6 (x1 y1 x2 y2 x y : Z) : Z := Z.sgn ((x2 - x1) * (y - y1) - (y2 - y1) * (x - x1)).
(* HotPixel::intersects(const CoordinateXY& p): the point as a pair in half units; HotPixel::scale(val) = val * scaleFactor is
   the identity here (the coordinates are already scaled; HotPixel::intersects(p0, p1) takes the same short-cut for scaleFactor 1) *)
Definition f_x (p : Z * Z) : Z := fst p.
Definition f_y (p : Z * Z) : Z := snd p.
Definition m_scale_1 (st : hpst) (v : Z) : Z := v.
