(* C04/PrecHot — HotPixel::intersectsScaled: generated unit = hand model; the hand model decides the real class on a window. *)
From Coq Require Import ZArith List Bool Lia Floats.SpecFloat.
From GeosV.Lib Require Import GeomDefs LocateDefs ValidDefs GenPreludeF Geom.
From GeosV.C03 Require Import OverlayDefs OverlayGeom OverlayProofs.
From GeosV.C04 Require Import GenPreludePM PrecDefs PrecRun.
From GeosV.C04 Require GenPreludeHP.
From GeosV.Gen Require PM_makePrecise HP_intersectsScaled HP_intersectsPt.
Import ListNotations.
Local Open Scope Z_scope.

(* ------------------------------------------------------------------ hot pixel *)
Theorem gen_intersectsScaled_eq : forall hx hy p0x p0y p1x p1y,
  hp_gen hx hy p0x p0y p1x p1y = hp_model hx hy p0x p0y p1x p1y.
Proof.
  intros. unfold hp_gen, HP_intersectsScaled.g_intersectsScaled, hp_model, osgn.
  unfold GenPreludeHP.gtb, GenPreludeHP.geb, GenPreludeHP.ltb, GenPreludeHP.eqb, GenPreludeHP.add, GenPreludeHP.sub,
    GenPreludeHP.c_min_2, GenPreludeHP.c_max_2, GenPreludeHP.c_orientationIndex_6, GenPreludeHP.zneb, HP_intersectsScaled.g_TOLERANCE,
    GenPreludeHP.flit. cbn [GenPreludeHP.f_hpx GenPreludeHP.f_hpy].
  change (2 * 1 / 2) with 1.
  destruct (p0x >? p1x); cbv zeta;
    repeat match goal with |- context [if ?c then _ else _] => destruct c; try reflexivity end.
Qed.

(* a fraction bound against a parameter n/m *)
Definition sat_low (l : bound) (n m : Z) : Prop := if b_strict l then b_num l * m < n * b_den l else b_num l * m <= n * b_den l.
Definition sat_up (u : bound) (n m : Z) : Prop := if b_strict u then n * b_den u < b_num u * m else n * b_den u <= b_num u * m.
Definition bpos (b : bound) : Prop := 0 < b_den b.

(* what the bounds of one axis say *)
Lemma axis_bounds_spec : forall c0 d lo hi ok ls us n m, 0 < m ->
  axis_bounds c0 d lo hi = (ok, ls, us) ->
  Forall bpos ls /\ Forall bpos us /\
  ((ok = true /\ Forall (fun l => sat_low l n m) ls /\ Forall (fun u => sat_up u n m) us)
   <-> m * lo <= m * c0 + n * d < m * hi).
Proof.
  intros c0 d lo hi ok ls us n m Hm H. unfold axis_bounds in H.
  destruct (Z.eqb_spec d 0) as [Hd|Hd].
  - inversion H; subst. split; [constructor|]. split; [constructor|]. split.
    + intros (Hok & _ & _). apply andb_prop in Hok. destruct Hok as [H1 H2]. apply Z.leb_le in H1. apply Z.ltb_lt in H2. nia.
    + intros Hr. split; [|split; constructor]. apply andb_true_intro. split; [apply Z.leb_le|apply Z.ltb_lt]; nia.
  - destruct (Z.ltb_spec 0 d) as [Hp|Hp].
    + inversion H; subst. split; [repeat constructor; assumption|]. split; [repeat constructor; assumption|].
      unfold sat_low, sat_up; cbn [b_strict b_num b_den]. split.
      * intros (_ & Hl & Hu). inversion Hl; subst. inversion Hu; subst. unfold sat_low, sat_up in *; cbn [b_strict b_num b_den] in *. nia.
      * intros Hr. split; [reflexivity|]. split; repeat constructor; unfold sat_low, sat_up; cbn [b_strict b_num b_den]; nia.
    + assert (Hn : 0 < - d) by lia.
      inversion H; subst. split; [repeat constructor; assumption|]. split; [repeat constructor; assumption|].
      unfold sat_low, sat_up; cbn [b_strict b_num b_den]. split.
      * intros (_ & Hl & Hu). inversion Hl; subst. inversion Hu; subst. unfold sat_low, sat_up in *; cbn [b_strict b_num b_den] in *. nia.
      * intros Hr. split; [reflexivity|]. split; repeat constructor; unfold sat_low, sat_up; cbn [b_strict b_num b_den]; nia.
Qed.

(* a common parameter satisfies every pair: completeness of the pairwise test *)
Lemma compat_of_common : forall l u n m, 0 < m -> bpos l -> bpos u -> sat_low l n m -> sat_up u n m -> compat l u = true.
Proof.
  intros [ln ld ls] [un ud us] n m Hm Hl Hu Sl Su. unfold bpos, sat_low, sat_up, compat in *; cbn [b_num b_den b_strict] in *.
  (* ln/ld <=(<) n/m <=(<) un/ud *)
  assert (Hle : ln * ud * m <= un * ld * m /\ ((ls = true \/ us = true) -> ln * ud * m < un * ld * m)).
  { destruct ls, us; split; try (intros [?|?]; try discriminate); nia. }
  destruct Hle as [Hle Hlt].
  assert (H1 : ln * ud <= un * ld) by nia.
  destruct (Z.ltb_spec (ln * ud) (un * ld)); [reflexivity|].
  assert (E : ln * ud = un * ld) by lia. rewrite E, Z.eqb_refl. cbn [orb andb].
  destruct ls; [exfalso; assert (ln * ud * m < un * ld * m) by (apply Hlt; left; reflexivity); nia|].
  destruct us; [exfalso; assert (ln * ud * m < un * ld * m) by (apply Hlt; right; reflexivity); nia|]. reflexivity.
Qed.

(* if the segment meets the pixel, the pairwise test accepts (universal) *)
Theorem meets_fm_complete : forall hx hy px py qx qy, seg_meets_pixel hx hy px py qx qy -> meets_fm hx hy px py qx qy = true.
Proof.
  intros hx hy px py qx qy (n & m & Hm & Hn & Hx & Hy). unfold meets_fm.
  destruct (axis_bounds px (qx - px) (hx - 1) (hx + 1)) as [[okx lx] ux] eqn:Ex.
  destruct (axis_bounds py (qy - py) (hy - 1) (hy + 1)) as [[oky ly] uy] eqn:Ey.
  destruct (axis_bounds_spec _ _ _ _ _ _ _ n m Hm Ex) as (Plx & Pux & Ix).
  destruct (axis_bounds_spec _ _ _ _ _ _ _ n m Hm Ey) as (Ply & Puy & Iy).
  assert (Rx : m * (hx - 1) <= m * px + n * (qx - px) < m * (hx + 1)) by (split; nia).
  assert (Ry : m * (hy - 1) <= m * py + n * (qy - py) < m * (hy + 1)) by (split; nia).
  apply (proj2 Ix) in Rx. apply (proj2 Iy) in Ry. destruct Rx as (-> & Slx & Sux). destruct Ry as (-> & Sly & Suy).
  cbn [andb].
  set (l0 := mkB 0 1 false). set (u0 := mkB 1 1 false).
  assert (PL : Forall bpos (l0 :: lx ++ ly)) by (constructor; [unfold bpos, l0; cbn [b_den]; lia|apply Forall_app; split; assumption]).
  assert (PU : Forall bpos (u0 :: ux ++ uy)) by (constructor; [unfold bpos, u0; cbn [b_den]; lia|apply Forall_app; split; assumption]).
  assert (SL : Forall (fun l => sat_low l n m) (l0 :: lx ++ ly)) by (constructor; [unfold sat_low, l0; cbn [b_strict b_num b_den]; lia|apply Forall_app; split; assumption]).
  assert (SU : Forall (fun u => sat_up u n m) (u0 :: ux ++ uy)) by (constructor; [unfold sat_up, u0; cbn [b_strict b_num b_den]; lia|apply Forall_app; split; assumption]).
  apply forallb_forall. intros l Hl. apply forallb_forall. intros u Hu.
  rewrite Forall_forall in PL, PU, SL, SU.
  exact (compat_of_common l u n m Hm (PL l Hl) (PU u Hu) (SL l Hl) (SU u Hu)).
Qed.

(* the exhibited parameter is a point of the segment in the pixel (universal) *)
Theorem meets_wit_sound : forall hx hy px py qx qy, meets_wit hx hy px py qx qy = true -> seg_meets_pixel hx hy px py qx qy.
Proof.
  intros hx hy px py qx qy H. unfold meets_wit in H.
  destruct (axis_bounds px (qx - px) (hx - 1) (hx + 1)) as [[okx lx] ux].
  destruct (axis_bounds py (qy - py) (hy - 1) (hy + 1)) as [[oky ly] uy].
  cbv zeta in H.
  match type of H with (if ?c then check_param _ _ _ _ _ _ ?n1 ?m1 else check_param _ _ _ _ _ _ ?n2 ?m2) = true =>
    assert (E : exists n m, check_param hx hy px py qx qy n m = true) by (destruct c; [exists n1, m1|exists n2, m2]; exact H) end.
  destruct E as (n & m & E). unfold check_param in E.
  repeat (apply andb_prop in E; let E' := fresh "E" in destruct E as [E E']).
  apply Z.ltb_lt in E. apply Z.leb_le in E5, E4, E3, E1. apply Z.ltb_lt in E2, E0.
  exists n, m. repeat split; assumption.
Qed.

(* the finite sweep: on every configuration whose four ordinates are within 9 half units of the pixel centre, the
   generated code, the pairwise test and the exhibited point agree *)
Lemma window_sweep : window_ok (hp_model 0 0) (meets_fm 0 0) (meets_wit 0 0) 9 = true.
Proof. vm_compute. reflexivity. Qed.

Lemma zrange_in : forall lo hi x, lo <= x <= hi -> In x (zrange lo hi).
Proof.
  intros lo hi x H. unfold zrange. apply in_map_iff. exists (Z.to_nat (x - lo)). split; [lia|].
  apply in_seq. lia.
Qed.

(* HotPixel::intersectsScaled (generated unit, half units) decides "the closed segment meets the half-open pixel", for the
   pixel at the origin and end points within the window.  PARTIAL: the unbounded statement needs the case analysis of the
   corner orientations; what is universal is gen = hand model, meets_fm_complete and meets_wit_sound *)
Theorem hotpixel_spec_window : forall px py qx qy,
  -9 <= px <= 9 -> -9 <= py <= 9 -> -9 <= qx <= 9 -> -9 <= qy <= 9 ->
  (hp_gen 0 0 px py qx qy = true <-> seg_meets_pixel 0 0 px py qx qy).
Proof.
  intros px py qx qy Hpx Hpy Hqx Hqy. rewrite gen_intersectsScaled_eq.
  pose proof window_sweep as W. unfold window_ok in W. cbv zeta in W.
  rewrite forallb_forall in W. specialize (W px (zrange_in _ _ _ Hpx)).
  rewrite forallb_forall in W. specialize (W py (zrange_in _ _ _ Hpy)).
  rewrite forallb_forall in W. specialize (W qx (zrange_in _ _ _ Hqx)).
  rewrite forallb_forall in W. specialize (W qy (zrange_in _ _ _ Hqy)).
  apply andb_prop in W. destruct W as [W1 W2]. apply eqb_prop in W1. apply eqb_prop in W2.
  split.
  - intro H. apply meets_wit_sound. rewrite <- W2, <- W1. exact H.
  - intro H. rewrite W1. apply meets_fm_complete. exact H.
Qed.


(* ------------------------------------------------------------------ any pixel centre: translation invariance *)
Lemma shift_min_geb : forall x y h a, (Z.min (x + a) (y + a) >=? h + a + 1) = (Z.min x y >=? h + 1).
Proof. intros. rewrite Z.add_min_distr_r. rewrite !Z.geb_leb. destruct (Z.leb_spec (h + a + 1) (Z.min x y + a)), (Z.leb_spec (h + 1) (Z.min x y)); lia || reflexivity. Qed.
Lemma shift_max_ltb : forall x y h a, (Z.max (x + a) (y + a) <? h + a - 1) = (Z.max x y <? h - 1).
Proof. intros. rewrite Z.add_max_distr_r. destruct (Z.ltb_spec (Z.max x y + a) (h + a - 1)), (Z.ltb_spec (Z.max x y) (h - 1)); lia || reflexivity. Qed.
Lemma shift_eqb : forall x y a, (x + a =? y + a) = (x =? y).
Proof. intros. destruct (Z.eqb_spec (x + a) (y + a)), (Z.eqb_spec x y); lia || reflexivity. Qed.
Lemma shift_ltb : forall x y a, (x + a <? y + a) = (x <? y).
Proof. intros. destruct (Z.ltb_spec (x + a) (y + a)), (Z.ltb_spec x y); lia || reflexivity. Qed.
Lemma shift_gtb : forall x y a, (x + a >? y + a) = (x >? y).
Proof. intros. rewrite !Z.gtb_ltb. apply shift_ltb. Qed.
Lemma shift_osgn : forall px py qx qy x y a b, osgn (px + a) (py + b) (qx + a) (qy + b) (x + a) (y + b) = osgn px py qx qy x y.
Proof. intros. unfold osgn. f_equal. ring. Qed.

Theorem hp_model_translate : forall a b hx hy p0x p0y p1x p1y,
  hp_model (hx + a) (hy + b) (p0x + a) (p0y + b) (p1x + a) (p1y + b) = hp_model hx hy p0x p0y p1x p1y.
Proof.
  intros. unfold hp_model. rewrite shift_gtb.
  destruct (p0x >? p1x); cbv zeta;
    rewrite !shift_min_geb, !shift_max_ltb, !shift_eqb, !shift_ltb, !shift_gtb;
    replace (hx + a - 1) with (hx - 1 + a) by ring; replace (hx + a + 1) with (hx + 1 + a) by ring;
    replace (hy + b - 1) with (hy - 1 + b) by ring; replace (hy + b + 1) with (hy + 1 + b) by ring;
    rewrite !shift_osgn; reflexivity.
Qed.
Theorem seg_meets_pixel_translate : forall a b hx hy px py qx qy,
  seg_meets_pixel (hx + a) (hy + b) (px + a) (py + b) (qx + a) (qy + b) <-> seg_meets_pixel hx hy px py qx qy.
Proof.
  intros. unfold seg_meets_pixel. split; intros (n & m & Hm & Hn & Hx & Hy); exists n, m; (split; [exact Hm|]); (split; [exact Hn|]); split; nia.
Qed.

(* hotpixel_spec for every pixel centre, end points within 9 half units of it *)
Theorem hotpixel_spec_any_centre : forall hx hy px py qx qy,
  -9 <= px - hx <= 9 -> -9 <= py - hy <= 9 -> -9 <= qx - hx <= 9 -> -9 <= qy - hy <= 9 ->
  (hp_gen hx hy px py qx qy = true <-> seg_meets_pixel hx hy px py qx qy).
Proof.
  intros hx hy px py qx qy H1 H2 H3 H4.
  pose proof (hotpixel_spec_window (px - hx) (py - hy) (qx - hx) (qy - hy) H1 H2 H3 H4) as W.
  rewrite gen_intersectsScaled_eq in *.
  pose proof (hp_model_translate hx hy 0 0 (px - hx) (py - hy) (qx - hx) (qy - hy)) as T.
  pose proof (seg_meets_pixel_translate hx hy 0 0 (px - hx) (py - hy) (qx - hx) (qy - hy)) as S.
  replace (0 + hx) with hx in * by ring. replace (0 + hy) with hy in * by ring.
  replace (px - hx + hx) with px in * by ring. replace (py - hy + hy) with py in * by ring.
  replace (qx - hx + hx) with qx in * by ring. replace (qy - hy + hy) with qy in * by ring.
  rewrite T. rewrite S. exact W.
Qed.


(* ------------------------------------------------------------------ HotPixel::intersects(p): the pixel is half open *)
(* generated unit (half units) = "p lies in [hx-1, hx+1) x [hy-1, hy+1)": closed on the left / bottom side, open on the right /
   top side, so that a point exactly half a cell from two centres belongs to exactly one pixel *)
Theorem gen_intersectsPt_halfopen : forall hx hy x y,
  HP_intersectsPt.g_intersectsPt (GenPreludeHP.mkHP hx hy) (x, y) = true <-> (hx - 1 <= x < hx + 1 /\ hy - 1 <= y < hy + 1).
Proof.
  intros hx hy x y. unfold HP_intersectsPt.g_intersectsPt, HP_intersectsPt.g_TOLERANCE, GenPreludeHP.flit, GenPreludeHP.geb, GenPreludeHP.ltb,
    GenPreludeHP.add, GenPreludeHP.sub, GenPreludeHP.m_scale_1, GenPreludeHP.f_x, GenPreludeHP.f_y.
  cbn [GenPreludeHP.f_hpx GenPreludeHP.f_hpy fst snd]. change (2 * 1 / 2) with 1. cbv zeta.
  rewrite !Z.geb_leb.
  destruct (Z.leb_spec (hx + 1) x); [split; [discriminate|lia]|].
  destruct (Z.ltb_spec x (hx - 1)); [split; [discriminate|lia]|].
  destruct (Z.leb_spec (hy + 1) y); [split; [discriminate|lia]|].
  destruct (Z.ltb_spec y (hy - 1)); [split; [discriminate|lia]|].
  split; [lia|reflexivity].
Qed.
(* consequence: the pixels of a row / column tile the line — a point is in exactly one of two vertically (horizontally) adjacent pixels *)
Theorem pixels_partition : forall hx hy x y,
  HP_intersectsPt.g_intersectsPt (GenPreludeHP.mkHP hx hy) (x, y) = true ->
  HP_intersectsPt.g_intersectsPt (GenPreludeHP.mkHP hx (hy + 2)) (x, y) = false
  /\ HP_intersectsPt.g_intersectsPt (GenPreludeHP.mkHP hx (hy - 2)) (x, y) = false
  /\ HP_intersectsPt.g_intersectsPt (GenPreludeHP.mkHP (hx + 2) hy) (x, y) = false
  /\ HP_intersectsPt.g_intersectsPt (GenPreludeHP.mkHP (hx - 2) hy) (x, y) = false.
Proof.
  intros hx hy x y H. apply gen_intersectsPt_halfopen in H.
  repeat split; match goal with |- ?f = false => destruct f eqn:E; [apply gen_intersectsPt_halfopen in E; lia|reflexivity] end.
Qed.
(* and it agrees with the segment test on a degenerate segment *)
Theorem intersectsPt_is_degenerate_segment : forall hx hy x y,
  HP_intersectsPt.g_intersectsPt (GenPreludeHP.mkHP hx hy) (x, y) = true <-> seg_meets_pixel hx hy x y x y.
Proof.
  intros hx hy x y. rewrite gen_intersectsPt_halfopen. unfold seg_meets_pixel. split.
  - intro H. exists 0, 1. lia.
  - intros (n & m & Hm & Hn & Hx & Hy).
    replace ((m - n) * x + n * x) with (m * x) in Hx by ring. replace ((m - n) * y + n * y) with (m * y) in Hy by ring. nia.
Qed.
