(* C08/PtSeg — the point/segment squared distance of DistDefs is the minimum over the segment, and it is attained. *)
From Coq Require Import ZArith List Bool Lia Psatz.
From GeosV.Lib Require Import GeomDefs LocateDefs.
From GeosV.C08 Require Import DistDefs.
Import ListNotations.
Local Open Scope Z_scope.

(* ------------------------------------------------------------------ rationals *)
Lemma rle_iff : forall r s, rle r s = true <-> rn r * rd s <= rn s * rd r.
Proof. intros; unfold rle; apply Z.leb_le. Qed.
Lemma rle_refl : forall r, rle r r = true.
Proof. intros; apply rle_iff; lia. Qed.
Lemma rle_total : forall r s, rle r s = false -> rle s r = true.
Proof. intros r s H; apply rle_iff. unfold rle in H. apply Z.leb_gt in H. lia. Qed.
Lemma rle_trans : forall r s t, 0 < rd r -> 0 < rd s -> 0 < rd t -> rle r s = true -> rle s t = true -> rle r t = true.
Proof.
  intros r s t Hr Hs Ht H1 H2. apply rle_iff in H1. apply rle_iff in H2. apply rle_iff.
  assert (rn r * rd t * rd s <= rn t * rd r * rd s) by nia. nia.
Qed.
Lemma rle_antisym : forall r s, rle r s = true -> rle s r = true -> req r s.
Proof. intros r s H1 H2. apply rle_iff in H1. apply rle_iff in H2. unfold req. lia. Qed.
Lemma req_rle : forall r s, req r s -> rle r s = true.
Proof. intros r s H; apply rle_iff; unfold req in H; lia. Qed.
Lemma req_sym : forall r s, req r s -> req s r.
Proof. unfold req; intros; lia. Qed.

(* ------------------------------------------------------------------ algebra *)
Lemma lagrange : forall a b p, d2 p a * d2 a b = sq (dotp a b p) + sq (orient a b p).
Proof. intros [ax ay] [bx by_] [px py]. unfold d2, dotp, orient, sq; cbn [fst snd]. ring. Qed.

Lemma sq_nonneg : forall x, 0 <= sq x.
Proof. intro; unfold sq; nia. Qed.
Lemma d2_nonneg : forall p q, 0 <= d2 p q.
Proof. intros; unfold d2; pose proof (sq_nonneg (fst p - fst q)); pose proof (sq_nonneg (snd p - snd q)); lia. Qed.
Lemma d2_sym : forall p q, d2 p q = d2 q p.
Proof. intros; unfold d2, sq; ring. Qed.
Lemma d2_zero : forall p q, d2 p q = 0 <-> p = q.
Proof.
  intros [px py] [qx qy]; unfold d2, sq; cbn [fst snd]; split.
  - intro H. pose proof (Z.square_nonneg (px - qx)) as H1. pose proof (Z.square_nonneg (py - qy)) as H2.
    assert (E1 : (px - qx) * (px - qx) = 0) by lia. assert (E2 : (py - qy) * (py - qy) = 0) by lia.
    apply Z.mul_eq_0 in E1. apply Z.mul_eq_0 in E2. f_equal; lia.
  - intro H; inversion H; subst; ring.
Qed.

(* the squared distance from the integer point p to the point a + (n/m)(b - a), times m^2 *)
Lemma lerp_d2 : forall p a b n m,
  sq (fst p * m - ((m - n) * fst a + n * fst b)) + sq (snd p * m - ((m - n) * snd a + n * snd b)) =
  m * m * d2 p a - 2 * m * n * dotp a b p + n * n * d2 a b.
Proof. intros [px py] [ax ay] [bx by_] n m; unfold d2, dotp, sq; cbn [fst snd]; ring. Qed.

(* squared distance of an integer point to a homogeneous point *)
Definition pd2 (p : pt) (x : hpt) : rat := hd2 (hp p) x.
Lemma pd2_lerp : forall p a b n m,
  pd2 p (hlerp a b n m) = mkr (m * m * d2 p a - 2 * m * n * dotp a b p + n * n * d2 a b) (sq (1 * m)).
Proof. intros. unfold pd2, hd2, hp, hlerp. rewrite <- lerp_d2. f_equal. unfold sq. ring. Qed.

Lemma hon_lerp : forall a b n m, 0 < m -> 0 <= n <= m -> hon (hlerp a b n m) a b.
Proof. intros a b n m Hm Hn. unfold hon, hlerp. split; [lia|]. exists n, m. repeat split; try lia. Qed.
Lemma hon_left : forall a b, hon (hp a) a b.
Proof. intros a b. unfold hon, hp. split; [lia|]. exists 0, 1. repeat split; lia. Qed.
Lemma hon_right : forall a b, hon (hp b) a b.
Proof. intros a b. unfold hon, hp. split; [lia|]. exists 1, 1. repeat split; lia. Qed.

(* ------------------------------------------------------------------ the three branches *)
Section Branches.
  Variables p a b : pt.
  Let t := dotp a b p.
  Let l2 := d2 a b.

  Lemma l2_nonneg : 0 <= l2. Proof. apply d2_nonneg. Qed.

  (* before a: every point of the segment is at least as far as a *)
  Lemma before_min : t <= 0 -> forall n m, 0 < m -> 0 <= n <= m ->
    rle (mkr (d2 p a) 1) (pd2 p (hlerp a b n m)) = true.
  Proof.
    intros Ht n m Hm Hn. rewrite pd2_lerp. apply rle_iff. cbn [rn rd]. unfold sq.
    fold t l2. pose proof l2_nonneg.
    assert (0 <= m * n) by nia. assert (m * n * t <= 0) by nia. assert (0 <= n * n) by nia. assert (0 <= n * n * l2) by nia.
    nia.
  Qed.
  (* beyond b *)
  Lemma beyond_min : l2 <= t -> forall n m, 0 < m -> 0 <= n <= m ->
    rle (mkr (d2 p b) 1) (pd2 p (hlerp a b n m)) = true.
  Proof.
    intros Ht n m Hm Hn. rewrite pd2_lerp. apply rle_iff. cbn [rn rd]. unfold sq. fold t l2.
    assert (Hb : d2 p b = d2 p a - 2 * t + l2).
    { subst t l2. destruct p as [px py], a as [ax ay], b as [bx by_]. unfold d2, dotp, sq; cbn [fst snd]. ring. }
    rewrite Hb. pose proof l2_nonneg.
    assert (0 <= m - n) by lia. assert (0 <= 2 * t * m - l2 * (m + n)) by nia.
    assert (0 <= (m - n) * (2 * t * m - l2 * (m + n))) by nia. nia.
  Qed.
  (* the foot of the perpendicular *)
  Lemma foot_min : 0 < l2 -> forall n m, 0 < m -> 0 <= n <= m ->
    rle (mkr (sq (orient a b p)) l2) (pd2 p (hlerp a b n m)) = true.
  Proof.
    intros Hl n m Hm Hn. rewrite pd2_lerp. apply rle_iff. cbn [rn rd]. unfold sq at 2. fold t l2.
    pose proof (lagrange a b p) as L. fold t l2 in L.
    assert (E : (m * m * d2 p a - 2 * m * n * t + n * n * l2) * l2 - sq (orient a b p) * (1 * m * (1 * m)) = sq (n * l2 - m * t)).
    { unfold sq in *. nia. }
    pose proof (sq_nonneg (n * l2 - m * t)). lia.
  Qed.
  Lemma foot_attained : 0 < l2 -> req (pd2 p (hlerp a b t l2)) (mkr (sq (orient a b p)) l2).
  Proof.
    intros Hl. rewrite pd2_lerp. unfold req. cbn [rn rd]. fold t l2.
    pose proof (lagrange a b p) as L. fold t l2 in L. unfold sq in *.
    set (o := orient a b p) in *. set (D := d2 p a) in *.
    replace ((l2 * l2 * D - 2 * l2 * t * t + t * t * l2) * l2) with (l2 * l2 * (D * l2) - l2 * l2 * (t * t)) by ring.
    rewrite L. ring.
  Qed.
End Branches.

(* ------------------------------------------------------------------ the specification *)
Theorem dist2_pt_seg_spec : forall p a b,
  let v := fst (dist2_pt_seg p a b) in let x := snd (dist2_pt_seg p a b) in
  rat_ok v /\ hon x a b /\ req (pd2 p x) v /\
  (forall n m, 0 < m -> 0 <= n <= m -> rle v (pd2 p (hlerp a b n m)) = true).
Proof.
  intros p a b. unfold dist2_pt_seg.
  destruct (Z.leb_spec (dotp a b p) 0) as [H1 | H1].
  - cbn [fst snd]. split; [|split; [|split]].
    + split; cbn [rn rd]; [apply d2_nonneg | lia].
    + apply hon_left.
    + unfold req, pd2, hd2, hp, d2, sq; cbn [rn rd fst snd]. ring.
    + apply before_min; assumption.
  - destruct (Z.leb_spec (d2 a b) (dotp a b p)) as [H2 | H2].
    + cbn [fst snd]. split; [|split; [|split]].
      * split; cbn [rn rd]; [apply d2_nonneg | lia].
      * apply hon_right.
      * unfold req, pd2, hd2, hp, d2, sq; cbn [rn rd fst snd]. ring.
      * apply beyond_min; assumption.
    + cbn [fst snd]. assert (Hl : 0 < d2 a b) by lia. split; [|split; [|split]].
      * split; cbn [rn rd]; [apply sq_nonneg | lia].
      * apply hon_lerp; lia.
      * apply foot_attained; assumption.
      * apply foot_min; assumption.
Qed.

(* corollaries used by the segment/segment proofs *)
Lemma pt_seg_ok : forall p a b, rat_ok (fst (dist2_pt_seg p a b)).
Proof. intros; apply (dist2_pt_seg_spec p a b). Qed.
Lemma pt_seg_min : forall p a b n m, 0 < m -> 0 <= n <= m ->
  rle (fst (dist2_pt_seg p a b)) (pd2 p (hlerp a b n m)) = true.
Proof. intros p a b n m; apply (dist2_pt_seg_spec p a b). Qed.
Lemma pt_seg_on : forall p a b, hon (snd (dist2_pt_seg p a b)) a b.
Proof. intros; apply (dist2_pt_seg_spec p a b). Qed.
Lemma pt_seg_att : forall p a b, req (pd2 p (snd (dist2_pt_seg p a b))) (fst (dist2_pt_seg p a b)).
Proof. intros; apply (dist2_pt_seg_spec p a b). Qed.

