(* C08/RealSegSeg — segment / segment distance over the reals.
   V(t,u) = (a + t (b-a)) - (c + u (d-c)) is affine on the parameter square [0,1]^2.
     * lines not parallel: V vanishes at exactly one parameter pair Z = (r,s) (the r, s of Distance::segmentToSegment).  If Z is
       in the square the segments meet (distance 0).  If not, from any (t,u) of the square walk towards Z until the boundary
       of the square is reached: V shrinks by the factor (1 - l), so some boundary pair is at least as close;
     * lines parallel: V is constant along the direction ((b-a).(d-c), |b-a|^2); walk along it to the boundary.
   A boundary pair is an end point of one segment against a point of the other, so it is no closer than the least of the four
   point / segment distances. *)
From Coq Require Import Reals Lra Psatz.
From GeosV.C08 Require Import GenPreludeR RealDistDefs RealPtSeg.
Local Open Scope R_scope.
Set Default Timeout 60.

(* walking from t towards r inside [0,1]: the last admissible step l *)
Lemma exit1 : forall t r, 0 <= t <= 1 ->
  exists l, 0 <= l <= 1 /\ (forall k, 0 <= k <= l -> 0 <= t + k * (r - t) <= 1) /\
            ((0 <= r <= 1 /\ l = 1) \/ (~ (0 <= r <= 1) /\ (t + l * (r - t) = 0 \/ t + l * (r - t) = 1))).
Proof.
  intros t r Ht.
  destruct (Rlt_dec r 0) as [Hr | Hr].
  - exists (t / (t - r)).
    assert (Hd : 0 < t - r) by lra.
    assert (E : t / (t - r) * (t - r) = t) by (field; lra).
    set (l := t / (t - r)) in *. clearbody l.
    assert (Hl0 : 0 <= l) by nra. assert (Hl1 : l <= 1) by nra.
    split; [lra|]. split.
    + intros k Hk. assert (k * (t - r) <= l * (t - r)) by (apply Rmult_le_compat_r; lra).
      assert (0 <= k * (t - r)) by (apply Rmult_le_pos; lra). nra.
    + right. split; [lra|]. left. nra.
  - destruct (Rlt_dec 1 r) as [Hr1 | Hr1].
    + exists ((1 - t) / (r - t)).
      assert (Hd : 0 < r - t) by lra.
      assert (E : (1 - t) / (r - t) * (r - t) = 1 - t) by (field; lra).
      set (l := (1 - t) / (r - t)) in *. clearbody l.
      assert (Hl0 : 0 <= l) by nra. assert (Hl1 : l <= 1) by nra.
      split; [lra|]. split.
      * intros k Hk. assert (k * (r - t) <= l * (r - t)) by (apply Rmult_le_compat_r; lra).
        assert (0 <= k * (r - t)) by (apply Rmult_le_pos; lra). lra.
      * right. split; [lra|]. right. lra.
    + exists 1. split; [lra|]. split.
      * intros k Hk. assert (0 <= k * r) by (apply Rmult_le_pos; lra).
        assert (0 <= (1 - k) * t) by (apply Rmult_le_pos; lra).
        assert (k * r <= k * 1) by (apply Rmult_le_compat_l; lra).
        assert ((1 - k) * t <= (1 - k) * 1) by (apply Rmult_le_compat_l; lra).
        replace (t + k * (r - t)) with ((1 - k) * t + k * r) by ring. lra.
      * left. split; [lra | reflexivity].
Qed.

(* from (t,u) in the unit square towards a pair (r,s) outside it: a pair on the boundary of the square is met *)
Lemma square_exit : forall t u r s, 0 <= t <= 1 -> 0 <= u <= 1 -> ~ (0 <= r <= 1 /\ 0 <= s <= 1) ->
  exists l, 0 <= l <= 1 /\ 0 <= t + l * (r - t) <= 1 /\ 0 <= u + l * (s - u) <= 1 /\
            (t + l * (r - t) = 0 \/ t + l * (r - t) = 1 \/ u + l * (s - u) = 0 \/ u + l * (s - u) = 1).
Proof.
  intros t u r s Ht Hu Hout.
  destruct (exit1 t r Ht) as [lt [Hlt [At Bt]]]. destruct (exit1 u s Hu) as [lu [Hlu [Au Bu]]].
  destruct (Rle_dec lt lu) as [O | O].
  - exists lt. split; [lra|]. split; [apply At; lra|]. split; [apply Au; lra|].
    destruct Bt as [[Hr E] | [_ [E | E]]]; [| left; exact E | right; left; exact E].
    assert (lu = 1) by lra. subst lt lu.
    destruct Bu as [[Hs _] | [_ [E | E]]]; [exfalso; apply Hout; split; assumption | right; right; left; exact E | right; right; right; exact E].
  - exists lu. split; [lra|]. split; [apply At; lra|]. split; [apply Au; lra|].
    destruct Bu as [[Hs E] | [_ [E | E]]]; [| right; right; left; exact E | right; right; right; exact E].
    exfalso. lra.
Qed.

(* V is affine: at the pair reached after the step l towards (r,s), V = (1-l) V(t,u) + l V(r,s).  If V(r,s) = k V(t,u) with
   0 <= k <= 1 the new pair is at least as close *)
Lemma step_closer : forall a b c d t u r s k l, 0 <= l <= 1 -> 0 <= k <= 1 ->
  f_x (lerp a b r) - f_x (lerp c d s) = k * (f_x (lerp a b t) - f_x (lerp c d u)) ->
  f_y (lerp a b r) - f_y (lerp c d s) = k * (f_y (lerp a b t) - f_y (lerp c d u)) ->
  d2R (lerp a b (t + l * (r - t))) (lerp c d (u + l * (s - u))) <= d2R (lerp a b t) (lerp c d u).
Proof.
  intros a b c d t u r s k l Hl Hk Ex Ey. unfold d2R.
  set (X := f_x (lerp a b t) - f_x (lerp c d u)) in *. set (Y := f_y (lerp a b t) - f_y (lerp c d u)) in *.
  assert (Ex' : f_x (lerp a b (t + l * (r - t))) - f_x (lerp c d (u + l * (s - u))) = (1 - l + l * k) * X).
  { transitivity ((1 - l) * X + l * (f_x (lerp a b r) - f_x (lerp c d s))); [unfold X, lerp; cbn [f_x f_y]; ring | rewrite Ex; ring]. }
  assert (Ey' : f_y (lerp a b (t + l * (r - t))) - f_y (lerp c d (u + l * (s - u))) = (1 - l + l * k) * Y).
  { transitivity ((1 - l) * Y + l * (f_y (lerp a b r) - f_y (lerp c d s))); [unfold Y, lerp; cbn [f_x f_y]; ring | rewrite Ey; ring]. }
  rewrite Ex', Ey'. clearbody X Y. set (q := 1 - l + l * k).
  assert (Hq0 : 0 <= q). { unfold q. assert (0 <= l * k) by (apply Rmult_le_pos; lra). lra. }
  assert (Hq1 : q <= 1). { unfold q. assert (l * k <= l * 1) by (apply Rmult_le_compat_l; lra). lra. }
  clearbody q.
  assert (Hqq : q * q <= 1) by nra.
  assert (HX := Rle_0_sqr X). assert (HY := Rle_0_sqr Y). unfold Rsqr in *.
  assert (0 <= (1 - q * q) * (X * X + Y * Y)) by (apply Rmult_le_pos; lra).
  match goal with |- ?lhs <= ?rhs => assert (E : rhs - lhs = (1 - q * q) * (X * X + Y * Y)) by ring end. lra.
Qed.

(* the lines ab and cd, not parallel, meet at the parameters r, s computed by the code *)
Lemma meet_x : forall a b c d, denomR a b c d <> 0 ->
  f_x (lerp a b (rnumR a b c d / denomR a b c d)) - f_x (lerp c d (snumR a b c d / denomR a b c d)) = 0.
Proof. intros a b c d H. unfold lerp; cbn [f_x f_y]. unfold rnumR, snumR, denomR in *. field. exact H. Qed.
Lemma meet_y : forall a b c d, denomR a b c d <> 0 ->
  f_y (lerp a b (rnumR a b c d / denomR a b c d)) - f_y (lerp c d (snumR a b c d / denomR a b c d)) = 0.
Proof. intros a b c d H. unfold lerp; cbn [f_x f_y]. unfold rnumR, snumR, denomR in *. field. exact H. Qed.
Lemma rpt_eq : forall p q, f_x p - f_x q = 0 -> f_y p - f_y q = 0 -> p = q.
Proof. intros [px py] [qx qy]; cbn [f_x f_y]; intros; f_equal; lra. Qed.

Theorem crossing_meets : forall a b c d, crossing a b c d -> exists x, on_seg x a b /\ on_seg x c d.
Proof.
  intros a b c d [Hd [Hr Hs]]. exists (lerp a b (rnumR a b c d / denomR a b c d)). split; [apply on_seg_lerp; exact Hr|].
  rewrite (rpt_eq _ _ (meet_x a b c d Hd) (meet_y a b c d Hd)). apply on_seg_lerp; exact Hs.
Qed.
Theorem crossing_dist0 : forall a b c d, crossing a b c d -> is_seg_seg_dist 0 a b c d.
Proof.
  intros a b c d H. destruct (crossing_meets a b c d H) as [x [H1 H2]].
  split; [lra|]. split.
  - exists x, x. split; [exact H1|]. split; [exact H2|]. symmetry; apply distR_self.
  - intros; apply distR_nonneg.
Qed.

(* any pair of the square is matched by a boundary pair at least as close, unless the segments cross *)
Lemma to_boundary : forall a b c d, 0 < len2 a b -> ~ crossing a b c d ->
  forall t u, 0 <= t <= 1 -> 0 <= u <= 1 ->
  exists t' u', 0 <= t' <= 1 /\ 0 <= u' <= 1 /\ (t' = 0 \/ t' = 1 \/ u' = 0 \/ u' = 1) /\
                d2R (lerp a b t') (lerp c d u') <= d2R (lerp a b t) (lerp c d u).
Proof.
  intros a b c d HL NC t u Ht Hu.
  destruct (Req_dec (denomR a b c d) 0) as [Hd | Hd].
  - (* parallel: V is constant in the direction ((b-a).(d-c), |b-a|^2) *)
    set (r := t + 2 * (dotR a b (mk_rpt (f_x a + (f_x d - f_x c)) (f_y a + (f_y d - f_y c))) / len2 a b)).
    destruct (square_exit t u r (u + 2) Ht Hu ltac:(lra)) as [l [Hl [H1 [H2 H3]]]].
    exists (t + l * (r - t)), (u + l * (u + 2 - u)). split; [exact H1|]. split; [exact H2|]. split; [exact H3|].
    apply (step_closer a b c d t u r (u + 2) 1 l Hl ltac:(lra)).
    + transitivity (f_x (lerp a b t) - f_x (lerp c d u) + 2 * ((f_y b - f_y a) * denomR a b c d) / len2 a b).
      { unfold r, lerp, dotR, len2, d2R, denomR in *; cbn [f_x f_y] in *. field. lra. }
      rewrite Hd. field. lra.
    + transitivity (f_y (lerp a b t) - f_y (lerp c d u) - 2 * ((f_x b - f_x a) * denomR a b c d) / len2 a b).
      { unfold r, lerp, dotR, len2, d2R, denomR in *; cbn [f_x f_y] in *. field. lra. }
      rewrite Hd. field. lra.
  - set (r := rnumR a b c d / denomR a b c d). set (s := snumR a b c d / denomR a b c d).
    assert (Hout : ~ (0 <= r <= 1 /\ 0 <= s <= 1)) by (intros [Hr Hs]; apply NC; split; [exact Hd | split; assumption]).
    destruct (square_exit t u r s Ht Hu Hout) as [l [Hl [H1 [H2 H3]]]].
    exists (t + l * (r - t)), (u + l * (s - u)). split; [exact H1|]. split; [exact H2|]. split; [exact H3|].
    apply (step_closer a b c d t u r s 0 l Hl ltac:(lra)).
    + unfold r, s. rewrite (meet_x a b c d Hd). ring.
    + unfold r, s. rewrite (meet_y a b c d Hd). ring.
Qed.

Lemma Rmin4_le : forall va vb vc vd, let m := Rmin va (Rmin vb (Rmin vc vd)) in m <= va /\ m <= vb /\ m <= vc /\ m <= vd.
Proof.
  intros. unfold m. assert (A := Rmin_l va (Rmin vb (Rmin vc vd))). assert (B := Rmin_r va (Rmin vb (Rmin vc vd))).
  assert (C := Rmin_l vb (Rmin vc vd)). assert (D := Rmin_r vb (Rmin vc vd)). assert (E := Rmin_l vc vd). assert (F := Rmin_r vc vd).
  repeat split; lra.
Qed.
Lemma Rmin4_in : forall va vb vc vd, let m := Rmin va (Rmin vb (Rmin vc vd)) in m = va \/ m = vb \/ m = vc \/ m = vd.
Proof.
  intros. unfold m, Rmin. destruct (Rle_dec vc vd); destruct (Rle_dec vb _); destruct (Rle_dec va _); auto.
Qed.

(* the least of the four end point / segment distances is the distance of the segments, unless they cross *)
Theorem min4_is_dist : forall a b c d va vb vc vd, 0 < len2 a b -> ~ crossing a b c d ->
  is_pt_seg_dist va a c d -> is_pt_seg_dist vb b c d -> is_pt_seg_dist vc c a b -> is_pt_seg_dist vd d a b ->
  is_seg_seg_dist (Rmin va (Rmin vb (Rmin vc vd))) a b c d.
Proof.
  intros a b c d va vb vc vd HL NC Ha Hb Hc Hd.
  destruct (Rmin4_le va vb vc vd) as [La [Lb [Lc Ld]]]. cbv zeta in *.
  set (m := Rmin va (Rmin vb (Rmin vc vd))) in *.
  split; [| split].
  - destruct (Rmin4_in va vb vc vd) as [E | [E | [E | E]]]; cbv zeta in E; fold m in E; rewrite E;
      [apply Ha | apply Hb | apply Hc | apply Hd].
  - destruct (Rmin4_in va vb vc vd) as [E | [E | [E | E]]]; cbv zeta in E; fold m in E; rewrite E.
    + destruct Ha as [_ [[y [Hy Ey]] _]]. exists a, y. split; [apply on_seg_l|]. split; assumption.
    + destruct Hb as [_ [[y [Hy Ey]] _]]. exists b, y. split; [apply on_seg_r|]. split; assumption.
    + destruct Hc as [_ [[x [Hx Ex]] _]]. exists x, c. split; [exact Hx|]. split; [apply on_seg_l|]. rewrite distR_sym; exact Ex.
    + destruct Hd as [_ [[x [Hx Ex]] _]]. exists x, d. split; [exact Hx|]. split; [apply on_seg_r|]. rewrite distR_sym; exact Ex.
  - intros x y [t [Ht Ex]] [u [Hu Ey]]. subst x y.
    destruct (to_boundary a b c d HL NC t u Ht Hu) as [t' [u' [Ht' [Hu' [B Hle]]]]].
    apply Rle_trans with (distR (lerp a b t') (lerp c d u')); [| apply distR_le; exact Hle].
    destruct B as [B | [B | [B | B]]]; subst.
    + rewrite lerp_0. apply Rle_trans with va; [exact La|]. apply Ha. apply on_seg_lerp; exact Hu'.
    + rewrite lerp_1. apply Rle_trans with vb; [exact Lb|]. apply Hb. apply on_seg_lerp; exact Hu'.
    + rewrite lerp_0, distR_sym. apply Rle_trans with vc; [exact Lc|]. apply Hc. apply on_seg_lerp; exact Ht'.
    + rewrite lerp_1, distR_sym. apply Rle_trans with vd; [exact Ld|]. apply Hd. apply on_seg_lerp; exact Ht'.
Qed.

(* degenerate segments *)
Lemma seg_seg_deg_l : forall a c d v, is_pt_seg_dist v a c d -> is_seg_seg_dist v a a c d.
Proof.
  intros a c d v [H0 [[y [Hy Ey]] L]]. split; [exact H0|]. split.
  - exists a, y. split; [apply on_seg_l|]. split; assumption.
  - intros x y' Hx Hy'. rewrite (on_seg_deg x a Hx). apply L; exact Hy'.
Qed.
Lemma seg_seg_deg_r : forall a b d v, is_pt_seg_dist v d a b -> is_seg_seg_dist v a b d d.
Proof.
  intros a b d v [H0 [[x [Hx Ex]] L]]. split; [exact H0|]. split.
  - exists x, d. split; [exact Hx|]. split; [apply on_seg_l|]. rewrite distR_sym; exact Ex.
  - intros x' y Hx' Hy. rewrite (on_seg_deg y d Hy), distR_sym. apply L; exact Hx'.
Qed.

Lemma seg_seg_dist_unique : forall v w a b c d, is_seg_seg_dist v a b c d -> is_seg_seg_dist w a b c d -> v = w.
Proof.
  intros v w a b c d [_ [[x [y [Hx [Hy E]]]] Lv]] [_ [[x' [y' [Hx' [Hy' E']]]] Lw]].
  apply Rle_antisym; [rewrite E'; apply Lv; assumption | rewrite E; apply Lw; assumption].
Qed.

(* bounding boxes: a point of the segment lies between the extreme ordinates of its ends *)
Lemma lerp_between : forall p q t, 0 <= t <= 1 -> Rmin p q <= p + t * (q - p) <= Rmax p q.
Proof.
  intros p q t Ht. unfold Rmin, Rmax. destruct (Rle_dec p q).
  - assert (0 <= t * (q - p)) by (apply Rmult_le_pos; lra).
    assert (t * (q - p) <= 1 * (q - p)) by (apply Rmult_le_compat_r; lra). lra.
  - assert (0 <= t * (p - q)) by (apply Rmult_le_pos; lra).
    assert (t * (p - q) <= 1 * (p - q)) by (apply Rmult_le_compat_r; lra). lra.
Qed.
Definition boxes_apart (a b c d : rpt) : Prop :=
  Rmax (f_x c) (f_x d) < Rmin (f_x a) (f_x b) \/ Rmax (f_x a) (f_x b) < Rmin (f_x c) (f_x d) \/
  Rmax (f_y c) (f_y d) < Rmin (f_y a) (f_y b) \/ Rmax (f_y a) (f_y b) < Rmin (f_y c) (f_y d).
Lemma boxes_apart_disjoint : forall a b c d x, boxes_apart a b c d -> on_seg x a b -> on_seg x c d -> False.
Proof.
  intros a b c d x H [t [Ht E1]] [u [Hu E2]].
  assert (Ex : f_x (lerp a b t) = f_x (lerp c d u)) by (rewrite <- E1, <- E2; reflexivity).
  assert (Ey : f_y (lerp a b t) = f_y (lerp c d u)) by (rewrite <- E1, <- E2; reflexivity).
  cbn [lerp f_x f_y] in Ex, Ey.
  assert (A := lerp_between (f_x a) (f_x b) t Ht). assert (B := lerp_between (f_x c) (f_x d) u Hu).
  assert (C := lerp_between (f_y a) (f_y b) t Ht). assert (D := lerp_between (f_y c) (f_y d) u Hu).
  destruct H as [H | [H | [H | H]]]; lra.
Qed.
Lemma boxes_apart_nocross : forall a b c d, boxes_apart a b c d -> ~ crossing a b c d.
Proof.
  intros a b c d H C. destruct (crossing_meets a b c d C) as [x [H1 H2]]. exact (boxes_apart_disjoint a b c d x H H1 H2).
Qed.
