(* C08/RealPtSeg — point / segment distance over the reals: the projection parameter r = (p-a).(b-a)/|b-a|^2 clamped to [0,1]
   gives the nearest point of the closed segment; |cross|/|b-a| is the distance at the foot of the perpendicular. *)
From Coq Require Import Reals Lra Psatz.
From GeosV.C08 Require Import GenPreludeR RealDistDefs.
Local Open Scope R_scope.
Set Default Timeout 60.

Lemma d2R_nonneg : forall p q, 0 <= d2R p q.
Proof.
  intros; unfold d2R. assert (H := Rle_0_sqr (f_x p - f_x q)). assert (H1 := Rle_0_sqr (f_y p - f_y q)). unfold Rsqr in *. lra.
Qed.
Lemma d2R_sym : forall p q, d2R p q = d2R q p.
Proof. intros; unfold d2R; ring. Qed.
Lemma distR_sym : forall p q, distR p q = distR q p.
Proof. intros; unfold distR; rewrite d2R_sym; reflexivity. Qed.
Lemma distR_nonneg : forall p q, 0 <= distR p q.
Proof. intros; apply sqrt_pos. Qed.
Lemma distR_le : forall p x q y, d2R p x <= d2R q y -> distR p x <= distR q y.
Proof. intros; apply sqrt_le_1_alt; assumption. Qed.
Lemma distR_self : forall p, distR p p = 0.
Proof. intros; unfold distR, d2R. replace (_ + _) with 0 by ring. apply sqrt_0. Qed.

Lemma lerp_0 : forall a b, lerp a b 0 = a.
Proof. intros [ax ay] b; unfold lerp; cbn [f_x f_y]; f_equal; ring. Qed.
Lemma lerp_1 : forall a b, lerp a b 1 = b.
Proof. intros a [bx by_]; unfold lerp; cbn [f_x f_y]; f_equal; ring. Qed.
Lemma lerp_deg : forall a t, lerp a a t = a.
Proof. intros [ax ay] t; unfold lerp; cbn [f_x f_y]; f_equal; ring. Qed.
Lemma on_seg_lerp : forall a b t, 0 <= t <= 1 -> on_seg (lerp a b t) a b.
Proof. intros a b t H; exists t; auto. Qed.
Lemma on_seg_l : forall a b, on_seg a a b.
Proof. intros; exists 0; split; [lra | symmetry; apply lerp_0]. Qed.
Lemma on_seg_r : forall a b, on_seg b a b.
Proof. intros; exists 1; split; [lra | symmetry; apply lerp_1]. Qed.
Lemma on_seg_deg : forall x a, on_seg x a a -> x = a.
Proof. intros x a [t [_ E]]; rewrite E; apply lerp_deg. Qed.

Lemma d2R_lerp : forall p a b t, d2R p (lerp a b t) = d2R p a - 2 * t * dotR a b p + t * t * len2 a b.
Proof. intros; unfold d2R, len2, d2R, dotR, lerp; cbn [f_x f_y]; ring. Qed.
Lemma lagrangeR : forall p a b, d2R p a * len2 a b = dotR a b p * dotR a b p + crossR a b p * crossR a b p.
Proof. intros; unfold d2R, len2, d2R, dotR, crossR; ring. Qed.
Lemma dot_r : forall p a b, 0 < len2 a b -> dotR a b p = dotR a b p / len2 a b * len2 a b.
Proof. intros; field; lra. Qed.

(* r <= 0: a is the nearest point *)
Lemma end_a : forall p a b, 0 < len2 a b -> dotR a b p / len2 a b <= 0 ->
  forall t, 0 <= t <= 1 -> d2R p a <= d2R p (lerp a b t).
Proof.
  intros p a b HL Hr t Ht. rewrite d2R_lerp, (dot_r p a b HL).
  set (L := len2 a b) in *. set (r := dotR a b p / L) in *. clearbody r L.
  assert (0 <= t * (t - 2 * r)) by nra.
  assert (0 <= L * (t * (t - 2 * r))) by (apply Rmult_le_pos; lra).
  match goal with |- ?lhs <= ?rhs => assert (E : rhs - lhs = L * (t * (t - 2 * r))) by ring end. lra.
Qed.
(* r >= 1: b is the nearest point *)
Lemma end_b : forall p a b, 0 < len2 a b -> 1 <= dotR a b p / len2 a b ->
  forall t, 0 <= t <= 1 -> d2R p b <= d2R p (lerp a b t).
Proof.
  intros p a b HL Hr t Ht. rewrite <- (lerp_1 a b) at 1. rewrite !d2R_lerp, (dot_r p a b HL).
  set (L := len2 a b) in *. set (r := dotR a b p / L) in *. clearbody r L.
  assert (0 <= (1 - t) * (2 * r - 1 - t)) by nra.
  assert (0 <= L * ((1 - t) * (2 * r - 1 - t))) by (apply Rmult_le_pos; lra).
  match goal with |- ?lhs <= ?rhs => assert (E : rhs - lhs = L * ((1 - t) * (2 * r - 1 - t))) by ring end. lra.
Qed.
(* the foot of the perpendicular a + r (b - a) is the nearest point of the whole line, at distance |cross| / |b - a| *)
Lemma foot_min : forall p a b, 0 < len2 a b ->
  forall t, d2R p (lerp a b (dotR a b p / len2 a b)) <= d2R p (lerp a b t).
Proof.
  intros p a b HL t. assert (D := dot_r p a b HL). set (r := dotR a b p / len2 a b) in *.
  rewrite !d2R_lerp, D. set (L := len2 a b) in *. clearbody r L.
  assert (0 <= L * ((t - r) * (t - r))) by (apply Rmult_le_pos; [lra | apply (Rle_0_sqr (t - r))]).
  match goal with |- ?lhs <= ?rhs => assert (E : rhs - lhs = L * ((t - r) * (t - r))) by ring end. lra.
Qed.
Lemma foot_value : forall p a b, 0 < len2 a b ->
  Rabs (crossR a b p / len2 a b) * sqrt (len2 a b) = distR p (lerp a b (dotR a b p / len2 a b)).
Proof.
  intros p a b HL. unfold distR.
  assert (E : d2R p (lerp a b (dotR a b p / len2 a b)) = Rsqr (crossR a b p / len2 a b) * len2 a b).
  { rewrite d2R_lerp. unfold Rsqr.
    assert (G := lagrangeR p a b).
    assert (D : d2R p a = (dotR a b p * dotR a b p + crossR a b p * crossR a b p) / len2 a b) by (rewrite <- G; field; lra).
    rewrite D. field. lra. }
  rewrite E, sqrt_mult; [| apply Rle_0_sqr | lra]. rewrite sqrt_Rsqr_abs. reflexivity.
Qed.

Lemma pt_seg_deg : forall p a, is_pt_seg_dist (distR p a) p a a.
Proof.
  intros p a. split; [apply distR_nonneg|]. split.
  - exists a; split; [apply on_seg_l | reflexivity].
  - intros x Hx. rewrite (on_seg_deg x a Hx). lra.
Qed.
Lemma pt_seg_end_a : forall p a b, 0 < len2 a b -> dotR a b p / len2 a b <= 0 -> is_pt_seg_dist (distR p a) p a b.
Proof.
  intros p a b HL Hr. split; [apply distR_nonneg|]. split.
  - exists a; split; [apply on_seg_l | reflexivity].
  - intros x [t [Ht E]]. subst x. apply distR_le, end_a; assumption.
Qed.
Lemma pt_seg_end_b : forall p a b, 0 < len2 a b -> 1 <= dotR a b p / len2 a b -> is_pt_seg_dist (distR p b) p a b.
Proof.
  intros p a b HL Hr. split; [apply distR_nonneg|]. split.
  - exists b; split; [apply on_seg_r | reflexivity].
  - intros x [t [Ht E]]. subst x. apply distR_le, end_b; assumption.
Qed.
Lemma pt_seg_foot : forall p a b, 0 < len2 a b -> 0 <= dotR a b p / len2 a b <= 1 ->
  is_pt_seg_dist (Rabs (crossR a b p / len2 a b) * sqrt (len2 a b)) p a b.
Proof.
  intros p a b HL Hr. rewrite foot_value by assumption. split; [apply distR_nonneg|]. split.
  - eexists; split; [apply on_seg_lerp; exact Hr | reflexivity].
  - intros x [t [Ht E]]. subst x. apply distR_le, foot_min; assumption.
Qed.
Lemma pt_line_foot : forall p a b, 0 < len2 a b ->
  is_pt_line_dist (Rabs (crossR a b p / len2 a b) * sqrt (len2 a b)) p a b.
Proof.
  intros p a b HL. rewrite foot_value by assumption. split; [apply distR_nonneg|]. split.
  - eexists; reflexivity.
  - intros t. apply distR_le, foot_min; assumption.
Qed.

(* the value is determined by the specification *)
Lemma pt_seg_dist_unique : forall v w p a b, is_pt_seg_dist v p a b -> is_pt_seg_dist w p a b -> v = w.
Proof.
  intros v w p a b [_ [[x [Hx Ex]] Lv]] [_ [[y [Hy Ey]] Lw]].
  apply Rle_antisym; [rewrite Ey; apply Lv; exact Hy | rewrite Ex; apply Lw; exact Hx].
Qed.
(* and its square is the squared distance: v^2 = |p - x|^2 for the nearest point x *)
Lemma pt_seg_dist_sq : forall v p a b, is_pt_seg_dist v p a b ->
  exists x, on_seg x a b /\ v * v = d2R p x /\ forall y, on_seg y a b -> d2R p x <= d2R p y.
Proof.
  intros v p a b [_ [[x [Hx Ex]] Lv]]. exists x. split; [exact Hx|]. split.
  - rewrite Ex. unfold distR. apply sqrt_sqrt, d2R_nonneg.
  - intros y Hy. specialize (Lv y Hy). rewrite Ex in Lv. unfold distR in Lv.
    apply sqrt_le_0; [apply d2R_nonneg | apply d2R_nonneg | exact Lv].
Qed.
