(* C08/RealDistDefs — the specification of "distance" over the real plane that the translated units of
   geos::algorithm::Distance (Gen/C08_*.v, doubles read as reals: C08/GenPreludeR) are proved against.  Definitions only.
   A point is a pair of reals (GenPreludeR.rpt); the closed segment ab is { a + t (b - a) | 0 <= t <= 1 }. *)
From Coq Require Import Reals.
From GeosV.C08 Require Import GenPreludeR.
Local Open Scope R_scope.

Definition lerp (a b : rpt) (t : R) : rpt := mk_rpt (f_x a + t * (f_x b - f_x a)) (f_y a + t * (f_y b - f_y a)).
Definition on_seg (x a b : rpt) : Prop := exists t, 0 <= t <= 1 /\ x = lerp a b t.
Definition d2R (p q : rpt) : R := (f_x p - f_x q) * (f_x p - f_x q) + (f_y p - f_y q) * (f_y p - f_y q).
Definition distR (p q : rpt) : R := sqrt (d2R p q).                       (* the Euclidean distance *)
Definition len2 (a b : rpt) : R := d2R b a.
Definition dotR (a b p : rpt) : R := (f_x p - f_x a) * (f_x b - f_x a) + (f_y p - f_y a) * (f_y b - f_y a).
Definition crossR (a b p : rpt) : R := (f_y a - f_y p) * (f_x b - f_x a) - (f_x a - f_x p) * (f_y b - f_y a).

(* v is THE distance from p to the closed segment ab: non-negative, attained at a point of ab, and no point of ab is closer *)
Definition is_pt_seg_dist (v : R) (p a b : rpt) : Prop :=
  0 <= v /\ (exists x, on_seg x a b /\ v = distR p x) /\ (forall x, on_seg x a b -> v <= distR p x).
(* v is THE distance between the closed segments ab and cd *)
Definition is_seg_seg_dist (v : R) (a b c d : rpt) : Prop :=
  0 <= v /\ (exists x y, on_seg x a b /\ on_seg y c d /\ v = distR x y) /\
  (forall x y, on_seg x a b -> on_seg y c d -> v <= distR x y).
(* v is the distance from p to the whole LINE through a and b *)
Definition is_pt_line_dist (v : R) (p a b : rpt) : Prop :=
  0 <= v /\ (exists t, v = distR p (lerp a b t)) /\ (forall t, v <= distR p (lerp a b t)).

(* the quantities Distance::segmentToSegment computes *)
Definition denomR (a b c d : rpt) : R := (f_x b - f_x a) * (f_y d - f_y c) - (f_y b - f_y a) * (f_x d - f_x c).
Definition rnumR (a b c d : rpt) : R := (f_y a - f_y c) * (f_x d - f_x c) - (f_x a - f_x c) * (f_y d - f_y c).
Definition snumR (a b c d : rpt) : R := (f_y a - f_y c) * (f_x b - f_x a) - (f_x a - f_x c) * (f_y b - f_y a).
(* the lines ab and cd meet in exactly one point, and it lies on both segments *)
Definition crossing (a b c d : rpt) : Prop :=
  denomR a b c d <> 0 /\ 0 <= rnumR a b c d / denomR a b c d <= 1 /\ 0 <= snumR a b c d / denomR a b c d <= 1.
