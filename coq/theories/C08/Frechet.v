(* C08/Frechet — the dynamic programme of DiscreteFrechetDistance (DistDefs.frechet_table, row by row) computes the minimum over
   all monotone couplings of the largest squared distance between coupled points. *)
From Coq Require Import ZArith List Bool Lia.
From GeosV.Lib Require Import GeomDefs LocateDefs.
From GeosV.C08 Require Import DistDefs PtSeg.
Import ListNotations.
Local Open Scope Z_scope.

(* v is the discrete Frechet value of the two sequences (given last point first): some coupling costs v, none costs less *)
Definition is_fre (rp rq : list pt) (v : Z) : Prop :=
  (exists c, coupling rp rq c /\ cost c = v) /\ (forall c, coupling rp rq c -> v <= cost c).

Lemma cost_cons : forall p q c, cost ((p, q) :: c) = Z.max (d2 p q) (cost c).
Proof. reflexivity. Qed.
Lemma coupling_nil_l : forall rq c, ~ coupling [] rq c.
Proof. intros rq c H; inversion H. Qed.
Lemma coupling_nil_r : forall rp c, ~ coupling rp [] c.
Proof. intros rp c H; inversion H. Qed.

Ltac sub_cp M :=
  match goal with
  | Hc : coupling [] _ _ |- _ => exfalso; exact (coupling_nil_l _ _ Hc)
  | Hc : coupling _ [] _ |- _ => exfalso; exact (coupling_nil_r _ _ Hc)
  | Hc : coupling _ _ _ |- _ => rewrite ?cost_cons; pose proof (M _ Hc); lia
  end.

Lemma fre_base : forall p q, is_fre [p] [q] (d2 p q).
Proof.
  intros p q. split.
  - exists [(p, q)]. split; [constructor|]. cbn. pose proof (d2_nonneg p q). lia.
  - intros c H. inversion H; subst; clear H.
    + cbn. lia.
    + sub_cp tt.
    + sub_cp tt.
    + sub_cp tt.
Qed.
(* first row: only the second sequence can go back *)
Lemma fre_row0 : forall p q q' rq l, is_fre [p] (q' :: rq) l -> is_fre [p] (q :: q' :: rq) (Z.max (d2 p q) l).
Proof.
  intros p q q' rq l [[c [Hc Ec]] Hm]. split.
  - exists ((p, q) :: c). split; [apply cp_q; exact Hc|]. rewrite cost_cons, Ec. reflexivity.
  - intros c' H. inversion H; subst; clear H; sub_cp Hm.
Qed.
(* first column: only the first sequence can go back *)
Lemma fre_col0 : forall p p' rp q up, is_fre (p' :: rp) [q] up -> is_fre (p :: p' :: rp) [q] (Z.max (d2 p q) up).
Proof.
  intros p p' rp q up [[c [Hc Ec]] Hm]. split.
  - exists ((p, q) :: c). split; [apply cp_p; exact Hc|]. rewrite cost_cons, Ec. reflexivity.
  - intros c' H. inversion H; subst; clear H; sub_cp Hm.
Qed.
(* inner cell *)
Lemma fre_step : forall p p' rp q q' rq up diag lft,
  is_fre (p' :: rp) (q :: q' :: rq) up -> is_fre (p' :: rp) (q' :: rq) diag -> is_fre (p :: p' :: rp) (q' :: rq) lft ->
  is_fre (p :: p' :: rp) (q :: q' :: rq) (Z.max (d2 p q) (Z.min (Z.min up diag) lft)).
Proof.
  intros p p' rp q q' rq up diag lft [[c1 [H1 E1]] M1] [[c2 [H2 E2]] M2] [[c3 [H3 E3]] M3]. split.
  - destruct (Z_le_gt_dec up diag) as [A | A]; destruct (Z_le_gt_dec (Z.min up diag) lft) as [B | B].
    + exists ((p, q) :: c1). split; [apply cp_p; exact H1|]. rewrite cost_cons, E1. lia.
    + exists ((p, q) :: c3). split; [apply cp_q; exact H3|]. rewrite cost_cons, E3. lia.
    + exists ((p, q) :: c2). split; [apply cp_pq; exact H2|]. rewrite cost_cons, E2. lia.
    + exists ((p, q) :: c3). split; [apply cp_q; exact H3|]. rewrite cost_cons, E3. lia.
  - intros c' H. inversion H; subst; clear H; rewrite cost_cons.
    + match goal with Hc : coupling _ _ _ |- _ => pose proof (M1 _ Hc); lia end.
    + match goal with Hc : coupling _ _ _ |- _ => pose proof (M3 _ Hc); lia end.
    + match goal with Hc : coupling _ _ _ |- _ => pose proof (M2 _ Hc); lia end.
Qed.

(* the reversed prefixes of qs, each pushed on acc *)
Fixpoint prefixes_from (acc qs : list pt) : list (list pt) :=
  match qs with [] => [] | q :: qs' => (q :: acc) :: prefixes_from (q :: acc) qs' end.

Lemma first_row_ok : forall p qs acc lft,
  match acc with [] => lft = None | _ => exists l, lft = Some l /\ is_fre [p] acc l end ->
  Forall2 (is_fre [p]) (prefixes_from acc qs) (first_row p qs lft).
Proof.
  intros p qs. induction qs as [|q qs IH]; intros acc lft H; cbn [prefixes_from first_row]; [constructor|].
  constructor.
  - destruct acc as [|q' rq].
    + subst lft. apply fre_base.
    + destruct H as [l [-> Hl]]. apply fre_row0; exact Hl.
  - apply IH. destruct acc as [|q' rq].
    + subst lft. eexists; split; [reflexivity | apply fre_base].
    + destruct H as [l [-> Hl]]. eexists; split; [reflexivity | apply fre_row0; exact Hl].
Qed.

Lemma next_row_ok : forall p p' rp qs acc prev dl,
  Forall2 (is_fre (p' :: rp)) (prefixes_from acc qs) prev ->
  match acc with
  | [] => dl = None
  | _ => exists diag l, dl = Some (diag, l) /\ is_fre (p' :: rp) acc diag /\ is_fre (p :: p' :: rp) acc l
  end ->
  Forall2 (is_fre (p :: p' :: rp)) (prefixes_from acc qs) (next_row p qs prev dl).
Proof.
  intros p p' rp qs. induction qs as [|q qs IH]; intros acc prev dl HP H; cbn [prefixes_from] in *.
  - inversion HP; subst. cbn. constructor.
  - inversion HP as [|x up l0 prev' Hup HP']; subst. cbn [next_row].
    assert (V : is_fre (p :: p' :: rp) (q :: acc)
                  (match dl with None => Z.max (d2 p q) up | Some (diag, lft) => Z.max (d2 p q) (Z.min (Z.min up diag) lft) end)).
    { destruct acc as [|q' rq].
      - subst dl. apply fre_col0; exact Hup.
      - destruct H as [diag [l [-> [Hd Hl]]]]. apply fre_step; assumption. }
    constructor; [exact V|]. apply IH; [exact HP'|].
    eexists _, _. split; [reflexivity|]. split; [exact Hup | exact V].
Qed.

Lemma rows_ok : forall qs ps' p' rp row,
  Forall2 (is_fre (p' :: rp)) (prefixes_from [] qs) row ->
  exists p'' rp'', rev ps' ++ p' :: rp = p'' :: rp'' /\
    Forall2 (is_fre (p'' :: rp'')) (prefixes_from [] qs) (fold_left (fun row p0 => next_row p0 qs row None) ps' row).
Proof.
  intros qs ps'. induction ps' as [|p ps' IH]; intros p' rp row H.
  - cbn. exists p', rp. auto.
  - cbn [fold_left rev].
    destruct (IH p (p' :: rp) (next_row p qs row None)) as [p'' [rp'' [E F]]].
    { apply next_row_ok; [exact H | reflexivity]. }
    exists p'', rp''. split; [|exact F]. rewrite <- app_assoc. cbn. exact E.
Qed.

Lemma prefixes_last : forall qs acc d, qs <> [] -> last (prefixes_from acc qs) d = rev qs ++ acc.
Proof.
  intros qs. induction qs as [|q qs IH]; intros acc d H; [congruence|].
  cbn [prefixes_from]. destruct qs as [|q' qs].
  - reflexivity.
  - change (last ((q :: acc) :: prefixes_from (q :: acc) (q' :: qs)) d) with (last (prefixes_from (q :: acc) (q' :: qs)) d).
    rewrite IH by congruence. cbn [rev]. rewrite <- !app_assoc. reflexivity.
Qed.
Lemma Forall2_last : forall {A B} (R : A -> B -> Prop) l l' da db, Forall2 R l l' -> l <> [] -> R (last l da) (last l' db).
Proof.
  intros A B R l l' da db H. induction H as [|x y l l' Hxy H IH]; intros N; [congruence|].
  destruct H as [|x' y' l l' Hxy' H]; [exact Hxy|]. apply IH. congruence.
Qed.
Lemma rev_head_last : forall {A} (l : list A) v r d, rev l = v :: r -> last l d = v.
Proof.
  intros A l v r d H. assert (E : l = rev (v :: r)) by (rewrite <- H, rev_involutive; reflexivity).
  rewrite E. cbn [rev]. apply last_last.
Qed.

(* the table value is the minimum over all monotone couplings of the largest squared distance of coupled points *)
Theorem frechet_dp_eq_spec : forall ps qs v, frechet2_seq ps qs = Some v -> is_fre (rev ps) (rev qs) v.
Proof.
  intros ps qs v H. unfold frechet2_seq in H.
  destruct (rev (frechet_table ps qs)) as [|v' r] eqn:E; [discriminate|]. inversion H; subst v'.
  unfold frechet_table in E. destruct ps as [|p ps']; [discriminate|].
  pose proof (first_row_ok p qs [] None eq_refl) as F0.
  destruct (rows_ok qs ps' p [] _ F0) as [p'' [rp'' [EQ F]]].
  destruct qs as [|q qs'].
  { cbn [prefixes_from] in F. remember (fold_left (fun row p0 => next_row p0 [] row None) ps' (first_row p [] None)) as tbl.
    inversion F; subst tbl. match goal with X : [] = _ |- _ => rewrite <- X in E end. discriminate. }
  pose proof (Forall2_last _ _ _ [] 0 F ltac:(cbn; congruence)) as L.
  rewrite prefixes_last in L by congruence. rewrite app_nil_r in L.
  rewrite (rev_head_last _ _ _ 0 E) in L. cbn [rev]. rewrite EQ. exact L.
Qed.

(* the programme answers on all non-empty inputs *)
Lemma first_row_length : forall p qs l, length (first_row p qs l) = length qs.
Proof. intros p qs. induction qs; intros; cbn; auto. Qed.
Lemma next_row_length : forall p qs prev dl, length prev = length qs -> length (next_row p qs prev dl) = length qs.
Proof. intros p qs. induction qs as [|q qs IH]; intros [|u prev] dl H; cbn in *; try congruence. f_equal. apply IH. lia. Qed.
Theorem frechet_total : forall ps qs, ps <> [] -> qs <> [] -> exists v, frechet2_seq ps qs = Some v.
Proof.
  intros [|p ps'] qs Hp Hq; [congruence|]. unfold frechet2_seq, frechet_table.
  assert (L : forall ps' row, length row = length qs -> length (fold_left (fun row p0 => next_row p0 qs row None) ps' row) = length qs).
  { induction ps'0 as [|x xs IH]; intros row Hr; cbn; [exact Hr|]. apply IH. apply next_row_length; exact Hr. }
  specialize (L ps' (first_row p qs None) (first_row_length p qs None)).
  destruct (rev (fold_left (fun row p0 => next_row p0 qs row None) ps' (first_row p qs None))) as [|v r] eqn:E.
  - apply (f_equal (@length Z)) in E. rewrite rev_length, L in E. destruct qs; [congruence | discriminate].
  - eauto.
Qed.
