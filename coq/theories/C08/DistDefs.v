(* C08/DistDefs — exact distance oracle over integer (scaled dyadic) coordinates.  DEFINITIONS ONLY, executable, stdlib only.

   Binary64 ordinates are dyadic rationals; the check scales every ordinate of one case by one common power of two, so a case
   is a pair of geometry trees over Z (Lib/GeomDefs).  Squared distances are exact rationals num/den (record rat, den > 0),
   witness points are homogeneous integer triples (x, y, w), w > 0 (Lib/LocateDefs.hpt).

   S  dist2_pt_seg, dist2_seg_seg      squared distance point/segment and segment/segment with the points realising it
   S  facet_dist2 g h                  minimum over all facet pairs (points, segments of lines and of polygon rings): what
                                       IndexedFacetDistance computes
   S  dist2 g h                        0 when the point sets intersect (a vertex of one inside/on a polygon of the other, or a
                                       facet pair at distance 0), else facet_dist2: what DistanceOp computes
   S  hausdorff2 n g h                 discrete Hausdorff distance over the vertices and the n-fold subdivision points
   S  coupling / M frechet2            discrete Frechet distance: min over monotone couplings / the dynamic programme of
                                       DiscreteFrechetDistance::getFrechetDistance
   S  minclear2 g                      minimum clearance (distinct vertices, vertex against a segment it is not an end of)   *)
From Coq Require Import ZArith List Bool.
From GeosV.Lib Require Import GeomDefs LocateDefs.
Import ListNotations.
Local Open Scope Z_scope.

(* ------------------------------------------------------------------ exact rationals num/den, den > 0 *)
Record rat := mkr { rn : Z; rd : Z }.
Definition rle (r s : rat) : bool := rn r * rd s <=? rn s * rd r.
Definition req (r s : rat) : Prop := rn r * rd s = rn s * rd r.
Definition reqb (r s : rat) : bool := rn r * rd s =? rn s * rd r.
Definition rzero (r : rat) : bool := rn r =? 0.
Definition rat_ok (r : rat) : Prop := 0 <= rn r /\ 0 < rd r.
Definition rmin (r s : rat) : rat := if rle r s then r else s.
Definition rmax (r s : rat) : rat := if rle r s then s else r.
Definition rscale (k : Z) (r : rat) : rat := mkr (k * rn r) (rd r).

(* minimum / maximum of a list of tagged values; the first extremal element wins *)
Definition better {A} (x y : rat * A) : rat * A := if rle (fst x) (fst y) then x else y.
Definition worse {A} (x y : rat * A) : rat * A := if rle (fst y) (fst x) then x else y.
Definition min_of {A} (l : list (rat * A)) : option (rat * A) :=
  match l with [] => None | x :: r => Some (fold_left better r x) end.
Definition max_of {A} (l : list (rat * A)) : option (rat * A) :=
  match l with [] => None | x :: r => Some (fold_left worse r x) end.

(* ------------------------------------------------------------------ vectors *)
Definition sq (x : Z) : Z := x * x.
Definition d2 (p q : pt) : Z := sq (fst p - fst q) + sq (snd p - snd q).
(* (p - a) . (b - a) *)
Definition dotp (a b p : pt) : Z := (fst p - fst a) * (fst b - fst a) + (snd p - snd a) * (snd b - snd a).
(* squared distance between two homogeneous points, as a rational *)
Definition hd2 (p q : hpt) : rat :=
  let '(x, y, w) := p in let '(x', y', w') := q in
  mkr (sq (x * w' - x' * w) + sq (y * w' - y' * w)) (sq (w * w')).
(* the point a + (n/m)(b - a) *)
Definition hlerp (a b : pt) (n m : Z) : hpt := ((m - n) * fst a + n * fst b, (m - n) * snd a + n * snd b, m).
(* (x, y, w) lies on the closed segment ab: w > 0 and it is a + (n/m)(b - a) for some 0 <= n <= m, 0 < m *)
Definition hon (x : hpt) (a b : pt) : Prop :=
  let '(px, py, w) := x in
  0 < w /\ exists n m, 0 < m /\ 0 <= n <= m /\
    m * px = w * ((m - n) * fst a + n * fst b) /\ m * py = w * ((m - n) * snd a + n * snd b).

(* ------------------------------------------------------------------ point / segment *)
(* squared distance from p to the closed segment ab and the point of ab realising it.
   t = (p-a).(b-a), l2 = |b-a|^2 : t <= 0 -> a (this covers a = b), t >= l2 -> b, else the foot of the perpendicular
   a + (t/l2)(b-a), at squared distance cross^2 / l2   (Distance::pointToSegment: r = t/l2, s = cross/l2, |s| sqrt(l2)) *)
Definition dist2_pt_seg (p a b : pt) : rat * hpt :=
  let l2 := d2 a b in
  let t := dotp a b p in
  if t <=? 0 then (mkr (d2 p a) 1, hp a)
  else if l2 <=? t then (mkr (d2 p b) 1, hp b)
  else (mkr (sq (orient a b p)) l2, hlerp a b t l2).

(* ------------------------------------------------------------------ segment / segment *)
(* the open segments cross at a single point interior to both *)
Definition opposite (x y : Z) : bool := ((0 <? x) && (y <? 0)) || ((x <? 0) && (0 <? y)).
Definition proper_cross (a b c d : pt) : bool :=
  opposite (orient a b c) (orient a b d) && opposite (orient c d a) (orient c d b).
(* the crossing point of the lines ab and cd as a point of ab: a + (o3/(o3-o4))(b-a), o3 = orient c d a, o4 = orient c d b *)
Definition cross_pt (a b c d : pt) : hpt :=
  let o3 := orient c d a in let o4 := orient c d b in
  if 0 <? o3 - o4 then hlerp a b o3 (o3 - o4) else hlerp a b (- o3) (o4 - o3).

(* squared distance between the closed segments ab and cd with a point of each realising it: 0 at a proper crossing,
   otherwise the least of the four endpoint/segment distances (Distance::segmentToSegment) *)
Definition dist2_seg_seg (a b c d : pt) : rat * (hpt * hpt) :=
  if proper_cross a b c d then let x := cross_pt a b c d in (mkr 0 1, (x, x)) else
  let r1 := dist2_pt_seg c a b in let r2 := dist2_pt_seg d a b in
  let r3 := dist2_pt_seg a c d in let r4 := dist2_pt_seg b c d in
  better (fst r1, (snd r1, hp c)) (better (fst r2, (snd r2, hp d)) (better (fst r3, (hp a, snd r3)) (fst r4, (hp b, snd r4)))).

(* ------------------------------------------------------------------ facets of a geometry *)
(* a facet is a closed segment; a point is the degenerate segment (p, p) *)
Definition facet := (pt * pt)%type.
Definition seq_facets (l : seq) : list facet := match l with [a] => [(a, a)] | _ => segs l end.
Definition poly_facets (a : poly) : list facet := flat_map seq_facets (poly_rings a).
Definition facets_of (g : geom) : list facet :=
  map (fun p => (p, p)) (points_of g) ++ flat_map seq_facets (lines_of g) ++ flat_map poly_facets (polys_of g).

Definition facet_pair (f f' : facet) : rat * (hpt * hpt) := dist2_seg_seg (fst f) (snd f) (fst f') (snd f').
(* minimum over all pairs of facets; None when one side has no facet (empty geometry) *)
Definition facets_dist2 (fs fs' : list facet) : option (rat * (hpt * hpt)) :=
  min_of (flat_map (fun f => map (facet_pair f) fs') fs).
Definition facet_dist2 (g h : geom) : option (rat * (hpt * hpt)) := facets_dist2 (facets_of g) (facets_of h).

(* ------------------------------------------------------------------ distance between the point sets *)
(* first vertex of g that is not in the exterior of some polygon of h *)
Definition in_some_poly (h : geom) (p : pt) : bool := existsb (fun a => negb (is_exterior (loc_poly p a))) (polys_of h).
Definition vertex_inside (g h : geom) : option pt := find (in_some_poly h) (coords_of g).

(* from the facet distance f of g and h *)
Definition dist2_of (f : option (rat * (hpt * hpt))) (g h : geom) : option (rat * (hpt * hpt)) :=
  match f with
  | None => None
  | Some r =>
      match vertex_inside g h with
      | Some p => Some (mkr 0 1, (hp p, hp p))
      | None => match vertex_inside h g with
                | Some p => Some (mkr 0 1, (hp p, hp p))
                | None => Some r
                end
      end
  end.
Definition dist2 (g h : geom) : option (rat * (hpt * hpt)) := dist2_of (facet_dist2 g h) g h.
(* both at once (the driver prints both; the facet minimum is computed once) *)
Definition facet_and_dist2 (g h : geom) : option (rat * (hpt * hpt)) * option (rat * (hpt * hpt)) :=
  let f := facet_dist2 g h in (f, dist2_of f g h).

(* ------------------------------------------------------------------ discrete Hausdorff distance *)
(* distance from a point to the linework of a geometry (polygons count by their rings: DistanceToPoint::computeDistance) *)
Definition dist2_pt_facets (p : pt) (fs : list facet) : option (rat * hpt) :=
  min_of (map (fun f => dist2_pt_seg p (fst f) (snd f)) fs).
(* the n-fold subdivision points of a segment except its end, in coordinates multiplied by n: (n-i) a + i b, i = 0 .. n-1 *)
Definition dens_seg (n : Z) (s : pt * pt) : list pt :=
  map (fun i => let i := Z.of_nat i in ((n - i) * fst (fst s) + i * fst (snd s), (n - i) * snd (fst s) + i * snd (snd s)))
      (List.seq 0 (Z.to_nat n)).
(* every coordinate sequence of a geometry (points excluded: their sequences have no segment) *)
Definition seqs_of (g : geom) : list seq := lines_of g ++ flat_map poly_rings (polys_of g).
(* sample points of g for subdivision count n >= 1, in coordinates multiplied by n: all vertices and all subdivision points *)
Definition sample_pts (n : Z) (g : geom) : list pt :=
  map (scale_pt n) (coords_of g) ++ flat_map (fun l => flat_map (dens_seg n) (segs l)) (seqs_of g).
(* max over the sample points of g of the distance to h; all in coordinates multiplied by n *)
Definition directed_h2 (n : Z) (g h : geom) : option (rat * (pt * hpt)) :=
  let fs := facets_of (map_geom (scale_pt n) h) in
  max_of (flat_map (fun p => match dist2_pt_facets p fs with Some r => [(fst r, (p, snd r))] | None => [] end) (sample_pts n g)).
Definition hausdorff2 (n : Z) (g h : geom) : option rat :=
  match directed_h2 n g h, directed_h2 n h g with
  | Some r, Some s => Some (rmax (fst r) (fst s))
  | _, _ => None
  end.

(* ------------------------------------------------------------------ discrete Frechet distance *)
(* S: a monotone coupling of two non-empty point sequences, both given LAST POINT FIRST (so that the head pair is the pair
   (p_i, q_j) the recursion of getFrechetDistance is at): it ends at the two first points, and each step goes back by one
   in the first sequence, in the second, or in both *)
Inductive coupling : list pt -> list pt -> list (pt * pt) -> Prop :=
| cp_base : forall p q, coupling [p] [q] [(p, q)]
| cp_p : forall p rp q rq c, coupling rp (q :: rq) c -> coupling (p :: rp) (q :: rq) ((p, q) :: c)
| cp_q : forall p rp q rq c, coupling (p :: rp) rq c -> coupling (p :: rp) (q :: rq) ((p, q) :: c)
| cp_pq : forall p rp q rq c, coupling rp rq c -> coupling (p :: rp) (q :: rq) ((p, q) :: c).
(* the largest squared distance between coupled points *)
Definition cost (c : list (pt * pt)) : Z := fold_right (fun s acc => Z.max (d2 (fst s) (snd s)) acc) 0 c.

(* M: the table ca[i][j] of DiscreteFrechetDistance row by row.
   first_row:  ca[0][j] = max(d(p0,qj), ca[0][j-1]);
   next_row:   ca[i][0] = max(d(pi,q0), ca[i-1][0]);  ca[i][j] = max(d(pi,qj), min(ca[i-1][j], ca[i-1][j-1], ca[i][j-1])) *)
Fixpoint first_row (p : pt) (qs : list pt) (lft : option Z) : list Z :=
  match qs with
  | [] => []
  | q :: qs' => let v := match lft with None => d2 p q | Some l => Z.max (d2 p q) l end in v :: first_row p qs' (Some v)
  end.
Fixpoint next_row (p : pt) (qs : list pt) (prev : list Z) (dl : option (Z * Z)) : list Z :=
  match qs, prev with
  | q :: qs', up :: prev' =>
      let v := match dl with
               | None => Z.max (d2 p q) up
               | Some (diag, lft) => Z.max (d2 p q) (Z.min (Z.min up diag) lft)
               end in
      v :: next_row p qs' prev' (Some (up, v))
  | _, _ => []
  end.
Definition frechet_table (ps qs : list pt) : list Z :=
  match ps with
  | [] => []
  | p :: ps' => fold_left (fun row p' => next_row p' qs row None) ps' (first_row p qs None)
  end.
Definition frechet2_seq (ps qs : list pt) : option Z :=
  match rev (frechet_table ps qs) with [] => None | v :: _ => Some v end.
(* the vertex sequence of DiscreteFrechetDistance for subdivision count n >= 1, in coordinates multiplied by n:
   getSegmentAt(k) = p_(k/n) + (k mod n)(p_(k/n+1) - p_(k/n))/n, k = 0 .. n(size-1) *)
Definition dens_seq (n : Z) (l : seq) : seq :=
  match l with
  | [] => []
  | a :: _ => flat_map (dens_seg n) (segs l) ++ [scale_pt n (last l a)]
  end.
(* Geometry::getCoordinates of both arguments, subdivided *)
Definition frechet2 (n : Z) (g h : geom) : option Z := frechet2_seq (dens_seq n (coords_of g)) (dens_seq n (coords_of h)).

(* ------------------------------------------------------------------ minimum clearance *)
Definition minclear2 (g : geom) : option rat :=
  let vs := coords_of g in
  let ss := flat_map segs (seqs_of g) in
  let vv := flat_map (fun p => flat_map (fun q => if pt_eqb p q then [] else [(mkr (d2 p q) 1, tt)]) vs) vs in
  let vsg := flat_map (fun p => flat_map (fun s => if pt_eqb p (fst s) || pt_eqb p (snd s) then []
                                                     else [(fst (dist2_pt_seg p (fst s) (snd s)), tt)]) ss) vs in
  option_map fst (min_of (vv ++ vsg)).

(* ------------------------------------------------------------------ facet sequencing *)
(* M: FacetSequenceTreeBuilder::addFacetSequences — the index ranges [start, end) into which a coordinate sequence of `size`
   points is cut (FACET_SEQUENCE_SIZE = 6):  i = 0; while (i <= size-1) { end = i+6+1; if (end >= size-1) end = size;
   emit (i, end); i += 6 } *)
Fixpoint sections_loop (fuel : nat) (i size : Z) : list (Z * Z) :=
  match fuel with
  | O => []
  | S f => if i <=? size - 1 then
             let e := i + 6 + 1 in
             let e := if e >=? size - 1 then size else e in
             (i, e) :: sections_loop f (i + 6) size
           else []
  end.
Definition sections (size : Z) : list (Z * Z) := if size =? 0 then [] else sections_loop (Z.to_nat size) 0 size.

(* ------------------------------------------------------------------ entry points of the driver *)
Definition val {A} (o : option (rat * A)) : option rat := option_map fst o.
Definition run_dist2 (g h : geom) : option (rat * (hpt * hpt)) := dist2 g h.
Definition run_facet2 (g h : geom) : option (rat * (hpt * hpt)) := facet_dist2 g h.
