(* C08/FacetSeq — the facet sequences of FacetSequenceTreeBuilder cover every segment (and the single vertex of a point), stay
   inside the coordinate sequence and are not empty: no segment is lost to an off-by-one in the sectioning. *)
From Coq Require Import ZArith List Bool Lia.
From GeosV.C08 Require Import DistDefs.
Import ListNotations.
Local Open Scope Z_scope.

Lemma loop_cover : forall fuel i size k, 0 <= i <= k -> k + 1 < size -> k - i < 6 * Z.of_nat fuel ->
  exists s e, In (s, e) (sections_loop fuel i size) /\ s <= k /\ k + 1 < e.
Proof.
  induction fuel as [|f IH]; intros i size k Hi Hk Hf; [cbn in Hf; lia|].
  cbn [sections_loop]. destruct (Z.leb_spec i (size - 1)) as [L | L]; [|lia].
  destruct (Z_lt_le_dec k (i + 6)) as [C | C].
  - exists i, (if i + 6 + 1 >=? size - 1 then size else i + 6 + 1). split; [left; reflexivity|]. split; [lia|].
    destruct (i + 6 + 1 >=? size - 1); lia.
  - destruct (IH (i + 6) size k ltac:(lia) Hk ltac:(lia)) as [s [e [H1 H2]]]. exists s, e. split; [right; exact H1 | exact H2].
Qed.
Lemma loop_bounds : forall fuel i size s e, 0 <= i -> In (s, e) (sections_loop fuel i size) -> 0 <= s /\ s < e /\ e <= size.
Proof.
  induction fuel as [|f IH]; intros i size s e Hi H; [destruct H|].
  cbn [sections_loop] in H. destruct (Z.leb_spec i (size - 1)) as [L | L]; [|destruct H].
  destruct H as [H | H].
  - inversion H; subst. destruct (Z.geb_spec (s + 6 + 1) (size - 1)); lia.
  - apply (IH (i + 6) size s e); [lia | exact H].
Qed.

(* every segment (k, k+1) of the sequence lies inside one section *)
Theorem sections_cover_segments : forall size k, 0 <= k -> k + 1 < size ->
  exists s e, In (s, e) (sections size) /\ s <= k /\ k + 1 < e.
Proof.
  intros size k Hk Hs. unfold sections. destruct (Z.eqb_spec size 0); [lia|].
  apply loop_cover; [lia | exact Hs | rewrite Z2Nat.id; lia].
Qed.
(* every vertex lies inside one section (this is what a single point needs) *)
Theorem sections_cover_vertices : forall size k, 0 <= k < size -> exists s e, In (s, e) (sections size) /\ s <= k < e.
Proof.
  intros size k Hk. destruct (Z_lt_le_dec (k + 1) size) as [C | C].
  - destruct (sections_cover_segments size k ltac:(lia) C) as [s [e [H1 H2]]]. exists s, e. split; [exact H1 | lia].
  - (* the last vertex: covered with the segment before it, or alone when size = 1 *)
    assert (k = size - 1) by lia. subst k. destruct (Z.eq_dec size 1) as [-> | N].
    + exists 0, 1. split; [vm_compute; auto | lia].
    + destruct (sections_cover_segments size (size - 2) ltac:(lia) ltac:(lia)) as [s [e [H1 H2]]]. exists s, e. split; [exact H1 | lia].
Qed.
Theorem sections_bounds : forall size s e, In (s, e) (sections size) -> 0 <= s /\ s < e /\ e <= size.
Proof.
  intros size s e H. unfold sections in H. destruct (Z.eqb_spec size 0); [destruct H|]. apply (loop_bounds (Z.to_nat size) 0 size s e); [lia | exact H].
Qed.
