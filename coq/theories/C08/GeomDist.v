(* C08/GeomDist — the geometry-level oracle: facet distance = minimum over all pairs of points of facets, attained; symmetry;
   zero exactly on intersection; the discrete Hausdorff distance is the max-min over the sample points and symmetric. *)
From Coq Require Import ZArith List Bool Lia Psatz.
From GeosV.Lib Require Import GeomDefs LocateDefs.
From GeosV.C08 Require Import DistDefs PtSeg SegSeg.
Import ListNotations.
Local Open Scope Z_scope.

(* ------------------------------------------------------------------ min_of / max_of *)
Lemma fold_better_spec : forall {A} (l : list (rat * A)) x, (forall y, In y (x :: l) -> 0 < rd (fst y)) ->
  In (fold_left better l x) (x :: l) /\ forall y, In y (x :: l) -> rle (fst (fold_left better l x)) (fst y) = true.
Proof.
  intros A l. induction l as [|z l IH]; intros x Hd.
  - cbn [fold_left]. split; [left; reflexivity|]. intros y [<- | []]. apply rle_refl.
  - cbn [fold_left].
    assert (Hb : 0 < rd (fst (better x z))) by (destruct (better_in x z) as [-> | ->]; apply Hd; cbn; auto).
    assert (Hd' : forall y, In y (better x z :: l) -> 0 < rd (fst y)).
    { intros y [<- | Hy]; [exact Hb | apply Hd; right; right; exact Hy]. }
    destruct (IH (better x z) Hd') as [I M]. split.
    + destruct I as [I | I]; [|right; right; exact I]. rewrite <- I. destruct (better_in x z) as [-> | ->]; cbn; auto.
    + intros y Hy.
      assert (Hr : 0 < rd (fst (fold_left better l (better x z)))).
      { destruct I as [<- | I]; [exact Hb | apply Hd; right; right; exact I]. }
      pose proof (M (better x z) (or_introl eq_refl)) as M0.
      destruct Hy as [<- | [<- | Hy]].
      * apply (rle_trans _ (fst (better x z))); auto. apply Hd; cbn; auto. apply better_l.
      * apply (rle_trans _ (fst (better x z))); auto. apply Hd; cbn; auto. apply better_r.
      * apply M. right; exact Hy.
Qed.
Lemma min_of_spec : forall {A} (l : list (rat * A)) r, (forall y, In y l -> 0 < rd (fst y)) -> min_of l = Some r ->
  In r l /\ forall y, In y l -> rle (fst r) (fst y) = true.
Proof.
  intros A [|x l] r Hd H; [discriminate|]. cbn [min_of] in H. inversion H; subst. apply fold_better_spec; exact Hd.
Qed.
Lemma min_of_none : forall {A} (l : list (rat * A)), min_of l = None <-> l = [].
Proof. intros A [|x l]; cbn; split; congruence. Qed.

Lemma worse_l : forall {A} (x y : rat * A), rle (fst x) (fst (worse x y)) = true.
Proof. intros A x y. unfold worse. destruct (rle (fst y) (fst x)) eqn:E; [apply rle_refl | apply rle_total; exact E]. Qed.
Lemma worse_r : forall {A} (x y : rat * A), rle (fst y) (fst (worse x y)) = true.
Proof. intros A x y. unfold worse. destruct (rle (fst y) (fst x)) eqn:E; [exact E | apply rle_refl]. Qed.
Lemma worse_in : forall {A} (x y : rat * A), worse x y = x \/ worse x y = y.
Proof. intros A x y. unfold worse. destruct (rle (fst y) (fst x)); auto. Qed.
Lemma fold_worse_spec : forall {A} (l : list (rat * A)) x, (forall y, In y (x :: l) -> 0 < rd (fst y)) ->
  In (fold_left worse l x) (x :: l) /\ forall y, In y (x :: l) -> rle (fst y) (fst (fold_left worse l x)) = true.
Proof.
  intros A l. induction l as [|z l IH]; intros x Hd.
  - cbn [fold_left]. split; [left; reflexivity|]. intros y [<- | []]. apply rle_refl.
  - cbn [fold_left].
    assert (Hb : 0 < rd (fst (worse x z))) by (destruct (worse_in x z) as [-> | ->]; apply Hd; cbn; auto).
    assert (Hd' : forall y, In y (worse x z :: l) -> 0 < rd (fst y)).
    { intros y [<- | Hy]; [exact Hb | apply Hd; right; right; exact Hy]. }
    destruct (IH (worse x z) Hd') as [I M]. split.
    + destruct I as [I | I]; [|right; right; exact I]. rewrite <- I. destruct (worse_in x z) as [-> | ->]; cbn; auto.
    + intros y Hy.
      assert (Hr : 0 < rd (fst (fold_left worse l (worse x z)))).
      { destruct I as [<- | I]; [exact Hb | apply Hd; right; right; exact I]. }
      pose proof (M (worse x z) (or_introl eq_refl)) as M0.
      destruct Hy as [<- | [<- | Hy]].
      * apply (rle_trans _ (fst (worse x z))); auto. apply Hd; cbn; auto. apply worse_l.
      * apply (rle_trans _ (fst (worse x z))); auto. apply Hd; cbn; auto. apply worse_r.
      * apply M. right; exact Hy.
Qed.
Lemma max_of_spec : forall {A} (l : list (rat * A)) r, (forall y, In y l -> 0 < rd (fst y)) -> max_of l = Some r ->
  In r l /\ forall y, In y l -> rle (fst y) (fst r) = true.
Proof.
  intros A [|x l] r Hd H; [discriminate|]. cbn [max_of] in H. inversion H; subst. apply fold_worse_spec; exact Hd.
Qed.

(* ------------------------------------------------------------------ facet distance *)
Definition on_facet (x : hpt) (f : facet) : Prop := hon x (fst f) (snd f).

Lemma facet_pair_den : forall f f', 0 < rd (fst (facet_pair f f')).
Proof. intros f f'. unfold facet_pair. apply (dist2_seg_seg_attained (fst f) (snd f) (fst f') (snd f')). Qed.

Lemma in_pairs : forall (fs fs' : list facet) r,
  In r (flat_map (fun f => map (facet_pair f) fs') fs) <-> exists f f', In f fs /\ In f' fs' /\ r = facet_pair f f'.
Proof.
  intros fs fs' r. rewrite in_flat_map. split.
  - intros [f [Hf Hr]]. apply in_map_iff in Hr. destruct Hr as [f' [E Hf']]. exists f, f'. auto.
  - intros [f [f' [Hf [Hf' E]]]]. exists f. split; [exact Hf|]. apply in_map_iff. exists f'. auto.
Qed.

(* the facet distance is attained by a point of a facet of each side and is a lower bound for all such pairs of points:
   it is the minimum squared distance between the two unions of facets *)
Theorem facets_dist2_spec : forall fs fs' r, facets_dist2 fs fs' = Some r ->
  (exists f f', In f fs /\ In f' fs' /\ on_facet (fst (snd r)) f /\ on_facet (snd (snd r)) f' /\ req (hd2 (fst (snd r)) (snd (snd r))) (fst r)) /\
  (forall f f' x y, In f fs -> In f' fs' -> on_facet x f -> on_facet y f' -> rle (fst r) (hd2 x y) = true) /\
  rat_ok (fst r).
Proof.
  intros fs fs' r H. unfold facets_dist2 in H.
  assert (Hd : forall y, In y (flat_map (fun f => map (facet_pair f) fs') fs) -> 0 < rd (fst y)).
  { intros y Hy. apply in_pairs in Hy. destruct Hy as [f [f' [_ [_ ->]]]]. apply facet_pair_den. }
  destruct (min_of_spec _ _ Hd H) as [I M]. apply in_pairs in I. destruct I as [f [f' [Hf [Hf' E]]]].
  pose proof (dist2_seg_seg_attained (fst f) (snd f) (fst f') (snd f')) as A. cbv zeta in A. fold (facet_pair f f') in A. rewrite <- E in A.
  destruct A as [OK [O1 [O2 AT]]].
  split; [exists f, f'; unfold on_facet; auto|]. split; [|exact OK].
  intros g g' x y Hg Hg' Ox Oy.
  pose proof (M (facet_pair g g') (proj2 (in_pairs fs fs' _) (ex_intro _ g (ex_intro _ g' (conj Hg (conj Hg' eq_refl)))))) as M1.
  apply (rle_trans _ (fst (facet_pair g g'))); [apply OK | apply facet_pair_den | | exact M1 | ].
  - apply hd2_den; [apply (hon_w _ _ _ Ox) | apply (hon_w _ _ _ Oy)].
  - unfold facet_pair. apply dist2_seg_seg_lower_on; assumption.
Qed.

Lemma facets_dist2_none : forall fs fs', facets_dist2 fs fs' = None <-> fs = [] \/ fs' = [].
Proof.
  intros fs fs'. unfold facets_dist2. rewrite min_of_none. split.
  - intro H. destruct fs as [|f fs]; [auto|]. destruct fs' as [|f' fs']; [auto|]. cbn in H. discriminate.
  - intros [-> | ->]; [reflexivity|]. induction fs; cbn; auto.
Qed.

Theorem facets_dist2_sym : forall fs fs',
  match facets_dist2 fs fs', facets_dist2 fs' fs with
  | Some r, Some r' => req (fst r) (fst r')
  | None, None => True
  | _, _ => False
  end.
Proof.
  intros fs fs'. destruct (facets_dist2 fs fs') as [r|] eqn:E1; destruct (facets_dist2 fs' fs) as [r'|] eqn:E2.
  - destruct (facets_dist2_spec _ _ _ E1) as [[f [f' [Hf [Hf' [O1 [O2 A]]]]]] [L [N D]]].
    destruct (facets_dist2_spec _ _ _ E2) as [[g [g' [Hg [Hg' [P1 [P2 B]]]]]] [L' [N' D']]].
    apply rle_antisym.
    + pose proof (L _ _ _ _ Hg' Hg P2 P1) as X. rewrite hd2_sym in X.
      apply (rle_req_r _ _ _ D (hd2_den _ _ (hon_w _ _ _ P1) (hon_w _ _ _ P2)) D' X B).
    + pose proof (L' _ _ _ _ Hf' Hf O2 O1) as X. rewrite hd2_sym in X.
      apply (rle_req_r _ _ _ D' (hd2_den _ _ (hon_w _ _ _ O1) (hon_w _ _ _ O2)) D X A).
  - apply facets_dist2_none in E2. assert (facets_dist2 fs fs' = None) by (apply facets_dist2_none; tauto). congruence.
  - apply facets_dist2_none in E1. assert (facets_dist2 fs' fs = None) by (apply facets_dist2_none; tauto). congruence.
  - exact I.
Qed.

(* ------------------------------------------------------------------ distance of the point sets *)
Theorem dist2_sym : forall g h,
  match dist2 g h, dist2 h g with
  | Some r, Some r' => req (fst r) (fst r')
  | None, None => True
  | _, _ => False
  end.
Proof.
  intros g h. unfold dist2, dist2_of, facet_dist2.
  pose proof (facets_dist2_sym (facets_of g) (facets_of h)) as S.
  destruct (facets_dist2 (facets_of g) (facets_of h)) as [r|]; destruct (facets_dist2 (facets_of h) (facets_of g)) as [r'|].
  - destruct (vertex_inside g h) as [p|]; destruct (vertex_inside h g) as [q|]; cbn [fst].
    + unfold req; reflexivity.
    + unfold req; reflexivity.
    + unfold req; reflexivity.
    + exact S.
  - destruct S.
  - destruct S.
  - exact I.
Qed.

(* zero exactly when a vertex of one lies in (or on) a polygon of the other, or two facets have a common point *)
Theorem dist2_zero_iff : forall g h r, dist2 g h = Some r ->
  (rn (fst r) = 0 <->
   vertex_inside g h <> None \/ vertex_inside h g <> None \/
   exists f f' x, In f (facets_of g) /\ In f' (facets_of h) /\ on_facet x f /\ on_facet x f').
Proof.
  intros g h r H. unfold dist2, dist2_of, facet_dist2 in H.
  destruct (facets_dist2 (facets_of g) (facets_of h)) as [r0|] eqn:E; [|discriminate].
  destruct (facets_dist2_spec _ _ _ E) as [[f [f' [Hf [Hf' [O1 [O2 A]]]]]] [L [N D]]].
  assert (FZ : rn (fst r0) = 0 <-> exists f f' x, In f (facets_of g) /\ In f' (facets_of h) /\ on_facet x f /\ on_facet x f').
  { split.
    - intro Z. exists f, f', (snd (snd r0)). split; [exact Hf|]. split; [exact Hf'|]. split; [|exact O2].
      unfold req in A. rewrite Z in A.
      assert (Z' : rn (hd2 (fst (snd r0)) (snd (snd r0))) = 0) by nia.
      apply (hon_heq _ _ _ _ (hd2_zero _ _ Z') (hon_w _ _ _ O1) (hon_w _ _ _ O2) O1).
    - intros [k [k' [x [Hk [Hk' [Ox Ox']]]]]]. pose proof (L _ _ _ _ Hk Hk' Ox Ox') as X. apply rle_iff in X. rewrite hd2_self in X.
      pose proof (hd2_den x x (hon_w _ _ _ Ox) (hon_w _ _ _ Ox)). nia. }
  destruct (vertex_inside g h) as [p|].
  - inversion H; subst; cbn [fst rn]. split; [intros _; left; discriminate | reflexivity].
  - destruct (vertex_inside h g) as [q|].
    + inversion H; subst; cbn [fst rn]. split; [intros _; right; left; discriminate | reflexivity].
    + inversion H; subst. rewrite FZ. split; [auto|]. intros [X | [X | X]]; [congruence | congruence | exact X].
Qed.

Lemma facet_and_dist2_eq : forall g h, facet_and_dist2 g h = (facet_dist2 g h, dist2 g h).
Proof. reflexivity. Qed.

(* ------------------------------------------------------------------ discrete Hausdorff distance *)
Lemma pt_facets_den : forall p fs y, In y (map (fun f => dist2_pt_seg p (fst f) (snd f)) fs) -> 0 < rd (fst y).
Proof. intros p fs y Hy. apply in_map_iff in Hy. destruct Hy as [f [<- _]]. apply pt_seg_ok. Qed.

(* distance of a point to a set of facets: attained on a facet, below the distance to every point of every facet *)
Theorem dist2_pt_facets_spec : forall p fs r, dist2_pt_facets p fs = Some r ->
  (exists f, In f fs /\ on_facet (snd r) f /\ req (pd2 p (snd r)) (fst r)) /\
  (forall f n m, In f fs -> 0 < m -> 0 <= n <= m -> rle (fst r) (pd2 p (hlerp (fst f) (snd f) n m)) = true).
Proof.
  intros p fs r H. unfold dist2_pt_facets in H.
  destruct (min_of_spec _ _ (pt_facets_den p fs) H) as [I M]. apply in_map_iff in I. destruct I as [f [E Hf]]. split.
  - exists f. split; [exact Hf|]. subst r. split; [apply pt_seg_on | apply pt_seg_att].
  - intros g n m Hg Hm Hn.
    pose proof (M (dist2_pt_seg p (fst g) (snd g)) (in_map _ _ _ Hg)) as M1.
    apply (rle_trans _ (fst (dist2_pt_seg p (fst g) (snd g)))); [subst r; apply pt_seg_ok | apply pt_seg_ok | | exact M1 | apply pt_seg_min; assumption].
    rewrite pd2_lerp; cbn [rd]. apply sq_pos; lia.
Qed.

Definition h_cands (n : Z) (g h : geom) : list (rat * (pt * hpt)) :=
  flat_map (fun p => match dist2_pt_facets p (facets_of (map_geom (scale_pt n) h)) with Some r => [(fst r, (p, snd r))] | None => [] end)
           (sample_pts n g).
Lemma h_cands_in : forall n g h y, In y (h_cands n g h) <->
  exists p r, In p (sample_pts n g) /\ dist2_pt_facets p (facets_of (map_geom (scale_pt n) h)) = Some r /\ y = (fst r, (p, snd r)).
Proof.
  intros n g h y. unfold h_cands. rewrite in_flat_map. split.
  - intros [p [Hp Hy]]. destruct (dist2_pt_facets p _) as [r|] eqn:E; [|destruct Hy]. destruct Hy as [<- | []]. exists p, r. auto.
  - intros [p [r [Hp [E ->]]]]. exists p. split; [exact Hp|]. rewrite E. left; reflexivity.
Qed.

(* the directed distance is the maximum over the sample points of g of their distance to h: it is the distance of one sample
   point, and no sample point is farther *)
Theorem directed_h2_spec : forall n g h r, directed_h2 n g h = Some r ->
  let fs := facets_of (map_geom (scale_pt n) h) in
  (In (fst (snd r)) (sample_pts n g) /\ exists r0, dist2_pt_facets (fst (snd r)) fs = Some r0 /\ fst r0 = fst r) /\
  (forall p r', In p (sample_pts n g) -> dist2_pt_facets p fs = Some r' -> rle (fst r') (fst r) = true).
Proof.
  intros n g h r H fs. unfold directed_h2 in H. fold (h_cands n g h) in H.
  assert (Hd : forall y, In y (h_cands n g h) -> 0 < rd (fst y)).
  { intros y Hy. apply h_cands_in in Hy. destruct Hy as [p [r0 [_ [E ->]]]]. cbn [fst].
    unfold dist2_pt_facets in E. destruct (min_of_spec _ _ (pt_facets_den p _) E) as [I _]. apply (pt_facets_den p _ _ I). }
  destruct (max_of_spec _ _ Hd H) as [I M]. apply h_cands_in in I. destruct I as [p [r0 [Hp [E ->]]]]. cbn [fst snd]. split.
  - split; [exact Hp|]. exists r0. auto.
  - intros q r' Hq E'. apply (M (fst r', (q, snd r'))). apply h_cands_in. exists q, r'. auto.
Qed.

Lemma rmax_comm : forall r s, req (rmax r s) (rmax s r).
Proof.
  intros r s. unfold rmax. destruct (rle r s) eqn:E1; destruct (rle s r) eqn:E2; try (unfold req; reflexivity).
  - apply req_sym. apply rle_antisym; assumption.
  - apply rle_total in E1. congruence.
Qed.
Theorem hausdorff2_sym : forall n g h,
  match hausdorff2 n g h, hausdorff2 n h g with
  | Some r, Some r' => req r r'
  | None, None => True
  | _, _ => False
  end.
Proof.
  intros n g h. unfold hausdorff2. destruct (directed_h2 n g h) as [r|]; destruct (directed_h2 n h g) as [s|]; try exact I. apply rmax_comm.
Qed.
(* ... and it is the larger of the two directed distances *)
Theorem hausdorff2_max : forall n g h r, hausdorff2 n g h = Some r ->
  exists a b, directed_h2 n g h = Some a /\ directed_h2 n h g = Some b /\
    rle (fst a) r = true /\ rle (fst b) r = true /\ (r = fst a \/ r = fst b).
Proof.
  intros n g h r H. unfold hausdorff2 in H. destruct (directed_h2 n g h) as [a|]; [|discriminate]. destruct (directed_h2 n h g) as [b|]; [|discriminate].
  exists a, b. inversion H; subst. split; [reflexivity|]. split; [reflexivity|]. unfold rmax.
  destruct (rle (fst a) (fst b)) eqn:E; [|apply rle_total in E]; repeat split; auto using rle_refl.
Qed.

(* ------------------------------------------------------------------ the distance is attained by a point of each point set *)
(* induction over the geometry tree with the hypothesis for every element of a collection *)
Section GeomInd.
  Variable P : geom -> Prop.
  Hypothesis HPt : forall p, P (GPoint p).
  Hypothesis HLn : forall l, P (GLine l).
  Hypothesis HRg : forall l, P (GRing l).
  Hypothesis HPo : forall s hs, P (GPoly s hs).
  Hypothesis HMp : forall ps, P (GMPoint ps).
  Hypothesis HMl : forall ls, P (GMLine ls).
  Hypothesis HMa : forall ps, P (GMPoly ps).
  Hypothesis HCo : forall gs, Forall P gs -> P (GColl gs).
  Fixpoint geom_ind' (g : geom) : P g :=
    match g with
    | GPoint p => HPt p | GLine l => HLn l | GRing l => HRg l | GPoly s hs => HPo s hs
    | GMPoint ps => HMp ps | GMLine ls => HMl ls | GMPoly ps => HMa ps
    | GColl gs => HCo gs ((fix all (l : list geom) : Forall P l :=
                             match l with [] => Forall_nil P | x :: r => Forall_cons x (geom_ind' x) (all r) end) gs)
    end.
End GeomInd.

(* every coordinate of a geometry is a point, or belongs to a line, or to a ring of a polygon *)
Lemma coords_split : forall g p, In p (coords_of g) ->
  In p (points_of g) \/ (exists l, In l (lines_of g) /\ In p l) \/ (exists a r, In a (polys_of g) /\ In r (poly_rings a) /\ In p r).
Proof.
  intros g. induction g as [p0|l|l|s hs|ps|ls|ps|gs IHg] using geom_ind'; intros q Hq0; cbn [coords_of points_of lines_of polys_of] in *.
  - left; exact Hq0.
  - right; left. exists l. cbn; auto.
  - right; left. exists l. cbn; auto.
  - right; right. exists (s, hs). apply in_app_or in Hq0. destruct Hq0 as [H | H].
    + exists s. cbn; auto.
    + apply in_concat in H. destruct H as [r [Hr Hq]]. exists r. cbn; auto.
  - left; exact Hq0.
  - right; left. apply in_concat in Hq0. destruct Hq0 as [l [Hl Hq]]. exists l; auto.
  - right; right. apply in_flat_map in Hq0. destruct Hq0 as [a [Ha Hq]]. exists a. apply in_app_or in Hq. destruct Hq as [Hq | Hq].
    + exists (fst a). cbn; auto.
    + apply in_concat in Hq. destruct Hq as [r [Hr Hq]]. exists r. cbn; auto.
  - apply in_flat_map in Hq0. destruct Hq0 as [x [Hx Hq]]. rewrite Forall_forall in IHg.
    destruct (IHg x Hx q Hq) as [A | [[l [Hl A]] | [a [r [Ha [Hr A]]]]]].
    + left. apply in_flat_map. exists x; auto.
    + right; left. exists l. split; [apply in_flat_map; exists x; auto | exact A].
    + right; right. exists a, r. split; [apply in_flat_map; exists x; auto | auto].
Qed.

(* a point of a sequence is an end of one of its facets *)
Lemma seq_facets_cover : forall l p, In p l -> exists f, In f (seq_facets l) /\ (p = fst f \/ p = snd f).
Proof.
  intros l. induction l as [|a l IH]; intros p H; [destruct H|].
  destruct l as [|b l].
  - destruct H as [<- | []]. exists (a, a). cbn; auto.
  - destruct H as [<- | H].
    + exists (a, b). cbn; auto.
    + destruct (IH p H) as [f [Hf E]]. destruct l as [|c l].
      * cbn in Hf. destruct Hf as [<- | []]. exists (a, b). cbn in *. destruct E as [-> | ->]; auto.
      * exists f. split; [|exact E]. cbn [seq_facets segs] in *. right; exact Hf.
Qed.

Lemma coords_in_facets : forall g p, In p (coords_of g) -> exists f, In f (facets_of g) /\ on_facet (hp p) f.
Proof.
  intros g p H. unfold facets_of.
  assert (E : forall f, p = fst f \/ p = snd f -> on_facet (hp p) f).
  { intros [a b] [-> | ->]; unfold on_facet; cbn [fst snd]; [apply hon_left | apply hon_right]. }
  destruct (coords_split g p H) as [A | [[l [Hl A]] | [a [r [Ha [Hr A]]]]]].
  - exists (p, p). split; [apply in_or_app; left; apply in_map_iff; exists p; auto | apply E; cbn; auto].
  - destruct (seq_facets_cover l p A) as [f [Hf Ef]]. exists f. split; [|apply E; exact Ef].
    apply in_or_app; right; apply in_or_app; left. apply in_flat_map. exists l; auto.
  - destruct (seq_facets_cover r p A) as [f [Hf Ef]]. exists f. split; [|apply E; exact Ef].
    apply in_or_app; right; apply in_or_app; right. apply in_flat_map. exists a. split; [exact Ha|].
    unfold poly_facets. apply in_flat_map. exists r; auto.
Qed.

(* x belongs to the point set of g: it is on a facet (a point, a segment of a line or of a ring), or it is a grid point that
   the even-odd rule does not put in the exterior of one of the polygons *)
Definition in_set (g : geom) (x : hpt) : Prop :=
  (exists f, In f (facets_of g) /\ on_facet x f) \/
  (exists p a, x = hp p /\ In a (polys_of g) /\ is_exterior (loc_poly p a) = false).

(* dist2 is the squared distance of the two returned points, one in each point set *)
Theorem dist2_attained : forall g h r, dist2 g h = Some r ->
  rat_ok (fst r) /\ in_set g (fst (snd r)) /\ in_set h (snd (snd r)) /\ req (hd2 (fst (snd r)) (snd (snd r))) (fst r).
Proof.
  intros g h r H. unfold dist2, dist2_of, facet_dist2 in H.
  destruct (facets_dist2 (facets_of g) (facets_of h)) as [r0|] eqn:E; [|discriminate].
  assert (V : forall g h p, vertex_inside g h = Some p -> in_set g (hp p) /\ in_set h (hp p)).
  { intros g0 h0 p Hp. unfold vertex_inside in Hp. apply find_some in Hp. destruct Hp as [Hc Hi]. split.
    - left. apply coords_in_facets; exact Hc.
    - right. unfold in_some_poly in Hi. apply existsb_exists in Hi. destruct Hi as [a [Ha Hn]].
      exists p, a. split; [reflexivity|]. split; [exact Ha|]. apply negb_true_iff in Hn. exact Hn. }
  destruct (vertex_inside g h) as [p|] eqn:V1.
  - inversion H; subst; cbn [fst snd]. destruct (V g h p V1) as [A B].
    split; [split; cbn; lia|]. split; [exact A|]. split; [exact B|]. unfold req. rewrite hd2_self. cbn; ring.
  - destruct (vertex_inside h g) as [q|] eqn:V2.
    + inversion H; subst; cbn [fst snd]. destruct (V h g q V2) as [A B].
      split; [split; cbn; lia|]. split; [exact B|]. split; [exact A|]. unfold req. rewrite hd2_self. cbn; ring.
    + inversion H; subst.
      destruct (facets_dist2_spec _ _ _ E) as [[f [f' [Hf [Hf' [O1 [O2 A]]]]]] [_ OK]].
      split; [exact OK|]. split; [left; exists f; auto|]. split; [left; exists f'; auto | exact A].
Qed.
