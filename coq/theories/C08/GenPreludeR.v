(* C08/GenPreludeR — meaning of the translator's abstract names when every `double` is read as a REAL NUMBER (Coq reals).
   Used by the generated units C08_equals2D, C08_coordEq, C08_coordDist, C08_envSeg, C08_ptSeg, C08_ptLinePerp, C08_segSeg
   (geos::algorithm::Distance and the inline helpers of Coordinate.h / Envelope.h it calls).  Definitions only.

   Modelled, not verified (bounded by the sampled correspondence of props/C08.py, exact rational comparison, 1e-12 relative):
     * binary64 rounding of + - * / and of std::sqrt is ignored: the operations are the exact ones on R, the comparisons
       < <= > >= == != are the order and equality of R (decided classically: Rlt_dec, Req_EM_T);
     * std::fabs = Rabs, std::sqrt = sqrt (R_sqrt), std::min(a,b) = (b < a) ? b : a, std::max(a,b) = (a < b) ? b : a
       (the libstdc++ definitions); NaN / infinities do not exist in this reading;
     * CoordinateXY is the pair of its ordinates x, y (Z / M of derived classes are not read by these functions). *)
From Coq Require Import Reals ZArith List.
Import ListNotations.
Local Open Scope R_scope.

Definition add := Rplus.
Definition sub := Rminus.
Definition mul := Rmult.
Definition div := Rdiv.
Definition neg := Ropp.
Definition ofZ := IZR.
Definition flit (bits num den : Z) : R := IZR num / IZR den.
Definition dflt : R := 0.
Definition dzero : R := 0.
Definition ltb (x y : R) : bool := if Rlt_dec x y then true else false.
Definition leb (x y : R) : bool := if Rle_dec x y then true else false.
Definition gtb (x y : R) : bool := if Rlt_dec y x then true else false.
Definition geb (x y : R) : bool := if Rle_dec y x then true else false.
Definition eqb (x y : R) : bool := if Req_EM_T x y then true else false.
Definition neb (x y : R) : bool := if Req_EM_T x y then false else true.
Definition c_fabs_1 := Rabs.
Definition c_sqrt_1 := sqrt.
Definition c_min_2 (a b : R) : R := if Rlt_dec b a then b else a.
Definition c_max_2 (a b : R) : R := if Rlt_dec a b then b else a.

(* CoordinateXY *)
Record rpt := mk_rpt { f_x : R; f_y : R }.
