(* C08/GenDist — the translated leaf distance functions of geos::algorithm::Distance (Gen/C08_*.v, regenerated from /repo on every
   run; `double` read as a real number, C08/GenPreludeR) compute THE distance of RealDistDefs, for all inputs.
   The proofs follow the branch structure of the generated text by case analysis on its comparisons (not by syntactic
   equality with a hand-written copy), so a refactoring that keeps the meaning keeps the proofs, and a change of a comparison,
   an operand or a dropped call breaks them. *)
From Coq Require Import Reals Lra Bool.
From GeosV.C08 Require Import GenPreludeR RealDistDefs RealPtSeg RealSegSeg.
From GeosV.Gen Require Import C08_equals2D C08_coordEq C08_coordDist C08_envSeg C08_ptSeg C08_ptLinePerp C08_segSeg.
Local Open Scope R_scope.
Set Default Timeout 120.

Ltac unop := cbv [add sub mul div neg ofZ flit dflt dzero c_fabs_1 c_sqrt_1] in *.
Ltac uncmp := cbv [ltb leb gtb geb eqb neb] in *.
Ltac case_if :=
  match goal with
  | |- context [Req_EM_T ?x ?y] => destruct (Req_EM_T x y)
  | |- context [Rlt_dec ?x ?y] => destruct (Rlt_dec x y)
  | |- context [Rle_dec ?x ?y] => destruct (Rle_dec x y)
  end; cbv beta iota.

(* ---------------------------------------------------------------- inline helpers *)
(* operator== / equals2D: exact equality of both ordinates *)
Lemma g_coordEq_true : forall a b, c_opeq_2 a b = true -> a = b.
Proof.
  intros [ax ay] [bx by_]. unfold c_opeq_2, m_equals2D_1. uncmp. cbn [f_x f_y].
  repeat case_if; intro H; try discriminate H; subst; reflexivity.
Qed.
Lemma g_coordEq_false : forall a b, c_opeq_2 a b = false -> 0 < len2 a b.
Proof.
  intros [ax ay] [bx by_]. unfold c_opeq_2, m_equals2D_1, len2, d2R. uncmp. cbn [f_x f_y].
  assert (Hx := Rle_0_sqr (bx - ax)). assert (Hy := Rle_0_sqr (by_ - ay)). unfold Rsqr in *.
  repeat case_if; intro H; try discriminate H.
  - assert (by_ - ay <> 0) by lra. assert (0 < (by_ - ay) * (by_ - ay)) by (apply Rsqr_pos_lt; assumption). lra.
  - assert (bx - ax <> 0) by lra. assert (0 < (bx - ax) * (bx - ax)) by (apply Rsqr_pos_lt; assumption). lra.
Qed.
(* CoordinateXY::distance is the Euclidean distance *)
Lemma g_coordDist : forall p q, m_distance_1 p q = distR p q.
Proof. intros. unfold m_distance_1. unop. cbv zeta. reflexivity. Qed.
Lemma c_min_Rmin : forall a b, c_min_2 a b = Rmin a b.
Proof. intros. unfold c_min_2, Rmin. destruct (Rlt_dec b a); destruct (Rle_dec a b); lra. Qed.
Lemma c_max_Rmax : forall a b, c_max_2 a b = Rmax a b.
Proof. intros. unfold c_max_2, Rmax. destruct (Rlt_dec a b); destruct (Rle_dec a b); lra. Qed.
(* Envelope::intersects(p1,p2,q1,q2) = false: the bounding boxes are apart *)
Lemma g_envSeg_false : forall a b c d, c_intersects_4 a b c d = false -> boxes_apart a b c d.
Proof.
  intros a b c d. unfold c_intersects_4, boxes_apart. cbv zeta. rewrite !c_min_Rmin, !c_max_Rmax. uncmp.
  repeat case_if; intro H; try discriminate H; auto.
Qed.

(* ---------------------------------------------------------------- Distance::pointToSegment *)
Theorem g_pointToSegment_is_dist : forall p a b, is_pt_seg_dist (g_pointToSegment p a b) p a b.
Proof.
  intros p a b. unfold g_pointToSegment.
  destruct (c_opeq_2 a b) eqn:Eab.
  - apply g_coordEq_true in Eab. subst b. rewrite g_coordDist. apply pt_seg_deg.
  - apply g_coordEq_false in Eab. rewrite !g_coordDist. unop. cbv zeta.
    change ((f_x p - f_x a) * (f_x b - f_x a) + (f_y p - f_y a) * (f_y b - f_y a)) with (dotR a b p).
    change ((f_x b - f_x a) * (f_x b - f_x a) + (f_y b - f_y a) * (f_y b - f_y a)) with (len2 a b).
    uncmp. repeat case_if.
    + apply pt_seg_end_a; [exact Eab | lra].
    + apply pt_seg_end_b; [exact Eab | lra].
    + apply pt_seg_foot; [exact Eab | lra].
Qed.

(* ---------------------------------------------------------------- Distance::pointToLinePerpendicular *)
Theorem g_pointToLinePerpendicular_is_dist : forall p a b, 0 < len2 a b -> is_pt_line_dist (g_pointToLinePerpendicular p a b) p a b.
Proof. intros p a b H. unfold g_pointToLinePerpendicular. unop. cbv zeta. apply pt_line_foot; exact H. Qed.

(* ---------------------------------------------------------------- Distance::segmentToSegment *)
Lemma min4_gen : forall a b c d, 0 < len2 a b -> ~ crossing a b c d ->
  is_seg_seg_dist (c_min_2 (g_pointToSegment a c d) (c_min_2 (g_pointToSegment b c d) (c_min_2 (g_pointToSegment c a b) (g_pointToSegment d a b)))) a b c d.
Proof.
  intros. rewrite !c_min_Rmin. apply min4_is_dist; try assumption; apply g_pointToSegment_is_dist.
Qed.

Theorem g_segmentToSegment_is_dist : forall a b c d, is_seg_seg_dist (g_segmentToSegment a b c d) a b c d.
Proof.
  intros a b c d. unfold g_segmentToSegment.
  destruct (c_opeq_2 a b) eqn:Eab.
  { apply g_coordEq_true in Eab. subst b. apply seg_seg_deg_l, g_pointToSegment_is_dist. }
  destruct (c_opeq_2 c d) eqn:Ecd.
  { apply g_coordEq_true in Ecd. subst d. apply seg_seg_deg_r, g_pointToSegment_is_dist. }
  apply g_coordEq_false in Eab. cbv beta iota zeta.
  destruct (c_intersects_4 a b c d) eqn:Eenv; cbv [negb]; cbv beta iota.
  2:{ apply min4_gen; [exact Eab | apply boxes_apart_nocross, g_envSeg_false, Eenv]. }
  unop.
  change ((f_x b - f_x a) * (f_y d - f_y c) - (f_y b - f_y a) * (f_x d - f_x c)) with (denomR a b c d).
  change ((f_y a - f_y c) * (f_x d - f_x c) - (f_x a - f_x c) * (f_y d - f_y c)) with (rnumR a b c d).
  change ((f_y a - f_y c) * (f_x b - f_x a) - (f_x a - f_x c) * (f_y b - f_y a)) with (snumR a b c d).
  uncmp. cbv [orb].
  repeat case_if; cbv beta iota;
    try (apply min4_gen; [exact Eab | intros [Hd [Hr Hs]]; lra]).
  replace (0 / 1) with 0 by field. apply crossing_dist0. split; [assumption | split; lra].
Qed.

(* the branch structure, stated on the generated function: 0 exactly on the code's own crossing test, else the least of the four *)
Theorem g_segmentToSegment_branches : forall a b c d, a <> b -> c <> d ->
  (c_intersects_4 a b c d = true /\ crossing a b c d -> g_segmentToSegment a b c d = 0) /\
  (~ (c_intersects_4 a b c d = true /\ crossing a b c d) ->
     g_segmentToSegment a b c d = Rmin (g_pointToSegment a c d) (Rmin (g_pointToSegment b c d) (Rmin (g_pointToSegment c a b) (g_pointToSegment d a b)))).
Proof.
  intros a b c d Nab Ncd. unfold g_segmentToSegment.
  destruct (c_opeq_2 a b) eqn:Eab; [apply g_coordEq_true in Eab; contradiction|].
  destruct (c_opeq_2 c d) eqn:Ecd; [apply g_coordEq_true in Ecd; contradiction|].
  cbv beta iota zeta. rewrite !c_min_Rmin.
  destruct (c_intersects_4 a b c d) eqn:Eenv; cbv [negb]; cbv beta iota.
  2:{ split; [intros [H _]; discriminate H | reflexivity]. }
  unop.
  change ((f_x b - f_x a) * (f_y d - f_y c) - (f_y b - f_y a) * (f_x d - f_x c)) with (denomR a b c d).
  change ((f_y a - f_y c) * (f_x d - f_x c) - (f_x a - f_x c) * (f_y d - f_y c)) with (rnumR a b c d).
  change ((f_y a - f_y c) * (f_x b - f_x a) - (f_x a - f_x c) * (f_y b - f_y a)) with (snumR a b c d).
  uncmp. cbv [orb].
  repeat case_if; cbv beta iota;
    try (split; [intros [_ [Hd [Hr Hs]]]; exfalso; lra | reflexivity]).
  split; [intros _; field | intros H; exfalso; apply H; split; [reflexivity | split; [assumption | split; lra]]].
Qed.

(* ---------------------------------------------------------------- consequences, stated on the generated functions *)
Theorem g_pointToSegment_sq : forall p a b,
  exists x, on_seg x a b /\ g_pointToSegment p a b * g_pointToSegment p a b = d2R p x /\ forall y, on_seg y a b -> d2R p x <= d2R p y.
Proof. intros p a b. exact (pt_seg_dist_sq _ p a b (g_pointToSegment_is_dist p a b)). Qed.

Lemma distR_zero : forall x y, distR x y = 0 -> x = y.
Proof.
  intros [x1 x2] [y1 y2] H. unfold distR in H. apply sqrt_eq_0 in H; [| apply d2R_nonneg].
  unfold d2R in H; cbn [f_x f_y] in H.
  assert (A := Rle_0_sqr (x1 - y1)). assert (B := Rle_0_sqr (x2 - y2)). unfold Rsqr in *.
  assert (E1 : (x1 - y1) * (x1 - y1) = 0) by lra. assert (E2 : (x2 - y2) * (x2 - y2) = 0) by lra.
  apply Rmult_integral in E1. apply Rmult_integral in E2. f_equal; destruct E1, E2; lra.
Qed.
Theorem g_segmentToSegment_zero_iff : forall a b c d,
  g_segmentToSegment a b c d = 0 <-> exists x, on_seg x a b /\ on_seg x c d.
Proof.
  intros a b c d. destruct (g_segmentToSegment_is_dist a b c d) as [H0 [[x [y [Hx [Hy E]]]] L]]. split.
  - intros Z. rewrite Z in E. symmetry in E. apply distR_zero in E. subst y. exists x; split; assumption.
  - intros [z [H1 H2]]. specialize (L z z H1 H2). rewrite distR_self in L. lra.
Qed.
Theorem g_segmentToSegment_sym : forall a b c d, g_segmentToSegment a b c d = g_segmentToSegment c d a b.
Proof.
  intros a b c d. apply (seg_seg_dist_unique _ _ a b c d (g_segmentToSegment_is_dist a b c d)).
  destruct (g_segmentToSegment_is_dist c d a b) as [H0 [[x [y [Hx [Hy E]]]] L]].
  split; [exact H0|]. split.
  - exists y, x. split; [exact Hy|]. split; [exact Hx|]. rewrite distR_sym; exact E.
  - intros x' y' Hx' Hy'. rewrite distR_sym. apply L; assumption.
Qed.

(* ---------------------------------------------------------------- concrete instances (non-vacuity) *)
Lemma ex_proper_segments : mk_rpt 0 0 <> mk_rpt 2 0 /\ mk_rpt 1 (-1) <> mk_rpt 1 1 /\ 0 < len2 (mk_rpt 0 0) (mk_rpt 2 0).
Proof.
  split; [intro H; apply (f_equal f_x) in H; cbn in H; lra|].
  split; [intro H; apply (f_equal f_y) in H; cbn in H; lra|].
  unfold len2, d2R; cbn [f_x f_y]; lra.
Qed.
Lemma ex_crossing : crossing (mk_rpt 0 0) (mk_rpt 2 0) (mk_rpt 1 (-1)) (mk_rpt 1 1)
                    /\ ~ crossing (mk_rpt 0 0) (mk_rpt 2 0) (mk_rpt 0 1) (mk_rpt 2 1).
Proof.
  unfold crossing, denomR, rnumR, snumR; cbn [f_x f_y].
  split; [split; [lra | split; lra] | intros [H _]; apply H; lra].
Qed.
Lemma ex_pt_seg_value : g_pointToSegment (mk_rpt 1 3) (mk_rpt 0 0) (mk_rpt 2 0) = 3.
Proof.
  set (p := mk_rpt 1 3). set (a := mk_rpt 0 0). set (b := mk_rpt 2 0).
  apply (pt_seg_dist_unique _ _ _ _ _ (g_pointToSegment_is_dist p a b)).
  assert (HL : len2 a b = 2 * 2) by (unfold len2, d2R, a, b; cbn [f_x f_y]; lra).
  assert (Hd : dotR a b p = 2) by (unfold dotR, a, b, p; cbn [f_x f_y]; lra).
  assert (Hc : crossR a b p = -6) by (unfold crossR, a, b, p; cbn [f_x f_y]; lra).
  assert (P := pt_seg_foot p a b ltac:(lra) ltac:(rewrite HL, Hd; lra)).
  rewrite HL, Hc, sqrt_square in P by lra.
  replace (-6 / (2 * 2)) with (- (3 / 2)) in P by lra. rewrite Rabs_Ropp, Rabs_pos_eq in P by lra.
  replace (3 / 2 * 2) with 3 in P by lra. exact P.
Qed.
(* crossing segments are at distance 0; the parallel ones (0,0)-(2,0), (0,1)-(2,1) are not *)
Lemma ex_seg_seg_values : g_segmentToSegment (mk_rpt 0 0) (mk_rpt 2 0) (mk_rpt 1 (-1)) (mk_rpt 1 1) = 0
                          /\ g_segmentToSegment (mk_rpt 0 0) (mk_rpt 2 0) (mk_rpt 0 1) (mk_rpt 2 1) <> 0.
Proof.
  split.
  - apply g_segmentToSegment_zero_iff. apply crossing_meets. apply ex_crossing.
  - intro H. apply g_segmentToSegment_zero_iff in H. destruct H as [x [[t [Ht E1]] [u [Hu E2]]]].
    assert (E : f_y (lerp (mk_rpt 0 0) (mk_rpt 2 0) t) = f_y (lerp (mk_rpt 0 1) (mk_rpt 2 1) u)) by (rewrite <- E1, <- E2; reflexivity).
    cbn [lerp f_x f_y] in E. lra.
Qed.
