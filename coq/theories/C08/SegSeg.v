(* C08/SegSeg — the segment/segment squared distance of DistDefs: attained by a point of each segment, a lower bound for
   every pair of points of the two segments (so it is the minimum), symmetric, and zero exactly when the segments meet. *)
From Coq Require Import ZArith List Bool Lia Psatz.
From GeosV.Lib Require Import GeomDefs LocateDefs.
From GeosV.C08 Require Import DistDefs PtSeg.
Import ListNotations.
Local Open Scope Z_scope.
Set Default Timeout 60.

(* ------------------------------------------------------------------ arithmetic core: the closest approach of a segment cd
   to the strip over ab, in the frame of ab.  t = (x-a).(b-a) and d = (b-a)x(x-a) are affine in x; for the point
   q = c + (m/v)(d-c):  v t(q) = T, v d(q) = D.  If q projects inside ab (0 < T < v L2) and c, d are not on strictly opposite
   sides of the line ab, then |D| >= v |d(x)| for x the nearer of c, d, and either x projects inside ab, or the segment cd
   passes over an end of ab at a point q' with |d(q')| <= |d(q)|. *)
Lemma sq_le : forall x y, 0 <= x <= y -> x * x <= y * y.
Proof. intros; nia. Qed.

(* |dc| <= |dd| on the non-negative side *)
Lemma core_A_pos : forall L2 tc dc td dd m v T D, 0 < L2 -> 0 < v -> 0 <= m <= v -> 0 <= dc <= dd ->
  T = (v - m) * tc + m * td -> D = (v - m) * dc + m * dd ->
  0 < T < v * L2 ->
  (0 <= tc <= L2 /\ v * v * (dc * dc) <= D * D) \/
  (exists m' v', 0 < v' /\ 0 <= m' <= v' /\ (v' - m') * tc + m' * td = 0 /\
                 sq ((v' - m') * dc + m' * dd) * (v * v) <= D * D * (v' * v')) \/
  (exists m' v', 0 < v' /\ 0 <= m' <= v' /\ (v' - m') * tc + m' * td = v' * L2 /\
                 sq ((v' - m') * dc + m' * dd) * (v * v) <= D * D * (v' * v')).
Proof.
  intros L2 tc dc td dd m v T D HL Hv Hm Hd ET ED HT.
  assert (HD : v * dc <= D).
  { assert (0 <= m * (dd - dc)) by nia. rewrite ED. lia. }
  assert (Hvdc : 0 <= v * dc) by nia.
  assert (HD0 : 0 <= D) by lia.
  assert (HDD : v * v * (dc * dc) <= D * D).
  { replace (v * v * (dc * dc)) with ((v * dc) * (v * dc)) by ring. apply sq_le; lia. }
  destruct (Z_lt_le_dec tc 0) as [Hc | Hc].
  - right; left. exists (m * (- tc)), (T - v * tc).
    assert (Hvt : v * tc < 0) by nia.
    assert (Hvmt : (v - m) * tc <= 0) by nia.
    assert (Hmt : 0 < m * td) by lia.
    assert (Hmtc : 0 <= m * - tc) by nia.
    split; [lia|]. split; [split; [lia|] |].
    { rewrite ET. lia. }
    split; [rewrite ET; ring|].
    replace ((T - v * tc - m * - tc) * dc + m * - tc * dd) with (T * dc - tc * D) by (rewrite ET, ED; ring).
    assert (H1 : 0 <= T * dc) by nia. assert (H2 : 0 <= - tc * D) by nia.
    assert (H3 : 0 <= T * dc - tc * D) by lia.
    assert (H4 : v * (T * dc - tc * D) <= D * (T - v * tc)).
    { replace (v * (T * dc - tc * D)) with (T * (v * dc) - v * tc * D) by ring.
      assert (T * (v * dc) <= T * D) by (apply Z.mul_le_mono_nonneg_l; lia). lia. }
    assert (H5 : 0 <= D * (T - v * tc)) by nia.
    unfold sq.
    replace ((T * dc - tc * D) * (T * dc - tc * D) * (v * v)) with ((v * (T * dc - tc * D)) * (v * (T * dc - tc * D))) by ring.
    replace (D * D * ((T - v * tc) * (T - v * tc))) with ((D * (T - v * tc)) * (D * (T - v * tc))) by ring.
    apply sq_le. split; [nia | exact H4].
  - destruct (Z_le_gt_dec tc L2) as [Hc2 | Hc2].
    + left. split; [lia | exact HDD].
    + right; right. exists (m * (tc - L2)), (v * tc - T).
      assert (Hvt : v * L2 < v * tc) by nia.
      assert (Hvmt : (v - m) * L2 <= (v - m) * tc) by nia.
      assert (Hmt : m * td < m * L2) by lia.
      assert (Hmtc : 0 <= m * (tc - L2)) by nia.
      split; [lia|]. split; [split; [lia|] |].
      { rewrite ET. lia. }
      split; [rewrite ET; ring|].
      replace ((v * tc - T - m * (tc - L2)) * dc + m * (tc - L2) * dd) with ((tc - L2) * D - (T - v * L2) * dc) by (rewrite ET, ED; ring).
      assert (H1 : 0 <= (tc - L2) * D) by nia. assert (H2 : 0 <= - (T - v * L2) * dc) by nia.
      assert (H3 : 0 <= (tc - L2) * D - (T - v * L2) * dc) by lia.
      assert (H4 : v * ((tc - L2) * D - (T - v * L2) * dc) <= D * (v * tc - T)).
      { replace (v * ((tc - L2) * D - (T - v * L2) * dc)) with ((v * tc - v * L2) * D + (v * L2 - T) * (v * dc)) by ring.
        assert ((v * L2 - T) * (v * dc) <= (v * L2 - T) * D) by (apply Z.mul_le_mono_nonneg_l; lia). lia. }
      unfold sq.
      replace (((tc - L2) * D - (T - v * L2) * dc) * ((tc - L2) * D - (T - v * L2) * dc) * (v * v))
        with ((v * ((tc - L2) * D - (T - v * L2) * dc)) * (v * ((tc - L2) * D - (T - v * L2) * dc))) by ring.
      replace (D * D * ((v * tc - T) * (v * tc - T))) with ((D * (v * tc - T)) * (D * (v * tc - T))) by ring.
      apply sq_le. split; [nia | exact H4].
Qed.
Definition R1 L2 tc dc (v D : Z) := 0 <= tc <= L2 /\ v * v * (dc * dc) <= D * D.
Definition R3 (tgt : Z -> Z) tc dc td dd (v D : Z) := exists m' v', 0 < v' /\ 0 <= m' <= v' /\ (v' - m') * tc + m' * td = tgt v' /\
                 sq ((v' - m') * dc + m' * dd) * (v * v) <= D * D * (v' * v').

Lemma core : forall L2 tc dc td dd m v T D, 0 < L2 -> 0 < v -> 0 <= m <= v ->
  (0 <= dc /\ 0 <= dd) \/ (dc <= 0 /\ dd <= 0) ->
  T = (v - m) * tc + m * td -> D = (v - m) * dc + m * dd -> 0 < T < v * L2 ->
  R1 L2 tc dc v D \/ R1 L2 td dd v D \/ R3 (fun _ => 0) tc dc td dd v D \/ R3 (fun v' => v' * L2) tc dc td dd v D.
Proof.
  intros L2 tc dc td dd m v T D HL Hv Hm Hs ET ED HT.
  assert (Sw : forall m' v' x y, (v' - (v' - m')) * x + (v' - m') * y = (v' - m') * y + m' * x) by (intros; ring).
  destruct Hs as [[Hc Hd] | [Hc Hd]].
  - destruct (Z_le_gt_dec dc dd) as [O | O].
    + destruct (core_A_pos L2 tc dc td dd m v T D HL Hv Hm (conj Hc O) ET ED HT) as [H | [H | H]]; auto.
    + assert (ET' : T = (v - (v - m)) * td + (v - m) * tc) by (rewrite ET; ring).
      assert (ED' : D = (v - (v - m)) * dd + (v - m) * dc) by (rewrite ED; ring).
      destruct (core_A_pos L2 td dd tc dc (v - m) v T D HL Hv ltac:(lia) ltac:(lia) ET' ED' HT) as [H | [H | H]].
      * right; left; exact H.
      * right; right; left. destruct H as [m' [v' [H1 [H2 [H3 H4]]]]]. exists (v' - m'), v'.
        split; [lia|]. split; [lia|]. split.
        { rewrite <- H3. ring. }
        { replace ((v' - (v' - m')) * dc + (v' - m') * dd) with ((v' - m') * dd + m' * dc) by ring. exact H4. }
      * right; right; right. destruct H as [m' [v' [H1 [H2 [H3 H4]]]]]. exists (v' - m'), v'.
        split; [lia|]. split; [lia|]. split.
        { rewrite <- H3. ring. }
        { replace ((v' - (v' - m')) * dc + (v' - m') * dd) with ((v' - m') * dd + m' * dc) by ring. exact H4. }
  - assert (NN : forall x y : Z, (- x) * (- x) = x * x) by (intros; ring).
    assert (Nsq : forall m' v' x y, sq ((v' - m') * - x + m' * - y) = sq ((v' - m') * x + m' * y)) by (intros; unfold sq; ring).
    destruct (Z_le_gt_dec dd dc) as [O | O].
    + assert (ED' : - D = (v - m) * - dc + m * - dd) by (rewrite ED; ring).
      destruct (core_A_pos L2 tc (- dc) td (- dd) m v T (- D) HL Hv Hm ltac:(lia) ET ED' HT) as [H | [H | H]].
      * left. destruct H as [H1 H2]. split; [exact H1|]. rewrite !NN in H2; auto.
      * right; right; left. destruct H as [m' [v' [H1 [H2 [H3 H4]]]]]. exists m', v'. rewrite Nsq, NN in H4; auto.
      * right; right; right. destruct H as [m' [v' [H1 [H2 [H3 H4]]]]]. exists m', v'. rewrite Nsq, NN in H4; auto.
    + assert (ET' : T = (v - (v - m)) * td + (v - m) * tc) by (rewrite ET; ring).
      assert (ED' : - D = (v - (v - m)) * - dd + (v - m) * - dc) by (rewrite ED; ring).
      destruct (core_A_pos L2 td (- dd) tc (- dc) (v - m) v T (- D) HL Hv ltac:(lia) ltac:(lia) ET' ED' HT) as [H | [H | H]].
      * right; left. destruct H as [H1 H2]. split; [exact H1|]. rewrite !NN in H2; auto.
      * right; right; left. destruct H as [m' [v' [H1 [H2 [H3 H4]]]]]. exists (v' - m'), v'.
        split; [lia|]. split; [lia|]. split.
        { rewrite <- H3. ring. }
        { rewrite Nsq, NN in H4; auto. replace ((v' - (v' - m')) * dc + (v' - m') * dd) with ((v' - m') * dd + m' * dc) by ring. exact H4. }
      * right; right; right. destruct H as [m' [v' [H1 [H2 [H3 H4]]]]]. exists (v' - m'), v'.
        split; [lia|]. split; [lia|]. split.
        { rewrite <- H3. ring. }
        { rewrite Nsq, NN in H4; auto. replace ((v' - (v' - m')) * dc + (v' - m') * dd) with ((v' - m') * dd + m' * dc) by ring. exact H4. }
Qed.

(* ------------------------------------------------------------------ min of tagged values *)
Lemma better_l : forall {A} (x y : rat * A), rle (fst (better x y)) (fst x) = true.
Proof. intros A x y. unfold better. destruct (rle (fst x) (fst y)) eqn:E; [apply rle_refl | apply rle_total; exact E]. Qed.
Lemma better_r : forall {A} (x y : rat * A), rle (fst (better x y)) (fst y) = true.
Proof. intros A x y. unfold better. destruct (rle (fst x) (fst y)) eqn:E; [exact E | apply rle_refl]. Qed.
Lemma better_in : forall {A} (x y : rat * A), better x y = x \/ better x y = y.
Proof. intros A x y. unfold better. destruct (rle (fst x) (fst y)); auto. Qed.

(* ------------------------------------------------------------------ the frame of ab *)
Section Frame.
  Variables a b c d : pt.
  Variables n w m v : Z.
  Let L2 := d2 a b.
  Let Tq := (v - m) * dotp a b c + m * dotp a b d.
  Let Dq := (v - m) * orient a b c + m * orient a b d.
  Let P := hlerp a b n w.
  Let Q := hlerp c d m v.
  (* numerator of hd2 P Q *)
  Let ZZ := rn (hd2 P Q).

  Lemma hd2_PQ_den : rd (hd2 P Q) = sq (w * v).
  Proof. reflexivity. Qed.

  Lemma frame_PQ : L2 * ZZ = sq (w * Tq - n * v * L2) + sq (w * Dq).
  Proof.
    subst L2 Tq Dq ZZ P Q. destruct a as [ax ay], b as [bx by_], c as [cx cy], d as [dx dy].
    unfold hd2, hlerp, d2, dotp, orient, sq; cbn [rn rd fst snd]. ring.
  Qed.
  Lemma frame_aQ : L2 * rn (pd2 a Q) = sq Tq + sq Dq.
  Proof.
    subst L2 Tq Dq Q. destruct a as [ax ay], b as [bx by_], c as [cx cy], d as [dx dy].
    unfold pd2, hd2, hp, hlerp, d2, dotp, orient, sq; cbn [rn rd fst snd]. ring.
  Qed.
  Lemma frame_bQ : L2 * rn (pd2 b Q) = sq (Tq - v * L2) + sq Dq.
  Proof.
    subst L2 Tq Dq Q. destruct a as [ax ay], b as [bx by_], c as [cx cy], d as [dx dy].
    unfold pd2, hd2, hp, hlerp, d2, dotp, orient, sq; cbn [rn rd fst snd]. ring.
  Qed.
  Lemma expand_a : ZZ = w * w * rn (pd2 a Q) - 2 * w * n * v * Tq + n * n * (v * v) * L2.
  Proof.
    subst L2 Tq ZZ P Q. destruct a as [ax ay], b as [bx by_], c as [cx cy], d as [dx dy].
    unfold pd2, hd2, hp, hlerp, d2, dotp, sq; cbn [rn rd fst snd]. ring.
  Qed.
  Lemma expand_b : ZZ = w * w * rn (pd2 b Q) + 2 * w * (w - n) * v * (Tq - v * L2) + (w - n) * (w - n) * (v * v) * L2.
  Proof.
    subst L2 Tq ZZ P Q. destruct a as [ax ay], b as [bx by_], c as [cx cy], d as [dx dy].
    unfold pd2, hd2, hp, hlerp, d2, dotp, sq; cbn [rn rd fst snd]. ring.
  Qed.
  Lemma pd2_Q_den : forall p, rd (pd2 p Q) = sq (1 * v).
  Proof. reflexivity. Qed.

  Hypothesis Hw : 0 < w.
  Hypothesis Hn : 0 <= n <= w.
  Hypothesis Hv : 0 < v.
  Hypothesis Hm : 0 <= m <= v.

  (* q projects before a: a is at least as near to q as p is *)
  Lemma route_a : Tq <= 0 -> rle (pd2 a Q) (hd2 P Q) = true.
  Proof.
    intros HT. apply rle_iff. rewrite hd2_PQ_den, pd2_Q_den. fold ZZ. rewrite expand_a.
    set (A2 := rn (pd2 a Q)). unfold sq.
    assert (0 <= L2) by apply d2_nonneg.
    assert (0 <= w * n * v) by nia. assert (w * n * v * Tq <= 0) by nia.
    assert (0 <= n * n * (v * v) * L2) by (apply Z.mul_nonneg_nonneg; [apply Z.mul_nonneg_nonneg; nia | lia]).
    replace (A2 * (w * v * (w * v))) with (w * w * A2 * (v * v)) by ring.
    replace ((w * w * A2 - 2 * w * n * v * Tq + n * n * (v * v) * L2) * (1 * v * (1 * v)))
      with ((w * w * A2 + (- 2 * (w * n * v * Tq) + n * n * (v * v) * L2)) * (v * v)) by ring.
    apply Z.mul_le_mono_nonneg_r; nia.
  Qed.
  Lemma route_b : v * L2 <= Tq -> rle (pd2 b Q) (hd2 P Q) = true.
  Proof.
    intros HT. apply rle_iff. rewrite hd2_PQ_den, pd2_Q_den. fold ZZ. rewrite expand_b.
    set (B2 := rn (pd2 b Q)). unfold sq.
    assert (0 <= L2) by apply d2_nonneg.
    assert (0 <= w * (w - n) * v) by nia. assert (0 <= w * (w - n) * v * (Tq - v * L2)) by nia.
    assert (0 <= (w - n) * (w - n) * (v * v) * L2) by (apply Z.mul_nonneg_nonneg; [apply Z.mul_nonneg_nonneg; nia | lia]).
    replace (B2 * (w * v * (w * v))) with (w * w * B2 * (v * v)) by ring.
    replace ((w * w * B2 + 2 * w * (w - n) * v * (Tq - v * L2) + (w - n) * (w - n) * (v * v) * L2) * (1 * v * (1 * v)))
      with ((w * w * B2 + (2 * (w * (w - n) * v * (Tq - v * L2)) + (w - n) * (w - n) * (v * v) * L2)) * (v * v)) by ring.
    apply Z.mul_le_mono_nonneg_r; nia.
  Qed.
  (* q is at least |Dq| / (v sqrt L2) away from every point of the line ab *)
  Lemma perp_bound : sq (w * Dq) <= L2 * ZZ.
  Proof. rewrite frame_PQ. pose proof (sq_nonneg (w * Tq - n * v * L2)). lia. Qed.
End Frame.

Lemma sq_pos : forall x, 0 < x -> 0 < sq x.
Proof. intros; unfold sq; nia. Qed.
Lemma hd2_ok : forall p q, 0 <= rn (hd2 p q).
Proof. intros [[x y] w] [[x' y'] w']. unfold hd2; cbn [rn]. pose proof (sq_nonneg (x * w' - x' * w)); pose proof (sq_nonneg (y * w' - y' * w)); lia. Qed.

Section Routes.
  Variables a b c d : pt.
  Variables n w m v : Z.
  Hypothesis Hw : 0 < w.
  Hypothesis Hn : 0 <= n <= w.
  Hypothesis Hv : 0 < v.
  Hypothesis Hm : 0 <= m <= v.
  Let L2 := d2 a b.
  Let Dq := (v - m) * orient a b c + m * orient a b d.
  Let P := hlerp a b n w.
  Let Q := hlerp c d m v.
  Hypothesis HL : 0 < L2.

  Lemma den_PQ : 0 < rd (hd2 P Q).
  Proof. unfold P, Q; rewrite hd2_PQ_den. apply sq_pos. nia. Qed.

  (* an end x of cd projects inside ab and is at most as far from the line ab as q is *)
  Lemma route_in : forall x, R1 L2 (dotp a b x) (orient a b x) v Dq ->
    rle (fst (dist2_pt_seg x a b)) (hd2 P Q) = true.
  Proof.
    intros x [Ht Hd].
    pose proof (pt_seg_ok x a b) as [_ K1].
    pose proof (pt_seg_min x a b (dotp a b x) L2 HL Ht) as M1.
    pose proof (foot_attained x a b HL) as F. fold L2 in F.
    pose proof (perp_bound a b c d n w m v) as PB. cbv zeta in PB. fold L2 Dq P Q in PB.
    apply (rle_trans _ (pd2 x (hlerp a b (dotp a b x) L2))); [exact K1 | | apply den_PQ | exact M1 | ].
    { rewrite pd2_lerp; cbn [rd]. apply sq_pos. lia. }
    apply (rle_trans _ (mkr (sq (orient a b x)) L2)); [ | exact HL | apply den_PQ | apply req_rle; exact F | ].
    { rewrite pd2_lerp; cbn [rd]. apply sq_pos. lia. }
    apply rle_iff. cbn [rn rd]. unfold P, Q. rewrite hd2_PQ_den. fold P Q.
    set (ZZ := rn (hd2 P Q)) in *. unfold sq in *.
    set (o := orient a b x) in *.
    assert (o * o * (w * v * (w * v)) = w * w * (v * v * (o * o))) as -> by ring.
    assert (w * w * (v * v * (o * o)) <= w * w * (Dq * Dq)) by (apply Z.mul_le_mono_nonneg_l; nia).
    nia.
  Qed.

  (* cd passes over the end e of ab (e = a: tgt = 0, e = b: tgt = v' L2) at a point q' no farther from the line ab than q *)
  Lemma route_over_a : R3 (fun _ => 0) (dotp a b c) (orient a b c) (dotp a b d) (orient a b d) v Dq ->
    rle (fst (dist2_pt_seg a c d)) (hd2 P Q) = true.
  Proof.
    intros [m' [v' [Hv' [Hm' [HT HD]]]]].
    pose proof (pt_seg_ok a c d) as [_ K1].
    pose proof (pt_seg_min a c d m' v' Hv' Hm') as M1.
    pose proof (frame_aQ a b c d 0 1 m' v') as FA. cbv zeta in FA. fold L2 in FA. rewrite HT in FA.
    pose proof (perp_bound a b c d n w m v) as PB. cbv zeta in PB. fold L2 Dq P Q in PB.
    apply (rle_trans _ (pd2 a (hlerp c d m' v'))); [exact K1 | | apply den_PQ | exact M1 | ].
    { rewrite pd2_Q_den. apply sq_pos. lia. }
    apply rle_iff. rewrite pd2_Q_den. unfold P, Q. rewrite hd2_PQ_den. fold P Q.
    set (A2 := rn (pd2 a (hlerp c d m' v'))) in *. set (ZZ := rn (hd2 P Q)) in *.
    set (D' := (v' - m') * orient a b c + m' * orient a b d) in *.
    unfold sq in *.
    apply (Z.mul_le_mono_pos_l _ _ L2 HL).
    assert (E1 : L2 * (A2 * (w * v * (w * v))) = w * w * (D' * D' * (v * v))) by (rewrite Z.mul_assoc, FA; ring).
    assert (E2 : w * w * (D' * D' * (v * v)) <= w * w * (Dq * Dq * (v' * v'))) by (apply Z.mul_le_mono_nonneg_l; nia).
    assert (E3 : w * w * (Dq * Dq * (v' * v')) = (w * Dq * (w * Dq)) * (v' * v')) by ring.
    assert (E4 : (w * Dq * (w * Dq)) * (v' * v') <= (L2 * ZZ) * (v' * v')) by (apply Z.mul_le_mono_nonneg_r; nia).
    replace (L2 * (ZZ * (1 * v' * (1 * v')))) with ((L2 * ZZ) * (v' * v')) by ring. lia.
  Qed.
  Lemma route_over_b : R3 (fun v' => v' * L2) (dotp a b c) (orient a b c) (dotp a b d) (orient a b d) v Dq ->
    rle (fst (dist2_pt_seg b c d)) (hd2 P Q) = true.
  Proof.
    intros [m' [v' [Hv' [Hm' [HT HD]]]]].
    pose proof (pt_seg_ok b c d) as [_ K1].
    pose proof (pt_seg_min b c d m' v' Hv' Hm') as M1.
    pose proof (frame_bQ a b c d 0 1 m' v') as FA. cbv zeta in FA. fold L2 in FA. rewrite HT in FA.
    replace (v' * L2 - v' * L2) with 0 in FA by ring.
    pose proof (perp_bound a b c d n w m v) as PB. cbv zeta in PB. fold L2 Dq P Q in PB.
    apply (rle_trans _ (pd2 b (hlerp c d m' v'))); [exact K1 | | apply den_PQ | exact M1 | ].
    { rewrite pd2_Q_den. apply sq_pos. lia. }
    apply rle_iff. rewrite pd2_Q_den. unfold P, Q. rewrite hd2_PQ_den. fold P Q.
    set (A2 := rn (pd2 b (hlerp c d m' v'))) in *. set (ZZ := rn (hd2 P Q)) in *.
    set (D' := (v' - m') * orient a b c + m' * orient a b d) in *.
    unfold sq in *.
    apply (Z.mul_le_mono_pos_l _ _ L2 HL).
    assert (E1 : L2 * (A2 * (w * v * (w * v))) = w * w * (D' * D' * (v * v))) by (rewrite Z.mul_assoc, FA; ring).
    assert (E2 : w * w * (D' * D' * (v * v)) <= w * w * (Dq * Dq * (v' * v'))) by (apply Z.mul_le_mono_nonneg_l; nia).
    assert (E3 : w * w * (Dq * Dq * (v' * v')) = (w * Dq * (w * Dq)) * (v' * v')) by ring.
    assert (E4 : (w * Dq * (w * Dq)) * (v' * v') <= (L2 * ZZ) * (v' * v')) by (apply Z.mul_le_mono_nonneg_r; nia).
    replace (L2 * (ZZ * (1 * v' * (1 * v')))) with ((L2 * ZZ) * (v' * v')) by ring. lia.
  Qed.
End Routes.
