(* C08/SegSeg — the segment/segment squared distance of DistDefs: attained by a point of each segment, a lower bound for
   every pair of points of the two segments (so it is the minimum), symmetric, and zero exactly when the segments meet. *)
From Coq Require Import ZArith List Bool Lia Psatz.
From GeosV.Lib Require Import GeomDefs LocateDefs.
From GeosV.C08 Require Import DistDefs PtSeg.
Import ListNotations.
Local Open Scope Z_scope.
Set Default Timeout 60.

(* ------------------------------------------------------------------ arithmetic core: the closest approach of a segment cd
   to the strip over ab, in the frame of ab.  t = (x-a).(b-a) and d = (b-a)x(x-a) are affine in x; for the point
   q = c + (m/v)(d-c):  v t(q) = T, v d(q) = D.  If q projects inside ab (0 < T < v L2) and c, d are not on strictly opposite
   sides of the line ab, then |D| >= v |d(x)| for x the nearer of c, d, and either x projects inside ab, or the segment cd
   passes over an end of ab at a point q' with |d(q')| <= |d(q)|. *)
Lemma sq_le : forall x y, 0 <= x <= y -> x * x <= y * y.
Proof. intros; nia. Qed.

(* |dc| <= |dd| on the non-negative side *)
Lemma core_A_pos : forall L2 tc dc td dd m v T D, 0 < L2 -> 0 < v -> 0 <= m <= v -> 0 <= dc <= dd ->
  T = (v - m) * tc + m * td -> D = (v - m) * dc + m * dd ->
  0 < T < v * L2 ->
  (0 <= tc <= L2 /\ v * v * (dc * dc) <= D * D) \/
  (exists m' v', 0 < v' /\ 0 <= m' <= v' /\ (v' - m') * tc + m' * td = 0 /\
                 sq ((v' - m') * dc + m' * dd) * (v * v) <= D * D * (v' * v')) \/
  (exists m' v', 0 < v' /\ 0 <= m' <= v' /\ (v' - m') * tc + m' * td = v' * L2 /\
                 sq ((v' - m') * dc + m' * dd) * (v * v) <= D * D * (v' * v')).
Proof.
  intros L2 tc dc td dd m v T D HL Hv Hm Hd ET ED HT.
  assert (HD : v * dc <= D).
  { assert (0 <= m * (dd - dc)) by nia. rewrite ED. lia. }
  assert (Hvdc : 0 <= v * dc) by nia.
  assert (HD0 : 0 <= D) by lia.
  assert (HDD : v * v * (dc * dc) <= D * D).
  { replace (v * v * (dc * dc)) with ((v * dc) * (v * dc)) by ring. apply sq_le; lia. }
  destruct (Z_lt_le_dec tc 0) as [Hc | Hc].
  - right; left. exists (m * (- tc)), (T - v * tc).
    assert (Hvt : v * tc < 0) by nia.
    assert (Hvmt : (v - m) * tc <= 0) by nia.
    assert (Hmt : 0 < m * td) by lia.
    assert (Hmtc : 0 <= m * - tc) by nia.
    split; [lia|]. split; [split; [lia|] |].
    { rewrite ET. lia. }
    split; [rewrite ET; ring|].
    replace ((T - v * tc - m * - tc) * dc + m * - tc * dd) with (T * dc - tc * D) by (rewrite ET, ED; ring).
    assert (H1 : 0 <= T * dc) by nia. assert (H2 : 0 <= - tc * D) by nia.
    assert (H3 : 0 <= T * dc - tc * D) by lia.
    assert (H4 : v * (T * dc - tc * D) <= D * (T - v * tc)).
    { replace (v * (T * dc - tc * D)) with (T * (v * dc) - v * tc * D) by ring.
      assert (T * (v * dc) <= T * D) by (apply Z.mul_le_mono_nonneg_l; lia). lia. }
    assert (H5 : 0 <= D * (T - v * tc)) by nia.
    unfold sq.
    replace ((T * dc - tc * D) * (T * dc - tc * D) * (v * v)) with ((v * (T * dc - tc * D)) * (v * (T * dc - tc * D))) by ring.
    replace (D * D * ((T - v * tc) * (T - v * tc))) with ((D * (T - v * tc)) * (D * (T - v * tc))) by ring.
    apply sq_le. split; [nia | exact H4].
  - destruct (Z_le_gt_dec tc L2) as [Hc2 | Hc2].
    + left. split; [lia | exact HDD].
    + right; right. exists (m * (tc - L2)), (v * tc - T).
      assert (Hvt : v * L2 < v * tc) by nia.
      assert (Hvmt : (v - m) * L2 <= (v - m) * tc) by nia.
      assert (Hmt : m * td < m * L2) by lia.
      assert (Hmtc : 0 <= m * (tc - L2)) by nia.
      split; [lia|]. split; [split; [lia|] |].
      { rewrite ET. lia. }
      split; [rewrite ET; ring|].
      replace ((v * tc - T - m * (tc - L2)) * dc + m * (tc - L2) * dd) with ((tc - L2) * D - (T - v * L2) * dc) by (rewrite ET, ED; ring).
      assert (H1 : 0 <= (tc - L2) * D) by nia. assert (H2 : 0 <= - (T - v * L2) * dc) by nia.
      assert (H3 : 0 <= (tc - L2) * D - (T - v * L2) * dc) by lia.
      assert (H4 : v * ((tc - L2) * D - (T - v * L2) * dc) <= D * (v * tc - T)).
      { replace (v * ((tc - L2) * D - (T - v * L2) * dc)) with ((v * tc - v * L2) * D + (v * L2 - T) * (v * dc)) by ring.
        assert ((v * L2 - T) * (v * dc) <= (v * L2 - T) * D) by (apply Z.mul_le_mono_nonneg_l; lia). lia. }
      unfold sq.
      replace (((tc - L2) * D - (T - v * L2) * dc) * ((tc - L2) * D - (T - v * L2) * dc) * (v * v))
        with ((v * ((tc - L2) * D - (T - v * L2) * dc)) * (v * ((tc - L2) * D - (T - v * L2) * dc))) by ring.
      replace (D * D * ((v * tc - T) * (v * tc - T))) with ((D * (v * tc - T)) * (D * (v * tc - T))) by ring.
      apply sq_le. split; [nia | exact H4].
Qed.
Definition R1 L2 tc dc (v D : Z) := 0 <= tc <= L2 /\ v * v * (dc * dc) <= D * D.
Definition R3 (tgt : Z -> Z) tc dc td dd (v D : Z) := exists m' v', 0 < v' /\ 0 <= m' <= v' /\ (v' - m') * tc + m' * td = tgt v' /\
                 sq ((v' - m') * dc + m' * dd) * (v * v) <= D * D * (v' * v').

Lemma core : forall L2 tc dc td dd m v T D, 0 < L2 -> 0 < v -> 0 <= m <= v ->
  (0 <= dc /\ 0 <= dd) \/ (dc <= 0 /\ dd <= 0) ->
  T = (v - m) * tc + m * td -> D = (v - m) * dc + m * dd -> 0 < T < v * L2 ->
  R1 L2 tc dc v D \/ R1 L2 td dd v D \/ R3 (fun _ => 0) tc dc td dd v D \/ R3 (fun v' => v' * L2) tc dc td dd v D.
Proof.
  intros L2 tc dc td dd m v T D HL Hv Hm Hs ET ED HT.
  assert (Sw : forall m' v' x y, (v' - (v' - m')) * x + (v' - m') * y = (v' - m') * y + m' * x) by (intros; ring).
  destruct Hs as [[Hc Hd] | [Hc Hd]].
  - destruct (Z_le_gt_dec dc dd) as [O | O].
    + destruct (core_A_pos L2 tc dc td dd m v T D HL Hv Hm (conj Hc O) ET ED HT) as [H | [H | H]]; auto.
    + assert (ET' : T = (v - (v - m)) * td + (v - m) * tc) by (rewrite ET; ring).
      assert (ED' : D = (v - (v - m)) * dd + (v - m) * dc) by (rewrite ED; ring).
      destruct (core_A_pos L2 td dd tc dc (v - m) v T D HL Hv ltac:(lia) ltac:(lia) ET' ED' HT) as [H | [H | H]].
      * right; left; exact H.
      * right; right; left. destruct H as [m' [v' [H1 [H2 [H3 H4]]]]]. exists (v' - m'), v'.
        split; [lia|]. split; [lia|]. split.
        { rewrite <- H3. ring. }
        { replace ((v' - (v' - m')) * dc + (v' - m') * dd) with ((v' - m') * dd + m' * dc) by ring. exact H4. }
      * right; right; right. destruct H as [m' [v' [H1 [H2 [H3 H4]]]]]. exists (v' - m'), v'.
        split; [lia|]. split; [lia|]. split.
        { rewrite <- H3. ring. }
        { replace ((v' - (v' - m')) * dc + (v' - m') * dd) with ((v' - m') * dd + m' * dc) by ring. exact H4. }
  - assert (NN : forall x y : Z, (- x) * (- x) = x * x) by (intros; ring).
    assert (Nsq : forall m' v' x y, sq ((v' - m') * - x + m' * - y) = sq ((v' - m') * x + m' * y)) by (intros; unfold sq; ring).
    destruct (Z_le_gt_dec dd dc) as [O | O].
    + assert (ED' : - D = (v - m) * - dc + m * - dd) by (rewrite ED; ring).
      destruct (core_A_pos L2 tc (- dc) td (- dd) m v T (- D) HL Hv Hm ltac:(lia) ET ED' HT) as [H | [H | H]].
      * left. destruct H as [H1 H2]. split; [exact H1|]. rewrite !NN in H2; auto.
      * right; right; left. destruct H as [m' [v' [H1 [H2 [H3 H4]]]]]. exists m', v'. rewrite Nsq, NN in H4; auto.
      * right; right; right. destruct H as [m' [v' [H1 [H2 [H3 H4]]]]]. exists m', v'. rewrite Nsq, NN in H4; auto.
    + assert (ET' : T = (v - (v - m)) * td + (v - m) * tc) by (rewrite ET; ring).
      assert (ED' : - D = (v - (v - m)) * - dd + (v - m) * - dc) by (rewrite ED; ring).
      destruct (core_A_pos L2 td (- dd) tc (- dc) (v - m) v T (- D) HL Hv ltac:(lia) ltac:(lia) ET' ED' HT) as [H | [H | H]].
      * right; left. destruct H as [H1 H2]. split; [exact H1|]. rewrite !NN in H2; auto.
      * right; right; left. destruct H as [m' [v' [H1 [H2 [H3 H4]]]]]. exists (v' - m'), v'.
        split; [lia|]. split; [lia|]. split.
        { rewrite <- H3. ring. }
        { rewrite Nsq, NN in H4; auto. replace ((v' - (v' - m')) * dc + (v' - m') * dd) with ((v' - m') * dd + m' * dc) by ring. exact H4. }
      * right; right; right. destruct H as [m' [v' [H1 [H2 [H3 H4]]]]]. exists (v' - m'), v'.
        split; [lia|]. split; [lia|]. split.
        { rewrite <- H3. ring. }
        { rewrite Nsq, NN in H4; auto. replace ((v' - (v' - m')) * dc + (v' - m') * dd) with ((v' - m') * dd + m' * dc) by ring. exact H4. }
Qed.

(* ------------------------------------------------------------------ min of tagged values *)
Lemma better_l : forall {A} (x y : rat * A), rle (fst (better x y)) (fst x) = true.
Proof. intros A x y. unfold better. destruct (rle (fst x) (fst y)) eqn:E; [apply rle_refl | apply rle_total; exact E]. Qed.
Lemma better_r : forall {A} (x y : rat * A), rle (fst (better x y)) (fst y) = true.
Proof. intros A x y. unfold better. destruct (rle (fst x) (fst y)) eqn:E; [exact E | apply rle_refl]. Qed.
Lemma better_in : forall {A} (x y : rat * A), better x y = x \/ better x y = y.
Proof. intros A x y. unfold better. destruct (rle (fst x) (fst y)); auto. Qed.

(* ------------------------------------------------------------------ the frame of ab *)
Section Frame.
  Variables a b c d : pt.
  Variables n w m v : Z.
  Let L2 := d2 a b.
  Let Tq := (v - m) * dotp a b c + m * dotp a b d.
  Let Dq := (v - m) * orient a b c + m * orient a b d.
  Let P := hlerp a b n w.
  Let Q := hlerp c d m v.
  (* numerator of hd2 P Q *)
  Let ZZ := rn (hd2 P Q).

  Lemma hd2_PQ_den : rd (hd2 P Q) = sq (w * v).
  Proof. reflexivity. Qed.

  Lemma frame_PQ : L2 * ZZ = sq (w * Tq - n * v * L2) + sq (w * Dq).
  Proof.
    subst L2 Tq Dq ZZ P Q. destruct a as [ax ay], b as [bx by_], c as [cx cy], d as [dx dy].
    unfold hd2, hlerp, d2, dotp, orient, sq; cbn [rn rd fst snd]. ring.
  Qed.
  Lemma frame_aQ : L2 * rn (pd2 a Q) = sq Tq + sq Dq.
  Proof.
    subst L2 Tq Dq Q. destruct a as [ax ay], b as [bx by_], c as [cx cy], d as [dx dy].
    unfold pd2, hd2, hp, hlerp, d2, dotp, orient, sq; cbn [rn rd fst snd]. ring.
  Qed.
  Lemma frame_bQ : L2 * rn (pd2 b Q) = sq (Tq - v * L2) + sq Dq.
  Proof.
    subst L2 Tq Dq Q. destruct a as [ax ay], b as [bx by_], c as [cx cy], d as [dx dy].
    unfold pd2, hd2, hp, hlerp, d2, dotp, orient, sq; cbn [rn rd fst snd]. ring.
  Qed.
  Lemma expand_a : ZZ = w * w * rn (pd2 a Q) - 2 * w * n * v * Tq + n * n * (v * v) * L2.
  Proof.
    subst L2 Tq ZZ P Q. destruct a as [ax ay], b as [bx by_], c as [cx cy], d as [dx dy].
    unfold pd2, hd2, hp, hlerp, d2, dotp, sq; cbn [rn rd fst snd]. ring.
  Qed.
  Lemma expand_b : ZZ = w * w * rn (pd2 b Q) + 2 * w * (w - n) * v * (Tq - v * L2) + (w - n) * (w - n) * (v * v) * L2.
  Proof.
    subst L2 Tq ZZ P Q. destruct a as [ax ay], b as [bx by_], c as [cx cy], d as [dx dy].
    unfold pd2, hd2, hp, hlerp, d2, dotp, sq; cbn [rn rd fst snd]. ring.
  Qed.
  Lemma pd2_Q_den : forall p, rd (pd2 p Q) = sq (1 * v).
  Proof. reflexivity. Qed.

  Hypothesis Hw : 0 < w.
  Hypothesis Hn : 0 <= n <= w.
  Hypothesis Hv : 0 < v.
  Hypothesis Hm : 0 <= m <= v.

  (* q projects before a: a is at least as near to q as p is *)
  Lemma route_a : Tq <= 0 -> rle (pd2 a Q) (hd2 P Q) = true.
  Proof.
    intros HT. apply rle_iff. rewrite hd2_PQ_den, pd2_Q_den. fold ZZ. rewrite expand_a.
    set (A2 := rn (pd2 a Q)). unfold sq.
    assert (0 <= L2) by apply d2_nonneg.
    assert (0 <= w * n * v) by nia. assert (w * n * v * Tq <= 0) by nia.
    assert (0 <= n * n * (v * v) * L2) by (apply Z.mul_nonneg_nonneg; [apply Z.mul_nonneg_nonneg; nia | lia]).
    replace (A2 * (w * v * (w * v))) with (w * w * A2 * (v * v)) by ring.
    replace ((w * w * A2 - 2 * w * n * v * Tq + n * n * (v * v) * L2) * (1 * v * (1 * v)))
      with ((w * w * A2 + (- 2 * (w * n * v * Tq) + n * n * (v * v) * L2)) * (v * v)) by ring.
    apply Z.mul_le_mono_nonneg_r; nia.
  Qed.
  Lemma route_b : v * L2 <= Tq -> rle (pd2 b Q) (hd2 P Q) = true.
  Proof.
    intros HT. apply rle_iff. rewrite hd2_PQ_den, pd2_Q_den. fold ZZ. rewrite expand_b.
    set (B2 := rn (pd2 b Q)). unfold sq.
    assert (0 <= L2) by apply d2_nonneg.
    assert (0 <= w * (w - n) * v) by nia. assert (0 <= w * (w - n) * v * (Tq - v * L2)) by nia.
    assert (0 <= (w - n) * (w - n) * (v * v) * L2) by (apply Z.mul_nonneg_nonneg; [apply Z.mul_nonneg_nonneg; nia | lia]).
    replace (B2 * (w * v * (w * v))) with (w * w * B2 * (v * v)) by ring.
    replace ((w * w * B2 + 2 * w * (w - n) * v * (Tq - v * L2) + (w - n) * (w - n) * (v * v) * L2) * (1 * v * (1 * v)))
      with ((w * w * B2 + (2 * (w * (w - n) * v * (Tq - v * L2)) + (w - n) * (w - n) * (v * v) * L2)) * (v * v)) by ring.
    apply Z.mul_le_mono_nonneg_r; nia.
  Qed.
  (* q is at least |Dq| / (v sqrt L2) away from every point of the line ab *)
  Lemma perp_bound : sq (w * Dq) <= L2 * ZZ.
  Proof. rewrite frame_PQ. pose proof (sq_nonneg (w * Tq - n * v * L2)). lia. Qed.
End Frame.

Lemma sq_pos : forall x, 0 < x -> 0 < sq x.
Proof. intros; unfold sq; nia. Qed.
Lemma hd2_ok : forall p q, 0 <= rn (hd2 p q).
Proof. intros [[x y] w] [[x' y'] w']. unfold hd2; cbn [rn]. pose proof (sq_nonneg (x * w' - x' * w)); pose proof (sq_nonneg (y * w' - y' * w)); lia. Qed.

Section Routes.
  Variables a b c d : pt.
  Variables n w m v : Z.
  Hypothesis Hw : 0 < w.
  Hypothesis Hn : 0 <= n <= w.
  Hypothesis Hv : 0 < v.
  Hypothesis Hm : 0 <= m <= v.
  Let L2 := d2 a b.
  Let Dq := (v - m) * orient a b c + m * orient a b d.
  Let P := hlerp a b n w.
  Let Q := hlerp c d m v.
  Hypothesis HL : 0 < L2.

  Lemma den_PQ : 0 < rd (hd2 P Q).
  Proof. unfold P, Q; rewrite hd2_PQ_den. apply sq_pos. nia. Qed.

  (* an end x of cd projects inside ab and is at most as far from the line ab as q is *)
  Lemma route_in : forall x, R1 L2 (dotp a b x) (orient a b x) v Dq ->
    rle (fst (dist2_pt_seg x a b)) (hd2 P Q) = true.
  Proof.
    intros x [Ht Hd].
    pose proof (pt_seg_ok x a b) as [_ K1].
    pose proof (pt_seg_min x a b (dotp a b x) L2 HL Ht) as M1.
    pose proof (foot_attained x a b HL) as F. fold L2 in F.
    pose proof (perp_bound a b c d n w m v) as PB. cbv zeta in PB. fold L2 Dq P Q in PB.
    apply (rle_trans _ (pd2 x (hlerp a b (dotp a b x) L2))); [exact K1 | | apply den_PQ | exact M1 | ].
    { rewrite pd2_lerp; cbn [rd]. apply sq_pos. lia. }
    apply (rle_trans _ (mkr (sq (orient a b x)) L2)); [ | exact HL | apply den_PQ | apply req_rle; exact F | ].
    { rewrite pd2_lerp; cbn [rd]. apply sq_pos. lia. }
    apply rle_iff. cbn [rn rd]. unfold P, Q. rewrite hd2_PQ_den. fold P Q.
    set (ZZ := rn (hd2 P Q)) in *. unfold sq in *.
    set (o := orient a b x) in *.
    assert (o * o * (w * v * (w * v)) = w * w * (v * v * (o * o))) as -> by ring.
    assert (w * w * (v * v * (o * o)) <= w * w * (Dq * Dq)) by (apply Z.mul_le_mono_nonneg_l; nia).
    nia.
  Qed.

  (* cd passes over the end e of ab (e = a: tgt = 0, e = b: tgt = v' L2) at a point q' no farther from the line ab than q *)
  Lemma route_over_a : R3 (fun _ => 0) (dotp a b c) (orient a b c) (dotp a b d) (orient a b d) v Dq ->
    rle (fst (dist2_pt_seg a c d)) (hd2 P Q) = true.
  Proof.
    intros [m' [v' [Hv' [Hm' [HT HD]]]]].
    pose proof (pt_seg_ok a c d) as [_ K1].
    pose proof (pt_seg_min a c d m' v' Hv' Hm') as M1.
    pose proof (frame_aQ a b c d 0 1 m' v') as FA. cbv zeta in FA. fold L2 in FA. rewrite HT in FA.
    pose proof (perp_bound a b c d n w m v) as PB. cbv zeta in PB. fold L2 Dq P Q in PB.
    apply (rle_trans _ (pd2 a (hlerp c d m' v'))); [exact K1 | | apply den_PQ | exact M1 | ].
    { rewrite pd2_Q_den. apply sq_pos. lia. }
    apply rle_iff. rewrite pd2_Q_den. unfold P, Q. rewrite hd2_PQ_den. fold P Q.
    set (A2 := rn (pd2 a (hlerp c d m' v'))) in *. set (ZZ := rn (hd2 P Q)) in *.
    set (D' := (v' - m') * orient a b c + m' * orient a b d) in *.
    unfold sq in *.
    apply (Z.mul_le_mono_pos_l _ _ L2 HL).
    assert (E1 : L2 * (A2 * (w * v * (w * v))) = w * w * (D' * D' * (v * v))) by (rewrite Z.mul_assoc, FA; ring).
    assert (E2 : w * w * (D' * D' * (v * v)) <= w * w * (Dq * Dq * (v' * v'))) by (apply Z.mul_le_mono_nonneg_l; nia).
    assert (E3 : w * w * (Dq * Dq * (v' * v')) = (w * Dq * (w * Dq)) * (v' * v')) by ring.
    assert (E4 : (w * Dq * (w * Dq)) * (v' * v') <= (L2 * ZZ) * (v' * v')) by (apply Z.mul_le_mono_nonneg_r; nia).
    replace (L2 * (ZZ * (1 * v' * (1 * v')))) with ((L2 * ZZ) * (v' * v')) by ring. lia.
  Qed.
  Lemma route_over_b : R3 (fun v' => v' * L2) (dotp a b c) (orient a b c) (dotp a b d) (orient a b d) v Dq ->
    rle (fst (dist2_pt_seg b c d)) (hd2 P Q) = true.
  Proof.
    intros [m' [v' [Hv' [Hm' [HT HD]]]]].
    pose proof (pt_seg_ok b c d) as [_ K1].
    pose proof (pt_seg_min b c d m' v' Hv' Hm') as M1.
    pose proof (frame_bQ a b c d 0 1 m' v') as FA. cbv zeta in FA. fold L2 in FA. rewrite HT in FA.
    replace (v' * L2 - v' * L2) with 0 in FA by ring.
    pose proof (perp_bound a b c d n w m v) as PB. cbv zeta in PB. fold L2 Dq P Q in PB.
    apply (rle_trans _ (pd2 b (hlerp c d m' v'))); [exact K1 | | apply den_PQ | exact M1 | ].
    { rewrite pd2_Q_den. apply sq_pos. lia. }
    apply rle_iff. rewrite pd2_Q_den. unfold P, Q. rewrite hd2_PQ_den. fold P Q.
    set (A2 := rn (pd2 b (hlerp c d m' v'))) in *. set (ZZ := rn (hd2 P Q)) in *.
    set (D' := (v' - m') * orient a b c + m' * orient a b d) in *.
    unfold sq in *.
    apply (Z.mul_le_mono_pos_l _ _ L2 HL).
    assert (E1 : L2 * (A2 * (w * v * (w * v))) = w * w * (D' * D' * (v * v))) by (rewrite Z.mul_assoc, FA; ring).
    assert (E2 : w * w * (D' * D' * (v * v)) <= w * w * (Dq * Dq * (v' * v'))) by (apply Z.mul_le_mono_nonneg_l; nia).
    assert (E3 : w * w * (Dq * Dq * (v' * v')) = (w * Dq * (w * Dq)) * (v' * v')) by ring.
    assert (E4 : (w * Dq * (w * Dq)) * (v' * v') <= (L2 * ZZ) * (v' * v')) by (apply Z.mul_le_mono_nonneg_r; nia).
    replace (L2 * (ZZ * (1 * v' * (1 * v')))) with ((L2 * ZZ) * (v' * v')) by ring. lia.
  Qed.
End Routes.

(* ------------------------------------------------------------------ the lower bound *)
Lemma hd2_sym : forall p q, hd2 p q = hd2 q p.
Proof. intros [[x y] w] [[x' y'] w']. unfold hd2, sq. f_equal; ring. Qed.

Lemma opposite_false : forall x y, opposite x y = false -> (0 <= x /\ 0 <= y) \/ (x <= 0 /\ y <= 0).
Proof.
  intros x y H. unfold opposite in H. apply orb_false_iff in H. destruct H as [H1 H2].
  apply andb_false_iff in H1. apply andb_false_iff in H2. rewrite !Z.ltb_ge in H1, H2. lia.
Qed.

(* c, d not on strictly opposite sides of the line ab: some end/segment distance is below the distance of any two points *)
Lemma half : forall a b c d n w m v, 0 < w -> 0 <= n <= w -> 0 < v -> 0 <= m <= v ->
  opposite (orient a b c) (orient a b d) = false ->
  let T := hd2 (hlerp a b n w) (hlerp c d m v) in
  rle (fst (dist2_pt_seg c a b)) T = true \/ rle (fst (dist2_pt_seg d a b)) T = true \/
  rle (fst (dist2_pt_seg a c d)) T = true \/ rle (fst (dist2_pt_seg b c d)) T = true.
Proof.
  intros a b c d n w m v Hw Hn Hv Hm Ho T.
  set (Tq := (v - m) * dotp a b c + m * dotp a b d).
  assert (DT : 0 < rd T) by (apply den_PQ; assumption).
  destruct (Z_le_gt_dec Tq 0) as [H1 | H1].
  - right; right; left.
    pose proof (pt_seg_ok a c d) as [_ K]. pose proof (pt_seg_min a c d m v Hv Hm) as M.
    apply (rle_trans _ (pd2 a (hlerp c d m v))); [exact K | rewrite pd2_Q_den; apply sq_pos; lia | exact DT | exact M | ].
    apply route_a; assumption.
  - destruct (Z_le_gt_dec (v * d2 a b) Tq) as [H2 | H2].
    + right; right; right.
      pose proof (pt_seg_ok b c d) as [_ K]. pose proof (pt_seg_min b c d m v Hv Hm) as M.
      apply (rle_trans _ (pd2 b (hlerp c d m v))); [exact K | rewrite pd2_Q_den; apply sq_pos; lia | exact DT | exact M | ].
      apply route_b; assumption.
    + assert (HL : 0 < d2 a b) by (pose proof (d2_nonneg a b); nia).
      destruct (core (d2 a b) (dotp a b c) (orient a b c) (dotp a b d) (orient a b d) m v Tq
                     ((v - m) * orient a b c + m * orient a b d) HL Hv Hm (opposite_false _ _ Ho) eq_refl eq_refl)
        as [R | [R | [R | R]]]; [lia | | | | ].
      * left. apply route_in; assumption.
      * right; left. apply route_in; assumption.
      * right; right; left. apply route_over_a; assumption.
      * right; right; right. apply route_over_b; assumption.
Qed.

Lemma seg_seg_value : forall a b c d, proper_cross a b c d = false ->
  let r := fst (dist2_seg_seg a b c d) in
  rle r (fst (dist2_pt_seg c a b)) = true /\ rle r (fst (dist2_pt_seg d a b)) = true /\
  rle r (fst (dist2_pt_seg a c d)) = true /\ rle r (fst (dist2_pt_seg b c d)) = true /\ 0 < rd r /\ 0 <= rn r.
Proof.
  intros a b c d Hp. unfold dist2_seg_seg. rewrite Hp. cbv zeta.
  set (c1 := (fst (dist2_pt_seg c a b), (snd (dist2_pt_seg c a b), hp c))).
  set (c2 := (fst (dist2_pt_seg d a b), (snd (dist2_pt_seg d a b), hp d))).
  set (c3 := (fst (dist2_pt_seg a c d), (hp a, snd (dist2_pt_seg a c d)))).
  set (c4 := (fst (dist2_pt_seg b c d), (hp b, snd (dist2_pt_seg b c d)))).
  pose proof (pt_seg_ok c a b) as [N1 K1]. pose proof (pt_seg_ok d a b) as [N2 K2].
  pose proof (pt_seg_ok a c d) as [N3 K3]. pose proof (pt_seg_ok b c d) as [N4 K4].
  assert (D34 : 0 < rd (fst (better c3 c4)) /\ 0 <= rn (fst (better c3 c4))) by (destruct (better_in c3 c4) as [-> | ->]; cbn [fst]; auto).
  assert (D234 : 0 < rd (fst (better c2 (better c3 c4))) /\ 0 <= rn (fst (better c2 (better c3 c4))))
    by (destruct (better_in c2 (better c3 c4)) as [-> | ->]; cbn [fst]; auto).
  assert (D1234 : 0 < rd (fst (better c1 (better c2 (better c3 c4)))) /\ 0 <= rn (fst (better c1 (better c2 (better c3 c4)))))
    by (destruct (better_in c1 (better c2 (better c3 c4))) as [-> | ->]; cbn [fst]; auto).
  destruct D34 as [D34 _], D234 as [D234 _]. destruct D1234 as [D1234 N1234].
  assert (K1' : 0 < rd (fst c1)) by exact K1. assert (K2' : 0 < rd (fst c2)) by exact K2.
  assert (K3' : 0 < rd (fst c3)) by exact K3. assert (K4' : 0 < rd (fst c4)) by exact K4.
  pose proof (better_l c1 (better c2 (better c3 c4))) as A1. pose proof (better_r c1 (better c2 (better c3 c4))) as A2.
  pose proof (better_l c2 (better c3 c4)) as B1. pose proof (better_r c2 (better c3 c4)) as B2.
  pose proof (better_l c3 c4) as C1. pose proof (better_r c3 c4) as C2.
  assert (E2 : rle (fst (better c1 (better c2 (better c3 c4)))) (fst c2) = true).
  { apply (rle_trans _ (fst (better c2 (better c3 c4)))); assumption. }
  assert (E34 : rle (fst (better c1 (better c2 (better c3 c4)))) (fst (better c3 c4)) = true).
  { apply (rle_trans _ (fst (better c2 (better c3 c4)))); assumption. }
  assert (E3 : rle (fst (better c1 (better c2 (better c3 c4)))) (fst c3) = true)
    by (apply (rle_trans _ (fst (better c3 c4))); assumption).
  assert (E4 : rle (fst (better c1 (better c2 (better c3 c4)))) (fst c4) = true)
    by (apply (rle_trans _ (fst (better c3 c4))); assumption).
  exact (conj A1 (conj E2 (conj E3 (conj E4 (conj D1234 N1234))))).
Qed.

(* the value is a lower bound for the squared distance of ANY point a + (n/w)(b-a) of ab and ANY point c + (m/v)(d-c) of cd *)
Theorem dist2_seg_seg_lower : forall a b c d n w m v, 0 < w -> 0 <= n <= w -> 0 < v -> 0 <= m <= v ->
  rle (fst (dist2_seg_seg a b c d)) (hd2 (hlerp a b n w) (hlerp c d m v)) = true.
Proof.
  intros a b c d n w m v Hw Hn Hv Hm.
  destruct (proper_cross a b c d) eqn:Hp.
  - unfold dist2_seg_seg. rewrite Hp. cbn [fst]. apply rle_iff. cbn [rn rd].
    pose proof (hd2_ok (hlerp a b n w) (hlerp c d m v)). lia.
  - destruct (seg_seg_value a b c d Hp) as [V1 [V2 [V3 [V4 [VD VN]]]]].
    set (T := hd2 (hlerp a b n w) (hlerp c d m v)).
    assert (DT : 0 < rd T) by (apply den_PQ; assumption).
    pose proof (pt_seg_ok c a b) as [_ K1]. pose proof (pt_seg_ok d a b) as [_ K2].
    pose proof (pt_seg_ok a c d) as [_ K3]. pose proof (pt_seg_ok b c d) as [_ K4].
    unfold proper_cross in Hp. apply andb_false_iff in Hp. destruct Hp as [Ho | Ho].
    + destruct (half a b c d n w m v Hw Hn Hv Hm Ho) as [H | [H | [H | H]]]; fold T in H.
      * apply (rle_trans _ (fst (dist2_pt_seg c a b))); assumption.
      * apply (rle_trans _ (fst (dist2_pt_seg d a b))); assumption.
      * apply (rle_trans _ (fst (dist2_pt_seg a c d))); assumption.
      * apply (rle_trans _ (fst (dist2_pt_seg b c d))); assumption.
    + destruct (half c d a b m v n w Hv Hm Hw Hn Ho) as [H | [H | [H | H]]];
        rewrite (hd2_sym (hlerp c d m v) (hlerp a b n w)) in H; fold T in H.
      * apply (rle_trans _ (fst (dist2_pt_seg a c d))); assumption.
      * apply (rle_trans _ (fst (dist2_pt_seg b c d))); assumption.
      * apply (rle_trans _ (fst (dist2_pt_seg c a b))); assumption.
      * apply (rle_trans _ (fst (dist2_pt_seg d a b))); assumption.
Qed.

(* ------------------------------------------------------------------ points given by membership (hon) instead of a parameter *)
Lemma hon_w : forall x a b, hon x a b -> 0 < snd x.
Proof. intros [[X Y] W] a b [H _]. exact H. Qed.

(* a point on ab has the same squared distances as the corresponding a + (n/m)(b-a) *)
Lemma hd2_hon_l : forall X Y W a b n m y, 0 < W -> 0 < m -> 0 < snd y ->
  m * X = W * ((m - n) * fst a + n * fst b) -> m * Y = W * ((m - n) * snd a + n * snd b) ->
  req (hd2 (X, Y, W) y) (hd2 (hlerp a b n m) y).
Proof.
  intros X Y W a b n m [[x' y'] w'] HW Hm Hw' E1 E2. unfold hlerp.
  set (Lx := (m - n) * fst a + n * fst b) in *. set (Ly := (m - n) * snd a + n * snd b) in *.
  unfold req, hd2; cbn [rn rd].
  assert (F1 : m * (X * w' - x' * W) = W * (Lx * w' - x' * m)) by (replace (m * (X * w' - x' * W)) with ((m * X) * w' - m * x' * W) by ring; rewrite E1; ring).
  assert (F2 : m * (Y * w' - y' * W) = W * (Ly * w' - y' * m)) by (replace (m * (Y * w' - y' * W)) with ((m * Y) * w' - m * y' * W) by ring; rewrite E2; ring).
  unfold sq.
  replace (((X * w' - x' * W) * (X * w' - x' * W) + (Y * w' - y' * W) * (Y * w' - y' * W)) * (m * w' * (m * w')))
    with (((m * (X * w' - x' * W)) * (m * (X * w' - x' * W)) + (m * (Y * w' - y' * W)) * (m * (Y * w' - y' * W))) * (w' * w')) by ring.
  rewrite F1, F2. ring.
Qed.

Lemma rle_req_r : forall r s t, 0 < rd r -> 0 < rd s -> 0 < rd t -> rle r s = true -> req s t -> rle r t = true.
Proof. intros r s t Hr Hs Ht H E. apply (rle_trans r s t); auto. apply req_rle; exact E. Qed.
Lemma hd2_den : forall p q, 0 < snd p -> 0 < snd q -> 0 < rd (hd2 p q).
Proof. intros [[x y] w] [[x' y'] w'] H1 H2; cbn [snd] in *. unfold hd2; cbn [rd]. apply sq_pos. nia. Qed.

Theorem dist2_seg_seg_lower_on : forall a b c d x y, hon x a b -> hon y c d ->
  rle (fst (dist2_seg_seg a b c d)) (hd2 x y) = true.
Proof.
  intros a b c d [[X Y] W] [[X' Y'] W'] [HW [n [m [Hm [Hn [E1 E2]]]]]] [HW' [n' [m' [Hm' [Hn' [E1' E2']]]]]].
  pose proof (dist2_seg_seg_lower a b c d n m n' m' Hm Hn Hm' Hn') as L.
  assert (DV : 0 < rd (fst (dist2_seg_seg a b c d))).
  { destruct (proper_cross a b c d) eqn:Hp.
    - unfold dist2_seg_seg; rewrite Hp; cbn; lia.
    - apply (seg_seg_value a b c d Hp). }
  (* replace the second point, then the first *)
  assert (Q1 : req (hd2 (hlerp a b n m) (hlerp c d n' m')) (hd2 (hlerp a b n m) (X', Y', W'))).
  { rewrite (hd2_sym (hlerp a b n m) (hlerp c d n' m')), (hd2_sym (hlerp a b n m) (X', Y', W')).
    apply req_sym. apply hd2_hon_l; cbn [snd hlerp]; auto. }
  assert (Q2 : req (hd2 (hlerp a b n m) (X', Y', W')) (hd2 (X, Y, W) (X', Y', W'))).
  { apply req_sym. apply hd2_hon_l; cbn [snd]; auto. }
  apply (rle_req_r _ (hd2 (hlerp a b n m) (X', Y', W'))); try exact Q2; try exact DV; try (apply hd2_den; cbn [snd hlerp]; lia).
  apply (rle_req_r _ (hd2 (hlerp a b n m) (hlerp c d n' m'))); try exact Q1; try exact DV; try exact L; try (apply hd2_den; cbn [snd hlerp]; lia).
Qed.

(* ------------------------------------------------------------------ attained *)
Lemma opposite_cases : forall x y, opposite x y = true -> (0 < x /\ y < 0) \/ (x < 0 /\ 0 < y).
Proof.
  intros x y H. unfold opposite in H. apply orb_true_iff in H. destruct H as [H | H]; apply andb_true_iff in H; rewrite !Z.ltb_lt in H; lia.
Qed.
Lemma orient_diff : forall a b c d, orient a b c - orient a b d = - (orient c d a - orient c d b).
Proof. intros [ax ay] [bx by_] [cx cy] [dx dy]. unfold orient; cbn [fst snd]. ring. Qed.

Lemma cross_pt_on : forall a b c d, proper_cross a b c d = true ->
  hon (cross_pt a b c d) a b /\ hon (cross_pt a b c d) c d.
Proof.
  intros a b c d H. unfold proper_cross in H. apply andb_true_iff in H. destruct H as [H1 H2].
  apply opposite_cases in H1. apply opposite_cases in H2. pose proof (orient_diff a b c d) as OD.
  unfold cross_pt.
  set (o1 := orient a b c) in *. set (o2 := orient a b d) in *. set (o3 := orient c d a) in *. set (o4 := orient c d b) in *.
  destruct (Z.ltb_spec 0 (o3 - o4)) as [HW | HW].
  - split; [apply hon_lerp; lia|].
    unfold hon, hlerp. split; [lia|]. exists (- o1), (o2 - o1). split; [lia|]. split; [lia|].
    subst o1 o2 o3 o4. destruct a as [ax ay], b as [bx by_], c as [cx cy], d as [dx dy]. unfold orient in *; cbn [fst snd] in *. split; ring.
  - split; [apply hon_lerp; lia|].
    unfold hon, hlerp. split; [lia|]. exists o1, (o1 - o2). split; [lia|]. split; [lia|].
    subst o1 o2 o3 o4. destruct a as [ax ay], b as [bx by_], c as [cx cy], d as [dx dy]. unfold orient in *; cbn [fst snd] in *. split; ring.
Qed.

Lemma hd2_self : forall x, rn (hd2 x x) = 0.
Proof. intros [[X Y] W]. unfold hd2, sq; cbn [rn]. ring. Qed.

Theorem dist2_seg_seg_attained : forall a b c d,
  let v := fst (dist2_seg_seg a b c d) in let x := fst (snd (dist2_seg_seg a b c d)) in let y := snd (snd (dist2_seg_seg a b c d)) in
  rat_ok v /\ hon x a b /\ hon y c d /\ req (hd2 x y) v.
Proof.
  intros a b c d. cbv zeta. destruct (proper_cross a b c d) eqn:Hp.
  - unfold dist2_seg_seg. rewrite Hp. cbn [fst snd]. destruct (cross_pt_on a b c d Hp) as [O1 O2].
    split; [split; cbn; lia|]. split; [exact O1|]. split; [exact O2|].
    unfold req. rewrite hd2_self. cbn [rn rd]. ring.
  - destruct (seg_seg_value a b c d Hp) as [_ [_ [_ [_ [VD VN]]]]].
    split; [split; assumption|]. clear VD VN.
    unfold dist2_seg_seg. rewrite Hp. cbv zeta.
    set (c1 := (fst (dist2_pt_seg c a b), (snd (dist2_pt_seg c a b), hp c))).
    set (c2 := (fst (dist2_pt_seg d a b), (snd (dist2_pt_seg d a b), hp d))).
    set (c3 := (fst (dist2_pt_seg a c d), (hp a, snd (dist2_pt_seg a c d)))).
    set (c4 := (fst (dist2_pt_seg b c d), (hp b, snd (dist2_pt_seg b c d)))).
    assert (G : forall r, r = c1 \/ r = c2 \/ r = c3 \/ r = c4 -> hon (fst (snd r)) a b /\ hon (snd (snd r)) c d /\ req (hd2 (fst (snd r)) (snd (snd r))) (fst r)).
    { intros r [-> | [-> | [-> | ->]]]; cbn [fst snd].
      - split; [apply pt_seg_on|]. split; [apply hon_left|]. rewrite hd2_sym. apply pt_seg_att.
      - split; [apply pt_seg_on|]. split; [apply hon_right|]. rewrite hd2_sym. apply pt_seg_att.
      - split; [apply hon_left|]. split; [apply pt_seg_on|]. apply pt_seg_att.
      - split; [apply hon_right|]. split; [apply pt_seg_on|]. apply pt_seg_att. }
    apply G.
    destruct (better_in c1 (better c2 (better c3 c4))) as [-> | ->]; [auto|].
    destruct (better_in c2 (better c3 c4)) as [-> | ->]; [auto|].
    destruct (better_in c3 c4) as [-> | ->]; auto.
Qed.

(* ------------------------------------------------------------------ symmetry, zero *)
Theorem dist2_seg_seg_sym : forall a b c d, req (fst (dist2_seg_seg a b c d)) (fst (dist2_seg_seg c d a b)).
Proof.
  intros a b c d.
  destruct (dist2_seg_seg_attained a b c d) as [[N1 D1] [O1 [O1' A1]]].
  destruct (dist2_seg_seg_attained c d a b) as [[N2 D2] [O2 [O2' A2]]].
  pose proof (dist2_seg_seg_lower_on a b c d _ _ O2' O2) as L1. rewrite hd2_sym in L1.
  pose proof (dist2_seg_seg_lower_on c d a b _ _ O1' O1) as L2. rewrite hd2_sym in L2.
  apply rle_antisym.
  - apply (rle_req_r _ _ _ D1 (hd2_den _ _ (hon_w _ _ _ O2) (hon_w _ _ _ O2')) D2 L1 A2).
  - apply (rle_req_r _ _ _ D2 (hd2_den _ _ (hon_w _ _ _ O1) (hon_w _ _ _ O1')) D1 L2 A1).
Qed.

(* equality of rational points *)
Definition heq (x y : hpt) : Prop :=
  let '(X, Y, W) := x in let '(X', Y', W') := y in X * W' = X' * W /\ Y * W' = Y' * W.
Lemma hd2_zero : forall x y, rn (hd2 x y) = 0 -> heq x y.
Proof.
  intros [[X Y] W] [[X' Y'] W'] H. unfold hd2 in H; cbn [rn] in H. unfold heq.
  pose proof (sq_nonneg (X * W' - X' * W)) as S1. pose proof (sq_nonneg (Y * W' - Y' * W)) as S2.
  assert (E1 : sq (X * W' - X' * W) = 0) by lia. assert (E2 : sq (Y * W' - Y' * W) = 0) by lia.
  unfold sq in E1, E2. apply Z.mul_eq_0 in E1. apply Z.mul_eq_0 in E2. lia.
Qed.
Lemma hon_heq : forall x y a b, heq x y -> 0 < snd x -> 0 < snd y -> hon x a b -> hon y a b.
Proof.
  intros [[X Y] W] [[X' Y'] W'] a b [E1 E2] HW HW' [_ [n [m [Hm [Hn [F1 F2]]]]]]. cbn [snd] in *.
  unfold hon. split; [exact HW'|]. exists n, m. split; [exact Hm|]. split; [exact Hn|].
  set (Lx := (m - n) * fst a + n * fst b) in *. set (Ly := (m - n) * snd a + n * snd b) in *.
  split.
  - apply (Z.mul_reg_l _ _ W); [lia|].
    replace (W * (m * X')) with (m * (X' * W)) by ring. rewrite <- E1.
    replace (m * (X * W')) with ((m * X) * W') by ring. rewrite F1. ring.
  - apply (Z.mul_reg_l _ _ W); [lia|].
    replace (W * (m * Y')) with (m * (Y' * W)) by ring. rewrite <- E2.
    replace (m * (Y * W')) with ((m * Y) * W') by ring. rewrite F2. ring.
Qed.

(* the model distance of two segments is 0 exactly when they have a point in common *)
Theorem dist2_seg_seg_zero_iff : forall a b c d,
  rn (fst (dist2_seg_seg a b c d)) = 0 <-> exists x, hon x a b /\ hon x c d.
Proof.
  intros a b c d. split.
  - intro H0. destruct (dist2_seg_seg_attained a b c d) as [[N1 D1] [O1 [O1' A1]]].
    exists (snd (snd (dist2_seg_seg a b c d))). split; [|exact O1'].
    unfold req in A1. rewrite H0 in A1.
    assert (Z0' : rn (hd2 (fst (snd (dist2_seg_seg a b c d))) (snd (snd (dist2_seg_seg a b c d)))) = 0) by nia.
    apply (hon_heq _ _ a b (hd2_zero _ _ Z0') (hon_w _ _ _ O1) (hon_w _ _ _ O1') O1).
  - intros [x [O1 O2]].
    pose proof (dist2_seg_seg_lower_on a b c d x x O1 O2) as L. apply rle_iff in L. rewrite hd2_self in L.
    destruct (dist2_seg_seg_attained a b c d) as [[N1 D1] _].
    pose proof (hd2_den x x (hon_w _ _ _ O1) (hon_w _ _ _ O1)). nia.
Qed.
