(* C11 — property theorems only. Each is closed by `exact <lemma>` and followed by Print Assumptions; Examples show the
   statements are not vacuous and exhibit the findings (F14: undefined behaviour on an empty compound-curve section;
   F2: depth, allocation and setSRID work grow with the nesting depth, which nothing bounds on the unchanged tree). *)
From Coq Require Import ZArith List Bool Ascii String Lia.
From GeosV.C11 Require Import WKBDefs WKBProofs WKTDefs WKTProofs GenTie GenPreludeWKB.
From GeosV.Gen Require Import C11_minMemSize C11_limits.
Import ListNotations.
Local Open Scope Z_scope.

(* ================================================================= WKB / HEX reader *)

(* read_total / fuel_sufficient: on every byte string the reader model terminates with a result; fuel |input|+1 is never exhausted *)
Theorem C11_wkb_read_total : forall c input, bytes_ok input -> wkb_read c input <> Fuel.
Proof. exact fuel_sufficient. Qed.
Print Assumptions C11_wkb_read_total.

(* read_in_bounds: every bounds check is made on the counter `end - buf` and every read on the bytes themselves; no read is
   ever outside the input (outcome EOob), and the stream position never passes the end *)
Theorem C11_wkb_read_in_bounds : forall c input, bytes_ok input ->
  (forall t, wkb_read c input <> Err EOob t) /\
  (forall t, final_stats (wkb_read c input) = Some t -> 0 <= pos t <= Z.of_nat (List.length input)).
Proof. exact read_in_bounds. Qed.
Print Assumptions C11_wkb_read_in_bounds.

(* alloc_linear (coordinates) + what is true of the vector slots and of GeometryCollection::setSRID + depth_bound:
     coordinates allocated   <= |input| / 16        (minMemSize is checked before every allocation)
     vector slots allocated  <= |input| * depth / 4  — NOT linear: every nested count is validated against the same bytes
     nodes                   <= |input| / 5
     setSRID visits          <= 2 * nodes * depth    — NOT linear
     depth                   <= |input| / 9 + 1      — linear in the input: no stack bound can be promised without a limit *)
Theorem C11_wkb_accounting : forall c input, bytes_ok input -> forall t, final_stats (wkb_read c input) = Some t ->
  16 * coords t <= Z.of_nat (List.length input) /\
  4 * slots t <= Z.of_nat (List.length input) * dmax t /\
  5 * nodes t <= Z.of_nat (List.length input) /\
  quad t <= 2 * nodes t * dmax t /\
  1 <= dmax t /\ 9 * (dmax t - 1) <= Z.of_nat (List.length input) /\
  0 <= coords t /\ 0 <= slots t /\ 0 <= nodes t /\ 0 <= quad t.
Proof. exact accounting. Qed.
Print Assumptions C11_wkb_accounting.

(* with the nesting limit m of the candidate fix: depth <= m + 1, and slots and setSRID work become linear in |input| *)
Theorem C11_wkb_depth_limited : forall c input, bytes_ok input -> forall m t, max_depth c = Some m -> 0 <= m ->
  final_stats (wkb_read c input) = Some t ->
  dmax t <= m + 1 /\ 4 * slots t <= Z.of_nat (List.length input) * (m + 1) /\ 5 * quad t <= 2 * Z.of_nat (List.length input) * (m + 1).
Proof. exact depth_limited. Qed.
Print Assumptions C11_wkb_depth_limited.

(* ctor_guards: with the empty-section guard of the candidate fix no input makes a constructor index an empty sequence *)
Theorem C11_wkb_ctor_guards : forall c input, bytes_ok input -> cc_guard c = true -> forall t, wkb_read c input <> Err EUB t.
Proof. exact ctor_guards. Qed.
Print Assumptions C11_wkb_ctor_guards.

(* ---- the readers as they are in the source now: Gen/C11_limits.v is rewritten on every run from the headers and sources ---- *)
(* fx = the reader option fix-structure: the theorems about the current source hold for both settings *)
Definition cfg_wkb_current (fx : bool) : cfg := mkCfg wkb_max_nesting compound_guard fx.
Definition cfg_wkt_current (fx : bool) : cfg := mkCfg wkt_max_nesting compound_guard fx.

(* depth_bound, re-proved against the limit read from the source: the WKB reader has a nesting limit m (0 <= m <= 1000), no run
   of the model enters more than m + 1 frames, and vector slots and setSRID visits are linear in |input| with the constant m + 1 *)
Theorem C11_wkb_depth_bound : exists m, wkb_max_nesting = Some m /\ 0 <= m <= 1000 /\
  forall fx input, bytes_ok input -> forall t, final_stats (wkb_read (cfg_wkb_current fx) input) = Some t ->
    dmax t <= m + 1 /\ 4 * slots t <= Z.of_nat (List.length input) * (m + 1) /\ 5 * quad t <= 2 * Z.of_nat (List.length input) * (m + 1).
Proof.
  eexists. split; [reflexivity|]. split; [lia|]. intros fx input BI t H.
  apply (depth_limited (cfg_wkb_current fx) input BI _ t); [reflexivity|lia|exact H].
Qed.
Print Assumptions C11_wkb_depth_bound.

(* ctor_guards for the current source: the compound-curve guard is there, so no input reaches undefined behaviour *)
Theorem C11_wkb_no_ub : compound_guard = true /\ forall fx input, bytes_ok input -> forall t, wkb_read (cfg_wkb_current fx) input <> Err EUB t.
Proof. split; [reflexivity|]. intros fx input BI t. apply (ctor_guards (cfg_wkb_current fx) input BI). reflexivity. Qed.
Print Assumptions C11_wkb_no_ub.

(* tie G: the translated WKBReader::minMemSize is the model's pre-allocation check *)
Theorem C11_minMemSize_tie : forall r tid n, gen_minMemSize (Some r) tid n = if r <? n * mm_mult tid then None else Some r.
Proof. exact gen_minMemSize_eq. Qed.
Print Assumptions C11_minMemSize_tie.

(* ---- witnesses ---- *)
Definition u32le (v : Z) : list Z := [v mod 256; (v / 256) mod 256; (v / 65536) mod 256; (v / 16777216) mod 256].
Definition hdr (code n : Z) : list Z := 1 :: u32le code ++ u32le n.
Fixpoint chain (code : Z) (count : nat -> Z) (n : nat) (tail : list Z) : list Z :=
  match n with O => tail | S k => hdr code (count n) ++ chain code count k tail end.
Definition f64 (hi : Z) : list Z := [0; 0; 0; 0; 0; 0; hi mod 256; hi / 256].       (* 0, 1.0 = 0x3FF0.. *)

(* compound_empty_section (F14): COMPOUNDCURVE(LINESTRING EMPTY, (0 0, 1 1)), 59 bytes *)
Definition f14_wkb : list Z :=
  hdr 9 2 ++ hdr 2 0 ++ hdr 2 2 ++ f64 0 ++ f64 0 ++ f64 16368 ++ f64 16368.
Example C11_compound_empty_section_refuted :
  List.length f14_wkb = 59%nat /\ bytes_ok f14_wkb /\
  (exists t, wkb_read cfg_unchanged f14_wkb = Err EUB t) /\
  (exists t, wkb_read (mkCfg None true false) f14_wkb = Err ECtor t).
Proof.
  split; [reflexivity|]. split; [apply bytes_okb_ok; vm_compute; reflexivity|].
  split; eexists; vm_compute; reflexivity.
Qed.

(* a valid input is accepted, with the expected accounting (non-vacuity of the theorems above) *)
Definition ex_coll : list Z := hdr 7 2 ++ (hdr 1 0 (* POINT: the "count" word is really X's first half *) ) ++ [0;0;0;0; 0;0;0;0; 0;0;0;0]
                               ++ hdr 2 2 ++ f64 0 ++ f64 0 ++ f64 16368 ++ f64 16368.
Example ex_coll_read : final_stats (wkb_read cfg_unchanged ex_coll) = Some (mkStats 71 3 2 3 2 10) /\ bytes_ok ex_coll.
Proof. split; [vm_compute; reflexivity|apply bytes_okb_ok; vm_compute; reflexivity]. Qed.

(* depth_bound is tight: n + 1 nested collection headers (9 (n + 1) bytes) reach depth n + 1 and are accepted *)
Example C11_depth_tight :
  let input := chain 7 (fun _ => 1) 40 (hdr 7 0) in
  List.length input = 369%nat /\ option_map dmax (final_stats (wkb_read cfg_unchanged input)) = Some 41 /\
  (exists g s, wkb_read cfg_unchanged input = Ok g s).
Proof. split; [vm_compute; reflexivity|]. split; [vm_compute; reflexivity|]. do 2 eexists. vm_compute. reflexivity. Qed.

(* alloc is NOT linear (F2): each of n nested headers claims all the children the remaining bytes allow; the slots allocated
   before the reader fails are about |input|^2 / 162.  Doubling the input quadruples the allocation. *)
Definition inflated (n : nat) : list Z := chain 7 (fun k => Z.of_nat k - 1) n (hdr 7 0).
Example C11_alloc_not_linear :
  (List.length (inflated 60), option_map slots (final_stats (wkb_read cfg_unchanged (inflated 60)))) = (549%nat, Some 1770) /\
  (List.length (inflated 120), option_map slots (final_stats (wkb_read cfg_unchanged (inflated 120)))) = (1089%nat, Some 7140) /\
  (List.length (inflated 240), option_map slots (final_stats (wkb_read cfg_unchanged (inflated 240)))) = (2169%nat, Some 28680).
Proof. repeat split; vm_compute; reflexivity. Qed.
(* ... and so is the work of GeometryCollection::setSRID on an accepted chain *)
Example C11_setsrid_work_not_linear :
  let w n := option_map quad (final_stats (wkb_read cfg_unchanged (chain 7 (fun _ => 1) n (hdr 7 0)))) in
  (w 50%nat, w 100%nat, w 200%nat) = (Some 2652, Some 10302, Some 40602).
Proof. vm_compute. reflexivity. Qed.
(* with the nesting limit the same inputs are cut off at depth m + 1 *)
Example C11_limit_cuts :
  option_map dmax (final_stats (wkb_read (mkCfg (Some 20) true false) (inflated 240))) = Some 21.
Proof. vm_compute. reflexivity. Qed.


(* the reader option fix-structure: an open ring is closed (one point appended), a ring of ZERO points is left alone and accepted
   (closeRing must not index an empty sequence), in WKB ... *)
Definition cfg_fix : cfg := mkCfg None true true.
Definition ring_counts (g : geom) : list Z := match g with GPoly l => map cn l | GLine q => [cn q] | _ => [] end.
Definition wkb_rings (r : res (geom * Z)) : option (list Z) := match r with Ok (g, _) _ => Some (ring_counts g) | _ => None end.
Definition wkt_rings (r : wres (geom * Z)) : option (list Z) := match r with WOk (g, _) _ => Some (ring_counts g) | _ => None end.
Definition open_ring_wkb : list Z := hdr 3 1 ++ u32le 3 ++ f64 0 ++ f64 0 ++ f64 16368 ++ f64 0 ++ f64 16368 ++ f64 16368.
Definition empty_ring_wkb : list Z := hdr 3 1 ++ u32le 0.       (* 01 03000000 01000000 00000000 *)
Example C11_fix_structure_wkb :
  (exists t, wkb_read (mkCfg None true false) open_ring_wkb = Err ECtor t) /\
  wkb_rings (wkb_read cfg_fix open_ring_wkb) = Some [4] /\
  wkb_rings (wkb_read cfg_fix empty_ring_wkb) = Some [0] /\
  wkb_rings (wkb_read (mkCfg None true false) empty_ring_wkb) = Some [0].
Proof. split; [eexists; vm_compute; reflexivity|]. repeat split; vm_compute; reflexivity. Qed.

(* ================================================================= WKT reader *)

Theorem C11_wkt_read_total : forall numval c input, wkt_read numval c input <> WFuel.
Proof. exact wkt_fuel_sufficient. Qed.
Print Assumptions C11_wkt_read_total.

Theorem C11_wkt_read_in_bounds : forall numval c input t, wfinal_stats (wkt_read numval c input) = Some t ->
  0 <= wpos t <= Z.of_nat (List.length input).
Proof. exact wkt_in_bounds. Qed.
Print Assumptions C11_wkt_read_in_bounds.

(* tokens <= |input| + 1; coordinates <= tokens / 2; elements, nodes <= tokens; depth <= tokens + 1 (linear: no stack bound);
   setSRID visits <= nodes * (depth + 1) (not linear) *)
Theorem C11_wkt_accounting : forall numval c input t, wfinal_stats (wkt_read numval c input) = Some t ->
  wtoks t <= Z.of_nat (List.length input) + 1 /\ 2 * wcoords t <= wtoks t /\ welems t <= wtoks t /\ wnodes t <= wtoks t /\
  wquad t <= wnodes t * (wdmax t + 1) /\ wdmax t <= wtoks t + 1 /\
  0 <= wcoords t /\ 0 <= welems t /\ 0 <= wnodes t /\ 0 <= wquad t /\ 0 <= wdmax t.
Proof. exact wkt_accounting. Qed.
Print Assumptions C11_wkt_accounting.

Theorem C11_wkt_depth_limited : forall numval c input m t, max_depth c = Some m -> 0 <= m ->
  wfinal_stats (wkt_read numval c input) = Some t -> wdmax t <= m + 1.
Proof. exact wkt_depth_limited. Qed.
Print Assumptions C11_wkt_depth_limited.

Theorem C11_wkt_ctor_guards : forall numval c input, cc_guard c = true -> forall t, wkt_read numval c input <> WErr EUB t.
Proof. exact wkt_ctor_guards. Qed.
Print Assumptions C11_wkt_ctor_guards.

Theorem C11_wkt_depth_bound : exists m, wkt_max_nesting = Some m /\ 0 <= m <= 1000 /\
  forall numval fx input t, wfinal_stats (wkt_read numval (cfg_wkt_current fx) input) = Some t -> wdmax t <= m + 1.
Proof.
  eexists. split; [reflexivity|]. split; [lia|]. intros numval fx input t H.
  apply (wkt_depth_limited numval (cfg_wkt_current fx) input _ t); [reflexivity|lia|exact H].
Qed.
Print Assumptions C11_wkt_depth_bound.
Theorem C11_wkt_no_ub : forall numval fx input t, wkt_read numval (cfg_wkt_current fx) input <> WErr EUB t.
Proof. intros numval fx input t. apply (wkt_ctor_guards numval (cfg_wkt_current fx) input). reflexivity. Qed.
Print Assumptions C11_wkt_no_ub.

(* ---- witnesses (numval: a toy strtod for the digits 0..9, enough for the examples) ---- *)
Definition toy_numval (w : list ascii) : Z :=
  match w with
  | [ch] => if Ascii.eqb ch "0" then 0 else if Ascii.eqb ch "1" then 4607182418800017408 else 4611686018427387904
  | _ => 4611686018427387904
  end.
Definition txt (s : string) : list ascii := list_ascii_of_string s.
Example C11_wkt_compound_empty_section_refuted :
  (exists t, wkt_read toy_numval cfg_unchanged (txt "COMPOUNDCURVE(EMPTY,(0 0,1 1))") = WErr EUB t) /\
  (exists t, wkt_read toy_numval (mkCfg None true false) (txt "COMPOUNDCURVE(EMPTY,(0 0,1 1))") = WErr ECtor t).
Proof. split; eexists; vm_compute; reflexivity. Qed.
Example ex_wkt_read :
  wfinal_stats (wkt_read toy_numval cfg_unchanged (txt "GEOMETRYCOLLECTION Z (POINT Z(1 1 0), MULTICURVE Z ((0 0 0,1 1 1), CIRCULARSTRING Z EMPTY))"))
  = Some (mkWS 91 29 3 4 5 3 11).
Proof. vm_compute. reflexivity. Qed.
Fixpoint nest (n : nat) (inner : string) : string :=
  match n with O => inner | S k => ("MULTICURVE(" ++ nest k inner ++ ")")%string end.
Example C11_wkt_depth_linear :
  option_map wdmax (wfinal_stats (wkt_read toy_numval cfg_unchanged (txt (nest 30 "(0 0,1 1)")))) = Some 30 /\
  option_map wdmax (wfinal_stats (wkt_read toy_numval (mkCfg (Some 10) true false) (txt (nest 30 "(0 0,1 1)")))) = Some 11.
Proof. split; vm_compute; reflexivity. Qed.
(* ... and in WKT *)
Example C11_fix_structure_wkt :
  (exists t, wkt_read toy_numval (mkCfg None true false) (txt "POLYGON((0 0,1 0,1 1))") = WErr ECtor t) /\
  wkt_rings (wkt_read toy_numval cfg_fix (txt "POLYGON((0 0,1 0,1 1))")) = Some [4] /\
  wkt_rings (wkt_read toy_numval cfg_fix (txt "POLYGON(EMPTY)")) = Some [0] /\
  wkt_rings (wkt_read toy_numval cfg_fix (txt "LINEARRING EMPTY")) = Some [0].
Proof. split; [eexists; vm_compute; reflexivity|]. repeat split; vm_compute; reflexivity. Qed.
