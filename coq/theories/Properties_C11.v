(* C11 — property theorems (placeholder while the proofs are being written) *)
From Coq Require Import ZArith List.
From GeosV.C11 Require Import WKBDefs WKTDefs.
Import ListNotations.
Local Open Scope Z_scope.
Example ex_point : final_stats (wkb_read cfg_unchanged [1;1;0;0;0; 0;0;0;0;0;0;240;63; 0;0;0;0;0;0;240;63]) = Some (mkStats 21 1 0 1 1 2).
Proof. vm_compute. reflexivity. Qed.
