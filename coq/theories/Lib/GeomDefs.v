(* Lib/GeomDefs — the geometry tree over exact integer coordinates (grid units).  Definitions only, stdlib only, no proofs.

   A coordinate is a pair of integers: the properties that use this library speak of grid inputs (every ordinate an integer
   multiple of one common power of two), and multiplying all ordinates by that power of two changes no predicate below.
   Non-finite ordinates are not representable here; the checks pass them as explicit markers beside the geometry.

   Empties: `GPoint None`, `GLine []`, `GRing []`, `GPoly [] []`, and the empty lists of the multi types.
   A polygon is (shell, holes); Multi* hold their elements' data directly (so a MultiPolygon cannot contain a line). *)
From Coq Require Import ZArith List Bool.
Import ListNotations.
Local Open Scope Z_scope.

Definition pt := (Z * Z)%type.
Definition seq := list pt.                     (* a coordinate sequence *)
Definition poly := (seq * list seq)%type.      (* shell, holes *)

Inductive geom :=
| GPoint (p : option pt)
| GLine (l : seq)
| GRing (l : seq)
| GPoly (shell : seq) (holes : list seq)
| GMPoint (ps : list (option pt))
| GMLine (ls : list seq)
| GMPoly (ps : list poly)
| GColl (gs : list geom).

Definition pt_eqb (a b : pt) : bool := (fst a =? fst b) && (snd a =? snd b).

(* ---- coordinate-wise maps ---- *)
Definition map_poly (f : pt -> pt) (p : poly) : poly := (map f (fst p), map (map f) (snd p)).
Fixpoint map_geom (f : pt -> pt) (g : geom) : geom :=
  match g with
  | GPoint p => GPoint (option_map f p)
  | GLine l => GLine (map f l)
  | GRing l => GRing (map f l)
  | GPoly s hs => GPoly (map f s) (map (map f) hs)
  | GMPoint ps => GMPoint (map (option_map f) ps)
  | GMLine ls => GMLine (map (map f) ls)
  | GMPoly ps => GMPoly (map (map_poly f) ps)
  | GColl gs => GColl (map (map_geom f) gs)
  end.

Definition translate (d : pt) (a : pt) : pt := (fst a + fst d, snd a + snd d).
Definition reflect_x (a : pt) : pt := (- fst a, snd a).
Definition reflect_y (a : pt) : pt := (fst a, - snd a).
Definition swap_xy (a : pt) : pt := (snd a, fst a).
Definition scale_pt (k : Z) (a : pt) : pt := (k * fst a, k * snd a).

(* ---- flattening by dimension (collections are flattened recursively) ---- *)
Definition opt_list {A} (o : option A) : list A := match o with Some a => [a] | None => [] end.
Fixpoint points_of (g : geom) : list pt :=
  match g with
  | GPoint p => opt_list p
  | GMPoint ps => flat_map opt_list ps
  | GColl gs => flat_map points_of gs
  | _ => []
  end.
Fixpoint lines_of (g : geom) : list seq :=
  match g with
  | GLine l => [l]
  | GRing l => [l]
  | GMLine ls => ls
  | GColl gs => flat_map lines_of gs
  | _ => []
  end.
Fixpoint polys_of (g : geom) : list poly :=
  match g with
  | GPoly s hs => [(s, hs)]
  | GMPoly ps => ps
  | GColl gs => flat_map polys_of gs
  | _ => []
  end.

Definition poly_rings (p : poly) : list seq := fst p :: snd p.
Definition poly_is_empty (p : poly) : bool := match fst p with [] => true | _ => false end.   (* Polygon::isEmpty = shell->isEmpty *)

(* all coordinates, in storage order *)
Fixpoint coords_of (g : geom) : list pt :=
  match g with
  | GPoint p => opt_list p
  | GLine l => l
  | GRing l => l
  | GPoly s hs => s ++ concat hs
  | GMPoint ps => flat_map opt_list ps
  | GMLine ls => concat ls
  | GMPoly ps => flat_map (fun p => fst p ++ concat (snd p)) ps
  | GColl gs => flat_map coords_of gs
  end.

(* Geometry::isEmpty *)
Fixpoint is_empty (g : geom) : bool :=
  match g with
  | GPoint p => match p with None => true | _ => false end
  | GLine l => match l with [] => true | _ => false end
  | GRing l => match l with [] => true | _ => false end
  | GPoly s _ => match s with [] => true | _ => false end
  | GMPoint ps => forallb (fun p => match p with None => true | _ => false end) ps
  | GMLine ls => forallb (fun l => match l with [] => true | _ => false end) ls
  | GMPoly ps => forallb poly_is_empty ps
  | GColl gs => forallb is_empty gs
  end.

(* topological dimension of the type: 0, 1, 2; collections take the maximum (-1 for an empty collection) *)
Fixpoint dimension (g : geom) : Z :=
  match g with
  | GPoint _ | GMPoint _ => 0
  | GLine _ | GRing _ | GMLine _ => 1
  | GPoly _ _ | GMPoly _ => 2
  | GColl gs => fold_right (fun h acc => Z.max (dimension h) acc) (-1) gs
  end.

(* ---- sequences ---- *)
(* CoordinateSequence without repeated consecutive points (RepeatedPointRemover::removeRepeatedPoints) *)
Fixpoint dedup (l : seq) : seq :=
  match l with
  | a :: t => match t with
              | b :: _ => if pt_eqb a b then dedup t else a :: dedup t
              | [] => l
              end
  | [] => []
  end.
(* consecutive segments *)
Fixpoint segs (l : seq) : list (pt * pt) :=
  match l with
  | a :: t => match t with b :: _ => (a, b) :: segs t | [] => [] end
  | [] => []
  end.
(* LineString::isClosed for a non-empty sequence; the empty sequence counts as closed (LinearRing::isClosed) *)
Definition closed (l : seq) : bool := match l with [] => true | a :: _ => pt_eqb a (last l a) end.

(* ring rotation: a closed ring v0 v1 … v(n-1) v0 restarted at v_k; and reversal *)
Definition rotate_ring (k : nat) (r : seq) : seq :=
  match r with
  | [] => []
  | _ => let c := removelast r in
         match skipn k c ++ firstn k c with
         | [] => r
         | h :: t => (h :: t) ++ [h]
         end
  end.
Definition reverse_ring (r : seq) : seq := rev r.
