(* Meaning of the primitive names in the generated RelateNG::hasRequiredEnvelopeInteraction (Gen/RNG_hasRequiredEnvelopeInteraction).
   Representation boundary: the RelateNG object is the envelope of its geometry A; the argument geometry b is its envelope;
   the predicate object is the pair of its two configuration virtuals. Envelope::covers / intersects are those of
   Lib/GenPreludePred.v (proved equal to the generated Envelope units in C01/EnvGen.v). *)
From Coq Require Import ZArith Bool.
From GeosV.Lib Require Export GenPreludePred.
Record rng := mkRng { f_geomA : envl }.
Record pvt := mkPvt { pv_reqCovers : bool -> bool; pv_reqInteraction : bool }.
Definition m_getEnvelopeInternal_0 (b : envl) : envl := b.
Definition m_getEnvelope_0 (e : envl) : envl := e.
Definition m_requireCovers_1 (p : pvt) (isA : bool) : bool := pv_reqCovers p isA.
Definition m_requireInteraction_0 (p : pvt) : bool := pv_reqInteraction p.
