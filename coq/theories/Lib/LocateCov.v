(* Lib/LocateCov — the point set of a geometry moves with the geometry: loc_dim rule (map_geom T g) (T p) = loc_dim rule g p
   for translation, reflection in either axis and axis swap (all four boundary-node rules). *)
From Coq Require Import ZArith List Bool Lia.
From GeosV.Lib Require Import GeomDefs LocateDefs Geom Locate.
Import ListNotations.
Local Open Scope Z_scope.

Section LocCov.
  Variable T : pt -> pt.
  Hypothesis Hinj : forall a b, pt_eqb (T a) (T b) = pt_eqb a b.
  Hypothesis Hring : forall p r, in_ring (T p) (map T r) = in_ring p r.
  Hypothesis Hpath : forall p r, on_path (T p) (map T r) = on_path p r.

  Lemma loc_poly_cov : forall p a, loc_poly (T p) (map_poly T a) = loc_poly p a.
  Proof.
    intros p [s hs]. unfold loc_poly, poly_rings, map_poly. cbn [fst snd].
    change (map T s :: map (map T) hs) with (map (map T) (s :: hs)).
    rewrite (existsb_map_comm (map T) _ (on_path p)) by (intros; apply Hpath).
    rewrite Hring. rewrite (existsb_map_comm (map T) _ (fun h => location_eqb (in_ring p h) Interior)) by (intros; rewrite Hring; reflexivity).
    reflexivity.
  Qed.
  Lemma end_count_cov : forall p ls, end_count (T p) (map (map T) ls) = end_count p ls.
  Proof.
    intros p ls. unfold end_count. induction ls as [|l ls IH]; [reflexivity|]. cbn [map fold_right]. rewrite IH.
    destruct l as [|a l]; [reflexivity|]. cbn [map]. change (T a :: map T l) with (map T (a :: l)).
    rewrite last_map, !Hinj. reflexivity.
  Qed.
  Lemma loc_lines_cov : forall rule p ls, loc_lines rule (T p) (map (map T) ls) = loc_lines rule p ls.
  Proof.
    intros. unfold loc_lines. rewrite end_count_cov. rewrite (existsb_map_comm (map T) _ (on_path p)) by (intros; apply Hpath). reflexivity.
  Qed.
  Theorem loc_dim_cov : forall rule g p, loc_dim rule (map_geom T g) (T p) = loc_dim rule g p.
  Proof.
    intros. unfold loc_dim. rewrite polys_of_map, lines_of_map, points_of_map.
    rewrite (existsb_map_comm (map_poly T) _ (fun a => location_eqb (loc_poly p a) Interior)) by (intros; rewrite loc_poly_cov; reflexivity).
    rewrite (existsb_map_comm (map_poly T) _ (fun a => location_eqb (loc_poly p a) Boundary)) by (intros; rewrite loc_poly_cov; reflexivity).
    rewrite loc_lines_cov. rewrite (existsb_map_comm T _ (pt_eqb p)) by (intros; apply Hinj). reflexivity.
  Qed.
End LocCov.

Theorem loc_dim_translate : forall d rule g p, loc_dim rule (map_geom (translate d) g) (translate d p) = loc_dim rule g p.
Proof.
  intros d. apply loc_dim_cov; [apply pt_eqb_translate | apply in_ring_translate |].
  intros. apply (on_path_cov (translate d)); [apply on_seg_translate | apply pt_eqb_translate].
Qed.
Theorem loc_dim_reflect_x : forall rule g p, loc_dim rule (map_geom reflect_x g) (reflect_x p) = loc_dim rule g p.
Proof.
  apply loc_dim_cov; [apply pt_eqb_reflect_x | apply in_ring_reflect_x |].
  intros. apply (on_path_cov reflect_x); [apply on_seg_reflect_x | apply pt_eqb_reflect_x].
Qed.
Theorem loc_dim_reflect_y : forall rule g p, loc_dim rule (map_geom reflect_y g) (reflect_y p) = loc_dim rule g p.
Proof.
  apply loc_dim_cov; [apply pt_eqb_reflect_y | apply in_ring_reflect_y |].
  intros. apply (on_path_cov reflect_y); [apply on_seg_reflect_y | apply pt_eqb_reflect_y].
Qed.
Theorem loc_dim_swap_xy : forall rule g p, loc_dim rule (map_geom swap_xy g) (swap_xy p) = loc_dim rule g p.
Proof.
  apply loc_dim_cov; [apply pt_eqb_swap | apply in_ring_swap |].
  intros. apply (on_path_cov swap_xy); [apply on_seg_swap | apply pt_eqb_swap].
Qed.
