(* Lib/ValidDefs — "a valid geometry" and "a simple geometry" (OGC SFS / JTS rules) decided on exact integer coordinates.
   Definitions only, stdlib only, no proofs (lemmas: Lib/Valid.v).  One function per rule; each rule returns its *violation
   set*, a list of exact locations (homogeneous points) at which the rule is broken; a geometry is valid iff every set is empty.

   Interfaces:   valid_geom : geom -> bool                              (OGC rules)
                 valid_flag : bool -> geom -> bool                      (true = self-touching rings forming holes allowed)
                 valid_detail : bool -> geom -> option (rule * list hpt)  (first broken rule in the order below, with its set)
                 violations : bool -> geom -> list (rule * list hpt)    (every rule with its set)
                 simple_geom : geom -> bool,  nonsimple_pts,  is_ring : geom -> bool

   The rules (numbers are the TopologyValidationError codes the implementation reports):
     10 RInvalidCoordinate      non-finite ordinate — not representable over Z: an input flag (valid_input)
     11 RRingNotClosed          a non-empty ring whose first and last points differ
      9 RTooFewPoints           ring with fewer than 4, line with fewer than 2 points, repeated consecutive points counted once
      5 RSelfIntersection       two segments of the rings of a polygonal geometry cross in their interiors, or share more than
                                a point, or two rings (or two passes of one ring) cross at a point where they touch
      6 RRingSelfIntersection   two non-adjacent segments of one ring meet (adjacent ones: share more than their common vertex)
      2 RHoleOutsideShell       some point of a hole lies outside the shell
      3 RNestedHoles            a hole lies within another hole
      7 RNestedShells           the shell of a multipolygon element has a point in the interior of another element
      4 RDisconnectedInterior   the rings of one polygon and their touch points form a cycle (hole chain, two rings touching
                                twice); with the flag: also a ring touching itself from its interior side
   A ring sequence occurring twice in a polygonal geometry (duplicate ring) breaks rule 5 at each of its vertices.
   The flag removes rule 6 for the rings of polygons (not for a LinearRing geometry) and adds the self-touch clause of rule 4;
   nothing else depends on it.  All topological rules work on the rings with repeated consecutive points removed.

   Brute force throughout: every pair of segments is classified exactly; "ring h lies inside ring t" means that no vertex of h
   and no midpoint between two consecutive points of h's linework split at t's vertices is outside t (even-odd). *)
From Coq Require Import ZArith List Bool.
From GeosV.Lib Require Import GeomDefs LocateDefs.
Import ListNotations.
Local Open Scope Z_scope.

Inductive rule := RInvalidCoordinate | RRingNotClosed | RTooFewPoints | RSelfIntersection | RRingSelfIntersection
                | RHoleOutsideShell | RNestedHoles | RNestedShells | RDisconnectedInterior.
Definition all_rules : list rule :=
  [RInvalidCoordinate; RRingNotClosed; RTooFewPoints; RSelfIntersection; RRingSelfIntersection;
   RHoleOutsideShell; RNestedHoles; RNestedShells; RDisconnectedInterior].
Definition rule_code (r : rule) : Z :=
  match r with
  | RInvalidCoordinate => 10 | RRingNotClosed => 11 | RTooFewPoints => 9 | RSelfIntersection => 5
  | RRingSelfIntersection => 6 | RHoleOutsideShell => 2 | RNestedHoles => 3 | RNestedShells => 7
  | RDisconnectedInterior => 4
  end.

(* ---- small list helpers ---- *)
Definition mem_pt (p : pt) (l : list pt) : bool := existsb (pt_eqb p) l.
Fixpoint nodup_pts (l : list pt) : list pt :=
  match l with [] => [] | a :: t => if mem_pt a t then nodup_pts t else a :: nodup_pts t end.
Fixpoint pairs {A} (l : list A) : list (A * A) :=
  match l with [] => [] | a :: t => map (pair a) t ++ pairs t end.
Fixpoint index_from {A} (i : nat) (l : list A) : list (nat * A) :=
  match l with [] => [] | a :: t => (i, a) :: index_from (S i) t end.
Definition nonempty {A} (l : list A) : bool := match l with [] => false | _ => true end.
Definition isnil {A} (l : list A) : bool := match l with [] => true | _ => false end.

(* ---- exact segment / segment classification ---- *)
Inductive sres := SNone | SProper (q : hpt) | STouch (p : pt) | SOverlap (p q : pt).
Definition opposite (a b : Z) : bool := ((0 <? a) && (b <? 0)) || ((a <? 0) && (0 <? b)).
(* ab against cd: SProper = one common point interior to both (exact rational point); STouch = one common point that is an
   end point of at least one of them; SOverlap = collinear, more than one common point (the two ends of the common part) *)
Definition proper_pt (a b : pt) (o3 o4 : Z) : hpt :=
  let w := o3 - o4 in
  let x := fst a * w + o3 * (fst b - fst a) in
  let y := snd a * w + o3 * (snd b - snd a) in
  if 0 <? w then (x, y, w) else (- x, - y, - w).
Definition seg_int (a b c d : pt) : sres :=
  let o1 := orient a b c in let o2 := orient a b d in
  let o3 := orient c d a in let o4 := orient c d b in
  if opposite o1 o2 && opposite o3 o4 then SProper (proper_pt a b o3 o4)
  else
    match nodup_pts (filter (fun p => on_seg p a b) [c; d] ++ filter (fun p => on_seg p c d) [a; b]) with
    | [] => SNone
    | [p] => STouch p
    | p :: q :: _ => SOverlap p q
    end.

Inductive event := EBad (q : hpt) | ETouch (p : pt).
Definition bad_pts (evs : list event) : list hpt := flat_map (fun e => match e with EBad q => [q] | ETouch _ => [] end) evs.
Definition touch_pts (evs : list event) : list pt := flat_map (fun e => match e with ETouch p => [p] | EBad _ => [] end) evs.
(* `adj`: the two segments are consecutive in one ring — their common vertex is not an event *)
Definition seg_events (adj : bool) (s t : pt * pt) : list event :=
  match seg_int (fst s) (snd s) (fst t) (snd t) with
  | SNone => []
  | SProper q => [EBad q]
  | SOverlap p q => [EBad (hp p); EBad (hp q)]
  | STouch p => if adj then [] else [ETouch p]
  end.
(* segments i < j of a closed sequence with m segments are adjacent when consecutive or first and last *)
Definition adjacent (m i j : nat) : bool := Nat.eqb j (S i) || (Nat.eqb i 0 && Nat.eqb (S j) m).
Definition self_events (r : seq) : list event :=
  let ss := index_from 0 (segs r) in
  let m := length ss in
  flat_map (fun st => seg_events (adjacent m (fst (fst st)) (fst (snd st))) (snd (fst st)) (snd (snd st))) (pairs ss).
Definition cross_events (r1 r2 : seq) : list event :=
  flat_map (fun s => flat_map (fun t => seg_events false s t) (segs r2)) (segs r1).

(* ---- the passes of a ring through a point, and crossing of two passes ---- *)
(* the cyclic vertex list of a closed sequence (closing point dropped) *)
Definition cyc (r : seq) : seq := if closed r then removelast r else r.
Definition cyc_triples (c : seq) : list (pt * pt * pt) :=
  match c with
  | [] => []
  | h :: t => combine (combine (last c h :: removelast c) c) (t ++ [h])
  end.
(* each time ring r runs through p — at a vertex (previous, next vertex) or inside an edge (its two ends) *)
Definition passes_at (p : pt) (r : seq) : list (pt * pt) :=
  flat_map (fun uvw => let '(u, v, w) := uvw in
                       (if pt_eqb v p then [(u, w)] else []) ++ (if strictly_on p v w then [(v, w)] else []))
           (cyc_triples (cyc r)).
Definition dot (p u v : pt) : Z := (fst u - fst p) * (fst v - fst p) + (snd u - snd p) * (snd v - snd p).
(* ray p->r lies strictly inside the open sector swept counter-clockwise from ray p->u to ray p->v
   (convex sector, and the half plane when u and v are opposite: left of pu and left of rv; reflex sector: not in the closed
   complementary sector; u and v in the same direction: no sector) *)
Definition in_sector (p u v r : pt) : bool :=
  let s := orient p u v in
  if 0 <? s then (0 <? orient p u r) && (0 <? orient p r v)
  else if s <? 0 then negb ((0 <=? orient p v r) && (0 <=? orient p r u))
  else if dot p u v <? 0 then (0 <? orient p u r) && (0 <? orient p r v)
  else false.
(* the two rays of pass b lie strictly on different sides of pass a *)
Definition pass_cross (p : pt) (a b : pt * pt) : bool :=
  (in_sector p (fst a) (snd a) (fst b) && in_sector p (snd a) (fst a) (snd b))
  || (in_sector p (snd a) (fst a) (fst b) && in_sector p (fst a) (snd a) (snd b)).

(* ---- the rings of a polygonal geometry ---- *)
(* Rings are told apart by value: "the other rings" of r are the rings that are not the same sequence as r, and a sequence
   that occurs twice is a duplicate ring (its whole linework overlaps itself: rule 5).  No positions or indices are used, so
   that reordering holes or elements visibly changes nothing. *)
Definition seq_eqb (a b : seq) : bool :=
  Nat.eqb (length a) (length b) && forallb (fun ab => pt_eqb (fst ab) (snd ab)) (combine a b).
Definition others (r : seq) (rs : list seq) : list seq := filter (fun u => negb (seq_eqb u r)) rs.
Definition is_dup (r : seq) (rs : list seq) : bool := Nat.leb 2 (length (filter (seq_eqb r) rs)).
Definition poly_eqb (a b : poly) : bool :=
  seq_eqb (fst a) (fst b) && Nat.eqb (length (snd a)) (length (snd b))
  && forallb (fun hg => seq_eqb (fst hg) (snd hg)) (combine (snd a) (snd b)).
Definition other_polys (a : poly) (ps : list poly) : list poly := filter (fun b => negb (poly_eqb b a)) ps.

Definition live_polys (ps : list poly) : list poly := filter (fun a => negb (poly_is_empty a)) ps.
(* repeated points removed, empty holes dropped *)
Definition dedup_poly (a : poly) : poly := (dedup (fst a), map dedup (filter nonempty (snd a))).
Definition norm_polys (ps : list poly) : list poly := map dedup_poly (live_polys ps).
Definition all_rings (dps : list poly) : list seq := flat_map poly_rings dps.

(* rule 5: ring r against itself and against the other rings *)
Definition touch_nodes (r : seq) (rest : list seq) : list pt :=
  nodup_pts (touch_pts (self_events r) ++ flat_map (fun u => touch_pts (cross_events r u)) rest).
(* at p, a pass of r crosses a pass of another ring, or two passes of r cross *)
Definition node_cross (r : seq) (rest : list seq) (p : pt) : bool :=
  existsb (fun a => existsb (fun b => pass_cross p a b) (flat_map (passes_at p) rest)) (passes_at p r)
  || existsb (fun ab => pass_cross p (fst ab) (snd ab) || pass_cross p (snd ab) (fst ab)) (pairs (passes_at p r)).
Definition ring_bad (ar : list seq) (r : seq) : list hpt :=
  let rest := others r ar in
  bad_pts (self_events r)
  ++ flat_map (fun u => bad_pts (cross_events r u)) rest
  ++ (if is_dup r ar then map hp r else [])
  ++ map hp (filter (node_cross r rest) (touch_nodes r rest)).
Definition self_intersection_set (ar : list seq) : list hpt := flat_map (ring_bad ar) ar.
(* rule 6 *)
Definition ring_self_set (r : seq) : list hpt :=
  bad_pts (self_events r) ++ map hp (touch_pts (self_events r)).
Definition ring_self_intersection_set (ar : list seq) : list hpt := flat_map ring_self_set ar.

(* ---- ring inside ring (rules 2, 3, 7) ---- *)
Definition edge_samples (vs : list pt) (s : pt * pt) : list hpt :=
  let ps := fst s :: snd s :: filter (fun v => strictly_on v (fst s) (snd s)) vs in
  map (fun ab => mid (fst ab) (snd ab)) (pairs ps).
(* sample points of the linework of h against a linework with vertices vs: the vertices of h, and midpoints between any two
   of {ends of an edge of h} ∪ {vertices of vs inside that edge} *)
Definition ring_samples (h : seq) (vs : list pt) : list hpt :=
  map hp h ++ flat_map (edge_samples vs) (segs h).
Definition ring_inside (h t : seq) : bool :=
  forallb (fun q => negb (is_exterior (in_ring_h q t))) (ring_samples h t).

Definition hole_outside_set (a : poly) : list hpt :=
  flat_map (fun h => if ring_inside h (fst a) then [] else map hp h) (snd a).
Definition nested_holes_set (a : poly) : list hpt :=
  flat_map (fun h => if existsb (ring_inside h) (others h (snd a)) then map hp h else []) (snd a).
Definition poly_vertices (a : poly) : list pt := fst a ++ concat (snd a).
Definition shell_in_poly (a b : poly) : bool :=
  existsb (fun q => location_eqb (loc_poly_h q b) Interior) (ring_samples (fst a) (poly_vertices b)).
Definition nested_shells_set (ps : list poly) : list hpt :=
  flat_map (fun a => if existsb (shell_in_poly a) (other_polys a ps) then map hp (fst a) else []) ps.

(* ---- connected interior (rule 4) ---- *)
(* the points where r touches the other rings of its polygon *)
Definition ring_touch_pts (r : seq) (rest : list seq) : list pt :=
  nodup_pts (flat_map (fun u => touch_pts (cross_events r u)) rest).
(* a ring that touches the others in at most one point cannot lie on a cycle of the ring / touch-point graph: remove such
   rings until none is left (no cycle) or every remaining ring touches the remaining others in >= 2 points (a cycle) *)
Definition prune_step (rs : list seq) : list seq :=
  filter (fun r => Nat.leb 2 (length (ring_touch_pts r (others r rs)))) rs.
Fixpoint prune (fuel : nat) (rs : list seq) : list seq :=
  match fuel with O => rs | S f => prune f (prune_step rs) end.
Definition cycle_nodes (rs : list seq) : list pt :=
  let core := prune (length rs) rs in
  flat_map (fun r => ring_touch_pts r (others r core)) core.
(* self-touch of one ring: the polygon's interior lies to the left of a counter-clockwise shell and of a clockwise hole
   (Gt), to the right of a clockwise shell and a counter-clockwise hole (Lt); a second pass through p on that side of the
   first cuts the interior.  A ring of zero area (Eq) has no side: every self-touch counts. *)
Definition ring_side (is_shell : bool) (r : seq) : comparison :=
  if is_shell then area2 r ?= 0 else 0 ?= area2 r.
Definition pass_on_interior_side (p : pt) (side : comparison) (a b : pt * pt) : bool :=
  match side with
  | Gt => in_sector p (snd a) (fst a) (fst b) || in_sector p (snd a) (fst a) (snd b)
  | Lt => in_sector p (fst a) (snd a) (fst b) || in_sector p (fst a) (snd a) (snd b)
  | Eq => true
  end.
Definition interior_self_nodes (is_shell : bool) (r : seq) : list pt :=
  let side := ring_side is_shell r in
  filter (fun p => existsb (fun ab => pass_on_interior_side p side (fst ab) (snd ab)
                                      || pass_on_interior_side p side (snd ab) (fst ab))
                           (pairs (passes_at p r)))
         (nodup_pts (touch_pts (self_events r))).
Definition poly_disconnected_set (flag : bool) (a : poly) : list hpt :=
  map hp (cycle_nodes (poly_rings a))
  ++ (if flag then map hp (interior_self_nodes true (fst a) ++ flat_map (interior_self_nodes false) (snd a)) else []).
Definition disconnected_set (flag : bool) (dps : list poly) : list hpt := flat_map (poly_disconnected_set flag) dps.

(* ---- structure (rules 11, 9) ---- *)
Definition not_closed_set (r : seq) : list hpt :=
  match r with [] => [] | a :: _ => if closed r then [] else [hp a] end.
Definition too_few_set (minsize : nat) (l : seq) : list hpt :=
  match l with [] => [] | a :: _ => if Nat.leb minsize (length (dedup l)) then [] else [hp a] end.

(* ---- violation sets, indexed like all_rules ---- *)
Definition vsets := list (list hpt).
Definition no_viol : vsets := map (fun _ => []) all_rules.
Fixpoint zip_app (a b : vsets) : vsets :=
  match a, b with
  | x :: a', y :: b' => (x ++ y) :: zip_app a' b'
  | [], _ => b
  | _, [] => a
  end.
Definition line_vsets (l : seq) : vsets :=
  [[]; []; too_few_set 2 l; []; []; []; []; []; []].
Definition ring_vsets (l : seq) : vsets :=
  [[]; not_closed_set l; too_few_set 4 l; []; ring_self_set (dedup l); []; []; []; []].
Definition polygonal_vsets (flag : bool) (ps : list poly) : vsets :=
  let live := live_polys ps in
  let dps := norm_polys ps in
  let ar := all_rings dps in
  [[];
   flat_map (fun a => flat_map not_closed_set (poly_rings a)) live;
   flat_map (fun a => flat_map (too_few_set 4) (poly_rings a)) live;
   self_intersection_set ar;
   (if flag then [] else ring_self_intersection_set ar);
   flat_map hole_outside_set dps;
   flat_map nested_holes_set dps;
   nested_shells_set dps;
   disconnected_set flag dps].
Fixpoint vsets_of (flag : bool) (g : geom) : vsets :=
  match g with
  | GPoint _ | GMPoint _ => no_viol
  | GLine l => line_vsets l
  | GRing l => ring_vsets l
  | GPoly s hs => polygonal_vsets flag [(s, hs)]
  | GMPoly ps => polygonal_vsets flag ps
  | GMLine ls => fold_right (fun l acc => zip_app (line_vsets l) acc) no_viol ls
  | GColl gs => fold_right (fun h acc => zip_app (vsets_of flag h) acc) no_viol gs
  end.

Definition violations (flag : bool) (g : geom) : list (rule * list hpt) := combine all_rules (vsets_of flag g).
Definition rule_set (flag : bool) (r : rule) (g : geom) : list hpt :=
  match find (fun rs => rule_code (fst rs) =? rule_code r) (violations flag g) with
  | Some rs => snd rs
  | None => []
  end.
Definition valid_flag (flag : bool) (g : geom) : bool := forallb isnil (vsets_of flag g).
Definition valid_geom (g : geom) : bool := valid_flag false g.
Definition valid_detail (flag : bool) (g : geom) : option (rule * list hpt) :=
  find (fun rs => nonempty (snd rs)) (violations flag g).
(* non-finite ordinates are a flag of the input *)
Definition valid_input (nonfinite flag : bool) (g : geom) : bool := negb nonfinite && valid_flag flag g.

(* ================= simplicity ================= *)
(* a line (repeated points removed): distinct segments may meet only at the common vertex of consecutive ones and, for a
   closed line, at the closing point of the first and last *)
Definition line_nonsimple_pts (l0 : seq) : list hpt :=
  let l := dedup l0 in
  let ss := index_from 0 (segs l) in
  let m := length ss in
  flat_map (fun st =>
     let i := fst (fst st) in let j := fst (snd st) in
     match seg_int (fst (snd (fst st))) (snd (snd (fst st))) (fst (snd (snd st))) (snd (snd (snd st))) with
     | SNone => []
     | SProper q => [q]
     | SOverlap p q => [hp p; hp q]
     | STouch p =>
         if Nat.eqb j (S i) then []
         else if Nat.eqb i 0 && Nat.eqb (S j) m && closed l && pt_eqb p (hd p l) then []
         else [hp p]
     end) (pairs ss).
Definition is_end (p : pt) (l : seq) : bool :=
  match l with [] => false | a :: _ => pt_eqb p a || pt_eqb p (last l a) end.
(* two different lines may meet only at points that are boundary points of both (a closed line has no boundary) *)
Definition lines_cross_nonsimple_pts (l1 l2 : seq) : list hpt :=
  let a := dedup l1 in let b := dedup l2 in
  flat_map (fun e => match e with
                     | EBad q => [q]
                     | ETouch p => if is_end p a && is_end p b && negb (closed a) && negb (closed b) then [] else [hp p]
                     end) (cross_events a b).
(* every line against itself and against the other lines (told apart by value; a line with at least one segment that
   occurs twice overlaps its copy) *)
Definition lines_nonsimple_pts (ls : list seq) : list hpt :=
  flat_map (fun l => line_nonsimple_pts l
                     ++ flat_map (lines_cross_nonsimple_pts l) (others l ls)
                     ++ (if is_dup l ls && Nat.leb 2 (length (dedup l)) then map hp l else [])) ls.
Fixpoint dup_pts (l : list pt) : list pt :=
  match l with [] => [] | a :: t => if mem_pt a t then a :: dup_pts t else dup_pts t end.
Fixpoint nonsimple_pts (g : geom) : list hpt :=
  match g with
  | GPoint _ => []
  | GMPoint ps => map hp (dup_pts (flat_map opt_list ps))
  | GLine l => line_nonsimple_pts l
  | GRing l => line_nonsimple_pts l
  | GMLine ls => lines_nonsimple_pts ls
  | GPoly s hs => flat_map line_nonsimple_pts (s :: hs)
  | GMPoly ps => flat_map (fun a => flat_map line_nonsimple_pts (poly_rings a)) ps
  | GColl gs => flat_map nonsimple_pts gs
  end.
Definition simple_geom (g : geom) : bool := isnil (nonsimple_pts g).
(* Curve::isRing = isClosed && isSimple (an empty LineString is not closed, an empty LinearRing is) *)
Definition is_ring (g : geom) : bool :=
  match g with
  | GLine l => nonempty l && closed l && simple_geom g
  | GRing l => closed l && simple_geom g
  | _ => false
  end.
