(* Lib/LocateDefs — the point set of a geometry on exact coordinates: loc rule g p ∈ {Interior, Boundary, Exterior} with the
   dimension of the component that decides it.  Definitions only, stdlib only, no proofs (lemmas: Lib/Locate.v).

   Kernel primitives used here and by Lib/ValidDefs (kept local and small; Lib/KernelDefs of C07 can replace them later):
     orient      sign of the determinant (b-a) x (c-a): > 0 c left of ab (counter-clockwise), < 0 right, = 0 collinear
     on_seg      p on the closed segment ab
     in_ring     even-odd location of a point w.r.t. a closed sequence, computed as the parity of the winding number.  The
                 winding number is the sum over the edges of the signed number of octant steps (half-axes and open quadrants
                 round p, numbered 0..7 counter-clockwise) divided by 8; an edge seen from p spans less than a half turn, so
                 its step count is the difference of the octant numbers reduced to -4..4, the sign of +-4 being that of orient.
                 This definition is symmetric under the eight symmetries of the square and under ring rotation and reversal
                 edge by edge, which is what the invariance theorems use; for a closed sequence its parity is the parity of
                 the ray-crossing count of RayCrossingCounter.
   Points with rational coordinates (exact proper intersection points, segment midpoints) are homogeneous triples (x, y, w),
   w > 0, meaning (x/w, y/w); they are located by scaling the geometry by w. *)
From Coq Require Import ZArith List Bool.
From GeosV.Lib Require Import GeomDefs.
Import ListNotations.
Local Open Scope Z_scope.

Inductive location := Interior | Boundary | Exterior.
Definition location_eqb (a b : location) : bool :=
  match a, b with Interior, Interior | Boundary, Boundary | Exterior, Exterior => true | _, _ => false end.
Definition is_exterior (l : location) : bool := match l with Exterior => true | _ => false end.

Definition hpt := (Z * Z * Z)%type.            (* homogeneous point (x, y, w), w > 0 *)
Definition hp (a : pt) : hpt := (fst a, snd a, 1).
Definition mid (a b : pt) : hpt := (fst a + fst b, snd a + snd b, 2).

(* ---- kernel ---- *)
Definition orient (a b c : pt) : Z :=
  (fst b - fst a) * (snd c - snd a) - (snd b - snd a) * (fst c - fst a).
Definition between (x a b : Z) : bool := (Z.min a b <=? x) && (x <=? Z.max a b).
Definition on_seg (p a b : pt) : bool :=
  (orient a b p =? 0) && between (fst p) (fst a) (fst b) && between (snd p) (snd a) (snd b).
Definition strictly_on (p a b : pt) : bool := on_seg p a b && negb (pt_eqb p a) && negb (pt_eqb p b).
(* p on the linework of a sequence; a sequence of one point is that point *)
Definition on_path (p : pt) (l : seq) : bool :=
  match l with
  | [a] => pt_eqb p a
  | _ => existsb (fun s => on_seg p (fst s) (snd s)) (segs l)
  end.

(* octant of the direction (dx, dy): 0 = +x half-axis, 1 = open first quadrant, 2 = +y half-axis, … 7 = open fourth quadrant *)
Definition oct (dx dy : Z) : Z :=
  match Z.sgn dx, Z.sgn dy with
  | Zpos _, Z0 => 0 | Zpos _, Zpos _ => 1 | Z0, Zpos _ => 2 | Zneg _, Zpos _ => 3
  | Zneg _, Z0 => 4 | Zneg _, Zneg _ => 5 | Z0, Zneg _ => 6 | Zpos _, Zneg _ => 7
  | Z0, Z0 => 0
  end.
Definition oct_of (p a : pt) : Z := oct (fst a - fst p) (snd a - snd p).
(* signed octant steps from octant ka to octant kb for an edge spanning less than a half turn; o = orient p a b decides +-4 *)
Definition turn8 (ka kb o : Z) : Z :=
  let d := kb - ka in
  let d' := if 4 <? d then d - 8 else if d <? -4 then d + 8 else d in
  if (d' =? 4) || (d' =? -4) then (if 0 <? o then 4 else if o <? 0 then -4 else 0) else d'.
(* signed octant steps swept by the edge ab seen from p (p not on ab) *)
Definition edge_turn (p a b : pt) : Z :=
  if pt_eqb p a || pt_eqb p b then 0 else turn8 (oct_of p a) (oct_of p b) (orient p a b).
Definition winding8 (p : pt) (r : seq) : Z :=
  fold_right (fun s acc => edge_turn p (fst s) (snd s) + acc) 0 (segs r).
Definition in_ring (p : pt) (r : seq) : location :=
  if on_path p r then Boundary
  else if Z.odd (Z.quot (winding8 p r) 8) then Interior else Exterior.
Definition in_ring_h (q : hpt) (r : seq) : location :=
  let '(x, y, w) := q in in_ring (x, y) (map (scale_pt w) r).

(* twice the signed area (shoelace, taken from the first point so that every term is a determinant of differences);
   > 0 for a counter-clockwise ring *)
Definition area2 (r : seq) : Z :=
  match r with
  | [] => 0
  | o :: _ => fold_right (fun s acc => orient o (fst s) (snd s) + acc) 0 (segs r)
  end.

(* ---- areas ---- *)
(* a polygon: boundary = its rings (all of them, also for an invalid polygon), interior = inside the shell and inside no hole *)
Definition loc_poly (p : pt) (a : poly) : location :=
  if existsb (on_path p) (poly_rings a) then Boundary
  else if location_eqb (in_ring p (fst a)) Interior
          && negb (existsb (fun h => location_eqb (in_ring p h) Interior) (snd a)) then Interior
  else Exterior.
Definition loc_poly_h (q : hpt) (a : poly) : location :=
  let '(x, y, w) := q in loc_poly (x, y) (map_poly (scale_pt w) a).

(* ---- lines ---- *)
Inductive bnrule := Mod2 | EndPoint | MultiValentEndPoint | MonoValentEndPoint.
(* BoundaryNodeRule::isInBoundary(boundaryCount) *)
Definition in_boundary (r : bnrule) (n : Z) : bool :=
  match r with
  | Mod2 => Z.odd n
  | EndPoint => 0 <? n
  | MultiValentEndPoint => 1 <? n
  | MonoValentEndPoint => n =? 1
  end.
(* number of line ends at p: each non-empty line contributes its first and its last point (a closed line contributes 2) *)
Definition end_count (p : pt) (ls : list seq) : Z :=
  fold_right (fun l acc =>
     match l with
     | [] => acc
     | a :: _ => (if pt_eqb p a then 1 else 0) + (if pt_eqb p (last l a) then 1 else 0) + acc
     end) 0 ls.
Definition loc_lines (r : bnrule) (p : pt) (ls : list seq) : location :=
  if in_boundary r (end_count p ls) then Boundary
  else if existsb (on_path p) ls then Interior
  else Exterior.

(* ---- any geometry ---- *)
(* (location, dimension of the component that decides it: area 2, line 1, point 0); Exterior carries dimension 2.
   Collections: an area interior wins, then an area boundary, then lines (all lines of the collection taken together, as for
   a MultiLineString), then points.  For collections whose areas are adjacent or overlap this is the component-wise reading;
   the side analysis that RelateNG's union semantics needs on shared boundaries belongs to Lib/Arrangement. *)
Definition loc_dim (r : bnrule) (g : geom) (p : pt) : location * Z :=
  let ps := polys_of g in
  if existsb (fun a => location_eqb (loc_poly p a) Interior) ps then (Interior, 2)
  else if existsb (fun a => location_eqb (loc_poly p a) Boundary) ps then (Boundary, 2)
  else match loc_lines r p (lines_of g) with
       | Interior => (Interior, 1)
       | Boundary => (Boundary, 1)
       | Exterior => if existsb (pt_eqb p) (points_of g) then (Interior, 0) else (Exterior, 2)
       end.
Definition loc_rule (r : bnrule) (g : geom) (p : pt) : location := fst (loc_dim r g p).
(* the default: OGC mod-2 boundary rule *)
Definition loc (g : geom) (p : pt) : location := loc_rule Mod2 g p.
Definition loc_h (g : geom) (q : hpt) : location :=
  let '(x, y, w) := q in loc (map_geom (scale_pt w) g) (x, y).
