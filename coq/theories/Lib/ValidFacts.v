(* Lib/ValidFacts — internal consistency of Lib/ValidDefs:
   - the self-touching-ring flag changes the verdict only through rule 6 (and never turns valid into invalid);
   - every ring of a valid polygon is simple (as a closed line);
   - helper facts about seg_int used by the location theorem (Lib/ValidLoc.v). *)
From Coq Require Import ZArith List Bool Lia Btauto.
From GeosV.Lib Require Import GeomDefs LocateDefs ValidDefs Geom Locate Valid ValidPerm.
Import ListNotations.
Local Open Scope Z_scope.

(* ---- the flag ---- *)
Lemma nth_nil' : forall i, nth i ([] : vsets) [] = [].
Proof. intros [|i]; reflexivity. Qed.
Lemma nth_zip_app : forall i a b, nth i (zip_app a b) [] = nth i a [] ++ nth i b ([] : list hpt).
Proof.
  intros i a. revert i. induction a as [|x a IH]; intros i b.
  - cbn [zip_app]. rewrite nth_nil'. reflexivity.
  - destruct b as [|y b].
    + cbn [zip_app]. rewrite nth_nil', app_nil_r. reflexivity.
    + cbn [zip_app]. destruct i as [|i]; [reflexivity|]. cbn [nth]. apply IH.
Qed.
Lemma events_nil : forall evs, bad_pts evs = [] -> touch_pts evs = [] -> evs = [].
Proof. intros [|[q|p] evs]; cbn; intros; try reflexivity; discriminate. Qed.
Lemma ring_self_set_nil : forall r, ring_self_set r = [] -> self_events r = [].
Proof.
  intros r H. unfold ring_self_set in H. apply app_eq_nil in H. destruct H as [Hb Ht].
  apply map_eq_nil in Ht. apply events_nil; assumption.
Qed.
Lemma interior_self_nodes_nil : forall b r, ring_self_set r = [] -> interior_self_nodes b r = [].
Proof. intros b r H. unfold interior_self_nodes. rewrite (ring_self_set_nil r H). reflexivity. Qed.
Lemma flat_map_nil_inv : forall {A B} (f : A -> list B) l, flat_map f l = [] -> forall a, In a l -> f a = [].
Proof.
  intros A B f l. induction l as [|x l IH]; intros H a Hin; [destruct Hin|].
  cbn [flat_map] in H. apply app_eq_nil in H. destruct H as [H1 H2]. destruct Hin as [<- | Hin]; [exact H1 | apply IH; assumption].
Qed.
Lemma isnil_true : forall {A} (l : list A), isnil l = true <-> l = [].
Proof. intros A [|a l]; split; intros; try reflexivity; discriminate. Qed.
Lemma flat_map_ext_in : forall {A B} (f g : A -> list B) l, (forall a, In a l -> f a = g a) -> flat_map f l = flat_map g l.
Proof.
  intros A B f g l H. induction l as [|x l IH]; [reflexivity|]. cbn [flat_map].
  rewrite H by (left; reflexivity). rewrite IH; [reflexivity|]. intros a Ha. apply H. right. exact Ha.
Qed.
Lemma disconnected_flag : forall dps, ring_self_intersection_set (all_rings dps) = [] ->
  disconnected_set true dps = disconnected_set false dps.
Proof.
  intros dps H. unfold disconnected_set. apply flat_map_ext_in. intros a Hin.
  unfold poly_disconnected_set. f_equal.
  assert (R : forall r, In r (poly_rings a) -> ring_self_set r = []).
  { intros r Hr. apply (flat_map_nil_inv _ _ H). unfold all_rings. apply in_flat_map. exists a. split; assumption. }
  rewrite interior_self_nodes_nil by (apply R; left; reflexivity).
  rewrite flat_map_nil_all; [reflexivity|]. intros h Hh. apply interior_self_nodes_nil. apply R. right. exact Hh.
Qed.

(* validity without the flag = validity with the flag and rule 6 *)
Lemma flag_split_polygonal : forall ps,
  forallb isnil (polygonal_vsets false ps) = forallb isnil (polygonal_vsets true ps) && isnil (nth 4 (polygonal_vsets false ps) []).
Proof.
  intros ps. unfold polygonal_vsets. cbv zeta. cbn [forallb nth isnil].
  destruct (isnil (ring_self_intersection_set (all_rings (norm_polys ps)))) eqn:E.
  - apply isnil_true in E. rewrite (disconnected_flag _ E). rewrite !andb_true_r. reflexivity.
  - btauto.
Qed.
Theorem flag_split : forall g,
  valid_flag false g = valid_flag true g && isnil (nth 4 (vsets_of false g) []).
Proof.
  intros g. unfold valid_flag. induction g using geom_ind'; cbn [vsets_of]; try reflexivity.
  - unfold line_vsets. cbn [forallb nth isnil]. rewrite !andb_true_r. reflexivity.
  - unfold ring_vsets. cbn [forallb nth isnil].
    destruct (isnil (not_closed_set l)), (isnil (too_few_set 4 l)), (isnil (ring_self_set (dedup l))); reflexivity.
  - apply flag_split_polygonal.
  - induction ls as [|l ls IH]; [reflexivity|]. cbn [fold_right]. rewrite !valid_zip_app, nth_zip_app, isnil_app, IH.
    unfold line_vsets. cbn [forallb nth isnil]. rewrite !andb_true_r.
    btauto.
  - apply flag_split_polygonal.
  - induction gs as [|h gs IH]; [reflexivity|]. inversion H as [|? ? Hh Hgs]; subst.
    cbn [fold_right]. rewrite !valid_zip_app, nth_zip_app, isnil_app, (IH Hgs), Hh. btauto.
Qed.
Theorem valid_flag_monotone : forall g, valid_flag false g = true -> valid_flag true g = true.
Proof. intros g H. rewrite flag_split in H. apply andb_true_iff in H. apply H. Qed.
Lemma vsets_length : forall flag g, length (vsets_of flag g) = 9%nat.
Proof.
  intros flag g. induction g using geom_ind'; cbn [vsets_of]; try reflexivity.
  - induction ls as [|l ls IH]; [reflexivity|]. cbn [fold_right]. unfold line_vsets.
    destruct (fold_right _ _ ls) as [|x0 [|x1 [|x2 [|x3 [|x4 [|x5 [|x6 [|x7 [|x8 [|x9 r]]]]]]]]]]; try discriminate. reflexivity.
  - induction gs as [|h gs IH]; [reflexivity|]. inversion H as [|? ? Hh Hgs]; subst. cbn [fold_right].
    specialize (IH Hgs).
    destruct (vsets_of flag h) as [|y0 [|y1 [|y2 [|y3 [|y4 [|y5 [|y6 [|y7 [|y8 [|y9 r']]]]]]]]]]; try discriminate.
    destruct (fold_right _ _ gs) as [|x0 [|x1 [|x2 [|x3 [|x4 [|x5 [|x6 [|x7 [|x8 [|x9 r]]]]]]]]]]; try discriminate. reflexivity.
Qed.
Lemma rule_set_nth4 : forall flag g, rule_set flag RRingSelfIntersection g = nth 4 (vsets_of flag g) [].
Proof.
  intros flag g. unfold rule_set, violations. pose proof (vsets_length flag g) as L.
  destruct (vsets_of flag g) as [|y0 [|y1 [|y2 [|y3 [|y4 [|y5 [|y6 [|y7 [|y8 [|y9 r']]]]]]]]]]; try discriminate. reflexivity.
Qed.
(* the flag changes the verdict only through the rule it names *)
Theorem flag_only_rule6 : forall g, valid_flag true g = true -> valid_flag false g = false ->
  rule_set false RRingSelfIntersection g <> [].
Proof.
  intros g H1 H0. rewrite flag_split, H1 in H0. cbn [andb] in H0. rewrite rule_set_nth4.
  intros E. rewrite E in H0. discriminate.
Qed.

(* ---- facts about seg_int ---- *)
Lemma in_nodup_pts : forall a l, In a (nodup_pts l) <-> In a l.
Proof.
  intros a l. induction l as [|x l IH]; [tauto|]. cbn [nodup_pts]. destruct (mem_pt x l) eqn:E.
  - rewrite IH. split; [right; assumption|]. intros [<- | H]; [apply mem_pt_in; exact E | exact H].
  - cbn [In]. rewrite IH. tauto.
Qed.
Definition cand (a b c d : pt) : list pt := filter (fun p => on_seg p a b) [c; d] ++ filter (fun p => on_seg p c d) [a; b].
Lemma seg_int_touch : forall a b c d p, seg_int a b c d = STouch p -> nodup_pts (cand a b c d) = [p].
Proof.
  intros a b c d p. unfold seg_int. fold (cand a b c d).
  destruct (opposite _ _ && opposite _ _); [discriminate|].
  destruct (nodup_pts (cand a b c d)) as [|x [|y l]]; try discriminate. intros H. inversion H. reflexivity.
Qed.
Lemma seg_int_overlap : forall a b c d p q, seg_int a b c d = SOverlap p q -> In p (cand a b c d) /\ In q (cand a b c d).
Proof.
  intros a b c d p q. unfold seg_int. fold (cand a b c d).
  destruct (opposite _ _ && opposite _ _); [discriminate|].
  destruct (nodup_pts (cand a b c d)) as [|x [|y l]] eqn:E; try discriminate. intros H. inversion H. subst.
  split; apply in_nodup_pts; rewrite E; cbn [In]; auto.
Qed.
Lemma in_cand : forall a b c d p, In p (cand a b c d) -> on_seg p a b = true /\ on_seg p c d = true.
Proof.
  intros a b c d p H. unfold cand in H. apply in_app_or in H. destruct H as [H | H]; apply filter_In in H; destruct H as [Hin Hon].
  - split; [exact Hon|]. destruct Hin as [<- | [<- | []]]; [apply on_seg_endpoint_l | apply on_seg_endpoint_r].
  - split; [|exact Hon]. destruct Hin as [<- | [<- | []]]; [apply on_seg_endpoint_l | apply on_seg_endpoint_r].
Qed.
Lemma seg_int_touch_shared : forall a b c p, seg_int a b c a = STouch p -> p = a.
Proof.
  intros a b c p H. apply seg_int_touch in H.
  assert (Hin : In a (nodup_pts (cand a b c a))).
  { apply in_nodup_pts. unfold cand. apply in_or_app. left. apply filter_In. split; [right; left; reflexivity | apply on_seg_endpoint_l]. }
  rewrite H in Hin. destruct Hin as [E | []]. exact E.
Qed.

(* ---- sequences ---- *)
Lemma dedup_cons2 : forall a b l, dedup (a :: b :: l) = if pt_eqb a b then dedup (b :: l) else a :: dedup (b :: l).
Proof. reflexivity. Qed.
Lemma dedup_nonnil : forall a l, dedup (a :: l) <> [].
Proof.
  intros a l. revert a. induction l as [|b l IH]; intros a; [discriminate|].
  rewrite dedup_cons2. destruct (pt_eqb a b); [apply IH | discriminate].
Qed.
Lemma hd_dedup : forall d l, hd d (dedup l) = hd d l.
Proof.
  intros d l. induction l as [|a l IH]; [reflexivity|]. destruct l as [|b l]; [reflexivity|].
  rewrite dedup_cons2. destruct (pt_eqb a b) eqn:E; [|reflexivity]. apply pt_eqb_eq in E. subst. exact IH.
Qed.
Lemma last_cons2 : forall (a b : pt) l d, last (a :: b :: l) d = last (b :: l) d.
Proof. reflexivity. Qed.
Lemma last_dedup : forall d l, last (dedup l) d = last l d.
Proof.
  intros d l. induction l as [|a l IH]; [reflexivity|]. destruct l as [|b l]; [reflexivity|].
  rewrite dedup_cons2, last_cons2. destruct (pt_eqb a b) eqn:E; [exact IH|].
  rewrite <- IH. destruct (dedup (b :: l)) eqn:Ed; [exfalso; exact (dedup_nonnil b l Ed) | reflexivity].
Qed.
Lemma closed_dedup : forall l, closed l = true -> closed (dedup l) = true.
Proof.
  intros [|a l] H; [reflexivity|]. unfold closed in *.
  destruct (dedup (a :: l)) as [|x r] eqn:E; [reflexivity|].
  assert (Hx : x = a). { pose proof (hd_dedup a (a :: l)) as Hh. rewrite E in Hh. exact Hh. }
  subst x. rewrite <- E, last_dedup. exact H.
Qed.
Lemma in_pairs : forall {A} (x y : A) l, In (x, y) (pairs l) -> In x l /\ In y l.
Proof.
  intros A x y l. induction l as [|a l IH]; [intros []|]. cbn [pairs]. intros H. apply in_app_or in H. destruct H as [H | H].
  - apply in_map_iff in H. destruct H as [z [E Hz]]. inversion E; subst. split; [left; reflexivity | right; exact Hz].
  - destruct (IH H). split; right; assumption.
Qed.
Lemma in_index_from : forall {A} (l : list A) k j t (d : A), In (j, t) (index_from k l) ->
  (k <= j)%nat /\ (j < k + length l)%nat /\ nth (j - k) l d = t.
Proof.
  intros A l. induction l as [|a l IH]; intros k j t d H; [destruct H|].
  cbn [index_from] in H. destruct H as [E | H].
  - inversion E; subst. cbn [length]. rewrite Nat.sub_diag. repeat split; lia.
  - destruct (IH _ _ _ d H) as [H1 [H2 H3]]. cbn [length]. repeat split; try lia.
    replace (j - k)%nat with (S (j - S k)) by lia. exact H3.
Qed.
Lemma segs_length : forall l : seq, length (segs l) = (length l - 1)%nat.
Proof.
  induction l as [|a l IH]; [reflexivity|]. destruct l as [|b l]; [reflexivity|].
  rewrite segs_cons2. cbn [length] in *. rewrite IH. lia.
Qed.
Lemma segs_nth : forall (l : seq) i d, (i < length (segs l))%nat -> nth i (segs l) (d, d) = (nth i l d, nth (S i) l d).
Proof.
  induction l as [|a l IH]; intros i d H; [cbn in H; lia|]. destruct l as [|b l]; [cbn in H; lia|].
  rewrite segs_cons2 in *. destruct i as [|i]; [reflexivity|]. cbn [length] in H.
  change (nth (S i) ((a, b) :: segs (b :: l)) (d, d)) with (nth i (segs (b :: l)) (d, d)).
  rewrite IH by lia. reflexivity.
Qed.
Lemma last_nth' : forall (l : seq) d, last l d = nth (length l - 1) l d.
Proof.
  induction l as [|a l IH]; intros d; [reflexivity|]. destruct l as [|b l]; [reflexivity|].
  change (last (a :: b :: l) d) with (last (b :: l) d). rewrite IH. cbn [length]. 
  replace (S (S (length l)) - 1)%nat with (S (length l)) by lia. replace (S (length l) - 1)%nat with (length l) by lia. reflexivity.
Qed.

Lemma last_indep : forall (l : seq) a d d', last (a :: l) d = last (a :: l) d'.
Proof. induction l as [|b l IH]; intros a d d'; [reflexivity|]. rewrite !last_cons2. apply IH. Qed.

(* ---- the rings of a valid polygon are simple ---- *)
Lemma ring_simple : forall r, closed r = true -> ring_self_set (dedup r) = [] -> line_nonsimple_pts r = [].
Proof.
  intros r Hc Hs. apply ring_self_set_nil in Hs. unfold line_nonsimple_pts. cbv zeta.
  unfold self_events in Hs. set (l := dedup r) in *. set (ss := index_from 0 (segs l)) in *.
  apply flat_map_nil_all. intros [[i s] [j t]] Hin. cbn [fst snd].
  pose proof (flat_map_nil_inv _ _ Hs _ Hin) as He. cbn [fst snd] in He. unfold seg_events in He.
  destruct (seg_int (fst s) (snd s) (fst t) (snd t)) as [|q|p|p q] eqn:Ei; try reflexivity; try discriminate.
  destruct (adjacent (length ss) i j) eqn:Ea; [|discriminate]. unfold adjacent in Ea.
  destruct (Nat.eqb j (S i)); [reflexivity|]. cbn [orb] in Ea. rewrite Ea. cbn [andb].
  apply andb_true_iff in Ea. destruct Ea as [Ei0 Ej]. apply Nat.eqb_eq in Ei0, Ej. subst i.
  assert (Hcl0 : closed l = true) by (apply closed_dedup; exact Hc). rewrite Hcl0. cbn [andb].
  apply in_pairs in Hin. destruct Hin as [Hs0 Ht].
  destruct (in_index_from _ _ _ _ (p, p) Hs0) as [_ [L0 N0]]. destruct (in_index_from _ _ _ _ (p, p) Ht) as [_ [Lj Nj]].
  unfold ss in Ej. rewrite index_from_length in Ej. cbn [Nat.add] in L0, Lj. rewrite Nat.sub_0_r in N0, Nj.
  rewrite segs_nth in N0, Nj by lia.
  assert (Hfs : fst s = hd p l) by (rewrite <- N0; cbn [fst]; destruct l; reflexivity).
  assert (Hst : snd t = last l p).
  { rewrite <- Nj. cbn [snd]. rewrite last_nth'. rewrite segs_length in Ej. f_equal. lia. }
  assert (Hcl : closed l = true) by (apply closed_dedup; exact Hc).
  assert (Hlast : last l p = hd p l).
  { unfold closed in Hcl. destruct l as [|a l']; [reflexivity|]. apply pt_eqb_eq in Hcl. cbn [hd].
    rewrite (last_indep l' a p a). symmetry. exact Hcl. }
  rewrite Hst, Hlast, <- Hfs in Ei. apply seg_int_touch_shared in Ei. subst p. rewrite <- Hfs, pt_eqb_refl. reflexivity.
Qed.
Theorem valid_polygon_rings_simple : forall s hs, s <> [] -> valid_geom (GPoly s hs) = true ->
  forall r, In r (s :: hs) -> simple_geom (GRing r) = true.
Proof.
  intros s hs Hne Hv r Hr. unfold simple_geom. cbn [nonsimple_pts]. apply isnil_true.
  destruct r as [|r0 r'] eqn:Er; [reflexivity|]. rewrite <- Er in *.
  unfold valid_geom, valid_flag in Hv. cbn [vsets_of] in Hv. unfold polygonal_vsets in Hv. cbv zeta in Hv.
  unfold norm_polys in Hv. set (lv := live_polys _) in Hv.
  assert (Hlive : lv = [(s, hs)]) by (subst lv; destruct s; [congruence | reflexivity]).
  rewrite Hlive in Hv. clear Hlive lv. cbn [map forallb flat_map] in Hv.
  repeat (apply andb_true_iff in Hv; destruct Hv as [? Hv]).
  repeat match goal with H : isnil _ = true |- _ => apply isnil_true in H end.
  apply ring_simple.
  - match goal with H : flat_map not_closed_set _ ++ [] = [] |- _ => rewrite app_nil_r in H; pose proof (flat_map_nil_inv _ _ H r Hr) as Hc end.
    unfold not_closed_set in Hc. rewrite Er in Hc. rewrite <- Er in Hc. destruct (closed r); [reflexivity | discriminate].
  - match goal with H : ring_self_intersection_set _ = [] |- _ => apply (flat_map_nil_inv _ _ H) end.
    unfold all_rings. cbn [flat_map]. rewrite app_nil_r. unfold dedup_poly, poly_rings. cbn [fst snd].
    destruct Hr as [<- | Hr]; [left; reflexivity|]. right. apply in_map. apply filter_In. split; [exact Hr | rewrite Er; reflexivity].
Qed.
