(* Lib/LocateRing — point-in-ring does not depend on where a closed ring starts nor on its direction:
   in_ring p (rotate_ring k r) = in_ring p r for closed r, in_ring p (rev r) = in_ring p r.
   Both follow from the edge-by-edge form of the definition: the boundary test is an existsb and the winding number a sum over
   the segments, rotation permutes the segments of a closed sequence, reversal flips each segment and negates its turn. *)
From Coq Require Import ZArith List Bool Lia Permutation.
From GeosV.Lib Require Import GeomDefs LocateDefs Geom Locate.
Import ListNotations.
Local Open Scope Z_scope.

Definition onsegs (p : pt) (S : list (pt * pt)) : bool := existsb (fun s => on_seg p (fst s) (snd s)) S.
Definition turnsum (p : pt) (S : list (pt * pt)) : Z := fold_right (fun s acc => edge_turn p (fst s) (snd s) + acc) 0 S.
Definition swap_seg (s : pt * pt) : pt * pt := (snd s, fst s).

Lemma onsegs_perm : forall p S S', Permutation S S' -> onsegs p S = onsegs p S'.
Proof.
  intros p S S' H. unfold onsegs. induction H; cbn [existsb]; try congruence.
  rewrite !orb_assoc, (orb_comm (on_seg p (fst y) (snd y))). reflexivity.
Qed.
Lemma turnsum_perm : forall p S S', Permutation S S' -> turnsum p S = turnsum p S'.
Proof. intros p S S' H. unfold turnsum. induction H; cbn [fold_right]; lia. Qed.

(* in_ring through the two segment functionals *)
Lemma in_ring_segs : forall p r, (2 <= length r)%nat ->
  in_ring p r = if onsegs p (segs r) then Boundary else if Z.odd (Z.quot (turnsum p (segs r)) 8) then Interior else Exterior.
Proof.
  intros p r H. unfold in_ring, on_path, winding8, onsegs, turnsum.
  destruct r as [|a [|b r]]; cbn [length] in H; try lia. reflexivity.
Qed.

(* ---- reversal ---- *)
Lemma on_seg_sym : forall p a b, on_seg p b a = on_seg p a b.
Proof.
  intros [px py] [ax ay] [bx by_]. apply bool_eq_iff. rewrite !on_seg_spec. unfold orient. cbn [fst snd].
  split; intros [H1 H2]; (split; [nia | lia]).
Qed.
Definition rev_table_ok : bool :=
  forallb (fun ka => forallb (fun kb => forallb (fun o => turn8 kb ka (- o) =? - turn8 ka kb o) [-1; 0; 1]) oct8) oct8.
Lemma rev_table : rev_table_ok = true.
Proof. vm_compute. reflexivity. Qed.
Lemma turn8_rev : forall ka kb o, 0 <= ka < 8 -> 0 <= kb < 8 -> turn8 kb ka (- o) = - turn8 ka kb o.
Proof.
  intros ka kb o Ha Hb. rewrite (turn8_sgn kb ka), (turn8_sgn ka kb), Z.sgn_opp.
  pose proof rev_table as H. unfold rev_table_ok in H.
  rewrite forallb_forall in H. specialize (H ka (in_oct8 ka Ha)).
  rewrite forallb_forall in H. specialize (H kb (in_oct8 kb Hb)).
  rewrite forallb_forall in H. specialize (H (Z.sgn o)).
  assert (In (Z.sgn o) [-1; 0; 1]) as Ho by (cbn [In]; lia). apply Z.eqb_eq. exact (H Ho).
Qed.
Lemma edge_turn_rev : forall p a b, edge_turn p b a = - edge_turn p a b.
Proof.
  intros p a b. unfold edge_turn. rewrite (orb_comm (pt_eqb p b)).
  destruct (pt_eqb p a || pt_eqb p b); [reflexivity|].
  replace (orient p b a) with (- orient p a b) by (rewrite (orient_swap23 p a b); ring).
  apply turn8_rev; apply oct_range.
Qed.
Lemma onsegs_swap : forall p S, onsegs p (map swap_seg S) = onsegs p S.
Proof. intros p S. unfold onsegs. apply existsb_map_comm. intros [a b]. cbn [swap_seg fst snd]. apply on_seg_sym. Qed.
Lemma turnsum_swap : forall p S, turnsum p (map swap_seg S) = - turnsum p S.
Proof.
  intros p S. unfold turnsum. induction S as [|[a b] S IH]; [reflexivity|].
  cbn [map fold_right swap_seg fst snd]. rewrite IH, edge_turn_rev. ring.
Qed.
Lemma segs_snoc : forall (l : seq) a, segs (l ++ [a]) = match l with [] => [] | _ => segs l ++ [(last l a, a)] end.
Proof.
  induction l as [|x l IH]; intros a; [reflexivity|]. destruct l as [|y l]; [reflexivity|].
  change ((x :: y :: l) ++ [a]) with (x :: y :: (l ++ [a])). rewrite !segs_cons2.
  change (y :: l ++ [a]) with ((y :: l) ++ [a]). rewrite IH. reflexivity.
Qed.
Lemma last_rev_hd : forall (l : seq) d, last (rev l) d = hd d l.
Proof. intros [|a l] d; [reflexivity|]. cbn [rev hd]. apply last_last. Qed.
Lemma segs_rev : forall l : seq, segs (rev l) = rev (map swap_seg (segs l)).
Proof.
  induction l as [|a l IH]; [reflexivity|]. destruct l as [|b l]; [reflexivity|].
  rewrite segs_cons2. cbn [map].
  change (rev (swap_seg (a, b) :: map swap_seg (segs (b :: l)))) with (rev (map swap_seg (segs (b :: l))) ++ [(b, a)]).
  rewrite <- IH.
  change (rev (a :: b :: l)) with (rev (b :: l) ++ [a]). rewrite segs_snoc.
  remember (rev (b :: l)) as R eqn:HR. destruct R as [|x R'].
  { exfalso. apply (f_equal (@length pt)) in HR. rewrite rev_length in HR. discriminate. }
  rewrite HR, last_rev_hd. reflexivity.
Qed.
Theorem in_ring_reverse : forall p r, in_ring p (rev r) = in_ring p r.
Proof.
  intros p r. destruct r as [|a [|b r]]; try reflexivity.
  rewrite !in_ring_segs by (rewrite ?rev_length; cbn [length]; lia).
  rewrite segs_rev.
  rewrite (onsegs_perm p _ _ (Permutation_sym (Permutation_rev _))), onsegs_swap.
  rewrite (turnsum_perm p _ _ (Permutation_sym (Permutation_rev _))), turnsum_swap.
  rewrite Z.quot_opp_l by lia. rewrite Z.odd_opp. reflexivity.
Qed.

(* ---- rotation of a closed ring ---- *)
Lemma last_indep' : forall (l : seq) a d d', last (a :: l) d = last (a :: l) d'.
Proof. induction l as [|b l IH]; intros a d d'; [reflexivity|]. change (last (a :: b :: l) d) with (last (b :: l) d). change (last (a :: b :: l) d') with (last (b :: l) d'). apply IH. Qed.
Lemma segs_app : forall (X Y : seq) d, X <> [] -> Y <> [] -> segs (X ++ Y) = segs X ++ (last X d, hd d Y) :: segs Y.
Proof.
  induction X as [|x X IH]; intros Y d HX HY; [congruence|]. destruct X as [|x' X].
  - destruct Y as [|y Y]; [congruence|]. reflexivity.
  - change ((x :: x' :: X) ++ Y) with (x :: x' :: (X ++ Y)). rewrite !segs_cons2.
    change (x' :: X ++ Y) with ((x' :: X) ++ Y). rewrite (IH Y d) by (congruence || assumption). reflexivity.
Qed.
Lemma closed_split : forall r : seq, (2 <= length r)%nat -> closed r = true -> r = removelast r ++ [hd (0, 0) r].
Proof.
  intros r H Hc. destruct r as [|a r]; [cbn in H; lia|]. unfold closed in Hc. apply pt_eqb_eq in Hc. cbn [hd].
  rewrite Hc at 3. apply app_removelast_last. discriminate.
Qed.
Lemma rotate_segs_perm : forall (A B : seq) d, A <> [] -> B <> [] ->
  Permutation (segs ((B ++ A) ++ [hd d B])) (segs ((A ++ B) ++ [hd d A])).
Proof.
  intros A B d HA HB. destruct A as [|a A']; [congruence|]. destruct B as [|b B']; [congruence|]. cbn [hd].
  rewrite <- !app_assoc.
  rewrite (segs_app (b :: B') ((a :: A') ++ [b]) a) by (discriminate || (destruct A'; discriminate)).
  rewrite (segs_app (a :: A') ((b :: B') ++ [a]) a) by (discriminate || (destruct B'; discriminate)).
  rewrite (segs_snoc (a :: A') b), (segs_snoc (b :: B') a). cbn [hd app].
  rewrite (last_indep' A' a b a).
  set (SA := segs (a :: A')). set (SB := segs (b :: B')). set (ea := (last (a :: A') a, b)). set (eb := (last (b :: B') a, a)).
  change (SB ++ eb :: SA ++ [ea]) with (SB ++ [eb] ++ SA ++ [ea]).
  change (SA ++ ea :: SB ++ [eb]) with (SA ++ [ea] ++ SB ++ [eb]).
  replace (SB ++ [eb] ++ SA ++ [ea]) with ((SB ++ [eb]) ++ (SA ++ [ea])) by (rewrite <- app_assoc; reflexivity).
  replace (SA ++ [ea] ++ SB ++ [eb]) with ((SA ++ [ea]) ++ (SB ++ [eb])) by (rewrite <- app_assoc; reflexivity).
  apply Permutation_app_comm.
Qed.
Lemma in_ring_perm : forall p r r', (2 <= length r)%nat -> (2 <= length r')%nat -> Permutation (segs r) (segs r') -> in_ring p r = in_ring p r'.
Proof.
  intros p r r' L L' HP. rewrite (in_ring_segs p r L), (in_ring_segs p r' L').
  rewrite (onsegs_perm p _ _ HP), (turnsum_perm p _ _ HP). reflexivity.
Qed.
Theorem in_ring_rotate : forall k p r, closed r = true -> in_ring p (rotate_ring k r) = in_ring p r.
Proof.
  intros k p r Hc. destruct r as [|a0 r0] eqn:Er; [reflexivity|]. rewrite <- Er in *.
  assert (Hrot : rotate_ring k r = match skipn k (removelast r) ++ firstn k (removelast r) with [] => r | h :: t => (h :: t) ++ [h] end)
    by (rewrite Er; reflexivity).
  rewrite Hrot. clear Hrot.
  destruct r0 as [|a1 r1].
  { rewrite Er. cbn [removelast]. destruct k; reflexivity. }
  assert (Hlen : (2 <= length r)%nat) by (rewrite Er; cbn [length]; lia).
  pose proof (closed_split r Hlen Hc) as Hr.
  set (c := removelast r) in *.
  assert (Hcne : c <> []).
  { intros E. rewrite E in Hr. cbn [app] in Hr. rewrite Hr in Hlen. cbn [length] in Hlen. lia. }
  assert (Hhd : hd (0, 0) r = hd (0, 0) c).
  { rewrite Hr at 1. destruct c; [congruence | reflexivity]. }
  rewrite Hhd in Hr.
  assert (Hsplit : c = firstn k c ++ skipn k c) by (symmetry; apply firstn_skipn).
  set (A := firstn k c) in *. set (B := skipn k c) in *.
  destruct A as [|a A'] eqn:EA.
  - cbn [app] in Hsplit. rewrite app_nil_r. rewrite <- Hsplit.
    destruct c as [|h t] eqn:Ecc; [congruence|]. cbn [hd] in Hr. cbv beta iota. f_equal. symmetry. exact Hr.
  - destruct B as [|b B'] eqn:EB.
    + rewrite app_nil_r in Hsplit. cbn [app]. cbv beta iota. clearbody c. subst c. cbn [hd] in Hr.
      f_equal. symmetry. exact Hr.
    + assert (HP : Permutation (segs (((b :: B') ++ (a :: A')) ++ [hd (0, 0) (b :: B')])) (segs (((a :: A') ++ (b :: B')) ++ [hd (0, 0) (a :: A')])))
        by (apply rotate_segs_perm; discriminate).
      rewrite <- Hsplit in HP. replace (hd (0, 0) (a :: A')) with (hd (0, 0) c) in HP by (rewrite Hsplit; reflexivity).
      rewrite <- Hr in HP. cbn [hd] in HP.
      change ((b :: B') ++ a :: A') with (b :: (B' ++ a :: A')) in *.
      cbv beta iota.
      assert (L1 : (2 <= length ((b :: B' ++ a :: A') ++ [b]))%nat) by (rewrite app_length; cbn [length]; lia).
      apply in_ring_perm; [exact L1 | exact Hlen | exact HP].
Qed.
