(* Lib/Geom — lemmas about Lib/GeomDefs: induction over the nested geometry tree, coordinate maps, generic list facts *)
From Coq Require Import ZArith List Bool Lia.
From GeosV.Lib Require Import GeomDefs.
Import ListNotations.
Local Open Scope Z_scope.

Section GeomInd.
  Variable P : geom -> Prop.
  Hypothesis HPoint : forall p, P (GPoint p).
  Hypothesis HLine : forall l, P (GLine l).
  Hypothesis HRing : forall l, P (GRing l).
  Hypothesis HPoly : forall s hs, P (GPoly s hs).
  Hypothesis HMPoint : forall ps, P (GMPoint ps).
  Hypothesis HMLine : forall ls, P (GMLine ls).
  Hypothesis HMPoly : forall ps, P (GMPoly ps).
  Hypothesis HColl : forall gs, Forall P gs -> P (GColl gs).
  Fixpoint geom_ind' (g : geom) : P g :=
    match g with
    | GPoint p => HPoint p
    | GLine l => HLine l
    | GRing l => HRing l
    | GPoly s hs => HPoly s hs
    | GMPoint ps => HMPoint ps
    | GMLine ls => HMLine ls
    | GMPoly ps => HMPoly ps
    | GColl gs => HColl gs ((fix F (l : list geom) : Forall P l :=
                               match l with
                               | [] => Forall_nil P
                               | h :: t => Forall_cons h (geom_ind' h) (F t)
                               end) gs)
    end.
End GeomInd.

(* ---- generic list facts used by the covariance proofs ---- *)
Lemma pt_eqb_eq : forall a b : pt, pt_eqb a b = true <-> a = b.
Proof.
  intros [ax ay] [bx by_]. unfold pt_eqb. cbn [fst snd]. rewrite andb_true_iff, !Z.eqb_eq.
  split; [intros [-> ->]; reflexivity | intros H; inversion H; auto].
Qed.
Lemma pt_eqb_refl : forall a, pt_eqb a a = true.
Proof. intros a. apply pt_eqb_eq. reflexivity. Qed.

Lemma filter_map_comm : forall {A B} (f : A -> B) (p : B -> bool) (q : A -> bool) l,
  (forall a, p (f a) = q a) -> filter p (map f l) = map f (filter q l).
Proof.
  intros A B f p q l H. induction l as [|a l IH]; cbn [map filter]; [reflexivity|].
  rewrite H. destruct (q a); cbn [map]; rewrite IH; reflexivity.
Qed.
Lemma existsb_map_comm : forall {A B} (f : A -> B) (p : B -> bool) (q : A -> bool) l,
  (forall a, p (f a) = q a) -> existsb p (map f l) = existsb q l.
Proof. intros A B f p q l H. induction l as [|a l IH]; cbn [map existsb]; [reflexivity|]. rewrite H, IH. reflexivity. Qed.
Lemma forallb_map_comm : forall {A B} (f : A -> B) (p : B -> bool) (q : A -> bool) l,
  (forall a, p (f a) = q a) -> forallb p (map f l) = forallb q l.
Proof. intros A B f p q l H. induction l as [|a l IH]; cbn [map forallb]; [reflexivity|]. rewrite H, IH. reflexivity. Qed.
Lemma flat_map_map_comm : forall {A B C D} (f : A -> B) (g : C -> D) (h : B -> list D) (k : A -> list C) l,
  (forall a, h (f a) = map g (k a)) -> flat_map h (map f l) = map g (flat_map k l).
Proof.
  intros A B C D f g h k l H. induction l as [|a l IH]; cbn [map flat_map]; [reflexivity|].
  rewrite H, IH, map_app. reflexivity.
Qed.
Lemma flat_map_ext' : forall {A B} (f g : A -> list B) l, (forall a, f a = g a) -> flat_map f l = flat_map g l.
Proof. intros. induction l; cbn; [reflexivity|]. rewrite H, IHl. reflexivity. Qed.
Lemma last_map : forall {A B} (f : A -> B) l d, last (map f l) (f d) = f (last l d).
Proof. intros A B f l d. induction l as [|a l IH]; [reflexivity|]. destruct l; [reflexivity|]. cbn [map last] in *. exact IH. Qed.
Lemma removelast_map : forall {A B} (f : A -> B) l, removelast (map f l) = map f (removelast l).
Proof. intros A B f l. induction l as [|a l IH]; [reflexivity|]. destruct l; [reflexivity|]. cbn [map removelast] in *. rewrite IH. reflexivity. Qed.
Lemma combine_map : forall {A B C D} (f : A -> C) (g : B -> D) l1 l2,
  combine (map f l1) (map g l2) = map (fun ab => (f (fst ab), g (snd ab))) (combine l1 l2).
Proof. intros A B C D f g l1. induction l1 as [|a l1 IH]; intros [|b l2]; cbn; try reflexivity. rewrite IH. reflexivity. Qed.

(* ---- sequences under an injective coordinate map ---- *)
Section MapSeq.
  Variable T : pt -> pt.
  Hypothesis Tinj : forall a b, pt_eqb (T a) (T b) = pt_eqb a b.
  Lemma dedup_map : forall l, dedup (map T l) = map T (dedup l).
  Proof.
    induction l as [|a l IH]; [reflexivity|]. destruct l as [|b l]; [reflexivity|].
    cbn [map dedup] in *. rewrite Tinj. destruct (pt_eqb a b); [exact IH| rewrite IH; reflexivity].
  Qed.
  Lemma segs_map : forall l, segs (map T l) = map (fun s => (T (fst s), T (snd s))) (segs l).
  Proof.
    induction l as [|a l IH]; [reflexivity|]. destruct l as [|b l]; [reflexivity|].
    cbn [map segs fst snd] in *. rewrite IH. reflexivity.
  Qed.
  Lemma closed_map : forall l, closed (map T l) = closed l.
  Proof.
    intros [|a l]; [reflexivity|]. unfold closed. cbn [map]. change (T a :: map T l) with (map T (a :: l)).
    rewrite last_map, Tinj. reflexivity.
  Qed.
End MapSeq.

(* ---- flattening commutes with coordinate maps ---- *)
Lemma polys_of_map : forall T g, polys_of (map_geom T g) = map (map_poly T) (polys_of g).
Proof.
  intros T g. induction g using geom_ind'; cbn [map_geom polys_of map]; try reflexivity.
  induction gs as [|h gs IH]; [reflexivity|]. inversion H as [|? ? Hh Hgs]; subst.
  cbn [map flat_map]. rewrite Hh, (IH Hgs), map_app. reflexivity.
Qed.
Lemma lines_of_map : forall T g, lines_of (map_geom T g) = map (map T) (lines_of g).
Proof.
  intros T g. induction g using geom_ind'; cbn [map_geom lines_of map]; try reflexivity.
  induction gs as [|h gs IH]; [reflexivity|]. inversion H as [|? ? Hh Hgs]; subst.
  cbn [map flat_map]. rewrite Hh, (IH Hgs), map_app. reflexivity.
Qed.
Lemma points_of_map : forall T g, points_of (map_geom T g) = map T (points_of g).
Proof.
  intros T g. induction g using geom_ind'; cbn [map_geom points_of map]; try reflexivity.
  - destruct p; reflexivity.
  - induction ps as [|[p|] ps IH]; cbn [map flat_map opt_list option_map app]; [reflexivity | rewrite IH; reflexivity | exact IH].
  - induction gs as [|h gs IH]; [reflexivity|]. inversion H as [|? ? Hh Hgs]; subst.
    cbn [map flat_map]. rewrite Hh, (IH Hgs), map_app. reflexivity.
Qed.
