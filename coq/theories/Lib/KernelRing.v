(* Lib/KernelRing — the ray-crossing counter (KernelDefs.count_segment / rcc_loop / locate_ring, the model of
   RayCrossingCounter) decides: BOUNDARY iff the point lies on a segment of the closed ring, otherwise the parity of the
   segments that cross the open right ray under the half-open rule.  Left/right parity, invariances. Owner: C07. *)
From Coq Require Import ZArith List Bool Lia Psatz Permutation.
From GeosV.Lib Require Import KernelDefs Kernel.
Import ListNotations.
Local Open Scope Z_scope.

(* ------------------------------------------------------------------ one segment *)
Definition b2z (b : bool) : Z := if b then 1 else 0.

Definition straddles (p a b : pt) : bool :=
  ((snd a >? snd p) && (snd b <=? snd p)) || ((snd b >? snd p) && (snd a <=? snd p)).

(* what makes countSegment set isPointOnSegment (same Boolean sub-terms as the code) *)
Definition flag (p a b : pt) : bool :=
  negb ((fst a <? fst p) && (fst b <? fst p)) &&
  (((fst p =? fst b) && (snd p =? snd b)) ||
   ((snd a =? snd p) && (snd b =? snd p) &&
      (let '(minx, maxx) := if fst a >? fst b then (fst b, fst a) else (fst a, fst b) in (fst p >=? minx) && (fst p <=? maxx))) ||
   (straddles p a b && (orient a b p =? 0))).

Ltac bdestruct :=
  repeat match goal with
  | |- context [?a <? ?b] => destruct (Z.ltb_spec a b)
  | |- context [?a <=? ?b] => destruct (Z.leb_spec a b)
  | |- context [?a =? ?b] => destruct (Z.eqb_spec a b)
  | |- context [?a >? ?b] => rewrite (Z.gtb_ltb a b)
  | |- context [?a >=? ?b] => rewrite (Z.geb_leb a b)
  end.

Lemma sgn_cases z : (z < 0 /\ Z.sgn z = -1) \/ (z = 0 /\ Z.sgn z = 0) \/ (0 < z /\ Z.sgn z = 1).
Proof. destruct (Z.sgn_spec z) as [[? ?]|[[? ?]|[? ?]]]; lia. Qed.

Lemma cr_left p a b : fst a < fst p -> fst b < fst p -> crosses_right p (a, b) = false.
Proof.
  destruct p as [px py], a as [ax ay], b as [bx by_]. unfold crosses_right; cbn [fst snd]. intros.
  apply orb_false_iff; split; bdestruct; cbn [andb]; try reflexivity; exfalso; nia.
Qed.
Lemma cr_nostraddle p a b : straddles p a b = false -> crosses_right p (a, b) = false.
Proof.
  destruct p as [px py], a as [ax ay], b as [bx by_]. unfold crosses_right, straddles; cbn [fst snd]. rewrite !Z.gtb_ltb. intros H.
  apply orb_false_iff in H. destruct H as [H1 H2]. apply andb_false_iff in H1, H2.
  apply orb_false_iff; split; bdestruct; cbn [andb]; try reflexivity; exfalso;
    destruct H1 as [H1|H1], H2 as [H2|H2]; zb; lia.
Qed.
Lemma cr_horizontal p a b : snd a = snd p -> snd b = snd p -> crosses_right p (a, b) = false.
Proof.
  intros. apply cr_nostraddle. unfold straddles. rewrite !Z.gtb_ltb. bdestruct; cbn; try reflexivity; lia.
Qed.
Lemma cr_straddle p a b : straddles p a b = true ->
  crosses_right p (a, b) = ((if snd b <? snd a then - orient a b p else orient a b p) >? 0).
Proof.
  destruct p as [px py], a as [ax ay], b as [bx by_]. unfold crosses_right, straddles, orient, det; cbn [fst snd].
  rewrite !Z.gtb_ltb. intros H. apply orb_true_iff in H.
  destruct (sgn_cases ((bx - ax) * (py - ay) - (by_ - ay) * (px - ax))) as [[S E]|[[S E]|[S E]]]; rewrite E; clear E;
  destruct (Z.ltb_spec by_ ay); cbn [Z.opp Z.ltb Z.compare];
  destruct H as [H|H]; zb; bdestruct; cbn [andb orb]; try reflexivity; exfalso; nia.
Qed.

(* countSegment = (flag ? on := true : count += crosses the right ray) *)
Lemma count_segment_eq p a b st :
  count_segment p a b st =
  if flag p a b then mkRcc (rcc_count st) true
  else mkRcc (rcc_count st + b2z (crosses_right p (a, b))) (rcc_on st).
Proof.
  destruct st as [c o]. unfold count_segment, flag. cbn [rcc_count rcc_on]. fold (straddles p a b).
  destruct ((fst a <? fst p) && (fst b <? fst p)) eqn:L; cbn [negb andb].
  { zb. rewrite cr_left by assumption. cbn. f_equal. lia. }
  destruct ((fst p =? fst b) && (snd p =? snd b)) eqn:V; cbn [orb]; [reflexivity|].
  destruct ((snd a =? snd p) && (snd b =? snd p)) eqn:Hh; cbn [andb orb].
  { zb. destruct (if fst a >? fst b then (fst b, fst a) else (fst a, fst b)) as [minx maxx].
    destruct ((fst p >=? minx) && (fst p <=? maxx)); cbn [orb]; [reflexivity|].
    rewrite cr_horizontal by assumption.
    replace (straddles p a b) with false; [cbn; f_equal; lia|].
    unfold straddles. rewrite !Z.gtb_ltb. symmetry. bdestruct; cbn; try reflexivity; lia. }
  destruct (straddles p a b) eqn:St; cbn [andb].
  - destruct (orient a b p =? 0) eqn:Z0; [reflexivity|].
    rewrite (cr_straddle _ _ _ St). destruct ((if snd b <? snd a then - orient a b p else orient a b p) >? 0); cbn; f_equal; lia.
  - rewrite (cr_nostraddle _ _ _ St). cbn. f_equal. lia.
Qed.

(* the flag is sound: the point is on that segment *)
Lemma flag_sound p a b : flag p a b = true -> on_segment p a b = true.
Proof.
  destruct p as [px py], a as [ax ay], b as [bx by_]. unfold flag, straddles, orient. intros H.
  unfold on_segment. rewrite andb_true_iff, env_pt_spec. unfold det in *. cbn [fst snd] in *.
  apply andb_true_iff in H. destruct H as [_ H]. apply orb_true_iff in H. destruct H as [H|H]; [apply orb_true_iff in H; destruct H as [H|H]|].
  - zb. subst. split; [lia|]. apply Z.eqb_eq. ring.
  - apply andb_true_iff in H. destruct H as [H R]. zb. subst.
    destruct (bx <? ax) eqn:G; rewrite Z.gtb_ltb, G in R; zb; (split; [lia|]); apply Z.eqb_eq; ring.
  - apply andb_true_iff in H. destruct H as [H Z0]. apply Z.eqb_eq in Z0. apply -> Z.sgn_null_iff in Z0. rewrite !Z.gtb_ltb in H.
    apply orb_true_iff in H. split; [|apply Z.eqb_eq; exact Z0].
    destruct H as [H|H]; zb; (split; [|lia]);
    destruct (Z.le_ge_cases ax bx); (rewrite ?Z.min_l, ?Z.max_r by lia); (rewrite ?Z.min_r, ?Z.max_l by lia); nia.
Qed.

(* ... and complete except for the upper endpoint of a downward segment, which the previous segment of a ring reports *)
Lemma flag_complete p a b : on_segment p a b = true -> flag p a b = true \/ (p = a /\ snd b < snd a).
Proof.
  destruct p as [px py], a as [ax ay], b as [bx by_]. unfold on_segment. rewrite andb_true_iff, env_pt_spec.
  unfold flag, straddles, orient, det; cbn [fst snd].
  intros [[Hx Hy] D]. zb.
  assert (NL : (ax <? px) && (bx <? px) = false).
  { apply andb_false_iff. destruct (Z.ltb_spec ax px), (Z.ltb_spec bx px); auto. exfalso. lia. }
  rewrite NL; cbn [negb andb].
  destruct (Z.eqb_spec px bx), (Z.eqb_spec py by_); cbn [andb orb]; auto.
  all: destruct (Z.eqb_spec ay py), (Z.eqb_spec by_ py); cbn [andb orb]; try lia.
  2: { left. apply orb_true_iff. left. rewrite ?Z.gtb_ltb. destruct (Z.ltb_spec bx ax); cbn beta iota.
       - rewrite Z.min_r, Z.max_l in Hx by lia. apply andb_true_iff; split; [apply Z.geb_le|apply Z.leb_le]; lia.
       - rewrite Z.min_l, Z.max_r in Hx by lia. apply andb_true_iff; split; [apply Z.geb_le|apply Z.leb_le]; lia. }
  all: rewrite D; cbn [Z.sgn Z.eqb]; rewrite andb_true_r, !Z.gtb_ltb.
  all: destruct (Z.ltb_spec py ay), (Z.leb_spec by_ py), (Z.ltb_spec py by_), (Z.leb_spec ay py); cbn [andb orb]; auto; try lia.
  all: try (exfalso; assert (py = by_) by lia; subst py; assert (E0 : (by_ - ay) * (bx - px) = 0) by lia; apply Z.eq_mul_0 in E0; lia).
  all: right; split; [|lia]; f_equal; try lia.
  all: assert (py = ay) by lia; subst py; assert (E0 : (by_ - ay) * (px - ax) = 0) by lia; apply Z.eq_mul_0 in E0; lia.
Qed.

Lemma on_segment_no_cross p a b : on_segment p a b = true -> crosses_right p (a, b) = false.
Proof.
  destruct p as [px py], a as [ax ay], b as [bx by_]. unfold on_segment, crosses_right, det. rewrite andb_true_iff; cbn [fst snd].
  intros [_ D]. zb. apply orb_false_iff; split; bdestruct; cbn [andb]; try reflexivity; exfalso; nia.
Qed.
Lemma on_segment_no_cross_left p a b : on_segment p a b = true -> crosses_left p (a, b) = false.
Proof.
  destruct p as [px py], a as [ax ay], b as [bx by_]. unfold on_segment, crosses_left, det. rewrite andb_true_iff; cbn [fst snd].
  intros [_ D]. zb. apply orb_false_iff; split; bdestruct; cbn [andb]; try reflexivity; exfalso; nia.
Qed.

Lemma count_segment_eq2 p a b st :
  count_segment p a b st = mkRcc (rcc_count st + b2z (crosses_right p (a, b))) (rcc_on st || flag p a b).
Proof.
  rewrite count_segment_eq. destruct (flag p a b) eqn:F.
  - rewrite (on_segment_no_cross _ _ _ (flag_sound _ _ _ F)), orb_true_r. cbn. f_equal. lia.
  - rewrite orb_false_r. reflexivity.
Qed.

(* ------------------------------------------------------------------ bags and rings of segments *)
Definition flagged (p : pt) (s : pt * pt) : bool := flag p (fst s) (snd s).
Definition onseg (p : pt) (s : pt * pt) : bool := on_segment p (fst s) (snd s).

Lemma count_if_cons {A} (f : A -> bool) x l : count_if f (x :: l) = b2z (f x) + count_if f l.
Proof. unfold count_if. cbn [filter]. destruct (f x); cbn [b2z length]; lia. Qed.
Lemma count_if_nonneg {A} (f : A -> bool) l : 0 <= count_if f l.
Proof. unfold count_if. lia. Qed.
Lemma count_if_app {A} (f : A -> bool) l1 l2 : count_if f (l1 ++ l2) = count_if f l1 + count_if f l2.
Proof. unfold count_if. rewrite filter_app, app_length. lia. Qed.

Lemma rcc_segs_spec p ss st :
  rcc_segs p ss st = mkRcc (rcc_count st + count_if (crosses_right p) ss) (rcc_on st || existsb (flagged p) ss).
Proof.
  revert st. induction ss as [|[a b] ss IH]; intros st.
  - cbn. rewrite orb_false_r. destruct st. cbn. f_equal. unfold count_if. cbn. lia.
  - unfold rcc_segs in *. cbn [fold_left fst snd]. rewrite IH, count_segment_eq2. cbn [rcc_count rcc_on existsb].
    rewrite count_if_cons. unfold flagged at 2. cbn [fst snd]. f_equal; [lia|]. now rewrite orb_assoc.
Qed.

Lemma segs_cons2 a b l : segs (a :: b :: l) = (a, b) :: segs (b :: l).
Proof. reflexivity. Qed.

Lemma rcc_loop_cons2 p a b l st :
  rcc_loop p (a :: b :: l) st = (if rcc_on (count_segment p a b st) then count_segment p a b st else rcc_loop p (b :: l) (count_segment p a b st)).
Proof. reflexivity. Qed.

Lemma rcc_loop_spec p ring : forall st, rcc_on st = false ->
  rcc_on (rcc_loop p ring st) = existsb (flagged p) (segs ring) /\
  (rcc_on (rcc_loop p ring st) = false -> rcc_count (rcc_loop p ring st) = rcc_count st + count_if (crosses_right p) (segs ring)).
Proof.
  induction ring as [|a ring IH]; intros st Hst.
  - cbn. split; auto. intros _. unfold count_if. cbn. lia.
  - destruct ring as [|b ring].
    + cbn. split; auto. intros _. unfold count_if. cbn. lia.
    + rewrite segs_cons2, rcc_loop_cons2. cbn [existsb]. rewrite count_if_cons.
      rewrite count_segment_eq2, Hst. cbn [orb rcc_on]. unfold flagged at 1. cbn [fst snd].
      destruct (flag p a b) eqn:F.
      * cbn [rcc_on orb]. split; auto. discriminate.
      * cbn [orb rcc_on]. destruct (IH (mkRcc (rcc_count st + b2z (crosses_right p (a, b))) false) eq_refl) as [I1 I2].
        split; [exact I1|]. intros H. rewrite (I2 H). cbn [rcc_count]. lia.
Qed.

(* decomposition of the segments of a vertex sequence *)
Lemma in_segs_iff a b ring : In (a, b) (segs ring) <-> exists l1 l2, ring = l1 ++ a :: b :: l2.
Proof.
  induction ring as [|x ring IH].
  - cbn. split; [tauto|]. intros (l1 & l2 & H). destruct l1; discriminate.
  - destruct ring as [|y ring].
    + cbn. split; [tauto|]. intros (l1 & l2 & H). destruct l1 as [|? [|? ?]]; discriminate.
    + rewrite segs_cons2. cbn [In]. rewrite IH. split.
      * intros [[= -> ->]|(l1 & l2 & H)]; [exists [], ring; reflexivity|exists (x :: l1), l2; rewrite H; reflexivity].
      * intros (l1 & l2 & H). destruct l1 as [|z l1]; cbn in H.
        -- injection H as -> -> _. left. reflexivity.
        -- injection H as -> H. right. exists l1, l2. exact H.
Qed.

Lemma closed_app_last l x : closed (l ++ [x]) <-> hd_error (l ++ [x]) = Some x.
Proof. unfold closed. rewrite rev_app_distr. cbn. tauto. Qed.

(* in a closed sequence every segment has a predecessor ending at its start vertex *)
Lemma segs_pred ring a b : closed ring -> In (a, b) (segs ring) -> exists z, In (z, a) (segs ring).
Proof.
  intros Hc Hin. apply in_segs_iff in Hin. destruct Hin as (l1 & l2 & E).
  destruct l1 as [|x0 l1'].
  - cbn in E.
    (* a is the first vertex, hence (closed) also the last one; the last segment ends there *)
    assert (Hne : b :: l2 <> []) by discriminate.
    destruct (exists_last Hne) as (m & y & Em).
    assert (E' : ring = (a :: m) ++ [y]) by (rewrite E, Em; reflexivity).
    rewrite E' in Hc. apply closed_app_last in Hc. cbn in Hc. injection Hc as <-.
    assert (Hne' : a :: m <> []) by discriminate.
    destruct (exists_last Hne') as (m' & z & Em').
    exists z. apply in_segs_iff. exists m', []. rewrite E', Em', <- app_assoc. reflexivity.
  - assert (Hne : x0 :: l1' <> []) by discriminate.
    destruct (exists_last Hne) as (l1'' & z & El). exists z. apply in_segs_iff. exists l1'', (b :: l2).
    rewrite E, El, <- app_assoc. reflexivity.
Qed.

Lemma existsb_ext_in {A} (f g : A -> bool) l : (forall x, In x l -> f x = true -> exists y, In y l /\ g y = true) ->
  existsb f l = true -> existsb g l = true.
Proof. intros H E. apply existsb_exists in E. destruct E as (x & Hx & Fx). apply existsb_exists. eauto. Qed.

Lemma flagged_iff_onseg p ring : closed ring -> existsb (flagged p) (segs ring) = existsb (onseg p) (segs ring).
Proof.
  intros Hc. apply eq_true_iff_eq. split; apply existsb_ext_in; intros [a b] Hin H.
  - exists (a, b). split; auto. apply flag_sound. exact H.
  - unfold onseg in H. cbn [fst snd] in H. destruct (flag_complete _ _ _ H) as [F|[-> Hlt]].
    + exists (a, b). auto.
    + destruct (segs_pred _ _ _ Hc Hin) as (z & Hz). exists (z, a). split; auto.
      unfold flagged, flag. cbn [fst snd]. rewrite !Z.eqb_refl, Z.ltb_irrefl, andb_false_r. reflexivity.
Qed.

Lemma rem2_odd n : 0 <= n -> (Z.rem n 2 =? 1) = Z.odd n.
Proof. intros H. rewrite Z.rem_mod_nonneg by lia. rewrite Zmod_odd. destruct (Z.odd n); reflexivity. Qed.

(* THE ring theorem: on a closed vertex sequence the code-level counter computes the specification *)
Theorem locate_ring_spec p ring : closed ring -> locate_ring p ring = locate_spec p (segs ring).
Proof.
  intros Hc. unfold locate_ring, locate_spec, rcc_location.
  destruct (rcc_loop_spec p ring rcc_init eq_refl) as [H1 H2]. rewrite (flagged_iff_onseg p ring Hc) in H1.
  fold (onseg p). change (fun s : pt * pt => on_segment p (fst s) (snd s)) with (onseg p).
  rewrite <- H1. destruct (rcc_on (rcc_loop p ring rcc_init)); [reflexivity|].
  rewrite (H2 eq_refl). cbn [rcc_count rcc_init]. rewrite Z.add_0_l, rem2_odd by apply count_if_nonneg. reflexivity.
Qed.

(* the same for a bag of segments without early exit (the indexed locator), provided flags and membership agree *)
Theorem locate_segs_spec p ss : existsb (flagged p) ss = existsb (onseg p) ss -> locate_segs p ss = locate_spec p ss.
Proof.
  intros H. unfold locate_segs, locate_spec, rcc_location. rewrite rcc_segs_spec. cbn [rcc_on rcc_count rcc_init orb].
  change (fun s : pt * pt => on_segment p (fst s) (snd s)) with (onseg p). rewrite H.
  destruct (existsb (onseg p) ss); [reflexivity|]. rewrite Z.add_0_l, rem2_odd by apply count_if_nonneg. reflexivity.
Qed.

(* corollaries in the shape asked for by the property *)
Corollary rcc_boundary_iff p ring : closed ring ->
  (locate_ring p ring = Boundary <-> exists a b, In (a, b) (segs ring) /\ pt_on p a b).
Proof.
  intros Hc. rewrite (locate_ring_spec p ring Hc). unfold locate_spec.
  destruct (existsb (fun s => on_segment p (fst s) (snd s)) (segs ring)) eqn:E.
  - split; [intros _|reflexivity]. apply existsb_exists in E. destruct E as ([a b] & Hin & H). exists a, b. split; auto. apply on_segment_iff. exact H.
  - split; [destruct (Z.odd _); discriminate|]. intros (a & b & Hin & H). apply on_segment_iff in H.
    assert (existsb (fun s => on_segment p (fst s) (snd s)) (segs ring) = true) by (apply existsb_exists; exists (a, b); auto). congruence.
Qed.

Corollary rcc_crossing_spec p ring : closed ring -> locate_ring p ring <> Boundary ->
  (locate_ring p ring = Interior <-> Z.odd (count_if (crosses_right p) (segs ring)) = true).
Proof.
  intros Hc. rewrite (locate_ring_spec p ring Hc). unfold locate_spec.
  destruct (existsb _ _); [congruence|]. intros _. destruct (Z.odd _); split; congruence.
Qed.

(* ------------------------------------------------------------------ left ray and right ray agree on closed rings *)
Definition above (p v : pt) : bool := snd p <? snd v.
Definition up (p : pt) (s : pt * pt) : bool := negb (above p (fst s)) && above p (snd s).
Definition down (p : pt) (s : pt * pt) : bool := above p (fst s) && negb (above p (snd s)).

Lemma straddle_on p a b : up p (a, b) = true \/ down p (a, b) = true -> det a b p = 0 -> on_segment p a b = true.
Proof.
  destruct p as [px py], a as [ax ay], b as [bx by_]. unfold up, down, above. intros H D.
  unfold on_segment. rewrite andb_true_iff, env_pt_spec. unfold det in *; cbn [fst snd] in *. split; [|apply Z.eqb_eq; exact D].
  destruct H as [H|H]; zb; (split; [|lia]);
    destruct (Z.le_ge_cases ax bx); (rewrite ?Z.min_l, ?Z.max_r by lia); (rewrite ?Z.min_r, ?Z.max_l by lia); nia.
Qed.

Lemma cross_sum p s : onseg p s = false ->
  b2z (crosses_right p s) + b2z (crosses_left p s) = b2z (up p s) + b2z (down p s).
Proof.
  destruct s as [a b]. unfold onseg; cbn [fst snd]. intros N.
  assert (ND : up p (a, b) = true \/ down p (a, b) = true -> det a b p <> 0).
  { intros H D. rewrite (straddle_on p a b H D) in N. discriminate. }
  destruct p as [px py], a as [ax ay], b as [bx by_]. unfold crosses_right, crosses_left, up, down, above, det, b2z in *; cbn [fst snd] in *.
  destruct (Z.leb_spec ay py), (Z.ltb_spec py by_), (Z.leb_spec by_ py), (Z.ltb_spec py ay); cbn [andb orb negb] in *; try lia.
  all: try (assert (ND' := ND (or_introl eq_refl))); try (assert (ND' := ND (or_intror eq_refl))).
  all: bdestruct; cbn [andb orb]; try reflexivity; exfalso; nia.
Qed.

Lemma count_cross_sum p ss : existsb (onseg p) ss = false ->
  count_if (crosses_right p) ss + count_if (crosses_left p) ss = count_if (up p) ss + count_if (down p) ss.
Proof.
  induction ss as [|s ss IH]; [reflexivity|]. cbn [existsb]. intros H. apply orb_false_iff in H. destruct H as [H1 H2].
  rewrite !count_if_cons. specialize (IH H2). pose proof (cross_sum p s H1). lia.
Qed.

Lemma last_cons_default {A} (y x : A) l : last (y :: l) x = last l y.
Proof. revert y x. induction l as [|z l IH]; intros y x; [reflexivity|]. change (last (y :: z :: l) x) with (last (z :: l) x). rewrite (IH z x), (IH z y). reflexivity. Qed.

Lemma updown_telescope p x l :
  count_if (up p) (segs (x :: l)) - count_if (down p) (segs (x :: l)) = b2z (above p (last l x)) - b2z (above p x).
Proof.
  revert x. induction l as [|y l IH]; intros x.
  - cbn. lia.
  - rewrite segs_cons2, !count_if_cons. specialize (IH y).
    rewrite (last_cons_default y x l).
    unfold up at 1, down at 1. cbn [fst snd]. destruct (above p x), (above p y); cbn [negb andb b2z] in *; lia.
Qed.

Lemma closed_last x l : closed (x :: l) -> last l x = x.
Proof.
  unfold closed. cbn [hd_error]. intros H. destruct l as [|y l]; [reflexivity|].
  assert (Hne : y :: l <> []) by discriminate. destruct (exists_last Hne) as (m & z & E). rewrite E in *.
  rewrite last_last. change (x :: m ++ [z]) with ((x :: m) ++ [z]) in H. rewrite rev_app_distr in H. cbn in H. congruence.
Qed.

Lemma updown_closed p ring : closed ring -> count_if (up p) (segs ring) = count_if (down p) (segs ring).
Proof.
  destruct ring as [|x l]; [reflexivity|]. intros Hc. pose proof (updown_telescope p x l) as T. rewrite (closed_last x l Hc) in T. lia.
Qed.

(* for a point off a closed ring the parities of the crossings of the right ray and of the left ray coincide *)
Theorem rcc_left_right p ring : closed ring -> existsb (onseg p) (segs ring) = false ->
  Z.odd (count_if (crosses_right p) (segs ring)) = Z.odd (count_if (crosses_left p) (segs ring)).
Proof.
  intros Hc Hn. pose proof (count_cross_sum p _ Hn) as S. rewrite (updown_closed p ring Hc) in S.
  replace (count_if (crosses_right p) (segs ring)) with (count_if (crosses_left p) (segs ring) + 2 * (count_if (down p) (segs ring) - count_if (crosses_left p) (segs ring))) by lia.
  apply Z.odd_add_mul_2.
Qed.

(* ------------------------------------------------------------------ the specification does not depend on order or direction *)
Definition sswap (s : pt * pt) : pt * pt := (snd s, fst s).

Lemma crosses_right_swap p s : crosses_right p (sswap s) = crosses_right p s.
Proof. destruct s as [a b]. unfold crosses_right, sswap; cbn [fst snd]. apply orb_comm. Qed.
Lemma crosses_left_swap p s : crosses_left p (sswap s) = crosses_left p s.
Proof. destruct s as [a b]. unfold crosses_left, sswap; cbn [fst snd]. apply orb_comm. Qed.
Lemma onseg_swap p s : onseg p (sswap s) = onseg p s.
Proof. destruct s as [a b]. unfold onseg, sswap; cbn [fst snd]. apply on_segment_sym. Qed.

Lemma existsb_perm {A} (f : A -> bool) l l' : Permutation l l' -> existsb f l = existsb f l'.
Proof.
  induction 1; cbn; auto.
  - now rewrite IHPermutation.
  - rewrite !orb_assoc. f_equal. apply orb_comm.
  - congruence.
Qed.
Lemma count_if_perm {A} (f : A -> bool) l l' : Permutation l l' -> count_if f l = count_if f l'.
Proof.
  induction 1; auto.
  - rewrite !count_if_cons. lia.
  - rewrite !count_if_cons. lia.
  - congruence.
Qed.
Lemma existsb_map_ext {A B} (f : B -> bool) (g : A -> bool) (h : A -> B) l : (forall x, f (h x) = g x) -> existsb f (map h l) = existsb g l.
Proof. intros E. induction l; cbn; auto. now rewrite E, IHl. Qed.
Lemma count_if_map_ext {A B} (f : B -> bool) (g : A -> bool) (h : A -> B) l : (forall x, f (h x) = g x) -> count_if f (map h l) = count_if g l.
Proof. intros E. induction l; auto. cbn [map]. rewrite !count_if_cons, E, IHl. reflexivity. Qed.

Lemma locate_spec_perm p ss ss' : Permutation ss ss' -> locate_spec p ss = locate_spec p ss'.
Proof. intros H. unfold locate_spec. rewrite (existsb_perm _ _ _ H), (count_if_perm _ _ _ H). reflexivity. Qed.
Lemma locate_spec_swap p ss : locate_spec p (map sswap ss) = locate_spec p ss.
Proof.
  unfold locate_spec. change (fun s : pt * pt => on_segment p (fst s) (snd s)) with (onseg p).
  rewrite (existsb_map_ext (onseg p) (onseg p) sswap ss (onseg_swap p)).
  rewrite (count_if_map_ext (crosses_right p) (crosses_right p) sswap ss (crosses_right_swap p)). reflexivity.
Qed.

Lemma segs_app_last l x y : segs ((l ++ [x]) ++ [y]) = segs (l ++ [x]) ++ [(x, y)].
Proof.
  induction l as [|a l IH]; [reflexivity|].
  destruct l as [|b l]; [reflexivity|]. cbn [app] in *. rewrite !segs_cons2, IH. reflexivity.
Qed.

Lemma segs_rev ring : segs (rev ring) = map sswap (rev (segs ring)).
Proof.
  induction ring as [|a ring IH]; [reflexivity|].
  destruct ring as [|b ring]; [reflexivity|].
  rewrite segs_cons2. cbn [rev] in *. rewrite segs_app_last, IH, map_app. reflexivity.
Qed.

Lemma closed_rev ring : closed ring -> closed (rev ring).
Proof. unfold closed. rewrite rev_involutive. auto. Qed.

Theorem locate_ring_rev p ring : closed ring -> locate_ring p (rev ring) = locate_ring p ring.
Proof.
  intros Hc. rewrite (locate_ring_spec p _ (closed_rev _ Hc)), (locate_ring_spec p _ Hc), segs_rev, locate_spec_swap.
  apply locate_spec_perm. apply Permutation_sym, Permutation_rev.
Qed.

(* rotation of a closed ring: drop the first vertex, close at the new first vertex *)
Definition ring_rotate (ring : list pt) : list pt :=
  match ring with x :: y :: l => (y :: l) ++ [y] | _ => ring end.

Lemma closed_rotate ring : closed (ring_rotate ring).
Proof.
  destruct ring as [|x [|y l]]; try reflexivity. unfold ring_rotate, closed. rewrite rev_app_distr. reflexivity.
Qed.

Lemma segs_rotate x y l : closed (x :: y :: l) -> Permutation (segs (ring_rotate (x :: y :: l))) (segs (x :: y :: l)).
Proof.
  intros Hc. unfold ring_rotate. rewrite segs_cons2.
  assert (Hne : y :: l <> []) by discriminate. destruct (exists_last Hne) as (m & z & E).
  pose proof (closed_last x (y :: l) Hc) as HL. rewrite E in HL. rewrite last_last in HL. subst z.
  rewrite E, segs_app_last. apply Permutation_sym, Permutation_cons_append.
Qed.

Theorem locate_ring_rotate p ring : closed ring -> locate_ring p (ring_rotate ring) = locate_ring p ring.
Proof.
  intros Hc. destruct ring as [|x [|y l]]; try reflexivity.
  rewrite (locate_ring_spec p _ (closed_rotate _)), (locate_ring_spec p _ Hc). apply locate_spec_perm, segs_rotate, Hc.
Qed.
