(* Lib/KernelSeg — segment / segment classification (KernelDefs.seg_class, the model of LineIntersector::computeIntersect
   and computeCollinearIntersection) is sound and complete w.r.t. the common points of the two closed segments. Owner: C07. *)
From Coq Require Import ZArith List Bool Lia Psatz.
From GeosV.Lib Require Import KernelDefs Kernel.
Import ListNotations.
Local Open Scope Z_scope.

Definition common (p : qpt) (p1 p2 q1 q2 : pt) : Prop := qon p p1 p2 /\ qon p q1 q2.

(* ------------------------------------------------------------------ disjoint envelopes, same side *)
Lemma env_disjoint_sound p1 p2 q1 q2 p : env_seg p1 p2 q1 q2 = false -> qon p p1 p2 -> qon p q1 q2 -> False.
Proof.
  intros He Hp Hq.
  pose proof (qon_box_x _ _ _ Hp) as Hpx. pose proof (qon_box_y _ _ _ Hp) as Hpy.
  pose proof (qon_box_x _ _ _ Hq) as Hqx. pose proof (qon_box_y _ _ _ Hq) as Hqy.
  assert (Hw : 0 < qw p) by (destruct Hp; assumption).
  assert (N : ~ (env_seg p1 p2 q1 q2 = true)) by congruence.
  rewrite env_seg_spec in N.
  assert (Z.max (fst q1) (fst q2) < Z.min (fst p1) (fst p2) \/ Z.max (fst p1) (fst p2) < Z.min (fst q1) (fst q2) \/
          Z.max (snd q1) (snd q2) < Z.min (snd p1) (snd p2) \/ Z.max (snd p1) (snd p2) < Z.min (snd q1) (snd q2)) as [C|[C|[C|C]]] by lia; nia.
Qed.

Lemma qdet_on p1 p2 a b p : qon p a b ->
  exists n m, 0 < m /\ 0 <= n <= m /\ m * qdet p1 p2 p = qw p * ((m - n) * det p1 p2 a + n * det p1 p2 b).
Proof.
  intros (Hw & n & m & Hm & Hn & Hx & Hy). exists n, m. repeat split; try lia. apply qdet_lin; assumption.
Qed.

Lemma same_side_pos p1 p2 q1 q2 p : 0 < det p1 p2 q1 -> 0 < det p1 p2 q2 -> qon p p1 p2 -> qon p q1 q2 -> False.
Proof.
  intros H1 H2 Hp Hq. pose proof (qon_line _ _ _ Hp) as H0.
  destruct (qdet_on p1 p2 _ _ _ Hq) as (n & m & Hm & Hn & E). rewrite H0 in E.
  assert (Hw : 0 < qw p) by (destruct Hp; assumption).
  assert (0 <= (m - n) * det p1 p2 q1) by nia. assert (0 <= n * det p1 p2 q2) by nia.
  assert ((m - n) * det p1 p2 q1 + n * det p1 p2 q2 = 0) by nia.
  assert (n = 0 \/ 0 < n) as [Z|Z] by lia.
  - subst n. nia.
  - nia.
Qed.
Lemma same_side_neg p1 p2 q1 q2 p : det p1 p2 q1 < 0 -> det p1 p2 q2 < 0 -> qon p p1 p2 -> qon p q1 q2 -> False.
Proof.
  intros H1 H2 Hp Hq. apply (same_side_pos p2 p1 q1 q2 p); try (rewrite det_antisym; lia); auto. now apply qon_sym.
Qed.

(* ------------------------------------------------------------------ the Cramer point lies on both segments *)
Lemma cross_on_p p1 p2 q1 q2 :
  det q1 q2 p1 * det q1 q2 p2 <= 0 -> det q1 q2 p1 <> det q1 q2 p2 -> qon (cross_pt p1 p2 q1 q2) p1 p2.
Proof.
  intros Hs Hne. unfold cross_pt. set (d1 := det q1 q2 p1) in *. set (d2 := det q1 q2 p2) in *.
  destruct (Z.ltb_spec 0 (d1 - d2)); (split; cbn [qx qy qw]; [lia|]).
  - exists d1, (d1 - d2). split; [lia|]. split; [nia|]. split; ring.
  - exists (- d1), (- (d1 - d2)). split; [lia|]. split; [nia|]. split; ring.
Qed.

Lemma det_diff_rel p1 p2 q1 q2 : det p1 p2 q1 - det p1 p2 q2 = - (det q1 q2 p1 - det q1 q2 p2).
Proof. unfold det. ring. Qed.

Lemma cross_on_q p1 p2 q1 q2 :
  det q1 q2 p1 * det q1 q2 p2 <= 0 -> det q1 q2 p1 <> det q1 q2 p2 -> det p1 p2 q1 * det p1 p2 q2 <= 0 ->
  qon (cross_pt p1 p2 q1 q2) q1 q2.
Proof.
  intros Hs Hne Hs2.
  destruct p1 as [ax ay], p2 as [bx by_], q1 as [cx cy], q2 as [dx dy].
  unfold cross_pt, det in *; cbn [fst snd] in *.
  set (d1 := (dx - cx) * (ay - cy) - (dy - cy) * (ax - cx)) in *.
  set (d2 := (dx - cx) * (by_ - cy) - (dy - cy) * (bx - cx)) in *.
  set (e1 := (bx - ax) * (cy - ay) - (by_ - ay) * (cx - ax)) in *.
  set (e2 := (bx - ax) * (dy - ay) - (by_ - ay) * (dx - ax)) in *.
  assert (Hrel : e1 - e2 = - (d1 - d2)) by (unfold e1, e2, d1, d2; ring).
  destruct (Z.ltb_spec 0 (d1 - d2)); (split; cbn [qx qy qw fst snd]; [lia|]).
  - assert (Hb : 0 <= - e1 <= d1 - d2) by (clearbody d1 d2 e1 e2; nia).
    exists (- e1), (d1 - d2). split; [lia|]. split; [exact Hb|]. clear Hb. split; unfold e1, e2, d1, d2 in *; ring.
  - assert (Hb : 0 <= e1 <= - (d1 - d2)) by (clearbody d1 d2 e1 e2; assert (d1 - d2 < 0) by lia; destruct (Z.le_gt_cases 0 e1); [split; [lia|]; destruct (Z.le_gt_cases e2 0); [lia|nia]|nia]).
    exists e1, (- (d1 - d2)). split; [lia|]. split; [exact Hb|]. clear Hb. split; unfold e1, e2, d1, d2 in *; ring.
Qed.

(* if an endpoint of Q is on the line of P, the Cramer point IS that endpoint *)
Lemma cross_rel p1 p2 q1 q2 : let D1 := det q1 q2 p1 in let D2 := det q1 q2 p2 in
  (D1 - D2 - D1) * fst p1 + D1 * fst p2 - (D1 - D2) * fst q1 = - (fst q2 - fst q1) * det p1 p2 q1 /\
  (D1 - D2 - D1) * snd p1 + D1 * snd p2 - (D1 - D2) * snd q1 = - (snd q2 - snd q1) * det p1 p2 q1 /\
  (D1 - D2 - D1) * fst p1 + D1 * fst p2 - (D1 - D2) * fst q2 = - (fst q2 - fst q1) * det p1 p2 q2 /\
  (D1 - D2 - D1) * snd p1 + D1 * snd p2 - (D1 - D2) * snd q2 = - (snd q2 - snd q1) * det p1 p2 q2.
Proof. cbv zeta. unfold det. repeat split; ring. Qed.

Lemma cross_is_q1 p1 p2 q1 q2 : det p1 p2 q1 = 0 -> det q1 q2 p1 <> det q1 q2 p2 -> qeq (cross_pt p1 p2 q1 q2) (q_of_pt q1).
Proof.
  intros E Hne. destruct (cross_rel p1 p2 q1 q2) as (R1 & R2 & _ & _). cbv zeta in *. rewrite E in *.
  unfold cross_pt, qeq, q_of_pt. destruct (Z.ltb_spec 0 (det q1 q2 p1 - det q1 q2 p2)); cbn [qx qy qw]; split; lia.
Qed.
Lemma cross_is_q2 p1 p2 q1 q2 : det p1 p2 q2 = 0 -> det q1 q2 p1 <> det q1 q2 p2 -> qeq (cross_pt p1 p2 q1 q2) (q_of_pt q2).
Proof.
  intros E Hne. destruct (cross_rel p1 p2 q1 q2) as (_ & _ & R1 & R2). cbv zeta in *. rewrite E in *.
  unfold cross_pt, qeq, q_of_pt. destruct (Z.ltb_spec 0 (det q1 q2 p1 - det q1 q2 p2)); cbn [qx qy qw]; split; lia.
Qed.
Lemma cross_is_p1 p1 p2 q1 q2 : det q1 q2 p1 = 0 -> det q1 q2 p1 <> det q1 q2 p2 -> qeq (cross_pt p1 p2 q1 q2) (q_of_pt p1).
Proof.
  intros E Hne. unfold cross_pt. rewrite E in *. destruct (Z.ltb_spec 0 (0 - det q1 q2 p2)); unfold qeq, q_of_pt; cbn [qx qy qw]; split; ring.
Qed.
Lemma cross_is_p2 p1 p2 q1 q2 : det q1 q2 p2 = 0 -> det q1 q2 p1 <> det q1 q2 p2 -> qeq (cross_pt p1 p2 q1 q2) (q_of_pt p2).
Proof.
  intros E Hne. unfold cross_pt. rewrite E in *. destruct (Z.ltb_spec 0 (det q1 q2 p1 - 0)); unfold qeq, q_of_pt; cbn [qx qy qw]; split; ring.
Qed.
Lemma cross_w_pos p1 p2 q1 q2 : det q1 q2 p1 <> det q1 q2 p2 -> 0 < qw (cross_pt p1 p2 q1 q2).
Proof. intros. unfold cross_pt. destruct (Z.ltb_spec 0 (det q1 q2 p1 - det q1 q2 p2)); cbn [qw]; lia. Qed.

(* ------------------------------------------------------------------ uniqueness of the common point unless collinear *)
Lemma param_unique D1 D2 n m n' m' : 0 < m -> 0 < m' -> (m - n) * D1 + n * D2 = 0 -> (m' - n') * D1 + n' * D2 = 0 ->
  n * m' = n' * m \/ (D1 = 0 /\ D2 = 0).
Proof.
  intros Hm Hm' E E'.
  destruct (Z.eq_dec (n * m') (n' * m)) as [|N]; [left; assumption|right].
  assert (A : m * D1 = n * (D1 - D2)) by lia. assert (A' : m' * D1 = n' * (D1 - D2)) by lia.
  assert (B : (n * m' - n' * m) * (D1 - D2) = 0) by nia.
  assert (D1 - D2 = 0) by nia. assert (m * D1 = 0) by nia. split; nia.
Qed.

Lemma same_param_qeq p p' a b n m n' m' : 0 < qw p -> 0 < qw p' -> 0 < m -> 0 < m' -> n * m' = n' * m ->
  m * qx p = qw p * ((m - n) * fst a + n * fst b) -> m * qy p = qw p * ((m - n) * snd a + n * snd b) ->
  m' * qx p' = qw p' * ((m' - n') * fst a + n' * fst b) -> m' * qy p' = qw p' * ((m' - n') * snd a + n' * snd b) ->
  qeq p p'.
Proof.
  intros Hw Hw' Hm Hm' E Hx Hy Hx' Hy'. unfold qeq. split.
  - apply (Z.mul_reg_l _ _ (m * m')); [nia|].
    replace (m * m' * (qx p * qw p')) with (m' * qw p' * (m * qx p)) by ring. rewrite Hx.
    replace (m * m' * (qx p' * qw p)) with (m * qw p * (m' * qx p')) by ring. rewrite Hx'.
    replace (m' * qw p' * (qw p * ((m - n) * fst a + n * fst b))) with (qw p * qw p' * (m' * m * fst a + n * m' * (fst b - fst a))) by ring.
    replace (m * qw p * (qw p' * ((m' - n') * fst a + n' * fst b))) with (qw p * qw p' * (m' * m * fst a + n' * m * (fst b - fst a))) by ring.
    rewrite E. reflexivity.
  - apply (Z.mul_reg_l _ _ (m * m')); [nia|].
    replace (m * m' * (qy p * qw p')) with (m' * qw p' * (m * qy p)) by ring. rewrite Hy.
    replace (m * m' * (qy p' * qw p)) with (m * qw p * (m' * qy p')) by ring. rewrite Hy'.
    replace (m' * qw p' * (qw p * ((m - n) * snd a + n * snd b))) with (qw p * qw p' * (m' * m * snd a + n * m' * (snd b - snd a))) by ring.
    replace (m * qw p * (qw p' * ((m' - n') * snd a + n' * snd b))) with (qw p * qw p' * (m' * m * snd a + n' * m * (snd b - snd a))) by ring.
    rewrite E. reflexivity.
Qed.

Lemma common_unique p p' p1 p2 q1 q2 : common p p1 p2 q1 q2 -> common p' p1 p2 q1 q2 ->
  qeq p p' \/ (det q1 q2 p1 = 0 /\ det q1 q2 p2 = 0 /\ det p1 p2 q1 = 0 /\ det p1 p2 q2 = 0).
Proof.
  intros [HP HQ] [HP' HQ'].
  pose proof (qon_line _ _ _ HQ) as L. pose proof (qon_line _ _ _ HQ') as L'.
  pose proof (qon_line _ _ _ HP) as M. pose proof (qon_line _ _ _ HP') as M'.
  destruct HP as (Hw & n & m & Hm & Hn & Hx & Hy). destruct HP' as (Hw' & n' & m' & Hm' & Hn' & Hx' & Hy').
  destruct HQ as (_ & k & l & Hl & Hk & Kx & Ky). destruct HQ' as (_ & k' & l' & Hl' & Hk' & Kx' & Ky').
  pose proof (qdet_lin q1 q2 p1 p2 p n m Hx Hy) as A. pose proof (qdet_lin q1 q2 p1 p2 p' n' m' Hx' Hy') as A'.
  pose proof (qdet_lin p1 p2 q1 q2 p k l Kx Ky) as B. pose proof (qdet_lin p1 p2 q1 q2 p' k' l' Kx' Ky') as B'.
  rewrite L in A. rewrite L' in A'. rewrite M in B. rewrite M' in B'.
  assert (A1 : (m - n) * det q1 q2 p1 + n * det q1 q2 p2 = 0) by nia.
  assert (A2 : (m' - n') * det q1 q2 p1 + n' * det q1 q2 p2 = 0) by nia.
  assert (B1 : (l - k) * det p1 p2 q1 + k * det p1 p2 q2 = 0) by nia.
  assert (B2 : (l' - k') * det p1 p2 q1 + k' * det p1 p2 q2 = 0) by nia.
  destruct (param_unique _ _ _ _ _ _ Hm Hm' A1 A2) as [E|[Z1 Z2]].
  - left. apply (same_param_qeq p p' p1 p2 n m n' m'); auto.
  - destruct (param_unique _ _ _ _ _ _ Hl Hl' B1 B2) as [E|[Z3 Z4]].
    + left. apply (same_param_qeq p p' q1 q2 k l k' l'); auto.
    + right. auto.
Qed.

(* ------------------------------------------------------------------ points on one line: reduction to one coordinate *)
Section Line.
  Variables o d : pt.
  Hypothesis d_nz : d <> (0, 0).
  Definition onl (v : pt) : Prop := fst d * (snd v - snd o) = snd d * (fst v - fst o).
  Definition qonl (p : qpt) : Prop := fst d * (qy p - qw p * snd o) = snd d * (qx p - qw p * fst o).
  Definition pr (v : pt) : Z := if fst d =? 0 then snd v else fst v.
  Definition qpr (p : qpt) : Z := if fst d =? 0 then qy p else qx p.

  Lemma d_cases : (fst d <> 0) \/ (fst d = 0 /\ snd d <> 0).
  Proof.
    destruct (Z.eq_dec (fst d) 0) as [E|N]; [right|left; auto]. split; auto. intros E2. apply d_nz.
    clear - E E2. destruct d; cbn in *; subst; reflexivity.
  Qed.

  (* raw transfer: along a non-vertical line the second coordinate follows the first *)
  Lemma between_transfer dx dy ax ay bx by_ cx cy : dx <> 0 ->
    dx * (by_ - ay) = dy * (bx - ax) -> dx * (cy - ay) = dy * (cx - ax) ->
    Z.min ax bx <= cx <= Z.max ax bx -> Z.min ay by_ <= cy <= Z.max ay by_.
  Proof.
    intros Hd Hb Hc Hx.
    assert (Hcb : dx * (by_ - cy) = dy * (bx - cx)) by lia.
    destruct (Z.le_ge_cases ax bx) as [L|L]; [rewrite Z.min_l, Z.max_r in Hx by lia|rewrite Z.min_r, Z.max_l in Hx by lia];
    destruct (Z.lt_trichotomy dx 0) as [D|[D|D]]; try lia;
    destruct (Z.le_ge_cases 0 dy) as [E|E];
    destruct (Z.le_ge_cases ay by_) as [M|M]; (rewrite ?Z.min_l, ?Z.max_r by lia); (rewrite ?Z.min_r, ?Z.max_l by lia); nia.
  Qed.

  Lemma env_pt_line a b c : onl a -> onl b -> onl c ->
    (env_pt a b c = true <-> Z.min (pr a) (pr b) <= pr c <= Z.max (pr a) (pr b)).
  Proof.
    unfold onl, pr. intros Ha Hb Hc. rewrite env_pt_spec.
    destruct d_cases as [N|[Z N]].
    - destruct (Z.eqb_spec (fst d) 0); [lia|]. split; [tauto|]. intros H. split; auto.
      apply (between_transfer (fst d) (snd d) (fst a) (snd a) (fst b) (snd b) (fst c) (snd c)); auto; lia.
    - destruct (Z.eqb_spec (fst d) 0); [|lia]. split; [tauto|]. intros H. split; auto.
      apply (between_transfer (snd d) (fst d) (snd a) (fst a) (snd b) (fst b) (snd c) (fst c)); auto; lia.
  Qed.

  Lemma pt_eq_line a b : onl a -> onl b -> (a = b <-> pr a = pr b).
  Proof.
    unfold onl, pr. intros Ha Hb. destruct a as [ax ay], b as [bx by_]; cbn [fst snd] in *.
    destruct d_cases as [N|[Z N]].
    - destruct (Z.eqb_spec (fst d) 0); [lia|]. split; [intros [= -> ->]; reflexivity|]. intros ->. f_equal.
      assert (fst d * (ay - by_) = 0) by lia. nia.
    - destruct (Z.eqb_spec (fst d) 0); [|lia]. split; [intros [= -> ->]; reflexivity|]. intros ->. f_equal.
      rewrite Z in *. assert (snd d * (ax - bx) = 0) by lia. nia.
  Qed.
  Lemma pt_eqb_spec a b : pt_eqb a b = true <-> a = b.
  Proof.
    unfold pt_eqb. rewrite andb_true_iff, !Z.eqb_eq. destruct a, b; cbn [fst snd]. split; [intros [-> ->]; reflexivity|intros [= -> ->]; auto].
  Qed.
  Lemma pt_eqb_line a b : onl a -> onl b -> (pt_eqb a b = true <-> pr a = pr b).
  Proof. intros. rewrite pt_eqb_spec. now apply pt_eq_line. Qed.

  Lemma qon_onl p a b : qon p a b -> onl a -> onl b -> qonl p.
  Proof.
    unfold onl, qonl. intros (Hw & n & m & Hm & Hn & Hx & Hy) Ha Hb.
    assert (m * (fst d * (qy p - qw p * snd o)) = m * (snd d * (qx p - qw p * fst o))); [|nia].
    replace (m * (fst d * (qy p - qw p * snd o))) with (fst d * (m * qy p - m * qw p * snd o)) by ring.
    replace (m * (snd d * (qx p - qw p * fst o))) with (snd d * (m * qx p - m * qw p * fst o)) by ring.
    rewrite Hx, Hy.
    replace (fst d * (qw p * ((m - n) * snd a + n * snd b) - m * qw p * snd o))
      with (qw p * ((m - n) * (fst d * (snd a - snd o)) + n * (fst d * (snd b - snd o)))) by ring.
    rewrite Ha, Hb. ring.
  Qed.

  Lemma qdet_line a b p : onl a -> onl b -> qonl p -> qdet a b p = 0.
  Proof.
    unfold onl, qonl, qdet. intros Ha Hb Hp.
    assert (E1 : fst d * (snd b - snd a) = snd d * (fst b - fst a)) by lia.
    assert (E2 : fst d * (qy p - qw p * snd a) = snd d * (qx p - qw p * fst a)) by (pose proof (f_equal (Z.mul (qw p)) Ha) as W; cbv beta in W; lia).
    destruct d_cases as [N|[Z N]].
    - assert (fst d * ((fst b - fst a) * (qy p - qw p * snd a) - (snd b - snd a) * (qx p - qw p * fst a)) = 0); [|nia].
      replace (fst d * ((fst b - fst a) * (qy p - qw p * snd a) - (snd b - snd a) * (qx p - qw p * fst a)))
        with ((fst b - fst a) * (fst d * (qy p - qw p * snd a)) - (fst d * (snd b - snd a)) * (qx p - qw p * fst a)) by ring.
      rewrite E1, E2. ring.
    - rewrite Z in *. assert (fst b - fst a = 0) by nia. assert (qx p - qw p * fst a = 0) by nia. nia.
  Qed.

  Lemma qon_line_iff p a b : onl a -> onl b -> 0 < qw p ->
    (qon p a b <-> qonl p /\ qw p * Z.min (pr a) (pr b) <= qpr p <= qw p * Z.max (pr a) (pr b)).
  Proof.
    intros Ha Hb Hw. split.
    - intros H. split; [eapply qon_onl; eauto|]. unfold pr, qpr. destruct (fst d =? 0); [apply qon_box_y|apply qon_box_x]; assumption.
    - intros [Hl Hb']. apply qon_iff_qonb, qonb_spec. split; auto. split; [apply qdet_line; auto|].
      unfold onl, qonl, pr, qpr in *.
      destruct d_cases as [N|[Z N]].
      + destruct (Z.eqb_spec (fst d) 0); [lia|]. split; auto.
        rewrite <- Z.mul_min_distr_nonneg_l, <- Z.mul_max_distr_nonneg_l in * by lia.
        apply (between_transfer (fst d) (snd d) (qw p * fst a) (qw p * snd a) (qw p * fst b) (qw p * snd b) (qx p) (qy p)); auto; nia.
      + destruct (Z.eqb_spec (fst d) 0); [|lia]. split; auto.
        rewrite <- Z.mul_min_distr_nonneg_l, <- Z.mul_max_distr_nonneg_l in * by lia.
        apply (between_transfer (snd d) (fst d) (qw p * snd a) (qw p * fst a) (qw p * snd b) (qw p * fst b) (qy p) (qx p)); auto; nia.
  Qed.

  Lemma qeq_line p a : 0 < qw p -> qonl p -> onl a -> qpr p = qw p * pr a -> qeq p (q_of_pt a).
  Proof.
    unfold qonl, onl, qpr, pr, qeq, q_of_pt; cbn [qx qy qw]. intros Hw Hp Ha E.
    destruct d_cases as [N|[Z N]].
    - destruct (Z.eqb_spec (fst d) 0); [lia|]. split; [lia|].
      assert (fst d * (qy p - qw p * snd a) = 0); [|nia].
      replace (fst d * (qy p - qw p * snd a)) with (fst d * (qy p - qw p * snd o) - qw p * (fst d * (snd a - snd o))) by ring.
      rewrite Hp, Ha, E. ring.
    - destruct (Z.eqb_spec (fst d) 0); [|lia]. split; [|lia].
      assert (snd d * (qx p - qw p * fst a) = 0); [|nia].
      replace (snd d * (qx p - qw p * fst a)) with (snd d * (qx p - qw p * fst o) - qw p * (snd d * (fst a - fst o))) by ring.
      rewrite <- Hp, <- Ha, Z. ring.
  Qed.
  Lemma qpr_q_of_pt a : qpr (q_of_pt a) = pr a.
  Proof. unfold qpr, pr, q_of_pt; cbn [qx qy]. reflexivity. Qed.
  Lemma qonl_q_of_pt a : qonl (q_of_pt a) <-> onl a.
  Proof. unfold qonl, onl, q_of_pt; cbn [qx qy qw]. rewrite !Z.mul_1_l. tauto. Qed.
End Line.

(* ------------------------------------------------------------------ the collinear case *)
Lemma scale_between w a b c : 0 < w ->
  (Z.min a b <= c <= Z.max a b <-> Z.min (w * a) (w * b) <= w * c <= Z.max (w * a) (w * b)).
Proof. intros Hw. rewrite Z.mul_min_distr_nonneg_l, Z.mul_max_distr_nonneg_l by lia. split; nia. Qed.
Lemma scale_eq w a b : 0 < w -> (a = b <-> w * a = w * b).
Proof. intros Hw. split; [intros ->; reflexivity|intros H; apply Z.mul_reg_l in H; lia]. Qed.

Section Collinear.
  Variables o d : pt.
  Hypothesis d_nz : d <> (0, 0).
  Variables p1 p2 q1 q2 : pt.
  Hypotheses (Hp1 : onl o d p1) (Hp2 : onl o d p2) (Hq1 : onl o d q1) (Hq2 : onl o d q2).
  Let P := pr d.
  Let QP := qpr d.

  (* everything about a rational point p and the four endpoints, in one coordinate scaled by w = qw p *)
  Lemma common_1d p : 0 < qw p -> (common p p1 p2 q1 q2 <->
     qonl o d p /\ Z.min (qw p * P p1) (qw p * P p2) <= QP p <= Z.max (qw p * P p1) (qw p * P p2) /\
     Z.min (qw p * P q1) (qw p * P q2) <= QP p <= Z.max (qw p * P q1) (qw p * P q2)).
  Proof.
    intros Hw. unfold common. rewrite (qon_line_iff o d d_nz p p1 p2), (qon_line_iff o d d_nz p q1 q2) by assumption.
    rewrite <- !Z.mul_min_distr_nonneg_l, <- !Z.mul_max_distr_nonneg_l by lia. unfold P, QP. tauto.
  Qed.
  Lemma qon_1d p a b : onl o d a -> onl o d b -> 0 < qw p ->
    (qon p a b <-> qonl o d p /\ Z.min (qw p * P a) (qw p * P b) <= QP p <= Z.max (qw p * P a) (qw p * P b)).
  Proof.
    intros Ha Hb Hw. rewrite (qon_line_iff o d d_nz p a b) by assumption.
    rewrite <- !Z.mul_min_distr_nonneg_l, <- !Z.mul_max_distr_nonneg_l by lia. unfold P, QP. tauto.
  Qed.
  Lemma env_1d w a b c : onl o d a -> onl o d b -> onl o d c -> 0 < w ->
    (env_pt a b c = true <-> Z.min (w * P a) (w * P b) <= w * P c <= Z.max (w * P a) (w * P b)).
  Proof. intros. rewrite (env_pt_line o d d_nz a b c) by assumption. apply scale_between. assumption. Qed.
  Lemma env_1d_f w a b c : onl o d a -> onl o d b -> onl o d c -> 0 < w ->
    (env_pt a b c = false <-> ~ (Z.min (w * P a) (w * P b) <= w * P c <= Z.max (w * P a) (w * P b))).
  Proof. intros. rewrite <- (env_1d w a b c) by assumption. destruct (env_pt a b c); split; intros; congruence. Qed.
  Lemma eq_1d w a b : onl o d a -> onl o d b -> 0 < w -> (pt_eqb a b = true <-> w * P a = w * P b).
  Proof. intros. rewrite (pt_eqb_line o d d_nz a b) by assumption. apply scale_eq. assumption. Qed.
  Lemma eq_1d_f w a b : onl o d a -> onl o d b -> 0 < w -> (pt_eqb a b = false <-> w * P a <> w * P b).
  Proof. intros. rewrite <- (eq_1d w a b) by assumption. destruct (pt_eqb a b); split; intros; congruence. Qed.

  Definition is_shared_endpoint (x : qpt) : Prop := exists e, x = q_of_pt e /\ (e = p1 \/ e = p2) /\ (e = q1 \/ e = q2).

  Lemma shared_endpoint_common e p : (e = p1 \/ e = p2) -> (e = q1 \/ e = q2) -> 0 < qw p -> qeq p (q_of_pt e) -> common p p1 p2 q1 q2.
  Proof.
    intros HP HQ Hw E. apply qeq_sym in E. split.
    - apply (qon_qeq (q_of_pt e)); auto. destruct HP as [->| ->]; [apply pt_on_endpoint_l|apply pt_on_endpoint_r].
    - apply (qon_qeq (q_of_pt e)); auto. destruct HQ as [->| ->]; [apply pt_on_endpoint_l|apply pt_on_endpoint_r].
  Qed.

  Ltac conv w Hw :=
    repeat match goal with
    | H : env_pt _ _ _ = true |- _ => apply (env_1d w) in H; [|assumption..]
    | H : env_pt _ _ _ = false |- _ => apply (env_1d_f w) in H; [|assumption..]
    | H : pt_eqb _ _ = true |- _ => apply (eq_1d w) in H; [|assumption..]
    | H : pt_eqb _ _ = false |- _ => apply (eq_1d_f w) in H; [|assumption..]
    end.

  Ltac gen4 w :=
    let T1 := fresh "T" in let T2 := fresh "T" in let S1 := fresh "S" in let S2 := fresh "S" in
    set (T1 := w * P p1) in *; set (T2 := w * P p2) in *; set (S1 := w * P q1) in *; set (S2 := w * P q2) in *;
    clearbody T1 T2 S1 S2.

  (* a collinear pair (a, b) of endpoints describes the common part *)
  Ltac solve_coll a b :=
    let p := fresh "p" in let H := fresh "H" in let Hw := fresh "Hw" in
    intros p; split; intros H;
    [ assert (Hw : 0 < qw p) by (destruct H as [[? _] _]; assumption);
      apply (common_1d p Hw) in H; apply (qon_1d p a b); try assumption; conv (qw p) Hw;
      destruct H as (? & ? & ?); split; [assumption|]; gen4 (qw p); lia
    | assert (Hw : 0 < qw p) by (destruct H as [? _]; assumption);
      apply (qon_1d p a b) in H; try assumption; apply (common_1d p Hw); conv (qw p) Hw;
      destruct H as (? & ?); split; [assumption|]; gen4 (qw p); lia ].

  Ltac conv0 :=
    repeat match goal with
    | H : env_pt _ _ _ = true |- _ => apply (env_pt_line o d d_nz) in H; [|assumption..]
    | H : env_pt ?a ?b ?c = false |- _ => apply not_true_iff_false in H; rewrite (env_pt_line o d d_nz a b c) in H by assumption
    | H : pt_eqb _ _ = true |- _ => apply (pt_eqb_line o d d_nz) in H; [|assumption..]
    | H : pt_eqb ?a ?b = false |- _ => apply not_true_iff_false in H; rewrite (pt_eqb_line o d d_nz a b) in H by assumption
    end.

  Ltac solve_neq a b :=
    let N1 := fresh in let N2 := fresh in let E := fresh in
    intros N1 N2 E;
    apply (pt_eq_line o d d_nz) in E; try assumption;
    rewrite (pt_eq_line o d d_nz p1 p2) in N1 by assumption; rewrite (pt_eq_line o d d_nz q1 q2) in N2 by assumption;
    conv0; lia.

  Ltac solve_point e :=
    match goal with E : pt_eqb _ _ = true |- _ => pose proof (proj1 (pt_eqb_spec _ _) E) end;
    split; [reflexivity|]; split; [exists e; repeat split; auto|];
    let p := fresh "p" in let H := fresh "H" in let Hw := fresh "Hw" in
    intros p; split; intros H;
    [ assert (Hw : 0 < qw p) by (destruct H as [[? _] _]; assumption); split; [assumption|];
      apply (common_1d p Hw) in H; destruct H as (? & ? & ?);
      apply (qeq_line o d d_nz); try assumption; conv (qw p) Hw; fold P QP; gen4 (qw p); lia
    | destruct H as [Hw H]; apply (shared_endpoint_common e p); auto ].

  Ltac solve_none :=
    let p := fresh "p" in let H := fresh "H" in let Hw := fresh "Hw" in
    intros p H; assert (Hw : 0 < qw p) by (destruct H as [[? _] _]; assumption);
    apply (common_1d p Hw) in H; conv (qw p) Hw; destruct H as (? & ? & ?); gen4 (qw p); lia.

  Lemma collinear_class_spec :
    match collinear_class p1 p2 q1 q2 with
    | SegNone => forall p, ~ common p p1 p2 q1 q2
    | SegPoint pr x => pr = false /\ is_shared_endpoint x /\ forall p, common p p1 p2 q1 q2 <-> (0 < qw p /\ qeq p x)
    | SegCollinear a b => (forall p, common p p1 p2 q1 q2 <-> qon p a b) /\ (p1 <> p2 -> q1 <> q2 -> a <> b)
    end.
  Proof.
    unfold collinear_class.
    destruct (env_pt p1 p2 q1) eqn:A1; destruct (env_pt p1 p2 q2) eqn:A2;
    destruct (env_pt q1 q2 p1) eqn:A3; destruct (env_pt q1 q2 p2) eqn:A4; cbn [andb negb].
    all: try (split; [solve_coll q1 q2 | solve_neq q1 q2]).
    all: try (split; [solve_coll p1 p2 | solve_neq p1 p2]).
    all: try solve_none.
    all: rewrite ?andb_true_r.
    - destruct (pt_eqb q1 p1) eqn:E; [solve_point q1|split; [solve_coll q1 p1|solve_neq q1 p1]].
    - destruct (pt_eqb q1 p2) eqn:E; [solve_point q1|split; [solve_coll q1 p2|solve_neq q1 p2]].
    - destruct (pt_eqb q2 p1) eqn:E; [solve_point q2|split; [solve_coll q2 p1|solve_neq q2 p1]].
    - destruct (pt_eqb q2 p2) eqn:E; [solve_point q2|split; [solve_coll q2 p2|solve_neq q2 p2]].
  Qed.
End Collinear.

(* ------------------------------------------------------------------ a common line for four mutually collinear endpoints *)
Lemma collinear_frame p1 p2 q1 q2 :
  det p1 p2 q1 = 0 -> det p1 p2 q2 = 0 -> det q1 q2 p1 = 0 -> det q1 q2 p2 = 0 ->
  exists o d, d <> (0, 0) /\ onl o d p1 /\ onl o d p2 /\ onl o d q1 /\ onl o d q2.
Proof.
  destruct p1 as [ax ay], p2 as [bx by_], q1 as [cx cy], q2 as [dx dy]. unfold det, onl; cbn [fst snd]. intros E1 E2 D1 D2.
  destruct (Z.eq_dec ax bx) as [X1|X1]; [destruct (Z.eq_dec ay by_) as [Y1|Y1]|].
  - subst bx by_.
    destruct (Z.eq_dec cx dx) as [X2|X2]; [destruct (Z.eq_dec cy dy) as [Y2|Y2]|].
    + subst dx dy.
      destruct (Z.eq_dec ax cx) as [X3|X3]; [destruct (Z.eq_dec ay cy) as [Y3|Y3]|].
      * subst cx cy. exists (ax, ay), (1, 0). cbn [fst snd]. split; [congruence|]. repeat split; ring.
      * exists (ax, ay), (cx - ax, cy - ay). cbn [fst snd]. split; [intros [= A B]; lia|]. repeat split; ring.
      * exists (ax, ay), (cx - ax, cy - ay). cbn [fst snd]. split; [intros [= A B]; lia|]. repeat split; ring.
    + exists (cx, cy), (dx - cx, dy - cy). cbn [fst snd]. split; [intros [= A B]; lia|]. repeat split; try ring; lia.
    + exists (cx, cy), (dx - cx, dy - cy). cbn [fst snd]. split; [intros [= A B]; lia|]. repeat split; try ring; lia.
  - exists (ax, ay), (bx - ax, by_ - ay). cbn [fst snd]. split; [intros [= A B]; lia|]. repeat split; try ring; lia.
  - exists (ax, ay), (bx - ax, by_ - ay). cbn [fst snd]. split; [intros [= A B]; lia|]. repeat split; try ring; lia.
Qed.

(* ------------------------------------------------------------------ the classification theorem *)
Definition is_endpoint (x : qpt) (p1 p2 q1 q2 : pt) : Prop :=
  qeq x (q_of_pt p1) \/ qeq x (q_of_pt p2) \/ qeq x (q_of_pt q1) \/ qeq x (q_of_pt q2).
Definition all_collinear (p1 p2 q1 q2 : pt) : Prop :=
  det q1 q2 p1 = 0 /\ det q1 q2 p2 = 0 /\ det p1 p2 q1 = 0 /\ det p1 p2 q2 = 0.

Lemma straddle_prod a b : ~ (0 < a /\ 0 < b) -> ~ (a < 0 /\ b < 0) -> a * b <= 0.
Proof. intros. destruct (Z.lt_trichotomy a 0) as [|[|]], (Z.lt_trichotomy b 0) as [|[|]]; try nia; exfalso; tauto. Qed.

Lemma cross_den_nz p1 p2 q1 q2 : det q1 q2 p1 * det q1 q2 p2 <= 0 -> det p1 p2 q1 * det p1 p2 q2 <= 0 ->
  ~ all_collinear p1 p2 q1 q2 -> det q1 q2 p1 <> det q1 q2 p2.
Proof.
  intros HD HE NC E. apply NC. pose proof (det_diff_rel p1 p2 q1 q2) as R. unfold all_collinear.
  assert (det q1 q2 p1 = 0) by nia. assert (det q1 q2 p2 = 0) by lia. assert (det p1 p2 q1 = det p1 p2 q2) by lia.
  assert (det p1 p2 q1 = 0) by nia. repeat split; lia.
Qed.

Lemma cross_common p1 p2 q1 q2 : det q1 q2 p1 * det q1 q2 p2 <= 0 -> det p1 p2 q1 * det p1 p2 q2 <= 0 ->
  det q1 q2 p1 <> det q1 q2 p2 -> common (cross_pt p1 p2 q1 q2) p1 p2 q1 q2.
Proof. intros. split; [apply cross_on_p|apply cross_on_q]; assumption. Qed.

Lemma point_char x p1 p2 q1 q2 : common x p1 p2 q1 q2 -> ~ all_collinear p1 p2 q1 q2 ->
  forall p, common p p1 p2 q1 q2 <-> 0 < qw p /\ qeq p x.
Proof.
  intros Hx NC p. split.
  - intros Hp. split; [destruct Hp as [[? _] _]; assumption|].
    destruct (common_unique p x p1 p2 q1 q2 Hp Hx) as [|C]; [assumption|]. exfalso. apply NC. exact C.
  - intros [Hw E]. destruct Hx as [A B]. apply qeq_sym in E. split; eapply qon_qeq; eauto.
Qed.

Lemma common_endpoint_det_p1 p1 p2 q1 q2 x : common x p1 p2 q1 q2 -> qeq x (q_of_pt p1) -> det q1 q2 p1 = 0.
Proof. intros [_ B] E. rewrite <- qdet_q_of_pt. apply qon_line. apply (qon_qeq x); auto. cbn. lia. Qed.
Lemma common_endpoint_det_p2 p1 p2 q1 q2 x : common x p1 p2 q1 q2 -> qeq x (q_of_pt p2) -> det q1 q2 p2 = 0.
Proof. intros [_ B] E. rewrite <- qdet_q_of_pt. apply qon_line. apply (qon_qeq x); auto. cbn. lia. Qed.
Lemma common_endpoint_det_q1 p1 p2 q1 q2 x : common x p1 p2 q1 q2 -> qeq x (q_of_pt q1) -> det p1 p2 q1 = 0.
Proof. intros [A _] E. rewrite <- qdet_q_of_pt. apply qon_line. apply (qon_qeq x); auto. cbn. lia. Qed.
Lemma common_endpoint_det_q2 p1 p2 q1 q2 x : common x p1 p2 q1 q2 -> qeq x (q_of_pt q2) -> det p1 p2 q2 = 0.
Proof. intros [A _] E. rewrite <- qdet_q_of_pt. apply qon_line. apply (qon_qeq x); auto. cbn. lia. Qed.

Lemma common_shared a p2 q2 : common (q_of_pt a) a p2 a q2.
Proof. split; apply pt_on_endpoint_l. Qed.

Theorem seg_class_spec p1 p2 q1 q2 :
  match seg_class p1 p2 q1 q2 with
  | SegNone => forall p, ~ common p p1 p2 q1 q2
  | SegPoint pr x => 0 < qw x /\ (forall p, common p p1 p2 q1 q2 <-> 0 < qw p /\ qeq p x) /\ (pr = true <-> ~ is_endpoint x p1 p2 q1 q2)
  | SegCollinear a b => (forall p, common p p1 p2 q1 q2 <-> qon p a b) /\ (p1 <> p2 -> q1 <> q2 -> a <> b)
  end.
Proof.
  unfold seg_class.
  destruct (env_seg p1 p2 q1 q2) eqn:He; cbn [negb]; [|intros p [HP HQ]; eapply env_disjoint_sound; eauto].
  destruct ((orient p1 p2 q1 >? 0) && (orient p1 p2 q2 >? 0) || (orient p1 p2 q1 <? 0) && (orient p1 p2 q2 <? 0)) eqn:S1.
  { apply orb_true_iff in S1. rewrite !andb_true_iff, !orient_pos, !orient_neg in S1. intros p [HP HQ].
    destruct S1 as [[A B]|[A B]]; [apply (same_side_pos p1 p2 q1 q2 p)|apply (same_side_neg p1 p2 q1 q2 p)]; assumption. }
  destruct ((orient q1 q2 p1 >? 0) && (orient q1 q2 p2 >? 0) || (orient q1 q2 p1 <? 0) && (orient q1 q2 p2 <? 0)) eqn:S2.
  { apply orb_true_iff in S2. rewrite !andb_true_iff, !orient_pos, !orient_neg in S2. intros p [HP HQ].
    destruct S2 as [[A B]|[A B]]; [apply (same_side_pos q1 q2 p1 p2 p)|apply (same_side_neg q1 q2 p1 p2 p)]; assumption. }
  apply orb_false_iff in S1. rewrite !andb_false_iff in S1. apply orb_false_iff in S2. rewrite !andb_false_iff in S2.
  assert (HE : det p1 p2 q1 * det p1 p2 q2 <= 0).
  { apply straddle_prod; rewrite <- ?orient_pos, <- ?orient_neg; intros [A B]; rewrite A, B in S1; destruct S1 as [[?|?] [?|?]]; discriminate. }
  assert (HD : det q1 q2 p1 * det q1 q2 p2 <= 0).
  { apply straddle_prod; rewrite <- ?orient_pos, <- ?orient_neg; intros [A B]; rewrite A, B in S2; destruct S2 as [[?|?] [?|?]]; discriminate. }
  clear S1 S2.
  destruct ((orient p1 p2 q1 =? 0) && (orient p1 p2 q2 =? 0) && (orient q1 q2 p1 =? 0) && (orient q1 q2 p2 =? 0)) eqn:C.
  { rewrite !andb_true_iff, !orient_zero in C. destruct C as [[[C1 C2] C3] C4].
    destruct (collinear_frame p1 p2 q1 q2 C1 C2 C3 C4) as (o & d & Hd & O1 & O2 & O3 & O4).
    pose proof (collinear_class_spec o d Hd p1 p2 q1 q2 O1 O2 O3 O4) as S.
    destruct (collinear_class p1 p2 q1 q2) as [|pr x|a b]; auto.
    destruct S as (-> & (e & -> & He1 & He2) & S). split; [cbn; lia|]. split; [exact S|].
    split; [discriminate|]. intros N. exfalso. apply N. unfold is_endpoint. destruct He1 as [->| ->]; [left|right; left]; apply qeq_refl. }
  assert (NC : ~ all_collinear p1 p2 q1 q2).
  { intros (A1 & A2 & A3 & A4). rewrite <- !orient_zero in A1, A2, A3, A4. rewrite A1, A2, A3, A4 in C. discriminate. }
  clear C.
  pose proof (cross_den_nz p1 p2 q1 q2 HD HE NC) as Hne.
  pose proof (cross_common p1 p2 q1 q2 HD HE Hne) as HX.
  pose proof (cross_w_pos p1 p2 q1 q2 Hne) as HW.
  destruct ((orient p1 p2 q1 =? 0) || (orient p1 p2 q2 =? 0) || (orient q1 q2 p1 =? 0) || (orient q1 q2 p2 =? 0)) eqn:Z.
  - (* an endpoint is the intersection point *)
    assert (EP : forall e, common (q_of_pt e) p1 p2 q1 q2 -> (e = p1 \/ e = p2 \/ e = q1 \/ e = q2) ->
                 0 < qw (q_of_pt e) /\ (forall p, common p p1 p2 q1 q2 <-> 0 < qw p /\ qeq p (q_of_pt e)) /\
                 (false = true <-> ~ is_endpoint (q_of_pt e) p1 p2 q1 q2)).
    { intros e Ce Hin. split; [cbn; lia|]. split; [apply point_char; assumption|]. split; [discriminate|].
      intros N. exfalso. apply N. unfold is_endpoint. destruct Hin as [->|[->|[->| ->]]]; auto using qeq_refl. }
    assert (XC : forall e, qeq (cross_pt p1 p2 q1 q2) (q_of_pt e) -> common (q_of_pt e) p1 p2 q1 q2).
    { intros e E. destruct HX as [A B]. split; eapply qon_qeq; eauto; cbn; lia. }
    destruct (pt_eqb p1 q1) eqn:T1. { apply pt_eqb_spec in T1. subst q1. apply EP; auto. apply common_shared. }
    destruct (pt_eqb p1 q2) eqn:T2. { apply pt_eqb_spec in T2. subst q2. apply EP; auto. split; [apply pt_on_endpoint_l|apply pt_on_endpoint_r]. }
    destruct (pt_eqb p2 q1) eqn:T3. { apply pt_eqb_spec in T3. subst q1. apply EP; auto. split; [apply pt_on_endpoint_r|apply pt_on_endpoint_l]. }
    destruct (pt_eqb p2 q2) eqn:T4. { apply pt_eqb_spec in T4. subst q2. apply EP; auto. split; apply pt_on_endpoint_r. }
    destruct (orient p1 p2 q1 =? 0) eqn:Z1. { apply orient_zero in Z1. apply EP; auto. apply XC, cross_is_q1; assumption. }
    destruct (orient p1 p2 q2 =? 0) eqn:Z2. { apply orient_zero in Z2. apply EP; auto. apply XC, cross_is_q2; assumption. }
    destruct (orient q1 q2 p1 =? 0) eqn:Z3. { apply orient_zero in Z3. apply EP; auto. apply XC, cross_is_p1; assumption. }
    destruct (orient q1 q2 p2 =? 0) eqn:Z4. { apply orient_zero in Z4. apply EP; auto. apply XC, cross_is_p2; assumption. }
    discriminate.
  - (* proper intersection *)
    apply orb_false_iff in Z. destruct Z as [Z Z4]. apply orb_false_iff in Z. destruct Z as [Z Z3]. apply orb_false_iff in Z. destruct Z as [Z1 Z2].
    split; [assumption|]. split; [apply point_char; assumption|]. split; [intros _|reflexivity].
    intros [E|[E|[E|E]]].
    + apply (common_endpoint_det_p1 _ _ _ _ _ HX) in E. apply orient_zero in E. congruence.
    + apply (common_endpoint_det_p2 _ _ _ _ _ HX) in E. apply orient_zero in E. congruence.
    + apply (common_endpoint_det_q1 _ _ _ _ _ HX) in E. apply orient_zero in E. congruence.
    + apply (common_endpoint_det_q2 _ _ _ _ _ HX) in E. apply orient_zero in E. congruence.
Qed.

(* ------------------------------------------------------------------ the classification theorem, clause by clause *)
Corollary segint_none p1 p2 q1 q2 : seg_class p1 p2 q1 q2 = SegNone -> forall p, ~ common p p1 p2 q1 q2.
Proof. intros E. pose proof (seg_class_spec p1 p2 q1 q2) as S. rewrite E in S. exact S. Qed.

Corollary segint_point p1 p2 q1 q2 pr x : seg_class p1 p2 q1 q2 = SegPoint pr x ->
  common x p1 p2 q1 q2 /\ (forall p, common p p1 p2 q1 q2 -> qeq p x) /\ (pr = true <-> ~ is_endpoint x p1 p2 q1 q2).
Proof.
  intros E. pose proof (seg_class_spec p1 p2 q1 q2) as S. rewrite E in S. destruct S as (Hw & S & P).
  split; [apply S; split; [assumption|apply qeq_refl]|]. split; [intros p Hp; apply S; assumption|exact P].
Qed.

Corollary segint_collinear p1 p2 q1 q2 a b : seg_class p1 p2 q1 q2 = SegCollinear a b ->
  (forall p, common p p1 p2 q1 q2 <-> qon p a b) /\ (p1 <> p2 -> q1 <> q2 -> a <> b).
Proof. intros E. pose proof (seg_class_spec p1 p2 q1 q2) as S. rewrite E in S. exact S. Qed.

(* completeness: the answer is NO_INTERSECTION exactly when the segments have no common point *)
Corollary segint_complete p1 p2 q1 q2 : seg_class p1 p2 q1 q2 = SegNone <-> (forall p, ~ common p p1 p2 q1 q2).
Proof.
  split; [apply segint_none|]. intros N. destruct (seg_class p1 p2 q1 q2) as [|pr x|a b] eqn:E; [reflexivity| |]; exfalso.
  - destruct (segint_point _ _ _ _ _ _ E) as (C & _). exact (N x C).
  - destruct (segint_collinear _ _ _ _ _ _ E) as (C & _). apply (N (q_of_pt a)). apply C. apply pt_on_endpoint_l.
Qed.
Corollary segs_intersect_iff p1 p2 q1 q2 : segs_intersect p1 p2 q1 q2 = true <-> exists p, common p p1 p2 q1 q2.
Proof.
  unfold segs_intersect. destruct (seg_class p1 p2 q1 q2) as [|pr x|a b] eqn:E.
  - split; [discriminate|]. intros (p & C). exfalso. exact (segint_none _ _ _ _ E p C).
  - split; [intros _|reflexivity]. exists x. apply (segint_point _ _ _ _ _ _ E).
  - split; [intros _|reflexivity]. exists (q_of_pt a). apply (segint_collinear _ _ _ _ _ _ E). apply pt_on_endpoint_l.
Qed.
