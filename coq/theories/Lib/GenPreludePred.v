(* Meaning of the primitive names used by the generated RelateNG predicate units (Gen: BP_xxx, IP_xxx, RP_xxx).
   Representation boundary (hand written): the predicate object is a record of its data members
   (BasicPredicate::m_value, IMPredicate::dimA/dimB/intMatrix); an Envelope is None (null: all NaN) or its four bounds;
   Envelope::covers / intersects / disjoint / equals / isNull follow include/geos/geom/Envelope.h + src/geom/Envelope.cpp
   (comparisons with a null envelope are false because NaN compares false). *)
From Coq Require Import ZArith List Bool.
From GeosV.Lib Require Export GenPreludeIM.
Import ListNotations.
Local Open Scope Z_scope.

Record pst := mkP { f_m_value : Z; f_dimA : Z; f_dimB : Z; f_intMatrix : im }.
Definition set_m_value (st : pst) (v : Z) : pst := mkP v (f_dimA st) (f_dimB st) (f_intMatrix st).
Definition set_dimA (st : pst) (v : Z) : pst := mkP (f_m_value st) v (f_dimB st) (f_intMatrix st).
Definition set_dimB (st : pst) (v : Z) : pst := mkP (f_m_value st) (f_dimA st) v (f_intMatrix st).
Definition set_intMatrix (st : pst) (m : im) : pst := mkP (f_m_value st) (f_dimA st) (f_dimB st) m.

Definition envl := option (Z * Z * Z * Z).      (* minx maxx miny maxy *)
Definition m_isNull_0 (e : envl) : bool := match e with None => true | Some _ => false end.
Definition m_covers_1 (a b : envl) : bool :=
  match a, b with
  | Some (ax0, ax1, ay0, ay1), Some (bx0, bx1, by0, by1) => (ax0 <=? bx0) && (bx1 <=? ax1) && (ay0 <=? by0) && (by1 <=? ay1)
  | _, _ => false
  end.
Definition m_intersects_1 (a b : envl) : bool :=
  match a, b with
  | Some (ax0, ax1, ay0, ay1), Some (bx0, bx1, by0, by1) => (bx0 <=? ax1) && (ax0 <=? bx1) && (by0 <=? ay1) && (ay0 <=? by1)
  | _, _ => false
  end.
Definition m_disjoint_1 (a b : envl) : bool := negb (m_intersects_1 a b).
Definition m_equals_1 (a b : envl) : bool :=
  match a, b with
  | None, _ => m_isNull_0 b
  | Some (ax0, ax1, ay0, ay1), Some (bx0, bx1, by0, by1) => (bx0 =? ax0) && (bx1 =? ax1) && (by0 =? ay0) && (by1 =? ay1)
  | Some _, None => false
  end.
(* IMPredicate(): IntersectionMatrix() sets every entry to Dimension::False, then E/E := A;  BasicPredicate: m_value = UNKNOWN *)
Definition pst0 : pst := mkP (-1) 0 0 [-1; -1; -1; -1; -1; -1; -1; -1; 2].
