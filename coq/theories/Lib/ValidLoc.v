(* Lib/ValidLoc — every location in a rule's violation set lies on the geometry (w.r.t. loc): it is a vertex of a ring or a
   line, or a common point of two segments, and the exact point of a proper crossing lies on both segments. *)
From Coq Require Import ZArith List Bool Lia.
From GeosV.Lib Require Import GeomDefs LocateDefs ValidDefs Geom Locate Valid ValidPerm ValidFacts.
Import ListNotations.
Local Open Scope Z_scope.

(* q (homogeneous, positive weight) lies on segment ab / on the linework of l *)
Definition hon_seg (q : hpt) (a b : pt) : Prop :=
  let '(x, y, w) := q in 0 < w /\ on_seg (x, y) (scale_pt w a) (scale_pt w b) = true.
Definition hon (q : hpt) (l : seq) : Prop :=
  let '(x, y, w) := q in 0 < w /\ on_path (x, y) (map (scale_pt w) l) = true.

Lemma hon_seg_hp : forall p a b, on_seg p a b = true -> hon_seg (hp p) a b.
Proof. intros [x y] a b H. unfold hon_seg, hp. cbn [fst snd]. rewrite !scale_pt_1. split; [lia | exact H]. Qed.
Lemma on_path_seg : forall p (l : seq) s, In s (segs l) -> on_seg p (fst s) (snd s) = true -> on_path p l = true.
Proof.
  intros p l s Hin Hon. destruct l as [|a [|b l]]; [destruct Hin | destruct Hin |].
  unfold on_path. apply existsb_exists. exists s. split; assumption.
Qed.
Lemma hon_of_seg : forall q (l : seq) s, In s (segs l) -> hon_seg q (fst s) (snd s) -> hon q l.
Proof.
  intros [[x y] w] l s Hin [Hw Hon]. split; [exact Hw|].
  apply (on_path_seg _ _ (scale_pt w (fst s), scale_pt w (snd s))); [|exact Hon].
  rewrite (segs_map (scale_pt w)). apply in_map_iff. exists s. split; [reflexivity | exact Hin].
Qed.
Lemma hon_vertex : forall p l, In p l -> hon (hp p) l.
Proof.
  intros [x y] l H. unfold hon, hp. cbn [fst snd]. split; [lia|]. rewrite map_scale_1. apply on_path_vertex. exact H.
Qed.

(* dedup keeps the linework *)
Lemma segs_dedup_incl : forall (l : seq) s, In s (segs (dedup l)) -> In s (segs l).
Proof.
  induction l as [|a l IH]; intros s H; [destruct H|]. destruct l as [|b l]; [destruct H|].
  rewrite dedup_cons2 in H. rewrite segs_cons2. destruct (pt_eqb a b) eqn:E.
  - right. apply IH. exact H.
  - pose proof (hd_dedup b (b :: l)) as Hh. destruct (dedup (b :: l)) as [|x r] eqn:Ed; [exfalso; exact (dedup_nonnil b l Ed)|].
    cbn [hd] in Hh. subst x. rewrite segs_cons2 in H. destruct H as [<- | H]; [left; reflexivity | right; apply IH; exact H].
Qed.
Lemma in_dedup : forall (l : seq) p, In p (dedup l) -> In p l.
Proof.
  induction l as [|a l IH]; intros p H; [destruct H|]. destruct l as [|b l]; [exact H|].
  rewrite dedup_cons2 in H. destruct (pt_eqb a b); [right; apply IH; exact H|].
  destruct H as [<- | H]; [left; reflexivity | right; apply IH; exact H].
Qed.
Lemma on_path_dedup : forall p l, on_path p (dedup l) = true -> on_path p l = true.
Proof.
  intros p l H. destruct (dedup l) as [|a [|b r]] eqn:E.
  - discriminate.
  - cbn [on_path] in H. apply pt_eqb_eq in H. subst p. apply on_path_vertex. apply in_dedup. rewrite E. left. reflexivity.
  - unfold on_path in H. apply existsb_exists in H. destruct H as [s [Hs Hon]].
    apply (on_path_seg _ _ s); [|exact Hon]. apply segs_dedup_incl. rewrite E. exact Hs.
Qed.
Lemma pt_eqb_scale : forall w a b, 0 < w -> pt_eqb (scale_pt w a) (scale_pt w b) = pt_eqb a b.
Proof.
  intros w [ax ay] [bx by_] Hw. apply bool_eq_iff. unfold pt_eqb, scale_pt. cbn [fst snd].
  rewrite !andb_true_iff, !Z.eqb_eq. nia.
Qed.
Lemma hon_dedup : forall q l, hon q (dedup l) -> hon q l.
Proof.
  intros [[x y] w] l [Hw H]. split; [exact Hw|]. apply on_path_dedup.
  rewrite (dedup_map (scale_pt w)) by (intros; apply pt_eqb_scale; exact Hw). exact H.
Qed.

(* ---- the exact crossing point lies on the segment ---- *)
Lemma proper_pt_on : forall a b o3 o4, opposite o3 o4 = true -> hon_seg (proper_pt a b o3 o4) a b.
Proof.
  intros [ax ay] [bx by_] o3 o4 H. unfold opposite in H. rewrite orb_true_iff, !andb_true_iff, !Z.ltb_lt in H.
  unfold proper_pt, hon_seg. cbn [fst snd].
  destruct (Z.ltb_spec 0 (o3 - o4)) as [Hw | Hw].
  - split; [exact Hw|]. apply on_seg_spec. unfold orient, scale_pt. cbn [fst snd]. split; [ring|].
    assert (0 < o3 /\ o4 < 0) as [H3 H4] by lia. split.
    + destruct (Z.le_gt_cases ax bx); nia.
    + destruct (Z.le_gt_cases ay by_); nia.
  - assert (o3 < 0 /\ 0 < o4) as [H3 H4] by lia. split; [lia|]. apply on_seg_spec. unfold orient, scale_pt. cbn [fst snd]. split; [ring|].
    split.
    + destruct (Z.le_gt_cases ax bx); nia.
    + destruct (Z.le_gt_cases ay by_); nia.
Qed.
Lemma seg_events_on : forall adj s t e, In e (seg_events adj s t) ->
  match e with EBad q => hon_seg q (fst s) (snd s) | ETouch p => on_seg p (fst s) (snd s) = true end.
Proof.
  intros adj s t e H. unfold seg_events in H.
  destruct (seg_int (fst s) (snd s) (fst t) (snd t)) as [|q|p|p q] eqn:E.
  - destruct H.
  - destruct H as [<- | []]. unfold seg_int in E.
    destruct (opposite (orient (fst s) (snd s) (fst t)) (orient (fst s) (snd s) (snd t)) &&
              opposite (orient (fst t) (snd t) (fst s)) (orient (fst t) (snd t) (snd s))) eqn:Eo.
    + inversion E; subst. apply proper_pt_on. apply andb_true_iff in Eo. apply Eo.
    + destruct (nodup_pts _) as [|x [|y l]]; discriminate.
  - destruct adj; [destruct H|]. destruct H as [<- | []].
    apply seg_int_touch in E. assert (Hin : In p (nodup_pts (cand (fst s) (snd s) (fst t) (snd t)))) by (rewrite E; left; reflexivity).
    apply (proj1 (in_nodup_pts _ _)) in Hin. apply in_cand in Hin. apply Hin.
  - apply seg_int_overlap in E. destruct E as [Hp Hq]. apply in_cand in Hp, Hq.
    destruct H as [<- | [<- | []]]; apply hon_seg_hp; [apply Hp | apply Hq].
Qed.
Lemma self_events_on : forall r e, In e (self_events r) ->
  match e with EBad q => hon q r | ETouch p => hon (hp p) r end.
Proof.
  intros r e H. unfold self_events in H. apply in_flat_map in H. destruct H as [[[i s] [j t]] [Hin He]]. cbn [fst snd] in He.
  apply in_pairs in Hin. destruct Hin as [Hs _].
  assert (Hss : In s (segs r)).
  { destruct (in_index_from _ _ _ _ s Hs) as [_ [Hl Hn]]. rewrite <- Hn. apply nth_In. cbn [Nat.add] in Hl. lia. }
  apply seg_events_on in He. destruct e as [q|p].
  - apply (hon_of_seg _ _ s); assumption.
  - apply (hon_of_seg _ _ s); [exact Hss | apply hon_seg_hp; exact He].
Qed.
Lemma cross_events_on : forall r u e, In e (cross_events r u) ->
  match e with EBad q => hon q r | ETouch p => hon (hp p) r end.
Proof.
  intros r u e H. unfold cross_events in H. apply in_flat_map in H. destruct H as [s [Hs H]].
  apply in_flat_map in H. destruct H as [t [Ht He]]. apply seg_events_on in He. destruct e as [q|p].
  - apply (hon_of_seg _ _ s); assumption.
  - apply (hon_of_seg _ _ s); [exact Hs | apply hon_seg_hp; exact He].
Qed.
Lemma in_bad_pts : forall q evs, In q (bad_pts evs) -> In (EBad q) evs.
Proof.
  intros q evs H. unfold bad_pts in H. apply in_flat_map in H. destruct H as [[q'|p] [Hin H]]; [|destruct H].
  destruct H as [<- | []]. exact Hin.
Qed.
Lemma in_touch_pts : forall p evs, In p (touch_pts evs) -> In (ETouch p) evs.
Proof.
  intros p evs H. unfold touch_pts in H. apply in_flat_map in H. destruct H as [[q|p'] [Hin H]]; [destruct H|].
  destruct H as [<- | []]. exact Hin.
Qed.

(* ---- the sets of one ring ---- *)
Lemma ring_self_set_on : forall r q, In q (ring_self_set r) -> hon q r.
Proof.
  intros r q H. unfold ring_self_set in H. apply in_app_or in H. destruct H as [H | H].
  - apply in_bad_pts in H. apply (self_events_on r _ H).
  - apply in_map_iff in H. destruct H as [p [<- H]]. apply in_touch_pts in H. apply (self_events_on r _ H).
Qed.
Lemma others_incl : forall r rs u, In u (others r rs) -> In u rs.
Proof. intros r rs u H. unfold others in H. apply filter_In in H. apply H. Qed.
Lemma ring_bad_on : forall ar r q, In q (ring_bad ar r) -> hon q r.
Proof.
  intros ar r q H. unfold ring_bad in H. cbv zeta in H.
  apply in_app_or in H. destruct H as [H | H]; [apply in_bad_pts in H; apply (self_events_on r _ H)|].
  apply in_app_or in H. destruct H as [H | H].
  { apply in_flat_map in H. destruct H as [u [_ H]]. apply in_bad_pts in H. apply (cross_events_on r u _ H). }
  apply in_app_or in H. destruct H as [H | H].
  { destruct (is_dup r ar); [|destruct H]. apply in_map_iff in H. destruct H as [p [<- H]]. apply hon_vertex. exact H. }
  apply in_map_iff in H. destruct H as [p [<- H]]. apply filter_In in H. destruct H as [H _].
  unfold touch_nodes in H. apply (proj1 (in_nodup_pts _ _)) in H. apply in_app_or in H. destruct H as [H | H].
  - apply in_touch_pts in H. apply (self_events_on r _ H).
  - apply in_flat_map in H. destruct H as [u [_ H]]. apply in_touch_pts in H. apply (cross_events_on r u _ H).
Qed.
Lemma ring_touch_pts_on : forall r rest p, In p (ring_touch_pts r rest) -> hon (hp p) r.
Proof.
  intros r rest p H. unfold ring_touch_pts in H. apply (proj1 (in_nodup_pts _ _)) in H. apply in_flat_map in H.
  destruct H as [u [_ H]]. apply in_touch_pts in H. apply (cross_events_on r u _ H).
Qed.
Lemma prune_incl : forall fuel rs r, In r (prune fuel rs) -> In r rs.
Proof.
  induction fuel as [|f IH]; intros rs r H; [exact H|]. cbn [prune] in H. apply IH in H.
  unfold prune_step in H. apply filter_In in H. apply H.
Qed.
Lemma cycle_nodes_on : forall rs p, In p (cycle_nodes rs) -> exists r, In r rs /\ hon (hp p) r.
Proof.
  intros rs p H. unfold cycle_nodes in H. cbv zeta in H. apply in_flat_map in H. destruct H as [r [Hr H]].
  exists r. split; [apply (prune_incl _ _ _ Hr) | apply (ring_touch_pts_on _ _ _ H)].
Qed.
Lemma interior_self_nodes_on : forall b r p, In p (interior_self_nodes b r) -> hon (hp p) r.
Proof.
  intros b r p H. unfold interior_self_nodes in H. cbv zeta in H. apply filter_In in H. destruct H as [H _].
  apply (proj1 (in_nodup_pts _ _)) in H. apply in_touch_pts in H. apply (self_events_on r _ H).
Qed.

(* ---- witnesses ---- *)
(* q lies on a ring of a polygon of g, or on a line of g *)
Definition witness (g : geom) (q : hpt) : Prop :=
  (exists a r, In a (polys_of g) /\ In r (poly_rings a) /\ hon q r) \/ (exists l, In l (lines_of g) /\ hon q l).

Lemma norm_ring_raw : forall ps r', In r' (all_rings (norm_polys ps)) ->
  exists a r, In a ps /\ In r (poly_rings a) /\ r' = dedup r.
Proof.
  intros ps r' H. unfold all_rings, norm_polys in H. apply in_flat_map in H. destruct H as [a' [Ha' Hr']].
  apply in_map_iff in Ha'. destruct Ha' as [a [<- Ha]]. unfold live_polys in Ha. apply filter_In in Ha. destruct Ha as [Ha _].
  exists a. unfold dedup_poly, poly_rings in Hr'. cbn [fst snd] in Hr'. destruct Hr' as [<- | Hr'].
  - exists (fst a). split; [exact Ha|]. split; [left; reflexivity | reflexivity].
  - apply in_map_iff in Hr'. destruct Hr' as [h [<- Hh]]. apply filter_In in Hh. destruct Hh as [Hh _].
    exists h. split; [exact Ha|]. split; [right; exact Hh | reflexivity].
Qed.
Lemma norm_poly_raw : forall ps a', In a' (norm_polys ps) -> exists a, In a ps /\ a' = dedup_poly a.
Proof.
  intros ps a' H. unfold norm_polys in H. apply in_map_iff in H. destruct H as [a [<- Ha]].
  unfold live_polys in Ha. apply filter_In in Ha. exists a. split; [apply Ha | reflexivity].
Qed.
Lemma dedup_poly_ring : forall a r', In r' (poly_rings (dedup_poly a)) -> exists r, In r (poly_rings a) /\ r' = dedup r.
Proof.
  intros a r' H. unfold dedup_poly, poly_rings in *. cbn [fst snd] in H. destruct H as [<- | H].
  - exists (fst a). split; [left; reflexivity | reflexivity].
  - apply in_map_iff in H. destruct H as [h [<- Hh]]. apply filter_In in Hh. exists h. split; [right; apply Hh | reflexivity].
Qed.

Definition poly_witness (ps : list poly) (q : hpt) : Prop := exists a r, In a ps /\ In r (poly_rings a) /\ hon q r.
Lemma polygonal_on : forall flag ps v q, In v (polygonal_vsets flag ps) -> In q v -> poly_witness ps q.
Proof.
  intros flag ps v q Hv Hq. unfold polygonal_vsets in Hv. cbv zeta in Hv. cbn [In] in Hv.
  assert (Hlive : forall a, In a (live_polys ps) -> In a ps) by (intros a H; unfold live_polys in H; apply filter_In in H; apply H).
  assert (Hnorm : forall r', In r' (all_rings (norm_polys ps)) -> hon q r' -> poly_witness ps q).
  { intros r' Hr' Hon. destruct (norm_ring_raw _ _ Hr') as [a [r [Ha [Hr ->]]]]. exists a, r. repeat split; try assumption. apply hon_dedup. exact Hon. }
  assert (Hnp : forall a' r', In a' (norm_polys ps) -> In r' (poly_rings a') -> hon q r' -> poly_witness ps q).
  { intros a' r' Ha' Hr' Hon. apply (Hnorm r'); [|exact Hon]. unfold all_rings. apply in_flat_map. exists a'. split; assumption. }
  destruct Hv as [<- | [<- | [<- | [<- | [<- | [<- | [<- | [<- | [<- | []]]]]]]]]].
  - destruct Hq.
  - apply in_flat_map in Hq. destruct Hq as [a [Ha Hq]]. apply in_flat_map in Hq. destruct Hq as [r [Hr Hq]].
    exists a, r. repeat split; [apply Hlive; exact Ha | exact Hr|]. unfold not_closed_set in Hq. destruct r as [|p0 r0]; [destruct Hq|].
    destruct (closed (p0 :: r0)); [destruct Hq|]. destruct Hq as [<- | []]. apply hon_vertex. left. reflexivity.
  - apply in_flat_map in Hq. destruct Hq as [a [Ha Hq]]. apply in_flat_map in Hq. destruct Hq as [r [Hr Hq]].
    exists a, r. repeat split; [apply Hlive; exact Ha | exact Hr|]. unfold too_few_set in Hq. destruct r as [|p0 r0]; [destruct Hq|].
    destruct (Nat.leb 4 _); [destruct Hq|]. destruct Hq as [<- | []]. apply hon_vertex. left. reflexivity.
  - unfold self_intersection_set in Hq. apply in_flat_map in Hq. destruct Hq as [r [Hr Hq]].
    apply (Hnorm r Hr). apply (ring_bad_on _ _ _ Hq).
  - destruct flag; [destruct Hq|]. unfold ring_self_intersection_set in Hq. apply in_flat_map in Hq. destruct Hq as [r [Hr Hq]].
    apply (Hnorm r Hr). apply (ring_self_set_on _ _ Hq).
  - apply in_flat_map in Hq. destruct Hq as [a [Ha Hq]]. unfold hole_outside_set in Hq. apply in_flat_map in Hq.
    destruct Hq as [h [Hh Hq]]. destruct (ring_inside h (fst a)); [destruct Hq|]. apply in_map_iff in Hq. destruct Hq as [p [<- Hp]].
    apply (Hnp a h Ha); [right; exact Hh | apply hon_vertex; exact Hp].
  - apply in_flat_map in Hq. destruct Hq as [a [Ha Hq]]. unfold nested_holes_set in Hq. apply in_flat_map in Hq.
    destruct Hq as [h [Hh Hq]]. destruct (existsb _ _); [|destruct Hq]. apply in_map_iff in Hq. destruct Hq as [p [<- Hp]].
    apply (Hnp a h Ha); [right; exact Hh | apply hon_vertex; exact Hp].
  - unfold nested_shells_set in Hq. apply in_flat_map in Hq. destruct Hq as [a [Ha Hq]].
    destruct (existsb _ _); [|destruct Hq]. apply in_map_iff in Hq. destruct Hq as [p [<- Hp]].
    apply (Hnp a (fst a) Ha); [left; reflexivity | apply hon_vertex; exact Hp].
  - unfold disconnected_set in Hq. apply in_flat_map in Hq. destruct Hq as [a [Ha Hq]]. unfold poly_disconnected_set in Hq.
    apply in_app_or in Hq. destruct Hq as [Hq | Hq].
    + apply in_map_iff in Hq. destruct Hq as [p [<- Hp]]. apply cycle_nodes_on in Hp. destruct Hp as [r [Hr Hon]].
      apply (Hnp a r Ha Hr Hon).
    + destruct flag; [|destruct Hq]. apply in_map_iff in Hq. destruct Hq as [p [<- Hp]]. apply in_app_or in Hp. destruct Hp as [Hp | Hp].
      * apply (Hnp a (fst a) Ha); [left; reflexivity | apply (interior_self_nodes_on _ _ _ Hp)].
      * apply in_flat_map in Hp. destruct Hp as [h [Hh Hp]]. apply (Hnp a h Ha); [right; exact Hh | apply (interior_self_nodes_on _ _ _ Hp)].
Qed.

Lemma in_zip_app : forall a b v q, In v (zip_app a b) -> In q v -> (exists va, In va a /\ In q va) \/ (exists vb, In vb b /\ In q vb).
Proof.
  induction a as [|x a IH]; intros b v q Hv Hq.
  - right. exists v. split; assumption.
  - destruct b as [|y b]; [left; exists v; split; assumption|]. cbn [zip_app] in Hv. destruct Hv as [<- | Hv].
    + apply in_app_or in Hq. destruct Hq as [Hq | Hq]; [left; exists x | right; exists y]; split; try assumption; left; reflexivity.
    + destruct (IH b v q Hv Hq) as [[va [H1 H2]] | [vb [H1 H2]]]; [left; exists va | right; exists vb]; split; try assumption; right; assumption.
Qed.
Lemma no_viol_in : forall v q, In v no_viol -> In q v -> False.
Proof. intros v q Hv Hq. unfold no_viol in Hv. cbn in Hv. repeat (destruct Hv as [<- | Hv]; [destruct Hq|]). destruct Hv. Qed.
Lemma vsets_witness : forall flag g v q, In v (vsets_of flag g) -> In q v -> witness g q.
Proof.
  intros flag g. induction g using geom_ind'; intros v q Hv Hq; cbn [vsets_of] in Hv.
  - exfalso. exact (no_viol_in _ _ Hv Hq).
  - right. exists l. split; [left; reflexivity|]. unfold line_vsets in Hv. cbn [In] in Hv.
    repeat (destruct Hv as [<- | Hv]; [try destruct Hq|]); try destruct Hv.
    unfold too_few_set in Hq. destruct l as [|p0 r0]; [destruct Hq|]. destruct (Nat.leb 2 _); [destruct Hq|].
    destruct Hq as [<- | []]. apply hon_vertex. left. reflexivity.
  - right. exists l. split; [left; reflexivity|]. unfold ring_vsets in Hv. cbn [In] in Hv.
    destruct Hv as [<- | [<- | [<- | [<- | [<- | Hv]]]]]; try (destruct Hq; fail).
    + unfold not_closed_set in Hq. destruct l as [|p0 r0]; [destruct Hq|]. destruct (closed (p0 :: r0)); [destruct Hq|].
      destruct Hq as [<- | []]. apply hon_vertex. left. reflexivity.
    + unfold too_few_set in Hq. destruct l as [|p0 r0]; [destruct Hq|]. destruct (Nat.leb 4 _); [destruct Hq|].
      destruct Hq as [<- | []]. apply hon_vertex. left. reflexivity.
    + apply hon_dedup. apply (ring_self_set_on _ _ Hq).
    + repeat (destruct Hv as [<- | Hv]; [destruct Hq|]). destruct Hv.
  - left. destruct (polygonal_on _ _ _ _ Hv Hq) as [a [r [Ha H]]]. exists a, r. split; [exact Ha | exact H].
  - exfalso. exact (no_viol_in _ _ Hv Hq).
  - right. revert v q Hv Hq. induction ls as [|l ls IH]; intros v q Hv Hq; [exfalso; exact (no_viol_in _ _ Hv Hq)|]. cbn [fold_right] in Hv.
    destruct (in_zip_app _ _ _ _ Hv Hq) as [[va [H1 H2]] | [vb [H1 H2]]].
    + exists l. split; [left; reflexivity|]. unfold line_vsets in H1. cbn [In] in H1.
      repeat (destruct H1 as [<- | H1]; [try destruct H2|]); try destruct H1.
      unfold too_few_set in H2. destruct l as [|p0 r0]; [destruct H2|]. destruct (Nat.leb 2 _); [destruct H2|].
      destruct H2 as [<- | []]. apply hon_vertex. left. reflexivity.
    + destruct (IH _ _ H1 H2) as [l' [Hl' Hon]]. exists l'. split; [right; exact Hl' | exact Hon].
  - left. destruct (polygonal_on _ _ _ _ Hv Hq) as [a [r [Ha Hr]]]. exists a, r. split; [exact Ha | exact Hr].
  - revert v q Hv Hq. induction gs as [|h gs IH]; intros v q Hv Hq; [exfalso; exact (no_viol_in _ _ Hv Hq)|]. inversion H as [|? ? Hh Hgs]; subst.
    cbn [fold_right] in Hv. destruct (in_zip_app _ _ _ _ Hv Hq) as [[va [H1 H2]] | [vb [H1 H2]]].
    + destruct (Hh _ _ H1 H2) as [[a [r [Ha Hr]]] | [l [Hl Hon]]].
      * left. exists a, r. split; [|exact Hr]. cbn [polys_of flat_map]. apply in_or_app. left. exact Ha.
      * right. exists l. split; [|exact Hon]. cbn [lines_of flat_map]. apply in_or_app. left. exact Hl.
    + destruct (IH Hgs _ _ H1 H2) as [[a [r [Ha Hr]]] | [l [Hl Hon]]].
      * left. exists a, r. split; [|exact Hr]. cbn [polys_of flat_map]. apply in_or_app. right. exact Ha.
      * right. exists l. split; [|exact Hon]. cbn [lines_of flat_map]. apply in_or_app. right. exact Hl.
Qed.

(* ---- a witness is not in the exterior ---- *)
Lemma loc_dim_poly_witness : forall rule g p a r, In a (polys_of g) -> In r (poly_rings a) -> on_path p r = true ->
  fst (loc_dim rule g p) <> Exterior.
Proof.
  intros rule g p a r Ha Hr Hon. unfold loc_dim.
  destruct (existsb (fun a0 => location_eqb (loc_poly p a0) Interior) (polys_of g)); [discriminate|].
  assert (Hb : existsb (fun a0 => location_eqb (loc_poly p a0) Boundary) (polys_of g) = true).
  { apply existsb_exists. exists a. split; [exact Ha|]. unfold loc_poly.
    assert (He : existsb (on_path p) (poly_rings a) = true) by (apply existsb_exists; exists r; split; assumption).
    rewrite He. reflexivity. }
  rewrite Hb. discriminate.
Qed.
Lemma loc_dim_line_witness : forall rule g p l, In l (lines_of g) -> on_path p l = true -> fst (loc_dim rule g p) <> Exterior.
Proof.
  intros rule g p l Hl Hon. unfold loc_dim.
  destruct (existsb (fun a0 => location_eqb (loc_poly p a0) Interior) (polys_of g)); [discriminate|].
  destruct (existsb (fun a0 => location_eqb (loc_poly p a0) Boundary) (polys_of g)); [discriminate|].
  unfold loc_lines. destruct (in_boundary rule (end_count p (lines_of g))); [discriminate|].
  assert (He : existsb (on_path p) (lines_of g) = true) by (apply existsb_exists; exists l; split; assumption).
  rewrite He. discriminate.
Qed.
Lemma witness_loc : forall g q, witness g q -> loc_h g q <> Exterior.
Proof.
  intros g [[x y] w] [[a [r [Ha [Hr [Hw Hon]]]]] | [l [Hl [Hw Hon]]]]; unfold loc_h, loc, loc_rule.
  - apply (loc_dim_poly_witness _ _ _ (map_poly (scale_pt w) a) (map (scale_pt w) r)); [| |exact Hon].
    + rewrite polys_of_map. apply in_map. exact Ha.
    + destruct a as [s hs]. unfold poly_rings, map_poly in *. cbn [fst snd] in *.
      change (map (scale_pt w) s :: map (map (scale_pt w)) hs) with (map (map (scale_pt w)) (s :: hs)). apply in_map. exact Hr.
  - apply (loc_dim_line_witness _ _ _ (map (scale_pt w) l)); [|exact Hon]. rewrite lines_of_map. apply in_map. exact Hl.
Qed.
Lemma rule_set_in : forall flag ru g q, In q (rule_set flag ru g) -> exists v, In v (vsets_of flag g) /\ In q v.
Proof.
  intros flag ru g q H. unfold rule_set in H.
  destruct (find _ (violations flag g)) as [[r v]|] eqn:E; [|destruct H]. apply find_some in E. destruct E as [E _].
  unfold violations in E. apply in_combine_r in E. exists v. split; [exact E | exact H].
Qed.
(* every location at which a rule is reported broken lies on the geometry *)
Theorem violation_on_geometry : forall flag ru g q, In q (rule_set flag ru g) -> loc_h g q <> Exterior.
Proof.
  intros flag ru g q H. destruct (rule_set_in _ _ _ _ H) as [v [Hv Hq]]. apply witness_loc. apply (vsets_witness flag g v q Hv Hq).
Qed.

(* ---- the same for the non-simple locations ---- *)
Lemma seg_int_on : forall a b c d,
  match seg_int a b c d with
  | SNone => True
  | SProper q => hon_seg q a b
  | STouch p => on_seg p a b = true
  | SOverlap p q => on_seg p a b = true /\ on_seg q a b = true
  end.
Proof.
  intros a b c d. destruct (seg_int a b c d) as [|q|p|p q] eqn:E; [exact I | | |].
  - unfold seg_int in E.
    destruct (opposite (orient a b c) (orient a b d) && opposite (orient c d a) (orient c d b)) eqn:Eo.
    + inversion E; subst. apply proper_pt_on. apply andb_true_iff in Eo. apply Eo.
    + destruct (nodup_pts _) as [|x [|y l]]; discriminate.
  - apply seg_int_touch in E. assert (Hin : In p (nodup_pts (cand a b c d))) by (rewrite E; left; reflexivity).
    apply (proj1 (in_nodup_pts _ _)) in Hin. apply in_cand in Hin. apply Hin.
  - apply seg_int_overlap in E. destruct E as [Hp Hq]. apply in_cand in Hp, Hq. split; [apply Hp | apply Hq].
Qed.
Lemma index_seg_in : forall (l : seq) i s, In (i, s) (index_from 0 (segs l)) -> In s (segs l).
Proof.
  intros l i s H. destruct (in_index_from _ _ _ _ s H) as [_ [Hl Hn]]. rewrite <- Hn. apply nth_In. cbn [Nat.add] in Hl. lia.
Qed.
Lemma line_nonsimple_on : forall l q, In q (line_nonsimple_pts l) -> hon q l.
Proof.
  intros l q H. unfold line_nonsimple_pts in H. cbv zeta in H. apply in_flat_map in H.
  destruct H as [[[i s] [j t]] [Hin Hq]]. cbn [fst snd] in Hq. apply in_pairs in Hin. destruct Hin as [Hs _].
  apply index_seg_in in Hs. apply hon_dedup.
  pose proof (seg_int_on (fst s) (snd s) (fst t) (snd t)) as Hon.
  destruct (seg_int (fst s) (snd s) (fst t) (snd t)) as [|q'|p|p p'].
  - destruct Hq.
  - destruct Hq as [<- | []]. apply (hon_of_seg _ _ s); assumption.
  - destruct (Nat.eqb j (S i)); [destruct Hq|]. destruct (_ && _); [destruct Hq|]. destruct Hq as [<- | []].
    apply (hon_of_seg _ _ s); [exact Hs | apply hon_seg_hp; exact Hon].
  - destruct Hon as [H1 H2]. destruct Hq as [<- | [<- | []]]; apply (hon_of_seg _ _ s); try exact Hs; apply hon_seg_hp; assumption.
Qed.
Lemma lines_cross_nonsimple_on : forall l u q, In q (lines_cross_nonsimple_pts l u) -> hon q l.
Proof.
  intros l u q H. unfold lines_cross_nonsimple_pts in H. cbv zeta in H. apply in_flat_map in H. destruct H as [e [He Hq]].
  apply hon_dedup. pose proof (cross_events_on _ _ _ He) as Hon. destruct e as [q'|p].
  - destruct Hq as [<- | []]. exact Hon.
  - destruct (_ && _); [destruct Hq|]. destruct Hq as [<- | []]. exact Hon.
Qed.
Definition witness_pt (g : geom) (q : hpt) : Prop := witness g q \/ exists p, In p (points_of g) /\ q = hp p.
Lemma in_dup_pts : forall p l, In p (dup_pts l) -> In p l.
Proof.
  intros p l. induction l as [|a l IH]; intros H; [destruct H|]. cbn [dup_pts] in H. destruct (mem_pt a l).
  - destruct H as [<- | H]; [left; reflexivity | right; apply IH; exact H].
  - right. apply IH. exact H.
Qed.
Lemma nonsimple_witness : forall g q, In q (nonsimple_pts g) -> witness_pt g q.
Proof.
  intros g. induction g using geom_ind'; intros q Hq; cbn [nonsimple_pts] in Hq.
  - destruct Hq.
  - left. right. exists l. split; [left; reflexivity | apply line_nonsimple_on; exact Hq].
  - left. right. exists l. split; [left; reflexivity | apply line_nonsimple_on; exact Hq].
  - left. left. apply in_flat_map in Hq. destruct Hq as [r [Hr Hq]]. exists (s, hs), r.
    split; [left; reflexivity|]. split; [exact Hr | apply line_nonsimple_on; exact Hq].
  - right. apply in_map_iff in Hq. destruct Hq as [p [<- Hp]]. exists p. split; [|reflexivity]. apply in_dup_pts in Hp. exact Hp.
  - left. right. unfold lines_nonsimple_pts in Hq. apply in_flat_map in Hq. destruct Hq as [l [Hl Hq]]. exists l. split; [exact Hl|].
    apply in_app_or in Hq. destruct Hq as [Hq | Hq]; [apply line_nonsimple_on; exact Hq|].
    apply in_app_or in Hq. destruct Hq as [Hq | Hq].
    + apply in_flat_map in Hq. destruct Hq as [u [_ Hq]]. apply (lines_cross_nonsimple_on _ _ _ Hq).
    + destruct (_ && _); [|destruct Hq]. apply in_map_iff in Hq. destruct Hq as [p [<- Hp]]. apply hon_vertex. exact Hp.
  - left. left. apply in_flat_map in Hq. destruct Hq as [a [Ha Hq]]. apply in_flat_map in Hq. destruct Hq as [r [Hr Hq]].
    exists a, r. split; [exact Ha|]. split; [exact Hr | apply line_nonsimple_on; exact Hq].
  - apply in_flat_map in Hq. destruct Hq as [h [Hh Hq]]. rewrite Forall_forall in H. specialize (H h Hh q Hq).
    destruct H as [[[a [r [Ha Hr]]] | [l [Hl Hon]]] | [p [Hp ->]]].
    + left. left. exists a, r. split; [|exact Hr]. cbn [polys_of]. apply in_flat_map. exists h. split; assumption.
    + left. right. exists l. split; [|exact Hon]. cbn [lines_of]. apply in_flat_map. exists h. split; assumption.
    + right. exists p. split; [|reflexivity]. cbn [points_of]. apply in_flat_map. exists h. split; assumption.
Qed.
Theorem nonsimple_on_geometry : forall g q, In q (nonsimple_pts g) -> loc_h g q <> Exterior.
Proof.
  intros g q H. destruct (nonsimple_witness g q H) as [W | [p [Hp ->]]]; [apply witness_loc; exact W|].
  destruct p as [x y]. unfold loc_h, hp, loc, loc_rule, loc_dim. cbn [fst snd].
  destruct (existsb _ (polys_of _)); [discriminate|]. destruct (existsb _ (polys_of _)); [discriminate|].
  destruct (loc_lines _ _ _); try discriminate.
  assert (E : existsb (pt_eqb (x, y)) (points_of (map_geom (scale_pt 1) g)) = true).
  { apply existsb_exists. exists (x, y). split; [|apply pt_eqb_refl]. rewrite points_of_map.
    rewrite (map_ext _ (fun a => a)) by apply scale_pt_1. rewrite map_id. exact Hp. }
  rewrite E. discriminate.
Qed.
