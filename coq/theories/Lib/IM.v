(* DE-9IM: matrices, pattern symbols, the OGC/JTS named predicates as PATTERN SETS (specification level). *)
From Coq Require Import ZArith List Bool Ascii String Lia.
Import ListNotations.
Local Open Scope Z_scope.

(* dimension values: F = -1, 0, 1, 2 ; in patterns additionally T = -2 and * = -3 *)
Definition dF : Z := -1.
Definition dT : Z := -2.
Definition dAny : Z := -3.

Definition matrix := list Z.                      (* 9 entries, row major: II IB IE BI BB BE EI EB EE *)
Definition entry (m : matrix) (r c : Z) : Z := nth (Z.to_nat (3 * r + c)) m dF.
Definition mk9 (a b c d e f g h i : Z) : matrix := [a; b; c; d; e; f; g; h; i].
Definition transpose (m : matrix) : matrix :=
  match m with [a; b; c; d; e; f; g; h; i] => [a; d; g; b; e; h; c; f; i] | _ => m end.

(* one pattern symbol against one dimension value *)
Inductive sym := SAny | ST | SF | S0 | S1 | S2.
Definition sym_matches (s : sym) (v : Z) : bool :=
  match s with
  | SAny => true
  | ST => (0 <=? v) || (v =? dT)
  | SF => v =? dF
  | S0 => v =? 0
  | S1 => v =? 1
  | S2 => v =? 2
  end.
Definition sym_of_code (c : Z) : option sym :=
  if c =? 42 then Some SAny else if c =? 84 then Some ST else if c =? 70 then Some SF
  else if c =? 48 then Some S0 else if c =? 49 then Some S1 else if c =? 50 then Some S2 else None.
Fixpoint pat_matches (p : list sym) (m : matrix) : bool :=
  match p, m with
  | [], [] => true
  | s :: p', v :: m' => sym_matches s v && pat_matches p' m'
  | _, _ => false
  end.
Definition any_pat (ps : list (list sym)) (m : matrix) : bool := existsb (fun p => pat_matches p m) ps.

Definition P (s : string) : list sym :=
  (fix go (s : string) := match s with
     | EmptyString => []
     | String c r => (match c with "*"%char => SAny | "T"%char => ST | "F"%char => SF | "0"%char => S0 | "1"%char => S1 | _ => S2 end) :: go r
     end) s.

(* the named predicates, as in the OGC SFS / JTS documentation *)
Definition spec_disjoint := any_pat [P "FF*FF****"].
Definition spec_intersects m := negb (spec_disjoint m).
Definition spec_within := any_pat [P "T*F**F***"].
Definition spec_contains := any_pat [P "T*****FF*"].
Definition spec_covers := any_pat [P "T*****FF*"; P "*T****FF*"; P "***T**FF*"; P "****T*FF*"].
Definition spec_coveredBy := any_pat [P "T*F**F***"; P "*TF**F***"; P "**FT*F***"; P "**F*TF***"].
Definition spec_equals (dA dB : Z) m := (dA =? dB) && any_pat [P "T*F**FFF*"] m.
Definition spec_touches (dA dB : Z) m :=
  negb ((dA =? 0) && (dB =? 0)) && (0 <=? dA) && (0 <=? dB) && (dA <=? 2) && (dB <=? 2) &&
  any_pat [P "FT*******"; P "F**T*****"; P "F***T****"] m.
Definition spec_crosses (dA dB : Z) m :=
  if ((dA =? 0) && (dB =? 1)) || ((dA =? 0) && (dB =? 2)) || ((dA =? 1) && (dB =? 2)) then any_pat [P "T*T******"] m
  else if ((dA =? 1) && (dB =? 0)) || ((dA =? 2) && (dB =? 0)) || ((dA =? 2) && (dB =? 1)) then any_pat [P "T*****T**"] m
  else if (dA =? 1) && (dB =? 1) then any_pat [P "0********"] m
  else false.
Definition spec_overlaps (dA dB : Z) m :=
  if ((dA =? 0) && (dB =? 0)) || ((dA =? 2) && (dB =? 2)) then any_pat [P "T*T***T**"] m
  else if (dA =? 1) && (dB =? 1) then any_pat [P "1*T***T**"] m
  else false.
Definition spec_containsProperly := any_pat [P "T**FF*FF*"].

(* all matrices with entries in {F,0,1,2} *)
Definition dims4 : list Z := [-1; 0; 1; 2].
Definition wf_matrix (m : matrix) : Prop := List.length m = 9%nat /\ Forall (fun v => In v dims4) m.
