(* Lib/Bytes — byte strings (bytes are N < 256), little / big endian words, hexadecimal text (characters are N codes).
   Mirrors ByteOrderValues.cpp (getInt/putInt/getLong/putLong) and WKBReader::printHEX / ASCIIHexToUChar / readHEX.
   Owner: C09. *)
From Coq Require Import NArith List Lia Bool.
Import ListNotations.
Local Open Scope N_scope.

Definition byte := N.

(* ---------------------------------------------------------------- words *)
Fixpoint le_bytes (k: nat) (v: N) : list byte :=
  match k with O => [] | S k' => (v mod 256) :: le_bytes k' (v / 256) end.
Fixpoint le_value (l: list byte) : N :=
  match l with [] => 0 | b :: r => b + 256 * le_value r end.
Definition be_bytes (k: nat) (v: N) : list byte := rev (le_bytes k v).
Definition be_value (l: list byte) : N := le_value (rev l).

(* take exactly k bytes or fail (ByteOrderDataInStream: "Unexpected EOF parsing WKB") *)
Fixpoint take (k: nat) (l: list byte) : option (list byte * list byte) :=
  match k with
  | O => Some ([], l)
  | S k' => match l with
            | [] => None
            | b :: r => match take k' r with Some (a, r') => Some (b :: a, r') | None => None end
            end
  end.

Lemma le_value_bytes k v : v < 256 ^ N.of_nat k -> le_value (le_bytes k v) = v.
Proof.
  revert v; induction k as [|k IH]; intros v Hv.
  - cbn in *. lia.
  - cbn [le_bytes le_value]. rewrite IH.
    + pose proof (N.div_mod v 256). lia.
    + rewrite Nat2N.inj_succ, N.pow_succ_r' in Hv. apply N.div_lt_upper_bound; lia.
Qed.
Lemma le_bytes_len k v : length (le_bytes k v) = k.
Proof. revert v; induction k; cbn; auto. Qed.
Lemma be_bytes_len k v : length (be_bytes k v) = k.
Proof. unfold be_bytes. rewrite rev_length. apply le_bytes_len. Qed.
Lemma be_value_bytes k v : v < 256 ^ N.of_nat k -> be_value (be_bytes k v) = v.
Proof. intros. unfold be_value, be_bytes. rewrite rev_involutive. now apply le_value_bytes. Qed.
Lemma le_bytes_lt k v : Forall (fun b => b < 256) (le_bytes k v).
Proof. revert v; induction k; intros; cbn [le_bytes]; constructor; auto. apply N.mod_lt. lia. Qed.
Lemma be_bytes_lt k v : Forall (fun b => b < 256) (be_bytes k v).
Proof. unfold be_bytes. apply Forall_rev. apply le_bytes_lt. Qed.

(* the two byte orders are mirror images of each other (ByteOrderValues: buf[i] <-> buf[k-1-i]) *)
Lemma be_is_rev_le k v : be_bytes k v = rev (le_bytes k v).
Proof. reflexivity. Qed.

Lemma take_app a rest : take (length a) (a ++ rest) = Some (a, rest).
Proof. induction a as [|x a IH]; cbn [length take app]; [reflexivity|]. now rewrite IH. Qed.
Lemma take_len k l a r : take k l = Some (a, r) -> l = a ++ r /\ length a = k.
Proof.
  revert l a r; induction k as [|k IH]; intros l a r H; cbn [take] in H.
  - inversion H; subst. now split.
  - destruct l as [|b l']; [discriminate|]. destruct (take k l') as [[a' r']|] eqn:E; [|discriminate].
    inversion H; subst. apply IH in E. destruct E as [-> <-]. now split.
Qed.

(* ---------------------------------------------------------------- hexadecimal text *)
(* printHEX: "0123456789ABCDEF"[c >> 4], [c & 0x0F] *)
Definition hexdigit (d: N) : N := if d <? 10 then 48 + d else 55 + d.
Definition hex (l: list byte) : list N := flat_map (fun b => [hexdigit (b / 16); hexdigit (b mod 16)]) l.
(* ASCIIHexToUChar: '0'..'9', 'A'..'F', 'a'..'f', anything else is "Invalid HEX char" *)
Definition unhexdigit (c: N) : option N :=
  if (48 <=? c) && (c <=? 57) then Some (c - 48)
  else if (65 <=? c) && (c <=? 70) then Some (c - 55)
  else if (97 <=? c) && (c <=? 102) then Some (c - 87)
  else None.
(* readHEX: pairs of characters; an odd count is "Premature end of HEX string" *)
Fixpoint unhex (s: list N) : option (list byte) :=
  match s with
  | [] => Some []
  | [_] => None
  | h :: l :: r =>
    match unhexdigit h, unhexdigit l, unhex r with
    | Some a, Some b, Some t => Some ((a * 16 + b) :: t)
    | _, _, _ => None
    end
  end.
Definition upper (c: N) : N := if (97 <=? c) && (c <=? 122) then c - 32 else c.
Definition lower (c: N) : N := if (65 <=? c) && (c <=? 90) then c + 32 else c.

Lemma unhexdigit_hexdigit d : d < 16 -> unhexdigit (hexdigit d) = Some d.
Proof.
  intros Hd. unfold hexdigit, unhexdigit.
  destruct (d <? 10) eqn:E; [apply N.ltb_lt in E | apply N.ltb_ge in E].
  - replace ((48 <=? 48 + d) && (48 + d <=? 57)) with true by (symmetry; apply andb_true_iff; split; apply N.leb_le; lia).
    f_equal. lia.
  - replace ((48 <=? 55 + d) && (55 + d <=? 57)) with false by (symmetry; apply andb_false_iff; right; apply N.leb_gt; lia).
    replace ((65 <=? 55 + d) && (55 + d <=? 70)) with true by (symmetry; apply andb_true_iff; split; apply N.leb_le; lia).
    f_equal. lia.
Qed.

Lemma unhex_hex l : Forall (fun b => b < 256) l -> unhex (hex l) = Some l.
Proof.
  induction 1 as [|b l Hb _ IH]; [reflexivity|].
  cbn [hex flat_map app]. fold (hex l). cbn [unhex].
  rewrite !unhexdigit_hexdigit, IH.
  - f_equal. f_equal. pose proof (N.div_mod b 16). lia.
  - apply N.mod_lt; lia.
  - apply N.div_lt_upper_bound; lia.
Qed.

Lemma unhexdigit_upper c : unhexdigit (upper c) = unhexdigit c.
Proof.
  unfold upper. destruct ((97 <=? c) && (c <=? 122)) eqn:E; [|reflexivity].
  apply andb_true_iff in E. destruct E as [E1 E2]. apply N.leb_le in E1, E2.
  unfold unhexdigit.
  replace ((48 <=? c) && (c <=? 57)) with false by (symmetry; apply andb_false_iff; right; apply N.leb_gt; lia).
  replace ((65 <=? c) && (c <=? 70)) with false by (symmetry; apply andb_false_iff; right; apply N.leb_gt; lia).
  replace ((48 <=? c - 32) && (c - 32 <=? 57)) with false by (symmetry; apply andb_false_iff; right; apply N.leb_gt; lia).
  replace (97 <=? c) with true by (symmetry; apply N.leb_le; lia).
  replace (65 <=? c - 32) with true by (symmetry; apply N.leb_le; lia).
  cbn [andb].
  destruct (c <=? 102) eqn:F; [apply N.leb_le in F | apply N.leb_gt in F].
  - replace (c - 32 <=? 70) with true by (symmetry; apply N.leb_le; lia). f_equal. lia.
  - replace (c - 32 <=? 70) with false by (symmetry; apply N.leb_gt; lia).
    replace (97 <=? c - 32) with false by (symmetry; apply N.leb_gt; lia). reflexivity.
Qed.
Lemma upper_lower c : upper (lower c) = upper c.
Proof.
  unfold lower. destruct ((65 <=? c) && (c <=? 90)) eqn:E; [|reflexivity].
  apply andb_true_iff in E. destruct E as [E1 E2]. apply N.leb_le in E1, E2. unfold upper.
  replace ((97 <=? c + 32) && (c + 32 <=? 122)) with true by (symmetry; apply andb_true_iff; split; apply N.leb_le; lia).
  replace ((97 <=? c) && (c <=? 122)) with false by (symmetry; apply andb_false_iff; left; apply N.leb_gt; lia). lia.
Qed.

(* reading is case-insensitive: two texts that agree after upper-casing decode alike *)
Lemma unhex_case_insensitive : forall s s', map upper s = map upper s' -> unhex s = unhex s'.
Proof.
  fix IH 1. intros s s' H.
  destruct s as [|h [|l r]]; destruct s' as [|h' [|l' r']]; try discriminate; try reflexivity.
  cbn [map] in H. inversion H as [[H1 H2 H3]]. cbn [unhex].
  rewrite <- (unhexdigit_upper h), <- (unhexdigit_upper l), H1, H2, !unhexdigit_upper.
  rewrite (IH r r' H3). reflexivity.
Qed.
Corollary unhex_lower s : unhex (map lower s) = unhex s.
Proof. apply unhex_case_insensitive. rewrite map_map. apply map_ext. apply upper_lower. Qed.

Lemma hexdigit_unhexdigit c d : unhexdigit c = Some d -> hexdigit d = upper c /\ d < 16.
Proof.
  unfold unhexdigit, hexdigit, upper. intros H.
  destruct ((48 <=? c) && (c <=? 57)) eqn:E1.
  { apply andb_true_iff in E1. destruct E1 as [A B]. apply N.leb_le in A, B. inversion H; subst.
    replace (c - 48 <? 10) with true by (symmetry; apply N.ltb_lt; lia).
    replace ((97 <=? c) && (c <=? 122)) with false by (symmetry; apply andb_false_iff; left; apply N.leb_gt; lia). split; lia. }
  destruct ((65 <=? c) && (c <=? 70)) eqn:E2.
  { apply andb_true_iff in E2. destruct E2 as [A B]. apply N.leb_le in A, B. inversion H; subst.
    replace (c - 55 <? 10) with false by (symmetry; apply N.ltb_ge; lia).
    replace ((97 <=? c) && (c <=? 122)) with false by (symmetry; apply andb_false_iff; left; apply N.leb_gt; lia). split; lia. }
  destruct ((97 <=? c) && (c <=? 102)) eqn:E3; [|discriminate].
  apply andb_true_iff in E3. destruct E3 as [A B]. apply N.leb_le in A, B. inversion H; subst.
  replace (c - 87 <? 10) with false by (symmetry; apply N.ltb_ge; lia).
  replace ((97 <=? c) && (c <=? 122)) with true by (symmetry; apply andb_true_iff; split; apply N.leb_le; lia). split; lia.
Qed.

Lemma hex_unhex : forall s l, unhex s = Some l -> hex l = map upper s /\ Forall (fun b => b < 256) l.
Proof.
  fix IH 1. intros s l H.
  destruct s as [|h [|lo r]]; cbn [unhex] in H.
  - inversion H; subst. split; [reflexivity|constructor].
  - discriminate.
  - destruct (unhexdigit h) as [a|] eqn:Ea; [|discriminate].
    destruct (unhexdigit lo) as [b|] eqn:Eb; [|discriminate].
    destruct (unhex r) as [t|] eqn:Et; [|discriminate].
    inversion H; subst. apply IH in Et. destruct Et as [Et Ft].
    apply hexdigit_unhexdigit in Ea, Eb. destruct Ea as [Ea La], Eb as [Eb Lb].
    split; [|constructor; [lia|exact Ft]].
    cbn [hex flat_map app map]. fold (hex t). rewrite Et. f_equal; [|f_equal].
    + rewrite <- Ea. f_equal. rewrite N.div_add_l by lia. rewrite N.div_small by lia. lia.
    + rewrite <- Eb. f_equal. rewrite N.add_comm. rewrite N.mod_add by lia. apply N.mod_small. lia.
Qed.

Lemma hex_length l : length (hex l) = (2 * length l)%nat.
Proof. induction l as [|b l IH]; [reflexivity|]. cbn [hex flat_map app length]. fold (hex l). lia. Qed.

Arguments le_bytes : simpl never.
Arguments le_value : simpl never.
Arguments be_bytes : simpl never.
Arguments be_value : simpl never.
