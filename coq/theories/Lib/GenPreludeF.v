(* Lib/GenPreludeF — meaning of the translator's abstract names when `double` is IEEE-754 binary64, carried by the
   proof-free stdlib type SpecFloat.spec_float (round to nearest even; operations SFadd/SFsub/SFmul/SFdiv 53 1024).
   Owner: C07.  Everything here is executable and extracts with ExtrOcamlBasic only.
   Comparisons follow IEEE (any comparison with NaN is false, `!=` is true). *)
From Coq Require Import ZArith Bool Floats.SpecFloat.
Local Open Scope Z_scope.

Definition prec : Z := 53.
Definition emax : Z := 1024.
Definition add := SFadd prec emax.
Definition sub := SFsub prec emax.
Definition mul := SFmul prec emax.
Definition div := SFdiv prec emax.
Definition neg := SFopp.
Definition ltb := SFltb.
Definition leb := SFleb.
Definition gtb (a b : spec_float) := SFltb b a.
Definition geb (a b : spec_float) := SFleb b a.
Definition eqb := SFeqb.
Definition neb (a b : spec_float) := negb (SFeqb a b).
Definition ofZ (z : Z) : spec_float := binary_normalize prec emax z 0 false.
Definition zneb (a b : Z) := negb (Z.eqb a b).

(* 64-bit pattern <-> value *)
Definition of_bits (b : Z) : spec_float :=
  let s := Z.testbit b 63 in
  let e := Z.land (Z.shiftr b 52) 2047 in
  let m := Z.land b (Z.ones 52) in
  if e =? 0 then match m with Zpos p => S754_finite s p (-1074) | _ => S754_zero s end
  else if e =? 2047 then (if m =? 0 then S754_infinity s else S754_nan)
  else match m + 2 ^ 52 with Zpos p => S754_finite s p (e - 1075) | _ => S754_nan end.
Definition sign_bit (s : bool) : Z := if s then 2 ^ 63 else 0.
(* canonical inputs only (what of_bits and the SF operations produce); every NaN is printed as the quiet NaN 7ff8... *)
Definition to_bits (x : spec_float) : Z :=
  match x with
  | S754_zero s => sign_bit s
  | S754_infinity s => sign_bit s + 2047 * 2 ^ 52
  | S754_nan => 2047 * 2 ^ 52 + 2 ^ 51
  | S754_finite s m e =>
      if Zpos m <? 2 ^ 52 then sign_bit s + Zpos m
      else sign_bit s + (e + 1075) * 2 ^ 52 + (Zpos m - 2 ^ 52)
  end.
(* a floating literal: the translator passes the bit pattern of the nearest double and its exact value num/den *)
Definition flit (bits num den : Z) : spec_float := of_bits bits.

Definition c_abs_1 := SFabs.
Definition c_fabs_1 := SFabs.
Definition c_isfinite_1 (x : spec_float) : bool :=
  match x with S754_zero _ | S754_finite _ _ _ => true | _ => false end.
Definition c_isnan_1 (x : spec_float) : bool := match x with S754_nan => true | _ => false end.
(* std::min(a,b) = (b < a) ? b : a ;  std::max(a,b) = (a < b) ? b : a *)
Definition c_min_2 (a b : spec_float) := if SFltb b a then b else a.
Definition c_max_2 (a b : spec_float) := if SFltb a b then b else a.
Definition dflt : spec_float := S754_zero false.        (* value of a declared-but-unassigned local: never read *)
Definition throw : Z := 99.                              (* IllegalArgumentException (non-finite argument) *)

(* geos::math::DD *)
Record DD := mk_DD_2 { f_hi : spec_float; f_lo : spec_float }.
Definition mk_DD_1 (x : spec_float) : DD := mk_DD_2 x (S754_zero false).
Definition set_hi (d : DD) (v : spec_float) := mk_DD_2 v (f_lo d).
Definition set_lo (d : DD) (v : spec_float) := mk_DD_2 (f_hi d) v.
Definition v_SPLIT : spec_float := ofZ 134217729.       (* DD::SPLIT = 2^27 + 1 *)

(* CoordinateXY at binary64 *)
Record fpt := mk_fpt { f_x : spec_float; f_y : spec_float }.
Definition set_x (p : fpt) (v : spec_float) := mk_fpt v (f_y p).
Definition set_y (p : fpt) (v : spec_float) := mk_fpt (f_x p) v.
Definition mk_Coordinate_0 (_ : unit) : fpt := mk_fpt (S754_zero false) (S754_zero false).
Definition m_setNull_0 (p : fpt) : fpt := mk_fpt S754_nan S754_nan.
