(* Lib/Kernel — lemmas about Lib/KernelDefs (exact planar kernel over Z). Owner: C07.
   Part 1: orientation laws, envelopes, membership in a segment (parametric <-> box-and-determinant).
   Parts 2, 3 are in KernelSeg.v (segment/segment classification) and KernelRing.v (ray crossing, rings, polygons). *)
From Coq Require Import ZArith List Bool Lia Psatz.
From GeosV.Lib Require Import KernelDefs.
Import ListNotations.
Local Open Scope Z_scope.

(* ------------------------------------------------------------------ small Boolean reflection helpers *)
Lemma geb_le a b : (a >=? b) = true <-> b <= a. Proof. rewrite Z.geb_le. tauto. Qed.
Lemma gtb_lt a b : (a >? b) = true <-> b < a. Proof. rewrite Z.gtb_ltb, Z.ltb_lt. tauto. Qed.
Lemma gtb_nlt a b : (a >? b) = false <-> a <= b. Proof. rewrite Z.gtb_ltb, Z.ltb_ge. tauto. Qed.
Lemma geb_nle a b : (a >=? b) = false <-> a < b. Proof. rewrite Z.geb_leb, Z.leb_gt. tauto. Qed.

Ltac zb :=
  repeat match goal with
  | H : (_ && _)%bool = true |- _ => apply andb_prop in H; destruct H
  | H : (_ <? _) = true |- _ => apply Z.ltb_lt in H
  | H : (_ <? _) = false |- _ => apply Z.ltb_ge in H
  | H : (_ <=? _) = true |- _ => apply Z.leb_le in H
  | H : (_ <=? _) = false |- _ => apply Z.leb_gt in H
  | H : (_ >? _) = true |- _ => apply gtb_lt in H
  | H : (_ >? _) = false |- _ => apply gtb_nlt in H
  | H : (_ >=? _) = true |- _ => apply geb_le in H
  | H : (_ >=? _) = false |- _ => apply geb_nle in H
  | H : (_ =? _) = true |- _ => apply Z.eqb_eq in H
  | H : (_ =? _) = false |- _ => apply Z.eqb_neq in H
  | H : negb _ = true |- _ => apply negb_true_iff in H
  | H : negb _ = false |- _ => apply negb_false_iff in H
  end.

(* ------------------------------------------------------------------ determinant and orientation laws *)
Definition padd (a t : pt) : pt := (fst a + fst t, snd a + snd t).
Definition pscale (k : Z) (a : pt) : pt := (k * fst a, k * snd a).
Definition pflipx (a : pt) : pt := (- fst a, snd a).
Definition pflipy (a : pt) : pt := (fst a, - snd a).
Definition pswap (a : pt) : pt := (snd a, fst a).

Lemma det_antisym a b c : det b a c = - det a b c. Proof. unfold det. ring. Qed.
Lemma det_swap_last a b c : det a c b = - det a b c. Proof. unfold det. ring. Qed.
Lemma det_cyclic a b c : det b c a = det a b c. Proof. unfold det. ring. Qed.
Lemma det_translate t a b c : det (padd a t) (padd b t) (padd c t) = det a b c.
Proof. unfold det, padd; cbn [fst snd]. ring. Qed.
Lemma det_scale k a b c : det (pscale k a) (pscale k b) (pscale k c) = k * k * det a b c.
Proof. unfold det, pscale; cbn [fst snd]. ring. Qed.
Lemma det_flipx a b c : det (pflipx a) (pflipx b) (pflipx c) = - det a b c.
Proof. unfold det, pflipx; cbn [fst snd]. ring. Qed.
Lemma det_flipy a b c : det (pflipy a) (pflipy b) (pflipy c) = - det a b c.
Proof. unfold det, pflipy; cbn [fst snd]. ring. Qed.
Lemma det_pswap a b c : det (pswap a) (pswap b) (pswap c) = - det a b c.
Proof. unfold det, pswap; cbn [fst snd]. ring. Qed.
Lemma det_same_l a c : det a a c = 0. Proof. unfold det. ring. Qed.
Lemma det_same_r a b : det a b b = det a b a + det a b b. Proof. unfold det. ring. Qed.
Lemma det_same_1 a b : det a b a = 0. Proof. unfold det. ring. Qed.
Lemma det_same_2 a b : det a b b = 0. Proof. unfold det. ring. Qed.

Lemma orient_antisym a b c : orient b a c = - orient a b c.
Proof. unfold orient. rewrite det_antisym. apply Z.sgn_opp. Qed.
Lemma orient_swap_last a b c : orient a c b = - orient a b c.
Proof. unfold orient. rewrite det_swap_last. apply Z.sgn_opp. Qed.
Lemma orient_cyclic a b c : orient b c a = orient a b c.
Proof. unfold orient. now rewrite det_cyclic. Qed.
Lemma orient_translate t a b c : orient (padd a t) (padd b t) (padd c t) = orient a b c.
Proof. unfold orient. now rewrite det_translate. Qed.
Lemma orient_scale k a b c : 0 < k -> orient (pscale k a) (pscale k b) (pscale k c) = orient a b c.
Proof.
  intros Hk. unfold orient. rewrite det_scale, Z.sgn_mul.
  assert (Z.sgn (k * k) = 1) by (apply Z.sgn_pos; nia). lia.
Qed.
Lemma orient_flipx a b c : orient (pflipx a) (pflipx b) (pflipx c) = - orient a b c.
Proof. unfold orient. rewrite det_flipx. apply Z.sgn_opp. Qed.
Lemma orient_flipy a b c : orient (pflipy a) (pflipy b) (pflipy c) = - orient a b c.
Proof. unfold orient. rewrite det_flipy. apply Z.sgn_opp. Qed.
Lemma orient_range a b c : orient a b c = -1 \/ orient a b c = 0 \/ orient a b c = 1.
Proof. unfold orient. destruct (Z.sgn_spec (det a b c)) as [[_ ->]|[[_ ->]|[_ ->]]]; auto. Qed.
Lemma orient_pos a b c : orient a b c >? 0 = true <-> 0 < det a b c.
Proof. unfold orient. rewrite gtb_lt. destruct (Z.sgn_spec (det a b c)) as [[? ->]|[[? ->]|[? ->]]]; lia. Qed.
Lemma orient_neg a b c : orient a b c <? 0 = true <-> det a b c < 0.
Proof. unfold orient. rewrite Z.ltb_lt. destruct (Z.sgn_spec (det a b c)) as [[? ->]|[[? ->]|[? ->]]]; lia. Qed.
Lemma orient_zero a b c : orient a b c =? 0 = true <-> det a b c = 0.
Proof. unfold orient. rewrite Z.eqb_eq. apply Z.sgn_null_iff. Qed.
Lemma orient_zero' a b c : orient a b c = 0 <-> det a b c = 0.
Proof. unfold orient. apply Z.sgn_null_iff. Qed.

(* ------------------------------------------------------------------ envelopes *)
Lemma env_pt_spec p1 p2 q : env_pt p1 p2 q = true <->
  Z.min (fst p1) (fst p2) <= fst q <= Z.max (fst p1) (fst p2) /\ Z.min (snd p1) (snd p2) <= snd q <= Z.max (snd p1) (snd p2).
Proof.
  unfold env_pt. rewrite !andb_true_iff, !geb_le, !Z.leb_le.
  destruct (Z.ltb_spec (fst p1) (fst p2)), (Z.ltb_spec (snd p1) (snd p2));
  rewrite !Z.gtb_ltb;
  destruct (Z.ltb_spec (fst p2) (fst p1)), (Z.ltb_spec (snd p2) (snd p1)); lia.
Qed.
Lemma env_pt_sym p1 p2 q : env_pt p2 p1 q = env_pt p1 p2 q.
Proof.
  apply eq_true_iff_eq. rewrite !env_pt_spec. lia.
Qed.

Lemma env_seg_spec p1 p2 q1 q2 : env_seg p1 p2 q1 q2 = true <->
  Z.min (fst p1) (fst p2) <= Z.max (fst q1) (fst q2) /\ Z.min (fst q1) (fst q2) <= Z.max (fst p1) (fst p2) /\
  Z.min (snd p1) (snd p2) <= Z.max (snd q1) (snd q2) /\ Z.min (snd q1) (snd q2) <= Z.max (snd p1) (snd p2).
Proof.
  unfold env_seg.
  destruct (Z.min (fst p1) (fst p2) >? Z.max (fst q1) (fst q2)) eqn:E1; zb; [split; [discriminate|lia]|].
  destruct (Z.max (fst p1) (fst p2) <? Z.min (fst q1) (fst q2)) eqn:E2; zb; [split; [discriminate|lia]|].
  destruct (Z.min (snd p1) (snd p2) >? Z.max (snd q1) (snd q2)) eqn:E3; zb; [split; [discriminate|lia]|].
  destruct (Z.max (snd p1) (snd p2) <? Z.min (snd q1) (snd q2)) eqn:E4; zb; [split; [discriminate|lia]|].
  split; [intros _; lia|reflexivity].
Qed.
Lemma env_seg_sym p1 p2 q1 q2 : env_seg q1 q2 p1 p2 = env_seg p1 p2 q1 q2.
Proof. apply eq_true_iff_eq. rewrite !env_seg_spec. lia. Qed.

(* ------------------------------------------------------------------ membership in a segment *)
Lemma qdet_lin p1 p2 a b p n m :
  m * qx p = qw p * ((m - n) * fst a + n * fst b) -> m * qy p = qw p * ((m - n) * snd a + n * snd b) ->
  m * qdet p1 p2 p = qw p * ((m - n) * det p1 p2 a + n * det p1 p2 b).
Proof.
  intros Hx Hy. unfold qdet, det.
  replace (m * ((fst p2 - fst p1) * (qy p - qw p * snd p1) - (snd p2 - snd p1) * (qx p - qw p * fst p1)))
    with ((fst p2 - fst p1) * (m * qy p - m * qw p * snd p1) - (snd p2 - snd p1) * (m * qx p - m * qw p * fst p1)) by ring.
  rewrite Hx, Hy. ring.
Qed.

Lemma qon_line p a b : qon p a b -> qdet a b p = 0.
Proof.
  intros (Hw & n & m & Hm & Hn & Hx & Hy).
  pose proof (qdet_lin a b a b p n m Hx Hy) as H. rewrite det_same_1, det_same_2 in H.
  nia.
Qed.

Lemma between_param w m n u v x : 0 < w -> 0 < m -> 0 <= n <= m -> u <= v -> m * x = w * ((m - n) * u + n * v) ->
  w * u <= x <= w * v.
Proof.
  intros Hw Hm Hn Huv Hx.
  assert (0 <= n * (v - u)) by nia. assert (0 <= (m - n) * (v - u)) by nia.
  assert (m * x - m * (w * u) = w * (n * (v - u))) by (rewrite Hx; ring).
  assert (m * (w * v) - m * x = w * ((m - n) * (v - u))) by (rewrite Hx; ring).
  assert (0 <= w * (n * (v - u))) by nia. assert (0 <= w * ((m - n) * (v - u))) by nia.
  nia.
Qed.

Lemma qon_box_x p a b : qon p a b -> qw p * Z.min (fst a) (fst b) <= qx p <= qw p * Z.max (fst a) (fst b).
Proof.
  intros (Hw & n & m & Hm & Hn & Hx & Hy).
  destruct (Z.le_ge_cases (fst a) (fst b)).
  - rewrite Z.min_l, Z.max_r by lia. eapply between_param; eauto.
  - rewrite Z.min_r, Z.max_l by lia. apply (between_param (qw p) m (m - n) (fst b) (fst a)); try lia. all: rewrite ?Hx; ring.
Qed.
Lemma qon_box_y p a b : qon p a b -> qw p * Z.min (snd a) (snd b) <= qy p <= qw p * Z.max (snd a) (snd b).
Proof.
  intros (Hw & n & m & Hm & Hn & Hx & Hy).
  destruct (Z.le_ge_cases (snd a) (snd b)).
  - rewrite Z.min_l, Z.max_r by lia. eapply between_param; eauto.
  - rewrite Z.min_r, Z.max_l by lia. apply (between_param (qw p) m (m - n) (snd b) (snd a)); try lia. all: rewrite ?Hy; ring.
Qed.

Lemma qon_sym p a b : qon p a b -> qon p b a.
Proof.
  intros (Hw & n & m & Hm & Hn & Hx & Hy). split; auto. exists (m - n), m. repeat split; try lia.
  all: first [rewrite Hx; ring | rewrite Hy; ring].
Qed.

Lemma qdet_swap a b p : qdet b a p = - qdet a b p.
Proof. unfold qdet. ring. Qed.

Lemma qon_of_box_x a b p : fst a < fst b -> 0 < qw p -> qdet a b p = 0 ->
  qw p * fst a <= qx p <= qw p * fst b -> qon p a b.
Proof.
  intros Hab Hw Hd Hx. split; auto.
  exists (qx p - qw p * fst a), (qw p * (fst b - fst a)).
  split; [nia|]. split; [nia|]. unfold qdet in Hd. split.
  - ring.
  - assert (E : (fst b - fst a) * (qy p - qw p * snd a) = (snd b - snd a) * (qx p - qw p * fst a)) by lia.
    replace (qw p * (fst b - fst a) * qy p) with (qw p * ((fst b - fst a) * (qy p - qw p * snd a)) + qw p * (fst b - fst a) * (qw p * snd a)) by ring.
    rewrite E. ring.
Qed.
Lemma qon_of_box_y a b p : snd a < snd b -> 0 < qw p -> qdet a b p = 0 ->
  qw p * snd a <= qy p <= qw p * snd b -> qon p a b.
Proof.
  intros Hab Hw Hd Hy. split; auto.
  exists (qy p - qw p * snd a), (qw p * (snd b - snd a)).
  split; [nia|]. split; [nia|]. unfold qdet in Hd. split.
  - assert (E : (snd b - snd a) * (qx p - qw p * fst a) = (fst b - fst a) * (qy p - qw p * snd a)) by lia.
    replace (qw p * (snd b - snd a) * qx p) with (qw p * ((snd b - snd a) * (qx p - qw p * fst a)) + qw p * (snd b - snd a) * (qw p * fst a)) by ring.
    rewrite E. ring.
  - ring.
Qed.

Lemma qonb_spec p a b : qonb p a b = true <->
  0 < qw p /\ qdet a b p = 0 /\ qw p * Z.min (fst a) (fst b) <= qx p <= qw p * Z.max (fst a) (fst b) /\
  qw p * Z.min (snd a) (snd b) <= qy p <= qw p * Z.max (snd a) (snd b).
Proof. unfold qonb. rewrite !andb_true_iff, Z.ltb_lt, Z.eqb_eq, !Z.leb_le. tauto. Qed.

(* the parametric and the box-and-determinant definitions of "p lies on segment ab" coincide *)
Theorem qon_iff_qonb p a b : qon p a b <-> qonb p a b = true.
Proof.
  rewrite qonb_spec. split.
  - intros H. pose proof (qon_line _ _ _ H). pose proof (qon_box_x _ _ _ H). pose proof (qon_box_y _ _ _ H).
    destruct H as (Hw & _). tauto.
  - intros (Hw & Hd & Hx & Hy).
    destruct (Z.lt_trichotomy (fst a) (fst b)) as [L|[E|G]].
    + apply qon_of_box_x; auto. rewrite Z.min_l, Z.max_r in Hx by lia. exact Hx.
    + destruct (Z.lt_trichotomy (snd a) (snd b)) as [L'|[E'|G']].
      * apply qon_of_box_y; auto. rewrite Z.min_l, Z.max_r in Hy by lia. exact Hy.
      * split; auto. exists 0, 1. rewrite E, E' in *. rewrite Z.min_id, Z.max_id in *.
        split; [lia|]. split; [lia|]. split; nia.
      * apply qon_sym. apply qon_of_box_y; auto. { rewrite qdet_swap. lia. }
        rewrite Z.min_r, Z.max_l in Hy by lia. exact Hy.
    + apply qon_sym. apply qon_of_box_x; auto. { rewrite qdet_swap. lia. }
      rewrite Z.min_r, Z.max_l in Hx by lia. exact Hx.
Qed.

Lemma qdet_q_of_pt a b c : qdet a b (q_of_pt c) = det a b c.
Proof. unfold qdet, det, q_of_pt; cbn [qx qy qw]. ring. Qed.

(* PointLocation::isOnSegment (envelope test and orientation) decides membership in the closed segment *)
Theorem on_segment_iff p a b : on_segment p a b = true <-> pt_on p a b.
Proof.
  unfold pt_on. rewrite qon_iff_qonb, qonb_spec. unfold on_segment. rewrite andb_true_iff, env_pt_spec, Z.eqb_eq.
  rewrite qdet_q_of_pt. unfold q_of_pt; cbn [qx qy qw]. rewrite !Z.mul_1_l. split; intros; intuition lia.
Qed.
Lemma on_segment_sym p a b : on_segment p b a = on_segment p a b.
Proof.
  unfold on_segment. rewrite env_pt_sym. f_equal. rewrite det_antisym.
  destruct (Z.eqb_spec (det a b p) 0), (Z.eqb_spec (- det a b p) 0); auto; lia.
Qed.
Lemma pt_on_endpoint_l a b : pt_on a a b.
Proof. apply on_segment_iff. unfold on_segment. rewrite det_same_1. rewrite andb_true_iff. split; auto. apply env_pt_spec. lia. Qed.
Lemma pt_on_endpoint_r a b : pt_on b a b.
Proof. apply on_segment_iff. unfold on_segment. rewrite det_same_2. rewrite andb_true_iff. split; auto. apply env_pt_spec. lia. Qed.

Lemma qeq_refl p : qeq p p. Proof. split; ring. Qed.
Lemma qeq_sym p q : qeq p q -> qeq q p. Proof. intros [A B]. split; lia. Qed.
Lemma qeqb_spec p q : qeqb p q = true <-> qeq p q.
Proof. unfold qeqb, qeq. rewrite andb_true_iff, !Z.eqb_eq. tauto. Qed.

(* membership depends only on the rational point denoted *)
Lemma qon_qeq p q a b : 0 < qw q -> qeq p q -> qon p a b -> qon q a b.
Proof.
  intros Hq [Ex Ey] (Hw & n & m & Hm & Hn & Hx & Hy). split; auto. exists n, m. repeat split; try lia.
  - assert (qw p * (m * qx q) = qw p * (qw q * ((m - n) * fst a + n * fst b))); [|nia].
    replace (qw p * (m * qx q)) with (m * (qx q * qw p)) by ring. rewrite <- Ex.
    replace (m * (qx p * qw q)) with (qw q * (m * qx p)) by ring. rewrite Hx. ring.
  - assert (qw p * (m * qy q) = qw p * (qw q * ((m - n) * snd a + n * snd b))); [|nia].
    replace (qw p * (m * qy q)) with (m * (qy q * qw p)) by ring. rewrite <- Ey.
    replace (m * (qy p * qw q)) with (qw q * (m * qy p)) by ring. rewrite Hy. ring.
Qed.
