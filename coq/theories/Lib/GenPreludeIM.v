(* Meaning of the primitive names that generated IntersectionMatrix units (Gen/IM_*.v) refer to.
   Representation boundary (hand written, small): the 3x3 int matrix is a list of 9 Z in row-major order;
   get(row,col) = matrix[row][col]; chars are their codes. *)
From Coq Require Import ZArith List Bool.
Import ListNotations.
Local Open Scope Z_scope.

Definition chr (c : Z) : Z := c.
Definition zneb (a b : Z) : bool := negb (Z.eqb a b).
Definition im := list Z.
Definition m_get_2 (st : im) (row col : Z) : Z := nth (Z.to_nat (3 * row + col)) st (-1).
(* IntersectionMatrix::set(row, col, v) *)
Fixpoint upd_nth (n : nat) (v : Z) (l : list Z) : list Z :=
  match n, l with O, _ :: r => v :: r | S k, x :: r => x :: upd_nth k v r | _, [] => [] end.
Definition m_set_3 (st : im) (row col v : Z) : im := upd_nth (Z.to_nat (3 * row + col)) v st.
