(* Lib/Locate — lemmas about Lib/LocateDefs: the kernel predicates and point location under translation and the symmetries
   of the square (reflection in either axis, axis swap), and basic facts (a vertex of a ring lies on it). *)
From Coq Require Import ZArith List Bool Lia.
From GeosV.Lib Require Import GeomDefs LocateDefs Geom.
Import ListNotations.
Local Open Scope Z_scope.

(* action on homogeneous points *)
Definition translate_h (d : pt) (q : hpt) : hpt := let '(x, y, w) := q in (x + w * fst d, y + w * snd d, w).
Definition lin_h (T : pt -> pt) (q : hpt) : hpt := let '(x, y, w) := q in (fst (T (x, y)), snd (T (x, y)), w).

Lemma bool_eq_iff : forall a b : bool, (a = true <-> b = true) -> a = b.
Proof. intros [] [] H; try reflexivity; [symmetry; apply H | apply H]; reflexivity. Qed.

(* ---- orient ---- *)
Lemma orient_translate : forall d a b c, orient (translate d a) (translate d b) (translate d c) = orient a b c.
Proof. intros [dx dy] [ax ay] [bx by_] [cx cy]. unfold orient, translate. cbn [fst snd]. ring. Qed.
Lemma orient_reflect_x : forall a b c, orient (reflect_x a) (reflect_x b) (reflect_x c) = -1 * orient a b c.
Proof. intros [ax ay] [bx by_] [cx cy]. unfold orient, reflect_x. cbn [fst snd]. ring. Qed.
Lemma orient_reflect_y : forall a b c, orient (reflect_y a) (reflect_y b) (reflect_y c) = -1 * orient a b c.
Proof. intros [ax ay] [bx by_] [cx cy]. unfold orient, reflect_y. cbn [fst snd]. ring. Qed.
Lemma orient_swap : forall a b c, orient (swap_xy a) (swap_xy b) (swap_xy c) = -1 * orient a b c.
Proof. intros [ax ay] [bx by_] [cx cy]. unfold orient, swap_xy. cbn [fst snd]. ring. Qed.
Lemma orient_scale : forall k a b c, orient (scale_pt k a) (scale_pt k b) (scale_pt k c) = k * k * orient a b c.
Proof. intros k [ax ay] [bx by_] [cx cy]. unfold orient, scale_pt. cbn [fst snd]. ring. Qed.
Lemma orient_swap23 : forall a b c, orient a c b = - orient a b c.
Proof. intros [ax ay] [bx by_] [cx cy]. unfold orient. cbn [fst snd]. ring. Qed.

(* ---- on_seg ---- *)
Lemma between_spec : forall x a b, between x a b = true <-> Z.min a b <= x <= Z.max a b.
Proof. intros. unfold between. rewrite andb_true_iff, !Z.leb_le. tauto. Qed.
Lemma on_seg_spec : forall p a b, on_seg p a b = true <->
  orient a b p = 0 /\ Z.min (fst a) (fst b) <= fst p <= Z.max (fst a) (fst b) /\ Z.min (snd a) (snd b) <= snd p <= Z.max (snd a) (snd b).
Proof. intros. unfold on_seg. rewrite !andb_true_iff, Z.eqb_eq, !between_spec. tauto. Qed.

Lemma on_seg_translate : forall d p a b, on_seg (translate d p) (translate d a) (translate d b) = on_seg p a b.
Proof.
  intros d p a b. apply bool_eq_iff. rewrite !on_seg_spec, orient_translate.
  destruct d, p, a, b. unfold translate. cbn [fst snd]. lia.
Qed.
Lemma on_seg_reflect_x : forall p a b, on_seg (reflect_x p) (reflect_x a) (reflect_x b) = on_seg p a b.
Proof.
  intros p a b. apply bool_eq_iff. rewrite !on_seg_spec, orient_reflect_x.
  destruct p, a, b. unfold reflect_x. cbn [fst snd]. lia.
Qed.
Lemma on_seg_reflect_y : forall p a b, on_seg (reflect_y p) (reflect_y a) (reflect_y b) = on_seg p a b.
Proof.
  intros p a b. apply bool_eq_iff. rewrite !on_seg_spec, orient_reflect_y.
  destruct p, a, b. unfold reflect_y. cbn [fst snd]. lia.
Qed.
Lemma on_seg_swap : forall p a b, on_seg (swap_xy p) (swap_xy a) (swap_xy b) = on_seg p a b.
Proof.
  intros p a b. apply bool_eq_iff. rewrite !on_seg_spec, orient_swap.
  destruct p, a, b. unfold swap_xy. cbn [fst snd]. lia.
Qed.
Lemma on_seg_endpoint_l : forall a b, on_seg a a b = true.
Proof. intros [ax ay] [bx by_]. apply on_seg_spec. unfold orient. cbn [fst snd]. split; [ring | lia]. Qed.
Lemma on_seg_endpoint_r : forall a b, on_seg b a b = true.
Proof. intros [ax ay] [bx by_]. apply on_seg_spec. unfold orient. cbn [fst snd]. split; [ring | lia]. Qed.

(* ---- injectivity ---- *)
Lemma pt_eqb_translate : forall d a b, pt_eqb (translate d a) (translate d b) = pt_eqb a b.
Proof. intros [dx dy] [ax ay] [bx by_]. apply bool_eq_iff. unfold pt_eqb, translate. cbn [fst snd]. rewrite !andb_true_iff, !Z.eqb_eq. lia. Qed.
Lemma pt_eqb_reflect_x : forall a b, pt_eqb (reflect_x a) (reflect_x b) = pt_eqb a b.
Proof. intros [ax ay] [bx by_]. apply bool_eq_iff. unfold pt_eqb, reflect_x. cbn [fst snd]. rewrite !andb_true_iff, !Z.eqb_eq. lia. Qed.
Lemma pt_eqb_reflect_y : forall a b, pt_eqb (reflect_y a) (reflect_y b) = pt_eqb a b.
Proof. intros [ax ay] [bx by_]. apply bool_eq_iff. unfold pt_eqb, reflect_y. cbn [fst snd]. rewrite !andb_true_iff, !Z.eqb_eq. lia. Qed.
Lemma pt_eqb_swap : forall a b, pt_eqb (swap_xy a) (swap_xy b) = pt_eqb a b.
Proof. intros [ax ay] [bx by_]. apply bool_eq_iff. unfold pt_eqb, swap_xy. cbn [fst snd]. rewrite !andb_true_iff, !Z.eqb_eq. lia. Qed.

(* ---- octants and turns ---- *)
Lemma oct_range : forall dx dy, 0 <= oct dx dy < 8.
Proof. intros. unfold oct. destruct (Z.sgn dx), (Z.sgn dy); lia. Qed.
Lemma turn8_sgn : forall ka kb o, turn8 ka kb o = turn8 ka kb (Z.sgn o).
Proof.
  intros. unfold turn8.
  assert (H1 : (0 <? Z.sgn o) = (0 <? o)) by (apply bool_eq_iff; rewrite !Z.ltb_lt; lia).
  assert (H2 : (Z.sgn o <? 0) = (o <? 0)) by (apply bool_eq_iff; rewrite !Z.ltb_lt; lia).
  rewrite H1, H2. reflexivity.
Qed.
Definition oct8 : list Z := [0; 1; 2; 3; 4; 5; 6; 7].
Definition turn_table_ok : bool :=
  forallb (fun c => forallb (fun sg => forallb (fun ka => forallb (fun kb => forallb (fun o =>
     turn8 ((c + sg * ka) mod 8) ((c + sg * kb) mod 8) (sg * o) =? sg * turn8 ka kb o) [-1; 0; 1]) oct8) oct8) [1; -1]) oct8.
Lemma turn_table : turn_table_ok = true.
Proof. vm_compute. reflexivity. Qed.
Lemma in_oct8 : forall k, 0 <= k < 8 -> In k oct8.
Proof. intros k H. unfold oct8. cbn [In]. lia. Qed.
Lemma turn8_covariant : forall c sg ka kb o, 0 <= c < 8 -> sg = 1 \/ sg = -1 -> 0 <= ka < 8 -> 0 <= kb < 8 ->
  turn8 ((c + sg * ka) mod 8) ((c + sg * kb) mod 8) (sg * o) = sg * turn8 ka kb o.
Proof.
  intros c sg ka kb o Hc Hsg Hka Hkb.
  rewrite (turn8_sgn _ _ (sg * o)), (turn8_sgn ka kb o).
  replace (Z.sgn (sg * o)) with (sg * Z.sgn o) by (rewrite Z.sgn_mul; destruct Hsg; subst; reflexivity).
  pose proof turn_table as H. unfold turn_table_ok in H.
  rewrite forallb_forall in H. specialize (H c (in_oct8 c Hc)).
  rewrite forallb_forall in H. specialize (H sg). assert (In sg [1; -1]) as Hin by (cbn [In]; lia). specialize (H Hin).
  rewrite forallb_forall in H. specialize (H ka (in_oct8 ka Hka)).
  rewrite forallb_forall in H. specialize (H kb (in_oct8 kb Hkb)).
  rewrite forallb_forall in H. specialize (H (Z.sgn o)).
  assert (In (Z.sgn o) [-1; 0; 1]) as Ho by (cbn [In]; lia). specialize (H Ho).
  apply Z.eqb_eq in H. exact H.
Qed.

(* ---- point in ring under a map that permutes the octants ---- *)
Section InRingCovariance.
  Variable T : pt -> pt.
  Variables c sg : Z.
  Hypothesis Hc : 0 <= c < 8.
  Hypothesis Hsg : sg = 1 \/ sg = -1.
  Hypothesis Hon : forall p a b, on_seg (T p) (T a) (T b) = on_seg p a b.
  Hypothesis Hor : forall a b d, orient (T a) (T b) (T d) = sg * orient a b d.
  Hypothesis Hinj : forall a b, pt_eqb (T a) (T b) = pt_eqb a b.
  Hypothesis Hoct : forall p a, pt_eqb p a = false -> oct_of (T p) (T a) = (c + sg * oct_of p a) mod 8.

  Lemma edge_turn_cov : forall p a b, edge_turn (T p) (T a) (T b) = sg * edge_turn p a b.
  Proof.
    intros. unfold edge_turn. rewrite !Hinj.
    destruct (pt_eqb p a) eqn:Ea; [cbn; lia|]. destruct (pt_eqb p b) eqn:Eb; [cbn; lia|]. cbn [orb].
    rewrite !Hoct, Hor by assumption. apply turn8_covariant; auto; apply oct_range.
  Qed.
  Lemma winding8_cov : forall p r, winding8 (T p) (map T r) = sg * winding8 p r.
  Proof.
    intros p r. unfold winding8. induction r as [|a r IH]; [cbn; lia|].
    destruct r as [|b r]; [cbn; lia|].
    cbn [map segs fold_right fst snd] in *. rewrite edge_turn_cov, IH. ring.
  Qed.
  Lemma on_path_cov : forall p r, on_path (T p) (map T r) = on_path p r.
  Proof.
    intros p r. destruct r as [|a [|b r]]; [reflexivity | cbn [map on_path]; apply Hinj |].
    unfold on_path. cbn [map]. change (T a :: T b :: map T r) with (map T (a :: b :: r)).
    generalize (a :: b :: r). intros l. induction l as [|x l IH]; [reflexivity|].
    destruct l as [|y l]; [reflexivity|].
    cbn [map segs existsb fst snd] in *. rewrite Hon, IH. reflexivity.
  Qed.
  Lemma in_ring_cov : forall p r, in_ring (T p) (map T r) = in_ring p r.
  Proof.
    intros. unfold in_ring. rewrite on_path_cov, winding8_cov.
    destruct Hsg as [-> | ->]; [rewrite Z.mul_1_l; reflexivity|].
    replace (-1 * winding8 p r) with (- winding8 p r) by ring.
    rewrite Z.quot_opp_l by lia. rewrite Z.odd_opp. reflexivity.
  Qed.
End InRingCovariance.

Lemma oct_of_translate : forall d p a, pt_eqb p a = false -> oct_of (translate d p) (translate d a) = (0 + 1 * oct_of p a) mod 8.
Proof.
  intros [dx dy] [px py] [ax ay] _. unfold oct_of, translate. cbn [fst snd].
  replace (ax + dx - (px + dx)) with (ax - px) by ring. replace (ay + dy - (py + dy)) with (ay - py) by ring.
  rewrite Z.add_0_l, Z.mul_1_l, Z.mod_small; [reflexivity | apply oct_range].
Qed.
Lemma oct_opp_x : forall dx dy, dx <> 0 \/ dy <> 0 -> oct (- dx) dy = (4 + -1 * oct dx dy) mod 8.
Proof.
  intros dx dy H. unfold oct. rewrite Z.sgn_opp.
  destruct (Z.sgn dx) eqn:Ex, (Z.sgn dy) eqn:Ey; try (vm_compute; reflexivity).
  apply Z.sgn_null_iff in Ex, Ey. lia.
Qed.
Lemma oct_opp_y : forall dx dy, dx <> 0 \/ dy <> 0 -> oct dx (- dy) = (0 + -1 * oct dx dy) mod 8.
Proof.
  intros dx dy H. unfold oct. rewrite Z.sgn_opp.
  destruct (Z.sgn dx) eqn:Ex, (Z.sgn dy) eqn:Ey; try (vm_compute; reflexivity).
Qed.
Lemma oct_swap : forall dx dy, dx <> 0 \/ dy <> 0 -> oct dy dx = (2 + -1 * oct dx dy) mod 8.
Proof.
  intros dx dy H. unfold oct.
  destruct (Z.sgn dx) eqn:Ex, (Z.sgn dy) eqn:Ey; try (vm_compute; reflexivity).
  apply Z.sgn_null_iff in Ex, Ey. lia.
Qed.
Lemma pt_neq_diff : forall p a : pt, pt_eqb p a = false -> fst a - fst p <> 0 \/ snd a - snd p <> 0.
Proof.
  intros [px py] [ax ay] H. cbn [fst snd].
  destruct (Z.eq_dec ax px) as [->|]; [|lia]. destruct (Z.eq_dec ay py) as [->|]; [|lia].
  rewrite pt_eqb_refl in H. discriminate.
Qed.
Lemma oct_of_reflect_x : forall p a, pt_eqb p a = false -> oct_of (reflect_x p) (reflect_x a) = (4 + -1 * oct_of p a) mod 8.
Proof.
  intros p a H. apply pt_neq_diff in H. destruct p as [px py], a as [ax ay]. unfold oct_of, reflect_x. cbn [fst snd] in *.
  replace (- ax - - px) with (- (ax - px)) by ring. apply oct_opp_x. exact H.
Qed.
Lemma oct_of_reflect_y : forall p a, pt_eqb p a = false -> oct_of (reflect_y p) (reflect_y a) = (0 + -1 * oct_of p a) mod 8.
Proof.
  intros p a H. apply pt_neq_diff in H. destruct p as [px py], a as [ax ay]. unfold oct_of, reflect_y. cbn [fst snd] in *.
  replace (- ay - - py) with (- (ay - py)) by ring. apply oct_opp_y. exact H.
Qed.
Lemma oct_of_swap : forall p a, pt_eqb p a = false -> oct_of (swap_xy p) (swap_xy a) = (2 + -1 * oct_of p a) mod 8.
Proof.
  intros p a H. apply pt_neq_diff in H. destruct p as [px py], a as [ax ay]. unfold oct_of, swap_xy. cbn [fst snd] in *.
  apply oct_swap. exact H.
Qed.

Lemma in_ring_translate : forall d p r, in_ring (translate d p) (map (translate d) r) = in_ring p r.
Proof.
  intros d. apply (in_ring_cov (translate d) 0 1); try lia.
  - apply on_seg_translate.
  - intros. rewrite orient_translate. ring.
  - apply pt_eqb_translate.
  - apply oct_of_translate.
Qed.
Lemma in_ring_reflect_x : forall p r, in_ring (reflect_x p) (map reflect_x r) = in_ring p r.
Proof. apply (in_ring_cov reflect_x 4 (-1)); try lia; [apply on_seg_reflect_x | apply orient_reflect_x | apply pt_eqb_reflect_x | apply oct_of_reflect_x]. Qed.
Lemma in_ring_reflect_y : forall p r, in_ring (reflect_y p) (map reflect_y r) = in_ring p r.
Proof. apply (in_ring_cov reflect_y 0 (-1)); try lia; [apply on_seg_reflect_y | apply orient_reflect_y | apply pt_eqb_reflect_y | apply oct_of_reflect_y]. Qed.
Lemma in_ring_swap : forall p r, in_ring (swap_xy p) (map swap_xy r) = in_ring p r.
Proof. apply (in_ring_cov swap_xy 2 (-1)); try lia; [apply on_seg_swap | apply orient_swap | apply pt_eqb_swap | apply oct_of_swap]. Qed.

(* ---- homogeneous points ---- *)
Lemma scale_translate : forall w d a, scale_pt w (translate d a) = translate (scale_pt w d) (scale_pt w a).
Proof. intros w [dx dy] [ax ay]. unfold scale_pt, translate. cbn [fst snd]. f_equal; ring. Qed.
Lemma in_ring_h_translate : forall d q r, in_ring_h (translate_h d q) (map (translate d) r) = in_ring_h q r.
Proof.
  intros d [[x y] w] r. unfold in_ring_h, translate_h. rewrite map_map.
  rewrite (map_ext _ (fun a => translate (scale_pt w d) (scale_pt w a))) by (intros; apply scale_translate).
  rewrite <- (map_map (scale_pt w) (translate (scale_pt w d))).
  replace (x + w * fst d, y + w * snd d) with (translate (scale_pt w d) (x, y)) by (destruct d; reflexivity).
  apply in_ring_translate.
Qed.
Section LinearH.
  Variable T : pt -> pt.
  Hypothesis Tscale : forall w a, scale_pt w (T a) = T (scale_pt w a).
  Hypothesis Tring : forall p r, in_ring (T p) (map T r) = in_ring p r.
  Lemma in_ring_h_lin : forall q r, in_ring_h (lin_h T q) (map T r) = in_ring_h q r.
  Proof.
    intros [[x y] w] r. unfold in_ring_h, lin_h. rewrite map_map.
    rewrite (map_ext _ (fun a => T (scale_pt w a))) by (intros; apply Tscale).
    rewrite <- (map_map (scale_pt w) T). rewrite <- surjective_pairing. apply Tring.
  Qed.
End LinearH.
Lemma scale_reflect_x : forall w a, scale_pt w (reflect_x a) = reflect_x (scale_pt w a).
Proof. intros w [ax ay]. unfold scale_pt, reflect_x. cbn [fst snd]. f_equal; ring. Qed.
Lemma scale_reflect_y : forall w a, scale_pt w (reflect_y a) = reflect_y (scale_pt w a).
Proof. intros w [ax ay]. unfold scale_pt, reflect_y. cbn [fst snd]. f_equal; ring. Qed.
Lemma scale_swap : forall w a, scale_pt w (swap_xy a) = swap_xy (scale_pt w a).
Proof. intros w [ax ay]. unfold scale_pt, swap_xy. cbn [fst snd]. reflexivity. Qed.

Lemma scale_pt_1 : forall a, scale_pt 1 a = a.
Proof. intros [x y]. unfold scale_pt. cbn [fst snd]. f_equal; ring. Qed.
Lemma map_scale_1 : forall r, map (scale_pt 1) r = r.
Proof. intros. rewrite (map_ext _ (fun a => a)) by apply scale_pt_1. apply map_id. Qed.
Lemma in_ring_h_hp : forall p r, in_ring_h (hp p) r = in_ring p r.
Proof. intros [x y] r. unfold in_ring_h, hp. cbn [fst snd]. rewrite map_scale_1. reflexivity. Qed.

(* ---- a vertex of a sequence with at least one segment lies on it ---- *)
Lemma segs_cons2 : forall a b (r : seq), segs (a :: b :: r) = (a, b) :: segs (b :: r).
Proof. reflexivity. Qed.
Lemma on_segs_vertex : forall p r, In p r -> (2 <= length r)%nat -> existsb (fun s => on_seg p (fst s) (snd s)) (segs r) = true.
Proof.
  intros p r. induction r as [|a r IH]; [intros []|].
  destruct r as [|b r]; [cbn; lia|].
  intros Hin _. rewrite segs_cons2. cbn [existsb fst snd].
  destruct Hin as [<- | Hin]; [rewrite on_seg_endpoint_l; reflexivity|].
  destruct r as [|c r].
  - destruct Hin as [<- | []]. rewrite on_seg_endpoint_r. reflexivity.
  - rewrite IH; [apply orb_true_r | exact Hin | cbn [length]; lia].
Qed.
Lemma on_path_vertex : forall p r, In p r -> on_path p r = true.
Proof.
  intros p r Hin. destruct r as [|a [|b r]]; [destruct Hin | |].
  - destruct Hin as [<- | []]. cbn [on_path]. apply pt_eqb_refl.
  - unfold on_path. apply on_segs_vertex; [exact Hin | cbn [length]; lia].
Qed.
Lemma in_ring_on_path : forall p r, on_path p r = true -> in_ring p r = Boundary.
Proof. intros p r H. unfold in_ring. rewrite H. reflexivity. Qed.
