(* Lib/Valid — lemmas about Lib/ValidDefs.
   Part 1: covariance of every rule's violation set under a "similarity of the grid" (translation, reflection in an axis,
   axis swap), stated once for an abstract map with the properties collected in `sim` and instantiated four times. *)
From Coq Require Import ZArith List Bool Lia.
From GeosV.Lib Require Import GeomDefs LocateDefs ValidDefs Geom Locate.
Import ListNotations.
Local Open Scope Z_scope.

Definition map_sres (T : pt -> pt) (Th : hpt -> hpt) (r : sres) : sres :=
  match r with
  | SNone => SNone
  | SProper q => SProper (Th q)
  | STouch p => STouch (T p)
  | SOverlap p q => SOverlap (T p) (T q)
  end.
Definition map_event (T : pt -> pt) (Th : hpt -> hpt) (e : event) : event :=
  match e with EBad q => EBad (Th q) | ETouch p => ETouch (T p) end.

Record sim (T : pt -> pt) (Th : hpt -> hpt) (sg : Z) : Prop := {
  sim_sg : sg = 1 \/ sg = -1;
  sim_inj : forall a b, pt_eqb (T a) (T b) = pt_eqb a b;
  sim_orient : forall a b c, orient (T a) (T b) (T c) = sg * orient a b c;
  sim_on_seg : forall p a b, on_seg (T p) (T a) (T b) = on_seg p a b;
  sim_dot : forall p u v, dot (T p) (T u) (T v) = dot p u v;
  sim_hp : forall a, Th (hp a) = hp (T a);
  sim_mid : forall a b, Th (mid a b) = mid (T a) (T b);
  sim_in_ring_h : forall q r, in_ring_h (Th q) (map T r) = in_ring_h q r;
  sim_proper : forall a b o3 o4, o3 - o4 <> 0 -> proper_pt (T a) (T b) (sg * o3) (sg * o4) = Th (proper_pt a b o3 o4)
}.

(* ---- generic list facts ---- *)
Lemma pairs_map : forall {A B} (f : A -> B) l, pairs (map f l) = map (fun ab => (f (fst ab), f (snd ab))) (pairs l).
Proof.
  intros A B f l. induction l as [|a l IH]; [reflexivity|].
  cbn [map pairs]. rewrite map_app, IH, !map_map. reflexivity.
Qed.
Lemma index_from_map : forall {A B} (f : A -> B) l i, index_from i (map f l) = map (fun ia => (fst ia, f (snd ia))) (index_from i l).
Proof. intros A B f l. induction l as [|a l IH]; intros i; [reflexivity|]. cbn [map index_from fst snd]. rewrite IH. reflexivity. Qed.
Lemma index_from_length : forall {A} (l : list A) i, length (index_from i l) = length l.
Proof. intros A l. induction l as [|a l IH]; intros i; [reflexivity|]. cbn [index_from length]. rewrite IH. reflexivity. Qed.
Lemma flat_map_nil_all : forall {A B} (f : A -> list B) l, (forall a, In a l -> f a = []) -> flat_map f l = [].
Proof. intros A B f l H. induction l as [|a l IH]; [reflexivity|]. cbn [flat_map]. rewrite H, IH; [reflexivity | intros; apply H; right; assumption | left; reflexivity]. Qed.

Section Sim.
  Variable T : pt -> pt.
  Variable Th : hpt -> hpt.
  Variable sg : Z.
  Hypothesis S : sim T Th sg.

  Let T2 (s : pt * pt) : pt * pt := (T (fst s), T (snd s)).
  Let T3 (s : pt * pt * pt) : pt * pt * pt := (T (fst (fst s)), T (snd (fst s)), T (snd s)).
  Let ME := map_event T Th.

  Lemma mem_pt_map : forall p l, mem_pt (T p) (map T l) = mem_pt p l.
  Proof. intros. unfold mem_pt. apply existsb_map_comm. intros. apply (sim_inj _ _ _ S). Qed.
  Lemma nodup_pts_map : forall l, nodup_pts (map T l) = map T (nodup_pts l).
  Proof.
    induction l as [|a l IH]; [reflexivity|]. cbn [map nodup_pts]. rewrite mem_pt_map.
    destruct (mem_pt a l); [exact IH | cbn [map]; rewrite IH; reflexivity].
  Qed.
  Lemma opposite_sg : forall a b, opposite (sg * a) (sg * b) = opposite a b.
  Proof.
    intros a b. unfold opposite. apply bool_eq_iff. rewrite !orb_true_iff, !andb_true_iff, !Z.ltb_lt.
    destruct (sim_sg _ _ _ S) as [-> | ->]; lia.
  Qed.
  Lemma opposite_neq : forall a b, opposite a b = true -> a - b <> 0.
  Proof. intros a b. unfold opposite. rewrite orb_true_iff, !andb_true_iff, !Z.ltb_lt. lia. Qed.

  Lemma seg_int_map : forall a b c d, seg_int (T a) (T b) (T c) (T d) = map_sres T Th (seg_int a b c d).
  Proof.
    intros a b c d. unfold seg_int. rewrite !(sim_orient _ _ _ S), !opposite_sg.
    destruct (opposite (orient a b c) (orient a b d) && opposite (orient c d a) (orient c d b)) eqn:E.
    - apply andb_true_iff in E. destruct E as [_ E]. cbn [map_sres]. f_equal.
      apply (sim_proper _ _ _ S). apply opposite_neq. exact E.
    - change [T c; T d] with (map T [c; d]). change [T a; T b] with (map T [a; b]).
      rewrite (filter_map_comm T _ (fun p => on_seg p a b)) by (intros; apply (sim_on_seg _ _ _ S)).
      rewrite (filter_map_comm T _ (fun p => on_seg p c d)) by (intros; apply (sim_on_seg _ _ _ S)).
      rewrite <- map_app, nodup_pts_map.
      destruct (nodup_pts _) as [|p [|q l]]; reflexivity.
  Qed.

  Lemma seg_events_map : forall adj s t, seg_events adj (T2 s) (T2 t) = map ME (seg_events adj s t).
  Proof.
    intros adj s t. unfold seg_events, T2. cbn [fst snd]. rewrite seg_int_map.
    unfold ME. destruct (seg_int (fst s) (snd s) (fst t) (snd t)); cbn [map_sres map map_event]; try reflexivity.
    - destruct adj; reflexivity.
    - rewrite !(sim_hp _ _ _ S). reflexivity.
  Qed.
  Lemma bad_pts_map : forall evs, bad_pts (map ME evs) = map Th (bad_pts evs).
  Proof. intros. unfold bad_pts. apply flat_map_map_comm. intros [q|p]; reflexivity. Qed.
  Lemma touch_pts_map : forall evs, touch_pts (map ME evs) = map T (touch_pts evs).
  Proof. intros. unfold touch_pts. apply flat_map_map_comm. intros [q|p]; reflexivity. Qed.

  Lemma self_events_map : forall r, self_events (map T r) = map ME (self_events r).
  Proof.
    intros r. unfold self_events. rewrite (segs_map T), index_from_map, pairs_map.
    rewrite map_length. apply flat_map_map_comm.
    intros [[i s] [j t]]. cbn [fst snd]. apply seg_events_map.
  Qed.
  Lemma cross_events_map : forall r1 r2, cross_events (map T r1) (map T r2) = map ME (cross_events r1 r2).
  Proof.
    intros. unfold cross_events. rewrite !(segs_map T). apply flat_map_map_comm. intros s.
    apply flat_map_map_comm. intros t. apply seg_events_map.
  Qed.

  (* passes *)
  Lemma strictly_on_map : forall p a b, strictly_on (T p) (T a) (T b) = strictly_on p a b.
  Proof. intros. unfold strictly_on. rewrite (sim_on_seg _ _ _ S), !(sim_inj _ _ _ S). reflexivity. Qed.
  Lemma cyc_map : forall r, cyc (map T r) = map T (cyc r).
  Proof. intros. unfold cyc. rewrite (closed_map T (sim_inj _ _ _ S)). destruct (closed r); [apply removelast_map | reflexivity]. Qed.
  Lemma cyc_triples_map : forall c, cyc_triples (map T c) = map T3 (cyc_triples c).
  Proof.
    intros [|h t]; [reflexivity|]. unfold cyc_triples. cbn [map].
    change (T h :: map T t) with (map T (h :: t)).
    rewrite last_map, removelast_map.
    change (T (last (h :: t) h) :: map T (removelast (h :: t))) with (map T (last (h :: t) h :: removelast (h :: t))).
    replace (map T t ++ [T h]) with (map T (t ++ [h])) by (rewrite map_app; reflexivity).
    rewrite !combine_map. apply map_ext. intros [[u v] w]. reflexivity.
  Qed.
  Lemma passes_at_map : forall p r, passes_at (T p) (map T r) = map T2 (passes_at p r).
  Proof.
    intros p r. unfold passes_at. rewrite cyc_map, cyc_triples_map. apply flat_map_map_comm.
    intros [[u v] w]. unfold T3. cbn [fst snd]. rewrite (sim_inj _ _ _ S), strictly_on_map.
    destruct (pt_eqb v p), (strictly_on p v w); reflexivity.
  Qed.
  Lemma in_sector_map : forall p u v r,
    in_sector (T p) (T u) (T v) (T r) = if 0 <? sg then in_sector p u v r else in_sector p v u r.
  Proof.
    intros p u v r. unfold in_sector. rewrite !(sim_orient _ _ _ S), (sim_dot _ _ _ S).
    destruct (sim_sg _ _ _ S) as [-> | ->]; cbn [Z.ltb Z.compare].
    - rewrite !Z.mul_1_l. reflexivity.
    - pose proof (orient_swap23 p u v) as E1. pose proof (orient_swap23 p r v) as E2. pose proof (orient_swap23 p u r) as E3.
      rewrite E1, E2, E3.
      replace (dot p v u) with (dot p u v) by (unfold dot; ring).
      set (s := orient p u v). set (a := orient p u r). set (b := orient p r v).
      replace (-1 * s) with (- s) by ring. replace (-1 * a) with (- a) by ring. replace (-1 * b) with (- b) by ring.
      replace (-1 * - b) with b by ring. replace (-1 * - a) with a by ring.
      destruct (0 <? - s); [apply andb_comm|].
      destruct (- s <? 0); [rewrite (andb_comm (0 <=? b)); reflexivity|].
      destruct (dot p u v <? 0); [apply andb_comm | reflexivity].
  Qed.
  Lemma pass_cross_map : forall p a b, pass_cross (T p) (T2 a) (T2 b) = pass_cross p a b.
  Proof.
    intros p a b. unfold pass_cross, T2. cbn [fst snd]. rewrite !in_sector_map.
    destruct (0 <? sg); [reflexivity | apply orb_comm].
  Qed.

  (* rings by value *)
  Lemma seq_eqb_map : forall a b, seq_eqb (map T a) (map T b) = seq_eqb a b.
  Proof.
    intros a b. unfold seq_eqb. rewrite !map_length. f_equal.
    rewrite combine_map. apply forallb_map_comm. intros [x y]. cbn [fst snd]. apply (sim_inj _ _ _ S).
  Qed.
  Lemma others_map : forall r rs, others (map T r) (map (map T) rs) = map (map T) (others r rs).
  Proof. intros. unfold others. apply filter_map_comm. intros u. rewrite seq_eqb_map. reflexivity. Qed.
  Lemma is_dup_map : forall r rs, is_dup (map T r) (map (map T) rs) = is_dup r rs.
  Proof.
    intros. unfold is_dup. rewrite (filter_map_comm (map T) _ (seq_eqb r)) by (intros; apply seq_eqb_map).
    rewrite map_length. reflexivity.
  Qed.
  Lemma poly_eqb_map : forall a b, poly_eqb (map_poly T a) (map_poly T b) = poly_eqb a b.
  Proof.
    intros [s hs] [s' hs']. unfold poly_eqb, map_poly. cbn [fst snd]. rewrite seq_eqb_map, !map_length. f_equal.
    rewrite combine_map. apply forallb_map_comm. intros [x y]. cbn [fst snd]. apply seq_eqb_map.
  Qed.
  Lemma other_polys_map : forall a ps, other_polys (map_poly T a) (map (map_poly T) ps) = map (map_poly T) (other_polys a ps).
  Proof. intros. unfold other_polys. apply filter_map_comm. intros b. rewrite poly_eqb_map. reflexivity. Qed.
  Lemma map_hp_map : forall l, map hp (map T l) = map Th (map hp l).
  Proof. intros. rewrite !map_map. apply map_ext. intros. symmetry. apply (sim_hp _ _ _ S). Qed.

  (* rules 5 and 6 *)
  Lemma touch_nodes_map : forall r rest, touch_nodes (map T r) (map (map T) rest) = map T (touch_nodes r rest).
  Proof.
    intros. unfold touch_nodes. rewrite self_events_map, touch_pts_map.
    rewrite (flat_map_map_comm (map T) T _ (fun u => touch_pts (cross_events r u)))
      by (intros u; rewrite cross_events_map; apply touch_pts_map).
    rewrite <- map_app. apply nodup_pts_map.
  Qed.
  Lemma node_cross_map : forall r rest p, node_cross (map T r) (map (map T) rest) (T p) = node_cross r rest p.
  Proof.
    intros. unfold node_cross. rewrite passes_at_map.
    rewrite (flat_map_map_comm (map T) T2 _ (passes_at p)) by (intros; apply passes_at_map).
    rewrite pairs_map. f_equal.
    - apply existsb_map_comm. intros a. apply existsb_map_comm. intros b. apply pass_cross_map.
    - apply existsb_map_comm. intros [a b]. cbn [fst snd]. rewrite !pass_cross_map. reflexivity.
  Qed.
  Lemma ring_bad_map : forall ar r, ring_bad (map (map T) ar) (map T r) = map Th (ring_bad ar r).
  Proof.
    intros. unfold ring_bad. cbv zeta. rewrite others_map, is_dup_map, self_events_map, bad_pts_map, touch_nodes_map.
    rewrite !map_app. f_equal. f_equal; [|f_equal].
    - apply flat_map_map_comm. intros u. rewrite cross_events_map. apply bad_pts_map.
    - destruct (is_dup r ar); [apply map_hp_map | reflexivity].
    - rewrite (filter_map_comm T _ (node_cross r (others r ar))) by (intros; apply node_cross_map).
      apply map_hp_map.
  Qed.
  Lemma self_intersection_set_map : forall ar, self_intersection_set (map (map T) ar) = map Th (self_intersection_set ar).
  Proof. intros. unfold self_intersection_set. apply flat_map_map_comm. intros. apply ring_bad_map. Qed.
  Lemma ring_self_set_map : forall r, ring_self_set (map T r) = map Th (ring_self_set r).
  Proof. intros. unfold ring_self_set. rewrite self_events_map, bad_pts_map, touch_pts_map, map_app, map_hp_map. reflexivity. Qed.
  Lemma ring_self_intersection_set_map : forall ar, ring_self_intersection_set (map (map T) ar) = map Th (ring_self_intersection_set ar).
  Proof. intros. unfold ring_self_intersection_set. apply flat_map_map_comm. intros. apply ring_self_set_map. Qed.

  Lemma poly_is_empty_map : forall a, poly_is_empty (map_poly T a) = poly_is_empty a.
  Proof. intros [[|p s] hs]; reflexivity. Qed.
  Lemma live_polys_map : forall ps, live_polys (map (map_poly T) ps) = map (map_poly T) (live_polys ps).
  Proof. intros. unfold live_polys. apply filter_map_comm. intros. rewrite poly_is_empty_map. reflexivity. Qed.
  Lemma nonempty_map : forall {A B} (f : A -> B) l, nonempty (map f l) = nonempty l.
  Proof. intros A B f [|a l]; reflexivity. Qed.
  Lemma poly_rings_map : forall a, poly_rings (map_poly T a) = map (map T) (poly_rings a).
  Proof. intros [s hs]. reflexivity. Qed.
  Lemma all_rings_map : forall dps, all_rings (map (map_poly T) dps) = map (map T) (all_rings dps).
  Proof. intros. unfold all_rings. apply flat_map_map_comm. intros. apply poly_rings_map. Qed.

  (* ring inside ring *)
  Lemma edge_samples_map : forall vs s, edge_samples (map T vs) (T2 s) = map Th (edge_samples vs s).
  Proof.
    intros vs s. unfold edge_samples, T2. cbn [fst snd].
    rewrite (filter_map_comm T _ (fun v => strictly_on v (fst s) (snd s))) by (intros; apply strictly_on_map).
    change (T (fst s) :: T (snd s) :: map T (filter (fun v => strictly_on v (fst s) (snd s)) vs))
      with (map T (fst s :: snd s :: filter (fun v => strictly_on v (fst s) (snd s)) vs)).
    rewrite pairs_map, !map_map. apply map_ext. intros [a b]. cbn [fst snd]. symmetry. apply (sim_mid _ _ _ S).
  Qed.
  Lemma ring_samples_map : forall h vs, ring_samples (map T h) (map T vs) = map Th (ring_samples h vs).
  Proof.
    intros. unfold ring_samples. rewrite map_app, !map_map. f_equal.
    - apply map_ext. intros. symmetry. apply (sim_hp _ _ _ S).
    - rewrite (segs_map T). apply flat_map_map_comm. intros s. apply edge_samples_map.
  Qed.
  Lemma ring_inside_map : forall h t, ring_inside (map T h) (map T t) = ring_inside h t.
  Proof.
    intros. unfold ring_inside. rewrite ring_samples_map. apply forallb_map_comm. intros q.
    rewrite (sim_in_ring_h _ _ _ S). reflexivity.
  Qed.
  Lemma hole_outside_set_map : forall a, hole_outside_set (map_poly T a) = map Th (hole_outside_set a).
  Proof.
    intros [s hs]. unfold hole_outside_set, map_poly. cbn [fst snd]. apply flat_map_map_comm. intros h.
    rewrite ring_inside_map. destruct (ring_inside h s); [reflexivity | apply map_hp_map].
  Qed.
  Lemma nested_holes_set_map : forall a, nested_holes_set (map_poly T a) = map Th (nested_holes_set a).
  Proof.
    intros [s hs]. unfold nested_holes_set, map_poly. cbn [fst snd]. apply flat_map_map_comm. intros h.
    rewrite others_map. rewrite (existsb_map_comm (map T) _ (ring_inside h)) by (intros; apply ring_inside_map).
    destruct (existsb _ _); [apply map_hp_map | reflexivity].
  Qed.
  Lemma on_path_scale_h : forall x y w r, on_path (x, y) (map (scale_pt w) r) = location_eqb (in_ring_h (x, y, w) r) Boundary.
  Proof.
    intros. unfold in_ring_h, in_ring. destruct (on_path (x, y) (map (scale_pt w) r)); [reflexivity|].
    destruct (Z.odd _); reflexivity.
  Qed.
  Lemma loc_poly_h_unfold : forall q a, loc_poly_h q a =
    if existsb (fun r => location_eqb (in_ring_h q r) Boundary) (poly_rings a) then Boundary
    else if location_eqb (in_ring_h q (fst a)) Interior
            && negb (existsb (fun h => location_eqb (in_ring_h q h) Interior) (snd a)) then Interior
    else Exterior.
  Proof.
    intros [[x y] w] [s hs]. unfold loc_poly_h, loc_poly, map_poly, poly_rings. cbn [fst snd].
    change (map (scale_pt w) s :: map (map (scale_pt w)) hs) with (map (map (scale_pt w)) (s :: hs)).
    rewrite (existsb_map_comm (map (scale_pt w)) _ (fun r => location_eqb (in_ring_h (x, y, w) r) Boundary)) by (intros; apply on_path_scale_h).
    rewrite (existsb_map_comm (map (scale_pt w)) _ (fun h => location_eqb (in_ring_h (x, y, w) h) Interior)) by reflexivity.
    reflexivity.
  Qed.
  Lemma loc_poly_h_map : forall q a, loc_poly_h (Th q) (map_poly T a) = loc_poly_h q a.
  Proof.
    intros q a. rewrite !loc_poly_h_unfold, poly_rings_map. destruct a as [s hs]. unfold map_poly. cbn [fst snd].
    rewrite (sim_in_ring_h _ _ _ S).
    rewrite (existsb_map_comm (map T) _ (fun r => location_eqb (in_ring_h q r) Boundary)) by (intros; rewrite (sim_in_ring_h _ _ _ S); reflexivity).
    rewrite (existsb_map_comm (map T) _ (fun h => location_eqb (in_ring_h q h) Interior)) by (intros; rewrite (sim_in_ring_h _ _ _ S); reflexivity).
    reflexivity.
  Qed.
  Lemma poly_vertices_map : forall a, poly_vertices (map_poly T a) = map T (poly_vertices a).
  Proof. intros [s hs]. unfold poly_vertices, map_poly. cbn [fst snd]. rewrite map_app, concat_map. reflexivity. Qed.
  Lemma shell_in_poly_map : forall a b, shell_in_poly (map_poly T a) (map_poly T b) = shell_in_poly a b.
  Proof.
    intros a b. unfold shell_in_poly. rewrite poly_vertices_map.
    replace (fst (map_poly T a)) with (map T (fst a)) by reflexivity.
    rewrite ring_samples_map. apply existsb_map_comm. intros q. rewrite loc_poly_h_map. reflexivity.
  Qed.
  Lemma nested_shells_set_map : forall ps, nested_shells_set (map (map_poly T) ps) = map Th (nested_shells_set ps).
  Proof.
    intros ps. unfold nested_shells_set. apply flat_map_map_comm. intros a.
    rewrite other_polys_map. rewrite (existsb_map_comm (map_poly T) _ (shell_in_poly a)) by (intros; apply shell_in_poly_map).
    destruct (existsb _ _); [apply map_hp_map | reflexivity].
  Qed.

  (* connected interior *)
  Lemma ring_touch_pts_map : forall r rest, ring_touch_pts (map T r) (map (map T) rest) = map T (ring_touch_pts r rest).
  Proof.
    intros. unfold ring_touch_pts.
    rewrite (flat_map_map_comm (map T) T _ (fun u => touch_pts (cross_events r u)))
      by (intros u; rewrite cross_events_map; apply touch_pts_map).
    apply nodup_pts_map.
  Qed.
  Lemma prune_step_map : forall rs, prune_step (map (map T) rs) = map (map T) (prune_step rs).
  Proof.
    intros rs. unfold prune_step. apply filter_map_comm. intros r.
    rewrite others_map, ring_touch_pts_map, map_length. reflexivity.
  Qed.
  Lemma prune_map : forall fuel rs, prune fuel (map (map T) rs) = map (map T) (prune fuel rs).
  Proof. induction fuel as [|f IH]; intros rs; [reflexivity|]. cbn [prune]. rewrite prune_step_map. apply IH. Qed.
  Lemma cycle_nodes_map : forall rs, cycle_nodes (map (map T) rs) = map T (cycle_nodes rs).
  Proof.
    intros. unfold cycle_nodes. cbv zeta. rewrite map_length, prune_map.
    apply flat_map_map_comm. intros r. rewrite others_map. apply ring_touch_pts_map.
  Qed.
  Lemma area2_map : forall r, area2 (map T r) = sg * area2 r.
  Proof.
    intros [|o r]; [cbn; lia|]. unfold area2. cbn [map].
    change (T o :: map T r) with (map T (o :: r)). rewrite (segs_map T).
    induction (segs (o :: r)) as [|s l IH]; [cbn; lia|].
    cbn [map fold_right fst snd]. rewrite IH, (sim_orient _ _ _ S). ring.
  Qed.
  Lemma ring_side_map : forall b r, ring_side b (map T r) = if 0 <? sg then ring_side b r else CompOpp (ring_side b r).
  Proof.
    intros b r. unfold ring_side. rewrite area2_map.
    destruct (sim_sg _ _ _ S) as [-> | ->]; [change (0 <? 1) with true | change (0 <? -1) with false]; cbv iota.
    - rewrite Z.mul_1_l. reflexivity.
    - replace (-1 * area2 r) with (- area2 r) by ring. destruct b.
      + destruct (Z.compare_spec (- area2 r) 0), (Z.compare_spec (area2 r) 0); cbn [CompOpp]; try reflexivity; lia.
      + destruct (Z.compare_spec 0 (- area2 r)), (Z.compare_spec 0 (area2 r)); cbn [CompOpp]; try reflexivity; lia.
  Qed.
  Lemma pass_on_interior_side_map : forall p side a b,
    pass_on_interior_side (T p) (if 0 <? sg then side else CompOpp side) (T2 a) (T2 b) = pass_on_interior_side p side a b.
  Proof.
    intros p side a b. unfold pass_on_interior_side, T2. cbn [fst snd].
    destruct (0 <? sg) eqn:E; destruct side; cbn [CompOpp]; rewrite ?in_sector_map, ?E; reflexivity.
  Qed.
  Lemma interior_self_nodes_map : forall b r, interior_self_nodes b (map T r) = map T (interior_self_nodes b r).
  Proof.
    intros b r. unfold interior_self_nodes. cbv zeta. rewrite self_events_map, touch_pts_map, nodup_pts_map.
    apply filter_map_comm. intros p.
    rewrite passes_at_map, pairs_map, ring_side_map. apply existsb_map_comm. intros [x y]. cbn [fst snd].
    rewrite !pass_on_interior_side_map. reflexivity.
  Qed.
  Lemma poly_disconnected_set_map : forall flag a, poly_disconnected_set flag (map_poly T a) = map Th (poly_disconnected_set flag a).
  Proof.
    intros flag a. unfold poly_disconnected_set. rewrite poly_rings_map, cycle_nodes_map, (map_app Th), map_hp_map. f_equal.
    destruct flag; [|reflexivity]. destruct a as [s hs]. unfold map_poly. cbn [fst snd].
    rewrite interior_self_nodes_map.
    rewrite (flat_map_map_comm (map T) T _ (interior_self_nodes false)) by (intros; apply interior_self_nodes_map).
    rewrite <- map_app. apply map_hp_map.
  Qed.
  Lemma disconnected_set_map : forall flag dps, disconnected_set flag (map (map_poly T) dps) = map Th (disconnected_set flag dps).
  Proof. intros. unfold disconnected_set. apply flat_map_map_comm. intros. apply poly_disconnected_set_map. Qed.

  (* structure *)
  Lemma not_closed_set_map : forall r, not_closed_set (map T r) = map Th (not_closed_set r).
  Proof.
    intros [|a r]; [reflexivity|]. unfold not_closed_set. cbn [map].
    change (T a :: map T r) with (map T (a :: r)). rewrite (closed_map T (sim_inj _ _ _ S)).
    destruct (closed (a :: r)); [reflexivity|]. cbn [map]. rewrite (sim_hp _ _ _ S). reflexivity.
  Qed.
  Lemma too_few_set_map : forall m l, too_few_set m (map T l) = map Th (too_few_set m l).
  Proof.
    intros m [|a l]; [reflexivity|]. unfold too_few_set. cbn [map].
    change (T a :: map T l) with (map T (a :: l)). rewrite (dedup_map T (sim_inj _ _ _ S)), map_length.
    destruct (Nat.leb m (length (dedup (a :: l)))); [reflexivity|]. cbn [map]. rewrite (sim_hp _ _ _ S). reflexivity.
  Qed.

  (* all rules *)
  Definition map_vsets (v : vsets) : vsets := map (map Th) v.
  Lemma zip_app_map : forall a b, zip_app (map_vsets a) (map_vsets b) = map_vsets (zip_app a b).
  Proof.
    unfold map_vsets. induction a as [|x a IH]; intros [|y b]; cbn [map zip_app]; try reflexivity.
    rewrite IH, map_app. reflexivity.
  Qed.
  Lemma no_viol_map : map_vsets no_viol = no_viol.
  Proof. reflexivity. Qed.
  Lemma line_vsets_map : forall l, line_vsets (map T l) = map_vsets (line_vsets l).
  Proof. intros. unfold line_vsets, map_vsets. cbn [map]. rewrite too_few_set_map. reflexivity. Qed.
  Lemma ring_vsets_map : forall l, ring_vsets (map T l) = map_vsets (ring_vsets l).
  Proof.
    intros. unfold ring_vsets, map_vsets. cbn [map]. rewrite too_few_set_map, not_closed_set_map.
    rewrite (dedup_map T (sim_inj _ _ _ S)), ring_self_set_map. reflexivity.
  Qed.
  Lemma dedup_poly_map : forall a, dedup_poly (map_poly T a) = map_poly T (dedup_poly a).
  Proof.
    intros [s hs]. unfold dedup_poly, map_poly. cbn [fst snd]. rewrite (dedup_map T (sim_inj _ _ _ S)). f_equal.
    rewrite (filter_map_comm _ _ (@nonempty pt)) by (intros; apply nonempty_map).
    rewrite !map_map. apply map_ext. intros. apply (dedup_map T (sim_inj _ _ _ S)).
  Qed.
  Lemma norm_polys_map : forall ps, norm_polys (map (map_poly T) ps) = map (map_poly T) (norm_polys ps).
  Proof.
    intros. unfold norm_polys. rewrite live_polys_map, !map_map. apply map_ext. intros. apply dedup_poly_map.
  Qed.
  Lemma polygonal_vsets_map : forall flag ps, polygonal_vsets flag (map (map_poly T) ps) = map_vsets (polygonal_vsets flag ps).
  Proof.
    intros flag ps. unfold polygonal_vsets, map_vsets. cbv zeta. cbn [map].
    rewrite norm_polys_map, all_rings_map, live_polys_map, self_intersection_set_map, disconnected_set_map, nested_shells_set_map.
    repeat f_equal.
    - apply flat_map_map_comm. intros a. rewrite poly_rings_map. apply flat_map_map_comm. intros r. apply not_closed_set_map.
    - apply flat_map_map_comm. intros a. rewrite poly_rings_map. apply flat_map_map_comm. intros r. apply too_few_set_map.
    - destruct flag; [reflexivity | apply ring_self_intersection_set_map].
    - apply flat_map_map_comm. intros. apply hole_outside_set_map.
    - apply flat_map_map_comm. intros. apply nested_holes_set_map.
  Qed.
  Theorem vsets_of_map : forall flag g, vsets_of flag (map_geom T g) = map_vsets (vsets_of flag g).
  Proof.
    intros flag g. induction g using geom_ind'; cbn [map_geom vsets_of]; try reflexivity.
    - apply line_vsets_map.
    - apply ring_vsets_map.
    - change [(map T s, map (map T) hs)] with (map (map_poly T) [(s, hs)]). apply polygonal_vsets_map.
    - induction ls as [|l ls IH]; [reflexivity|]. cbn [map fold_right]. rewrite IH, line_vsets_map. apply zip_app_map.
    - apply polygonal_vsets_map.
    - induction gs as [|h gs IH]; [reflexivity|]. inversion H as [|? ? Hh Hgs]; subst.
      cbn [map fold_right]. rewrite (IH Hgs), Hh. apply zip_app_map.
  Qed.
  Lemma isnil_map : forall {A B} (f : A -> B) l, isnil (map f l) = isnil l.
  Proof. intros A B f [|a l]; reflexivity. Qed.
  Theorem valid_flag_map : forall flag g, valid_flag flag (map_geom T g) = valid_flag flag g.
  Proof.
    intros. unfold valid_flag. rewrite vsets_of_map. unfold map_vsets. apply forallb_map_comm. intros. apply isnil_map.
  Qed.
  Theorem violations_map : forall flag g,
    violations flag (map_geom T g) = map (fun rs => (fst rs, map Th (snd rs))) (violations flag g).
  Proof.
    intros. unfold violations. rewrite vsets_of_map. unfold map_vsets.
    generalize (vsets_of flag g). generalize all_rules. induction l as [|r l IH]; intros [|v vs]; cbn [combine map]; try reflexivity.
    rewrite IH. reflexivity.
  Qed.

  (* simplicity *)
  Lemma line_nonsimple_pts_map : forall l, line_nonsimple_pts (map T l) = map Th (line_nonsimple_pts l).
  Proof.
    intros l. unfold line_nonsimple_pts. cbv zeta. rewrite (dedup_map T (sim_inj _ _ _ S)), (segs_map T), index_from_map, pairs_map, map_length.
    apply flat_map_map_comm. intros [[i s] [j t]]. cbn [fst snd]. rewrite seg_int_map.
    destruct (seg_int (fst s) (snd s) (fst t) (snd t)) as [|q|p|p q]; cbn [map_sres map]; try reflexivity.
    - rewrite (closed_map T (sim_inj _ _ _ S)).
      assert (E : pt_eqb (T p) (hd (T p) (map T (dedup l))) = pt_eqb p (hd p (dedup l))).
      { destruct (dedup l) as [|a r]; cbn [map hd]; apply (sim_inj _ _ _ S). }
      rewrite E. destruct (Nat.eqb j (Datatypes.S i)); [reflexivity|].
      destruct (Nat.eqb i 0 && Nat.eqb (Datatypes.S j) (length (index_from 0 (segs (dedup l)))) && closed (dedup l) && pt_eqb p (hd p (dedup l))); [reflexivity|].
      cbn [map]. rewrite (sim_hp _ _ _ S). reflexivity.
    - rewrite !(sim_hp _ _ _ S). reflexivity.
  Qed.
  Lemma is_end_map : forall p l, is_end (T p) (map T l) = is_end p l.
  Proof.
    intros p [|a l]; [reflexivity|]. unfold is_end. cbn [map]. change (T a :: map T l) with (map T (a :: l)).
    rewrite last_map, !(sim_inj _ _ _ S). reflexivity.
  Qed.
  Lemma lines_cross_nonsimple_pts_map : forall l1 l2,
    lines_cross_nonsimple_pts (map T l1) (map T l2) = map Th (lines_cross_nonsimple_pts l1 l2).
  Proof.
    intros. unfold lines_cross_nonsimple_pts. cbv zeta. rewrite !(dedup_map T (sim_inj _ _ _ S)), cross_events_map.
    apply flat_map_map_comm. intros [q|p]; unfold ME; cbn [map_event]; [reflexivity|].
    rewrite !is_end_map, !(closed_map T (sim_inj _ _ _ S)).
    destruct (is_end p (dedup l1) && is_end p (dedup l2) && negb (closed (dedup l1)) && negb (closed (dedup l2))); [reflexivity|].
    cbn [map]. rewrite (sim_hp _ _ _ S). reflexivity.
  Qed.
  Lemma lines_nonsimple_pts_map : forall ls, lines_nonsimple_pts (map (map T) ls) = map Th (lines_nonsimple_pts ls).
  Proof.
    intros. unfold lines_nonsimple_pts. apply flat_map_map_comm. intros l.
    rewrite line_nonsimple_pts_map, others_map, is_dup_map, (dedup_map T (sim_inj _ _ _ S)), map_length, !map_app.
    f_equal. f_equal.
    - apply flat_map_map_comm. intros. apply lines_cross_nonsimple_pts_map.
    - destruct (is_dup l ls && Nat.leb 2 (length (dedup l))); [apply map_hp_map | reflexivity].
  Qed.
  Lemma dup_pts_map : forall l, dup_pts (map T l) = map T (dup_pts l).
  Proof.
    induction l as [|a l IH]; [reflexivity|]. cbn [map dup_pts]. rewrite mem_pt_map.
    destruct (mem_pt a l); cbn [map]; rewrite IH; reflexivity.
  Qed.
  Lemma opt_list_map : forall (p : option pt), opt_list (option_map T p) = map T (opt_list p).
  Proof. intros [p|]; reflexivity. Qed.
  Theorem nonsimple_pts_map : forall g, nonsimple_pts (map_geom T g) = map Th (nonsimple_pts g).
  Proof.
    intros g. induction g using geom_ind'; cbn [map_geom nonsimple_pts]; try reflexivity.
    - apply line_nonsimple_pts_map.
    - apply line_nonsimple_pts_map.
    - change (map T s :: map (map T) hs) with (map (map T) (s :: hs)). apply flat_map_map_comm. intros. apply line_nonsimple_pts_map.
    - rewrite (flat_map_map_comm (option_map T) T _ opt_list) by (intros; apply opt_list_map).
      rewrite dup_pts_map. apply map_hp_map.
    - apply lines_nonsimple_pts_map.
    - apply flat_map_map_comm. intros a. rewrite poly_rings_map. apply flat_map_map_comm. intros. apply line_nonsimple_pts_map.
    - induction gs as [|h gs IH]; [reflexivity|]. inversion H as [|? ? Hh Hgs]; subst.
      cbn [map flat_map]. rewrite Hh, (IH Hgs), map_app. reflexivity.
  Qed.
  Theorem simple_geom_map : forall g, simple_geom (map_geom T g) = simple_geom g.
  Proof. intros. unfold simple_geom. rewrite nonsimple_pts_map. apply isnil_map. Qed.
  Theorem is_ring_map : forall g, is_ring (map_geom T g) = is_ring g.
  Proof.
    intros [p|l|l|s hs|ps|ls|ps|gs]; try reflexivity; unfold is_ring.
    - change (GLine (map T l)) with (map_geom T (GLine l)). rewrite simple_geom_map. cbn [map_geom].
      rewrite nonempty_map, (closed_map T (sim_inj _ _ _ S)). reflexivity.
    - change (GRing (map T l)) with (map_geom T (GRing l)). rewrite simple_geom_map. cbn [map_geom].
      rewrite (closed_map T (sim_inj _ _ _ S)). reflexivity.
  Qed.
End Sim.

(* ---- the four instances ---- *)
Lemma triple_eq : forall (x y w x' y' w' : Z), x = x' -> y = y' -> w = w' -> (x, y, w) = (x', y', w').
Proof. intros; subst; reflexivity. Qed.
Lemma sim_translate : forall d, sim (translate d) (translate_h d) 1.
Proof.
  intros d. constructor.
  - left; reflexivity.
  - apply pt_eqb_translate.
  - intros. rewrite orient_translate. ring.
  - apply on_seg_translate.
  - intros [px py] [ux uy] [vx vy]. destruct d. unfold dot, translate. cbn [fst snd]. ring.
  - intros [ax ay]. destruct d. unfold hp, translate_h, translate. cbn [fst snd]. apply triple_eq; ring.
  - intros [ax ay] [bx by_]. destruct d. unfold mid, translate_h, translate. cbn [fst snd]. apply triple_eq; ring.
  - apply in_ring_h_translate.
  - intros [ax ay] [bx by_] o3 o4 _. destruct d as [dx dy]. unfold proper_pt, translate, translate_h. cbn [fst snd].
    rewrite !Z.mul_1_l. destruct (0 <? o3 - o4); apply triple_eq; ring.
Qed.
Lemma sim_linear : forall T, 
  (forall a b, pt_eqb (T a) (T b) = pt_eqb a b) ->
  (forall a b c, orient (T a) (T b) (T c) = -1 * orient a b c) ->
  (forall p a b, on_seg (T p) (T a) (T b) = on_seg p a b) ->
  (forall p u v, dot (T p) (T u) (T v) = dot p u v) ->
  (forall a, lin_h T (hp a) = hp (T a)) ->
  (forall a b, lin_h T (mid a b) = mid (T a) (T b)) ->
  (forall q r, in_ring_h (lin_h T q) (map T r) = in_ring_h q r) ->
  (forall a b o3 o4, o3 - o4 <> 0 -> proper_pt (T a) (T b) (-1 * o3) (-1 * o4) = lin_h T (proper_pt a b o3 o4)) ->
  sim T (lin_h T) (-1).
Proof. intros. constructor; auto. Qed.
Lemma sim_reflect_x : sim reflect_x (lin_h reflect_x) (-1).
Proof.
  apply sim_linear.
  - apply pt_eqb_reflect_x.
  - apply orient_reflect_x.
  - apply on_seg_reflect_x.
  - intros [px py] [ux uy] [vx vy]. unfold dot, reflect_x. cbn [fst snd]. ring.
  - intros [ax ay]. reflexivity.
  - intros [ax ay] [bx by_]. unfold mid, lin_h, reflect_x. cbn [fst snd]. apply triple_eq; ring.
  - apply in_ring_h_lin; [apply scale_reflect_x | apply in_ring_reflect_x].
  - intros [ax ay] [bx by_] o3 o4 H. unfold proper_pt, lin_h, reflect_x. cbn [fst snd].
    destruct (Z.ltb_spec 0 (o3 - o4)), (Z.ltb_spec 0 (-1 * o3 - -1 * o4)); try lia; cbn [fst snd]; apply triple_eq; ring.
Qed.
Lemma sim_reflect_y : sim reflect_y (lin_h reflect_y) (-1).
Proof.
  apply sim_linear.
  - apply pt_eqb_reflect_y.
  - apply orient_reflect_y.
  - apply on_seg_reflect_y.
  - intros [px py] [ux uy] [vx vy]. unfold dot, reflect_y. cbn [fst snd]. ring.
  - intros [ax ay]. reflexivity.
  - intros [ax ay] [bx by_]. unfold mid, lin_h, reflect_y. cbn [fst snd]. apply triple_eq; ring.
  - apply in_ring_h_lin; [apply scale_reflect_y | apply in_ring_reflect_y].
  - intros [ax ay] [bx by_] o3 o4 H. unfold proper_pt, lin_h, reflect_y. cbn [fst snd].
    destruct (Z.ltb_spec 0 (o3 - o4)), (Z.ltb_spec 0 (-1 * o3 - -1 * o4)); try lia; cbn [fst snd]; apply triple_eq; ring.
Qed.
Lemma sim_swap : sim swap_xy (lin_h swap_xy) (-1).
Proof.
  apply sim_linear.
  - apply pt_eqb_swap.
  - apply orient_swap.
  - apply on_seg_swap.
  - intros [px py] [ux uy] [vx vy]. unfold dot, swap_xy. cbn [fst snd]. ring.
  - intros [ax ay]. reflexivity.
  - intros [ax ay] [bx by_]. reflexivity.
  - apply in_ring_h_lin; [apply scale_swap | apply in_ring_swap].
  - intros [ax ay] [bx by_] o3 o4 H. unfold proper_pt, lin_h, swap_xy. cbn [fst snd].
    destruct (Z.ltb_spec 0 (o3 - o4)), (Z.ltb_spec 0 (-1 * o3 - -1 * o4)); try lia; cbn [fst snd]; apply triple_eq; ring.
Qed.
