(* Meaning of the primitive names used by the generated Envelope member predicates (Gen/ENV_xxx).
   A bound is `None` (NaN: the bounds of the null envelope) or an exact number; std::islessequal / isgreaterequal / ==
   are false as soon as an operand is NaN. *)
From Coq Require Import ZArith Bool.
Local Open Scope Z_scope.
Definition xnum := option Z.
Definition cmp2 (f : Z -> Z -> bool) (a b : xnum) : bool := match a, b with Some x, Some y => f x y | _, _ => false end.
Definition c_islessequal_2 := cmp2 Z.leb.
Definition c_isgreaterequal_2 := cmp2 Z.geb.
Definition eqb := cmp2 Z.eqb.
Definition c_isnan_1 (a : xnum) : bool := match a with None => true | Some _ => false end.
Record env4 := mkEnv4 { f_minx : xnum; f_maxx : xnum; f_miny : xnum; f_maxy : xnum }.
