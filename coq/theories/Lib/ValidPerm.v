(* Lib/ValidPerm — the verdicts of Lib/ValidDefs do not depend on the order of holes and of elements.
   Every violation set is a flat_map / filter over the rings, so "the set is empty" is a forallb / existsb statement, and those
   are invariant under permutation; rings are told apart by value, never by position. *)
From Coq Require Import ZArith List Bool Lia Permutation.
From GeosV.Lib Require Import GeomDefs LocateDefs ValidDefs Geom Locate Valid.
Import ListNotations.
Local Open Scope Z_scope.

(* ---- forallb / existsb / isnil toolkit ---- *)
Lemma isnil_flat_map : forall {A B} (f : A -> list B) l, isnil (flat_map f l) = forallb (fun x => isnil (f x)) l.
Proof. intros A B f l. induction l as [|a l IH]; [reflexivity|]. cbn [flat_map forallb]. rewrite <- IH. destruct (f a); reflexivity. Qed.
Lemma isnil_app : forall {A} (a b : list A), isnil (a ++ b) = isnil a && isnil b.
Proof. intros A [|x a] b; reflexivity. Qed.
Lemma isnil_filter : forall {A} (p : A -> bool) l, isnil (filter p l) = forallb (fun x => negb (p x)) l.
Proof. intros A p l. induction l as [|a l IH]; [reflexivity|]. cbn [filter forallb]. destruct (p a); [reflexivity | exact IH]. Qed.
Lemma isnil_map' : forall {A B} (f : A -> B) l, isnil (map f l) = isnil l.
Proof. intros A B f [|a l]; reflexivity. Qed.
Lemma forallb_perm : forall {A} (p : A -> bool) l l', Permutation l l' -> forallb p l = forallb p l'.
Proof.
  intros A p l l' H. induction H; cbn [forallb]; try congruence.
  rewrite !andb_assoc, (andb_comm (p y)). reflexivity.
Qed.
Lemma existsb_perm : forall {A} (p : A -> bool) l l', Permutation l l' -> existsb p l = existsb p l'.
Proof.
  intros A p l l' H. induction H; cbn [existsb]; try congruence.
  rewrite !orb_assoc, (orb_comm (p y)). reflexivity.
Qed.
Lemma existsb_flat_map : forall {A B} (q : B -> bool) (g : A -> list B) l,
  existsb q (flat_map g l) = existsb (fun u => existsb q (g u)) l.
Proof. intros A B q g l. induction l as [|a l IH]; [reflexivity|]. cbn [flat_map existsb]. rewrite existsb_app, IH. reflexivity. Qed.
Lemma forallb_flat_map : forall {A B} (q : B -> bool) (g : A -> list B) l,
  forallb q (flat_map g l) = forallb (fun u => forallb q (g u)) l.
Proof. intros A B q g l. induction l as [|a l IH]; [reflexivity|]. cbn [flat_map forallb]. rewrite forallb_app, IH. reflexivity. Qed.
Lemma forallb_ext' : forall {A} (p q : A -> bool) l, (forall a, p a = q a) -> forallb p l = forallb q l.
Proof. intros A p q l H. induction l as [|a l IH]; [reflexivity|]. cbn [forallb]. rewrite H, IH. reflexivity. Qed.
Lemma existsb_ext' : forall {A} (p q : A -> bool) l, (forall a, p a = q a) -> existsb p l = existsb q l.
Proof. intros A p q l H. induction l as [|a l IH]; [reflexivity|]. cbn [existsb]. rewrite H, IH. reflexivity. Qed.
Lemma filter_perm : forall {A} (p : A -> bool) l l', Permutation l l' -> Permutation (filter p l) (filter p l').
Proof.
  intros A p l l' H. induction H; cbn [filter].
  - constructor.
  - destruct (p x); [constructor|]; assumption.
  - destruct (p x), (p y); try reflexivity. apply perm_swap.
  - eapply perm_trans; eassumption.
Qed.
Lemma filter_ext' : forall {A} (p q : A -> bool) l, (forall a, p a = q a) -> filter p l = filter q l.
Proof. intros A p q l H. induction l as [|a l IH]; [reflexivity|]. cbn [filter]. rewrite H, IH. reflexivity. Qed.

Lemma mem_pt_in : forall a l, mem_pt a l = true <-> In a l.
Proof.
  intros a l. unfold mem_pt. rewrite existsb_exists. split.
  - intros [b [Hb E]]. apply pt_eqb_eq in E. subst. exact Hb.
  - intros H. exists a. split; [exact H | apply pt_eqb_refl].
Qed.
Lemma forallb_nodup_pts : forall (P : pt -> bool) l, forallb P (nodup_pts l) = forallb P l.
Proof.
  intros P l. induction l as [|a l IH]; [reflexivity|]. cbn [nodup_pts forallb].
  destruct (mem_pt a l) eqn:E; cbn [forallb]; rewrite IH; [|reflexivity].
  apply mem_pt_in in E. destruct (P a) eqn:Pa; [reflexivity|]. cbn [andb].
  apply not_true_iff_false. intros H. rewrite forallb_forall in H. specialize (H a E). congruence.
Qed.
Lemma isnil_nodup_pts : forall l, isnil (nodup_pts l) = isnil l.
Proof.
  intros l. induction l as [|a l IH]; [reflexivity|]. cbn [nodup_pts]. destruct (mem_pt a l) eqn:E; [|reflexivity].
  rewrite IH. apply mem_pt_in in E. destruct l; [destruct E | reflexivity].
Qed.
Lemma pt_eqb_sym : forall a b, pt_eqb a b = pt_eqb b a.
Proof. intros [ax ay] [bx by_]. unfold pt_eqb. cbn [fst snd]. rewrite (Z.eqb_sym ax), (Z.eqb_sym ay). reflexivity. Qed.
Lemma nodup_pts_perm : forall l l', Permutation l l' -> Permutation (nodup_pts l) (nodup_pts l').
Proof.
  intros l l' H. induction H.
  - constructor.
  - cbn [nodup_pts]. unfold mem_pt. rewrite (existsb_perm _ _ _ H). destruct (existsb (pt_eqb x) l'); [|constructor]; assumption.
  - cbn [nodup_pts]. unfold mem_pt. cbn [existsb]. rewrite (pt_eqb_sym y x).
    destruct (pt_eqb x y) eqn:E.
    + apply pt_eqb_eq in E. subst. cbn [orb]. destruct (existsb (pt_eqb y) l); reflexivity.
    + cbn [orb]. destruct (existsb (pt_eqb x) l), (existsb (pt_eqb y) l); try reflexivity. apply perm_swap.
  - eapply perm_trans; eassumption.
Qed.

(* ---- rings by value ---- *)
Lemma others_perm : forall r rs rs', Permutation rs rs' -> Permutation (others r rs) (others r rs').
Proof. intros. unfold others. apply filter_perm. assumption. Qed.
Lemma is_dup_perm : forall r rs rs', Permutation rs rs' -> is_dup r rs = is_dup r rs'.
Proof. intros. unfold is_dup. rewrite (Permutation_length (filter_perm (seq_eqb r) _ _ H)). reflexivity. Qed.
Lemma other_polys_perm : forall a ps ps', Permutation ps ps' -> Permutation (other_polys a ps) (other_polys a ps').
Proof. intros. unfold other_polys. apply filter_perm. assumption. Qed.

(* ---- rule 5 ---- *)
Lemma node_cross_perm : forall r rest rest' p, Permutation rest rest' -> node_cross r rest p = node_cross r rest' p.
Proof.
  intros r rest rest' p H. unfold node_cross. f_equal. apply existsb_ext'. intros a.
  rewrite !existsb_flat_map. apply existsb_perm. exact H.
Qed.
Lemma ring_bad_nil_perm : forall ar ar' r, Permutation ar ar' -> isnil (ring_bad ar r) = isnil (ring_bad ar' r).
Proof.
  intros ar ar' r H. unfold ring_bad. cbv zeta. pose proof (others_perm r _ _ H) as Ho.
  rewrite !isnil_app, !isnil_flat_map, !isnil_map', !isnil_filter. rewrite (is_dup_perm r _ _ H).
  f_equal. f_equal; [apply forallb_perm; exact Ho|]. f_equal.
  unfold touch_nodes. rewrite !forallb_nodup_pts, !forallb_app, !forallb_flat_map.
  rewrite (forallb_ext' _ (fun x => negb (node_cross r (others r ar') x))) by (intros; rewrite (node_cross_perm r _ _ _ Ho); reflexivity).
  f_equal. rewrite (forallb_perm _ _ _ Ho). apply forallb_ext'. intros u. apply forallb_ext'. intros x.
  rewrite (node_cross_perm r _ _ _ Ho). reflexivity.
Qed.
Lemma self_intersection_nil_perm : forall ar ar', Permutation ar ar' ->
  isnil (self_intersection_set ar) = isnil (self_intersection_set ar').
Proof.
  intros ar ar' H. unfold self_intersection_set. rewrite !isnil_flat_map.
  rewrite (forallb_perm _ _ _ H). apply forallb_ext'. intros r. apply ring_bad_nil_perm. exact H.
Qed.
Lemma ring_self_intersection_nil_perm : forall ar ar', Permutation ar ar' ->
  isnil (ring_self_intersection_set ar) = isnil (ring_self_intersection_set ar').
Proof. intros. unfold ring_self_intersection_set. rewrite !isnil_flat_map. apply forallb_perm. assumption. Qed.

(* ---- rule 4 ---- *)
Lemma ring_touch_pts_perm : forall r rest rest', Permutation rest rest' ->
  Permutation (ring_touch_pts r rest) (ring_touch_pts r rest').
Proof. intros. unfold ring_touch_pts. apply nodup_pts_perm. apply Permutation_flat_map. assumption. Qed.
Lemma prune_step_perm : forall rs rs', Permutation rs rs' -> Permutation (prune_step rs) (prune_step rs').
Proof.
  intros rs rs' H. unfold prune_step.
  rewrite (filter_ext' _ (fun r => Nat.leb 2 (length (ring_touch_pts r (others r rs'))))).
  - apply filter_perm. exact H.
  - intros r. rewrite (Permutation_length (ring_touch_pts_perm r _ _ (others_perm r _ _ H))). reflexivity.
Qed.
Lemma prune_perm : forall fuel rs rs', Permutation rs rs' -> Permutation (prune fuel rs) (prune fuel rs').
Proof. induction fuel as [|f IH]; intros rs rs' H; [exact H|]. cbn [prune]. apply IH. apply prune_step_perm. exact H. Qed.
Lemma cycle_nodes_nil_perm : forall rs rs', Permutation rs rs' -> isnil (cycle_nodes rs) = isnil (cycle_nodes rs').
Proof.
  intros rs rs' H. unfold cycle_nodes. cbv zeta. rewrite (Permutation_length H).
  pose proof (prune_perm (length rs') _ _ H) as Hc. rewrite !isnil_flat_map.
  rewrite (forallb_perm _ _ _ Hc). apply forallb_ext'. intros r.
  unfold ring_touch_pts. rewrite !isnil_nodup_pts, !isnil_flat_map. apply forallb_perm. apply others_perm. exact Hc.
Qed.

(* ---- a polygon whose holes are permuted ---- *)
Section Holes.
  Variables (s : seq) (hs hs' : list seq).
  Hypothesis Hp : Permutation hs hs'.
  Lemma dedup_holes_perm : Permutation (map dedup (filter nonempty hs)) (map dedup (filter nonempty hs')).
  Proof. apply Permutation_map. apply filter_perm. exact Hp. Qed.
  Lemma hole_outside_nil_perm : forall t hd hd', Permutation hd hd' ->
    isnil (hole_outside_set (t, hd)) = isnil (hole_outside_set (t, hd')).
  Proof. intros. unfold hole_outside_set. cbn [fst snd]. rewrite !isnil_flat_map. apply forallb_perm. assumption. Qed.
  Lemma nested_holes_nil_perm : forall t hd hd', Permutation hd hd' ->
    isnil (nested_holes_set (t, hd)) = isnil (nested_holes_set (t, hd')).
  Proof.
    intros t hd hd' H. unfold nested_holes_set. cbn [fst snd]. rewrite !isnil_flat_map.
    rewrite (forallb_perm _ _ _ H). apply forallb_ext'. intros h.
    rewrite (existsb_perm _ _ _ (others_perm h _ _ H)). reflexivity.
  Qed.
  Lemma poly_disconnected_nil_perm : forall flag t hd hd', Permutation hd hd' ->
    isnil (poly_disconnected_set flag (t, hd)) = isnil (poly_disconnected_set flag (t, hd')).
  Proof.
    intros flag t hd hd' H. unfold poly_disconnected_set, poly_rings. cbn [fst snd].
    rewrite !isnil_app, !isnil_map'. f_equal.
    - apply cycle_nodes_nil_perm. constructor. exact H.
    - destruct flag; [|reflexivity]. rewrite !isnil_map', !isnil_app, !isnil_flat_map. f_equal. apply forallb_perm. exact H.
  Qed.
  Lemma nested_shells_single : forall a, nested_shells_set [a] = (if existsb (shell_in_poly a) (other_polys a [a]) then map hp (fst a) else []).
  Proof. intros. unfold nested_shells_set. cbn [flat_map]. apply app_nil_r. Qed.
  Lemma poly_eqb_refl : forall a, poly_eqb a a = true.
  Proof.
    assert (R : forall r, seq_eqb r r = true).
    { intros r. unfold seq_eqb. rewrite Nat.eqb_refl. cbn [andb]. induction r as [|x r IH]; [reflexivity|].
      cbn [combine forallb fst snd]. rewrite pt_eqb_refl. exact IH. }
    intros [t hd]. unfold poly_eqb. cbn [fst snd]. rewrite R, Nat.eqb_refl. cbn [andb].
    induction hd as [|h hd IH]; [reflexivity|]. cbn [combine forallb fst snd]. rewrite R. exact IH.
  Qed.
  Theorem valid_flag_perm_holes : forall flag, valid_flag flag (GPoly s hs) = valid_flag flag (GPoly s hs').
  Proof.
    intros flag. unfold valid_flag. cbn [vsets_of]. destruct s as [|p0 s0] eqn:Es; [reflexivity|].
    unfold polygonal_vsets. cbv zeta. unfold norm_polys, live_polys. cbn [filter poly_is_empty fst negb map].
    unfold dedup_poly. cbn [fst snd]. unfold all_rings, disconnected_set. cbn [flat_map]. rewrite !app_nil_r.
    rewrite !nested_shells_single. unfold other_polys. cbn [filter]. rewrite !poly_eqb_refl. cbn [negb existsb].
    unfold poly_rings. cbn [fst snd]. rewrite <- Es.
    pose proof dedup_holes_perm as Hd.
    assert (Har : Permutation (dedup s :: map dedup (filter nonempty hs)) (dedup s :: map dedup (filter nonempty hs'))) by (constructor; exact Hd).
    assert (Hraw : Permutation (s :: hs) (s :: hs')) by (constructor; exact Hp).
    cbn [forallb]. rewrite !isnil_flat_map.
    rewrite (forallb_perm _ _ _ Hraw), (forallb_perm (fun x => isnil (too_few_set 4 x)) _ _ Hraw).
    rewrite (self_intersection_nil_perm _ _ Har).
    rewrite (hole_outside_nil_perm _ _ _ Hd), (nested_holes_nil_perm _ _ _ Hd), (poly_disconnected_nil_perm flag _ _ _ Hd).
    destruct flag; [reflexivity|]. rewrite (ring_self_intersection_nil_perm _ _ Har). reflexivity.
  Qed.
End Holes.

(* ---- elements of a multipolygon ---- *)
Lemma isnil_if : forall {A} (c : bool) (x : list A), isnil (if c then x else []) = negb c || isnil x.
Proof. intros A [] x; reflexivity. Qed.
Lemma nested_shells_nil_perm : forall dps dps', Permutation dps dps' -> isnil (nested_shells_set dps) = isnil (nested_shells_set dps').
Proof.
  intros dps dps' H. unfold nested_shells_set. rewrite !isnil_flat_map. rewrite (forallb_perm _ _ _ H).
  apply forallb_ext'. intros a. rewrite !isnil_if. rewrite (existsb_perm _ _ _ (other_polys_perm a _ _ H)). reflexivity.
Qed.
Theorem valid_flag_perm_elements : forall flag ps ps', Permutation ps ps' -> valid_flag flag (GMPoly ps) = valid_flag flag (GMPoly ps').
Proof.
  intros flag ps ps' H. unfold valid_flag. cbn [vsets_of]. unfold polygonal_vsets. cbv zeta.
  assert (Hl : Permutation (live_polys ps) (live_polys ps')) by (apply filter_perm; exact H).
  assert (Hd : Permutation (norm_polys ps) (norm_polys ps')) by (apply Permutation_map; exact Hl).
  assert (Ha : Permutation (all_rings (norm_polys ps)) (all_rings (norm_polys ps'))) by (apply Permutation_flat_map; exact Hd).
  cbn [forallb]. unfold disconnected_set. rewrite !isnil_flat_map.
  rewrite (forallb_perm _ _ _ Hl), (forallb_perm (fun x => isnil (flat_map (too_few_set 4) (poly_rings x))) _ _ Hl).
  rewrite (self_intersection_nil_perm _ _ Ha), (nested_shells_nil_perm _ _ Hd).
  rewrite (forallb_perm (fun x => isnil (hole_outside_set x)) _ _ Hd), (forallb_perm (fun x => isnil (nested_holes_set x)) _ _ Hd),
    (forallb_perm (fun x => isnil (poly_disconnected_set flag x)) _ _ Hd).
  destruct flag; [reflexivity|]. rewrite (ring_self_intersection_nil_perm _ _ Ha). reflexivity.
Qed.

(* ---- collections and multi-lines ---- *)
Lemma valid_zip_app : forall a b, forallb isnil (zip_app a b) = forallb isnil a && forallb isnil b.
Proof.
  induction a as [|x a IH]; intros [|y b]; cbn [zip_app forallb]; try reflexivity.
  - rewrite andb_true_r. reflexivity.
  - rewrite IH, isnil_app. destruct (isnil x), (isnil y), (forallb isnil a); reflexivity.
Qed.
Lemma valid_flag_coll : forall flag gs, valid_flag flag (GColl gs) = forallb (valid_flag flag) gs.
Proof.
  intros flag gs. unfold valid_flag. cbn [vsets_of]. induction gs as [|g gs IH]; [reflexivity|].
  cbn [fold_right forallb]. rewrite valid_zip_app, IH. reflexivity.
Qed.
Lemma valid_flag_mline : forall flag ls, valid_flag flag (GMLine ls) = forallb (fun l => valid_flag flag (GLine l)) ls.
Proof.
  intros flag ls. unfold valid_flag. cbn [vsets_of]. induction ls as [|l ls IH]; [reflexivity|].
  cbn [fold_right forallb]. rewrite valid_zip_app, IH. reflexivity.
Qed.
Theorem valid_flag_perm_coll : forall flag gs gs', Permutation gs gs' -> valid_flag flag (GColl gs) = valid_flag flag (GColl gs').
Proof. intros. rewrite !valid_flag_coll. apply forallb_perm. assumption. Qed.
Theorem valid_flag_perm_mline : forall flag ls ls', Permutation ls ls' -> valid_flag flag (GMLine ls) = valid_flag flag (GMLine ls').
Proof. intros. rewrite !valid_flag_mline. apply forallb_perm. assumption. Qed.
Theorem valid_flag_mpoint : forall flag ps, valid_flag flag (GMPoint ps) = true.
Proof. reflexivity. Qed.

(* ---- simplicity ---- *)
Lemma dup_pts_nil_perm : forall l l', Permutation l l' -> isnil (dup_pts l) = isnil (dup_pts l').
Proof.
  assert (E : forall x l, isnil (dup_pts (x :: l)) = negb (mem_pt x l) && isnil (dup_pts l)).
  { intros x l. cbn [dup_pts]. destruct (mem_pt x l); reflexivity. }
  intros l l' H. induction H.
  - reflexivity.
  - rewrite !E, IHPermutation. unfold mem_pt. rewrite (existsb_perm _ _ _ H). reflexivity.
  - rewrite !E. unfold mem_pt. cbn [existsb]. rewrite (pt_eqb_sym y x).
    destruct (pt_eqb x y), (existsb (pt_eqb x) l), (existsb (pt_eqb y) l); reflexivity.
  - congruence.
Qed.
Theorem simple_perm_mpoint : forall ps ps', Permutation ps ps' -> simple_geom (GMPoint ps) = simple_geom (GMPoint ps').
Proof.
  intros. unfold simple_geom. cbn [nonsimple_pts]. rewrite !isnil_map'. apply dup_pts_nil_perm. apply Permutation_flat_map. assumption.
Qed.
Theorem simple_perm_mline : forall ls ls', Permutation ls ls' -> simple_geom (GMLine ls) = simple_geom (GMLine ls').
Proof.
  intros ls ls' H. unfold simple_geom. cbn [nonsimple_pts]. unfold lines_nonsimple_pts. rewrite !isnil_flat_map.
  rewrite (forallb_perm _ _ _ H). apply forallb_ext'. intros l. rewrite !isnil_app, !isnil_flat_map.
  rewrite (forallb_perm _ _ _ (others_perm l _ _ H)), (is_dup_perm l _ _ H). reflexivity.
Qed.
Theorem simple_perm_holes : forall s hs hs', Permutation hs hs' -> simple_geom (GPoly s hs) = simple_geom (GPoly s hs').
Proof.
  intros. unfold simple_geom. cbn [nonsimple_pts]. rewrite !isnil_flat_map. apply forallb_perm. constructor. assumption.
Qed.
Theorem simple_perm_elements : forall ps ps', Permutation ps ps' -> simple_geom (GMPoly ps) = simple_geom (GMPoly ps').
Proof. intros. unfold simple_geom. cbn [nonsimple_pts]. rewrite !isnil_flat_map. apply forallb_perm. assumption. Qed.
Theorem simple_perm_coll : forall gs gs', Permutation gs gs' -> simple_geom (GColl gs) = simple_geom (GColl gs').
Proof. intros. unfold simple_geom. cbn [nonsimple_pts]. rewrite !isnil_flat_map. apply forallb_perm. assumption. Qed.
