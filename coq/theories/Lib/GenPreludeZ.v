(* Lib/GenPreludeZ — meaning of the translator's abstract names when every `double` is read as an INTEGER (grid
   coordinates in units of the common power of two).  Owner: C07.  Used by the generated units K_countSegment,
   K_getLocation, K_envPtZ, K_envSegZ.  Literals: `flit bits num den` is the integer `num`; it is meaningful only for
   den = 1 (no unit that imports this prelude contains a non-integer literal; a unit that did would not type its theorem).
   Justification of the reading: Lib/../C07/FloatLink.v (integers of magnitude <= 2^53 and their sums, differences and
   products within that range are computed exactly by binary64; comparisons are exact on all finite doubles). *)
From Coq Require Import ZArith Bool.
From GeosV.Lib Require Import KernelDefs.
Local Open Scope Z_scope.

Definition add := Z.add.
Definition sub := Z.sub.
Definition mul := Z.mul.
Definition neg := Z.opp.
Definition ltb := Z.ltb.
Definition leb := Z.leb.
Definition gtb := Z.gtb.
Definition geb := Z.geb.
Definition eqb := Z.eqb.
Definition neb (a b : Z) := negb (Z.eqb a b).
Definition ofZ (z : Z) : Z := z.
Definition flit (bits num den : Z) : Z := num.
Definition c_abs_1 := Z.abs.
Definition c_min_2 := Z.min.
Definition c_max_2 := Z.max.
Definition zneb (a b : Z) := negb (Z.eqb a b).

(* CoordinateXY *)
Definition f_x (p : pt) : Z := fst p.
Definition f_y (p : pt) : Z := snd p.

(* RayCrossingCounter object: const CoordinateXY& point; std::size_t crossingCount; bool isPointOnSegment *)
Record rccst := mkRccSt { f_point : pt; f_crossingCount : Z; f_isPointOnSegment : bool }.
Definition set_crossingCount (st : rccst) (v : Z) := mkRccSt (f_point st) v (f_isPointOnSegment st).
Definition set_isPointOnSegment (st : rccst) (v : bool) := mkRccSt (f_point st) (f_crossingCount st) v.

(* CGAlgorithmsDD::orientationIndex(p1, p2, q) on the grid is the exact sign (C07: orientationIndex_grid_partial + correspondence) *)
Definition c_orientationIndex_3 (p1 p2 q : pt) : Z := orient p1 p2 q.
Definition c_index_3 (p1 p2 q : pt) : Z := orient p1 p2 q.
