(* Lib/KernelDefs — exact planar kernel over Z (grid coordinates): DEFINITIONS ONLY, executable, stdlib only.
   Owner: C07.  Imported by C01, C05, C08, C16, C20.  Lemmas live in Lib/Kernel.v.

   Conventions
   * a grid point is a pair of integers; a constructed point is a homogeneous integer triple (x, y, w), w > 0,
     standing for (x/w, y/w);
   * the code-level models (env_pt, env_seg, count_segment, rcc_loop, seg_class, collinear_class) follow the control
     structure of the C++ (Envelope::intersects, RayCrossingCounter, LineIntersector) statement by statement;
   * Prop-level notions (qon, common points) are what the theorems of Kernel.v relate them to. *)
From Coq Require Import ZArith List Bool.
Import ListNotations.
Local Open Scope Z_scope.

(* ------------------------------------------------------------------ points, determinants *)
Definition pt := (Z * Z)%type.
Definition pt_eqb (a b : pt) : bool := (fst a =? fst b) && (snd a =? snd b).

(* twice the signed area of the triangle a b c  =  cross (b - a) (c - a) *)
Definition det (a b c : pt) : Z := (fst b - fst a) * (snd c - snd a) - (snd b - snd a) * (fst c - fst a).
(* orientation index: +1 = c to the left of a->b (counter-clockwise), -1 = right (clockwise), 0 = collinear *)
Definition orient (a b c : pt) : Z := Z.sgn (det a b c).

Record qpt := mkq { qx : Z; qy : Z; qw : Z }.
Definition q_of_pt (a : pt) : qpt := mkq (fst a) (snd a) 1.
Definition qdet (a b : pt) (p : qpt) : Z :=
  (fst b - fst a) * (qy p - qw p * snd a) - (snd b - snd a) * (qx p - qw p * fst a).
(* equality of the rational points denoted (both w > 0) *)
Definition qeq (p p' : qpt) : Prop := qx p * qw p' = qx p' * qw p /\ qy p * qw p' = qy p' * qw p.
Definition qeqb (p p' : qpt) : bool := (qx p * qw p' =? qx p' * qw p) && (qy p * qw p' =? qy p' * qw p).

(* p = a + (n/m)(b - a) for some 0 <= n/m <= 1 : the rational point p lies on the closed segment ab *)
Definition qon (p : qpt) (a b : pt) : Prop :=
  0 < qw p /\ exists n m, 0 < m /\ 0 <= n <= m /\
    m * qx p = qw p * ((m - n) * fst a + n * fst b) /\ m * qy p = qw p * ((m - n) * snd a + n * snd b).
(* the same, decidable: on the line and inside the bounding box *)
Definition qonb (p : qpt) (a b : pt) : bool :=
  (0 <? qw p) && (qdet a b p =? 0) &&
  (qw p * Z.min (fst a) (fst b) <=? qx p) && (qx p <=? qw p * Z.max (fst a) (fst b)) &&
  (qw p * Z.min (snd a) (snd b) <=? qy p) && (qy p <=? qw p * Z.max (snd a) (snd b)).
Definition pt_on (c a b : pt) : Prop := qon (q_of_pt c) a b.

(* ------------------------------------------------------------------ envelopes *)
(* Envelope::intersects(p1, p2, q) : q inside the bounding box of p1 p2 *)
Definition env_pt (p1 p2 q : pt) : bool :=
  ((fst q >=? (if fst p1 <? fst p2 then fst p1 else fst p2)) && (fst q <=? (if fst p1 >? fst p2 then fst p1 else fst p2))) &&
  ((snd q >=? (if snd p1 <? snd p2 then snd p1 else snd p2)) && (snd q <=? (if snd p1 >? snd p2 then snd p1 else snd p2))).

(* Envelope::intersects(p1, p2, q1, q2) : the two bounding boxes share a point *)
Definition env_seg (p1 p2 q1 q2 : pt) : bool :=
  let minq := Z.min (fst q1) (fst q2) in let maxq := Z.max (fst q1) (fst q2) in
  let minp := Z.min (fst p1) (fst p2) in let maxp := Z.max (fst p1) (fst p2) in
  if minp >? maxq then false else if maxp <? minq then false else
  let minq := Z.min (snd q1) (snd q2) in let maxq := Z.max (snd q1) (snd q2) in
  let minp := Z.min (snd p1) (snd p2) in let maxp := Z.max (snd p1) (snd p2) in
  if minp >? maxq then false else if maxp <? minq then false else true.

Record env := mkEnv { exmin : Z; exmax : Z; eymin : Z; eymax : Z }.
Definition env_of_pt (p : pt) : env := mkEnv (fst p) (fst p) (snd p) (snd p).
Definition env_expand (e : env) (p : pt) : env :=
  mkEnv (Z.min (exmin e) (fst p)) (Z.max (exmax e) (fst p)) (Z.min (eymin e) (snd p)) (Z.max (eymax e) (snd p)).
Definition env_of_pts (l : list pt) : option env :=
  match l with [] => None | p :: r => Some (fold_left env_expand r (env_of_pt p)) end.
Definition env_covers_pt (e : env) (p : pt) : bool :=
  (exmin e <=? fst p) && (fst p <=? exmax e) && (eymin e <=? snd p) && (snd p <=? eymax e).
Definition env_intersects (a b : env) : bool :=
  (exmin b <=? exmax a) && (exmin a <=? exmax b) && (eymin b <=? eymax a) && (eymin a <=? eymax b).
Definition env_covers (a b : env) : bool :=
  (exmin a <=? exmin b) && (exmax b <=? exmax a) && (eymin a <=? eymin b) && (eymax b <=? eymax a).

(* PointLocation::isOnSegment : grid point p on the closed segment ab *)
Definition on_segment (p a b : pt) : bool := env_pt a b p && (det a b p =? 0).

(* ------------------------------------------------------------------ segment / segment *)
Inductive seg_res :=
| SegNone                                   (* NO_INTERSECTION *)
| SegPoint (proper : bool) (p : qpt)        (* POINT_INTERSECTION, isProper, intPt[0] (exact) *)
| SegCollinear (a b : pt).                  (* COLLINEAR_INTERSECTION, intPt[0], intPt[1] *)

(* the crossing point of the lines p1p2 and q1q2 by Cramer's rule, as a point of p1p2:
   p1 + d1/(d1-d2) (p2-p1),  d_i = det q1 q2 p_i ; denominator made positive *)
Definition cross_pt (p1 p2 q1 q2 : pt) : qpt :=
  let d1 := det q1 q2 p1 in let d2 := det q1 q2 p2 in
  let w := d1 - d2 in
  if 0 <? w then mkq ((w - d1) * fst p1 + d1 * fst p2) ((w - d1) * snd p1 + d1 * snd p2) w
  else mkq (((- w) - (- d1)) * fst p1 + (- d1) * fst p2) (((- w) - (- d1)) * snd p1 + (- d1) * snd p2) (- w).

(* LineIntersector::computeCollinearIntersection *)
Definition collinear_class (p1 p2 q1 q2 : pt) : seg_res :=
  let q1inP := env_pt p1 p2 q1 in let q2inP := env_pt p1 p2 q2 in
  let p1inQ := env_pt q1 q2 p1 in let p2inQ := env_pt q1 q2 p2 in
  if q1inP && q2inP then SegCollinear q1 q2 else
  if p1inQ && p2inQ then SegCollinear p1 p2 else
  if q1inP && p1inQ then
    (if pt_eqb q1 p1 && negb q2inP && negb p2inQ then SegPoint false (q_of_pt q1) else SegCollinear q1 p1) else
  if q1inP && p2inQ then
    (if pt_eqb q1 p2 && negb q2inP && negb p1inQ then SegPoint false (q_of_pt q1) else SegCollinear q1 p2) else
  if q2inP && p1inQ then
    (if pt_eqb q2 p1 && negb q1inP && negb p2inQ then SegPoint false (q_of_pt q2) else SegCollinear q2 p1) else
  if q2inP && p2inQ then
    (if pt_eqb q2 p2 && negb q1inP && negb p1inQ then SegPoint false (q_of_pt q2) else SegCollinear q2 p2) else
  SegNone.

(* LineIntersector::computeIntersect (the proper point is exact here; the code rounds it to binary64) *)
Definition seg_class (p1 p2 q1 q2 : pt) : seg_res :=
  if negb (env_seg p1 p2 q1 q2) then SegNone else
  let Pq1 := orient p1 p2 q1 in let Pq2 := orient p1 p2 q2 in
  if ((Pq1 >? 0) && (Pq2 >? 0)) || ((Pq1 <? 0) && (Pq2 <? 0)) then SegNone else
  let Qp1 := orient q1 q2 p1 in let Qp2 := orient q1 q2 p2 in
  if ((Qp1 >? 0) && (Qp2 >? 0)) || ((Qp1 <? 0) && (Qp2 <? 0)) then SegNone else
  if (Pq1 =? 0) && (Pq2 =? 0) && (Qp1 =? 0) && (Qp2 =? 0) then collinear_class p1 p2 q1 q2 else
  if (Pq1 =? 0) || (Pq2 =? 0) || (Qp1 =? 0) || (Qp2 =? 0) then
    SegPoint false (q_of_pt
      (if pt_eqb p1 q1 then p1 else if pt_eqb p1 q2 then p1 else if pt_eqb p2 q1 then p2 else if pt_eqb p2 q2 then p2
       else if Pq1 =? 0 then q1 else if Pq2 =? 0 then q2 else if Qp1 =? 0 then p1 else if Qp2 =? 0 then p2 else (0, 0)))
  else SegPoint true (cross_pt p1 p2 q1 q2).

Definition segs_intersect (p1 p2 q1 q2 : pt) : bool :=
  match seg_class p1 p2 q1 q2 with SegNone => false | _ => true end.

(* ------------------------------------------------------------------ rings: area, segments *)
Definition segs (ring : list pt) : list (pt * pt) := combine ring (tl ring).
Definition closed (ring : list pt) : Prop := hd_error ring = hd_error (rev ring).
Definition closedb (ring : list pt) : bool :=
  match ring, rev ring with a :: _, b :: _ => pt_eqb a b | _, _ => true end.

(* shoelace: twice the signed area enclosed by a closed sequence (positive = counter-clockwise) *)
Definition area2 (ring : list pt) : Z :=
  fold_right (fun s acc => (fst (fst s) * snd (snd s) - fst (snd s) * snd (fst s)) + acc) 0 (segs ring).
Definition ring_ccw (ring : list pt) : bool := 0 <? area2 ring.

(* ------------------------------------------------------------------ point location *)
Inductive loc := Interior | Boundary | Exterior.
Definition loc_eqb (a b : loc) : bool :=
  match a, b with Interior, Interior | Boundary, Boundary | Exterior, Exterior => true | _, _ => false end.
(* geos::geom::Location enumerator values *)
Definition loc_code (l : loc) : Z := match l with Interior => 0 | Boundary => 1 | Exterior => 2 end.

Record rcc := mkRcc { rcc_count : Z; rcc_on : bool }.
Definition rcc_init : rcc := mkRcc 0 false.

(* RayCrossingCounter::countSegment *)
Definition count_segment (p p1 p2 : pt) (st : rcc) : rcc :=
  if (fst p1 <? fst p) && (fst p2 <? fst p) then st else
  if (fst p =? fst p2) && (snd p =? snd p2) then mkRcc (rcc_count st) true else
  if (snd p1 =? snd p) && (snd p2 =? snd p) then
    let minx := fst p1 in let maxx := fst p2 in
    let '(minx, maxx) := if minx >? maxx then (fst p2, fst p1) else (minx, maxx) in
    if (fst p >=? minx) && (fst p <=? maxx) then mkRcc (rcc_count st) true else st
  else
  if ((snd p1 >? snd p) && (snd p2 <=? snd p)) || ((snd p2 >? snd p) && (snd p1 <=? snd p)) then
    let sign := orient p1 p2 p in
    if sign =? 0 then mkRcc (rcc_count st) true else
    let sign := if snd p2 <? snd p1 then - sign else sign in
    if sign >? 0 then mkRcc (rcc_count st + 1) (rcc_on st) else st
  else st.

(* RayCrossingCounter::getLocation *)
Definition rcc_location (st : rcc) : loc :=
  if rcc_on st then Boundary else if Z.rem (rcc_count st) 2 =? 1 then Interior else Exterior.

(* RayCrossingCounter::locatePointInRing : consecutive vertex pairs, stop at the first segment that contains the point *)
Fixpoint rcc_loop (p : pt) (ring : list pt) (st : rcc) : rcc :=
  match ring with
  | a :: (b :: _) as tl => let st' := count_segment p a b st in if rcc_on st' then st' else rcc_loop p tl st'
  | _ => st
  end.
Definition locate_ring (p : pt) (ring : list pt) : loc := rcc_location (rcc_loop p ring rcc_init).

(* IndexedPointInAreaLocator::locate : countSegment over a bag of segments, no early exit *)
Definition rcc_segs (p : pt) (ss : list (pt * pt)) (st : rcc) : rcc :=
  fold_left (fun st s => count_segment p (fst s) (snd s) st) ss st.
Definition locate_segs (p : pt) (ss : list (pt * pt)) : loc := rcc_location (rcc_segs p ss rcc_init).

(* specification of one segment's contribution: it meets the open ray {(x, p.y) : x > p.x} under the half-open rule
   (lower endpoint included, upper excluded) at an abscissa strictly right of p.  For an upward segment
   x_cross > p.x  <=>  (b.x - a.x)(p.y - a.y) > (p.x - a.x)(b.y - a.y). *)
Definition crosses_right (p : pt) (s : pt * pt) : bool :=
  let a := fst s in let b := snd s in
  ((snd a <=? snd p) && (snd p <? snd b) && ((fst p - fst a) * (snd b - snd a) <? (fst b - fst a) * (snd p - snd a))) ||
  ((snd b <=? snd p) && (snd p <? snd a) && ((fst p - fst b) * (snd a - snd b) <? (fst a - fst b) * (snd p - snd b))).
Definition crosses_left (p : pt) (s : pt * pt) : bool :=
  let a := fst s in let b := snd s in
  ((snd a <=? snd p) && (snd p <? snd b) && ((fst b - fst a) * (snd p - snd a) <? (fst p - fst a) * (snd b - snd a))) ||
  ((snd b <=? snd p) && (snd p <? snd a) && ((fst a - fst b) * (snd p - snd b) <? (fst p - fst b) * (snd a - snd b))).
Definition count_if {A} (f : A -> bool) (l : list A) : Z := Z.of_nat (length (filter f l)).

(* specification of ring location: on some segment -> Boundary, else even-odd over the crossing segments *)
Definition locate_spec (p : pt) (ss : list (pt * pt)) : loc :=
  if existsb (fun s => on_segment p (fst s) (snd s)) ss then Boundary
  else if Z.odd (count_if (crosses_right p) ss) then Interior else Exterior.

(* SimplePointInAreaLocator::locatePointInSurface without its envelope short-cuts (Kernel.v: they do not change the answer) *)
Fixpoint locate_holes (p : pt) (holes : list (list pt)) : loc :=
  match holes with
  | [] => Interior
  | h :: r => match locate_ring p h with
              | Boundary => Boundary
              | Interior => Exterior
              | Exterior => locate_holes p r
              end
  end.
Definition locate_polygon (p : pt) (shell : list pt) (holes : list (list pt)) : loc :=
  match locate_ring p shell with
  | Interior => locate_holes p holes
  | l => l
  end.
(* the same with the envelope tests the code performs *)
Definition ring_env_covers (ring : list pt) (p : pt) : bool :=
  match env_of_pts ring with Some e => env_covers_pt e p | None => false end.
Fixpoint locate_holes_env (p : pt) (holes : list (list pt)) : loc :=
  match holes with
  | [] => Interior
  | h :: r => if ring_env_covers h p then
                match locate_ring p h with
                | Boundary => Boundary
                | Interior => Exterior
                | Exterior => locate_holes_env p r
                end
              else locate_holes_env p r
  end.
Definition locate_polygon_env (p : pt) (shell : list pt) (holes : list (list pt)) : loc :=
  if negb (ring_env_covers shell p) then Exterior else
  match locate_ring p shell with
  | Interior => locate_holes_env p holes
  | l => l
  end.
(* all rings of a polygon / multipolygon as one bag of segments (what the indexed locator sees) *)
Definition polygon_segs (shell : list pt) (holes : list (list pt)) : list (pt * pt) :=
  segs shell ++ flat_map segs holes.
