(* Lib/KernelPoly — translation / reflection invariance of ring location, envelope short-cuts, polygons with holes,
   shoelace area laws. Owner: C07. *)
From Coq Require Import ZArith List Bool Lia Psatz Permutation.
From GeosV.Lib Require Import KernelDefs Kernel KernelRing.
Import ListNotations.
Local Open Scope Z_scope.

(* ------------------------------------------------------------------ translation *)
Lemma ltb_shift a b t : (a + t <? b + t) = (a <? b).
Proof. destruct (Z.ltb_spec (a + t) (b + t)), (Z.ltb_spec a b); auto; lia. Qed.
Lemma leb_shift a b t : (a + t <=? b + t) = (a <=? b).
Proof. destruct (Z.leb_spec (a + t) (b + t)), (Z.leb_spec a b); auto; lia. Qed.
Lemma eqb_shift a b t : (a + t =? b + t) = (a =? b).
Proof. destruct (Z.eqb_spec (a + t) (b + t)), (Z.eqb_spec a b); auto; lia. Qed.
Lemma gtb_shift a b t : (a + t >? b + t) = (a >? b).
Proof. rewrite !Z.gtb_ltb. apply ltb_shift. Qed.
Lemma geb_shift a b t : (a + t >=? b + t) = (a >=? b).
Proof. rewrite !Z.geb_leb. apply leb_shift. Qed.

Lemma count_segment_translate t p a b st :
  count_segment (padd p t) (padd a t) (padd b t) st = count_segment p a b st.
Proof.
  unfold count_segment. rewrite (orient_translate t a b p). unfold padd; cbn [fst snd].
  rewrite ?ltb_shift, ?eqb_shift, ?gtb_shift, ?geb_shift, ?leb_shift.
  destruct (fst a >? fst b); cbn beta iota; rewrite ?geb_shift, ?leb_shift; reflexivity.
Qed.

Lemma rcc_loop_translate t p ring : forall st,
  rcc_loop (padd p t) (map (fun v => padd v t) ring) st = rcc_loop p ring st.
Proof.
  induction ring as [|a ring IH]; intros st; [reflexivity|].
  destruct ring as [|b ring]; [reflexivity|].
  cbn [map] in *. rewrite !rcc_loop_cons2, count_segment_translate, IH. reflexivity.
Qed.

Theorem locate_ring_translate t p ring : locate_ring (padd p t) (map (fun v => padd v t) ring) = locate_ring p ring.
Proof. unfold locate_ring. now rewrite rcc_loop_translate. Qed.

(* ------------------------------------------------------------------ reflection in the y axis: right ray <-> left ray *)
Definition sflipx (s : pt * pt) : pt * pt := (pflipx (fst s), pflipx (snd s)).

Lemma on_segment_flipx p a b : on_segment (pflipx p) (pflipx a) (pflipx b) = on_segment p a b.
Proof.
  apply eq_true_iff_eq. unfold on_segment. rewrite !andb_true_iff, !env_pt_spec, det_flipx, !Z.eqb_eq.
  unfold pflipx; cbn [fst snd]. rewrite <- !Z.opp_max_distr, <- !Z.opp_min_distr. lia.
Qed.
Lemma crosses_right_flipx p s : crosses_right (pflipx p) (sflipx s) = crosses_left p s.
Proof.
  destruct s as [a b], p as [px py], a as [ax ay], b as [bx by_]. unfold crosses_right, crosses_left, sflipx, pflipx; cbn [fst snd].
  f_equal; f_equal; destruct (Z.ltb_spec ((- px - - ax) * (by_ - ay)) ((- bx - - ax) * (py - ay))),
    (Z.ltb_spec ((bx - ax) * (py - ay)) ((px - ax) * (by_ - ay))),
    (Z.ltb_spec ((- px - - bx) * (ay - by_)) ((- ax - - bx) * (py - by_))),
    (Z.ltb_spec ((ax - bx) * (py - by_)) ((px - bx) * (ay - by_))); auto; lia.
Qed.

Lemma segs_map (f : pt -> pt) ring : segs (map f ring) = map (fun s => (f (fst s), f (snd s))) (segs ring).
Proof.
  induction ring as [|a ring IH]; [reflexivity|]. destruct ring as [|b ring]; [reflexivity|].
  cbn [map] in *. rewrite !segs_cons2, IH. reflexivity.
Qed.
Lemma closed_map (f : pt -> pt) ring : closed ring -> closed (map f ring).
Proof.
  unfold closed. rewrite <- map_rev. destruct ring as [|a r]; [reflexivity|]. cbn [map hd_error].
  destruct (rev (a :: r)) as [|z r']; cbn [map hd_error]; congruence.
Qed.

Theorem locate_ring_flipx p ring : closed ring -> locate_ring (pflipx p) (map pflipx ring) = locate_ring p ring.
Proof.
  intros Hc. rewrite (locate_ring_spec _ _ (closed_map pflipx ring Hc)), (locate_ring_spec _ _ Hc), segs_map.
  unfold locate_spec. fold sflipx. change (map (fun s => (pflipx (fst s), pflipx (snd s))) (segs ring)) with (map sflipx (segs ring)).
  change (fun s : pt * pt => on_segment (pflipx p) (fst s) (snd s)) with (onseg (pflipx p)).
  change (fun s : pt * pt => on_segment p (fst s) (snd s)) with (onseg p).
  rewrite (existsb_map_ext (onseg (pflipx p)) (onseg p) sflipx (segs ring)) by (intros [a b]; apply on_segment_flipx).
  rewrite (count_if_map_ext (crosses_right (pflipx p)) (crosses_left p) sflipx (segs ring) (crosses_right_flipx p)).
  destruct (existsb (onseg p) (segs ring)) eqn:E; [reflexivity|]. rewrite <- (rcc_left_right p ring Hc E). reflexivity.
Qed.

(* ------------------------------------------------------------------ envelope short-cuts are sound *)
Lemma env_expand_mono e v : exmin (env_expand e v) <= exmin e /\ exmax e <= exmax (env_expand e v) /\
  eymin (env_expand e v) <= eymin e /\ eymax e <= eymax (env_expand e v) /\ env_covers_pt (env_expand e v) v = true.
Proof. unfold env_expand, env_covers_pt; cbn [exmin exmax eymin eymax]. rewrite !andb_true_iff, !Z.leb_le. lia. Qed.

Lemma env_fold_covers l : forall e, let e' := fold_left env_expand l e in
  (exmin e' <= exmin e /\ exmax e <= exmax e' /\ eymin e' <= eymin e /\ eymax e <= eymax e') /\
  (forall v, In v l -> env_covers_pt e' v = true).
Proof.
  induction l as [|x l IH]; intros e; cbn [fold_left].
  - split; [lia|]. intros v [].
  - destruct (IH (env_expand e x)) as [M C]. cbv zeta in *. pose proof (env_expand_mono e x) as (A & B & C' & D & E).
    split; [lia|]. intros v [<-|Hin]; [|apply C; exact Hin].
    unfold env_covers_pt in *. rewrite !andb_true_iff, !Z.leb_le in *. lia.
Qed.

Lemma env_of_pts_covers ring e v : env_of_pts ring = Some e -> In v ring -> env_covers_pt e v = true.
Proof.
  destruct ring as [|x l]; [discriminate|]. cbn [env_of_pts]. intros [= <-] [<-|Hin].
  - destruct (env_fold_covers l (env_of_pt x)) as [M _]. cbv zeta in M. unfold env_covers_pt, env_of_pt in *; cbn [exmin exmax eymin eymax] in *.
    rewrite !andb_true_iff, !Z.leb_le. lia.
  - destruct (env_fold_covers l (env_of_pt x)) as [_ C]. apply C. exact Hin.
Qed.

Lemma in_segs_in a b ring : In (a, b) (segs ring) -> In a ring /\ In b ring.
Proof.
  intros H. apply in_segs_iff in H. destruct H as (l1 & l2 & ->). split; apply in_or_app; right; cbn; auto.
Qed.

Lemma cl_right p a b : fst p < fst a -> fst p < fst b -> crosses_left p (a, b) = false.
Proof.
  destruct p as [px py], a as [ax ay], b as [bx by_]. unfold crosses_left; cbn [fst snd]. intros.
  apply orb_false_iff; split; bdestruct; cbn [andb]; try reflexivity; exfalso; nia.
Qed.
Lemma cr_above p a b : snd a < snd p -> snd b < snd p -> crosses_right p (a, b) = false.
Proof. intros. apply cr_nostraddle. unfold straddles. rewrite !Z.gtb_ltb. bdestruct; cbn; try reflexivity; lia. Qed.
Lemma cr_below p a b : snd p < snd a -> snd p < snd b -> crosses_right p (a, b) = false.
Proof. intros. apply cr_nostraddle. unfold straddles. rewrite !Z.gtb_ltb. bdestruct; cbn; try reflexivity; lia. Qed.

Lemma count_if_none {A} (f : A -> bool) l : (forall x, In x l -> f x = false) -> count_if f l = 0.
Proof.
  induction l as [|x l IH]; intros H; [reflexivity|]. rewrite count_if_cons, (H x (or_introl eq_refl)), IH; [reflexivity|].
  intros y Hy. apply H. right. exact Hy.
Qed.

(* a point outside the envelope of a closed ring is exterior: the code's envelope tests do not change the answer *)
Theorem outside_env_exterior p ring : closed ring -> ring_env_covers ring p = false -> locate_ring p ring = Exterior.
Proof.
  intros Hc Hout. rewrite (locate_ring_spec p ring Hc). unfold locate_spec, ring_env_covers in *.
  destruct (env_of_pts ring) as [e|] eqn:Ee.
  2: { destruct ring; [reflexivity|discriminate]. }
  assert (V : forall a b, In (a, b) (segs ring) -> env_covers_pt e a = true /\ env_covers_pt e b = true).
  { intros a b Hin. destruct (in_segs_in _ _ _ Hin). split; eapply env_of_pts_covers; eauto. }
  assert (Out : fst p < exmin e \/ exmax e < fst p \/ snd p < eymin e \/ eymax e < snd p).
  { unfold env_covers_pt in Hout. rewrite !andb_false_iff, !Z.leb_gt in Hout. lia. }
  change (fun s : pt * pt => on_segment p (fst s) (snd s)) with (onseg p).
  assert (NB : existsb (onseg p) (segs ring) = false).
  { destruct (existsb (onseg p) (segs ring)) eqn:E; [|reflexivity]. exfalso.
    apply existsb_exists in E. destruct E as ([a b] & Hin & H). unfold onseg, on_segment in H; cbn [fst snd] in H.
    apply andb_true_iff in H. destruct H as [H _]. apply env_pt_spec in H. destruct (V a b Hin) as [Va Vb].
    unfold env_covers_pt in Va, Vb. rewrite !andb_true_iff, !Z.leb_le in Va, Vb. lia. }
  rewrite NB.
  assert (count_if (crosses_right p) (segs ring) = 0 \/ count_if (crosses_left p) (segs ring) = 0) as [Z|Z].
  { destruct Out as [O|[O|[O|O]]].
    - right. apply count_if_none. intros [a b] Hin. destruct (V a b Hin) as [Va Vb].
      unfold env_covers_pt in Va, Vb. rewrite !andb_true_iff, !Z.leb_le in Va, Vb. apply cl_right; lia.
    - left. apply count_if_none. intros [a b] Hin. destruct (V a b Hin) as [Va Vb].
      unfold env_covers_pt in Va, Vb. rewrite !andb_true_iff, !Z.leb_le in Va, Vb. apply cr_left; lia.
    - left. apply count_if_none. intros [a b] Hin. destruct (V a b Hin) as [Va Vb].
      unfold env_covers_pt in Va, Vb. rewrite !andb_true_iff, !Z.leb_le in Va, Vb. apply cr_below; lia.
    - left. apply count_if_none. intros [a b] Hin. destruct (V a b Hin) as [Va Vb].
      unfold env_covers_pt in Va, Vb. rewrite !andb_true_iff, !Z.leb_le in Va, Vb. apply cr_above; lia. }
  - rewrite Z. reflexivity.
  - rewrite (rcc_left_right p ring Hc NB), Z. reflexivity.
Qed.

Lemma locate_holes_env_eq p holes : Forall closed holes -> locate_holes_env p holes = locate_holes p holes.
Proof.
  induction 1 as [|h holes Hc _ IH]; [reflexivity|]. cbn [locate_holes_env locate_holes].
  destruct (ring_env_covers h p) eqn:E.
  - rewrite IH. reflexivity.
  - rewrite (outside_env_exterior p h Hc E), IH. reflexivity.
Qed.

Theorem locate_polygon_env_eq p shell holes : closed shell -> Forall closed holes ->
  locate_polygon_env p shell holes = locate_polygon p shell holes.
Proof.
  intros Hs Hh. unfold locate_polygon_env, locate_polygon. rewrite (locate_holes_env_eq p holes Hh).
  destruct (ring_env_covers shell p) eqn:E; cbn [negb]; [reflexivity|]. rewrite (outside_env_exterior p shell Hs E). reflexivity.
Qed.

(* ------------------------------------------------------------------ shoelace area *)
Definition shoe (s : pt * pt) : Z := fst (fst s) * snd (snd s) - fst (snd s) * snd (fst s).
Lemma area2_sum ring : area2 ring = fold_right (fun s acc => shoe s + acc) 0 (segs ring).
Proof. reflexivity. Qed.
Definition zsum (l : list Z) : Z := fold_right Z.add 0 l.
Lemma area2_zsum ring : area2 ring = zsum (map shoe (segs ring)).
Proof. unfold area2, zsum. induction (segs ring) as [|s l IH]; [reflexivity|]. cbn [fold_right map]. rewrite IH. reflexivity. Qed.
Lemma zsum_app l1 l2 : zsum (l1 ++ l2) = zsum l1 + zsum l2.
Proof. unfold zsum. induction l1; cbn [app fold_right]; lia. Qed.
Lemma zsum_perm l l' : Permutation l l' -> zsum l = zsum l'.
Proof. unfold zsum. induction 1; cbn [fold_right]; lia. Qed.
Lemma zsum_rev l : zsum (rev l) = zsum l.
Proof. apply zsum_perm, Permutation_sym, Permutation_rev. Qed.
Lemma zsum_map_opp {A} (f g : A -> Z) l : (forall x, f x = - g x) -> zsum (map f l) = - zsum (map g l).
Proof. intros E. unfold zsum. induction l; cbn [map fold_right]; [reflexivity|]. rewrite E. lia. Qed.

(* reversing a ring negates its signed area; rotating a closed ring keeps it; translation keeps it for closed rings *)
Theorem area2_rev ring : area2 (rev ring) = - area2 ring.
Proof.
  rewrite !area2_zsum, segs_rev, map_map. rewrite <- zsum_rev, <- map_rev, rev_involutive.
  apply zsum_map_opp. intros [a b]. unfold shoe, sswap; cbn [fst snd]. ring.
Qed.
Theorem area2_rotate ring : closed ring -> area2 (ring_rotate ring) = area2 ring.
Proof.
  intros Hc. destruct ring as [|x [|y l]]; try reflexivity. rewrite !area2_zsum. apply zsum_perm, Permutation_map, segs_rotate, Hc.
Qed.
Lemma shoe_translate t a b : shoe (padd a t, padd b t) = shoe (a, b) + (fst t * (snd b - snd a) - snd t * (fst b - fst a)).
Proof. unfold shoe, padd; cbn [fst snd]. ring. Qed.
Lemma diff_telescope (f : pt -> Z) x l : zsum (map (fun s => f (snd s) - f (fst s)) (segs (x :: l))) = f (last l x) - f x.
Proof.
  revert x. induction l as [|y l IH]; intros x; [cbn; lia|].
  rewrite segs_cons2. cbn [map]. unfold zsum in *. cbn [fold_right fst snd]. rewrite IH, (last_cons_default y x l). lia.
Qed.
Theorem area2_translate t ring : closed ring -> area2 (map (fun v => padd v t) ring) = area2 ring.
Proof.
  intros Hc. rewrite !area2_zsum, segs_map, map_map.
  assert (E : forall l, zsum (map (fun s => shoe (padd (fst s) t, padd (snd s) t)) l) =
                         zsum (map shoe l) + fst t * zsum (map (fun s : pt * pt => snd (snd s) - snd (fst s)) l) - snd t * zsum (map (fun s : pt * pt => fst (snd s) - fst (fst s)) l)).
  { induction l as [|[a b] l IH]; [cbn; lia|]. unfold zsum in *. cbn [map fold_right fst snd]. rewrite IH, shoe_translate. ring. }
  rewrite E. destruct ring as [|x l]; [cbn; lia|].
  rewrite (diff_telescope snd x l), (diff_telescope fst x l), (closed_last x l Hc). lia.
Qed.

(* ------------------------------------------------------------------ polygon with holes: shell-minus-holes = even-odd over all rings *)
Definition nonext (p : pt) (h : list pt) : bool := negb (loc_eqb (locate_ring p h) Exterior).
Definition ringB (p : pt) (r : list pt) : bool := existsb (onseg p) (segs r).
Definition ringO (p : pt) (r : list pt) : bool := Z.odd (count_if (crosses_right p) (segs r)).

Lemma locate_ring_stats p r : closed r -> locate_ring p r = if ringB p r then Boundary else if ringO p r then Interior else Exterior.
Proof. intros Hc. rewrite (locate_ring_spec p r Hc). reflexivity. Qed.

Lemma existsb_flat_map {A B} (f : B -> bool) (g : A -> list B) l : existsb f (flat_map g l) = existsb (fun x => existsb f (g x)) l.
Proof. induction l as [|x l IH]; [reflexivity|]. cbn [flat_map existsb]. now rewrite existsb_app, IH. Qed.

Lemma flagged_onseg_holes p holes : Forall closed holes ->
  existsb (flagged p) (flat_map segs holes) = existsb (onseg p) (flat_map segs holes).
Proof.
  intros H. rewrite !existsb_flat_map. induction H as [|h l Hc _ IH]; [reflexivity|]. cbn [existsb].
  now rewrite IH, (flagged_iff_onseg p h Hc).
Qed.

Lemma exterior_holes p l : Forall closed l -> Forall (fun h => locate_ring p h = Exterior) l ->
  existsb (onseg p) (flat_map segs l) = false /\ Z.odd (count_if (crosses_right p) (flat_map segs l)) = false /\
  forall rest, locate_holes p (l ++ rest) = locate_holes p rest.
Proof.
  intros Hc He. induction Hc as [|h l Hh _ IH]; [repeat split; reflexivity|].
  inversion He as [|? ? E1 E2]; subst. destruct (IH E2) as (A & B & C).
  rewrite (locate_ring_stats p h Hh) in E1. unfold ringB, ringO in E1.
  cbn [flat_map]. rewrite existsb_app, count_if_app, Z.odd_add, A, B.
  destruct (existsb (onseg p) (segs h)) eqn:X; [discriminate|]. destruct (Z.odd (count_if (crosses_right p) (segs h))) eqn:Y; [discriminate|].
  repeat split; try reflexivity. intros rest. cbn [app locate_holes].
  rewrite (locate_ring_stats p h Hh). unfold ringB, ringO. rewrite X, Y. apply C.
Qed.

Lemma one_nonext_split p holes : (length (filter (nonext p) holes) <= 1)%nat ->
  Forall (fun h => locate_ring p h = Exterior) holes \/
  exists l1 h0 l2, holes = l1 ++ h0 :: l2 /\ locate_ring p h0 <> Exterior /\
    Forall (fun h => locate_ring p h = Exterior) l1 /\ Forall (fun h => locate_ring p h = Exterior) l2.
Proof.
  induction holes as [|h l IH]; intros L; [left; constructor|].
  cbn [filter] in L. unfold nonext at 1 in L.
  destruct (locate_ring p h) eqn:E; cbn [loc_eqb negb length] in L.
  - right. exists [], h, l. split; [reflexivity|]. split; [congruence|]. split; [constructor|].
    assert (L' : (length (filter (nonext p) l) <= 0)%nat) by lia.
    clear - L'. induction l as [|x l IH]; [constructor|]. cbn [filter] in L'. unfold nonext at 1 in L'.
    destruct (locate_ring p x) eqn:E; cbn [loc_eqb negb length] in L'; try lia. constructor; auto.
  - right. exists [], h, l. split; [reflexivity|]. split; [congruence|]. split; [constructor|].
    assert (L' : (length (filter (nonext p) l) <= 0)%nat) by lia.
    clear - L'. induction l as [|x l IH]; [constructor|]. cbn [filter] in L'. unfold nonext at 1 in L'.
    destruct (locate_ring p x) eqn:E; cbn [loc_eqb negb length] in L'; try lia. constructor; auto.
  - destruct (IH L) as [F|(l1 & h0 & l2 & -> & N & F1 & F2)].
    + left. constructor; auto.
    + right. exists (h :: l1), h0, l2. split; [reflexivity|]. split; [assumption|]. split; [constructor; auto|assumption].
Qed.

(* SimplePointInAreaLocator (shell minus holes) and IndexedPointInAreaLocator (even-odd over the segments of all rings)
   agree when, at the query point, the holes are inside the shell and at most one hole contains or touches the point *)
Theorem locate_segs_polygon p shell holes : closed shell -> Forall closed holes ->
  (forall h, In h holes -> locate_ring p h <> Exterior -> locate_ring p shell = Interior) ->
  (length (filter (nonext p) holes) <= 1)%nat ->
  locate_segs p (polygon_segs shell holes) = locate_polygon p shell holes.
Proof.
  intros Hs Hh Hin H1. unfold polygon_segs.
  rewrite locate_segs_spec by (rewrite !existsb_app, (flagged_iff_onseg p shell Hs), (flagged_onseg_holes p holes Hh); reflexivity).
  unfold locate_spec, locate_polygon. change (fun s : pt * pt => on_segment p (fst s) (snd s)) with (onseg p).
  rewrite existsb_app, count_if_app, Z.odd_add, (locate_ring_stats p shell Hs). unfold ringB, ringO.
  destruct (one_nonext_split p holes H1) as [F|(l1 & h0 & l2 & E & N & F1 & F2)].
  - destruct (exterior_holes p holes Hh F) as (A & B & C). rewrite A, B, orb_false_r, xorb_false_r.
    specialize (C []). rewrite app_nil_r in C. cbn [locate_holes] in C. rewrite C.
    destruct (existsb (onseg p) (segs shell)); [reflexivity|]. destruct (Z.odd (count_if (crosses_right p) (segs shell))); reflexivity.
  - subst holes. apply Forall_app in Hh. destruct Hh as [Hc1 Hc2]. inversion Hc2 as [|? ? Hc0 Hc2']; subst.
    destruct (exterior_holes p l1 Hc1 F1) as (A1 & B1 & C1). destruct (exterior_holes p l2 Hc2' F2) as (A2 & B2 & C2).
    assert (SI : locate_ring p shell = Interior) by (apply (Hin h0); [apply in_or_app; right; left; reflexivity|assumption]).
    rewrite (locate_ring_stats p shell Hs) in SI. unfold ringB, ringO in SI.
    destruct (existsb (onseg p) (segs shell)) eqn:X; [discriminate|]. destruct (Z.odd (count_if (crosses_right p) (segs shell))) eqn:Y; [|discriminate].
    rewrite flat_map_app. cbn [flat_map]. rewrite !existsb_app, !count_if_app, !Z.odd_add, A1, A2, B1, B2.
    rewrite C1. cbn [locate_holes]. rewrite (locate_ring_stats p h0 Hc0) in N |- *. unfold ringB, ringO in *.
    destruct (existsb (onseg p) (segs h0)); cbn [orb]; [reflexivity|].
    destruct (Z.odd (count_if (crosses_right p) (segs h0))); cbn [xorb]; [reflexivity|]. congruence.
Qed.
