(* C07 — property theorems only. Each is closed by `exact <lemma>` and followed by Print Assumptions.
   Models: Lib/KernelDefs.v (grid kernel over Z, code-shaped), C07/CCWDefs.v (isCCW), generated units Gen/K_*.v.
   Proofs: Lib/Kernel.v, KernelSeg.v, KernelRing.v, KernelPoly.v, C07/GenTie.v, C07/FloatLink.v, C07/DDExact.v, C07/CCWProofs.v. *)
From Coq Require Import ZArith List Bool Floats.SpecFloat.
From GeosV.Lib Require Import KernelDefs Kernel KernelSeg KernelRing KernelPoly.
From GeosV.C07 Require Import CCWDefs CCWProofs GenTie FloatLink SurfTie FilterCoeff DDExact.
From GeosV.Lib Require GenPreludeZ GenPreludeF.
From GeosV.C07 Require PreludeLI PreludeSurf.
From GeosV.C07 Require RunDefs.    (* entry points of the extracted models: kept in the dependency cone so that they are rebuilt with the generated units *)
From GeosV.Gen Require K_locatePointInSurface K_countSegment K_getLocation K_envPtZ K_envSegZ K_collinearZ K_intersectZ K_filterF K_orientationIndexF K_ddAdd K_ddSub K_ddMul K_orientationDD.
Import ListNotations.
Local Open Scope Z_scope.

(* ================================================================== orientation index = exact sign of the determinant *)
(* laws of the specification orient = sgn det *)
Theorem C07_orient_antisym : forall a b c, orient b a c = - orient a b c.
Proof. exact orient_antisym. Qed.
Print Assumptions C07_orient_antisym.
Theorem C07_orient_cyclic : forall a b c, orient b c a = orient a b c.
Proof. exact orient_cyclic. Qed.
Print Assumptions C07_orient_cyclic.
Theorem C07_orient_translate : forall t a b c, orient (padd a t) (padd b t) (padd c t) = orient a b c.
Proof. exact orient_translate. Qed.
Print Assumptions C07_orient_translate.
Theorem C07_orient_scale : forall k a b c, 0 < k -> orient (pscale k a) (pscale k b) (pscale k c) = orient a b c.
Proof. exact orient_scale. Qed.
Print Assumptions C07_orient_scale.
Theorem C07_orient_reflect : forall a b c, orient (pflipx a) (pflipx b) (pflipx c) = - orient a b c.
Proof. exact orient_flipx. Qed.
Print Assumptions C07_orient_reflect.

(* the floating-point filter, as GENERATED from CGAlgorithmsDD::orientationIndexFilter and read at binary64
   (SpecFloat + Flocq): on grid inputs (integers of magnitude <= 2^25) every operation is exact, so an answer other
   than FAILURE (2) is the exact sign of the determinant *)
Theorem C07_filter_sound_grid : forall ax ay bx by_ cx cy : Z,
  Z.abs ax <= 2^25 -> Z.abs ay <= 2^25 -> Z.abs bx <= 2^25 -> Z.abs by_ <= 2^25 -> Z.abs cx <= 2^25 -> Z.abs cy <= 2^25 ->
  let r := K_filterF.c_orientationIndexFilter_6 (GenPreludeF.ofZ ax) (GenPreludeF.ofZ ay) (GenPreludeF.ofZ bx)
                                                (GenPreludeF.ofZ by_) (GenPreludeF.ofZ cx) (GenPreludeF.ofZ cy) in
  r = 2 \/ r = Z.sgn ((ax - cx) * (by_ - cy) - (ay - cy) * (bx - cx)).
Proof. exact filter_sound_grid. Qed.
Print Assumptions C07_filter_sound_grid.
(* for ALL binary64 inputs (no range restriction) the generated filter is antisymmetric under swapping the first two points *)
Theorem C07_filter_antisym_b64 : forall pax pay pbx pby pcx pcy : spec_float,
  K_filterF.c_orientationIndexFilter_6 pbx pby pax pay pcx pcy =
  (let r := K_filterF.c_orientationIndexFilter_6 pax pay pbx pby pcx pcy in if r =? 2 then 2 else - r).
Proof. exact filter_antisym. Qed.
Print Assumptions C07_filter_antisym_b64.
(* FULL STATEMENT NOT PROVED (soundness of the filter on ALL finite doubles without under/overflow: a non-FAILURE answer is the sign of
   the exact determinant — Ozaki et al. 2016, Theorem 3.1, for every coefficient >= theta = 3u - (phi - 22)u^2, u = 2^-53).
   Proved, on the constant as it stands in the C++ source (the generated definition K_filterF.lit_0): the generated function IS that
   filter with lit_0 as coefficient, and theta <= lit_0 < theta + 2^-104. Missing: the analytic theorem itself. Covered instead by the
   danger-band stream of props/C07.py (triples on which the double determinant has the wrong sign with |det| up to 2.9u|detsum|). *)
Theorem C07_filter_coeff_partial :
  (forall pax pay pbx pby pcx pcy, K_filterF.c_orientationIndexFilter_6 pax pay pbx pby pcx pcy = filter_model K_filterF.lit_0 pax pay pbx pby pcx pcy) /\
  (exists n, sf_scaled K_filterF.lit_0 106 = Some n /\ theta_num <= n < theta_num + 4).
Proof. exact (conj filter_shape filter_coeff_ge_theta). Qed.
Print Assumptions C07_filter_coeff_partial.
(* the filter half on its own: whenever the generated filter answers on grid inputs it answers the exact orientation *)
Theorem C07_filter_orient_grid : forall ax ay bx by_ cx cy : Z,
  Z.abs ax <= 2^25 -> Z.abs ay <= 2^25 -> Z.abs bx <= 2^25 -> Z.abs by_ <= 2^25 -> Z.abs cx <= 2^25 -> Z.abs cy <= 2^25 ->
  let r := K_filterF.c_orientationIndexFilter_6 (GenPreludeF.ofZ ax) (GenPreludeF.ofZ ay) (GenPreludeF.ofZ bx)
                                                (GenPreludeF.ofZ by_) (GenPreludeF.ofZ cx) (GenPreludeF.ofZ cy) in
  r <> 2 -> r = orient (ax, ay) (bx, by_) (cx, cy).
Proof. exact filter_orient_grid. Qed.
Print Assumptions C07_filter_orient_grid.

(* the double-double operators as GENERATED from DD.cpp (operator+ -> selfAdd(DD) -> selfAdd(hi,lo); operator- -> selfSubtract ->
   selfAdd(-hi,-lo); operator* -> selfMultiply(DD) -> selfMultiply(hi,lo) with the Veltkamp split by SPLIT = 2^27+1) are exact on DD
   values of the form (integer, 0): sums and differences while operands and result stay within 2^53, products of operands within 2^26.
   [ddint d z]: d.hi is a finite binary64 number of value z and d.lo is a zero (C07/DDExact.v, FloatLink.repr). *)
Theorem C07_dd_ops_exact_int :
  (forall x y a b, ddint x a -> ddint y b -> Z.abs a <= 2^53 -> Z.abs b <= 2^53 -> Z.abs (a + b) <= 2^53 -> ddint (K_ddAdd.c_opadd_2 x y) (a + b)) /\
  (forall x y a b, ddint x a -> ddint y b -> Z.abs a <= 2^53 -> Z.abs b <= 2^53 -> Z.abs (a - b) <= 2^53 -> ddint (K_ddSub.c_opsub_2 x y) (a - b)) /\
  (forall x y a b, ddint x a -> ddint y b -> Z.abs a <= 2^26 -> Z.abs b <= 2^26 -> ddint (K_ddMul.c_opmul_2 x y) (a * b)) /\
  (forall d z, ddint d z -> K_orientationDD.c_OrientationDD_1 d = Z.sgn z).
Proof. exact (conj opadd_exact (conj opsub_exact (conj opmul_exact orientationDD_exact))). Qed.
Print Assumptions C07_dd_ops_exact_int.

(* FULL: the GENERATED CGAlgorithmsDD::orientationIndex (isfinite test, filter, and when the filter says FAILURE the lexicographic sort
   of the three points with the sign of the permutation, the double-double determinant and OrientationDD), read at binary64, returns
   exactly the sign of the exact determinant on every triple of grid points (integers of magnitude <= 2^25, the property's bound; the
   proof needs coordinate differences <= 2^26 and products <= 2^52).  The fall-back is needed for non-zero determinants too: the filter
   answers FAILURE on triples with det = -1 near the top of the range (Example ex_orientationIndex_boundary). *)
Theorem C07_orientationIndex_grid : forall ax ay bx by_ cx cy : Z,
  Z.abs ax <= 2^25 -> Z.abs ay <= 2^25 -> Z.abs bx <= 2^25 -> Z.abs by_ <= 2^25 -> Z.abs cx <= 2^25 -> Z.abs cy <= 2^25 ->
  K_orientationIndexF.g_orientationIndexF (GenPreludeF.ofZ ax) (GenPreludeF.ofZ ay) (GenPreludeF.ofZ bx)
                                          (GenPreludeF.ofZ by_) (GenPreludeF.ofZ cx) (GenPreludeF.ofZ cy)
  = orient (ax, ay) (bx, by_) (cx, cy).
Proof. exact orientationIndex_grid. Qed.
Print Assumptions C07_orientationIndex_grid.

(* ================================================================== point in ring *)
(* PointLocation::isOnSegment decides membership in the closed segment *)
Theorem C07_on_segment_iff : forall p a b, on_segment p a b = true <-> pt_on p a b.
Proof. exact on_segment_iff. Qed.
Print Assumptions C07_on_segment_iff.

(* the code-level ray-crossing counter computes the specification on every closed vertex sequence:
   BOUNDARY iff the point is on some segment, otherwise even-odd over the segments crossing the open right ray *)
Theorem C07_rcc_spec : forall p ring, closed ring -> locate_ring p ring = locate_spec p (segs ring).
Proof. exact locate_ring_spec. Qed.
Print Assumptions C07_rcc_spec.
Theorem C07_rcc_boundary_iff : forall p ring, closed ring ->
  (locate_ring p ring = Boundary <-> exists a b, In (a, b) (segs ring) /\ pt_on p a b).
Proof. exact rcc_boundary_iff. Qed.
Print Assumptions C07_rcc_boundary_iff.
Theorem C07_rcc_crossing_spec : forall p ring, closed ring -> locate_ring p ring <> Boundary ->
  (locate_ring p ring = Interior <-> Z.odd (count_if (crosses_right p) (segs ring)) = true).
Proof. exact rcc_crossing_spec. Qed.
Print Assumptions C07_rcc_crossing_spec.
(* even-odd location is well defined: for a point off a closed ring the right ray and the left ray give the same parity *)
Theorem C07_rcc_left_right : forall p ring, closed ring -> existsb (onseg p) (segs ring) = false ->
  Z.odd (count_if (crosses_right p) (segs ring)) = Z.odd (count_if (crosses_left p) (segs ring)).
Proof. exact rcc_left_right. Qed.
Print Assumptions C07_rcc_left_right.
(* invariance under ring reversal, rotation of the start vertex, translation, reflection *)
Theorem C07_locate_ring_rev : forall p ring, closed ring -> locate_ring p (rev ring) = locate_ring p ring.
Proof. exact locate_ring_rev. Qed.
Print Assumptions C07_locate_ring_rev.
Theorem C07_locate_ring_rotate : forall p ring, closed ring -> locate_ring p (ring_rotate ring) = locate_ring p ring.
Proof. exact locate_ring_rotate. Qed.
Print Assumptions C07_locate_ring_rotate.
Theorem C07_locate_ring_translate : forall t p ring, locate_ring (padd p t) (map (fun v => padd v t) ring) = locate_ring p ring.
Proof. exact locate_ring_translate. Qed.
Print Assumptions C07_locate_ring_translate.
Theorem C07_locate_ring_reflect : forall p ring, closed ring -> locate_ring (pflipx p) (map pflipx ring) = locate_ring p ring.
Proof. exact locate_ring_flipx. Qed.
Print Assumptions C07_locate_ring_reflect.

(* polygons: the envelope short-cuts of SimplePointInAreaLocator do not change the answer; shell-minus-holes equals the
   even-odd count over the segments of all rings (IndexedPointInAreaLocator) when holes lie in the shell and do not overlap at p *)
Theorem C07_locate_polygon_env : forall p shell holes, closed shell -> Forall closed holes ->
  locate_polygon_env p shell holes = locate_polygon p shell holes.
Proof. exact locate_polygon_env_eq. Qed.
Print Assumptions C07_locate_polygon_env.
Theorem C07_locate_polygon_indexed : forall p shell holes, closed shell -> Forall closed holes ->
  (forall h, In h holes -> locate_ring p h <> Exterior -> locate_ring p shell = Interior) ->
  (length (filter (nonext p) holes) <= 1)%nat ->
  locate_segs p (polygon_segs shell holes) = locate_polygon p shell holes.
Proof. exact locate_segs_polygon. Qed.
Print Assumptions C07_locate_polygon_indexed.

(* ================================================================== segment / segment *)
(* the three-way classification of LineIntersector::computeIntersect is exact:
   NO  => no common point;  POINT pr x => x is THE common point, pr <=> x is not an endpoint;
   COLLINEAR a b => the common part is exactly segment ab (a <> b for non-degenerate input segments) *)
Theorem C07_segint_sound : forall p1 p2 q1 q2,
  match seg_class p1 p2 q1 q2 with
  | SegNone => forall p, ~ common p p1 p2 q1 q2
  | SegPoint pr x => 0 < qw x /\ (forall p, common p p1 p2 q1 q2 <-> 0 < qw p /\ qeq p x) /\ (pr = true <-> ~ is_endpoint x p1 p2 q1 q2)
  | SegCollinear a b => (forall p, common p p1 p2 q1 q2 <-> qon p a b) /\ (p1 <> p2 -> q1 <> q2 -> a <> b)
  end.
Proof. exact seg_class_spec. Qed.
Print Assumptions C07_segint_sound.
Theorem C07_segint_complete : forall p1 p2 q1 q2, seg_class p1 p2 q1 q2 = SegNone <-> (forall p, ~ common p p1 p2 q1 q2).
Proof. exact segint_complete. Qed.
Print Assumptions C07_segint_complete.
(* "p lies on segment ab": the parametric definition used above and the box-and-determinant test coincide *)
Theorem C07_qon_iff_box : forall p a b, qon p a b <-> qonb p a b = true.
Proof. exact qon_iff_qonb. Qed.
Print Assumptions C07_qon_iff_box.

(* ================================================================== ring orientation *)
(* FULL STATEMENT NOT PROVED:  for every simple closed ring with area2 ring <> 0,  is_ccw ring = ring_ccw ring
   (is_ccw = code-level model of Orientation::isCCW, ring_ccw = sign of the shoelace area).  Proved: the laws of the
   specification below; the equality itself is tested on generated simple rings against the implementation and the model. *)
Theorem C07_isccw_partial : forall ring, area2 ring <> 0 -> ring_ccw (rev ring) = negb (ring_ccw ring).
Proof. exact ring_ccw_rev. Qed.
Print Assumptions C07_isccw_partial.
Theorem C07_area2_rotate : forall ring, closed ring -> area2 (ring_rotate ring) = area2 ring.
Proof. exact area2_rotate. Qed.
Print Assumptions C07_area2_rotate.
Theorem C07_area2_translate : forall t ring, closed ring -> area2 (map (fun v => padd v t) ring) = area2 ring.
Proof. exact area2_translate. Qed.
Print Assumptions C07_area2_translate.

(* ================================================================== tie G: generated definitions = models *)
Theorem C07_gen_countSegment : forall p a b r,
  K_countSegment.g_countSegment (Z_side.st_of p r) a b = Z_side.st_of p (count_segment p a b r).
Proof. exact Z_side.gen_countSegment_eq. Qed.
Print Assumptions C07_gen_countSegment.
Theorem C07_gen_getLocation : forall p r, K_getLocation.g_getLocation (Z_side.st_of p r) = loc_code (rcc_location r).
Proof. exact Z_side.gen_getLocation_eq. Qed.
Print Assumptions C07_gen_getLocation.
Theorem C07_gen_envPt : forall p1 p2 q, K_envPtZ.g_envPtZ p1 p2 q = env_pt p1 p2 q.
Proof. exact Z_side.gen_envPt_eq. Qed.
Print Assumptions C07_gen_envPt.
Theorem C07_gen_envSeg : forall p1 p2 q1 q2, K_envSegZ.g_envSegZ p1 p2 q1 q2 = env_seg p1 p2 q1 q2.
Proof. exact Z_side.gen_envSeg_eq. Qed.
Print Assumptions C07_gen_envSeg.
Theorem C07_gen_computeIntersect : forall st p1 p2 q1 q2,
  PreludeLI.li_result (K_intersectZ.g_intersectZ st (q_of_pt p1) (q_of_pt p2) (q_of_pt q1) (q_of_pt q2)) = seg_class p1 p2 q1 q2.
Proof. exact LI_side.gen_intersect_eq. Qed.
Print Assumptions C07_gen_computeIntersect.

(* SimplePointInAreaLocator::locatePointInSurface as generated from the C++ (isEmpty / envelope short-cuts, shell, search loop over
   the holes with its early returns) = shell-minus-holes location, for every polygon with closed rings, any number and order of holes *)
Theorem C07_gen_locatePointInSurface : forall p shell holes, closed shell -> Forall closed holes ->
  K_locatePointInSurface.g_locatePointInSurface p (PreludeSurf.GSurf shell holes) = loc_code (locate_polygon p shell holes).
Proof. exact gen_locatePointInSurface_spec. Qed.
Print Assumptions C07_gen_locatePointInSurface.

(* ================================================================== non-vacuity: concrete instances *)
Definition sq : list pt := [(0,0); (4,0); (4,4); (0,4); (0,0)].
Example ex_closed : closed sq. Proof. reflexivity. Qed.
Example ex_ring_locations :
  map (fun p => locate_ring p sq) [(2,2); (4,2); (4,4); (5,2); (2,0); (0,0); (-1,4); (2,4)] =
  [Interior; Boundary; Boundary; Exterior; Boundary; Boundary; Exterior; Boundary].
Proof. vm_compute. reflexivity. Qed.
(* vertex and horizontal edge exactly on the ray *)
Example ex_ray_through_vertex : locate_ring (0,2) [(1,0); (3,2); (1,4); (5,4); (5,0); (1,0)] = Exterior /\
                                locate_ring (4,2) [(1,0); (3,2); (1,4); (5,4); (5,0); (1,0)] = Interior /\
                                locate_ring (2,4) [(1,0); (3,2); (1,4); (5,4); (5,0); (1,0)] = Boundary.
Proof. vm_compute. repeat split. Qed.
Example ex_segments :
  seg_class (0,0) (4,4) (0,4) (4,0) = SegPoint true (mkq 64 64 32) /\      (* proper crossing at (2,2) *)
  seg_class (0,0) (4,4) (4,4) (6,0) = SegPoint false (mkq 4 4 1) /\        (* touching at a shared endpoint *)
  seg_class (0,0) (4,0) (2,0) (2,3) = SegPoint false (mkq 2 0 1) /\        (* T-junction *)
  seg_class (0,0) (4,4) (2,2) (6,6) = SegCollinear (2,2) (4,4) /\          (* collinear overlap *)
  seg_class (0,0) (2,2) (2,2) (4,4) = SegPoint false (mkq 2 2 1) /\        (* collinear, meeting in one endpoint *)
  seg_class (0,0) (1,1) (3,3) (4,4) = SegNone /\                           (* collinear, disjoint *)
  seg_class (0,0) (3,1) (0,1) (3,0) = SegPoint true (mkq 9 3 6).           (* crossing at (3/2, 1/2) *)
Proof. vm_compute. repeat split. Qed.
Example ex_orient : orient (0,0) (33554432, 33554431) (33554431, 33554430) = -1 /\ orient (0,0) (4,4) (2,2) = 0.
Proof. vm_compute. split; reflexivity. Qed.
(* the generated orientationIndex at the range boundary |ordinate| = 2^25: det = -1 with the filter answering FAILURE (so the DD path
   decides), det = 0 on the diagonal of the grid, det = +1; and DD operands satisfying the hypotheses of C07_dd_ops_exact_int *)
Example ex_orientationIndex_boundary :
  filt (2^25 - 1) (2^25 - 2) (2^25 - 2) (2^25 - 3) (- 2^25) (- 2^25) = 2 /\
  oidx (2^25 - 1) (2^25 - 2) (2^25 - 2) (2^25 - 3) (- 2^25) (- 2^25) = -1 /\
  orient (2^25 - 1, 2^25 - 2) (2^25 - 2, 2^25 - 3) (- 2^25, - 2^25) = -1 /\
  oidx (- 2^25) (- 2^25) (2^25) (2^25) 0 0 = 0 /\ oidx (- 2^25) (- 2^25) (2^25) (2^25) 0 1 = 1.
Proof. vm_compute. repeat split. Qed.
Example ex_ddint : ddint (GenPreludeF.mk_DD_1 (GenPreludeF.ofZ (2^26))) (2^26) /\ ddint (GenPreludeF.mk_DD_1 (GenPreludeF.ofZ (- 2^26))) (- 2^26) /\
  K_ddMul.c_opmul_2 (GenPreludeF.mk_DD_1 (GenPreludeF.ofZ (2^26))) (GenPreludeF.mk_DD_1 (GenPreludeF.ofZ (- 2^26)))
  = GenPreludeF.mk_DD_2 (GenPreludeF.ofZ (- 2^52)) (S754_zero false).
Proof. split; [ | split]; [apply ddint_mk1, repr_ofZ; vm_compute; discriminate .. | exact opmul_2p26]. Qed.
Example ex_hole : locate_polygon (2,2) [(0,0);(10,0);(10,10);(0,10);(0,0)] [[(1,1);(3,1);(3,3);(1,3);(1,1)]] = Exterior /\
                  locate_polygon (3,2) [(0,0);(10,0);(10,10);(0,10);(0,0)] [[(1,1);(3,1);(3,3);(1,3);(1,1)]] = Boundary /\
                  locate_segs (5,5) (polygon_segs [(0,0);(10,0);(10,10);(0,10);(0,0)] [[(1,1);(3,1);(3,3);(1,3);(1,1)]]) = Interior.
Proof. vm_compute. repeat split. Qed.
(* an L-shaped hole listed before a square hole in its notch: the point inside the later hole is EXTERIOR, through the generated code too *)
Example ex_nested_holes :
  let shell := [(0,0);(12,0);(12,12);(0,12);(0,0)] in
  let hL := [(2,2);(10,2);(10,4);(4,4);(4,10);(2,10);(2,2)] in let hS := [(6,6);(8,6);(8,8);(6,8);(6,6)] in
  locate_polygon (7,7) shell [hL; hS] = Exterior /\ locate_polygon (6,7) shell [hL; hS] = Boundary /\ locate_polygon (5,5) shell [hL; hS] = Interior /\
  K_locatePointInSurface.g_locatePointInSurface (7,7) (PreludeSurf.GSurf shell [hL; hS]) = 2.
Proof. vm_compute. repeat split. Qed.
Example ex_ccw : is_ccw sq = true /\ ring_ccw sq = true /\ is_ccw (rev sq) = false /\ area2 sq = 32.
Proof. vm_compute. repeat split. Qed.
