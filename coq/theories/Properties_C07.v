(* C07 — property theorems (placeholder while the proofs are being written) *)
From Coq Require Import ZArith List.
From GeosV Require Import Lib.KernelDefs.
Local Open Scope Z_scope.
Example ex_orient : orient (0,0) (4,0) (1,1) = 1.
Proof. reflexivity. Qed.
