(* Property C04 — fixed-precision results are on the grid, valid, near exact, and never fail.
   Only `Theorem … Proof. exact lemma. Qed.`, `Print Assumptions`, and a non-vacuity Example beside each theorem.

   G/M  PrecisionModel::makePrecise at binary64 (generated unit = hand model), its rounding rule over the integers;
        HotPixel::intersectsScaled (generated unit = hand model; = the real class on a window, partial);
   M    the pointwise reducer;   R  PrecSpecW and its checker (the witness family and distance tests of C03 with tol = 2g). *)
From Coq Require Import ZArith List Bool Lia Floats.SpecFloat.
From GeosV.Lib Require Import GeomDefs LocateDefs ValidDefs GenPreludeF.
From GeosV.C03 Require Import OverlayDefs OverlayGeom OverlayProofs.
From GeosV.C04 Require Import GenPreludePM PrecDefs PrecRun PrecProofs PrecHot.
From GeosV.Gen Require PM_makePrecise HP_intersectsScaled HP_intersectsPt.
From GeosV.C04 Require GenPreludeHP.
Import ListNotations.
Local Open Scope Z_scope.

(* ---------------------------------------------------------------- makePrecise *)
Theorem gen_makePrecise_eq : forall st v, f_modelType st = E_FIXED -> PM_makePrecise.g_makePrecise st v = make_precise st v.
Proof. exact PrecProofs.gen_makePrecise_eq. Qed.
Print Assumptions gen_makePrecise_eq.
(* util::round = java_math_round on a finite double s m 2^e: the integer floor(value + 1/2) (round half UP), exactly *)
Theorem jround_spec : forall s m e, e < 0 ->
  jround (S754_finite s m e) = let k := round_half_up (signed s m) (2 ^ (- e)) in if k =? 0 then S754_zero s else ofZ k.
Proof. exact PrecProofs.jround_spec. Qed.
Print Assumptions jround_spec.
(* makePrecise_nearest: the rule returns a nearest multiple of g, ties towards +infinity (V, G in one common unit) *)
Theorem makePrecise_nearest : forall V G j, 0 < G ->
  Z.abs (V - nearest_multiple V G) <= Z.abs (V - j * G) /\ - G <= 2 * (V - nearest_multiple V G) < G.
Proof. intros V G j HG. split; [exact (round_half_up_nearest V G j HG)|exact (round_half_up_spec V G HG)]. Qed.
Print Assumptions makePrecise_nearest.
Theorem makePrecise_fixed_points : forall V G j, 0 < G ->
  nearest_multiple (nearest_multiple V G) G = nearest_multiple V G /\ nearest_multiple (j * G) G = j * G.
Proof. intros V G j HG. split; [exact (nearest_multiple_fixed_point V G HG)|exact (nearest_multiple_of_multiple j G HG)]. Qed.
Print Assumptions makePrecise_fixed_points.
Example makePrecise_nonvacuous :
  nearest_multiple 25 10 = 30 /\ nearest_multiple (-25) 10 = -20 /\ nearest_multiple 24 10 = 20 /\ nearest_multiple (-26) 10 = -30
  (* PrecisionModel(10.0).makePrecise(0.25) = 0.3, (-0.25) = -0.2, (-0.04) = -0.0; PrecisionModel(0.001): 1500 -> 2000 *)
  /\ mp_bits 4621819117588971520 4598175219545276416 = 4599075939470750515
  /\ mp_bits 4621819117588971520 13821547256400052224 = 13819745816549104026
  /\ mp_bits 4621819117588971520 13809297465413604475 = 9223372036854775808
  /\ mp_bits 4562254508917369340 4654311885213007872 = 4656510908468559872.
Proof. vm_compute. repeat split. Qed.

(* ---------------------------------------------------------------- hot pixel *)
Theorem gen_intersectsScaled_eq : forall hx hy p0x p0y p1x p1y, hp_gen hx hy p0x p0y p1x p1y = hp_model hx hy p0x p0y p1x p1y.
Proof. exact PrecHot.gen_intersectsScaled_eq. Qed.
Print Assumptions gen_intersectsScaled_eq.
(* hotpixel_spec, partial: the full statement is  forall hx hy px py qx qy, hp_gen ... = true <-> seg_meets_pixel ...;
   proved for the pixel at the origin and ordinates within 9 half units (all 19^4 configurations); universal parts:
   generated = hand model, meets_fm_complete, meets_wit_sound *)
Theorem hotpixel_spec_partial : forall px py qx qy,
  -9 <= px <= 9 -> -9 <= py <= 9 -> -9 <= qx <= 9 -> -9 <= qy <= 9 ->
  (hp_gen 0 0 px py qx qy = true <-> seg_meets_pixel 0 0 px py qx qy).
Proof. exact PrecHot.hotpixel_spec_window. Qed.
Print Assumptions hotpixel_spec_partial.
(* the same for every pixel centre (translation invariance of the unit and of the class) *)
Theorem hotpixel_spec_any_centre_partial : forall hx hy px py qx qy,
  -9 <= px - hx <= 9 -> -9 <= py - hy <= 9 -> -9 <= qx - hx <= 9 -> -9 <= qy - hy <= 9 ->
  (hp_gen hx hy px py qx qy = true <-> seg_meets_pixel hx hy px py qx qy).
Proof. exact PrecHot.hotpixel_spec_any_centre. Qed.
Print Assumptions hotpixel_spec_any_centre_partial.
(* HotPixel::intersects(p) (generated, half units): the pixel is the half-open square, closed left / bottom, open right / top *)
Theorem gen_intersectsPt_halfopen : forall hx hy x y,
  HP_intersectsPt.g_intersectsPt (GenPreludeHP.mkHP hx hy) (x, y) = true <-> (hx - 1 <= x < hx + 1 /\ hy - 1 <= y < hy + 1).
Proof. exact PrecHot.gen_intersectsPt_halfopen. Qed.
Print Assumptions gen_intersectsPt_halfopen.
Theorem intersectsPt_is_degenerate_segment : forall hx hy x y,
  HP_intersectsPt.g_intersectsPt (GenPreludeHP.mkHP hx hy) (x, y) = true <-> seg_meets_pixel hx hy x y x y.
Proof. exact PrecHot.intersectsPt_is_degenerate_segment. Qed.
Example intersectsPt_nonvacuous :
  HP_intersectsPt.g_intersectsPt (GenPreludeHP.mkHP 0 0) (0, 1) = false /\ HP_intersectsPt.g_intersectsPt (GenPreludeHP.mkHP 0 2) (0, 1) = true
  /\ HP_intersectsPt.g_intersectsPt (GenPreludeHP.mkHP 0 0) (-1, -1) = true /\ HP_intersectsPt.g_intersectsPt (GenPreludeHP.mkHP 0 0) (1, 0) = false.
Proof. repeat split. Qed.
Theorem meets_fm_complete : forall hx hy px py qx qy, seg_meets_pixel hx hy px py qx qy -> meets_fm hx hy px py qx qy = true.
Proof. exact PrecHot.meets_fm_complete. Qed.
Theorem meets_wit_sound : forall hx hy px py qx qy, meets_wit hx hy px py qx qy = true -> seg_meets_pixel hx hy px py qx qy.
Proof. exact PrecHot.meets_wit_sound. Qed.
Print Assumptions meets_wit_sound.
Example hotpixel_nonvacuous :
  (* through the upper-left corner upwards: misses; downwards: meets; ending on the right edge: misses; on the left edge: meets *)
  hp_gen 0 0 (-3) (-1) 1 3 = false /\ hp_gen 0 0 (-3) 3 1 (-1) = true
  /\ hp_gen 0 0 1 0 5 0 = false /\ hp_gen 0 0 (-5) 0 (-1) 0 = true
  /\ seg_meets_pixel 0 0 (-5) 0 (-1) 0.
Proof. repeat split; try reflexivity. exists 1, 1. lia. Qed.

(* ---------------------------------------------------------------- pointwise reducer *)
Theorem pointwise_structure : forall f g,
  shape_of (pointwise f g) = shape_of g /\ coords_of (pointwise f g) = map (fun p => (f (fst p), f (snd p))) (coords_of g).
Proof. exact PrecProofs.pointwise_structure. Qed.
Print Assumptions pointwise_structure.
Theorem pointwise_fixed_points : forall f g, (forall z, f (f z) = f z) -> pointwise f (pointwise f g) = pointwise f g.
Proof. exact PrecProofs.pointwise_fixed_points. Qed.
Example pointwise_nonvacuous :
  pointwise (fun z => nearest_multiple z 10) (GColl [GPoly [(1, 1); (14, 2); (16, 27); (1, 1)] []; GPoint None; GLine [(4, 4); (5, 5)]])
  = GColl [GPoly [(0, 0); (10, 0); (20, 30); (0, 0)] []; GPoint None; GLine [(0, 0); (10, 10)]].
Proof. reflexivity. Qed.

(* ---------------------------------------------------------------- PrecSpec (partial: as for C03, the witness family is
   not proved to meet every face; snap rounding itself is not modelled, only its results are decided) *)
Theorem prec_check_sound_partial : forall p o A B R, prec_check p o A B R = true -> params_ok p = true /\ PrecSpecW p o A B R.
Proof. exact PrecProofs.prec_check_sound. Qed.
Print Assumptions prec_check_sound_partial.
Definition pA : geom := GPoly [(0, 0); (100, 0); (100, 100); (0, 100); (0, 0)] [].
Definition pB : geom := GPoly [(52, 48); (150, 48); (150, 150); (52, 150); (52, 48)] [].
Definition pI : geom := GPoly [(50, 50); (100, 50); (100, 100); (50, 100); (50, 50)] [].      (* on the grid of size 10 *)
Definition pp : params := mkParams 20 1 64 1.                                                 (* tol = 2g = 20, eps = 64 *)
Example prec_check_nonvacuous :
  prec_check pp OpInter pA pB pI = true /\ prec_check pp OpInter pA pB pA = false
  /\ length (filter (far_inputs pp pA pB) (side_witnesses pp pA pB pI)) = 8%nat.
Proof. vm_compute. repeat split. Qed.
