(* Property C03 — overlay results are valid and equal the Boolean combination of the inputs.
   Only `Theorem … Proof. exact lemma. Qed.`, `Print Assumptions`, and a non-vacuity Example beside each theorem.

   G  decision tables of the code (generated units Gen/OV_...) = the Boolean combination / the documented tables;
   R  OverlaySpecW and its checker (C03/OverlayDefs, OverlayProofs): soundness on the witness family (partial: see the gap). *)
From Coq Require Import ZArith List Bool.
From GeosV.Lib Require Import GeomDefs LocateDefs ValidDefs.
From GeosV.C03 Require Import GenPreludeOv OverlayDefs OverlayTables OverlayGeom OverlayProofs OverlaySort.
Import ListNotations.
Local Open Scope Z_scope.

(* ---------------------------------------------------------------- G: OverlayNG::isResultOfOp (both overloads) *)
Theorem isResultOfOp_boolean : forall (o : ovop) (l0 l1 : location),
  R.c_isResultOfOp_3 (op_code o) (loc_code l0) (loc_code l1) = boolop o (negb (is_exterior l0)) (negb (is_exterior l1)).
Proof. exact OverlayTables.isResultOfOp_boolean. Qed.
Print Assumptions isResultOfOp_boolean.
(* all integers, not only the enumerators: BOUNDARY counts as INTERIOR, everything else (EXTERIOR, NONE) as outside *)
Theorem isResultOfOp_table : forall (o : ovop) (l0 l1 : Z),
  R.c_isResultOfOp_3 (op_code o) l0 l1 = boolop o (covered l0) (covered l1).
Proof. exact OverlayTables.isResultOfOp_table. Qed.
Print Assumptions isResultOfOp_table.
Theorem isResultOfOp_other_codes : forall (c l0 l1 : Z), op_of_code c = None -> R.c_isResultOfOp_3 c l0 l1 = false.
Proof. exact OverlayTables.isResultOfOp_other_codes. Qed.
Print Assumptions isResultOfOp_other_codes.
Theorem isResultOfOpPoint_boolean : forall (o : ovop) (lbl : olabel),
  RP.c_isResultOfOpPoint_2 lbl (op_code o) = boolop o (covered (f_aLocLine lbl)) (covered (f_bLocLine lbl)).
Proof. exact OverlayTables.isResultOfOpPoint_boolean. Qed.
Print Assumptions isResultOfOpPoint_boolean.
Example isResultOfOp_nonvacuous :
  R.c_isResultOfOp_3 (op_code OpSym) (loc_code Boundary) (loc_code Exterior) = true
  /\ R.c_isResultOfOp_3 (op_code OpSym) (loc_code Interior) (loc_code Boundary) = false
  /\ R.c_isResultOfOp_3 (op_code OpDiff) (loc_code Interior) (-1) = true
  /\ op_of_code 7 = None.
Proof. repeat split. Qed.
Theorem op_codes_are_the_generated_constants :
  op_code OpInter = R.g_INTERSECTION /\ op_code OpUnion = R.g_UNION /\ op_code OpDiff = R.g_DIFFERENCE /\ op_code OpSym = R.g_SYMDIFFERENCE
  /\ R.g_INTERSECTION = RD.g_INTERSECTION /\ R.g_UNION = RD.g_UNION /\ R.g_DIFFERENCE = RD.g_DIFFERENCE /\ R.g_SYMDIFFERENCE = RD.g_SYMDIFFERENCE
  /\ R.g_INTERSECTION = ER.g_INTERSECTION /\ R.g_UNION = ER.g_UNION /\ R.g_DIFFERENCE = ER.g_DIFFERENCE /\ R.g_SYMDIFFERENCE = ER.g_SYMDIFFERENCE.
Proof. exact OverlayTables.op_codes_are_the_generated_constants. Qed.
Theorem getLocation3_table : forall (lbl : olabel) (idx pos : Z) (fwd : bool),
  GL3.m_getLocation_3 lbl idx pos fwd =
  let a := idx =? 0 in
  if pos =? GL3.E_LEFT then (if fwd then (if a then f_aLocLeft lbl else f_bLocLeft lbl) else (if a then f_aLocRight lbl else f_bLocRight lbl))
  else if pos =? GL3.E_RIGHT then (if fwd then (if a then f_aLocRight lbl else f_bLocRight lbl) else (if a then f_aLocLeft lbl else f_bLocLeft lbl))
  else if pos =? GL3.E_ON then (if a then f_aLocLine lbl else f_bLocLine lbl)
  else GL3.g_LOC_UNKNOWN.
Proof. exact OverlayTables.getLocation3_table. Qed.
Print Assumptions getLocation3_table.

(* ---------------------------------------------------------------- G: OverlayUtil::resultDimension, isEmptyResult *)
Theorem resultDimension_table : forall (o : ovop) (d0 d1 : Z), RD.c_resultDimension_3 (op_code o) d0 d1 = result_dim o d0 d1.
Proof. exact OverlayTables.resultDimension_table. Qed.
Print Assumptions resultDimension_table.
Theorem resultDimension_other_codes : forall c d0 d1, op_of_code c = None -> RD.c_resultDimension_3 c d0 d1 = -1.
Proof. exact OverlayTables.resultDimension_other_codes. Qed.
Example resultDimension_nonvacuous :
  RD.c_resultDimension_3 (op_code OpInter) 2 1 = 1 /\ RD.c_resultDimension_3 (op_code OpDiff) 0 2 = 0 /\ RD.c_resultDimension_3 (op_code OpSym) 0 1 = 1.
Proof. repeat split. Qed.
Theorem isEmptyResult_table : forall (o : ovop) (a b : ogeom),
  ER.c_isEmptyResult_4 (op_code o) a b PMFloating
  = empty_shortcut o (c_isEmpty_1 a) (c_isEmpty_1 b) (negb (env_intersects (og_env a) (og_env b))).
Proof. exact OverlayTables.isEmptyResult_table. Qed.
Print Assumptions isEmptyResult_table.
Theorem isEmptyResult_sound : forall (o : ovop) (e0 e1 dj ma mb : bool),
  (e0 = true -> ma = false) -> (e1 = true -> mb = false) -> (dj = true -> ma && mb = false) ->
  empty_shortcut o e0 e1 dj = true -> boolop o ma mb = false.
Proof. exact OverlayTables.isEmptyResult_sound. Qed.
Print Assumptions isEmptyResult_sound.
Example isEmptyResult_nonvacuous :
  ER.c_isEmptyResult_4 (op_code OpInter) (mkOG false false (Some (0, 1, 0, 1))) (mkOG false false (Some (2, 3, 0, 1))) PMFloating = true
  /\ ER.c_isEmptyResult_4 (op_code OpUnion) (mkOG false true None) (mkOG false false (Some (2, 3, 0, 1))) PMFloating = false.
Proof. repeat split. Qed.

(* ---------------------------------------------------------------- the algebra (clause vi) *)
Theorem boolop_algebra :
  (forall a, boolop OpInter a a = a /\ boolop OpUnion a a = a /\ boolop OpDiff a a = false /\ boolop OpSym a a = false)
  /\ (forall o a, boolop o a false = (match o with OpInter => false | _ => a end)
                  /\ boolop o false a = (match o with OpInter | OpDiff => false | _ => a end))
  /\ (forall o a b, o <> OpDiff -> boolop o a b = boolop o b a)
  /\ (forall a b, boolop OpUnion (boolop OpDiff a b) (boolop OpDiff b a) = boolop OpSym a b
                  /\ boolop OpInter (boolop OpDiff a b) (boolop OpDiff b a) = false
                  /\ boolop OpUnion (boolop OpDiff a b) (boolop OpInter a b) = a
                  /\ boolop OpDiff (boolop OpUnion a b) (boolop OpInter a b) = boolop OpSym a b).
Proof. exact (conj boolop_idempotent (conj boolop_empty (conj boolop_commutative boolop_difference_swap))). Qed.
Print Assumptions boolop_algebra.
Theorem inclusion_exclusion_counts : forall {X} (ma mb : X -> bool) (l : list X),
  cnt (fun q => boolop OpUnion (ma q) (mb q)) l + cnt (fun q => boolop OpInter (ma q) (mb q)) l = cnt ma l + cnt mb l
  /\ cnt (fun q => boolop OpDiff (ma q) (mb q)) l = cnt ma l - cnt (fun q => boolop OpInter (ma q) (mb q)) l
  /\ cnt (fun q => boolop OpSym (ma q) (mb q)) l
     = cnt (fun q => boolop OpUnion (ma q) (mb q)) l - cnt (fun q => boolop OpInter (ma q) (mb q)) l.
Proof. exact @OverlayTables.inclusion_exclusion_counts. Qed.
Print Assumptions inclusion_exclusion_counts.

(* ---------------------------------------------------------------- R: the distance tests mean what they say *)
Theorem near_seg_sound : forall tn td x y w a b,
  0 < w -> 0 <= tn -> 0 < td -> near_seg tn td (x, y, w) a b = true ->
  exists c n m, at_param c a b n m /\ 0 < snd c /\ within tn td (x, y, w) c.
Proof. exact OverlayGeom.near_seg_sound. Qed.
Print Assumptions near_seg_sound.
Theorem near_seg_complete : forall tn td x y w a b c n m,
  0 < w -> 0 <= tn -> 0 < td -> near_seg tn td (x, y, w) a b = false ->
  at_param c a b n m -> 0 < snd c -> ~ within tn td (x, y, w) c.
Proof. exact OverlayGeom.near_seg_complete. Qed.
Print Assumptions near_seg_complete.
Example near_seg_nonvacuous :
  near_seg 1 1 (3, 1, 1) (0, 0) (10, 0) = true /\ near_seg 1 1 (3, 2, 1) (0, 0) (10, 0) = false
  /\ near_seg 1 2 (21, 1, 2) (0, 0) (10, 0) = false /\ near_seg 1 1 (21, 1, 2) (0, 0) (10, 0) = true.
Proof. repeat split. Qed.

(* ---------------------------------------------------------------- R: geometry of the witness family *)
Theorem side_witness_geometry : forall p A B R q,
  params_ok p = true -> In q (side_witnesses p A B R) ->
  exists a b k pw q1 q2,
    In (a, b) (arr_segs p A B R) /\ pt_eqb a b = false
    /\ at_param (sample_pt a b k pw) a b k pw /\ 0 < k < pw
    /\ side_pts (p_en p) (p_ed p) a b (sample_pt a b k pw) = [q1; q2] /\ (q = q1 \/ q = q2)
    /\ 0 < snd q
    /\ ((0 < hdet a b q1 /\ hdet a b q2 < 0) \/ (hdet a b q1 < 0 /\ 0 < hdet a b q2))
    /\ (let len := (fst b - fst a) * (fst b - fst a) + (snd b - snd a) * (snd b - snd a) in
        p_en p * p_en p * (len * (snd q * snd q)) <= 2 * (hdet a b q * hdet a b q) * (p_ed p * p_ed p)).
Proof. exact OverlayProofs.side_witness_geometry. Qed.
Print Assumptions side_witness_geometry.
(* consecutive node parameters of a segment are strictly increasing fractions in [0,1]: every sub-edge is non-degenerate *)
Theorem subedges_increasing : forall a b ss ps t1 t2,
  In (t1, t2) (consec (node_pars a b ss ps)) ->
  fst t1 * snd t2 < fst t2 * snd t1 /\ 0 < snd t1 /\ 0 <= fst t1 <= snd t1 /\ 0 < snd t2 /\ 0 <= fst t2 <= snd t2.
Proof. exact OverlaySort.subedges_increasing. Qed.
Print Assumptions subedges_increasing.
Theorem far_inputs_spec : forall p A B x y w,
  params_ok p = true -> 0 < w -> far_inputs p A B (x, y, w) = true ->
  forall c, on_linework A c \/ on_linework B c -> 0 < snd c -> ~ within (p_tn p) (p_td p) (x, y, w) c.
Proof. exact OverlayProofs.far_inputs_spec. Qed.
Print Assumptions far_inputs_spec.

(* ---------------------------------------------------------------- R: soundness of the checker (partial: the gap is
   that W(A,B,R) meets every face of the arrangement wider than the tolerance; noding / labelling / ring building / the
   snapping and snap-rounding fallbacks are not modelled — only their results are decided) *)
Theorem overlay_check_sound_partial : forall p o A B R,
  overlay_check p o A B R = true -> params_ok p = true /\ OverlaySpecW (shape_ok o A B R = true) p o A B R.
Proof. exact OverlayProofs.overlay_check_sound. Qed.
Print Assumptions overlay_check_sound_partial.
Theorem unary_check_sound_partial : forall p G R,
  unary_check p G R = true -> params_ok p = true /\ OverlaySpecW (shape_unary G R = true) p OpUnion G (GColl []) R.
Proof. exact OverlayProofs.unary_check_sound. Qed.
Print Assumptions unary_check_sound_partial.
Theorem membership_check_sound_partial : forall p o A B R,
  membership_check p o A B R = true ->
  (forall q, In q (side_witnesses p A B R) -> far_inputs p A B q = true -> mem R q = boolop o (mem A q) (mem B q))
  /\ (forall s, In s (line_segs R) -> seg_on_inputs p (geom_segs A ++ geom_segs B) s = true).
Proof. exact OverlayProofs.membership_check_sound. Qed.
Print Assumptions membership_check_sound_partial.
Theorem shape_ok_spec : forall o A B R, shape_ok o A B R = true ->
  (is_empty R = true -> empty_shape (result_dim o (dimension A) (dimension B)) R = true)
  /\ (is_empty R = false -> built_shape R = true /\ dimension R <= result_dim o (dimension A) (dimension B))
  /\ (empty_shortcut o (is_empty A) (is_empty B) (env_disjoint (env_of A) (env_of B)) = true -> is_empty R = true).
Proof. exact OverlayProofs.shape_ok_spec. Qed.
Theorem area_laws_spec : forall p A B I U D S E, 0 < p_td p -> area_laws p A B I U D S E = true ->
  let P := geom_perim1 A + geom_perim1 B in
  let tol4P k := k * 4 * p_tn p * P in
  Z.abs (geom_area2 U + geom_area2 I - geom_area2 A - geom_area2 B) * p_td p <= tol4P 2
  /\ Z.abs (geom_area2 D - (geom_area2 A - geom_area2 I)) * p_td p <= tol4P 2
  /\ Z.abs (geom_area2 E - (geom_area2 B - geom_area2 I)) * p_td p <= tol4P 2
  /\ Z.abs (geom_area2 S - (geom_area2 U - geom_area2 I)) * p_td p <= tol4P 2
  /\ Z.abs (geom_area2 S - (geom_area2 D + geom_area2 E)) * p_td p <= tol4P 3.
Proof. exact OverlayProofs.area_laws_spec. Qed.
Print Assumptions area_laws_spec.

(* non-vacuity: two overlapping squares; the four true results pass, a wrong one does not, the filter keeps witnesses,
   and a witness exists at which the wrong result is caught *)
Definition sqA : geom := GPoly [(0, 0); (10, 0); (10, 10); (0, 10); (0, 0)] [].
Definition sqB : geom := GPoly [(5, 5); (15, 5); (15, 15); (5, 15); (5, 5)] [].
Definition sqI : geom := GPoly [(5, 5); (10, 5); (10, 10); (5, 10); (5, 5)] [].
Definition sqU : geom := GPoly [(0, 0); (10, 0); (10, 5); (15, 5); (15, 15); (5, 15); (5, 10); (0, 10); (0, 0)] [].
Definition sqD : geom := GPoly [(0, 0); (10, 0); (10, 5); (5, 5); (5, 10); (0, 10); (0, 0)] [].
Definition sqE : geom := GPoly [(10, 5); (15, 5); (15, 15); (5, 15); (5, 10); (10, 10); (10, 5)] [].
Definition sqS : geom := GMPoly [([(0, 0); (10, 0); (10, 5); (5, 5); (5, 10); (0, 10); (0, 0)], []);
                                 ([(10, 5); (15, 5); (15, 15); (5, 15); (5, 10); (10, 10); (10, 5)], [])].
Definition par0 : params := mkParams 15 1000000000 1 16777216.
Example overlay_check_nonvacuous :
  overlay_check par0 OpInter sqA sqB sqI = true /\ overlay_check par0 OpUnion sqA sqB sqU = true
  /\ overlay_check par0 OpDiff sqA sqB sqD = true /\ overlay_check par0 OpSym sqA sqB sqS = true
  /\ overlay_check par0 OpInter sqA sqB sqU = false /\ overlay_check par0 OpSym sqA sqB sqU = false
  /\ overlay_check par0 OpUnion sqA (GColl []) sqA = true /\ overlay_check par0 OpInter sqA (GPoint None) (GPoint None) = true
  /\ unary_check par0 (GColl [sqA; sqB]) sqU = true /\ unary_check par0 (GColl [sqA; sqB]) sqA = false
  /\ area_laws par0 sqA sqB sqI sqU sqD sqS sqE = true /\ area_laws par0 sqA sqB sqI sqA sqD sqS sqE = false.
Proof. vm_compute. repeat split. Qed.
Example witnesses_nonvacuous :
  length (side_witnesses par0 sqA sqB sqI) = 24%nat
  /\ length (filter (far_inputs par0 sqA sqB) (side_witnesses par0 sqA sqB sqI)) = 24%nat
  /\ length (bad_sides par0 OpInter sqA sqB sqU) = 12%nat
  /\ length (filter (fun q => stable_inputs par0 sqA sqB q && expected OpInter sqA sqB q) (low_witnesses par0 sqA sqB sqI)) = 8%nat.
Proof. vm_compute. repeat split. Qed.

(* ================================================================ the clipping optimisation of OverlayNG (wave 8)
   G  RingClipper::isInsideEdge / intersection / intersectionLineX / intersectionLineY and EdgeNodingBuilder::computeDepthDelta are
      GENERATED (Gen/RC_..., Gen/ENB_computeDepthDelta; doubles read as rationals, C03/GenPreludeClip);
   R  the loop of clipToBoxEdge / clip around them is the hand model C03/ClipDefs, run against the real RingClipper::clip by
      the clip stream of props/C03.py (harness/c03_clip.cpp, ocaml/drv_C03clip.ml). *)
From Coq Require Import QArith.
From GeosV Require Import Lib.KernelDefs C07.CCWDefs C03.GenPreludeClip C03.ClipDefs C03.ClipProofs C03.ClipParity.
From GeosV.Gen Require RC_isInsideEdge RC_intersection ENB_computeDepthDelta.

(* (a) the inside test is the OPEN half-plane of the box edge (never for the null envelope); the intersection point is on the
   edge line and, when exactly one end is inside, on the closed segment between the ends (hence collinear with them) *)
Theorem RingClipper_isInsideEdge_spec : forall (st : renv) (e : Z) (p : rpt),
  RC_isInsideEdge.m_isInsideEdge_2 st p e = true <-> (e_null (f_clipEnv st) = false /\ open_side st e p).
Proof. exact ClipProofs.inside_spec. Qed.
Print Assumptions RingClipper_isInsideEdge_spec.
Theorem RingClipper_intersection_on_edge_line : forall (st : renv) (e : Z) (a b : rpt),
  on_edge_line st e (RC_intersection.m_intersection_4 st a b e qorigin).
Proof. exact ClipProofs.xpt_on_line. Qed.
Print Assumptions RingClipper_intersection_on_edge_line.
Theorem RingClipper_intersection_on_segment : forall (st : renv) (e : Z) (a b : rpt),
  RC_isInsideEdge.m_isInsideEdge_2 st a e <> RC_isInsideEdge.m_isInsideEdge_2 st b e ->
  seg_param a b (RC_intersection.m_intersection_4 st a b e qorigin).
Proof. exact ClipProofs.xpt_on_segment. Qed.
Print Assumptions RingClipper_intersection_on_segment.
Theorem seg_param_collinear : forall a b i : rpt, seg_param a b i -> (rdet a b i == 0)%Q.
Proof. exact ClipProofs.seg_param_det. Qed.
Print Assumptions seg_param_collinear.
Example RingClipper_intersection_nonvacuous :
  let st := box (0 # 1) (10 # 1) (0 # 1) (10 # 1) in
  RC_isInsideEdge.m_isInsideEdge_2 st (5 # 1, 5 # 1) 2 = true /\ RC_isInsideEdge.m_isInsideEdge_2 st (8 # 1, 14 # 1) 2 = false /\
  RC_isInsideEdge.m_isInsideEdge_2 st (5 # 1, 10 # 1) 2 = false /\
  (let i := RC_intersection.m_intersection_4 st (5 # 1, 5 # 1) (8 # 1, 14 # 1) 2 qorigin in Qred (fst i) = 20 # 3 /\ Qred (snd i) = 10 # 1).
Proof. vm_compute. repeat split. Qed.

(* (b) one pass *)
Theorem clipToBoxEdge_in_halfplane : forall st pts e c v, In v (clipToBoxEdge st pts e c) -> closed_side st e v.
Proof. exact ClipProofs.clipToBoxEdge_side. Qed.
Print Assumptions clipToBoxEdge_in_halfplane.
(* the add() calls of the loop contain the inside vertices of the input in their order; add(c, false) only drops a point that
   equals2D one it keeps; clipToBoxEdge = [close_ring] (dedup (those calls)) by definition *)
Theorem clipToBoxEdge_keeps_inside_in_order : forall st e pts p0, subseq (filter (inside st e) pts) (clip_raw st e p0 pts).
Proof. exact ClipProofs.clip_raw_keeps_inside. Qed.
Print Assumptions clipToBoxEdge_keeps_inside_in_order.
Theorem dedup_drops_only_repeats : forall l v, In v l -> exists w, In w (dedup l) /\ equals2D w v = true.
Proof. exact ClipProofs.dedup_cover. Qed.
Print Assumptions dedup_drops_only_repeats.
Theorem clipToBoxEdge_inside_unchanged : forall st pts e, (forall v, In v pts -> inside st e v = true) -> norep pts ->
  clipToBoxEdge st pts e false = pts /\
  (forall s r, pts = s :: r -> equals2D s (last pts s) = true -> clipToBoxEdge st pts e true = pts).
Proof. exact ClipProofs.clipToBoxEdge_all_inside. Qed.
Print Assumptions clipToBoxEdge_inside_unchanged.
Theorem clipToBoxEdge_result_closed : forall st pts e s r, clipToBoxEdge st pts e true = s :: r -> equals2D s (last (s :: r) s) = true.
Proof. exact ClipProofs.clipToBoxEdge_closed. Qed.
Print Assumptions clipToBoxEdge_result_closed.

(* (c) the four passes *)
Theorem clip_result_in_box : forall st cs v, In v (ClipDefs.clip st cs) -> in_closed_box st v.
Proof. exact ClipProofs.clip_in_box. Qed.
Print Assumptions clip_result_in_box.
Theorem clip_ring_inside_unchanged : forall st s r, e_null (f_clipEnv st) = false -> (forall v, In v (s :: r) -> in_open_box st v) ->
  norep (s :: r) -> equals2D s (last (s :: r) s) = true -> ClipDefs.clip st (s :: r) = s :: r.
Proof. exact ClipProofs.clip_inside_unchanged. Qed.
Print Assumptions clip_ring_inside_unchanged.
Example clip_nonvacuous :
  let st := box (0 # 1) (10 # 1) (0 # 1) (10 # 1) in
  let sq := [(2 # 1, 2 # 1); (2 # 1, 8 # 1); (8 # 1, 8 # 1); (8 # 1, 2 # 1); (2 # 1, 2 # 1)] in
  ClipDefs.clip st sq = sq /\ forallb (fun v => inside st 0 v && inside st 1 v && inside st 2 v && inside st 3 v) sq = true /\
  equals2D (2 # 1, 2 # 1) (last sq (2 # 1, 2 # 1)) = true /\
  length (ClipDefs.clip st [(5 # 1, 5 # 1); (14 # 1, 5 # 1); (14 # 1, 14 # 1); (5 # 1, 14 # 1); (5 # 1, 5 # 1)]) = 5%nat.
Proof. vm_compute. repeat split. Qed.

(* (d) soundness of the optimisation: for a point q strictly inside the box, the even-odd crossing parity of the ray from q
   towards +x (RayCrossingCounter's rule; rings read cyclically, as clipToBoxEdge reads them) is the same for the clipped ring
   and for the original ring — for every input list, every box, every pass and for the four passes together *)
Theorem clipToBoxEdge_preserves_parity_bottom : forall x0 x1 y0 y1 q pts cr, (y0 < snd q)%Q ->
  ring_parity q (clipToBoxEdge (box x0 x1 y0 y1) pts 0 cr) = ring_parity q pts.
Proof. exact ClipParity.clipToBoxEdge_parity_bottom. Qed.
Theorem clipToBoxEdge_preserves_parity_right : forall x0 x1 y0 y1 q pts cr, (fst q < x1)%Q ->
  ring_parity q (clipToBoxEdge (box x0 x1 y0 y1) pts 1 cr) = ring_parity q pts.
Proof. exact ClipParity.clipToBoxEdge_parity_right. Qed.
Theorem clipToBoxEdge_preserves_parity_top : forall x0 x1 y0 y1 q pts cr, (snd q < y1)%Q ->
  ring_parity q (clipToBoxEdge (box x0 x1 y0 y1) pts 2 cr) = ring_parity q pts.
Proof. exact ClipParity.clipToBoxEdge_parity_top. Qed.
Theorem clipToBoxEdge_preserves_parity_left : forall x0 x1 y0 y1 q pts cr, (x0 < fst q)%Q ->
  ring_parity q (clipToBoxEdge (box x0 x1 y0 y1) pts 3 cr) = ring_parity q pts.
Proof. exact ClipParity.clipToBoxEdge_parity_left. Qed.
Theorem clip_preserves_parity : forall x0 x1 y0 y1 q pts, in_open_box (box x0 x1 y0 y1) q ->
  ring_parity q (ClipDefs.clip (box x0 x1 y0 y1) pts) = ring_parity q pts.
Proof. exact ClipParity.clip_parity. Qed.
Print Assumptions clip_preserves_parity.
Example clip_preserves_parity_nonvacuous :
  let r := map rpt_of notch_ring in
  ClipDefs.clip notch_box r <> r /\ ring_parity (1 # 1, 1 # 1) r = true /\ ring_parity (1 # 1, 1 # 1) (ClipDefs.clip notch_box r) = true /\
  ring_parity (5 # 1, 1 # 1) r = false /\ ring_parity (5 # 1, 1 # 1) (ClipDefs.clip notch_box r) = false.
Proof. split. intros H. apply (f_equal (@length _)) in H. vm_compute in H. discriminate. vm_compute. repeat split. Qed.

(* (e) the depth delta comes from the ORIGINAL ring: the generated computeDepthDelta applies Orientation::isCCW (Section variable)
   to getCoordinatesRO() of its LinearRing argument and follows the table — and it has to: *)
Theorem computeDepthDelta_reads_original_ring : forall (isCCW : list rpt -> bool) (ring : lring) (isHole : bool),
  ENB_computeDepthDelta.c_computeDepthDelta_2 isCCW ring isHole = depth_delta_table isHole (isCCW (lr_pts ring)).
Proof. exact ClipProofs.computeDepthDelta_table. Qed.
Print Assumptions computeDepthDelta_reads_original_ring.
Example clipped_ring_orientation_refuted :
  let c := ClipDefs.clip notch_box (map rpt_of notch_ring) in
  all_int c = true /\ map zpt_of c = notch_clipped /\
  is_ccw notch_ring = false /\ ring_ccw notch_ring = false /\ ring_ccw notch_clipped = false /\ is_ccw notch_clipped = true.
Proof. exact ClipProofs.clipped_ring_orientation_refuted. Qed.
