(* C03/ClipProofs — what makes the clipping optimisation of OverlayNG sound, about the GENERATED RingClipper::isInsideEdge /
   intersection (units RC_isInsideEdge, RC_intersection) and the loop model of C03/ClipDefs.v around them. *)
From Coq Require Import ZArith QArith List Bool Lia Lra Psatz.
From GeosV Require Import Lib.KernelDefs C07.CCWDefs C03.GenPreludeClip C03.ClipDefs.
From GeosV.Gen Require Import RC_isInsideEdge RC_intersectionLineX RC_intersectionLineY RC_intersection ENB_computeDepthDelta.
Import ListNotations.
Local Open Scope Q_scope.

(* ---- reflection of the comparisons *)
Lemma ltb_true a b : ltb a b = true <-> a < b.
Proof. unfold ltb. rewrite negb_true_iff. split; intros H.
  - apply Qnot_le_lt. intros L. apply Qle_bool_iff in L. congruence.
  - destruct (Qle_bool b a) eqn:E; auto. apply Qle_bool_iff in E. exfalso. apply (Qlt_not_le _ _ H E). Qed.
Lemma gtb_true a b : gtb a b = true <-> b < a.
Proof. unfold gtb. change (negb (Qle_bool a b)) with (ltb b a). apply ltb_true. Qed.
Lemma ltb_false a b : ltb a b = false <-> b <= a.
Proof. destruct (ltb a b) eqn:E.
  - apply ltb_true in E. split; [discriminate|]. intros L. exfalso. apply (Qlt_not_le _ _ E L).
  - split; auto. intros _. apply Qnot_lt_le. intros L. apply ltb_true in L. congruence. Qed.
Lemma gtb_false a b : gtb a b = false <-> a <= b.
Proof. unfold gtb. change (negb (Qle_bool a b)) with (ltb b a). apply ltb_false. Qed.

(* ---- (a) isInsideEdge: exactly the OPEN half-plane of the edge, never for the null envelope *)
Lemma inside_spec st e p : inside st e p = true <-> (e_null (f_clipEnv st) = false /\ open_side st e p).
Proof.
  unfold inside, m_isInsideEdge_2, open_side, m_isNull_0, RC_isInsideEdge.g_BOX_BOTTOM, RC_isInsideEdge.g_BOX_RIGHT, RC_isInsideEdge.g_BOX_TOP, m_getMinY_0, m_getMaxX_0, m_getMaxY_0, m_getMinX_0, f_x, f_y.
  destruct (e_null (f_clipEnv st)).
  - split; [discriminate|]. intros [H _]. discriminate.
  - destruct (Z.eqb e 0); [|destruct (Z.eqb e 1); [|destruct (Z.eqb e 2)]]; cbv beta iota zeta.
    + rewrite gtb_true. intuition auto.
    + rewrite ltb_true. intuition auto.
    + rewrite ltb_true. intuition auto.
    + rewrite gtb_true. intuition auto.
Qed.
Lemma inside_false st e p : e_null (f_clipEnv st) = false -> inside st e p = false -> ~ open_side st e p.
Proof. intros N F O. assert (inside st e p = true) by (apply inside_spec; auto). congruence. Qed.

(* a point of the closed segment a-b at parameter t *)
Definition seg_param (a b i : rpt) : Prop :=
  exists t, 0 <= t /\ t <= 1 /\ fst i == fst a + t * (fst b - fst a) /\ snd i == snd a + t * (snd b - snd a).

Lemma param_bounds t d n : t * d == n -> ~ d == 0 -> ((0 <= n /\ n <= d) \/ (d <= n /\ n <= 0)) -> 0 <= t /\ t <= 1.
Proof. intros H D B. split.
  - destruct (Qlt_le_dec t 0) as [L|L]; auto. exfalso. nra.
  - destruct (Qlt_le_dec 1 t) as [L|L]; auto. exfalso. nra. Qed.

Lemma lineY_param a b Y : ~ snd b - snd a == 0 ->
  ((0 <= Y - snd a /\ Y - snd a <= snd b - snd a) \/ (snd b - snd a <= Y - snd a /\ Y - snd a <= 0)) ->
  seg_param a b (g_intersectionLineY a b Y, Y).
Proof.
  intros D B. exists ((Y - snd a) / (snd b - snd a)).
  assert (E : (Y - snd a) / (snd b - snd a) * (snd b - snd a) == Y - snd a) by (field; exact D).
  destruct (param_bounds _ _ _ E D B) as [T0 T1]. repeat split; auto.
  - unfold g_intersectionLineY, add, sub, mul, div, f_x, f_y. cbn [fst snd]. field. exact D.
  - cbn [fst snd]. rewrite E. ring.
Qed.
Lemma lineX_param a b X : ~ fst b - fst a == 0 ->
  ((0 <= X - fst a /\ X - fst a <= fst b - fst a) \/ (fst b - fst a <= X - fst a /\ X - fst a <= 0)) ->
  seg_param a b (X, g_intersectionLineX a b X).
Proof.
  intros D B. exists ((X - fst a) / (fst b - fst a)).
  assert (E : (X - fst a) / (fst b - fst a) * (fst b - fst a) == X - fst a) by (field; exact D).
  destruct (param_bounds _ _ _ E D B) as [T0 T1]. repeat split; auto.
  - cbn [fst snd]. rewrite E. ring.
  - unfold g_intersectionLineX, add, sub, mul, div, f_x, f_y. cbn [fst snd]. field. exact D.
Qed.

(* the intersection point is on the edge line (always: the ordinate is the bound itself) *)
Lemma xpt_on_line st e a b : on_edge_line st e (xpt st e a b).
Proof.
  unfold xpt, m_intersection_4, on_edge_line, RC_intersection.g_BOX_BOTTOM, RC_intersection.g_BOX_RIGHT, RC_intersection.g_BOX_TOP, mk_Coordinate_2, m_getMinY_0, m_getMaxX_0, m_getMaxY_0, m_getMinX_0.
  destruct (Z.eqb e 0); [|destruct (Z.eqb e 1); [|destruct (Z.eqb e 2)]]; cbn [fst snd]; reflexivity.
Qed.

(* ... and on the closed segment between the two end points when exactly one of them is inside *)
Lemma xpt_on_segment st e a b : inside st e a <> inside st e b -> seg_param a b (xpt st e a b).
Proof.
  intros Hne.
  assert (N : e_null (f_clipEnv st) = false).
  { destruct (inside st e a) eqn:Ea. apply inside_spec in Ea; tauto.
    destruct (inside st e b) eqn:Eb. apply inside_spec in Eb; tauto. congruence. }
  assert (C : (open_side st e a /\ ~ open_side st e b) \/ (open_side st e b /\ ~ open_side st e a)).
  { destruct (inside st e a) eqn:Ea, (inside st e b) eqn:Eb; try congruence.
    - left. split. apply inside_spec in Ea; tauto. apply inside_false; auto.
    - right. split. apply inside_spec in Eb; tauto. apply inside_false; auto. }
  clear Hne. revert C.
  unfold xpt, m_intersection_4, open_side, RC_intersection.g_BOX_BOTTOM, RC_intersection.g_BOX_RIGHT, RC_intersection.g_BOX_TOP, mk_Coordinate_2, m_getMinY_0, m_getMaxX_0, m_getMaxY_0, m_getMinX_0.
  destruct (Z.eqb e 0); [|destruct (Z.eqb e 1); [|destruct (Z.eqb e 2)]]; cbv beta iota zeta; intros C.
  - apply lineY_param; [intros Z|]; lra.
  - apply lineX_param; [intros Z|]; lra.
  - apply lineY_param; [intros Z|]; lra.
  - apply lineX_param; [intros Z|]; lra.
Qed.

Lemma seg_param_det a b i : seg_param a b i -> rdet a b i == 0.
Proof. intros (t & _ & _ & Hx & Hy). unfold rdet. rewrite Hx, Hy. ring. Qed.

(* ---- (b) one pass *)
Lemma on_line_closed st e p : on_edge_line st e p -> closed_side st e p.
Proof. unfold on_edge_line, closed_side. destruct (Z.eqb e 0); [|destruct (Z.eqb e 1); [|destruct (Z.eqb e 2)]]; intros H; lra. Qed.
Lemma open_closed st e p : open_side st e p -> closed_side st e p.
Proof. unfold open_side, closed_side. destruct (Z.eqb e 0); [|destruct (Z.eqb e 1); [|destruct (Z.eqb e 2)]]; intros H; lra. Qed.

Lemma emit_side st e p0 p1 v : In v (emit st e p0 p1) -> closed_side st e v.
Proof.
  unfold emit. destruct (inside st e p1) eqn:E1.
  - assert (C1 : closed_side st e p1) by (apply open_closed; apply inside_spec in E1; tauto).
    destruct (inside st e p0); cbn [In]; intros [<-|H]; auto; try contradiction.
    + apply on_line_closed, xpt_on_line.
    + destruct H as [<-|[]]. exact C1.
  - destruct (inside st e p0); cbn [In]; intros H; [|contradiction]. destruct H as [<-|[]]. apply on_line_closed, xpt_on_line.
Qed.
Lemma clip_raw_side st e pts : forall p0 v, In v (clip_raw st e p0 pts) -> closed_side st e v.
Proof. induction pts as [|p1 r IH]; intros p0 v; cbn [clip_raw]. contradiction.
  intros H. apply in_app_or in H. destruct H as [H|H]. eapply emit_side; eauto. eapply IH; eauto. Qed.

Lemma push_incl acc c v : In v (push acc c) -> v = c \/ In v acc.
Proof. unfold push. destruct acc as [|l acc]. cbn. intuition auto. destruct (equals2D l c); cbn [In]; intuition auto. Qed.
Lemma fold_push_incl l : forall acc v, In v (fold_left push l acc) -> In v l \/ In v acc.
Proof. induction l as [|c r IH]; intros acc v; cbn [fold_left]. tauto.
  intros H. apply IH in H. destruct H as [H|H]. left; right; exact H. apply push_incl in H. destruct H as [->|H]. left; left; reflexivity. right; exact H. Qed.
Lemma dedup_incl l v : In v (dedup l) -> In v l.
Proof. unfold dedup. rewrite <- in_rev. intros H. apply fold_push_incl in H. destruct H as [H|[]]. exact H. Qed.
Lemma close_ring_incl l v : In v (close_ring l) -> In v l.
Proof. unfold close_ring. destruct l as [|s r]. auto. destruct (equals2D s (last (s :: r) s)). auto.
  intros H. apply in_app_or in H. destruct H as [H|[<-|[]]]. exact H. left; reflexivity. Qed.
Lemma clipToBoxEdge_incl st pts e c v : In v (clipToBoxEdge st pts e c) -> In v (clip_raw st e (last pts qorigin) pts).
Proof. unfold clipToBoxEdge. destruct c; intros H; [apply close_ring_incl in H|]; apply dedup_incl; exact H. Qed.

(* every output vertex of a pass lies in the closed half-plane of its edge *)
Lemma clipToBoxEdge_side st pts e c v : In v (clipToBoxEdge st pts e c) -> closed_side st e v.
Proof. intros H. eapply clip_raw_side. eapply clipToBoxEdge_incl; eauto. Qed.

(* the input vertices that are inside are emitted, in order (the other emissions are intersection points) ... *)
Inductive subseq {A} : list A -> list A -> Prop :=
| ss_nil l : subseq [] l
| ss_keep x l l' : subseq l l' -> subseq (x :: l) (x :: l')
| ss_skip x l l' : subseq l l' -> subseq l (x :: l').
Lemma subseq_app_l {A} (p l l' : list A) : subseq l l' -> subseq l (p ++ l').
Proof. induction p; cbn; auto. intros H. apply ss_skip; auto. Qed.
Lemma clip_raw_keeps_inside st e pts : forall p0, subseq (filter (inside st e) pts) (clip_raw st e p0 pts).
Proof. induction pts as [|p1 r IH]; intros p0; cbn [filter clip_raw]. constructor.
  unfold emit. destruct (inside st e p1) eqn:E1.
  - destruct (inside st e p0); cbn [app]. apply ss_keep, IH. apply ss_skip, ss_keep, IH.
  - destruct (inside st e p0); cbn [app]. apply ss_skip, IH. apply IH. Qed.
(* ... and add(c, false) only drops a point that equals2D a point it keeps *)
Lemma equals2D_refl a : equals2D a a = true.
Proof. unfold equals2D. apply andb_true_iff. split; apply Qeq_bool_iff; reflexivity. Qed.
Lemma equals2D_trans a b c : equals2D a b = true -> equals2D b c = true -> equals2D a c = true.
Proof. unfold equals2D. rewrite !andb_true_iff, !Qeq_bool_iff. intros [H1 H2] [H3 H4]. split; etransitivity; eauto. Qed.
Lemma fold_push_cover l : forall acc v, (In v l \/ In v acc) -> exists w, In w (fold_left push l acc) /\ equals2D w v = true.
Proof. induction l as [|c r IH]; intros acc v; cbn [fold_left].
  - intros [[]|H]. exists v. split; auto. apply equals2D_refl.
  - intros [[<-|H]|H].
    + unfold push. destruct acc as [|l0 acc]. apply IH. right; left; reflexivity.
      destruct (equals2D l0 c) eqn:E.
      * destruct (IH (l0 :: acc) l0 (or_intror (or_introl eq_refl))) as (w & Hw & Ew). exists w. split; auto. eapply equals2D_trans; eauto.
      * apply IH. right; left; reflexivity.
    + apply IH. left; exact H.
    + apply IH. right. unfold push. destruct acc as [|l0 acc]. contradiction. destruct (equals2D l0 c). exact H. right; exact H.
Qed.
Lemma dedup_cover l v : In v l -> exists w, In w (dedup l) /\ equals2D w v = true.
Proof. intros H. destruct (fold_push_cover l [] v (or_introl H)) as (w & Hw & Ew). exists w. split; auto. unfold dedup. rewrite <- in_rev. exact Hw. Qed.

(* a ring wholly inside the edge's open half-plane is returned unchanged *)
Lemma clip_raw_all_inside st e pts : forall p0, inside st e p0 = true -> (forall v, In v pts -> inside st e v = true) -> clip_raw st e p0 pts = pts.
Proof. induction pts as [|p1 r IH]; intros p0 H0 Hall; cbn [clip_raw]. reflexivity.
  unfold emit. rewrite (Hall p1 (or_introl eq_refl)), H0. cbn [app]. f_equal. apply IH. apply Hall; left; reflexivity. intros v Hv. apply Hall; right; exact Hv. Qed.
Lemma fold_push_norep l : forall a acc, norep_from a l -> fold_left push l (a :: acc) = rev l ++ a :: acc.
Proof. induction l as [|c r IH]; intros a acc; cbn [fold_left norep_from rev]. reflexivity.
  intros [E N]. unfold push at 2. rewrite E. rewrite IH by exact N. rewrite <- app_assoc. reflexivity. Qed.
Lemma dedup_norep l : norep l -> dedup l = l.
Proof. unfold dedup, norep. destruct l as [|c r]. reflexivity. intros N. cbn [fold_left push]. rewrite fold_push_norep by exact N.
  rewrite rev_app_distr, rev_involutive. reflexivity. Qed.
Lemma last_in {A} (l : list A) d : l <> [] -> In (last l d) l.
Proof. induction l as [|a [|b r] IH]; intros N. congruence. left; reflexivity. right. apply IH. discriminate. Qed.
Lemma clipToBoxEdge_all_inside st pts e : (forall v, In v pts -> inside st e v = true) -> norep pts ->
  clipToBoxEdge st pts e false = pts /\
  (forall s r, pts = s :: r -> equals2D s (last pts s) = true -> clipToBoxEdge st pts e true = pts).
Proof.
  intros Hall N. assert (R : clip_raw st e (last pts qorigin) pts = pts).
  { destruct pts as [|s r]. reflexivity. apply clip_raw_all_inside; auto. apply Hall, last_in. discriminate. }
  unfold clipToBoxEdge. rewrite R, dedup_norep by exact N. split. reflexivity.
  intros s r -> E. unfold close_ring. rewrite E. reflexivity. Qed.

(* closing: a non-empty result of a closing pass ends where it starts *)
Lemma clipToBoxEdge_closed st pts e s r : clipToBoxEdge st pts e true = s :: r -> equals2D s (last (s :: r) s) = true.
Proof. unfold clipToBoxEdge, close_ring. destruct (dedup _) as [|s0 r0]. discriminate.
  destruct (equals2D s0 (last (s0 :: r0) s0)) eqn:E.
  - intros H. injection H as -> ->. exact E.
  - intros H. change ((s0 :: r0) ++ [s0]) with (s0 :: (r0 ++ [s0])) in H. injection H as -> <-.
    change (s :: r0 ++ [s]) with ((s :: r0) ++ [s]). rewrite last_last. apply equals2D_refl. Qed.

(* ---- (c) the four passes *)
Lemma closed_side_convex st e a b i : seg_param a b i -> closed_side st e a -> closed_side st e b -> closed_side st e i.
Proof. intros (t & T0 & T1 & Hx & Hy). unfold closed_side.
  destruct (Z.eqb e 0); [|destruct (Z.eqb e 1); [|destruct (Z.eqb e 2)]]; intros A B; first [rewrite Hx | rewrite Hy]; nra. Qed.

Lemma emit_preserves st e e0 p0 p1 v : closed_side st e0 p0 -> closed_side st e0 p1 -> In v (emit st e p0 p1) -> closed_side st e0 v.
Proof.
  intros C0 C1. unfold emit. destruct (inside st e p1) eqn:E1, (inside st e p0) eqn:E0; cbn [In]; intros H.
  - destruct H as [<-|[]]; auto.
  - destruct H as [<-|[<-|[]]]; auto. apply (closed_side_convex st e0 p0 p1); auto. apply xpt_on_segment. congruence.
  - destruct H as [<-|[]]. apply (closed_side_convex st e0 p0 p1); auto. apply xpt_on_segment. congruence.
  - contradiction.
Qed.
Lemma clip_raw_preserves st e e0 pts : forall p0 v, closed_side st e0 p0 -> (forall w, In w pts -> closed_side st e0 w) ->
  In v (clip_raw st e p0 pts) -> closed_side st e0 v.
Proof. induction pts as [|p1 r IH]; intros p0 v C0 Call; cbn [clip_raw]. contradiction.
  intros H. apply in_app_or in H. destruct H as [H|H].
  - apply (emit_preserves st e e0 p0 p1 v C0); auto. apply Call; left; reflexivity.
  - apply (IH p1 v); auto. apply Call; left; reflexivity. intros w Hw. apply Call; right; exact Hw. Qed.
Lemma clipToBoxEdge_preserves st pts e c e0 v : (forall w, In w pts -> closed_side st e0 w) -> In v (clipToBoxEdge st pts e c) -> closed_side st e0 v.
Proof. intros Call H. apply clipToBoxEdge_incl in H. destruct pts as [|s r]. contradiction.
  apply (clip_raw_preserves st e e0 (s :: r) (last (s :: r) qorigin) v); auto. apply Call, last_in. discriminate. Qed.

Lemma clip_edges_sides st es : forall cs done, (forall e0 v, In e0 done -> In v cs -> closed_side st e0 v) ->
  forall v, In v (clip_edges st cs es) -> forall e0, In e0 (done ++ es) -> closed_side st e0 v.
Proof.
  induction es as [|e r IH]; intros cs done Hd v Hv e0 He; cbn [clip_edges] in Hv.
  - rewrite app_nil_r in He. auto.
  - destruct (clipToBoxEdge st cs e (Z.eqb e 3)) as [|x p] eqn:K. contradiction.
    apply (IH (x :: p) (done ++ [e])); auto.
    + intros e1 w H1 Hw. rewrite <- K in Hw. apply in_app_or in H1. destruct H1 as [H1|[<-|[]]].
      * eapply clipToBoxEdge_preserves; eauto.
      * eapply clipToBoxEdge_side; eauto.
    + rewrite <- app_assoc. exact He.
Qed.

(* every vertex of the clipped ring lies in the closed box *)
Lemma clip_in_box st cs v : In v (clip st cs) -> in_closed_box st v.
Proof.
  intros H. pose proof (clip_edges_sides st [0; 1; 2; 3]%Z cs [] (fun _ _ F => False_ind _ F) v H) as S. cbn [app] in S.
  pose proof (S 0%Z (or_introl eq_refl)) as S0. pose proof (S 1%Z (or_intror (or_introl eq_refl))) as S1.
  pose proof (S 2%Z (or_intror (or_intror (or_introl eq_refl)))) as S2. pose proof (S 3%Z (or_intror (or_intror (or_intror (or_introl eq_refl))))) as S3.
  unfold closed_side in S0, S1, S2, S3. cbn in S0, S1, S2, S3. unfold in_closed_box. tauto.
Qed.

(* a closed ring without repeated points that lies strictly inside the box is returned unchanged *)
Lemma clip_inside_unchanged st s r : e_null (f_clipEnv st) = false -> (forall v, In v (s :: r) -> in_open_box st v) -> norep (s :: r) ->
  equals2D s (last (s :: r) s) = true -> clip st (s :: r) = s :: r.
Proof.
  intros N Hbox Nr Cl.
  assert (P : forall e v, In v (s :: r) -> inside st e v = true).
  { intros e v Hv. apply inside_spec. split; auto. destruct (Hbox v Hv) as (B0 & B1 & B2 & B3). unfold open_side.
    destruct (Z.eqb e 0); [|destruct (Z.eqb e 1); [|destruct (Z.eqb e 2)]]; auto. }
  unfold clip. cbn [clip_edges].
  change (0 =? 3)%Z with false. change (1 =? 3)%Z with false. change (2 =? 3)%Z with false. change (3 =? 3)%Z with true.
  rewrite (proj1 (clipToBoxEdge_all_inside st (s :: r) 0 (P 0%Z) Nr)).
  rewrite (proj1 (clipToBoxEdge_all_inside st (s :: r) 1 (P 1%Z) Nr)).
  rewrite (proj1 (clipToBoxEdge_all_inside st (s :: r) 2 (P 2%Z) Nr)).
  rewrite (proj2 (clipToBoxEdge_all_inside st (s :: r) 3 (P 3%Z) Nr) s r eq_refl Cl). reflexivity.
Qed.

(* ---- (e) the depth delta is read from the ORIGINAL ring: the generated computeDepthDelta applies Orientation::isCCW (a
   Section variable of the unit) to ring->getCoordinatesRO() of its LinearRing argument and follows the table
   shell: CCW -> -1, CW -> +1; hole: CCW -> +1, CW -> -1.  (A change that hands it the clipped CoordinateSequence changes
   the type of the generated term and this statement no longer type-checks.) *)
Lemma computeDepthDelta_table (isCCW : list rpt -> bool) (ring : lring) (isHole : bool) :
  c_computeDepthDelta_2 isCCW ring isHole = depth_delta_table isHole (isCCW (lr_pts ring)).
Proof. unfold c_computeDepthDelta_2, depth_delta_table, m_getCoordinatesRO_0. destruct isHole, (isCCW (lr_pts ring)); reflexivity. Qed.

(* why the original ring must be used: the seeded input of wave 7 (10 x 10 square with a notch from the bottom at x 3..7 up to
   y = 9, sides subdivided, written clockwise from (0,0)), clipped to the box -1..11 x 0..6 (the overlap envelope -1..11 x 1..4
   grown by RobustClipEnvelopeComputer to the segments that touch it): the ring and its clip are both clockwise by the
   shoelace sign, but the code-level model of Orientation::isCCW (C07/CCWDefs.is_ccw: last rising segment reaching the top,
   then the flat cap) answers "counter-clockwise" on the clipped ring, whose notch has become a reversed flat cap on y = 6. *)
Definition notch_ring : list pt :=
  [(0,0);(0,2);(0,4);(0,6);(0,8);(0,10);(10,10);(10,8);(10,6);(10,4);(10,2);(10,0);(7,0);(7,2);(7,4);(7,6);(7,8);(7,9);(3,9);(3,8);(3,6);(3,4);(3,2);(3,0);(0,0)]%Z.
Definition notch_box : renv := box (-1 # 1) (11 # 1) (0 # 1) (6 # 1).
Definition notch_clipped : list pt :=
  [(0,0);(0,2);(0,4);(0,6);(10,6);(10,4);(10,2);(10,0);(7,0);(7,2);(7,4);(7,6);(3,6);(3,4);(3,2);(3,0);(0,0)]%Z.
Lemma clipped_ring_orientation_refuted :
  let c := clip notch_box (map rpt_of notch_ring) in
  all_int c = true /\ map zpt_of c = notch_clipped /\
  is_ccw notch_ring = false /\ ring_ccw notch_ring = false /\
  ring_ccw notch_clipped = false /\ is_ccw notch_clipped = true.
Proof. vm_compute. repeat split; reflexivity. Qed.
