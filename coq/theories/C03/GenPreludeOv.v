(* C03/GenPreludeOv — meaning of the primitive names used by the generated overlay units (Gen/OV_*.v).
   Representation boundary (hand written, read from include/geos/operation/overlayng/OverlayLabel.h and
   src/operation/overlayng/OverlayUtil.cpp):
   * an OverlayLabel is the record of its ten data members; Location / dimension codes are the integers of the C++ enums;
   * for OverlayUtil::isEmptyResult a Geometry* is abstracted to what the function reads: null pointer?, isEmpty(),
     getEnvelopeInternal() (None = null envelope); the PrecisionModel* is abstracted to "floating" (the property C03 is
     about the floating model; the fixed model branch of isEnvDisjoint belongs to C04);
     OverlayUtil::isEmpty and OverlayUtil::isEnvDisjoint are the two private helpers it calls, written out here. *)
From Coq Require Import ZArith List Bool.
Import ListNotations.
Local Open Scope Z_scope.

Definition zneb (a b : Z) := negb (Z.eqb a b).
Definition c_min_2 := Z.min.
Definition c_max_2 := Z.max.

Record olabel := mkLabel {
  f_aDim : Z; f_aIsHole : bool; f_aLocLeft : Z; f_aLocRight : Z; f_aLocLine : Z;
  f_bDim : Z; f_bIsHole : bool; f_bLocLeft : Z; f_bLocRight : Z; f_bLocLine : Z }.

Definition envl := option (Z * Z * Z * Z).      (* minx maxx miny maxy; None = null envelope *)
Record ogeom := mkOG { og_null : bool; og_empty : bool; og_env : envl }.
Inductive opm := PMFloating.

(* Envelope::intersects(other) : false when either envelope is null (NaN comparisons) *)
Definition env_intersects (a b : envl) : bool :=
  match a, b with
  | Some (ax0, ax1, ay0, ay1), Some (bx0, bx1, by0, by1) => (bx0 <=? ax1) && (ax0 <=? bx1) && (by0 <=? ay1) && (ay0 <=? by1)
  | _, _ => false
  end.
(* OverlayUtil::isEmpty(geom) = geom == nullptr || geom->isEmpty() *)
Definition c_isEmpty_1 (g : ogeom) : bool := og_null g || og_empty g.
(* OverlayUtil::isEnvDisjoint(a, b, pm), floating model: empty operands are disjoint; else !envA.intersects(envB) *)
Definition c_isEnvDisjoint_3 (a b : ogeom) (pm : opm) : bool :=
  if c_isEmpty_1 a || c_isEmpty_1 b then true else negb (env_intersects (og_env a) (og_env b)).
