(* C03/OverlayDefs — the relational specification of an overlay result and its executable checker.
   DEFINITIONS ONLY (executable, stdlib + Lib definitions); proofs are in OverlayProofs.v.

   Everything is over exact integer coordinates (Lib/GeomDefs).  The driver scales each case (inputs AND the result the
   implementation returned, all binary64 values = dyadic rationals) by the common power of two, so that nothing is rounded.

   Point-set semantics: `mem g q` = the rational point q is not in the exterior of g (Lib/LocateDefs.loc_h, mod-2 rule:
   geometries are closed sets, a collection is the union of its elements).

   The WITNESS FAMILY  W(A, B, R)  (all exact homogeneous integer points):
     segments   every pair of consecutive points of every line and ring of A and B, and those of R that do not run within
                tol of one input segment (identical / reversed copies once);
     nodes      on a segment ab: its two ends, every point that Lib/ValidDefs.seg_int reports against every other segment,
                every isolated point lying on it — as PARAMETERS n/m in [0,1] along ab, sorted, duplicates removed;
     sub-edges  consecutive node parameters t1 < t2 of one segment;
     sample     one point strictly inside each sub-edge: a + (k/2^j)(b-a) with the smallest j <= DY_FUEL such that some
                k/2^j lies strictly between t1 and t2 (a dyadic parameter keeps the denominators small: exact arithmetic
                on full-precision doubles would otherwise cost thousands of bits per witness);
     sides      the sample moved by +eps and by -eps along the coordinate axis that is closer to the normal of ab
                (along x when |dy| >= |dx|, else along y): the two points lie strictly on opposite sides of the line ab
                at distance >= eps/sqrt 2 from it (OverlayProofs.side_pts_opposite, side_pts_distance);
     low        samples, the vertices and isolated points of A and B, and every A-segment/B-segment intersection point.
   eps = en/ed and the tolerance tol = tn/td are rationals chosen by the driver (tol = 1e-9 x largest |ordinate| of the
   inputs, 2 tol <= eps < 4 tol a power of two).

   The clauses checked (names as in DESIGN.md C03):
     (i)    valid_geom R                                                         (Lib/ValidDefs, exact)
     (ii)   for every side witness q farther than tol from every segment and isolated point of A and B:
              mem R q = boolop op (mem A q) (mem B q)
     (ii')  for every low witness q such that every segment and isolated point of A and B passes exactly through q or is
            farther than tol from q, with boolop op (mem A q) (mem B q) = true: q is within tol of R
            (the Boolean combination is contained in the result up to the tolerance; results are closed sets, so the
            converse is claimed only through (ii), (ii'') and (iii))
     (ii'') for every stable sample of an input sub-edge with boolop op (mem A q) (mem B q) = false: no linear or point part
            of R within tol/2 of q
     (iii)  every segment of a linear component of R has both ends within tol of ONE segment of the inputs, every point
            component of R is within tol of a segment or isolated point of the inputs, and every vertex of a linear or
            point component of R satisfies the tolerant membership the operation requires (within tol of A and of B for
            an intersection, within tol of A and not deeper than tol inside an area of B for a difference, within tol of A
            or B and not deep inside areas of both for a symmetric difference, within tol of A or B for a union)
     (iv)   type / dimension / emptiness: R is what GeometryFactory::buildGeometry makes of a non-empty list of non-empty
            atoms grouped by dimension — or the empty atom of dimension resultDimension(op, dim A, dim B);
            dimension R <= resultDimension; the emptiness short-cut isEmptyResult implies R empty.
   (v) areas and (vi) the algebraic laws are separate entry points (area_laws; (vi) is this checker on derived inputs). *)
From Coq Require Import ZArith List Bool.
From GeosV.Lib Require Import GeomDefs LocateDefs ValidDefs.
Import ListNotations.
Local Open Scope Z_scope.

(* ------------------------------------------------------------------ Boolean combination *)
Inductive ovop := OpInter | OpUnion | OpDiff | OpSym.
Definition all_ops : list ovop := [OpInter; OpUnion; OpDiff; OpSym].
(* OverlayNG::INTERSECTION .. SYMDIFFERENCE (values proved equal to the generated constants in OverlayProofs) *)
Definition op_code (o : ovop) : Z := match o with OpInter => 1 | OpUnion => 2 | OpDiff => 3 | OpSym => 4 end.
Definition op_of_code (z : Z) : option ovop :=
  if z =? 1 then Some OpInter else if z =? 2 then Some OpUnion else if z =? 3 then Some OpDiff else if z =? 4 then Some OpSym else None.
Definition boolop (o : ovop) (a b : bool) : bool :=
  match o with
  | OpInter => a && b
  | OpUnion => a || b
  | OpDiff => a && negb b
  | OpSym => xorb a b
  end.
Definition mem (g : geom) (q : hpt) : bool := negb (is_exterior (loc_h g q)).

(* ------------------------------------------------------------------ decision tables (hand model M of the generated units) *)
Definition result_dim (o : ovop) (d0 d1 : Z) : Z :=
  match o with OpInter => Z.min d0 d1 | OpUnion => Z.max d0 d1 | OpDiff => d0 | OpSym => Z.max d0 d1 end.
(* OverlayUtil::isEmptyResult on non-null operands: e0/e1 = operand empty, dj = envelopes do not intersect *)
Definition empty_shortcut (o : ovop) (e0 e1 dj : bool) : bool :=
  match o with
  | OpInter => e0 || e1 || dj
  | OpDiff => e0
  | OpUnion | OpSym => e0 && e1
  end.

(* ------------------------------------------------------------------ segments and isolated points *)
Definition seg := (pt * pt)%type.
Definition nondeg (s : seg) : bool := negb (pt_eqb (fst s) (snd s)).
Definition ring_segs (g : geom) : list seg := flat_map (fun a => flat_map segs (poly_rings a)) (polys_of g).
Definition line_segs (g : geom) : list seg := flat_map segs (lines_of g).
Definition geom_segs (g : geom) : list seg := ring_segs g ++ line_segs g.
(* point components, and lines consisting of a single coordinate *)
Definition lone_pts (g : geom) : list pt :=
  points_of g ++ flat_map (fun l => match l with [a] => [a] | _ => [] end) (lines_of g).

Definition pt_ltb (a b : pt) : bool := (fst a <? fst b) || ((fst a =? fst b) && (snd a <? snd b)).
Definition seg_norm (s : seg) : seg := if pt_ltb (snd s) (fst s) then (snd s, fst s) else s.
Definition seg_eqb (s t : seg) : bool := pt_eqb (fst s) (fst t) && pt_eqb (snd s) (snd t).
Fixpoint nodup_segs (l : list seg) : list seg :=
  match l with [] => [] | s :: t => if existsb (seg_eqb s) t then nodup_segs t else s :: nodup_segs t end.

Definition arr_pts (A B R : geom) : list pt := nodup_pts (lone_pts A ++ lone_pts B ++ lone_pts R).

(* ------------------------------------------------------------------ distances (exact, squared) *)
(* the rational point q = (x/w, y/w) is within tol = tn/td of the closed segment ab (a = b: of the point a) *)
Definition near_seg (tn td : Z) (q : hpt) (a b : pt) : bool :=
  let '(x, y, w) := q in
  let ux := fst b - fst a in let uy := snd b - snd a in
  let vx := x - w * fst a in let vy := y - w * snd a in
  let dot := ux * vx + uy * vy in
  let len := ux * ux + uy * uy in
  if dot <=? 0 then (vx * vx + vy * vy) * (td * td) <=? (tn * tn) * (w * w)
  else if w * len <=? dot then
    let zx := x - w * fst b in let zy := y - w * snd b in
    (zx * zx + zy * zy) * (td * td) <=? (tn * tn) * (w * w)
  else
    let cr := ux * vy - uy * vx in
    (cr * cr) * (td * td) <=? (tn * tn) * ((w * w) * len).
Definition near_pt (tn td : Z) (q : hpt) (p : pt) : bool := near_seg tn td q p p.
Definition near_lines (tn td : Z) (ss : list seg) (ps : list pt) (q : hpt) : bool :=
  existsb (fun s => near_seg tn td q (fst s) (snd s)) ss || existsb (near_pt tn td q) ps.
(* within tol of the point set of g *)
Definition near_geom (tn td : Z) (g : geom) (q : hpt) : bool :=
  mem g q || near_lines tn td (geom_segs g) (lone_pts g) q.
(* farther than tol from every segment and isolated point of g *)
Definition far_geom (tn td : Z) (g : geom) (q : hpt) : bool :=
  negb (near_lines tn td (geom_segs g) (lone_pts g) q).
(* inside an area of g, farther than tol from its rings *)
Definition deep_geom (tn td : Z) (g : geom) (q : hpt) : bool :=
  existsb (fun a => location_eqb (loc_poly_h q a) Interior) (polys_of g)
  && negb (existsb (fun s => near_seg tn td q (fst s) (snd s)) (ring_segs g)).

(* ------------------------------------------------------------------ parameters of one evaluation *)
Record params := mkParams { p_tn : Z; p_td : Z; p_en : Z; p_ed : Z }.
Definition params_ok (p : params) : bool := (0 <=? p_tn p) && (0 <? p_td p) && (0 <? p_en p) && (0 <? p_ed p).

(* both ends of s within tol of ONE segment of ss *)
Definition seg_on_inputs (p : params) (ss : list seg) (s : seg) : bool :=
  existsb (fun t => near_seg (p_tn p) (p_td p) (hp (fst s)) (fst t) (snd t)
                    && near_seg (p_tn p) (p_td p) (hp (snd s)) (fst t) (snd t)) ss.
(* the segments of the arrangement: those of A and B, and the segments of R that do not run along (within tol of) one
   input segment — a result segment that hugs an input segment adds no face to the arrangement beyond the tolerance *)
Definition arr_segs (p : params) (A B R : geom) : list seg :=
  let inp := filter nondeg (geom_segs A ++ geom_segs B) in
  nodup_segs (map seg_norm (inp ++ filter (fun s => negb (seg_on_inputs p inp s)) (filter nondeg (geom_segs R)))).
(* ------------------------------------------------------------------ node parameters along a segment *)
Definition par := (Z * Z)%type.                  (* n / m, m > 0 *)
Definition par_lt (s t : par) : bool := fst s * snd t <? fst t * snd s.
Fixpoint par_insert (t : par) (l : list par) : list par :=
  match l with
  | [] => [t]
  | h :: r => if par_lt t h then t :: l else if par_lt h t then h :: par_insert t r else l
  end.
Definition par_sort (l : list par) : list par := fold_right par_insert [] l.
(* parameter of a grid point p of the segment ab, read off the longer axis *)
Definition par_of_pt (a b p : pt) : par :=
  let dx := fst b - fst a in let dy := snd b - snd a in
  if Z.abs dy <=? Z.abs dx
  then (if 0 <? dx then (fst p - fst a, dx) else (fst a - fst p, - dx))
  else (if 0 <? dy then (snd p - snd a, dy) else (snd a - snd p, - dy)).
(* parameters on ab of its common points with cd *)
Definition seg_pars (a b : pt) (t : seg) : list par :=
  let c := fst t in let d := snd t in
  match seg_int a b c d with
  | SNone => []
  | SProper _ => let o3 := orient c d a in let o4 := orient c d b in let w := o3 - o4 in
                 [if 0 <? w then (o3, w) else (- o3, - w)]
  | STouch p => [par_of_pt a b p]
  | SOverlap p q => [par_of_pt a b p; par_of_pt a b q]
  end.
(* a parameter of the closed segment: 0 <= n/m <= 1 (every parameter computed above is one; the filter makes that a fact
   that needs no geometry to be proved) *)
Definition par_ok (t : par) : bool := (0 <? snd t) && (0 <=? fst t) && (fst t <=? snd t).
Definition node_pars (a b : pt) (ss : list seg) (ps : list pt) : list par :=
  par_sort (filter par_ok ((0, 1) :: (1, 1) :: flat_map (seg_pars a b) ss
                           ++ flat_map (fun p => if on_seg p a b then [par_of_pt a b p] else []) ps)).
Fixpoint consec {X} (l : list X) : list (X * X) :=
  match l with
  | a :: t => match t with b :: _ => (a, b) :: consec t | [] => [] end
  | [] => []
  end.

(* ------------------------------------------------------------------ samples and sides *)
Definition DY_FUEL : nat := 80.
(* smallest power of two pw = 2^j (j >= 1, at most `fuel` doublings) with a k such that t1 < k / pw < t2 *)
Fixpoint dyadic (fuel : nat) (pw : Z) (t1 t2 : par) : option (Z * Z) :=
  match fuel with
  | O => None
  | S f => let k := (fst t1 * pw) / snd t1 + 1 in
           if k * snd t2 <? fst t2 * pw then Some (k, pw) else dyadic f (2 * pw) t1 t2
  end.
Definition sample_pt (a b : pt) (k pw : Z) : hpt :=
  (fst a * pw + k * (fst b - fst a), snd a * pw + k * (snd b - snd a), pw).
Definition seg_samples (a b : pt) (pars : list par) : list hpt :=
  flat_map (fun tt => match dyadic DY_FUEL 2 (fst tt) (snd tt) with
                      | Some (k, pw) => [sample_pt a b k pw]
                      | None => []
                      end) (consec pars).
(* the sample moved by +-eps (eps = en/ed) along x when the segment is steeper than 45 degrees, else along y *)
Definition steep (a b : pt) : bool := Z.abs (fst b - fst a) <=? Z.abs (snd b - snd a).
Definition side_pts (en ed : Z) (a b : pt) (m : hpt) : list hpt :=
  let '(x, y, w) := m in
  if steep a b
  then [(x * ed + en * w, y * ed, w * ed); (x * ed - en * w, y * ed, w * ed)]
  else [(x * ed, y * ed + en * w, w * ed); (x * ed, y * ed - en * w, w * ed)].

Definition samples_of (ss : list seg) (ps : list pt) : list (seg * hpt) :=
  flat_map (fun s => map (pair s) (seg_samples (fst s) (snd s) (node_pars (fst s) (snd s) ss ps))) ss.
Definition sample_witnesses (p : params) (A B R : geom) : list (seg * hpt) := samples_of (arr_segs p A B R) (arr_pts A B R).
Definition side_witnesses (p : params) (A B R : geom) : list hpt :=
  flat_map (fun sm => side_pts (p_en p) (p_ed p) (fst (fst sm)) (snd (fst sm)) (snd sm)) (sample_witnesses p A B R).

(* common points of the segments of A with the segments of B *)
Definition sres_pts (r : sres) : list hpt :=
  match r with SNone => [] | SProper q => [q] | STouch p => [hp p] | SOverlap p q => [hp p; hp q] end.
Definition cross_nodes (A B : geom) : list hpt :=
  flat_map (fun s => flat_map (fun t => sres_pts (seg_int (fst s) (snd s) (fst t) (snd t))) (geom_segs B)) (geom_segs A).
Definition low_witnesses (p : params) (A B R : geom) : list hpt :=
  map snd (sample_witnesses p A B R) ++ map hp (nodup_pts (coords_of A ++ coords_of B)) ++ cross_nodes A B.


(* ------------------------------------------------------------------ clause (ii), (ii') *)
Definition expected (o : ovop) (A B : geom) (q : hpt) : bool := boolop o (mem A q) (mem B q).
Definition far_inputs (p : params) (A B : geom) (q : hpt) : bool :=
  far_geom (p_tn p) (p_td p) A q && far_geom (p_tn p) (p_td p) B q.
Definition side_bad (p : params) (o : ovop) (A B R : geom) (q : hpt) : bool :=
  far_inputs p A B q && negb (Bool.eqb (mem R q) (expected o A B q)).
Definition bad_sides (p : params) (o : ovop) (A B R : geom) : list hpt :=
  filter (side_bad p o A B R) (side_witnesses p A B R).
(* q lies exactly on the closed segment ab *)
Definition hdet (a b : pt) (q : hpt) : Z :=
  let '(x, y, w) := q in (fst b - fst a) * (y - w * snd a) - (snd b - snd a) * (x - w * fst a).
Definition on_seg_hb (q : hpt) (a b : pt) : bool :=
  let '(x, y, w) := q in
  (hdet a b q =? 0) && between x (w * fst a) (w * fst b) && between y (w * snd a) (w * snd b).
(* every segment and isolated point of g either passes exactly through q or is farther than tol from it: the membership
   of q in g does not depend on perturbations of g below the tolerance *)
Definition stable_in (tn td : Z) (g : geom) (q : hpt) : bool :=
  forallb (fun s => on_seg_hb q (fst s) (snd s) || negb (near_seg tn td q (fst s) (snd s))) (geom_segs g)
  && forallb (fun c => on_seg_hb q c c || negb (near_pt tn td q c)) (lone_pts g).
Definition stable_inputs (p : params) (A B : geom) (q : hpt) : bool :=
  stable_in (p_tn p) (p_td p) A q && stable_in (p_tn p) (p_td p) B q.
Definition low_bad (p : params) (o : ovop) (A B R : geom) (q : hpt) : bool :=
  stable_inputs p A B q && expected o A B q && negb (near_geom (p_tn p) (p_td p) R q).
Definition bad_lows (p : params) (o : ovop) (A B R : geom) : list hpt :=
  filter (low_bad p o A B R) (low_witnesses p A B R).
(* (ii'') the converse on lower-dimension parts: a stable sample of an input sub-edge that is NOT in the Boolean combination
   (then the whole node-free sub-edge is not) has no LINEAR or POINT part of R within tol/2.  (Areas of R may contain it:
   results are closed; tol/2 leaves room for the rounding of result parts that belong to segments just beyond tol.) *)
Definition low_bad2 (p : params) (o : ovop) (A B R : geom) (q : hpt) : bool :=
  stable_inputs p A B q && negb (expected o A B q) && near_lines (p_tn p) (2 * p_td p) (line_segs R) (lone_pts R) q.
Definition bad_lows2 (p : params) (o : ovop) (A B R : geom) : list hpt :=
  filter (low_bad2 p o A B R) (map snd (sample_witnesses p A B R)).

(* ------------------------------------------------------------------ clause (iii) *)
Definition tol_member (p : params) (o : ovop) (A B : geom) (q : hpt) : bool :=
  let nA := near_geom (p_tn p) (p_td p) A q in let nB := near_geom (p_tn p) (p_td p) B q in
  let dA := deep_geom (p_tn p) (p_td p) A q in let dB := deep_geom (p_tn p) (p_td p) B q in
  match o with
  | OpInter => nA && nB
  | OpUnion => nA || nB
  | OpDiff => nA && negb dB
  | OpSym => (nA || nB) && negb (dA && dB)
  end.
Definition bad_low_segs (p : params) (A B R : geom) : list seg :=
  filter (fun s => negb (seg_on_inputs p (geom_segs A ++ geom_segs B) s)) (line_segs R).
Definition bad_low_pts (p : params) (o : ovop) (A B R : geom) : list pt :=
  filter (fun c => negb (near_lines (p_tn p) (p_td p) (geom_segs A ++ geom_segs B) (lone_pts A ++ lone_pts B) (hp c)))
         (lone_pts R)
  ++ filter (fun c => negb (tol_member p o A B (hp c))) (flat_map (fun l => l) (lines_of R) ++ points_of R)
  (* an isolated point of the result whose memberships are stable is in the Boolean combination exactly *)
  ++ filter (fun c => stable_inputs p A B (hp c) && negb (expected o A B (hp c))) (lone_pts R).

(* ------------------------------------------------------------------ clause (iv) *)
(* Geometry::getDimension of the declared type; a collection takes the maximum over its elements (-1 when it has none) *)
Definition is_atom (g : geom) : bool := match g with GPoint _ | GLine _ | GPoly _ _ => true | _ => false end.
Definition atom_rank (g : geom) : Z := match g with GPoly _ _ => 0 | GLine _ => 1 | GPoint _ => 2 | _ => 3 end.
Fixpoint ranks_sorted (l : list Z) : bool :=
  match l with a :: t => match t with b :: _ => (a <=? b) && ranks_sorted t | [] => true end | [] => true end.
(* elements grouped by dimension: areas, lines, points (OverlayUtil::createResultGeometry) or points, lines, areas
   (StructuredCollection::doUnaryUnion) *)
Definition ranks_grouped (l : list Z) : bool := ranks_sorted l || ranks_sorted (rev l).
(* what GeometryFactory::buildGeometry returns for a list of >= 1 non-empty atoms grouped by dimension *)
Definition built_shape (g : geom) : bool :=
  match g with
  | GPoint (Some _) => true
  | GLine (_ :: _) => true
  | GPoly (_ :: _) _ => true
  | GMPoint ps => (2 <=? Z.of_nat (length ps)) && forallb (fun p => match p with Some _ => true | None => false end) ps
  | GMLine ls => (2 <=? Z.of_nat (length ls)) && forallb nonempty ls
  | GMPoly ps => (2 <=? Z.of_nat (length ps)) && forallb (fun a => negb (poly_is_empty a)) ps
  | GColl gs => (2 <=? Z.of_nat (length gs)) && forallb is_atom gs && forallb (fun h => negb (is_empty h)) gs
                && ranks_grouped (map atom_rank gs)
                && negb (forallb (fun h => atom_rank h =? atom_rank (hd (GColl []) gs)) gs)
  | _ => false
  end.
(* OverlayUtil::createEmptyResult *)
Definition empty_shape (d : Z) (g : geom) : bool :=
  match g with
  | GPoint None => d =? 0
  | GLine [] => d =? 1
  | GPoly [] [] => d =? 2
  | GColl [] => d =? -1
  | _ => false
  end.
Definition env_of (g : geom) : option (Z * Z * Z * Z) :=
  match coords_of g with
  | [] => None
  | c :: t => Some (fold_left (fun e q => let '(x0, x1, y0, y1) := e in
                                          (Z.min x0 (fst q), Z.max x1 (fst q), Z.min y0 (snd q), Z.max y1 (snd q)))
                              t (fst c, fst c, snd c, snd c))
  end.
Definition env_disjoint (a b : option (Z * Z * Z * Z)) : bool :=
  match a, b with
  | Some (ax0, ax1, ay0, ay1), Some (bx0, bx1, by0, by1) => negb ((bx0 <=? ax1) && (ax0 <=? bx1) && (by0 <=? ay1) && (ay0 <=? by1))
  | _, _ => true
  end.
Definition shape_ok (o : ovop) (A B R : geom) : bool :=
  let rd := result_dim o (dimension A) (dimension B) in
  (if is_empty R then empty_shape rd R else built_shape R && (dimension R <=? rd))
  && implb (empty_shortcut o (is_empty A) (is_empty B) (env_disjoint (env_of A) (env_of B))) (is_empty R).

(* ------------------------------------------------------------------ the checker *)
(* the unary unions (UnaryUnion, UnionCascaded, DisjointSubsetUnion, CoverageUnion): the union of the elements of G.
   Their documentation promises no particular collection type: only emptiness and dimension are required *)
Definition shape_unary (G R : geom) : bool :=
  implb (is_empty G) (is_empty R) && (dimension R <=? dimension G).

Record verdict := mkVerdict {
  v_valid : bool; v_shape : bool; v_sides : list hpt; v_lows : list hpt; v_lows2 : list hpt; v_segs : list seg; v_pts : list pt;
  v_nside : Z; v_nfar : Z; v_nlow : Z; v_nexp : Z }.
Definition count {X} (f : X -> bool) (l : list X) : Z := Z.of_nat (length (filter f l)).
Definition overlay_verdict (unary : bool) (p : params) (o : ovop) (A B R : geom) : verdict :=
  let sw := side_witnesses p A B R in
  let lw := low_witnesses p A B R in
  mkVerdict (valid_geom R) (if unary then shape_unary A R else shape_ok o A B R)
            (filter (side_bad p o A B R) sw) (filter (low_bad p o A B R) lw) (bad_lows2 p o A B R)
            (bad_low_segs p A B R) (bad_low_pts p o A B R)
            (Z.of_nat (length sw)) (count (far_inputs p A B) sw) (Z.of_nat (length lw))
            (count (fun q => stable_inputs p A B q && expected o A B q) lw).
Definition overlay_check_with (shape : bool) (p : params) (o : ovop) (A B R : geom) : bool :=
  params_ok p && valid_geom R && shape
  && isnil (bad_sides p o A B R) && isnil (bad_lows p o A B R) && isnil (bad_lows2 p o A B R)
  && isnil (bad_low_segs p A B R) && isnil (bad_low_pts p o A B R).
Definition overlay_check (p : params) (o : ovop) (A B R : geom) : bool :=
  overlay_check_with (shape_ok o A B R) p o A B R.
Definition unary_check (p : params) (G R : geom) : bool :=
  overlay_check_with (shape_unary G R) p OpUnion G (GColl []) R.
(* the membership clauses alone (ClipByRect: validity and the result-type rules are not promised by its documentation) *)
Definition membership_check (p : params) (o : ovop) (A B R : geom) : bool :=
  params_ok p && isnil (bad_sides p o A B R) && isnil (bad_low_segs p A B R).

(* ------------------------------------------------------------------ clause (v): areas *)
Definition abs_area2 (r : seq) : Z := Z.abs (area2 r).
(* twice the area of a polygon with well nested rings: |shell| - sum |holes| *)
Definition poly_area2 (a : poly) : Z := abs_area2 (fst a) - fold_right (fun h acc => abs_area2 h + acc) 0 (snd a).
Definition geom_area2 (g : geom) : Z := fold_right (fun a acc => poly_area2 a + acc) 0 (polys_of g).
(* L1 length of the rings: an upper bound of the perimeter *)
Definition seg_len1 (s : seg) : Z := Z.abs (fst (snd s) - fst (fst s)) + Z.abs (snd (snd s) - snd (fst s)).
Definition geom_perim1 (g : geom) : Z := fold_right (fun s acc => seg_len1 s + acc) 0 (ring_segs g).
(* |x| <= k * 4 * tol * P  with x in twice-area units, tol = tn/td, P = L1 perimeter of both inputs:
   each result area may deviate by tol * P (twice-area units: 2 tol P), doubled for slack *)
Definition within_area_tol (p : params) (P k x : Z) : bool := Z.abs x * p_td p <=? k * 4 * p_tn p * P.
(* inclusion - exclusion and its companions; I U D S E = A∩B, A∪B, A−B, AΔB, B−A *)
Definition area_laws (p : params) (A B I U D S E : geom) : bool :=
  let P := geom_perim1 A + geom_perim1 B in
  let a := geom_area2 A in let b := geom_area2 B in
  let i := geom_area2 I in let u := geom_area2 U in let d := geom_area2 D in let s := geom_area2 S in let e := geom_area2 E in
  within_area_tol p P 2 (u + i - a - b)
  && within_area_tol p P 2 (d - (a - i))
  && within_area_tol p P 2 (e - (b - i))
  && within_area_tol p P 2 (s - (u - i))
  && within_area_tol p P 3 (s - (d + e)).
