(* C03/OverlaySort — the node parameters of a segment come out strictly increasing: consecutive ones bound a non-degenerate
   sub-edge, and the sample taken by the witness construction lies strictly between them. *)
From Coq Require Import ZArith List Bool Lia Sorting.Sorted.
From GeosV.Lib Require Import GeomDefs LocateDefs ValidDefs.
From GeosV.C03 Require Import OverlayDefs OverlayGeom OverlayProofs.
Import ListNotations.
Local Open Scope Z_scope.

Definition plt (s t : par) : Prop := par_lt s t = true.

Lemma par_insert_hd : forall t l h, Sorted plt l -> HdRel plt h l -> plt h t -> HdRel plt h (par_insert t l).
Proof.
  intros t l h Hs Hh Hht. destruct l as [|x r]; cbn [par_insert]; [constructor; exact Hht|].
  destruct (par_lt t x) eqn:E1; [constructor; exact Hht|].
  destruct (par_lt x t) eqn:E2; [constructor; inversion Hh; assumption|exact Hh].
Qed.
Lemma par_insert_sorted : forall t l, Sorted plt l -> Sorted plt (par_insert t l).
Proof.
  intros t l; induction l as [|h r IH]; intros Hs; cbn [par_insert]; [repeat constructor|].
  inversion Hs as [|? ? Hr Hh]; subst.
  destruct (par_lt t h) eqn:E1; [constructor; [exact Hs|constructor; exact E1]|].
  destruct (par_lt h t) eqn:E2; [|exact Hs].
  constructor; [apply IH; exact Hr|]. apply par_insert_hd; assumption.
Qed.
Theorem par_sort_sorted : forall l, Sorted plt (par_sort l).
Proof. induction l as [|t l IH]; cbn [par_sort fold_right]; [constructor|apply par_insert_sorted; exact IH]. Qed.

Lemma consec_sorted : forall l s t, Sorted plt l -> In (s, t) (consec l) -> plt s t.
Proof.
  induction l as [|x l IH]; intros s t Hs H; [destruct H|].
  destruct l as [|y l']; [destruct H|].
  change (consec (x :: y :: l')) with ((x, y) :: consec (y :: l')) in H.
  inversion Hs as [|? ? Hr Hh]; subst.
  destruct H as [E|H]; [inversion E; subst; inversion Hh; assumption|apply IH; assumption].
Qed.

(* every sub-edge of the arrangement is non-degenerate: t1 < t2, both in [0,1] *)
Theorem subedges_increasing : forall a b ss ps t1 t2,
  In (t1, t2) (consec (node_pars a b ss ps)) ->
  fst t1 * snd t2 < fst t2 * snd t1 /\ 0 < snd t1 /\ 0 <= fst t1 <= snd t1 /\ 0 < snd t2 /\ 0 <= fst t2 <= snd t2.
Proof.
  intros a b ss ps t1 t2 H.
  pose proof (consec_sorted _ _ _ (par_sort_sorted _) H) as Hlt. unfold plt, par_lt in Hlt. apply Z.ltb_lt in Hlt.
  apply consec_in in H. destruct H as [H1 H2]. apply node_pars_ok in H1. apply node_pars_ok in H2. lia.
Qed.
