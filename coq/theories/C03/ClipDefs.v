(* C03/ClipDefs — executable model of RingClipper::clipToBoxEdge / clip (src/operation/overlayng/RingClipper.cpp) built
   AROUND the generated units: the inside test and the intersection point are the GENERATED m_isInsideEdge_2 /
   m_intersection_4 (units RC_isInsideEdge, RC_intersection), only the loop over the CoordinateSequence and the appends are written by hand:
     p0 = last point; for each p1: inside(p1) ? (inside(p0) ? [p1] : [I(p0,p1); p1]) : (inside(p0) ? [I(p0,p1)] : []);
     every append is CoordinateSequence::add(c, allowRepeated = false): a point equals2D to the current last is dropped;
     closeRing: append the first point unless the last equals2D it.
   clip: the four passes BOX_BOTTOM, BOX_RIGHT, BOX_TOP, BOX_LEFT, stopping at an empty result, closing in the last.
   Definitions only.  Rationals (GenPreludeClip). *)
From Coq Require Import ZArith QArith List Bool.
From GeosV Require Import C03.GenPreludeClip Lib.KernelDefs.
From GeosV.Gen Require Import RC_isInsideEdge RC_intersection ENB_computeDepthDelta.
Import ListNotations.
Local Open Scope Q_scope.

Definition qorigin : rpt := (0, 0).
Definition inside (st : renv) (e : Z) (p : rpt) : bool := m_isInsideEdge_2 st p e.
Definition xpt (st : renv) (e : Z) (a b : rpt) : rpt := m_intersection_4 st a b e qorigin.

Definition emit (st : renv) (e : Z) (p0 p1 : rpt) : list rpt :=
  if inside st e p1 then (if inside st e p0 then [p1] else [xpt st e p0 p1; p1])
  else if inside st e p0 then [xpt st e p0 p1] else [].

(* the sequence of add() calls of the loop, in order *)
Fixpoint clip_raw (st : renv) (e : Z) (p0 : rpt) (pts : list rpt) : list rpt :=
  match pts with [] => [] | p1 :: r => emit st e p0 p1 ++ clip_raw st e p1 r end.

Definition equals2D (a b : rpt) : bool := Qeq_bool (fst a) (fst b) && Qeq_bool (snd a) (snd b).
(* add(c, false) on the reversed sequence *)
Definition push (acc : list rpt) (c : rpt) : list rpt :=
  match acc with l :: _ => if equals2D l c then acc else c :: acc | [] => [c] end.
Definition dedup (l : list rpt) : list rpt := rev (fold_left push l []).

Definition close_ring (out : list rpt) : list rpt :=
  match out with [] => [] | s :: _ => if equals2D s (last out s) then out else out ++ [s] end.

Definition clipToBoxEdge (st : renv) (pts : list rpt) (e : Z) (closeRing : bool) : list rpt :=
  let out := dedup (clip_raw st e (last pts qorigin) pts) in
  if closeRing then close_ring out else out.

Fixpoint clip_edges (st : renv) (cs : list rpt) (es : list Z) : list rpt :=
  match es with
  | [] => cs
  | e :: r => match clipToBoxEdge st cs e (Z.eqb e 3) with [] => [] | p => clip_edges st p r end
  end.
Definition clip (st : renv) (cs : list rpt) : list rpt := clip_edges st cs [0; 1; 2; 3]%Z.

(* ---- geometry vocabulary of the theorems *)
Definition box (x0 x1 y0 y1 : Q) : renv := mkRenv (mkQenv false x0 x1 y0 y1).
(* closed half-plane of box edge e (any other code reads as BOX_LEFT, as the `default:` label does) *)
Definition closed_side (st : renv) (e : Z) (p : rpt) : Prop :=
  let b := f_clipEnv st in
  if Z.eqb e 0 then e_miny b <= snd p else if Z.eqb e 1 then fst p <= e_maxx b
  else if Z.eqb e 2 then snd p <= e_maxy b else e_minx b <= fst p.
Definition open_side (st : renv) (e : Z) (p : rpt) : Prop :=
  let b := f_clipEnv st in
  if Z.eqb e 0 then e_miny b < snd p else if Z.eqb e 1 then fst p < e_maxx b
  else if Z.eqb e 2 then snd p < e_maxy b else e_minx b < fst p.
Definition on_edge_line (st : renv) (e : Z) (p : rpt) : Prop :=
  let b := f_clipEnv st in
  if Z.eqb e 0 then snd p == e_miny b else if Z.eqb e 1 then fst p == e_maxx b
  else if Z.eqb e 2 then snd p == e_maxy b else fst p == e_minx b.
Definition in_closed_box (st : renv) (p : rpt) : Prop :=
  let b := f_clipEnv st in e_minx b <= fst p /\ fst p <= e_maxx b /\ e_miny b <= snd p /\ snd p <= e_maxy b.
Definition in_open_box (st : renv) (p : rpt) : Prop :=
  let b := f_clipEnv st in e_minx b < fst p /\ fst p < e_maxx b /\ e_miny b < snd p /\ snd p < e_maxy b.
(* orientation determinant of q against a -> b (positive: q on the left) *)
Definition rdet (a b q : rpt) : Q := (fst b - fst a) * (snd q - snd a) - (snd b - snd a) * (fst q - fst a).
(* no two cyclically consecutive entries equal (equals2D) *)
Fixpoint norep_from (p : rpt) (l : list rpt) : Prop :=
  match l with [] => True | c :: r => equals2D p c = false /\ norep_from c r end.
Definition norep (l : list rpt) : Prop := match l with [] => True | c :: r => norep_from c r end.

(* ---- even-odd crossing parity of the ray from q towards +x (RayCrossingCounter's rule for a point not on the ring):
   a segment counts when exactly one end is strictly above q.y and q is strictly on the west side of it *)
Definition above (q p : rpt) : bool := negb (Qle_bool (snd p) (snd q)).
Definition qpos (x : Q) : bool := negb (Qle_bool x 0).
Definition crosses (q a b : rpt) : bool :=
  if above q a && negb (above q b) then qpos (- rdet a b q)
  else if above q b && negb (above q a) then qpos (rdet a b q) else false.
(* parity over the consecutive pairs of an open path / of the cyclic sequence (last -> first, then along the list), which
   is how clipToBoxEdge itself reads its input *)
Fixpoint path_parity (q p0 : rpt) (l : list rpt) : bool :=
  match l with [] => false | p1 :: r => xorb (crosses q p0 p1) (path_parity q p1 r) end.
Definition ring_parity (q : rpt) (l : list rpt) : bool := path_parity q (last l qorigin) l.

(* ---- the depth delta table and the bridge to the C07 models of orientation (grid rings) *)
Definition depth_delta_table (isHole isCCW : bool) : Z := if isHole then (if isCCW then 1 else -1)%Z else (if isCCW then -1 else 1)%Z.
Definition q_is_int (x : Q) : bool := Z.eqb (Zpos (Qden (Qred x))) 1.
Definition zpt_of (p : rpt) : pt := (Qnum (Qred (fst p)), Qnum (Qred (snd p))).
Definition rpt_of (p : pt) : rpt := (inject_Z (fst p), inject_Z (snd p)).
Definition all_int (l : list rpt) : bool := forallb (fun p => q_is_int (fst p) && q_is_int (snd p)) l.
