(* C03/OverlayGeom — what the pieces of the witness construction and of the distance tests mean, over exact rationals
   (homogeneous integer points (x, y, w), w > 0, standing for (x/w, y/w)). *)
From Coq Require Import ZArith List Bool Lia.
From GeosV.Lib Require Import GeomDefs LocateDefs ValidDefs.
From GeosV.C03 Require Import OverlayDefs.
Import ListNotations.
Local Open Scope Z_scope.

(* q is the point of parameter n/m (0 <= n <= m) of the closed segment ab *)
Definition at_param (q : hpt) (a b : pt) (n m : Z) : Prop :=
  let '(x, y, w) := q in
  0 < m /\ 0 <= n <= m /\ m * x = w * ((m - n) * fst a + n * fst b) /\ m * y = w * ((m - n) * snd a + n * snd b).
(* squared distance between the rational points q and c, cross-multiplied:  |q - c|^2 <= (tn/td)^2 *)
Definition within (tn td : Z) (q c : hpt) : Prop :=
  let '(x, y, w) := q in let '(cx, cy, cw) := c in
  ((x * cw - cx * w) * (x * cw - cx * w) + (y * cw - cy * w) * (y * cw - cy * w)) * (td * td) <= (tn * tn) * ((w * cw) * (w * cw)).

(* ------------------------------------------------------------------ dyadic sample of a sub-edge *)
Lemma dyadic_spec : forall fuel pw t1 t2 k pw',
  0 < pw -> 0 <= fst t1 -> 0 < snd t1 ->
  dyadic fuel pw t1 t2 = Some (k, pw') ->
  0 < pw' /\ fst t1 * pw' < k * snd t1 /\ k * snd t2 < fst t2 * pw'.
Proof.
  induction fuel as [|f IH]; intros pw t1 t2 k pw' Hpw Hn Hm H; [discriminate|].
  cbn [dyadic] in H; cbv zeta in H.
  destruct (Z.ltb_spec (((fst t1 * pw) / snd t1 + 1) * snd t2) (fst t2 * pw)) as [Hlt|Hge].
  - inversion H; subst k pw'. split; [assumption|]. split; [|assumption].
    pose proof (Z.div_mod (fst t1 * pw) (snd t1) ltac:(lia)) as Hd.
    pose proof (Z.mod_pos_bound (fst t1 * pw) (snd t1) Hm) as Hb. nia.
  - apply (IH (2 * pw)); try assumption; lia.
Qed.

(* the sample is a point of the segment, strictly inside the sub-edge ]t1, t2[ *)
Theorem sample_inside_subedge : forall a b t1 t2 k pw,
  0 <= fst t1 -> 0 < snd t1 -> 0 < snd t2 -> fst t2 <= snd t2 ->
  dyadic DY_FUEL 2 t1 t2 = Some (k, pw) ->
  at_param (sample_pt a b k pw) a b k pw
  /\ 0 < k < pw /\ fst t1 * pw < k * snd t1 /\ k * snd t2 < fst t2 * pw.
Proof.
  intros a b t1 t2 k pw Hn1 Hm1 Hm2 Hle H.
  destruct (dyadic_spec _ _ _ _ _ _ ltac:(lia) Hn1 Hm1 H) as (Hpw & H1 & H2).
  assert (0 < k) by nia. assert (k < pw) by nia.
  split; [|repeat split; lia].
  unfold at_param, sample_pt. repeat split; try lia; ring.
Qed.

(* ------------------------------------------------------------------ the two sides of a sample *)
Lemma abs_sq : forall z, Z.abs z * Z.abs z = z * z.
Proof. intro z. destruct (Z.abs_spec z) as [[_ ->]|[_ ->]]; ring. Qed.

(* the sign of hdet a b q tells the side of the line ab on which q lies (w > 0) *)
Theorem side_pts_opposite : forall en ed a b x y w,
  0 < en -> 0 < ed -> 0 < w -> pt_eqb a b = false -> hdet a b (x, y, w) = 0 ->
  exists q1 q2, side_pts en ed a b (x, y, w) = [q1; q2]
    /\ snd q1 = w * ed /\ snd q2 = w * ed
    /\ ((0 < hdet a b q1 /\ hdet a b q2 < 0) \/ (hdet a b q1 < 0 /\ 0 < hdet a b q2))
    (* at distance >= eps / sqrt 2 from the line:  2 hdet^2 / (|b-a|^2 W^2) >= (en/ed)^2 *)
    /\ (let len := (fst b - fst a) * (fst b - fst a) + (snd b - snd a) * (snd b - snd a) in
        en * en * (len * ((w * ed) * (w * ed))) <= 2 * (hdet a b q1 * hdet a b q1) * (ed * ed)
        /\ en * en * (len * ((w * ed) * (w * ed))) <= 2 * (hdet a b q2 * hdet a b q2) * (ed * ed)).
Proof.
  intros en ed [ax ay] [bx by_] x y w Hen Hed Hw Hab H0.
  unfold pt_eqb in Hab; cbn [fst snd] in Hab.
  unfold side_pts, steep, hdet in *; cbn [fst snd] in *.
  set (dx := bx - ax) in *. set (dy := by_ - ay) in *.
  assert (Hnz : dx <> 0 \/ dy <> 0).
  { destruct (Z.eqb_spec ax bx), (Z.eqb_spec ay by_); cbn in Hab; try discriminate; subst dx dy; lia. }
  pose proof (abs_sq dx) as Sx. pose proof (abs_sq dy) as Sy.
  destruct (Z.leb_spec (Z.abs dx) (Z.abs dy)) as [Hs|Hs].
  - (* steep: moved along x; hdet = -/+ dy en w *)
    assert (dy <> 0) by lia.
    eexists; eexists; split; [reflexivity|]. cbn [snd].
    assert (E1 : dx * (y * ed - w * ed * ay) - dy * (x * ed + en * w - w * ed * ax) = - (dy * en * w)) by nia.
    assert (E2 : dx * (y * ed - w * ed * ay) - dy * (x * ed - en * w - w * ed * ax) = dy * en * w) by nia.
    rewrite E1, E2. split; [reflexivity|]. split; [reflexivity|]. split; [nia|].
    assert (dx * dx <= dy * dy) by nia. split; nia.
  - assert (dx <> 0) by lia.
    eexists; eexists; split; [reflexivity|]. cbn [snd].
    assert (E1 : dx * (y * ed + en * w - w * ed * ay) - dy * (x * ed - w * ed * ax) = dx * en * w) by nia.
    assert (E2 : dx * (y * ed - en * w - w * ed * ay) - dy * (x * ed - w * ed * ax) = - (dx * en * w)) by nia.
    rewrite E1, E2. split; [reflexivity|]. split; [reflexivity|]. split; [nia|].
    assert (dy * dy <= dx * dx) by nia. split; nia.
Qed.

(* ------------------------------------------------------------------ the distance test *)
(* near_seg = true: some point of the closed segment is within tol of q *)
Theorem near_seg_sound : forall tn td x y w a b,
  0 < w -> 0 <= tn -> 0 < td ->
  near_seg tn td (x, y, w) a b = true ->
  exists c n m, at_param c a b n m /\ 0 < snd c /\ within tn td (x, y, w) c.
Proof.
  intros tn td x y w [ax ay] [bx by_] Hw Htn Htd H.
  unfold near_seg in H; cbn [fst snd] in H.
  set (ux := bx - ax) in *. set (uy := by_ - ay) in *.
  set (vx := x - w * ax) in *. set (vy := y - w * ay) in *.
  destruct (Z.leb_spec (ux * vx + uy * vy) 0) as [Hd|Hd].
  - (* nearest point: a *)
    apply Z.leb_le in H.
    exists (ax, ay, 1), 0, 1. split; [unfold at_param; cbn; repeat split; lia|]. split; [cbn; lia|].
    unfold within. subst vx vy. nia.
  - destruct (Z.leb_spec (w * (ux * ux + uy * uy)) (ux * vx + uy * vy)) as [He|He].
    + apply Z.leb_le in H.
      exists (bx, by_, 1), 1, 1. split; [unfold at_param; cbn; repeat split; lia|]. split; [cbn; lia|].
      unfold within. nia.
    + (* the foot of the perpendicular: parameter dot / (w len) *)
      apply Z.leb_le in H.
      set (dot := ux * vx + uy * vy) in *. set (len := ux * ux + uy * uy) in *.
      assert (Hlen : 0 < len) by nia.
      exists (w * len * ax + dot * ux, w * len * ay + dot * uy, w * len), dot, (w * len).
      split; [unfold at_param; cbn [fst snd]; subst ux uy; repeat split; try nia; ring|].
      split; [cbn; nia|].
      unfold within.
      set (cr := ux * vy - uy * vx) in *.
      (* q - foot, cross-multiplied, is (w/len-free) proportional to the normal: Lagrange's identity *)
      assert (Ex : x * (w * len) - (w * len * ax + dot * ux) * w = w * (len * vx - dot * ux)) by (subst vx; ring).
      assert (Ey : y * (w * len) - (w * len * ay + dot * uy) * w = w * (len * vy - dot * uy)) by (subst vy; ring).
      rewrite Ex, Ey.
      assert (L : (len * vx - dot * ux) * (len * vx - dot * ux) + (len * vy - dot * uy) * (len * vy - dot * uy) = len * (cr * cr))
        by (subst len dot cr; ring).
      replace ((w * (len * vx - dot * ux)) * (w * (len * vx - dot * ux)) + (w * (len * vy - dot * uy)) * (w * (len * vy - dot * uy)))
        with (w * w * (len * (cr * cr))) by (rewrite <- L; ring).
      replace (tn * tn * (w * (w * len) * (w * (w * len)))) with ((w * w * len) * (tn * tn * (w * w * len))) by ring.
      replace (w * w * (len * (cr * cr)) * (td * td)) with ((w * w * len) * (cr * cr * (td * td))) by ring.
      apply Z.mul_le_mono_nonneg_l; [nia|]. nia.
Qed.
