(* C03/OverlayGeom — what the pieces of the witness construction and of the distance tests mean, over exact rationals
   (homogeneous integer points (x, y, w), w > 0, standing for (x/w, y/w)). *)
From Coq Require Import ZArith List Bool Lia.
From GeosV.Lib Require Import GeomDefs LocateDefs ValidDefs.
From GeosV.C03 Require Import OverlayDefs.
Import ListNotations.
Local Open Scope Z_scope.

(* q is the point of parameter n/m (0 <= n <= m) of the closed segment ab *)
Definition at_param (q : hpt) (a b : pt) (n m : Z) : Prop :=
  let '(x, y, w) := q in
  0 < m /\ 0 <= n <= m /\ m * x = w * ((m - n) * fst a + n * fst b) /\ m * y = w * ((m - n) * snd a + n * snd b).
(* squared distance between the rational points q and c, cross-multiplied:  |q - c|^2 <= (tn/td)^2 *)
Definition within (tn td : Z) (q c : hpt) : Prop :=
  let '(x, y, w) := q in let '(cx, cy, cw) := c in
  ((x * cw - cx * w) * (x * cw - cx * w) + (y * cw - cy * w) * (y * cw - cy * w)) * (td * td) <= (tn * tn) * ((w * cw) * (w * cw)).

(* ------------------------------------------------------------------ dyadic sample of a sub-edge *)
Lemma dyadic_spec : forall fuel pw t1 t2 k pw',
  0 < pw -> 0 <= fst t1 -> 0 < snd t1 ->
  dyadic fuel pw t1 t2 = Some (k, pw') ->
  0 < pw' /\ fst t1 * pw' < k * snd t1 /\ k * snd t2 < fst t2 * pw'.
Proof.
  induction fuel as [|f IH]; intros pw t1 t2 k pw' Hpw Hn Hm H; [discriminate|].
  cbn [dyadic] in H; cbv zeta in H.
  destruct (Z.ltb_spec (((fst t1 * pw) / snd t1 + 1) * snd t2) (fst t2 * pw)) as [Hlt|Hge].
  - inversion H; subst k pw'. split; [assumption|]. split; [|assumption].
    pose proof (Z.div_mod (fst t1 * pw) (snd t1) ltac:(lia)) as Hd.
    pose proof (Z.mod_pos_bound (fst t1 * pw) (snd t1) Hm) as Hb.
    set (q := fst t1 * pw / snd t1) in *. set (r := (fst t1 * pw) mod snd t1) in *.
    replace ((q + 1) * snd t1) with (snd t1 * q + snd t1) by ring. lia.
  - clear Hge. apply (IH (2 * pw)); try assumption; lia.
Qed.

(* the sample is a point of the segment, strictly inside the sub-edge ]t1, t2[ *)
Theorem sample_inside_subedge : forall a b t1 t2 k pw,
  0 <= fst t1 -> 0 < snd t1 -> 0 < snd t2 -> fst t2 <= snd t2 ->
  dyadic DY_FUEL 2 t1 t2 = Some (k, pw) ->
  at_param (sample_pt a b k pw) a b k pw
  /\ 0 < k < pw /\ fst t1 * pw < k * snd t1 /\ k * snd t2 < fst t2 * pw.
Proof.
  intros a b t1 t2 k pw Hn1 Hm1 Hm2 Hle H.
  destruct (dyadic_spec DY_FUEL 2 t1 t2 k pw ltac:(lia) Hn1 Hm1 H) as (Hpw & H1 & H2).
  assert (0 < k) by nia. assert (k < pw) by nia.
  split; [|repeat split; lia].
  unfold at_param, sample_pt. repeat split; try lia; ring.
Qed.

(* ------------------------------------------------------------------ the two sides of a sample *)
Lemma abs_sq : forall z, Z.abs z * Z.abs z = z * z.
Proof. intro z. destruct (Z.abs_spec z) as [[_ ->]|[_ ->]]; ring. Qed.

(* the sign of hdet a b q tells the side of the line ab on which q lies (w > 0) *)
Theorem side_pts_opposite : forall en ed a b x y w,
  0 < en -> 0 < ed -> 0 < w -> pt_eqb a b = false -> hdet a b (x, y, w) = 0 ->
  exists q1 q2, side_pts en ed a b (x, y, w) = [q1; q2]
    /\ snd q1 = w * ed /\ snd q2 = w * ed
    /\ ((0 < hdet a b q1 /\ hdet a b q2 < 0) \/ (hdet a b q1 < 0 /\ 0 < hdet a b q2))
    (* at distance >= eps / sqrt 2 from the line:  2 hdet^2 / (|b-a|^2 W^2) >= (en/ed)^2 *)
    /\ (let len := (fst b - fst a) * (fst b - fst a) + (snd b - snd a) * (snd b - snd a) in
        en * en * (len * ((w * ed) * (w * ed))) <= 2 * (hdet a b q1 * hdet a b q1) * (ed * ed)
        /\ en * en * (len * ((w * ed) * (w * ed))) <= 2 * (hdet a b q2 * hdet a b q2) * (ed * ed)).
Proof.
  intros en ed [ax ay] [bx by_] x y w Hen Hed Hw Hab H0.
  unfold pt_eqb in Hab; cbn [fst snd] in Hab.
  unfold side_pts, steep, hdet in *; cbn [fst snd] in *.
  set (dx := bx - ax) in *. set (dy := by_ - ay) in *.
  assert (Hnz : dx <> 0 \/ dy <> 0).
  { destruct (Z.eqb_spec ax bx), (Z.eqb_spec ay by_); cbn in Hab; try discriminate; subst dx dy; lia. }
  pose proof (abs_sq dx) as Sx. pose proof (abs_sq dy) as Sy.
  destruct (Z.leb_spec (Z.abs dx) (Z.abs dy)) as [Hs|Hs].
  - (* steep: moved along x; hdet = -/+ dy en w *)
    assert (dy <> 0) by lia.
    eexists; eexists; split; [reflexivity|]. cbn [snd].
    assert (E1 : dx * (y * ed - w * ed * ay) - dy * (x * ed + en * w - w * ed * ax) = - (dy * en * w)) by nia.
    assert (E2 : dx * (y * ed - w * ed * ay) - dy * (x * ed - en * w - w * ed * ax) = dy * en * w) by nia.
    rewrite E1, E2. split; [reflexivity|]. split; [reflexivity|]. split; [nia|].
    assert (dx * dx <= dy * dy) by nia. split; nia.
  - assert (dx <> 0) by lia.
    eexists; eexists; split; [reflexivity|]. cbn [snd].
    assert (E1 : dx * (y * ed + en * w - w * ed * ay) - dy * (x * ed - w * ed * ax) = dx * en * w) by nia.
    assert (E2 : dx * (y * ed - en * w - w * ed * ay) - dy * (x * ed - w * ed * ax) = - (dx * en * w)) by nia.
    rewrite E1, E2. split; [reflexivity|]. split; [reflexivity|]. split; [nia|].
    assert (dy * dy <= dx * dx) by nia. split; nia.
Qed.

(* ------------------------------------------------------------------ the distance test *)
(* near_seg = true: some point of the closed segment is within tol of q *)
Theorem near_seg_sound : forall tn td x y w a b,
  0 < w -> 0 <= tn -> 0 < td ->
  near_seg tn td (x, y, w) a b = true ->
  exists c n m, at_param c a b n m /\ 0 < snd c /\ within tn td (x, y, w) c.
Proof.
  intros tn td x y w [ax ay] [bx by_] Hw Htn Htd H.
  unfold near_seg in H; cbn [fst snd] in H.
  set (ux := bx - ax) in *. set (uy := by_ - ay) in *.
  set (vx := x - w * ax) in *. set (vy := y - w * ay) in *.
  destruct (Z.leb_spec (ux * vx + uy * vy) 0) as [Hd|Hd].
  - (* nearest point: a *)
    apply Z.leb_le in H.
    exists (ax, ay, 1), 0, 1. split; [unfold at_param; cbn [fst snd]; repeat split; try lia; ring|]. split; [cbn [snd]; lia|].
    unfold within.
    replace (x * 1 - ax * w) with vx by (subst vx; ring). replace (y * 1 - ay * w) with vy by (subst vy; ring).
    replace (w * 1 * (w * 1)) with (w * w) by ring. exact H.
  - destruct (Z.leb_spec (w * (ux * ux + uy * uy)) (ux * vx + uy * vy)) as [He|He].
    + apply Z.leb_le in H.
      exists (bx, by_, 1), 1, 1. split; [unfold at_param; cbn [fst snd]; repeat split; try lia; ring|]. split; [cbn [snd]; lia|].
      unfold within.
      replace (x * 1 - bx * w) with (x - w * bx) by ring. replace (y * 1 - by_ * w) with (y - w * by_) by ring.
      replace (w * 1 * (w * 1)) with (w * w) by ring. exact H.
    + (* the foot of the perpendicular: parameter dot / (w len) *)
      apply Z.leb_le in H.
      set (dot := ux * vx + uy * vy) in *. set (len := ux * ux + uy * uy) in *.
      assert (Hlen : 0 < len).
      { assert (0 <= ux * ux) by apply Z.square_nonneg. assert (0 <= uy * uy) by apply Z.square_nonneg.
        destruct (Z.eq_dec len 0) as [E|E]; [|subst len; lia]. rewrite E in He. lia. }
      assert (Hwl : 0 < w * len) by (apply Z.mul_pos_pos; assumption).
      exists (w * len * ax + dot * ux, w * len * ay + dot * uy, w * len), dot, (w * len).
      split; [unfold at_param; cbn [fst snd]; subst ux uy; repeat split; try lia; ring|].
      split; [cbn [snd]; exact Hwl|].
      unfold within.
      set (cr := ux * vy - uy * vx) in *.
      (* q - foot, cross-multiplied, is proportional to the normal: Lagrange's identity *)
      assert (Ex : x * (w * len) - (w * len * ax + dot * ux) * w = w * (len * vx - dot * ux)) by (subst vx; ring).
      assert (Ey : y * (w * len) - (w * len * ay + dot * uy) * w = w * (len * vy - dot * uy)) by (subst vy; ring).
      rewrite Ex, Ey.
      assert (L : (len * vx - dot * ux) * (len * vx - dot * ux) + (len * vy - dot * uy) * (len * vy - dot * uy) = len * (cr * cr))
        by (subst len dot cr; ring).
      replace ((w * (len * vx - dot * ux)) * (w * (len * vx - dot * ux)) + (w * (len * vy - dot * uy)) * (w * (len * vy - dot * uy)))
        with (w * w * (len * (cr * cr))) by (rewrite <- L; ring).
      replace (tn * tn * (w * (w * len) * (w * (w * len)))) with ((w * w * len) * (tn * tn * (w * w * len))) by ring.
      replace (w * w * (len * (cr * cr)) * (td * td)) with ((w * w * len) * (cr * cr * (td * td))) by ring.
      apply Z.mul_le_mono_nonneg_l.
      * apply Z.mul_nonneg_nonneg; [apply Z.square_nonneg|lia].
      * exact H.
Qed.

(* near_seg = false: EVERY point of the closed segment is farther than tol from q *)
Theorem near_seg_complete : forall tn td x y w a b c n m,
  0 < w -> 0 <= tn -> 0 < td ->
  near_seg tn td (x, y, w) a b = false ->
  at_param c a b n m -> 0 < snd c -> ~ within tn td (x, y, w) c.
Proof.
  intros tn td x y w [ax ay] [bx by_] [[cx cy] cw] n m Hw Htn Htd H (Hm & Hn & Ecx & Ecy) Hcw Hin.
  cbn [fst snd] in *. unfold within in Hin.
  unfold near_seg in H; cbn [fst snd] in H.
  set (ux := bx - ax) in *. set (uy := by_ - ay) in *.
  set (vx := x - w * ax) in *. set (vy := y - w * ay) in *.
  set (dot := ux * vx + uy * vy) in *. set (len := ux * ux + uy * uy) in *.
  (* F = |m v - n w u|^2 *)
  set (fx := m * vx - n * w * ux). set (fy := m * vy - n * w * uy).
  assert (Fx : m * (x * cw - cx * w) = cw * fx).
  { replace (m * (x * cw - cx * w)) with (cw * (m * x) - w * (m * cx)) by ring. rewrite Ecx. subst fx vx ux. ring. }
  assert (Fy : m * (y * cw - cy * w) = cw * fy).
  { replace (m * (y * cw - cy * w)) with (cw * (m * y) - w * (m * cy)) by ring. rewrite Ecy. subst fy vy uy. ring. }
  (* within, multiplied by m^2 and divided by cw^2:  F td^2 <= tn^2 w^2 m^2 *)
  assert (HF : (fx * fx + fy * fy) * (td * td) <= tn * tn * (w * w) * (m * m)).
  { assert (Hmm : 0 <= m * m) by apply Z.square_nonneg.
    pose proof (Z.mul_le_mono_nonneg_l _ _ (m * m) Hmm Hin) as Hin'.
    replace (m * m * (((x * cw - cx * w) * (x * cw - cx * w) + (y * cw - cy * w) * (y * cw - cy * w)) * (td * td)))
      with (((m * (x * cw - cx * w)) * (m * (x * cw - cx * w)) + (m * (y * cw - cy * w)) * (m * (y * cw - cy * w))) * (td * td)) in Hin' by ring.
    rewrite Fx, Fy in Hin'.
    replace ((cw * fx * (cw * fx) + cw * fy * (cw * fy)) * (td * td)) with ((cw * cw) * ((fx * fx + fy * fy) * (td * td))) in Hin' by ring.
    replace (m * m * (tn * tn * (w * cw * (w * cw)))) with ((cw * cw) * (tn * tn * (w * w) * (m * m))) in Hin' by ring.
    apply Z.mul_le_mono_pos_l in Hin'; [exact Hin'|]. apply Z.mul_pos_pos; assumption. }
  assert (Hlen0 : 0 <= len) by (subst len; assert (0 <= ux * ux) by apply Z.square_nonneg; assert (0 <= uy * uy) by apply Z.square_nonneg; lia).
  assert (Hmm : 0 < m * m) by (apply Z.mul_pos_pos; assumption).
  destruct (Z.leb_spec dot 0) as [Hd|Hd].
  - (* the nearest point is a:  F >= m^2 |v|^2 *)
    apply Z.leb_gt in H.
    assert (E : fx * fx + fy * fy = m * m * (vx * vx + vy * vy) + (2 * m * n * w) * (- dot) + (n * w) * (n * w) * len)
      by (subst fx fy dot len; ring).
    assert (0 <= (2 * m * n * w) * (- dot)) by (apply Z.mul_nonneg_nonneg; [repeat apply Z.mul_nonneg_nonneg; lia|lia]).
    assert (0 <= (n * w) * (n * w) * len) by (apply Z.mul_nonneg_nonneg; [apply Z.square_nonneg|assumption]).
    assert (G : m * m * (vx * vx + vy * vy) <= fx * fx + fy * fy) by lia.
    assert (G2 : m * m * (vx * vx + vy * vy) * (td * td) <= (fx * fx + fy * fy) * (td * td))
      by (apply Z.mul_le_mono_nonneg_r; [apply Z.square_nonneg|exact G]).
    assert (G3 : m * m * (tn * tn * (w * w)) < m * m * ((vx * vx + vy * vy) * (td * td)))
      by (apply Z.mul_lt_mono_pos_l; assumption).
    lia.
  - destruct (Z.leb_spec (w * len) dot) as [He|He].
    + (* the nearest point is b:  F >= m^2 |z|^2, z = v - w u *)
      apply Z.leb_gt in H.
      set (zx := x - w * bx) in *. set (zy := y - w * by_) in *.
      assert (E : fx * fx + fy * fy = m * m * (zx * zx + zy * zy) + (2 * m * (m - n) * w) * (dot - w * len) + ((m - n) * w) * ((m - n) * w) * len)
        by (subst fx fy dot len zx zy vx vy ux uy; ring).
      assert (0 <= (2 * m * (m - n) * w) * (dot - w * len)) by (apply Z.mul_nonneg_nonneg; [repeat apply Z.mul_nonneg_nonneg; lia|lia]).
      assert (0 <= ((m - n) * w) * ((m - n) * w) * len) by (apply Z.mul_nonneg_nonneg; [apply Z.square_nonneg|assumption]).
      assert (G : m * m * (zx * zx + zy * zy) <= fx * fx + fy * fy) by lia.
      assert (G2 : m * m * (zx * zx + zy * zy) * (td * td) <= (fx * fx + fy * fy) * (td * td))
        by (apply Z.mul_le_mono_nonneg_r; [apply Z.square_nonneg|exact G]).
      assert (G3 : m * m * (tn * tn * (w * w)) < m * m * ((zx * zx + zy * zy) * (td * td)))
        by (apply Z.mul_lt_mono_pos_l; assumption).
      lia.
    + (* the nearest point is the foot:  F len = (m dot - n w len)^2 + m^2 cr^2 *)
      apply Z.leb_gt in H.
      set (cr := ux * vy - uy * vx) in *.
      assert (Hlen : 0 < len).
      { destruct (Z.eq_dec len 0) as [E|E]; [|lia]. rewrite E in He. lia. }
      assert (E : (fx * fx + fy * fy) * len = (m * dot - n * w * len) * (m * dot - n * w * len) + m * m * (cr * cr))
        by (subst fx fy dot len cr; ring).
      assert (0 <= (m * dot - n * w * len) * (m * dot - n * w * len)) by apply Z.square_nonneg.
      assert (G : m * m * (cr * cr) <= (fx * fx + fy * fy) * len) by lia.
      assert (G2 : m * m * (cr * cr) * (td * td) <= (fx * fx + fy * fy) * len * (td * td))
        by (apply Z.mul_le_mono_nonneg_r; [apply Z.square_nonneg|exact G]).
      assert (G3 : m * m * (tn * tn * (w * w * len)) < m * m * (cr * cr * (td * td)))
        by (apply Z.mul_lt_mono_pos_l; assumption).
      assert (G4 : (fx * fx + fy * fy) * (td * td) * len <= tn * tn * (w * w) * (m * m) * len)
        by (apply Z.mul_le_mono_nonneg_r; [lia|exact HF]).
      lia.
Qed.
