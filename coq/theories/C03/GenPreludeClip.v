(* C03/GenPreludeClip — meaning of the translator's abstract names for the units RC_* (RingClipper) and ENB_computeDepthDelta.
   Every `double` is read as a RATIONAL (Q): add / sub / mul / div are the exact field operations, comparisons are decided
   exactly.  Rounding of the quotient and products in intersectionLineX / Y is NOT modelled (correspondence stream: exact
   agreement where the slope is a power of two, 1e-9 relative otherwise).  A Coordinate is its (x, y) pair (Z / M are not
   read by the clipper); the RingClipper object is its member clipEnv; an Envelope is null or four bounds; a LinearRing
   is a record around its coordinate sequence, so that "the ring" and "a coordinate sequence" are different types. *)
From Coq Require Import ZArith QArith List Bool.
Local Open Scope Q_scope.

Definition add := Qplus.
Definition sub := Qminus.
Definition mul := Qmult.
Definition div := Qdiv.
Definition ltb (a b : Q) : bool := negb (Qle_bool b a).
Definition gtb (a b : Q) : bool := negb (Qle_bool a b).
Definition leb (a b : Q) : bool := Qle_bool a b.
Definition geb (a b : Q) : bool := Qle_bool b a.

Definition rpt := (Q * Q)%type.
Definition f_x (p : rpt) : Q := fst p.
Definition f_y (p : rpt) : Q := snd p.
Definition mk_Coordinate_2 (x y : Q) : rpt := (x, y).

(* geos::geom::Envelope as the clipper reads it *)
Record qenv := mkQenv { e_null : bool; e_minx : Q; e_maxx : Q; e_miny : Q; e_maxy : Q }.
Definition m_isNull_0 (e : qenv) := e_null e.
Definition m_getMinX_0 (e : qenv) := e_minx e.
Definition m_getMaxX_0 (e : qenv) := e_maxx e.
Definition m_getMinY_0 (e : qenv) := e_miny e.
Definition m_getMaxY_0 (e : qenv) := e_maxy e.

(* the RingClipper object *)
Record renv := mkRenv { f_clipEnv : qenv }.

(* geos::geom::LinearRing: only getCoordinatesRO is used *)
Record lring := mkLring { lr_pts : list rpt }.
Definition m_getCoordinatesRO_0 (r : lring) : list rpt := lr_pts r.
