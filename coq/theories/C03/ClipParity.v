(* C03/ClipParity — soundness of one clipping pass of RingClipper for the even-odd crossing parity of a point strictly
   inside the half-plane of the box edge: the parity of the +x ray from q against the cyclic sequence is unchanged by
   clip_raw / dedup / clipToBoxEdge, for each of the four edges. *)
From Coq Require Import ZArith QArith List Bool Lia Lra Psatz.
From GeosV Require Import Lib.KernelDefs C03.GenPreludeClip C03.ClipDefs.
From GeosV.Gen Require Import RC_isInsideEdge RC_intersectionLineX RC_intersectionLineY RC_intersection.
From Coq Require Import Btauto.
Import ListNotations.
Local Open Scope Q_scope.

(* ---- boolean reflection *)
Lemma nle_true a b : negb (Qle_bool b a) = true <-> a < b.
Proof.
  rewrite negb_true_iff. split; intro H.
  - apply Qnot_le_lt. intro H1. apply Qle_bool_iff in H1. congruence.
  - destruct (Qle_bool b a) eqn:E; auto. apply Qle_bool_iff in E. exfalso. exact (Qlt_not_le _ _ H E).
Qed.
Lemma nle_false a b : negb (Qle_bool b a) = false <-> b <= a.
Proof. rewrite negb_false_iff. apply Qle_bool_iff. Qed.

Lemma above_t q p : snd q < snd p -> above q p = true.
Proof. intro H. apply nle_true. exact H. Qed.
Lemma above_f q p : snd p <= snd q -> above q p = false.
Proof. intro H. apply nle_false. exact H. Qed.

Lemma qpos_ext x y : (0 < x <-> 0 < y) -> qpos x = qpos y.
Proof.
  intro H. unfold qpos.
  destruct (negb (Qle_bool x 0)) eqn:Ex; destruct (negb (Qle_bool y 0)) eqn:Ey; auto.
  - apply nle_true in Ex. apply H in Ex. apply nle_true in Ex. congruence.
  - apply nle_true in Ey. apply H in Ey. apply nle_true in Ey. congruence.
Qed.
Lemma qpos_t x : 0 < x -> qpos x = true.
Proof. intro H. apply nle_true. exact H. Qed.
Lemma qpos_f x : x <= 0 -> qpos x = false.
Proof. intro H. apply nle_false. exact H. Qed.

Lemma crosses_ab q a b : snd q < snd a -> snd b <= snd q -> crosses q a b = qpos (- rdet a b q).
Proof. intros H1 H2. unfold crosses. rewrite (above_t _ _ H1), (above_f _ _ H2). reflexivity. Qed.
Lemma crosses_ba q a b : snd a <= snd q -> snd q < snd b -> crosses q a b = qpos (rdet a b q).
Proof. intros H1 H2. unfold crosses. rewrite (above_f _ _ H1), (above_t _ _ H2). reflexivity. Qed.
Lemma crosses_aa q a b : snd q < snd a -> snd q < snd b -> crosses q a b = false.
Proof. intros H1 H2. unfold crosses. rewrite (above_t _ _ H1), (above_t _ _ H2). reflexivity. Qed.
Lemma crosses_bb q a b : snd a <= snd q -> snd b <= snd q -> crosses q a b = false.
Proof. intros H1 H2. unfold crosses. rewrite (above_f _ _ H1), (above_f _ _ H2). reflexivity. Qed.
Lemma crosses_self q a : crosses q a a = false.
Proof. destruct (Qlt_le_dec (snd q) (snd a)); [apply crosses_aa | apply crosses_bb]; auto. Qed.

Lemma convex_gt c u v t : 0 <= t -> t <= 1 -> c < u -> c < v -> c < u + t * (v - u).
Proof.
  intros H0 H1 Hu Hv. destruct (Qlt_le_dec u v).
  - assert (0 <= t * (v - u)) by (apply Qmult_le_0_compat; lra). lra.
  - assert (0 <= (1 - t) * (u - v)) by (apply Qmult_le_0_compat; lra).
    assert ((1 - t) * (u - v) == (u - v) + t * (v - u)) by ring. lra.
Qed.
Lemma convex_le c u v t : 0 <= t -> t <= 1 -> u <= c -> v <= c -> u + t * (v - u) <= c.
Proof.
  intros H0 H1 Hu Hv. destruct (Qlt_le_dec u v).
  - assert (0 <= (1 - t) * (v - u)) by (apply Qmult_le_0_compat; lra).
    assert ((1 - t) * (v - u) == (v - u) - t * (v - u)) by ring. lra.
  - assert (0 <= t * (u - v)) by (apply Qmult_le_0_compat; lra).
    assert (t * (u - v) == - (t * (v - u))) by ring. lra.
Qed.

Lemma pos_scale k x : 0 < k -> (0 < x <-> 0 < k * x).
Proof.
  intro Hk. split; intro H.
  - apply Qmult_lt_0_compat; assumption.
  - destruct (Qlt_le_dec 0 x) as [|Hx]; auto. exfalso.
    assert (0 <= k * (- x)) by (apply Qmult_le_0_compat; lra).
    assert (k * (- x) == - (k * x)) by ring. lra.
Qed.
Lemma pos_scale_neg k x : 0 < k -> (0 < - x <-> 0 < - (k * x)).
Proof.
  intro Hk. assert (E : - (k * x) == k * (- x)) by ring. rewrite E. apply pos_scale. exact Hk.
Qed.
Lemma t_lt1 ya yb yi t : t <= 1 -> yi == ya + t * (yb - ya) -> ~ yi == yb -> t < 1.
Proof.
  intros H1 H2 H3. destruct (Qlt_le_dec t 1) as [|H]; auto. exfalso.
  assert (E : t == 1) by lra. apply H3. rewrite H2, E. ring.
Qed.
Lemma t_gt0 ya yb yi t : 0 <= t -> yi == ya + t * (yb - ya) -> ~ yi == ya -> 0 < t.
Proof.
  intros H1 H2 H3. destruct (Qlt_le_dec 0 t) as [|H]; auto. exfalso.
  assert (E : t == 0) by lra. apply H3. rewrite H2, E. ring.
Qed.

(* ---- splitting a segment at a point of it *)
Lemma crosses_split q a b I t :
  0 <= t -> t <= 1 -> fst I == fst a + t * (fst b - fst a) -> snd I == snd a + t * (snd b - snd a) ->
  crosses q a b = xorb (crosses q a I) (crosses q I b).
Proof.
  intros Ht0 Ht1 HIx HIy.
  assert (R1 : rdet a I q == t * rdet a b q) by (unfold rdet; rewrite HIx, HIy; ring).
  assert (R2 : rdet I b q == (1 - t) * rdet a b q) by (unfold rdet; rewrite HIx, HIy; ring).
  destruct (Qlt_le_dec (snd q) (snd a)) as [Ha|Ha];
  destruct (Qlt_le_dec (snd q) (snd b)) as [Hb|Hb];
  destruct (Qlt_le_dec (snd q) (snd I)) as [Hi|Hi].
  - rewrite !crosses_aa by assumption. reflexivity.
  - exfalso. pose proof (convex_gt (snd q) (snd a) (snd b) t Ht0 Ht1 Ha Hb). lra.
  - rewrite (crosses_ab q a b), (crosses_aa q a I), (crosses_ab q I b) by assumption.
    rewrite xorb_false_l. apply qpos_ext. rewrite R2.
    apply pos_scale_neg. assert (t < 1) by (apply (t_lt1 _ _ _ _ Ht1 HIy); lra). lra.
  - rewrite (crosses_ab q a b), (crosses_ab q a I), (crosses_bb q I b) by assumption.
    rewrite xorb_false_r. apply qpos_ext. rewrite R1.
    apply pos_scale_neg. apply (t_gt0 _ _ _ _ Ht0 HIy); lra.
  - rewrite (crosses_ba q a b), (crosses_ba q a I), (crosses_aa q I b) by assumption.
    rewrite xorb_false_r. apply qpos_ext. rewrite R1.
    apply pos_scale. apply (t_gt0 _ _ _ _ Ht0 HIy); lra.
  - rewrite (crosses_ba q a b), (crosses_bb q a I), (crosses_ba q I b) by assumption.
    rewrite xorb_false_l. apply qpos_ext. rewrite R2.
    apply pos_scale. assert (t < 1) by (apply (t_lt1 _ _ _ _ Ht1 HIy); lra). lra.
  - exfalso. pose proof (convex_le (snd q) (snd a) (snd b) t Ht0 Ht1 Ha Hb). lra.
  - rewrite !crosses_bb by assumption. reflexivity.
Qed.

Lemma hsplit q a b c :
  (snd a <= c /\ c <= snd b /\ snd a < snd b) \/ (snd b <= c /\ c <= snd a /\ snd b < snd a) ->
  crosses q a b = xorb (crosses q a (g_intersectionLineY a b c, c)) (crosses q (g_intersectionLineY a b c, c) b).
Proof.
  intro H.
  assert (Hd : ~ snd b - snd a == 0) by (destruct H as [[? [? ?]]|[? [? ?]]]; lra).
  assert (Ht : ((c - snd a) / (snd b - snd a)) * (snd b - snd a) == c - snd a) by (field; exact Hd).
  apply (crosses_split q a b _ ((c - snd a) / (snd b - snd a))).
  - remember ((c - snd a) / (snd b - snd a)) as t. destruct H as [[? [? ?]]|[? [? ?]]]; nra.
  - remember ((c - snd a) / (snd b - snd a)) as t. destruct H as [[? [? ?]]|[? [? ?]]]; nra.
  - unfold g_intersectionLineY, add, sub, mul, div, f_x, f_y. cbn [fst snd]. field. exact Hd.
  - cbn [snd]. remember ((c - snd a) / (snd b - snd a)) as t. lra.
Qed.

Lemma vsplit q a b c :
  (fst a <= c /\ c <= fst b /\ fst a < fst b) \/ (fst b <= c /\ c <= fst a /\ fst b < fst a) ->
  crosses q a b = xorb (crosses q a (c, g_intersectionLineX a b c)) (crosses q (c, g_intersectionLineX a b c) b).
Proof.
  intro H.
  assert (Hd : ~ fst b - fst a == 0) by (destruct H as [[? [? ?]]|[? [? ?]]]; lra).
  assert (Ht : ((c - fst a) / (fst b - fst a)) * (fst b - fst a) == c - fst a) by (field; exact Hd).
  apply (crosses_split q a b _ ((c - fst a) / (fst b - fst a))).
  - remember ((c - fst a) / (fst b - fst a)) as t. destruct H as [[? [? ?]]|[? [? ?]]]; nra.
  - remember ((c - fst a) / (fst b - fst a)) as t. destruct H as [[? [? ?]]|[? [? ?]]]; nra.
  - cbn [fst]. remember ((c - fst a) / (fst b - fst a)) as t. lra.
  - unfold g_intersectionLineX, add, sub, mul, div, f_x, f_y. cbn [fst snd]. field. exact Hd.
Qed.

(* ---- lists *)
Lemma last_cons : forall (l : list rpt) a d, last (a :: l) d = last l a.
Proof.
  induction l as [|b l IH]; intros a d; [reflexivity|].
  change (last (a :: b :: l) d) with (last (b :: l) d). rewrite (IH b d), (IH b a). reflexivity.
Qed.
Lemma last_app2 : forall (l1 l2 : list rpt) d, last (l1 ++ l2) d = last l2 (last l1 d).
Proof.
  induction l1 as [|a l1 IH]; intros l2 d; [reflexivity|].
  change ((a :: l1) ++ l2) with (a :: (l1 ++ l2)). rewrite !last_cons. apply IH.
Qed.
Lemma last_idem : forall (l : list rpt) d, last l (last l d) = last l d.
Proof. destruct l as [|a l]; intro d; [reflexivity|]. rewrite !last_cons. reflexivity. Qed.
Lemma path_parity_app : forall q l1 l2 z,
  path_parity q z (l1 ++ l2) = xorb (path_parity q z l1) (path_parity q (last l1 z) l2).
Proof.
  induction l1 as [|a l1 IH]; intros l2 z.
  - cbn [app path_parity last]. rewrite xorb_false_l. reflexivity.
  - change ((a :: l1) ++ l2) with (a :: (l1 ++ l2)). cbn [path_parity]. rewrite IH, last_cons. btauto.
Qed.
Lemma ring_parity_last q (l : list rpt) d : path_parity q (last l d) l = ring_parity q l.
Proof. unfold ring_parity. destruct l as [|a l]; [reflexivity|]. rewrite !last_cons. reflexivity. Qed.

(* ---- the generic pass *)
Section Generic.
  Variables (st : renv) (e : Z) (q : rpt) (Out : rpt -> Prop).
  Hypothesis Hout : forall p, inside st e p = false -> Out p.
  Hypothesis Hsplit : forall a b, inside st e a <> inside st e b ->
    Out (xpt st e a b) /\ crosses q a b = xorb (crosses q a (xpt st e a b)) (crosses q (xpt st e a b) b).
  Hypothesis Hco : forall a b c, Out a -> Out b -> Out c -> xorb (crosses q a b) (crosses q b c) = crosses q a c.

  Lemma pass_path : forall pts p0 z,
    (inside st e p0 = true -> z = p0) -> (inside st e p0 = false -> Out z) ->
    path_parity q z (clip_raw st e p0 pts ++ [last pts p0]) = xorb (crosses q z p0) (path_parity q p0 pts).
  Proof.
    induction pts as [|p1 r IH]; intros p0 z Hin Ho.
    - reflexivity.
    - rewrite last_cons. cbn [clip_raw]. unfold emit. rewrite <- app_assoc.
      destruct (inside st e p1) eqn:E1; destruct (inside st e p0) eqn:E0.
      + rewrite (Hin eq_refl). cbn [app path_parity].
        rewrite (IH p1 p1) by (intros; congruence). rewrite !crosses_self. btauto.
      + destruct (Hsplit p0 p1) as [HO HS]; [congruence|].
        cbn [app path_parity]. rewrite (IH p1 p1) by (intros; congruence).
        rewrite HS, <- (Hco z p0 (xpt st e p0 p1)) by auto. rewrite !crosses_self. btauto.
      + destruct (Hsplit p0 p1) as [HO HS]; [congruence|].
        rewrite (Hin eq_refl). cbn [app path_parity].
        rewrite (IH p1 (xpt st e p0 p1)) by (intros; first [congruence | assumption]).
        rewrite HS, !crosses_self. btauto.
      + cbn [app path_parity]. rewrite (IH p1 z) by (intros; first [congruence | auto]).
        rewrite <- (Hco z p0 p1) by auto. btauto.
  Qed.

  Lemma pass_last : forall pts p0 z,
    (inside st e p0 = true -> z = p0) -> (inside st e p0 = false -> Out z) ->
    (inside st e (last pts p0) = true -> last (clip_raw st e p0 pts) z = last pts p0) /\
    (inside st e (last pts p0) = false -> Out (last (clip_raw st e p0 pts) z)).
  Proof.
    induction pts as [|p1 r IH]; intros p0 z Hin Ho.
    - cbn [last clip_raw]. split; assumption.
    - rewrite last_cons. cbn [clip_raw]. rewrite last_app2. apply IH; unfold emit.
      + intro E1. rewrite E1. destruct (inside st e p0); reflexivity.
      + intro E1. rewrite E1. destruct (inside st e p0) eqn:E0; cbn [last].
        * apply Hsplit. congruence.
        * auto.
  Qed.

  Theorem pass_ring : forall pts,
    ring_parity q (clip_raw st e (last pts qorigin) pts) = ring_parity q pts.
  Proof.
    intro pts. set (pl := last pts qorigin). set (O := clip_raw st e pl pts).
    assert (Hpl : last pts pl = pl) by apply last_idem.
    destruct (pass_last pts pl pl (fun _ => eq_refl) (Hout pl)) as [W1 W2].
    fold O in W1, W2. rewrite Hpl in W1, W2.
    assert (HL := pass_path pts pl (last O pl)).
    fold O in HL. rewrite Hpl in HL. specialize (HL W1 W2).
    rewrite path_parity_app, last_idem in HL. cbn [path_parity] in HL.
    rewrite <- (ring_parity_last q O pl). unfold ring_parity at 1. fold pl.
    revert HL. generalize (crosses q (last O pl) pl). intros b HL.
    destruct (path_parity q (last O pl) O), (path_parity q pl pts), b; cbn in HL; congruence.
  Qed.
End Generic.

(* ---- BOTTOM *)
Lemma inside_bottom x0 x1 y0 y1 p : inside (box x0 x1 y0 y1) 0 p = negb (Qle_bool (snd p) y0).
Proof. reflexivity. Qed.
Lemma xpt_bottom x0 x1 y0 y1 a b : xpt (box x0 x1 y0 y1) 0 a b = (g_intersectionLineY a b y0, y0).
Proof. reflexivity. Qed.

Theorem clip_raw_parity_bottom : forall x0 x1 y0 y1 q pts, y0 < snd q ->
  ring_parity q (clip_raw (box x0 x1 y0 y1) 0 (last pts qorigin) pts) = ring_parity q pts.
Proof.
  intros x0 x1 y0 y1 q pts Hq.
  apply (pass_ring (box x0 x1 y0 y1) 0%Z q (fun p => snd p <= y0)).
  - intros p H. rewrite inside_bottom in H. apply nle_false in H. exact H.
  - intros a b H. rewrite xpt_bottom. split; [cbn [snd]; lra|]. apply hsplit.
    rewrite !inside_bottom in H.
    destruct (negb (Qle_bool (snd a) y0)) eqn:Ea; destruct (negb (Qle_bool (snd b) y0)) eqn:Eb; try congruence.
    + apply nle_true in Ea. apply nle_false in Eb. right. lra.
    + apply nle_false in Ea. apply nle_true in Eb. left. lra.
  - intros a b c Ha Hb Hc. rewrite !crosses_bb by lra. reflexivity.
Qed.

(* ---- TOP *)
Lemma inside_top x0 x1 y0 y1 p : inside (box x0 x1 y0 y1) 2 p = negb (Qle_bool y1 (snd p)).
Proof. reflexivity. Qed.
Lemma xpt_top x0 x1 y0 y1 a b : xpt (box x0 x1 y0 y1) 2 a b = (g_intersectionLineY a b y1, y1).
Proof. reflexivity. Qed.

Theorem clip_raw_parity_top : forall x0 x1 y0 y1 q pts, snd q < y1 ->
  ring_parity q (clip_raw (box x0 x1 y0 y1) 2 (last pts qorigin) pts) = ring_parity q pts.
Proof.
  intros x0 x1 y0 y1 q pts Hq.
  apply (pass_ring (box x0 x1 y0 y1) 2%Z q (fun p => y1 <= snd p)).
  - intros p H. rewrite inside_top in H. apply nle_false in H. exact H.
  - intros a b H. rewrite xpt_top. split; [cbn [snd]; lra|]. apply hsplit.
    rewrite !inside_top in H.
    destruct (negb (Qle_bool y1 (snd a))) eqn:Ea; destruct (negb (Qle_bool y1 (snd b))) eqn:Eb; try congruence.
    + apply nle_true in Ea. apply nle_false in Eb. left. lra.
    + apply nle_false in Ea. apply nle_true in Eb. right. lra.
  - intros a b c Ha Hb Hc. rewrite !crosses_aa by lra. reflexivity.
Qed.

(* ---- segments entirely west / east of q *)
Lemma rdet_form a b q :
  rdet a b q == (snd a - snd q) * (fst q - fst b) + (snd q - snd b) * (fst q - fst a).
Proof. unfold rdet. ring. Qed.

Lemma crosses_west q a b : fst a < fst q -> fst b < fst q -> crosses q a b = false.
Proof.
  intros Ha Hb. pose proof (rdet_form a b q) as E.
  destruct (Qlt_le_dec (snd q) (snd a)) as [Ya|Ya]; destruct (Qlt_le_dec (snd q) (snd b)) as [Yb|Yb].
  - apply crosses_aa; assumption.
  - rewrite crosses_ab by assumption. apply qpos_f.
    assert (0 <= (snd a - snd q) * (fst q - fst b)) by (apply Qmult_le_0_compat; lra).
    assert (0 <= (snd q - snd b) * (fst q - fst a)) by (apply Qmult_le_0_compat; lra). lra.
  - rewrite crosses_ba by assumption. apply qpos_f.
    assert (0 <= (snd q - snd a) * (fst q - fst b)) by (apply Qmult_le_0_compat; lra).
    assert (0 <= (snd b - snd q) * (fst q - fst a)) by (apply Qmult_le_0_compat; lra).
    assert ((snd a - snd q) * (fst q - fst b) == - ((snd q - snd a) * (fst q - fst b))) by ring.
    assert ((snd q - snd b) * (fst q - fst a) == - ((snd b - snd q) * (fst q - fst a))) by ring. lra.
  - apply crosses_bb; assumption.
Qed.

Lemma crosses_east q a b : fst q < fst a -> fst q < fst b -> crosses q a b = xorb (above q a) (above q b).
Proof.
  intros Ha Hb. pose proof (rdet_form a b q) as E.
  destruct (Qlt_le_dec (snd q) (snd a)) as [Ya|Ya]; destruct (Qlt_le_dec (snd q) (snd b)) as [Yb|Yb].
  - rewrite (crosses_aa q a b Ya Yb), (above_t q a Ya), (above_t q b Yb). reflexivity.
  - rewrite (crosses_ab q a b Ya Yb), (above_t q a Ya), (above_f q b Yb). cbn [xorb]. apply qpos_t.
    assert (0 < (snd a - snd q) * (fst b - fst q)) by (apply Qmult_lt_0_compat; lra).
    assert (0 <= (snd q - snd b) * (fst a - fst q)) by (apply Qmult_le_0_compat; lra).
    assert ((snd a - snd q) * (fst q - fst b) == - ((snd a - snd q) * (fst b - fst q))) by ring.
    assert ((snd q - snd b) * (fst q - fst a) == - ((snd q - snd b) * (fst a - fst q))) by ring. lra.
  - rewrite (crosses_ba q a b Ya Yb), (above_f q a Ya), (above_t q b Yb). cbn [xorb]. apply qpos_t.
    assert (0 <= (snd q - snd a) * (fst b - fst q)) by (apply Qmult_le_0_compat; lra).
    assert (0 < (snd b - snd q) * (fst a - fst q)) by (apply Qmult_lt_0_compat; lra).
    assert ((snd a - snd q) * (fst q - fst b) == (snd q - snd a) * (fst b - fst q)) by ring.
    assert ((snd q - snd b) * (fst q - fst a) == (snd b - snd q) * (fst a - fst q)) by ring. lra.
  - rewrite (crosses_bb q a b Ya Yb), (above_f q a Ya), (above_f q b Yb). reflexivity.
Qed.

(* ---- LEFT *)
Lemma inside_left x0 x1 y0 y1 p : inside (box x0 x1 y0 y1) 3 p = negb (Qle_bool (fst p) x0).
Proof. reflexivity. Qed.
Lemma xpt_left x0 x1 y0 y1 a b : xpt (box x0 x1 y0 y1) 3 a b = (x0, g_intersectionLineX a b x0).
Proof. reflexivity. Qed.

Theorem clip_raw_parity_left : forall x0 x1 y0 y1 q pts, x0 < fst q ->
  ring_parity q (clip_raw (box x0 x1 y0 y1) 3 (last pts qorigin) pts) = ring_parity q pts.
Proof.
  intros x0 x1 y0 y1 q pts Hq.
  apply (pass_ring (box x0 x1 y0 y1) 3%Z q (fun p => fst p <= x0)).
  - intros p H. rewrite inside_left in H. apply nle_false in H. exact H.
  - intros a b H. rewrite xpt_left. split; [cbn [fst]; lra|]. apply vsplit.
    rewrite !inside_left in H.
    destruct (negb (Qle_bool (fst a) x0)) eqn:Ea; destruct (negb (Qle_bool (fst b) x0)) eqn:Eb; try congruence.
    + apply nle_true in Ea. apply nle_false in Eb. right. lra.
    + apply nle_false in Ea. apply nle_true in Eb. left. lra.
  - intros a b c Ha Hb Hc. rewrite !crosses_west by lra. reflexivity.
Qed.

(* ---- RIGHT *)
Lemma inside_right x0 x1 y0 y1 p : inside (box x0 x1 y0 y1) 1 p = negb (Qle_bool x1 (fst p)).
Proof. reflexivity. Qed.
Lemma xpt_right x0 x1 y0 y1 a b : xpt (box x0 x1 y0 y1) 1 a b = (x1, g_intersectionLineX a b x1).
Proof. reflexivity. Qed.

Theorem clip_raw_parity_right : forall x0 x1 y0 y1 q pts, fst q < x1 ->
  ring_parity q (clip_raw (box x0 x1 y0 y1) 1 (last pts qorigin) pts) = ring_parity q pts.
Proof.
  intros x0 x1 y0 y1 q pts Hq.
  apply (pass_ring (box x0 x1 y0 y1) 1%Z q (fun p => x1 <= fst p)).
  - intros p H. rewrite inside_right in H. apply nle_false in H. exact H.
  - intros a b H. rewrite xpt_right. split; [cbn [fst]; lra|]. apply vsplit.
    rewrite !inside_right in H.
    destruct (negb (Qle_bool x1 (fst a))) eqn:Ea; destruct (negb (Qle_bool x1 (fst b))) eqn:Eb; try congruence.
    + apply nle_true in Ea. apply nle_false in Eb. left. lra.
    + apply nle_false in Ea. apply nle_true in Eb. right. lra.
  - intros a b c Ha Hb Hc. rewrite !crosses_east by lra. btauto.
Qed.

(* ---- dedup (CoordinateSequence::add(c, allowRepeated = false)) *)
Definition peq (a b : rpt) : Prop := fst a == fst b /\ snd a == snd b.
Lemma peq_refl a : peq a a.
Proof. split; reflexivity. Qed.
Lemma equals2D_peq a b : equals2D a b = true -> peq a b.
Proof. unfold equals2D. rewrite andb_true_iff, !Qeq_bool_iff. auto. Qed.

Lemma above_peq q a a' : snd a == snd a' -> above q a = above q a'.
Proof.
  intro H. destruct (Qlt_le_dec (snd q) (snd a)).
  - rewrite (above_t q a), (above_t q a') by lra. reflexivity.
  - rewrite (above_f q a), (above_f q a') by lra. reflexivity.
Qed.
Lemma crosses_peq q a b a' b' : peq a a' -> peq b b' -> crosses q a b = crosses q a' b'.
Proof.
  intros [A1 A2] [B1 B2].
  assert (E : rdet a b q == rdet a' b' q) by (unfold rdet; rewrite A1, A2, B1, B2; reflexivity).
  unfold crosses. rewrite (above_peq q a a' A2), (above_peq q b b' B2).
  rewrite (qpos_ext (rdet a b q) (rdet a' b' q)) by (rewrite E; reflexivity).
  rewrite (qpos_ext (- rdet a b q) (- rdet a' b' q)) by (rewrite E; reflexivity).
  reflexivity.
Qed.
Lemma crosses_degenerate q a b : peq a b -> crosses q a b = false.
Proof. intro H. rewrite (crosses_peq q a b b b H (peq_refl b)). apply crosses_self. Qed.
Lemma path_parity_peq q z z' l : peq z z' -> path_parity q z l = path_parity q z' l.
Proof. intro H. destruct l as [|c r]; [reflexivity|]. cbn [path_parity]. rewrite (crosses_peq q z c z' c H (peq_refl c)). reflexivity. Qed.

Fixpoint dd (t : rpt) (l : list rpt) : list rpt :=
  match l with [] => [] | c :: r => if equals2D t c then dd t r else c :: dd c r end.

Lemma fold_push_dd : forall l t acc, rev (fold_left push l (t :: acc)) = rev (t :: acc) ++ dd t l.
Proof.
  induction l as [|c r IH]; intros t acc.
  - cbn [fold_left dd]. rewrite app_nil_r. reflexivity.
  - cbn [fold_left dd push]. destruct (equals2D t c).
    + apply IH.
    + rewrite IH. change (rev (c :: t :: acc)) with (rev (t :: acc) ++ [c]). rewrite <- app_assoc. reflexivity.
Qed.
Lemma dedup_cons c r : dedup (c :: r) = c :: dd c r.
Proof. unfold dedup. cbn [fold_left push]. rewrite fold_push_dd. reflexivity. Qed.

Lemma path_parity_dd q : forall l t z, peq z t -> path_parity q z (dd t l) = path_parity q z l.
Proof.
  induction l as [|c r IH]; intros t z H; [reflexivity|].
  cbn [dd]. destruct (equals2D t c) eqn:E.
  - apply equals2D_peq in E. assert (Hzc : peq z c) by (destruct H, E; split; lra).
    rewrite (IH t z H). cbn [path_parity]. rewrite (crosses_degenerate q z c Hzc), xorb_false_l.
    apply path_parity_peq. exact Hzc.
  - cbn [path_parity]. rewrite (IH c c (peq_refl c)). reflexivity.
Qed.
Lemma last_peq_default : forall (l : list rpt) c t, peq c t -> peq (last l c) (last l t).
Proof. destruct l as [|a l]; intros c t H; [exact H|]. rewrite !last_cons. apply peq_refl. Qed.
Lemma last_dd : forall l t, peq (last (dd t l) t) (last l t).
Proof.
  induction l as [|c r IH]; intro t; [apply peq_refl|].
  cbn [dd]. rewrite (last_cons r c t). destruct (equals2D t c) eqn:E.
  - apply equals2D_peq in E. destruct (IH t) as [I1 I2].
    destruct (last_peq_default r c t) as [J1 J2]; [destruct E; split; lra|]. split; lra.
  - rewrite last_cons. apply IH.
Qed.

Theorem ring_parity_dedup q l : ring_parity q (dedup l) = ring_parity q l.
Proof.
  destruct l as [|c r]; [reflexivity|].
  rewrite dedup_cons. unfold ring_parity. rewrite !last_cons. cbn [path_parity].
  rewrite (path_parity_dd q r c c (peq_refl c)).
  rewrite (crosses_peq q (last (dd c r) c) c (last r c) c (last_dd r c) (peq_refl c)). reflexivity.
Qed.

Theorem ring_parity_close_ring q l : ring_parity q (close_ring l) = ring_parity q l.
Proof.
  destruct l as [|s o]; [reflexivity|]. unfold close_ring.
  destruct (equals2D s (last (s :: o) s)); [reflexivity|].
  unfold ring_parity. rewrite last_app2, !last_cons. cbn [last].
  change ((s :: o) ++ [s]) with (s :: (o ++ [s])). cbn [path_parity].
  rewrite path_parity_app, crosses_self. cbn [path_parity]. btauto.
Qed.

(* ---- clipToBoxEdge, each edge, either closeRing flag *)
Lemma clipToBoxEdge_parity_of_raw st e q pts cr :
  ring_parity q (clip_raw st e (last pts qorigin) pts) = ring_parity q pts ->
  ring_parity q (clipToBoxEdge st pts e cr) = ring_parity q pts.
Proof.
  intro H. unfold clipToBoxEdge. destruct cr.
  - rewrite ring_parity_close_ring, ring_parity_dedup. exact H.
  - rewrite ring_parity_dedup. exact H.
Qed.

Theorem clipToBoxEdge_parity_bottom : forall x0 x1 y0 y1 q pts cr, y0 < snd q ->
  ring_parity q (clipToBoxEdge (box x0 x1 y0 y1) pts 0 cr) = ring_parity q pts.
Proof. intros. apply clipToBoxEdge_parity_of_raw, clip_raw_parity_bottom. assumption. Qed.
Theorem clipToBoxEdge_parity_right : forall x0 x1 y0 y1 q pts cr, fst q < x1 ->
  ring_parity q (clipToBoxEdge (box x0 x1 y0 y1) pts 1 cr) = ring_parity q pts.
Proof. intros. apply clipToBoxEdge_parity_of_raw, clip_raw_parity_right. assumption. Qed.
Theorem clipToBoxEdge_parity_top : forall x0 x1 y0 y1 q pts cr, snd q < y1 ->
  ring_parity q (clipToBoxEdge (box x0 x1 y0 y1) pts 2 cr) = ring_parity q pts.
Proof. intros. apply clipToBoxEdge_parity_of_raw, clip_raw_parity_top. assumption. Qed.
Theorem clipToBoxEdge_parity_left : forall x0 x1 y0 y1 q pts cr, x0 < fst q ->
  ring_parity q (clipToBoxEdge (box x0 x1 y0 y1) pts 3 cr) = ring_parity q pts.
Proof. intros. apply clipToBoxEdge_parity_of_raw, clip_raw_parity_left. assumption. Qed.

(* ---- the four passes *)
Theorem clip_parity : forall x0 x1 y0 y1 q pts, in_open_box (box x0 x1 y0 y1) q ->
  ring_parity q (clip (box x0 x1 y0 y1) pts) = ring_parity q pts.
Proof.
  intros x0 x1 y0 y1 q pts [Hx0 [Hx1 [Hy0 Hy1]]]. cbn in Hx0, Hx1, Hy0, Hy1.
  unfold clip. cbn [clip_edges].
  rewrite <- (clipToBoxEdge_parity_bottom x0 x1 y0 y1 q pts (Z.eqb 0 3) Hy0).
  destruct (clipToBoxEdge (box x0 x1 y0 y1) pts 0 (Z.eqb 0 3)) as [|a0 l0] eqn:E0; [reflexivity|].
  rewrite <- (clipToBoxEdge_parity_right x0 x1 y0 y1 q (a0 :: l0) (Z.eqb 1 3) Hx1).
  destruct (clipToBoxEdge (box x0 x1 y0 y1) (a0 :: l0) 1 (Z.eqb 1 3)) as [|a1 l1] eqn:E1; [reflexivity|].
  rewrite <- (clipToBoxEdge_parity_top x0 x1 y0 y1 q (a1 :: l1) (Z.eqb 2 3) Hy1).
  destruct (clipToBoxEdge (box x0 x1 y0 y1) (a1 :: l1) 2 (Z.eqb 2 3)) as [|a2 l2] eqn:E2; [reflexivity|].
  rewrite <- (clipToBoxEdge_parity_left x0 x1 y0 y1 q (a2 :: l2) (Z.eqb 3 3) Hx0).
  destruct (clipToBoxEdge (box x0 x1 y0 y1) (a2 :: l2) 3 (Z.eqb 3 3)) as [|a3 l3] eqn:E3; reflexivity.
Qed.
