(* C03/OverlayTables — the decision tables of the overlay code (the generated units Gen/OV_...) are the Boolean combination.
   Everything here is universally quantified over all integer arguments (locations, op codes, dimensions), not only the
   enumerators; the enumerator values are the ones the translator read from the C++ headers. *)
From Coq Require Import ZArith List Bool Lia.
From GeosV.Lib Require Import GeomDefs LocateDefs.
From GeosV.C03 Require Import GenPreludeOv OverlayDefs.
From GeosV.Gen Require OV_isResultOfOp OV_getLocation1 OV_isResultOfOpPoint OV_resultDimension OV_isEmptyResult OV_getLocation3
  OV_isBoundary1 OV_getLineLocation1 OV_getLocationBoundaryOrLine.
Import ListNotations.
Local Open Scope Z_scope.

Module R := OV_isResultOfOp.
Module RP := OV_isResultOfOpPoint.
Module RD := OV_resultDimension.
Module ER := OV_isEmptyResult.
Module GL1 := OV_getLocation1.
Module GL3 := OV_getLocation3.
Module GLB := OV_getLocationBoundaryOrLine.

(* ------------------------------------------------------------------ constants read from the headers *)
Lemma op_codes_are_the_generated_constants :
  op_code OpInter = R.g_INTERSECTION /\ op_code OpUnion = R.g_UNION /\ op_code OpDiff = R.g_DIFFERENCE /\ op_code OpSym = R.g_SYMDIFFERENCE
  /\ R.g_INTERSECTION = RD.g_INTERSECTION /\ R.g_UNION = RD.g_UNION /\ R.g_DIFFERENCE = RD.g_DIFFERENCE /\ R.g_SYMDIFFERENCE = RD.g_SYMDIFFERENCE
  /\ R.g_INTERSECTION = ER.g_INTERSECTION /\ R.g_UNION = ER.g_UNION /\ R.g_DIFFERENCE = ER.g_DIFFERENCE /\ R.g_SYMDIFFERENCE = ER.g_SYMDIFFERENCE.
Proof. repeat split; reflexivity. Qed.

(* geom::Location as integers; INTERIOR and BOUNDARY are the values the generated unit compares with, EXTERIOR = 2 and
   NONE = -1 are every other value *)
Definition loc_code (l : location) : Z := match l with Interior => 0 | Boundary => 1 | Exterior => 2 end.
Lemma loc_codes_are_the_generated_constants :
  loc_code Interior = R.E_Location_INTERIOR /\ loc_code Boundary = R.E_Location_BOUNDARY /\ GL3.g_LOC_UNKNOWN = -1.
Proof. repeat split; reflexivity. Qed.
(* the location code denotes a point of the geometry (interior or boundary) *)
Definition covered (l : Z) : bool := (l =? R.E_Location_INTERIOR) || (l =? R.E_Location_BOUNDARY).

Lemma op_of_code_spec : forall c o, op_of_code c = Some o <-> c = op_code o.
Proof.
  intros c o. unfold op_of_code.
  destruct (Z.eqb_spec c 1); [subst; destruct o; cbn; split; intro H; try discriminate; try reflexivity; inversion H|].
  destruct (Z.eqb_spec c 2); [subst; destruct o; cbn; split; intro H; try discriminate; try reflexivity; inversion H|].
  destruct (Z.eqb_spec c 3); [subst; destruct o; cbn; split; intro H; try discriminate; try reflexivity; inversion H|].
  destruct (Z.eqb_spec c 4); [subst; destruct o; cbn; split; intro H; try discriminate; try reflexivity; inversion H|].
  split; [discriminate|]. intro; subst; destruct o; cbn in *; congruence.
Qed.

(* ------------------------------------------------------------------ OverlayNG::isResultOfOp *)
Ltac split_eqb x k :=
  destruct (Z.eqb_spec x k) as [?E|?N]; [subst x|].
Ltac kill_neq :=
  repeat match goal with
         | H : ?x <> ?k |- context [Z.eqb ?x ?k] => rewrite (proj2 (Z.eqb_neq x k) H)
         end.

Theorem isResultOfOp_table : forall (o : ovop) (l0 l1 : Z),
  R.c_isResultOfOp_3 (op_code o) l0 l1 = boolop o (covered l0) (covered l1).
Proof.
  intros o l0 l1. unfold R.c_isResultOfOp_3, covered, zneb, R.E_Location_BOUNDARY, R.E_Location_INTERIOR.
  split_eqb l0 1; [|split_eqb l0 0]; (split_eqb l1 1; [|split_eqb l1 0]); kill_neq; destruct o; reflexivity.
Qed.

Theorem isResultOfOp_other_codes : forall (c l0 l1 : Z), op_of_code c = None -> R.c_isResultOfOp_3 c l0 l1 = false.
Proof.
  intros c l0 l1 H. unfold op_of_code in H.
  destruct (Z.eqb_spec c 1); [discriminate|]. destruct (Z.eqb_spec c 2); [discriminate|].
  destruct (Z.eqb_spec c 3); [discriminate|]. destruct (Z.eqb_spec c 4); [discriminate|].
  unfold R.c_isResultOfOp_3, R.g_INTERSECTION, R.g_UNION, R.g_DIFFERENCE, R.g_SYMDIFFERENCE.
  kill_neq. destruct (l0 =? R.E_Location_BOUNDARY), (l1 =? R.E_Location_BOUNDARY); reflexivity.
Qed.

(* on the three locations of a point with respect to a geometry: in the result iff the Boolean combination of
   "not in the exterior" holds; NONE (-1, "not part of this geometry") counts as exterior *)
Theorem isResultOfOp_boolean : forall (o : ovop) (l0 l1 : location),
  R.c_isResultOfOp_3 (op_code o) (loc_code l0) (loc_code l1) = boolop o (negb (is_exterior l0)) (negb (is_exterior l1)).
Proof. intros o l0 l1. rewrite isResultOfOp_table. destruct l0, l1; reflexivity. Qed.

Theorem isResultOfOp_none : forall (o : ovop) (l : location),
  R.c_isResultOfOp_3 (op_code o) (loc_code l) GL3.g_LOC_UNKNOWN = boolop o (negb (is_exterior l)) false
  /\ R.c_isResultOfOp_3 (op_code o) GL3.g_LOC_UNKNOWN (loc_code l) = boolop o false (negb (is_exterior l)).
Proof. intros o l. rewrite !isResultOfOp_table. destruct l; split; reflexivity. Qed.

(* the overload on a label: the ON (line) locations of the two operands *)
Theorem isResultOfOpPoint_boolean : forall (o : ovop) (lbl : olabel),
  RP.c_isResultOfOpPoint_2 lbl (op_code o) = boolop o (covered (f_aLocLine lbl)) (covered (f_bLocLine lbl)).
Proof. intros o lbl. unfold RP.c_isResultOfOpPoint_2, GL1.m_getLocation_1. cbn [Z.eqb]. apply isResultOfOp_table. Qed.

(* OverlayLabel::getLocation(index, position, isForward): LEFT and RIGHT are exchanged for a reversed edge, ON is the line
   location, any other position is LOC_UNKNOWN *)
Theorem getLocation3_table : forall (lbl : olabel) (idx pos : Z) (fwd : bool),
  GL3.m_getLocation_3 lbl idx pos fwd =
  let a := idx =? 0 in
  if pos =? GL3.E_LEFT then (if fwd then (if a then f_aLocLeft lbl else f_bLocLeft lbl) else (if a then f_aLocRight lbl else f_bLocRight lbl))
  else if pos =? GL3.E_RIGHT then (if fwd then (if a then f_aLocRight lbl else f_bLocRight lbl) else (if a then f_aLocLeft lbl else f_bLocLeft lbl))
  else if pos =? GL3.E_ON then (if a then f_aLocLine lbl else f_bLocLine lbl)
  else GL3.g_LOC_UNKNOWN.
Proof.
  intros lbl idx pos fwd. unfold GL3.m_getLocation_3, GL3.E_LEFT, GL3.E_RIGHT, GL3.E_ON. cbn zeta.
  destruct (idx =? 0); split_eqb pos 1; [reflexivity| |reflexivity|]; (split_eqb pos 2; [reflexivity|]); (split_eqb pos 0; [reflexivity|]);
    kill_neq; reflexivity.
Qed.
Theorem getLocation3_reverse : forall lbl idx fwd,
  GL3.m_getLocation_3 lbl idx GL3.E_LEFT fwd = GL3.m_getLocation_3 lbl idx GL3.E_RIGHT (negb fwd).
Proof. intros. rewrite !getLocation3_table. cbn. destruct fwd, (idx =? 0); reflexivity. Qed.

(* ------------------------------------------------------------------ OverlayUtil::resultDimension *)
Theorem resultDimension_table : forall (o : ovop) (d0 d1 : Z),
  RD.c_resultDimension_3 (op_code o) d0 d1 = result_dim o d0 d1.
Proof. intros o d0 d1. destruct o; reflexivity. Qed.
Theorem resultDimension_other_codes : forall c d0 d1, op_of_code c = None -> RD.c_resultDimension_3 c d0 d1 = -1.
Proof.
  intros c d0 d1 H. unfold op_of_code in H.
  destruct (Z.eqb_spec c 1); [discriminate|]. destruct (Z.eqb_spec c 2); [discriminate|].
  destruct (Z.eqb_spec c 3); [discriminate|]. destruct (Z.eqb_spec c 4); [discriminate|].
  unfold RD.c_resultDimension_3, RD.g_INTERSECTION, RD.g_UNION, RD.g_DIFFERENCE, RD.g_SYMDIFFERENCE. kill_neq. reflexivity.
Qed.
(* the result of a Boolean combination never has a higher dimension than the table says, whatever the dimensions of the
   parts of the operands that take part: a part of dimension d of the result lies in A (and, for an intersection, in B) *)
Theorem resultDimension_bounds : forall o d0 d1,
  Z.min d0 d1 <= result_dim o d0 d1 <= Z.max d0 d1.
Proof. intros o d0 d1. destruct o; cbn; lia. Qed.

(* ------------------------------------------------------------------ OverlayUtil::isEmptyResult *)
Theorem isEmptyResult_table : forall (o : ovop) (a b : ogeom),
  ER.c_isEmptyResult_4 (op_code o) a b PMFloating
  = empty_shortcut o (c_isEmpty_1 a) (c_isEmpty_1 b) (negb (env_intersects (og_env a) (og_env b))).
Proof.
  intros o a b. destruct o; cbn; unfold c_isEnvDisjoint_3;
    destruct (c_isEmpty_1 a), (c_isEmpty_1 b), (env_intersects (og_env a) (og_env b)); reflexivity.
Qed.
(* an operation the short-cut reports empty is empty by Boolean semantics: if an empty operand has no point and operands
   with disjoint envelopes have no common point, no point is in the Boolean combination *)
Theorem isEmptyResult_sound : forall (o : ovop) (e0 e1 dj ma mb : bool),
  (e0 = true -> ma = false) -> (e1 = true -> mb = false) -> (dj = true -> ma && mb = false) ->
  empty_shortcut o e0 e1 dj = true -> boolop o ma mb = false.
Proof.
  intros o e0 e1 dj ma mb H0 H1 Hd H.
  destruct o, e0, e1, dj, ma, mb; cbn in *; try reflexivity; try discriminate;
    try (specialize (H0 eq_refl)); try (specialize (H1 eq_refl)); try (specialize (Hd eq_refl)); congruence.
Qed.

(* ------------------------------------------------------------------ the algebra of the four operations *)
Theorem boolop_idempotent : forall a,
  boolop OpInter a a = a /\ boolop OpUnion a a = a /\ boolop OpDiff a a = false /\ boolop OpSym a a = false.
Proof. destruct a; repeat split. Qed.
Theorem boolop_empty : forall o a,
  boolop o a false = (match o with OpInter => false | _ => a end)
  /\ boolop o false a = (match o with OpInter | OpDiff => false | _ => a end).
Proof. destruct o, a; split; reflexivity. Qed.
Theorem boolop_commutative : forall o a b, o <> OpDiff -> boolop o a b = boolop o b a.
Proof. destruct o, a, b; intros; try reflexivity; congruence. Qed.
Theorem boolop_difference_swap : forall a b,
  boolop OpUnion (boolop OpDiff a b) (boolop OpDiff b a) = boolop OpSym a b
  /\ boolop OpInter (boolop OpDiff a b) (boolop OpDiff b a) = false
  /\ boolop OpUnion (boolop OpDiff a b) (boolop OpInter a b) = a
  /\ boolop OpDiff (boolop OpUnion a b) (boolop OpInter a b) = boolop OpSym a b.
Proof. destruct a, b; repeat split. Qed.

(* inclusion - exclusion on any finite family of witnesses (the measure of a class = the number of witnesses in it) *)
Definition cnt {X} (f : X -> bool) (l : list X) : Z := Z.of_nat (length (filter f l)).
Theorem inclusion_exclusion_counts : forall {X} (ma mb : X -> bool) (l : list X),
  cnt (fun q => boolop OpUnion (ma q) (mb q)) l + cnt (fun q => boolop OpInter (ma q) (mb q)) l = cnt ma l + cnt mb l
  /\ cnt (fun q => boolop OpDiff (ma q) (mb q)) l = cnt ma l - cnt (fun q => boolop OpInter (ma q) (mb q)) l
  /\ cnt (fun q => boolop OpSym (ma q) (mb q)) l
     = cnt (fun q => boolop OpUnion (ma q) (mb q)) l - cnt (fun q => boolop OpInter (ma q) (mb q)) l.
Proof.
  intros X ma mb l. unfold cnt. induction l as [|q l IH]; [cbn; lia|].
  cbn [boolop] in *. cbn [filter]; cbv beta. destruct (ma q), (mb q); cbn [orb andb negb xorb length]; rewrite ?Nat2Z.inj_succ; lia.
Qed.
