(* C03/OverlayProofs — the checker of OverlayDefs is sound for the relational specification OverlaySpecW.

   OverlaySpecW is the property C03 with "every location" replaced by "every witness of W(A, B, R)".  Its clauses are
   stated with the MEANING of the distance tests (OverlayGeom: near_seg = true iff some point of the segment is within
   tol; false iff every point of the segment is farther), not with the Boolean tests themselves.

   GAP (why the main theorem is named _partial): that the witness family meets every face of the arrangement of A, B and R
   whose width exceeds the tolerance — so that "every witness" becomes "every location" — is the planar-arrangement
   argument and is NOT proved.  What is proved about the family is its geometry (side_witness_geometry): every side
   witness is one of two points lying strictly on opposite sides of a segment of the arrangement, at distance
   >= eps / sqrt 2 from its line, opposite a point strictly inside a sub-edge of that segment.  The overlay algorithm itself
   (noding, labelling, ring building, snapping and snap-rounding fallbacks) is not modelled: only its results are checked. *)
From Coq Require Import ZArith List Bool Lia.
From GeosV.Lib Require Import GeomDefs LocateDefs ValidDefs.
From GeosV.C03 Require Import OverlayDefs OverlayGeom.
Import ListNotations.
Local Open Scope Z_scope.

(* ------------------------------------------------------------------ list plumbing *)
Lemma isnil_filter_forall : forall {X} (f : X -> bool) (l : list X), isnil (filter f l) = true -> forall x, In x l -> f x = false.
Proof.
  intros X f l H x Hx. destruct (f x) eqn:E; [|reflexivity].
  assert (Hin : In x (filter f l)) by (apply filter_In; split; assumption).
  destruct (filter f l); [destruct Hin|discriminate].
Qed.
Lemma isnil_app : forall {X} (a b : list X), isnil (a ++ b) = true -> isnil a = true /\ isnil b = true.
Proof. intros X [|x a] b H; cbn in *; [split; [reflexivity|assumption]|discriminate]. Qed.

Lemma par_insert_in : forall t l x, In x (par_insert t l) -> x = t \/ In x l.
Proof.
  intros t l; induction l as [|h r IH]; intros x H; cbn [par_insert] in H.
  - destruct H as [<-|[]]; left; reflexivity.
  - destruct (par_lt t h).
    + destruct H as [<-|H]; [left; reflexivity|right; exact H].
    + destruct (par_lt h t).
      * destruct H as [<-|H]; [right; left; reflexivity|].
        destruct (IH _ H) as [->|H']; [left; reflexivity|right; right; exact H'].
      * right; exact H.
Qed.
Lemma par_sort_in : forall l x, In x (par_sort l) -> In x l.
Proof.
  induction l as [|t l IH]; intros x H; cbn [par_sort fold_right] in H; [destruct H|].
  destruct (par_insert_in _ _ _ H) as [->|H']; [left; reflexivity|right; apply IH; exact H'].
Qed.
Lemma consec_in : forall {X} (l : list X) a b, In (a, b) (consec l) -> In a l /\ In b l.
Proof.
  induction l as [|x l IH]; intros a b H; [destruct H|].
  destruct l as [|y l']; [destruct H|].
  change (consec (x :: y :: l')) with ((x, y) :: consec (y :: l')) in H.
  destruct H as [E|H]; [inversion E; subst; split; [left; reflexivity|right; left; reflexivity]|].
  destruct (IH _ _ H); split; right; assumption.
Qed.
Lemma node_pars_ok : forall a b ss ps t, In t (node_pars a b ss ps) -> 0 < snd t /\ 0 <= fst t <= snd t.
Proof.
  intros a b ss ps t H. apply par_sort_in in H. apply filter_In in H. destruct H as [_ H].
  unfold par_ok in H. apply andb_prop in H; destruct H as [H H3]. apply andb_prop in H; destruct H as [H1 H2].
  apply Z.ltb_lt in H1. apply Z.leb_le in H2. apply Z.leb_le in H3. lia.
Qed.
Lemma nodup_segs_in : forall l s, In s (nodup_segs l) -> In s l.
Proof.
  induction l as [|t l IH]; intros s H; [destruct H|]. cbn [nodup_segs] in H.
  destruct (existsb (seg_eqb t) l); [right; apply IH; exact H|].
  destruct H as [<-|H]; [left; reflexivity|right; apply IH; exact H].
Qed.
Lemma pt_eqb_sym : forall a b, pt_eqb a b = pt_eqb b a.
Proof. intros a b. unfold pt_eqb. rewrite (Z.eqb_sym (fst a)), (Z.eqb_sym (snd a)). reflexivity. Qed.
Lemma arr_segs_nondeg : forall p A B R s, In s (arr_segs p A B R) -> pt_eqb (fst s) (snd s) = false.
Proof.
  intros p A B R s H. unfold arr_segs in H. apply nodup_segs_in in H. apply in_map_iff in H. destruct H as (s0 & <- & H).
  assert (N : nondeg s0 = true).
  { apply in_app_or in H. destruct H as [H|H]; [|apply filter_In in H; destruct H as [H _]]; apply filter_In in H; apply H. }
  unfold nondeg in N. apply negb_true_iff in N. unfold seg_norm. destruct (pt_ltb (snd s0) (fst s0)); cbn [fst snd]; [rewrite pt_eqb_sym|]; exact N.
Qed.

(* ------------------------------------------------------------------ geometry of the witness family *)
Lemma hdet_sample : forall a b k pw, hdet a b (sample_pt a b k pw) = 0.
Proof. intros [ax ay] [bx by_] k pw. unfold hdet, sample_pt; cbn [fst snd]. ring. Qed.

(* every side witness: a segment ab of the arrangement, a point m of ab at a dyadic parameter strictly inside a sub-edge
   (no 0 or 1), and q one of the two points on opposite sides of ab next to m *)
Theorem side_witness_geometry : forall p A B R q,
  params_ok p = true -> In q (side_witnesses p A B R) ->
  exists a b k pw q1 q2,
    In (a, b) (arr_segs p A B R) /\ pt_eqb a b = false
    /\ at_param (sample_pt a b k pw) a b k pw /\ 0 < k < pw
    /\ side_pts (p_en p) (p_ed p) a b (sample_pt a b k pw) = [q1; q2] /\ (q = q1 \/ q = q2)
    /\ 0 < snd q
    /\ ((0 < hdet a b q1 /\ hdet a b q2 < 0) \/ (hdet a b q1 < 0 /\ 0 < hdet a b q2))
    /\ (let len := (fst b - fst a) * (fst b - fst a) + (snd b - snd a) * (snd b - snd a) in
        p_en p * p_en p * (len * (snd q * snd q)) <= 2 * (hdet a b q * hdet a b q) * (p_ed p * p_ed p)).
Proof.
  intros p A B R q Hp H.
  unfold params_ok in Hp. apply andb_prop in Hp; destruct Hp as [Hp Hed]. apply andb_prop in Hp; destruct Hp as [Hp Hen].
  apply Z.ltb_lt in Hed. apply Z.ltb_lt in Hen.
  unfold side_witnesses in H. apply in_flat_map in H. destruct H as ([[a b] m] & Hs & Hq). cbn [fst snd] in Hq.
  unfold sample_witnesses, samples_of in Hs. apply in_flat_map in Hs. destruct Hs as ([a' b'] & Hseg & Hm).
  apply in_map_iff in Hm. destruct Hm as (m' & E & Hm). inversion E; subst a' b' m'. cbn [fst snd] in Hm.
  unfold seg_samples in Hm. apply in_flat_map in Hm. destruct Hm as ([t1 t2] & Hc & Hm). cbn [fst snd] in Hm.
  destruct (dyadic DY_FUEL 2 t1 t2) as [[k pw]|] eqn:Ed; [|destruct Hm]. destruct Hm as [<-|[]].
  apply consec_in in Hc. destruct Hc as [H1 H2].
  apply node_pars_ok in H1. apply node_pars_ok in H2.
  destruct (sample_inside_subedge a b t1 t2 k pw ltac:(lia) ltac:(lia) ltac:(lia) ltac:(lia) Ed) as (Hat & Hk & _).
  pose proof (arr_segs_nondeg _ _ _ _ _ Hseg) as Hnd. cbn [fst snd] in Hnd.
  assert (Hpw : 0 < pw) by lia.
  destruct (side_pts_opposite (p_en p) (p_ed p) a b (fst a * pw + k * (fst b - fst a)) (snd a * pw + k * (snd b - snd a)) pw
              Hen Hed Hpw Hnd (hdet_sample a b k pw)) as (q1 & q2 & Es & W1 & W2 & Hopp & D1 & D2).
  exists a, b, k, pw, q1, q2.
  change (fst a * pw + k * (fst b - fst a), snd a * pw + k * (snd b - snd a), pw) with (sample_pt a b k pw) in Es.
  split; [exact Hseg|]. split; [exact Hnd|]. split; [exact Hat|]. split; [exact Hk|]. split; [exact Es|].
  rewrite Es in Hq. assert (Hq' : q = q1 \/ q = q2) by (destruct Hq as [<-|[<-|[]]]; [left|right]; reflexivity).
  split; [exact Hq'|].
  assert (Hw : 0 < pw * p_ed p) by (apply Z.mul_pos_pos; assumption).
  split; [destruct Hq' as [->| ->]; [rewrite W1|rewrite W2]; exact Hw|].
  split; [exact Hopp|].
  destruct Hq' as [->| ->]; [rewrite W1; exact D1|rewrite W2; exact D2].
Qed.

(* ------------------------------------------------------------------ meaning of the tolerance filters *)
(* c is a point of the linework / point components of g *)
Definition on_linework (g : geom) (c : hpt) : Prop :=
  (exists s n m, In s (geom_segs g) /\ at_param c (fst s) (snd s) n m) \/ (exists v, In v (lone_pts g) /\ at_param c v v 0 1).

Lemma at_param_pt : forall v, at_param (hp v) v v 0 1.
Proof. intros [vx vy]. unfold at_param, hp; cbn [fst snd]. repeat split; try lia; ring. Qed.

(* far_geom: EVERY point of every segment and every isolated point of g is farther than tol from q *)
Theorem far_geom_spec : forall tn td g x y w c,
  0 < w -> 0 <= tn -> 0 < td -> far_geom tn td g (x, y, w) = true ->
  on_linework g c -> 0 < snd c -> ~ within tn td (x, y, w) c.
Proof.
  intros tn td g x y w c Hw Htn Htd H Hc Hcw.
  unfold far_geom, near_lines in H. apply negb_true_iff in H. apply orb_false_iff in H. destruct H as [Hs Hp].
  destruct Hc as [(s & n & m & Hin & Hat)|(v & Hin & Hat)].
  - assert (E : near_seg tn td (x, y, w) (fst s) (snd s) = false).
    { destruct (near_seg tn td (x, y, w) (fst s) (snd s)) eqn:E; [|reflexivity].
      rewrite (proj2 (existsb_exists _ _)) in Hs; [discriminate|]. exists s. split; assumption. }
    exact (near_seg_complete tn td x y w (fst s) (snd s) c n m Hw Htn Htd E Hat Hcw).
  - assert (E : near_pt tn td (x, y, w) v = false).
    { destruct (near_pt tn td (x, y, w) v) eqn:E; [|reflexivity].
      rewrite (proj2 (existsb_exists _ _)) in Hp; [discriminate|]. exists v. split; assumption. }
    exact (near_seg_complete tn td x y w v v c 0 1 Hw Htn Htd E Hat Hcw).
Qed.

(* near_lines: SOME point of the linework is within tol of q *)
Theorem near_lines_spec : forall tn td ss ps x y w,
  0 < w -> 0 <= tn -> 0 < td -> near_lines tn td ss ps (x, y, w) = true ->
  exists c, 0 < snd c /\ within tn td (x, y, w) c
            /\ ((exists s n m, In s ss /\ at_param c (fst s) (snd s) n m) \/ (exists v, In v ps /\ at_param c v v 0 1)).
Proof.
  intros tn td ss ps x y w Hw Htn Htd H. unfold near_lines in H. apply orb_prop in H. destruct H as [H|H].
  - apply existsb_exists in H. destruct H as (s & Hin & H).
    destruct (near_seg_sound tn td x y w (fst s) (snd s) Hw Htn Htd H) as (c & n & m & Hat & Hcw & Hwi).
    exists c. split; [exact Hcw|]. split; [exact Hwi|]. left. exists s, n, m. split; assumption.
  - apply existsb_exists in H. destruct H as (v & Hin & H).
    destruct (near_seg_sound tn td x y w v v Hw Htn Htd H) as (c & n & m & Hat & Hcw & Hwi).
    exists c. split; [exact Hcw|]. split; [exact Hwi|]. right. exists v. split; [exact Hin|].
    (* every parameter of the degenerate segment vv denotes v *)
    destruct c as [[cx cy] cw]. unfold at_param in *; cbn [fst snd] in *. destruct Hat as (Hm & Hn & Ex & Ey).
    repeat split; try lia.
    + replace ((m - n) * fst v + n * fst v) with (m * fst v) in Ex by ring.
      assert (m * cx = m * (cw * fst v)) by (rewrite Ex; ring). apply Z.mul_reg_l in H0; [|lia]. rewrite H0. ring.
    + replace ((m - n) * snd v + n * snd v) with (m * snd v) in Ey by ring.
      assert (m * cy = m * (cw * snd v)) by (rewrite Ey; ring). apply Z.mul_reg_l in H0; [|lia]. rewrite H0. ring.
Qed.

(* conversely: a point farther than tol from every point of the linework passes the filter *)
Theorem far_geom_complete : forall tn td g x y w,
  0 < w -> 0 <= tn -> 0 < td ->
  (forall c, on_linework g c -> 0 < snd c -> ~ within tn td (x, y, w) c) -> far_geom tn td g (x, y, w) = true.
Proof.
  intros tn td g x y w Hw Htn Htd H. unfold far_geom. apply negb_true_iff.
  destruct (near_lines tn td (geom_segs g) (lone_pts g) (x, y, w)) eqn:E; [|reflexivity]. exfalso.
  destruct (near_lines_spec _ _ _ _ _ _ _ Hw Htn Htd E) as (c & Hcw & Hwi & Hon).
  exact (H c Hon Hcw Hwi).
Qed.

(* ------------------------------------------------------------------ the relational specification on the witness family *)
Record OverlaySpecW (shape : Prop) (p : params) (o : ovop) (A B R : geom) : Prop := mkSpec {
  (* (i) *)
  os_valid : valid_geom R = true;
  (* (iv) *)
  os_shape : shape;
  (* (ii): at every side witness farther than tol from EVERY point of the linework and point components of A and B, membership
     in R is the Boolean combination of the memberships in A and B *)
  os_sides : forall x y w, In (x, y, w) (side_witnesses p A B R) ->
     (forall c, on_linework A c \/ on_linework B c -> 0 < snd c -> ~ within (p_tn p) (p_td p) (x, y, w) c) ->
     mem R (x, y, w) = boolop o (mem A (x, y, w)) (mem B (x, y, w));
  (* (ii'): at every stable low witness in the Boolean combination, R is within tol *)
  os_lows : forall q, In q (low_witnesses p A B R) -> stable_inputs p A B q = true ->
     boolop o (mem A q) (mem B q) = true -> near_geom (p_tn p) (p_td p) R q = true;
  (* (ii''): a stable sample of a sub-edge outside the Boolean combination has no linear / point part of R within tol/2 *)
  os_lows2 : forall q, In q (map snd (sample_witnesses p A B R)) -> stable_inputs p A B q = true ->
     boolop o (mem A q) (mem B q) = false -> near_lines (p_tn p) (2 * p_td p) (line_segs R) (lone_pts R) q = false;
  (* (iii): every segment of a linear part of R has both ends within tol of (points of) ONE segment of the inputs *)
  os_segs : forall s, In s (line_segs R) ->
     exists t c1 n1 m1 c2 n2 m2, In t (geom_segs A ++ geom_segs B)
       /\ at_param c1 (fst t) (snd t) n1 m1 /\ 0 < snd c1 /\ within (p_tn p) (p_td p) (hp (fst s)) c1
       /\ at_param c2 (fst t) (snd t) n2 m2 /\ 0 < snd c2 /\ within (p_tn p) (p_td p) (hp (snd s)) c2;
  (* (iii): every point part of R is within tol of the linework or of a point part of the inputs, and every vertex of a
     linear / point part of R has the tolerant membership the operation requires *)
  os_pts : forall v, In v (lone_pts R) ->
     exists c, 0 < snd c /\ within (p_tn p) (p_td p) (hp v) c
       /\ ((exists s n m, In s (geom_segs A ++ geom_segs B) /\ at_param c (fst s) (snd s) n m)
           \/ (exists u, In u (lone_pts A ++ lone_pts B) /\ at_param c u u 0 1));
  os_member : forall v, In v (flat_map (fun l => l) (lines_of R) ++ points_of R) -> tol_member p o A B (hp v) = true;
  (* an isolated point of R with stable memberships is in the Boolean combination exactly *)
  os_rpts : forall v, In v (lone_pts R) -> stable_inputs p A B (hp v) = true -> boolop o (mem A (hp v)) (mem B (hp v)) = true
}.

Lemma check_with_sound : forall (shape : bool) p o A B R,
  overlay_check_with shape p o A B R = true ->
  params_ok p = true /\ OverlaySpecW (shape = true) p o A B R.
Proof.
  intros shape p o A B R H. unfold overlay_check_with in H.
  apply andb_prop in H; destruct H as [H C0]. apply andb_prop in H; destruct H as [H C1].
  apply andb_prop in H; destruct H as [H C22]. apply andb_prop in H; destruct H as [H C2]. apply andb_prop in H; destruct H as [H C3].
  apply andb_prop in H; destruct H as [H Csh]. apply andb_prop in H; destruct H as [Hp Cv].
  split; [exact Hp|].
  assert (Hp' := Hp). unfold params_ok in Hp'.
  apply andb_prop in Hp'; destruct Hp' as [Hp' Hed]. apply andb_prop in Hp'; destruct Hp' as [Hp' Hen]. apply andb_prop in Hp'; destruct Hp' as [Htn Htd].
  apply Z.leb_le in Htn. apply Z.ltb_lt in Htd.
  constructor.
  - assumption.
  - assumption.
  - intros x y w Hin Hgeo.
    destruct (side_witness_geometry p A B R _ Hp Hin) as (_ & _ & _ & _ & _ & _ & _ & _ & _ & _ & _ & _ & Hw & _). cbn [snd] in Hw.
    assert (Hfar : far_inputs p A B (x, y, w) = true).
    { unfold far_inputs. apply andb_true_intro. split; apply far_geom_complete; try assumption; intros c Hc; apply Hgeo; [left|right]; exact Hc. }
    pose proof (isnil_filter_forall _ _ C3 _ Hin) as Hb. unfold side_bad in Hb. rewrite Hfar in Hb. cbn [andb] in Hb.
    apply negb_false_iff in Hb. apply eqb_prop in Hb. exact Hb.
  - intros q Hin Hst Hex.
    pose proof (isnil_filter_forall _ _ C2 _ Hin) as Hb. unfold low_bad, expected in Hb. rewrite Hst, Hex in Hb. cbn [andb] in Hb.
    apply negb_false_iff in Hb. exact Hb.
  - intros q Hin Hst Hex.
    pose proof (isnil_filter_forall _ _ C22 _ Hin) as Hb. unfold low_bad2, expected in Hb. rewrite Hst, Hex in Hb. cbn [andb negb] in Hb.
    exact Hb.
  - intros s Hin.
    pose proof (isnil_filter_forall _ _ C1 _ Hin) as Hb. apply negb_false_iff in Hb.
    unfold seg_on_inputs in Hb. apply existsb_exists in Hb. destruct Hb as (t & Ht & Hb). apply andb_prop in Hb. destruct Hb as [Hb1 Hb2].
    unfold hp in Hb1, Hb2.
    destruct (near_seg_sound _ _ _ _ _ _ _ Z.lt_0_1 Htn Htd Hb1) as (c1 & n1 & m1 & A1 & W1 & I1).
    destruct (near_seg_sound _ _ _ _ _ _ _ Z.lt_0_1 Htn Htd Hb2) as (c2 & n2 & m2 & A2 & W2 & I2).
    exists t, c1, n1, m1, c2, n2, m2. repeat split; assumption.
  - intros v Hin.
    unfold bad_low_pts in C0. apply isnil_app in C0. destruct C0 as [C0 _].
    pose proof (isnil_filter_forall _ _ C0 _ Hin) as Hb. apply negb_false_iff in Hb. unfold hp in Hb.
    exact (near_lines_spec _ _ _ _ _ _ _ Z.lt_0_1 Htn Htd Hb).
  - intros v Hin.
    unfold bad_low_pts in C0. apply isnil_app in C0. destruct C0 as [_ C0]. apply isnil_app in C0. destruct C0 as [C0 _].
    pose proof (isnil_filter_forall _ _ C0 _ Hin) as Hb. apply negb_false_iff in Hb. exact Hb.
  - intros v Hin Hst.
    unfold bad_low_pts in C0. apply isnil_app in C0. destruct C0 as [_ C0]. apply isnil_app in C0. destruct C0 as [_ C0].
    pose proof (isnil_filter_forall _ _ C0 _ Hin) as Hb. cbv beta in Hb. rewrite Hst in Hb. cbn [andb] in Hb.
    apply negb_false_iff in Hb. exact Hb.
Qed.

(* the hypothesis "far_inputs = true" of clause (ii) IS the geometric statement: the filter is not weaker than it says *)
Theorem far_inputs_spec : forall p A B x y w,
  params_ok p = true -> 0 < w -> far_inputs p A B (x, y, w) = true ->
  forall c, on_linework A c \/ on_linework B c -> 0 < snd c -> ~ within (p_tn p) (p_td p) (x, y, w) c.
Proof.
  intros p A B x y w Hp Hw H c Hc Hcw. unfold params_ok in Hp.
  apply andb_prop in Hp; destruct Hp as [Hp _]. apply andb_prop in Hp; destruct Hp as [Hp _]. apply andb_prop in Hp; destruct Hp as [Htn Htd].
  apply Z.leb_le in Htn. apply Z.ltb_lt in Htd.
  unfold far_inputs in H. apply andb_prop in H. destruct H as [HA HB].
  destruct Hc as [Hc|Hc]; [exact (far_geom_spec _ _ A x y w c Hw Htn Htd HA Hc Hcw)|exact (far_geom_spec _ _ B x y w c Hw Htn Htd HB Hc Hcw)].
Qed.

Theorem overlay_check_sound : forall p o A B R,
  overlay_check p o A B R = true -> params_ok p = true /\ OverlaySpecW (shape_ok o A B R = true) p o A B R.
Proof. intros. apply check_with_sound. assumption. Qed.
Theorem unary_check_sound : forall p G R,
  unary_check p G R = true -> params_ok p = true /\ OverlaySpecW (shape_unary G R = true) p OpUnion G (GColl []) R.
Proof. intros. apply check_with_sound. assumption. Qed.

(* ClipByRect: membership at the side witnesses and the linear parts on the inputs *)
Theorem membership_check_sound : forall p o A B R,
  membership_check p o A B R = true ->
  (forall q, In q (side_witnesses p A B R) -> far_inputs p A B q = true -> mem R q = boolop o (mem A q) (mem B q))
  /\ (forall s, In s (line_segs R) -> seg_on_inputs p (geom_segs A ++ geom_segs B) s = true).
Proof.
  intros p o A B R H. unfold membership_check in H.
  apply andb_prop in H; destruct H as [H C1]. apply andb_prop in H; destruct H as [Hp C3]. split.
  - intros q Hin Hfar. pose proof (isnil_filter_forall _ _ C3 _ Hin) as Hb. unfold side_bad in Hb. rewrite Hfar in Hb. cbn [andb] in Hb.
    apply negb_false_iff in Hb. apply eqb_prop in Hb. exact Hb.
  - intros s Hin. pose proof (isnil_filter_forall _ _ C1 _ Hin) as Hb. apply negb_false_iff in Hb. exact Hb.
Qed.

(* ------------------------------------------------------------------ clause (iv) spelled out *)
Theorem shape_ok_spec : forall o A B R, shape_ok o A B R = true ->
  (is_empty R = true -> empty_shape (result_dim o (dimension A) (dimension B)) R = true)
  /\ (is_empty R = false -> built_shape R = true /\ dimension R <= result_dim o (dimension A) (dimension B))
  /\ (empty_shortcut o (is_empty A) (is_empty B) (env_disjoint (env_of A) (env_of B)) = true -> is_empty R = true).
Proof.
  intros o A B R H. unfold shape_ok in H. apply andb_prop in H. destruct H as [H1 H2].
  split; [|split].
  - intro E. rewrite E in H1. exact H1.
  - intro E. rewrite E in H1. apply andb_prop in H1. destruct H1 as [H1 H3]. apply Z.leb_le in H3. split; assumption.
  - intro E. rewrite E in H2. exact H2.
Qed.

(* ------------------------------------------------------------------ clause (v) spelled out *)
Theorem area_laws_spec : forall p A B I U D S E, 0 < p_td p -> area_laws p A B I U D S E = true ->
  let P := geom_perim1 A + geom_perim1 B in
  let tol4P k := k * 4 * p_tn p * P in
  Z.abs (geom_area2 U + geom_area2 I - geom_area2 A - geom_area2 B) * p_td p <= tol4P 2
  /\ Z.abs (geom_area2 D - (geom_area2 A - geom_area2 I)) * p_td p <= tol4P 2
  /\ Z.abs (geom_area2 E - (geom_area2 B - geom_area2 I)) * p_td p <= tol4P 2
  /\ Z.abs (geom_area2 S - (geom_area2 U - geom_area2 I)) * p_td p <= tol4P 2
  /\ Z.abs (geom_area2 S - (geom_area2 D + geom_area2 E)) * p_td p <= tol4P 3.
Proof.
  intros p A B I U D S E _ H. unfold area_laws, within_area_tol in H. cbv zeta in H.
  repeat (apply andb_prop in H; let H' := fresh "C" in destruct H as [H H']).
  apply Z.leb_le in H, C, C0, C1, C2. cbv zeta. repeat split; assumption.
Qed.
