(* C16 — property theorems only. Each is closed by `exact <lemma>` and followed by Print Assumptions; Examples are non-vacuity. *)
From Coq Require Import ZArith List Bool Reals.
From GeosV.Lib Require Import KernelDefs GenPreludeF.
From GeosV.C16 Require Import Defs B64Defs InCircle Mesh Voronoi B64.
From GeosV.Gen Require TP_isInCircleRobust TP_isInCircleNonRobust.
Import ListNotations.
Local Open Scope Z_scope.

(* ---------------------------------------------------------------- in-circle determinant: laws *)
(* translation by the fourth point gives the lifted 4x4 determinant *)
Theorem C16_incircle_lifted : forall a b c d, incircle a b c d = incircle4 a b c d.
Proof. exact incircle_lifted. Qed.
Print Assumptions C16_incircle_lifted.
(* swapping any two arguments changes the sign *)
Theorem C16_incircle_swap : forall a b c d,
  incircle b a c d = - incircle a b c d /\ incircle a c b d = - incircle a b c d /\ incircle c b a d = - incircle a b c d /\
  incircle a b d c = - incircle a b c d /\ incircle d b c a = - incircle a b c d /\ incircle a d c b = - incircle a b c d.
Proof.
  exact (fun a b c d => conj (incircle_swap_ab a b c d) (conj (incircle_swap_bc a b c d) (conj (incircle_swap_ac a b c d)
        (conj (incircle_swap_cd a b c d) (conj (incircle_swap_ad a b c d) (incircle_swap_bd a b c d)))))).
Qed.
Print Assumptions C16_incircle_swap.
Theorem C16_incircle_translate : forall v a b c d, incircle (shift v a) (shift v b) (shift v c) (shift v d) = incircle a b c d.
Proof. exact incircle_translate. Qed.
Print Assumptions C16_incircle_translate.
(* four points at one squared distance from a (rational) centre *)
Theorem C16_incircle_cocircular : forall cx cy w r2 a b c d, w <> 0 ->
  qdist2 cx cy w a = r2 -> qdist2 cx cy w b = r2 -> qdist2 cx cy w c = r2 -> qdist2 cx cy w d = r2 -> incircle a b c d = 0.
Proof. exact incircle_cocircular. Qed.
Print Assumptions C16_incircle_cocircular.
(* meaning of the sign: for a counter-clockwise triangle, > 0 iff d is strictly nearer to the circumcentre than the corners *)
Theorem C16_incircle_sign : forall a b c d, 0 < det a b c ->
  (0 < incircle a b c d <-> cc_dist2 a b c d < cc_dist2 a b c a) /\ (incircle a b c d = 0 <-> cc_dist2 a b c d = cc_dist2 a b c a).
Proof. exact (fun a b c d H => conj (incircle_pos_iff_inside a b c d H) (incircle_zero_iff_on a b c d H)). Qed.
Print Assumptions C16_incircle_sign.
(* the expression coded in TrianglePredicate (read over Z) is the negated determinant *)
Theorem C16_geos_expression : forall q p r t, geos_incircle q p r t = - incircle q p r t.
Proof. exact geos_incircle_eq. Qed.
Print Assumptions C16_geos_expression.
Example ex_incircle_inside : incircle (0, 0) (4, 0) (0, 4) (1, 1) = 96 /\ incircle (0, 0) (4, 0) (0, 4) (4, 4) = 0 /\ incircle (0, 0) (4, 0) (0, 4) (5, 5) = -160.
Proof. vm_compute. repeat split; reflexivity. Qed.

(* ---------------------------------------------------------------- Delaunay checker: soundness, clause by clause *)
Theorem C16_check_delaunay_sound : forall tol2 sites tris, check_delaunay tol2 sites tris = true ->
  DelaunaySpec tol2 sites (map tri_ccw tris).
Proof. exact check_delaunay_sound. Qed.
Print Assumptions C16_check_delaunay_sound.
Theorem C16_check_degenerate_sound : forall tol2 sites K, check_degenerate tol2 sites K = true -> DegenerateSpec tol2 sites K.
Proof. exact check_degenerate_sound. Qed.
Print Assumptions C16_check_degenerate_sound.
Theorem C16_check_edges_sound : forall tris edges, check_edges tris edges = true -> EdgeSpec tris edges.
Proof. exact check_edges_sound. Qed.
Print Assumptions C16_check_edges_sound.
Theorem C16_check_disjoint_sound : forall tris, (forall t, In t tris -> tri_det t <> 0) -> check_disjoint tris = true ->
  ForallOrdPairs interior_disjoint (map tri_ccw tris).
Proof. exact check_disjoint_sound. Qed.
Print Assumptions C16_check_disjoint_sound.

(* counter-clockwise triangles + no directed edge twice + boundary edges = a duplicate-free cycle  =>  areas add up to the cycle's area *)
Theorem C16_manifold_area : forall ts h, NoDup (dedges ts) -> NoDup h -> boundary_spec (dedges ts) (cycle_edges h) ->
  area_sum ts = area2 (close_ring h).
Proof. exact manifold_area. Qed.
Print Assumptions C16_manifold_area.

(* FULL STATEMENT (not proved): check_delaunay ... = true -> covering_statement (map tri_ccw tris) h  — every point of the hull
   lies in some triangle. PROVED: the triangles lie in the hull, their interiors are pairwise disjoint, and their areas add up
   to the hull's area. Missing: additivity of area / the covering-degree argument that turns these three facts into covering. *)
Theorem C16_manifold_area_tiling_partial : forall tol2 sites tris,
  check_delaunay tol2 sites tris = true -> check_disjoint tris = true ->
  let ts := map tri_ccw tris in
  exists h, hull_cycle (corners ts) h
    /\ area_sum ts = area2 (close_ring h)
    /\ ForallOrdPairs interior_disjoint ts
    /\ (forall t p e, In t ts -> qclosed p t -> In e (cycle_edges h) -> 0 <= qdet (fst e) (snd e) p).
Proof. exact manifold_area_tiling_partial. Qed.
Print Assumptions C16_manifold_area_tiling_partial.

Definition ex_sites : list pt := [(0, 0); (4, 0); (0, 4); (4, 4); (2, 1); (0, 0)].
Definition ex_tris : list tri := [((0, 4), (0, 0), (2, 1)); ((0, 4), (2, 1), (4, 4)); ((4, 4), (2, 1), (4, 0)); ((4, 0), (2, 1), (0, 0))].
Example ex_delaunay_ok : check_delaunay 0 ex_sites ex_tris = true /\ check_disjoint ex_tris = true
  /\ check_edges ex_tris [((0, 4), (4, 4)); ((0, 0), (0, 4)); ((0, 0), (4, 0)); ((4, 0), (4, 4)); ((2, 1), (4, 0)); ((2, 1), (4, 4)); ((0, 4), (2, 1)); ((0, 0), (2, 1))] = true.
Proof. vm_compute. repeat split; reflexivity. Qed.
(* the checker rejects: a non-Delaunay diagonal, a missing triangle, an overlapping triangle *)
Example ex_delaunay_rejects :
  failed (delaunay_clauses 0 [(0, 0); (3, -1); (6, 0); (3, 1)] [((0, 0), (3, -1), (6, 0)); ((0, 0), (6, 0), (3, 1))]) = [8]
  /\ failed (delaunay_clauses 0 ex_sites (tl ex_tris)) = [6; 7]
  /\ failed (delaunay_clauses 0 ex_sites (((0, 0), (4, 0), (2, 1)) :: ex_tris)) = [4; 7]
  /\ check_disjoint (((0, 0), (4, 4), (0, 4)) :: ex_tris) = false.
Proof. vm_compute. repeat split; reflexivity. Qed.
Example ex_degenerate : check_degenerate 0 [(0, 0); (1, 1); (3, 3)] [(0, 0); (1, 1); (3, 3)] = true
  /\ check_degenerate 0 [(0, 0); (1, 1); (3, 4)] [(0, 0); (1, 1); (3, 4)] = false.
Proof. vm_compute. split; reflexivity. Qed.

(* ---------------------------------------------------------------- constrained triangulation checker *)
Theorem C16_check_cdt_sound : forall p tris, check_cdt1 p tris = true -> CdtSpec p (map tri_ccw tris).
Proof. exact check_cdt1_sound. Qed.
Print Assumptions C16_check_cdt_sound.
Theorem C16_check_cdt_multi_sound : forall ps tris, check_cdt ps tris = true ->
  (forall t, In t tris -> owner_count (map poly6 ps) t = 1) /\ forall p, In p ps -> CdtSpec p (map tri_ccw (owned_by p tris)).
Proof. exact check_cdt_sound. Qed.
Print Assumptions C16_check_cdt_multi_sound.
Theorem C16_cdt_area_from_manifold : forall p ts, CdtSpec p ts -> area_sum ts = zsum (map cross (noded_boundary p)).
Proof. exact cdt_area_from_manifold. Qed.
Print Assumptions C16_cdt_area_from_manifold.
(* a square with a triangular hole touching the shell at a vertex of the hole lying on a shell edge *)
Definition ex_poly : polygon := ([(0, 0); (10, 0); (10, 10); (0, 10); (0, 0)], [[(0, 5); (2, 4); (2, 6); (0, 5)]]).
Definition ex_cdt : list tri := [((0, 0), (0, 5), (2, 4)); ((2, 6), (0, 5), (0, 10)); ((2, 6), (10, 10), (10, 0)); ((10, 0), (0, 0), (2, 4));
                                 ((10, 10), (2, 6), (0, 10)); ((10, 0), (2, 4), (2, 6))].
Example ex_cdt_ok : check_cdt1 ex_poly ex_cdt = true /\ failed (cdt_clauses ex_poly (tl ex_cdt)) = [6; 7]
  /\ failed (cdt_clauses ex_poly (((0, 5), (2, 6), (2, 4)) :: ex_cdt)) = [6; 7; 9].
Proof. vm_compute. repeat split; reflexivity. Qed.

(* ---------------------------------------------------------------- Voronoi checker *)
(* the vertex test decides the cell clause: a bound on dist2 v s - dist2 v t at the vertices holds at every convex combination *)
Theorem C16_voronoi_vertex_suffices : forall s t tau ws vs,
  Forall (fun w => 0 <= w) ws -> 0 < wsw ws vs -> (forall v, In v vs -> dist2 v s - dist2 v t <= tau) ->
  qbis s t (wsx ws vs) (wsy ws vs) (wsw ws vs) <= wsw ws vs * wsw ws vs * tau.
Proof. exact voronoi_vertex_suffices. Qed.
Print Assumptions C16_voronoi_vertex_suffices.
Theorem C16_voronoi_cells_meet_on_bisector : forall s t ws vs ws' vs',
  Forall (fun w => 0 <= w) ws -> Forall (fun w => 0 <= w) ws' -> 0 < wsw ws vs -> 0 < wsw ws' vs' ->
  (forall v, In v vs -> dist2 v s - dist2 v t <= 0) -> (forall v, In v vs' -> dist2 v t - dist2 v s <= 0) ->
  wsx ws vs * wsw ws' vs' = wsx ws' vs' * wsw ws vs -> wsy ws vs * wsw ws' vs' = wsy ws' vs' * wsw ws vs ->
  qbis s t (wsx ws vs) (wsy ws vs) (wsw ws vs) = 0.
Proof. exact voronoi_cells_meet_on_bisector. Qed.
Print Assumptions C16_voronoi_cells_meet_on_bisector.
Theorem C16_check_voronoi_sound : forall ulps denv sites cells, check_voronoi ulps denv sites cells = true ->
  VoronoiSpec ulps denv sites (map cell_ccw cells).
Proof. exact check_voronoi_sound. Qed.
Print Assumptions C16_check_voronoi_sound.
(* edges-only output: every returned vertex lies in the envelope and on a Voronoi edge (nearest site s, another site as near) *)
Theorem C16_check_voronoi_edges_sound : forall ulps denv sites lines, check_voronoi_edges ulps denv sites lines = true ->
  forall l v, In l lines -> In v l -> env_covers_pt denv v = true /\ on_voronoi_edge ulps (env_mag denv) sites v.
Proof. exact check_voronoi_edges_sound. Qed.
Print Assumptions C16_check_voronoi_edges_sound.
Example ex_voronoi_edges : check_voronoi_edges 0 (mkEnv (-1) 2 (-1) 2) [(0, 0); (1, 1)] [[(-1, 2); (2, -1)]] = true
  /\ check_voronoi_edges 0 (mkEnv (-1) 2 (-1) 2) [(0, 0); (1, 1)] [[(-1, 2); (2, 0)]] = false.
Proof. vm_compute. split; reflexivity. Qed.
(* two sites, exact cells (units of 1/1): envelope [-1,2]^2 *)
Example ex_voronoi : diagram_env [(0, 0); (1, 1)] None = Some (mkEnv (-1) 2 (-1) 2)
  /\ check_voronoi 0 (mkEnv (-1) 2 (-1) 2) [(0, 0); (1, 1)] [[(2, -1); (-1, -1); (-1, 2)]; [(-1, 2); (2, 2); (2, -1)]] = true
  /\ failed (voronoi_clauses 0 (mkEnv (-1) 2 (-1) 2) [(0, 0); (1, 1)] [[(2, -1); (-1, -1); (-1, 2)]; [(-1, 1); (2, 2); (2, -1)]]) = [6].
Proof. vm_compute. repeat split; reflexivity. Qed.

(* ---------------------------------------------------------------- isInCircleRobust in binary64 *)
(* generated definitions (translator units TP_isInCircle...) = the model that is executed and proved about *)
Theorem C16_gen_isInCircleRobust : forall q p r t, Gen.TP_isInCircleRobust.g_isInCircleRobust q p r t = robust_b64 q p r t.
Proof. exact gen_isInCircleRobust_eq. Qed.
Print Assumptions C16_gen_isInCircleRobust.
Theorem C16_gen_isInCircleNonRobust : forall p q r t, Gen.TP_isInCircleNonRobust.g_isInCircleNonRobust p q r t = nonrobust_b64 p q r t.
Proof. exact gen_isInCircleNonRobust_eq. Qed.
Print Assumptions C16_gen_isInCircleNonRobust.
(* on the 2^25 grid a decided answer is the exact one, and exactly cocircular points are reported BOUNDARY *)
Theorem C16_incircle_b64_sound : forall q p r t, bounded25 q -> bounded25 p -> bounded25 r -> bounded25 t ->
  (robust_grid q p r t = 0 -> 0 < incircle q p r t) /\ (robust_grid q p r t = 2 -> incircle q p r t < 0).
Proof. exact robust_grid_sound. Qed.
Print Assumptions C16_incircle_b64_sound.
Theorem C16_incircle_b64_cocircular : forall q p r t, bounded25 q -> bounded25 p -> bounded25 r -> bounded25 t ->
  incircle q p r t = 0 -> robust_grid q p r t = 1.
Proof. exact robust_grid_cocircular. Qed.
Print Assumptions C16_incircle_b64_cocircular.
(* the error band, precisely: outside  2^53 |incircle| <= 12 * (sum of absolute products)  the answer is the exact one *)
Theorem C16_incircle_b64_band : forall q p r t, bounded25 q -> bounded25 p -> bounded25 r -> bounded25 t ->
  12 * geos_band q p r t < 2 ^ 53 * Z.abs (geos_incircle q p r t) ->
  robust_grid q p r t = 1 + Z.sgn (geos_incircle q p r t).
Proof. exact robust_grid_complete. Qed.
Print Assumptions C16_incircle_b64_band.
(* FULL STATEMENT (refuted): robust_grid q p r t = 1 -> incircle q p r t = 0 on the 2^25 grid.  Witness: *)
Theorem C16_incircle_b64_exact_refuted :
  bounded25 wq /\ bounded25 wp /\ bounded25 wr /\ bounded25 wt /\ 0 < det wq wp wr /\
  incircle wq wp wr wt = 837290705828400 /\ robust_grid wq wp wr wt = 1.
Proof. exact robust_grid_incomplete_refuted. Qed.
Print Assumptions C16_incircle_b64_exact_refuted.
(* FULL STATEMENT (refuted): a triangulation in which no edge test of the flipping loop answers INTERIOR is Delaunay.  Witness
   (four grid sites, the triangulation GEOSDelaunayTriangulation_r returns for them): *)
Theorem C16_delaunay_by_robust_predicate_refuted :
  Forall bounded25 w_sites
  /\ failed (delaunay_clauses 0 w_sites w_tris) = [8]
  /\ local_violations (map tri_ccw w_tris) <> []
  /\ forallb band_blind (local_violations (map tri_ccw w_tris)) = true
  /\ exists t s, In t (map tri_ccw w_tris) /\ In s w_sites /\ 0 < tri_incircle t s.
Proof. exact delaunay_by_robust_predicate_refuted. Qed.
Print Assumptions C16_delaunay_by_robust_predicate_refuted.
Example ex_b64_band : 12 * geos_band (0, 0) (4, 0) (0, 4) (1, 1) < 2 ^ 53 * Z.abs (geos_incircle (0, 0) (4, 0) (0, 4) (1, 1))
  /\ 2 ^ 53 * Z.abs (geos_incircle wq wp wr wt) < 9 * geos_band wq wp wr wt.
Proof. vm_compute. split; reflexivity. Qed.
Example ex_b64_decided : robust_grid (0, 0) (4, 0) (0, 4) (1, 1) = 0 /\ robust_grid (0, 0) (4, 0) (0, 4) (4, 4) = 1
  /\ robust_grid (0, 0) (4, 0) (0, 4) (5, 5) = 2 /\ bounded25 (33554432, -33554432).
Proof. unfold bounded25. vm_compute. repeat split; congruence. Qed.

(* ---------------------------------------------------------------------------------------------------------------------
   The quad-edge algebra (hand model C16/QuadEdgeDefs.v of QuadEdge / QuadEdgeQuartet / QuadEdgeSubdivision::{initSubdiv,
   connect, remove}, run beside the real objects by harness/c16_quadedge.cpp): invariants of every state reached from the empty
   structure by a legal history of makeEdge / splice / connect / swap / remove. *)
Require GeosV.C16.QuadEdgeDefs GeosV.C16.QuadEdgeProofs.
Module C16_QuadEdge.
Import GeosV.C16.QuadEdgeDefs GeosV.C16.QuadEdgeProofs.

(* the induction over operation histories *)
Theorem C16_qe_reachable_invariant : forall h, legal_from empty h = true -> Inv (run empty h).
Proof. exact reachable_Inv. Qed.
Print Assumptions C16_qe_reachable_invariant.

Theorem C16_qe_step_invariant : forall s o, Inv s -> legal s o = true -> Inv (step s o).
Proof. exact step_Inv. Qed.
Print Assumptions C16_qe_step_invariant.

(* rot^4 = id, sym = rot^2, invRot = rot^-1 *)
Theorem C16_qe_rot_group : forall e,
  rot (rot (rot (rot e))) = e /\ sym e = rot (rot e) /\ invRot (rot e) = e /\ rot (invRot e) = e.
Proof. exact qe_rot_group. Qed.
Print Assumptions C16_qe_rot_group.

(* e Onext Rot Onext Rot = e, in both readings *)
Theorem C16_qe_dual_axiom : forall s, reachable s ->
  forall e, rot (oNext s (rot (oNext s e))) = e /\ oNext s (rot (oNext s (rot e))) = e.
Proof. exact qe_dual_axiom. Qed.
Print Assumptions C16_qe_dual_axiom.

(* oNext is a permutation with inverse oPrev; it keeps primal / dual, allocated and alive edges among themselves *)
Theorem C16_qe_onext_permutation : forall s, reachable s ->
  forall e, oPrev s (oNext s e) = e /\ oNext s (oPrev s e) = e
         /\ par (oNext s e) = par e
         /\ (usable s e = true -> usable s (oNext s e) = true /\ usable s (oPrev s e) = true)
         /\ (allocated s e = true -> allocated s (oNext s e) = true).
Proof. exact qe_onext_permutation. Qed.
Print Assumptions C16_qe_onext_permutation.

(* a removed quartet is detached: its four edges point where the QuadEdgeQuartet constructor pointed them *)
Theorem C16_qe_removed_detached : forall s, reachable s ->
  forall e, is_dead s e = true -> oNext s e = (fst e, init_next (snd e)) /\ allocated s e = true.
Proof. exact qe_removed_detached. Qed.
Print Assumptions C16_qe_removed_detached.

Theorem C16_qe_remove_isolates : forall s e, reachable s -> legal s (Remove e) = true ->
  forall x, fst x = fst e -> oNext (remove e s) x = (fst x, init_next (snd x)).
Proof. exact qe_remove_isolates. Qed.
Print Assumptions C16_qe_remove_isolates.

(* splice twice = nothing *)
Theorem C16_qe_splice_involution : forall s a b, reachable s -> legal s (Splice a b) = true ->
  (forall e, oNext (splice a b (splice a b s)) e = oNext s e)
  /\ (forall e, orig (splice a b (splice a b s)) e = orig s e)
  /\ nq (splice a b (splice a b s)) = nq s /\ dead (splice a b (splice a b s)) = dead s.
Proof. exact qe_splice_involution. Qed.
Print Assumptions C16_qe_splice_involution.

(* FULL STATEMENT (not proved): b lies on the oNext ring of a after splice a b iff it did not before (merge / split).
   Proved: the pointer exchange that causes it. *)
Theorem C16_qe_splice_rings_partial : forall s a b, reachable s -> legal s (Splice a b) = true ->
  let s' := splice a b s in
  oNext s' a = oNext s b /\ oNext s' b = oNext s a
  /\ oNext s' (rot (oNext s a)) = oNext s (rot (oNext s b))
  /\ oNext s' (rot (oNext s b)) = oNext s (rot (oNext s a))
  /\ (forall e, e <> a -> e <> b -> e <> rot (oNext s a) -> e <> rot (oNext s b) -> oNext s' e = oNext s e).
Proof. exact qe_splice_exchange. Qed.
Print Assumptions C16_qe_splice_rings_partial.

(* FULL STATEMENT (not proved): additionally lNext s' a = q /\ lNext s' q = b (same left face). *)
Theorem C16_qe_connect_partial : forall s a b, reachable s -> legal s (Connect a b) = true ->
  let s' := fst (connect a b s) in let q := snd (connect a b s) in
  q = (nq s, R0) /\ nq s' = S (nq s) /\ orig s' q = dest s a /\ dest s' q = orig s b
  /\ (forall e, fst e <> nq s -> orig s' e = orig s e).
Proof. exact qe_connect_partial. Qed.
Print Assumptions C16_qe_connect_partial.

(* non-vacuity: the triangle of ex_triangle is reachable, the operations below are legal on it, and the boolean form of the
   invariant, the rings and the lNext cycle of the triangle are as expected *)
Example ex_qe_reachable : reachable tri_state /\ legal_from empty quad_history = true
  /\ legal tri_state (Splice (0%nat, R0) (1%nat, R0)) = true /\ legal tri_state (Connect (0%nat, R0) (2%nat, R0)) = true
  /\ legal tri_state (Remove (2%nat, R0)) = true /\ legal tri_state (Swap (2%nat, R0)) = true
  /\ is_dead (run empty quad_history) (4%nat, R1) = true /\ usable tri_state (1%nat, R3) = true.
Proof. split; [exact ex_reachable_tri | vm_compute; repeat split]. Qed.
Example ex_qe_triangle : inv_b tri_state = true
  /\ orbit tri_state (0%nat, R0) = [(0%nat, R0); (2%nat, R2)] /\ orbit tri_state (0%nat, R1) = [(0%nat, R1); (2%nat, R1); (1%nat, R1)]
  /\ lNext tri_state (1%nat, R0) = (2%nat, R0) /\ lNext tri_state (2%nat, R0) = (0%nat, R0) /\ lNext tri_state (0%nat, R0) = (1%nat, R0).
Proof. vm_compute. repeat split. Qed.
End C16_QuadEdge.
