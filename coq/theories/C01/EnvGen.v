(* C01/C02 — the envelope predicates the predicate layer relies on (Lib/GenPreludePred.v: m_covers_1, m_intersects_1,
   m_equals_1, m_isNull_0 on `envl`) ARE the generated Envelope::covers / intersects / equals / isNull of the C++
   (Gen/ENV_xxx), under the representation  None = the null envelope (all bounds NaN),  Some (x0,x1,y0,y1) = finite bounds. *)
From Coq Require Import ZArith Bool Lia.
From GeosV.Lib Require Import GenPreludePred GenPreludeEnv.
From GeosV.Gen Require ENV_isNull ENV_covers ENV_intersects ENV_equals.
Require Import ZifyBool.
Local Open Scope Z_scope.

Definition rep (e : envl) : env4 :=
  match e with
  | None => mkEnv4 None None None None
  | Some (x0, x1, y0, y1) => mkEnv4 (Some x0) (Some x1) (Some y0) (Some y1)
  end.

Theorem gen_env_isNull : forall e, ENV_isNull.m_isNull_0 (rep e) = GenPreludePred.m_isNull_0 e.
Proof. intros [[[[x0 x1] y0] y1]|]; reflexivity. Qed.
Theorem gen_env_covers : forall a b, ENV_covers.m_covers_1 (rep a) (rep b) = GenPreludePred.m_covers_1 a b.
Proof. intros [[[[ax0 ax1] ay0] ay1]|] [[[[bx0 bx1] by0] by1]|]; try reflexivity; cbv [ENV_covers.m_covers_1 rep f_minx f_maxx f_miny f_maxy c_isgreaterequal_2 c_islessequal_2 cmp2 GenPreludePred.m_covers_1]; lia. Qed.
Theorem gen_env_intersects : forall a b, ENV_intersects.m_intersects_1 (rep a) (rep b) = GenPreludePred.m_intersects_1 a b.
Proof. intros [[[[ax0 ax1] ay0] ay1]|] [[[[bx0 bx1] by0] by1]|]; try reflexivity; cbv [ENV_intersects.m_intersects_1 rep f_minx f_maxx f_miny f_maxy c_isgreaterequal_2 c_islessequal_2 cmp2 GenPreludePred.m_intersects_1]; lia. Qed.
Theorem gen_env_equals : forall a b, ENV_equals.m_equals_1 (rep a) (rep b) = GenPreludePred.m_equals_1 a b.
Proof. intros [[[[ax0 ax1] ay0] ay1]|] [[[[bx0 bx1] by0] by1]|]; try reflexivity; cbv [ENV_equals.m_equals_1 ENV_isNull.m_isNull_0 rep f_minx f_maxx f_miny f_maxy c_isnan_1 GenPreludeEnv.eqb cmp2 GenPreludePred.m_equals_1 GenPreludePred.m_isNull_0]; lia. Qed.

(* algebra of the envelope predicates (C02 env_laws): stated on the generated definitions through the equalities above *)
Theorem env_covers_intersects : forall a b, b <> None -> (match b with Some (x0, x1, y0, y1) => x0 <= x1 /\ y0 <= y1 | None => True end) ->
  GenPreludePred.m_covers_1 a b = true -> GenPreludePred.m_intersects_1 a b = true.
Proof. intros [[[[ax0 ax1] ay0] ay1]|] [[[[bx0 bx1] by0] by1]|] Hn Hw; try discriminate; try congruence.
  cbv [GenPreludePred.m_covers_1 GenPreludePred.m_intersects_1]. lia. Qed.
Theorem env_intersects_sym : forall a b, GenPreludePred.m_intersects_1 a b = GenPreludePred.m_intersects_1 b a.
Proof. intros [[[[ax0 ax1] ay0] ay1]|] [[[[bx0 bx1] by0] by1]|]; try reflexivity. cbv [GenPreludePred.m_intersects_1]. lia. Qed.
Theorem env_covers_trans : forall a b c, GenPreludePred.m_covers_1 a b = true -> GenPreludePred.m_covers_1 b c = true -> GenPreludePred.m_covers_1 a c = true.
Proof. intros [[[[ax0 ax1] ay0] ay1]|] [[[[bx0 bx1] by0] by1]|] [[[[cx0 cx1] cy0] cy1]|]; try discriminate; cbv [GenPreludePred.m_covers_1]; lia. Qed.
Theorem env_disjoint_not_intersects : forall a b, GenPreludePred.m_disjoint_1 a b = negb (GenPreludePred.m_intersects_1 a b).
Proof. reflexivity. Qed.
