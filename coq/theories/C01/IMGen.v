(* C01/C02 — the generated IntersectionMatrix units (what the C++ says now) equal the pattern-set specification,
   for EVERY 3x3 integer matrix and every pair of dimension arguments (no range restriction: both sides are Boolean
   combinations of integer comparisons, decided by lia after unfolding). *)
From Coq Require Import ZArith List Bool Lia String.
From GeosV.Lib Require Import GenPreludeIM IM.
From GeosV.Gen Require Import IM_matches IM_isDisjoint IM_isIntersects IM_isTouches IM_isCrosses IM_isWithin IM_isContains
  IM_isEquals IM_isOverlaps IM_isCovers IM_isCoveredBy.
Import ListNotations.
Require Import ZifyBool.
Local Open Scope Z_scope.

Lemma if_bool (b x y : bool) : (if b then x else y) = (b && x) || (negb b && y).
Proof. destruct b, x, y; reflexivity. Qed.

(* IntersectionMatrix::matches(int, char) is the symbol table *)
Theorem gen_matches_sym : forall v c s, sym_of_code c = Some s -> IM_matches.c_matches_2 v c = sym_matches s v.
Proof. intros v c s. unfold sym_of_code, IM_matches.c_matches_2, chr, IM_matches.E_DimensionType_True, IM_matches.E_DimensionType_False,
    IM_matches.E_DimensionType_P, IM_matches.E_DimensionType_L, IM_matches.E_DimensionType_A.
  destruct (c =? 42) eqn:E1; [intros [= <-]; reflexivity|].
  destruct (c =? 84) eqn:E2; [intros [= <-]; cbn [sym_matches]; unfold dT; rewrite ?if_bool; lia|].
  destruct (c =? 70) eqn:E3; [intros [= <-]; cbn [sym_matches]; unfold dF; rewrite ?if_bool; lia|].
  destruct (c =? 48) eqn:E4; [intros [= <-]; cbn [sym_matches]; rewrite ?if_bool; lia|].
  destruct (c =? 49) eqn:E5; [intros [= <-]; cbn [sym_matches]; rewrite ?if_bool; lia|].
  destruct (c =? 50) eqn:E6; [intros [= <-]; cbn [sym_matches]; rewrite ?if_bool; lia|discriminate]. Qed.
Theorem gen_matches_other : forall v c, sym_of_code c = None -> IM_matches.c_matches_2 v c = false.
Proof. intros v c. unfold sym_of_code, IM_matches.c_matches_2, chr.
  destruct (c =? 42) eqn:E1; [discriminate|]. destruct (c =? 84) eqn:E2; [discriminate|]. destruct (c =? 70) eqn:E3; [discriminate|].
  destruct (c =? 48) eqn:E4; [discriminate|]. destruct (c =? 49) eqn:E5; [discriminate|]. destruct (c =? 50) eqn:E6; [discriminate|].
  intros _. cbn [andb]. reflexivity. Qed.

Ltac im_unfold :=
  cbv [IM_isDisjoint.m_isDisjoint_0 IM_isIntersects.m_isIntersects_0 IM_isWithin.m_isWithin_0 IM_isContains.m_isContains_0
       IM_isCovers.m_isCovers_0 IM_isCoveredBy.m_isCoveredBy_0 IM_isEquals.m_isEquals_2 IM_isCrosses.m_isCrosses_2 IM_isOverlaps.m_isOverlaps_2
       IM_isTouches.m_isTouches_2 IM_isTouches.m_isTouches_2_fuel
       chr zneb m_get_2 nth Z.to_nat Pos.to_nat Pos.iter_op Init.Nat.add Z.mul Z.add Pos.mul Pos.add Pos.succ
       spec_disjoint spec_intersects spec_within spec_contains spec_covers spec_coveredBy spec_equals spec_crosses spec_overlaps spec_touches
       any_pat existsb pat_matches P sym_matches dT dF
       IM_isDisjoint.E_DimensionType_False IM_isDisjoint.E_Location_INTERIOR IM_isDisjoint.E_Location_BOUNDARY
       IM_isWithin.E_DimensionType_False IM_isWithin.E_Location_INTERIOR IM_isWithin.E_Location_BOUNDARY IM_isWithin.E_Location_EXTERIOR
       IM_isContains.E_DimensionType_False IM_isContains.E_Location_INTERIOR IM_isContains.E_Location_BOUNDARY IM_isContains.E_Location_EXTERIOR
       IM_isCovers.E_DimensionType_False IM_isCovers.E_Location_INTERIOR IM_isCovers.E_Location_BOUNDARY IM_isCovers.E_Location_EXTERIOR
       IM_isCoveredBy.E_DimensionType_False IM_isCoveredBy.E_Location_INTERIOR IM_isCoveredBy.E_Location_BOUNDARY IM_isCoveredBy.E_Location_EXTERIOR
       IM_isEquals.E_DimensionType_False IM_isEquals.E_Location_INTERIOR IM_isEquals.E_Location_BOUNDARY IM_isEquals.E_Location_EXTERIOR
       IM_isCrosses.E_DimensionType_P IM_isCrosses.E_DimensionType_L IM_isCrosses.E_DimensionType_A IM_isCrosses.E_Location_INTERIOR IM_isCrosses.E_Location_EXTERIOR
       IM_isOverlaps.E_DimensionType_P IM_isOverlaps.E_DimensionType_L IM_isOverlaps.E_DimensionType_A IM_isOverlaps.E_Location_INTERIOR IM_isOverlaps.E_Location_EXTERIOR
       IM_isTouches.E_DimensionType_P IM_isTouches.E_DimensionType_L IM_isTouches.E_DimensionType_A IM_isTouches.E_DimensionType_False
       IM_isTouches.E_Location_INTERIOR IM_isTouches.E_Location_BOUNDARY].

Ltac case_dim d :=
  destruct (Z.eqb_spec d 0) as [->|?]; [| destruct (Z.eqb_spec d 1) as [->|?]; [| destruct (Z.eqb_spec d 2) as [->|?]]].
Ltac im_solve :=
  im_unfold; rewrite ?(fun v => gen_matches_sym v 84 ST eq_refl); cbv [sym_matches dT dF]; rewrite ?if_bool; lia.
Ltac im_solve_dims dA dB :=
  im_unfold; rewrite ?(fun v => gen_matches_sym v 84 ST eq_refl); cbv [sym_matches dT dF];
  case_dim dA; case_dim dB; cbv beta iota; cbn [andb orb negb]; rewrite ?if_bool; lia.

Section AllMatrices.
  Variables a b c d e f g h i : Z.
  Let m := mk9 a b c d e f g h i.

  Theorem gen_isDisjoint : IM_isDisjoint.m_isDisjoint_0 m = spec_disjoint m.
  Proof. subst m. unfold mk9. im_solve. Qed.
  Theorem gen_isIntersects : IM_isIntersects.m_isIntersects_0 m = spec_intersects m.
  Proof. subst m. unfold mk9. im_solve. Qed.
  Theorem gen_isWithin : IM_isWithin.m_isWithin_0 m = spec_within m.
  Proof. subst m. unfold mk9. im_solve. Qed.
  Theorem gen_isContains : IM_isContains.m_isContains_0 m = spec_contains m.
  Proof. subst m. unfold mk9. im_solve. Qed.
  Theorem gen_isCovers : IM_isCovers.m_isCovers_0 m = spec_covers m.
  Proof. subst m. unfold mk9. im_solve. Qed.
  Theorem gen_isCoveredBy : IM_isCoveredBy.m_isCoveredBy_0 m = spec_coveredBy m.
  Proof. subst m. unfold mk9. im_solve. Qed.
  Theorem gen_isEquals : forall dA dB, IM_isEquals.m_isEquals_2 m dA dB = spec_equals dA dB m.
  Proof. intros dA dB. subst m. unfold mk9. im_solve_dims dA dB. Qed.
  Theorem gen_isCrosses : forall dA dB, IM_isCrosses.m_isCrosses_2 m dA dB = spec_crosses dA dB m.
  Proof. intros dA dB. subst m. unfold mk9. im_solve_dims dA dB. Qed.
  Theorem gen_isOverlaps : forall dA dB, IM_isOverlaps.m_isOverlaps_2 m dA dB = spec_overlaps dA dB m.
  Proof. intros dA dB. subst m. unfold mk9. im_solve_dims dA dB. Qed.
  (* isTouches: the self call with swapped arguments is unfolded twice by the translator; dimensions outside 0..2 give false *)
  Theorem gen_isTouches : forall dA dB, IM_isTouches.m_isTouches_2 m dA dB = spec_touches dA dB m.
  Proof. intros dA dB. subst m. unfold mk9. im_solve_dims dA dB. Qed.
End AllMatrices.
