(* C01/ArrangementProofs — lemmas about C01/ArrangementDefs.
   Part 1: the fast locator is the specification locator (loc_dim_fast = loc_dim_h), for every rule, geometry and point.
   Part 2: flattening commutes with coordinate maps. *)
From Coq Require Import ZArith List Bool Lia.
From GeosV.Lib Require Import GeomDefs LocateDefs ValidDefs Geom Locate.
From GeosV.C01 Require Import ArrangementDefs.
Import ListNotations.
Local Open Scope Z_scope.

(* ------------------------------------------------------------------ flattening under a coordinate map *)
Lemma flat_map_map_geom : forall {X} (F : geom -> list X) (f : pt -> pt) (G : list X -> list X) gs,
  (forall l1 l2, G (l1 ++ l2) = G l1 ++ G l2) -> G [] = [] ->
  Forall (fun g => F (map_geom f g) = G (F g)) gs ->
  flat_map F (map (map_geom f) gs) = G (flat_map F gs).
Proof.
  intros X F f G gs Happ Hnil H. induction H as [|g gs Hg _ IH]; cbn [map flat_map]; [symmetry; exact Hnil|].
  rewrite Hg, IH, Happ. reflexivity.
Qed.
Lemma polys_of_map : forall f g, polys_of (map_geom f g) = map (map_poly f) (polys_of g).
Proof.
  intros f. induction g using geom_ind'; try reflexivity.
  cbn [map_geom polys_of]. apply (flat_map_map_geom polys_of f (map (map_poly f))); [apply map_app | reflexivity | assumption].
Qed.
Lemma lines_of_map : forall f g, lines_of (map_geom f g) = map (map f) (lines_of g).
Proof.
  intros f. induction g using geom_ind'; try reflexivity.
  cbn [map_geom lines_of]. apply (flat_map_map_geom lines_of f (map (map f))); [apply map_app | reflexivity | assumption].
Qed.
Lemma opt_list_map : forall (f : pt -> pt) o, opt_list (option_map f o) = map f (opt_list o).
Proof. intros f [a|]; reflexivity. Qed.
Lemma points_of_map : forall f g, points_of (map_geom f g) = map f (points_of g).
Proof.
  intros f. induction g using geom_ind'; try reflexivity.
  - cbn [map_geom points_of]. apply opt_list_map.
  - cbn [map_geom points_of]. apply flat_map_map_comm. intros. apply opt_list_map.
  - cbn [map_geom points_of]. apply (flat_map_map_geom points_of f (map f)); [apply map_app | reflexivity | assumption].
Qed.
Lemma concat_map_map : forall {X Y} (f : X -> Y) (ls : list (list X)), concat (map (map f) ls) = map f (concat ls).
Proof. intros. induction ls as [|l ls IH]; cbn; [reflexivity|]. rewrite map_app, IH. reflexivity. Qed.
Lemma coords_of_map : forall f g, coords_of (map_geom f g) = map f (coords_of g).
Proof.
  intros f. induction g using geom_ind'; try reflexivity.
  - cbn [map_geom coords_of]. apply opt_list_map.
  - cbn [map_geom coords_of]. rewrite map_app, concat_map_map. reflexivity.
  - cbn [map_geom coords_of]. apply flat_map_map_comm. intros. apply opt_list_map.
  - cbn [map_geom coords_of]. apply concat_map_map.
  - cbn [map_geom coords_of]. apply flat_map_map_comm. intros [s hs]. unfold map_poly. cbn [fst snd].
    rewrite map_app, concat_map_map. reflexivity.
  - cbn [map_geom coords_of]. apply (flat_map_map_geom coords_of f (map f)); [apply map_app | reflexivity | assumption].
Qed.

(* ------------------------------------------------------------------ the fast locator *)
Section Fast.
  Variable w : Z.
  Hypothesis Hw : 0 < w.
  Let S := scale_pt w.
  Let Zp (a : pt) : zpt := (a, S a).

  Lemma orient_cyc : forall p a b, orient p a b = orient a b p.
  Proof. intros [px py] [ax ay] [bx by_]. unfold orient. cbn [fst snd]. ring. Qed.
  Lemma orient_oq : forall p a b, orient (S a) (S b) p = w * oq p (Zp a) (Zp b).
  Proof. intros [px py] [ax ay] [bx by_]. unfold orient, oq, Zp, S, scale_pt. cbn [fst snd]. ring. Qed.
  Lemma mul_pos_eq0 : forall o, (w * o =? 0) = (o =? 0).
  Proof. intros. apply bool_eq_iff. rewrite !Z.eqb_eq. nia. Qed.
  Lemma mul_pos_gt0 : forall o, (0 <? w * o) = (0 <? o).
  Proof. intros. apply bool_eq_iff. rewrite !Z.ltb_lt. nia. Qed.
  Lemma mul_pos_lt0 : forall o, (w * o <? 0) = (o <? 0).
  Proof. intros. apply bool_eq_iff. rewrite !Z.ltb_lt. nia. Qed.

  Lemma on_seg_f_eq : forall p a b, on_seg_f p (Zp a) (Zp b) = on_seg p (S a) (S b).
  Proof.
    intros. unfold on_seg_f, on_seg. rewrite orient_oq, mul_pos_eq0. unfold Zp. cbn [fst snd].
    destruct (oq p (a, S a) (b, S b) =? 0), (between (fst p) (fst (S a)) (fst (S b))), (between (snd p) (snd (S a)) (snd (S b))); reflexivity.
  Qed.
  Lemma zsegs_zip : forall l, zsegs (map Zp l) = map (fun s => (Zp (fst s), Zp (snd s))) (segs l).
  Proof.
    induction l as [|a l IH]; [reflexivity|]. destruct l as [|b l]; [reflexivity|].
    cbn [map zsegs segs fst snd] in *. rewrite IH. reflexivity.
  Qed.
  Lemma segs_scale : forall l, segs (map S l) = map (fun s => (S (fst s), S (snd s))) (segs l).
  Proof.
    induction l as [|a l IH]; [reflexivity|]. destruct l as [|b l]; [reflexivity|].
    cbn [map segs fst snd] in *. rewrite IH. reflexivity.
  Qed.
  Lemma on_path_f_eq : forall p l, on_path_f p (map Zp l) = on_path p (map S l).
  Proof.
    intros p l. destruct l as [|a [|b l]]; [reflexivity | reflexivity |].
    unfold on_path_f, on_path.
    change (map Zp (a :: b :: l)) with (Zp a :: Zp b :: map Zp l). change (map S (a :: b :: l)) with (S a :: S b :: map S l).
    cbv beta iota.
    change (Zp a :: Zp b :: map Zp l) with (map Zp (a :: b :: l)). change (S a :: S b :: map S l) with (map S (a :: b :: l)).
    rewrite zsegs_zip, segs_scale.
    induction (segs (a :: b :: l)) as [|s ss IH]; [reflexivity|].
    cbn [map existsb fst snd]. rewrite on_seg_f_eq, IH. reflexivity.
  Qed.
  Lemma edge_turn_f_eq : forall p a b, edge_turn_f p (Zp a) (Zp b) = edge_turn p (S a) (S b).
  Proof.
    intros. unfold edge_turn_f, edge_turn, turn8. unfold Zp at 1 2 3 4. cbn [snd].
    destruct (pt_eqb p (S a) || pt_eqb p (S b)); [reflexivity|].
    rewrite orient_cyc, orient_oq, mul_pos_gt0, mul_pos_lt0. reflexivity.
  Qed.
  Lemma winding8_f_eq : forall p l, winding8_f p (map Zp l) = winding8 p (map S l).
  Proof.
    intros p l. unfold winding8_f, winding8. rewrite zsegs_zip, segs_scale.
    induction (segs l) as [|s ss IH]; [reflexivity|].
    cbn [map fold_right fst snd]. rewrite edge_turn_f_eq, IH. reflexivity.
  Qed.
  Lemma in_ring_f_eq : forall p l, in_ring_f p (map Zp l) = in_ring p (map S l).
  Proof. intros. unfold in_ring_f, in_ring. rewrite on_path_f_eq, winding8_f_eq. reflexivity. Qed.

  Lemma zip_scale_eq : forall l, zip_scale w l = map Zp l.
  Proof. reflexivity. Qed.
  Lemma existsb_map' : forall {X Y} (f : X -> Y) (p : Y -> bool) l, existsb p (map f l) = existsb (fun a => p (f a)) l.
  Proof. intros. induction l as [|a l IH]; cbn; [reflexivity|]. rewrite IH. reflexivity. Qed.
  Lemma existsb_ext' : forall {X} (p q : X -> bool) l, (forall a, p a = q a) -> existsb p l = existsb q l.
  Proof. intros X p q l H. induction l as [|a l IH]; cbn; [reflexivity|]. rewrite H, IH. reflexivity. Qed.

  Lemma existsb_false_all : forall {X} (f : X -> bool) l, existsb f l = false -> forall a, In a l -> f a = false.
  Proof.
    intros X f l H a Ha. destruct (f a) eqn:E; [|reflexivity].
    assert (existsb f l = true) by (apply existsb_exists; exists a; auto). congruence.
  Qed.
  Lemma inside_f_eq : forall p l, on_path p (map S l) = false -> inside_f p (map Zp l) = location_eqb (in_ring p (map S l)) Interior.
  Proof.
    intros p l H. unfold inside_f, in_ring. rewrite H, winding8_f_eq.
    destruct (Z.odd (Z.quot (winding8 p (map S l)) 8)); reflexivity.
  Qed.
  Lemma loc_poly_f_eq : forall p a, loc_poly_f p (zip_poly w a) = loc_poly p (map_poly S a).
  Proof.
    intros p [s hs]. unfold loc_poly_f, loc_poly, zip_poly, map_poly, poly_rings. cbn [fst snd].
    rewrite !zip_scale_eq.
    change (map Zp s :: map (zip_scale w) hs) with (map (zip_scale w) (s :: hs)).
    change (map S s :: map (map S) hs) with (map (map S) (s :: hs)).
    rewrite !existsb_map'.
    rewrite (existsb_ext' (fun a => on_path_f p (zip_scale w a)) (fun a => on_path p (map S a))) by (intros; apply on_path_f_eq).
    match goal with |- (if ?c1 then _ else _) = (if ?c2 then _ else _) => change c2 with c1; destruct c1 eqn:E end; [reflexivity|].
    pose proof (existsb_false_all _ _ E) as Hoff.
    rewrite inside_f_eq by (apply (Hoff s); left; reflexivity).
    assert (Hh : forall h, In h hs -> on_path p (map S h) = false) by (intros h Hh; apply (Hoff h); right; exact Hh).
    assert (Hx : existsb (fun a => inside_f p (zip_scale w a)) hs = existsb (fun a => location_eqb (in_ring p (map S a)) Interior) hs).
    { clear E Hoff. induction hs as [|h hs IH]; [reflexivity|].
      cbn [existsb]. rewrite zip_scale_eq, inside_f_eq by (apply Hh; left; reflexivity).
      rewrite IH by (intros; apply Hh; right; assumption). reflexivity. }
    rewrite Hx. reflexivity.
  Qed.
  Lemma last_zip : forall l a, snd (last (map Zp l) (Zp a)) = last (map S l) (S a).
  Proof. intros. rewrite (last_map Zp), (last_map S). reflexivity. Qed.
  Lemma end_count_f_eq : forall p ls, end_count_f p (map (zip_scale w) ls) = end_count p (map (map S) ls).
  Proof.
    intros p ls. induction ls as [|l ls IH]; [reflexivity|].
    cbn [map end_count_f end_count fold_right]. fold (end_count_f p (map (zip_scale w) ls)). fold (end_count p (map (map S) ls)).
    rewrite IH. destruct l as [|a l]; [reflexivity|].
    rewrite zip_scale_eq. change (map Zp (a :: l)) with (Zp a :: map Zp l) at 1. change (map S (a :: l)) with (S a :: map S l) at 1.
    cbv beta iota.
    change (Zp a :: map Zp l) with (map Zp (a :: l)). change (S a :: map S l) with (map S (a :: l)).
    rewrite last_zip. reflexivity.
  Qed.
  Lemma loc_lines_f_eq : forall r p ls, loc_lines_f r p (map (zip_scale w) ls) = loc_lines r p (map (map S) ls).
  Proof.
    intros. unfold loc_lines_f, loc_lines. rewrite end_count_f_eq, !existsb_map'.
    rewrite (existsb_ext' (fun a => on_path_f p (zip_scale w a)) (fun a => on_path p (map S a))) by (intros; apply on_path_f_eq).
    reflexivity.
  Qed.
  Lemma loc_dim_f_eq : forall r g p, loc_dim_f r w g p = loc_dim r (map_geom S g) p.
  Proof.
    intros. unfold loc_dim_f, loc_dim. rewrite polys_of_map, lines_of_map, points_of_map, !existsb_map'.
    rewrite (existsb_ext' (fun a => location_eqb (loc_poly_f p (zip_poly w a)) Interior) (fun a => location_eqb (loc_poly p (map_poly S a)) Interior))
      by (intros; rewrite loc_poly_f_eq; reflexivity).
    rewrite (existsb_ext' (fun a => location_eqb (loc_poly_f p (zip_poly w a)) Boundary) (fun a => location_eqb (loc_poly p (map_poly S a)) Boundary))
      by (intros; rewrite loc_poly_f_eq; reflexivity).
    rewrite loc_lines_f_eq. reflexivity.
  Qed.
End Fast.

Theorem loc_dim_fast_eq : forall r g q, loc_dim_fast r g q = loc_dim_h r g q.
Proof.
  intros r g q. unfold loc_dim_fast. destruct (Z.ltb_spec 0 (hw q)) as [H|H]; [|reflexivity].
  unfold loc_dim_h. apply loc_dim_f_eq. exact H.
Qed.

(* ------------------------------------------------------------------ the paths certified by eps_ok end in the side witnesses *)
Lemma side_paths_witnesses : forall A B s sg m p, In (s, sg, m, p) (side_paths A B) -> In (m, 1) (witnesses A B) /\ In (p, 2) (witnesses A B).
Proof.
  intros A B s sg m p H. unfold side_paths in H. apply in_flat_map in H. destruct H as (s' & Hs' & H).
  destruct (existsb (seg_eqb s') (ring_segs A ++ ring_segs B)) eqn:E; [|destruct H].
  apply in_flat_map in H. destruct H as (pq & Hpq & H).
  assert (Hw : forall w, In w [(midh (fst pq) (snd pq), 1); (shift 1 (fst s') (snd s') (midh (fst pq) (snd pq)), 2); (shift (-1) (fst s') (snd s') (midh (fst pq) (snd pq)), 2)] -> In w (witnesses A B)).
  { intros w Hw. unfold witnesses. apply in_or_app. right. apply in_flat_map. exists s'. split; [exact Hs'|].
    rewrite E. unfold seg_witnesses. apply in_flat_map. exists pq. split; [exact Hpq | exact Hw]. }
  cbn [In] in H. destruct H as [H | [H | []]]; inversion H; subst; split; apply Hw; cbn [In]; auto.
Qed.
