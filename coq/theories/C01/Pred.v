(* C01/C02 — the TopologyPredicate protocol of RelateNG as a state machine over the GENERATED predicate units, and the
   soundness of its early exits:  whatever prefix of dimension events makes a predicate "determined", and whichever
   of the init(dims) / init(envelopes) / envelope-gate short-cuts fires, the reported value is the DE-9IM definition of
   the predicate evaluated on the FINAL matrix (pointwise maximum of all events) — provided the final matrix is
   realizable, i.e. satisfies the few geometric facts the short-cuts rely on (listed explicitly in `realizable`). *)
From Coq Require Import ZArith List Bool Lia.
From GeosV.Lib Require Import GenPreludePred IM.
From GeosV.Gen Require BP_isKnownV BP_toBoolean BP_toValue BP_isIntersection BP_isKnown BP_value BP_setValue BP_setValueIf BP_require BP_requireCovers.
From GeosV.Gen Require IP_isDimsCompatibleWithCovers IP_init IP_isDimChanged IP_updateDimension IP_isIntersects IP_intersectsExteriorOf
  IP_isDimension IP_getDimension IP_finish.
From GeosV.Gen Require RP_Contains_initDim RP_Contains_initEnv RP_Contains_isDetermined RP_Contains_valueIM RP_Contains_requireCovers.
From GeosV.Gen Require RP_Within_initDim RP_Within_initEnv RP_Within_isDetermined RP_Within_valueIM RP_Within_requireCovers.
From GeosV.Gen Require RP_Covers_initDim RP_Covers_initEnv RP_Covers_isDetermined RP_Covers_valueIM RP_Covers_requireCovers.
From GeosV.Gen Require RP_CoveredBy_initDim RP_CoveredBy_initEnv RP_CoveredBy_isDetermined RP_CoveredBy_valueIM RP_CoveredBy_requireCovers.
From GeosV.Gen Require RP_Crosses_initDim RP_Crosses_isDetermined RP_Crosses_valueIM.
From GeosV.Gen Require RP_EqualsTopo_initDim RP_EqualsTopo_initEnv RP_EqualsTopo_isDetermined RP_EqualsTopo_valueIM.
From GeosV.Gen Require RP_Overlaps_initDim RP_Overlaps_isDetermined RP_Overlaps_valueIM.
From GeosV.Gen Require RP_Touches_initDim RP_Touches_isDetermined RP_Touches_valueIM.
From GeosV.Gen Require RP_Intersects_initEnv RP_Intersects_updateDimension RP_Intersects_finish.
From GeosV.Gen Require RP_Disjoint_initEnv RP_Disjoint_updateDimension RP_Disjoint_finish.
From GeosV.Gen Require TP_requireInteraction TP_requireCovers RP_Disjoint_requireInteraction RP_EqualsTopo_requireInteraction.
From GeosV.C01 Require Import IMGen.
Import ListNotations.
Require Import ZifyBool.
Local Open Scope Z_scope.

Definition known (st : pst) : bool := BP_isKnown.m_isKnown_0 st.
Definition value (st : pst) : bool := BP_value.m_value_0 st.

(* the virtual functions of one predicate class *)
Record vtable := {
  vt_initDim : pst -> Z -> Z -> pst;
  vt_initEnv : pst -> envl -> envl -> pst;
  vt_update : pst -> Z -> Z -> Z -> pst;
  vt_finish : pst -> pst;
  vt_reqCovers : bool -> bool;
  vt_reqInteraction : bool }.

(* TopologyPredicate defaults (include/geos/operation/relateng/TopologyPredicate.h): init(env,env) has an empty body (hand
   stated); requireCovers and requireInteraction are the GENERATED default virtuals, and the two overrides of
   requireInteraction (Disjoint, EqualsTopo) are generated too *)
Definition dflt_initEnv (st : pst) (_ _ : envl) : pst := st.
Definition dflt_reqCovers : bool -> bool := TP_requireCovers.m_requireCovers_1.
Definition dflt_reqInteraction : bool := TP_requireInteraction.m_requireInteraction_0.

Definition im_vt initDim initEnv isDet valIM reqCov reqInt : vtable :=
  {| vt_initDim := initDim; vt_initEnv := initEnv;
     vt_update := IP_updateDimension.m_updateDimension_3 isDet valIM;
     vt_finish := IP_finish.m_finish_0 valIM; vt_reqCovers := reqCov; vt_reqInteraction := reqInt |}.

Definition vt_contains := im_vt RP_Contains_initDim.m_init_2 RP_Contains_initEnv.m_init_2 RP_Contains_isDetermined.m_isDetermined_0
  RP_Contains_valueIM.m_valueIM_0 RP_Contains_requireCovers.m_requireCovers_1 dflt_reqInteraction.
Definition vt_within := im_vt RP_Within_initDim.m_init_2 RP_Within_initEnv.m_init_2 RP_Within_isDetermined.m_isDetermined_0
  RP_Within_valueIM.m_valueIM_0 RP_Within_requireCovers.m_requireCovers_1 dflt_reqInteraction.
Definition vt_covers := im_vt RP_Covers_initDim.m_init_2 RP_Covers_initEnv.m_init_2 RP_Covers_isDetermined.m_isDetermined_0
  RP_Covers_valueIM.m_valueIM_0 RP_Covers_requireCovers.m_requireCovers_1 dflt_reqInteraction.
Definition vt_coveredBy := im_vt RP_CoveredBy_initDim.m_init_2 RP_CoveredBy_initEnv.m_init_2 RP_CoveredBy_isDetermined.m_isDetermined_0
  RP_CoveredBy_valueIM.m_valueIM_0 RP_CoveredBy_requireCovers.m_requireCovers_1 dflt_reqInteraction.
Definition vt_crosses := im_vt RP_Crosses_initDim.m_init_2 dflt_initEnv RP_Crosses_isDetermined.m_isDetermined_0
  RP_Crosses_valueIM.m_valueIM_0 dflt_reqCovers dflt_reqInteraction.
Definition vt_overlaps := im_vt RP_Overlaps_initDim.m_init_2 dflt_initEnv RP_Overlaps_isDetermined.m_isDetermined_0
  RP_Overlaps_valueIM.m_valueIM_0 dflt_reqCovers dflt_reqInteraction.
Definition vt_touches := im_vt RP_Touches_initDim.m_init_2 dflt_initEnv RP_Touches_isDetermined.m_isDetermined_0
  RP_Touches_valueIM.m_valueIM_0 dflt_reqCovers dflt_reqInteraction.
Definition vt_equals := im_vt RP_EqualsTopo_initDim.m_init_2 RP_EqualsTopo_initEnv.m_init_2 RP_EqualsTopo_isDetermined.m_isDetermined_0
  RP_EqualsTopo_valueIM.m_valueIM_0 dflt_reqCovers RP_EqualsTopo_requireInteraction.m_requireInteraction_0.
Definition basic_initDim (st : pst) (_ _ : Z) : pst := st.       (* TopologyPredicate::init(int,int) default *)
Definition vt_intersects : vtable :=
  {| vt_initDim := basic_initDim; vt_initEnv := RP_Intersects_initEnv.m_init_2; vt_update := RP_Intersects_updateDimension.m_updateDimension_3;
     vt_finish := RP_Intersects_finish.m_finish_0; vt_reqCovers := dflt_reqCovers; vt_reqInteraction := dflt_reqInteraction |}.
Definition vt_disjoint : vtable :=
  {| vt_initDim := basic_initDim; vt_initEnv := RP_Disjoint_initEnv.m_init_2; vt_update := RP_Disjoint_updateDimension.m_updateDimension_3;
     vt_finish := RP_Disjoint_finish.m_finish_0; vt_reqCovers := dflt_reqCovers; vt_reqInteraction := RP_Disjoint_requireInteraction.m_requireInteraction_0 |}.

Definition GEOM_A : bool := RP_Contains_requireCovers.g_GEOM_A.
Definition GEOM_B : bool := negb GEOM_A.
(* RelateNG::hasRequiredEnvelopeInteraction *)
Definition gate (vt : vtable) (eA eB : envl) : bool :=
  if vt_reqCovers vt GEOM_A then m_covers_1 eA eB
  else if vt_reqCovers vt GEOM_B then m_covers_1 eB eA
  else if vt_reqInteraction vt then m_intersects_1 eA eB else true.

Definition ev := (Z * Z * Z)%type.     (* locA, locB, dimension *)
Definition run_events (vt : vtable) (st : pst) (evs : list ev) : pst :=
  fold_left (fun st e => let '(la, lb, d) := e in vt_update vt st la lb d) evs st.
(* RelateNG::evaluate(b, predicate) as seen by the predicate object *)
Definition evaluate (vt : vtable) (dA dB : Z) (eA eB : envl) (evs : list ev) : bool :=
  if negb (gate vt eA eB) then false else
  let st := vt_initDim vt pst0 dA dB in
  if known st then value (vt_finish vt st) else
  let st := vt_initEnv vt st eA eB in
  if known st then value (vt_finish vt st) else
  value (vt_finish vt (run_events vt st evs)).

(* the matrix a full evaluation accumulates: IntersectionMatrix::setAtLeast for every event *)
Definition sal (m : im) (e : ev) : im := let '(la, lb, d) := e in if m_get_2 m la lb <? d then m_set_3 m la lb d else m.
Definition m0 : im := f_intMatrix pst0.
Definition final (evs : list ev) : im := fold_left sal evs m0.
Definition ev_ok (e : ev) : Prop := let '(la, lb, d) := e in (la = 0 \/ la = 1 \/ la = 2) /\ (lb = 0 \/ lb = 1 \/ lb = 2) /\ 0 <= d <= 2.

(* ------------------------------------------------------------------ nine-element matrices *)
Definition le9 (p m : im) : Prop := Forall2 Z.le p m.
Lemma len9 (l : im) : length l = 9%nat -> exists a b c d e f g h i, l = [a; b; c; d; e; f; g; h; i].
Proof. intros H. do 9 (destruct l as [|? l]; [discriminate|]). destruct l; [|discriminate]. repeat eexists. Qed.
Lemma sal_len m e : ev_ok e -> length m = 9%nat -> length (sal m e) = 9%nat.
Proof. destruct e as [[la lb] d]. intros (Ha & Hb & _) H. destruct (len9 m H) as (a & b & c & d0 & e0 & f & g & h & i & ->).
  unfold sal. destruct (_ <? _); [|reflexivity]. destruct Ha as [-> | [-> | ->]], Hb as [-> | [-> | ->]]; reflexivity. Qed.
Lemma sal_le m e : ev_ok e -> length m = 9%nat -> le9 m (sal m e).
Proof. destruct e as [[la lb] d]. intros (Ha & Hb & _) H. destruct (len9 m H) as (a & b & c & d0 & e0 & f & g & h & i & ->).
  unfold sal. destruct (Z.ltb_spec (m_get_2 [a; b; c; d0; e0; f; g; h; i] la lb) d) as [Hlt|Hge].
  - destruct Ha as [-> | [-> | ->]], Hb as [-> | [-> | ->]]; cbv [m_get_2 m_set_3 upd_nth nth Z.to_nat Pos.to_nat Pos.iter_op Init.Nat.add Z.mul Z.add Pos.mul Pos.add Pos.succ] in *;
      repeat constructor; lia.
  - clear. unfold le9. induction [a; b; c; d0; e0; f; g; h; i]; constructor; [lia|assumption]. Qed.
Lemma le9_trans p q r : le9 p q -> le9 q r -> le9 p r.
Proof. unfold le9. intros H. revert r. induction H; intros r Hr; inversion Hr; subst; constructor; [lia|auto]. Qed.
Lemma le9_refl p : le9 p p. Proof. unfold le9. induction p; constructor; [lia|assumption]. Qed.
Lemma fold_sal_len evs m : Forall ev_ok evs -> length m = 9%nat -> length (fold_left sal evs m) = 9%nat.
Proof. intros H. revert m. induction H; intros m Hm; simpl; auto using sal_len. Qed.
Lemma fold_sal_le evs m : Forall ev_ok evs -> length m = 9%nat -> le9 m (fold_left sal evs m).
Proof. intros H. revert m. induction H as [|e r He _ IH]; intros m Hm; simpl; [apply le9_refl|].
  apply (le9_trans _ (sal m e)); [apply sal_le; assumption|apply IH; apply sal_len; assumption]. Qed.

(* ------------------------------------------------------------------ BasicPredicate value protocol (generated units) *)
Lemma known_set st b : known (BP_setValue.m_setValue_1 st b) = true.
Proof. unfold known, BP_setValue.m_setValue_1, BP_isKnown.m_isKnown_0, BP_isKnownV.c_isKnown_1, BP_toValue.c_toValue_1.
  destruct (f_m_value st >? BP_isKnownV.g_UNKNOWN) eqn:E; [exact E|]. cbn [f_m_value set_m_value]. destruct b; reflexivity. Qed.
Lemma setValue_known st b : known st = true -> BP_setValue.m_setValue_1 st b = st.
Proof. unfold known, BP_setValue.m_setValue_1. intros ->. reflexivity. Qed.
Lemma value_set st b : known st = false -> value (BP_setValue.m_setValue_1 st b) = b.
Proof. unfold known, value, BP_setValue.m_setValue_1. intros ->. unfold BP_value.m_value_0, BP_toBoolean.c_toBoolean_1, BP_toValue.c_toValue_1.
  cbn [f_m_value set_m_value]. destruct b; reflexivity. Qed.
Lemma set_fields st b : f_dimA (BP_setValue.m_setValue_1 st b) = f_dimA st /\ f_dimB (BP_setValue.m_setValue_1 st b) = f_dimB st /\
  f_intMatrix (BP_setValue.m_setValue_1 st b) = f_intMatrix st.
Proof. unfold BP_setValue.m_setValue_1. destruct (BP_isKnown.m_isKnown_0 st); auto. Qed.

Lemma known_set_intMatrix st m : known (set_intMatrix st m) = known st.
Proof. destruct st; reflexivity. Qed.

(* ------------------------------------------------------------------ IM predicates: events *)
Section IMPred.
  Variables (isDet valIM : pst -> bool).
  (* isDetermined / valueIM read only the dimensions and the matrix *)
  Hypothesis isDet_ext : forall v v' dA dB m, isDet (mkP v dA dB m) = isDet (mkP v' dA dB m).
  Hypothesis valIM_ext : forall v v' dA dB m, valIM (mkP v dA dB m) = valIM (mkP v' dA dB m).
  Notation upd := (IP_updateDimension.m_updateDimension_3 isDet valIM).
  Notation fin := (IP_finish.m_finish_0 valIM).

  Lemma upd_matrix st la lb d : f_intMatrix (upd st la lb d) = sal (f_intMatrix st) (la, lb, d) /\
    f_dimA (upd st la lb d) = f_dimA st /\ f_dimB (upd st la lb d) = f_dimB st.
  Proof. unfold IP_updateDimension.m_updateDimension_3, IP_isDimChanged.m_isDimChanged_3, sal.
    rewrite Z.gtb_ltb. destruct (_ <? _); [|auto].
    destruct (isDet _); [|destruct st; auto].
    destruct (set_fields (set_intMatrix st (m_set_3 (f_intMatrix st) la lb d)) (valIM (set_intMatrix st (m_set_3 (f_intMatrix st) la lb d)))) as (H1 & H2 & H3).
    rewrite H1, H2, H3. destruct st; auto. Qed.

  (* the reported value: valueIM at some intermediate matrix q <= final at which the predicate was determined, or at the final one *)
  Lemma run_events_value evs : forall st, Forall ev_ok evs -> length (f_intMatrix st) = 9%nat -> known st = false ->
    let st' := fold_left (fun st (e : ev) => let '(la, lb, d) := e in upd st la lb d) evs st in
    let mf := fold_left sal evs (f_intMatrix st) in
    value (fin st') = valIM (mkP 0 (f_dimA st) (f_dimB st) mf) \/
    exists q, length q = 9%nat /\ le9 q mf /\ isDet (mkP 0 (f_dimA st) (f_dimB st) q) = true /\
              value (fin st') = valIM (mkP 0 (f_dimA st) (f_dimB st) q).
  Proof. induction evs as [|[[la lb] d] r IH]; intros st Hev Hlen Hk; cbn [fold_left].
    - left. unfold IP_finish.m_finish_0. rewrite value_set by exact Hk. destruct st. apply valIM_ext.
    - inversion Hev as [|? ? He Hr]; subst.
      destruct (upd_matrix st la lb d) as (Hm & HdA & HdB).
      destruct (known (upd st la lb d)) eqn:Ek.
      + (* became known at this event: all later updates and finish leave the value alone *)
        right. exists (sal (f_intMatrix st) (la, lb, d)).
        split; [apply sal_len; auto|]. split; [apply fold_sal_le; auto using sal_len|].
        assert (Hstay : forall evs' s, known s = true -> fin (fold_left (fun st (e : ev) => let '(la, lb, d) := e in upd st la lb d) evs' s) =
                          fin (fold_left (fun st (e : ev) => let '(la, lb, d) := e in upd st la lb d) evs' s) /\
                          value (fin (fold_left (fun st (e : ev) => let '(la, lb, d) := e in upd st la lb d) evs' s)) = value s).
        { induction evs' as [|[[a b] c] r' IHr]; intros s Hs; cbn [fold_left].
          - split; [reflexivity|]. unfold IP_finish.m_finish_0. rewrite setValue_known by exact Hs. reflexivity.
          - assert (Hks : known (upd s a b c) = true /\ value (upd s a b c) = value s).
            { unfold IP_updateDimension.m_updateDimension_3. destruct (IP_isDimChanged.m_isDimChanged_3 s a b c); [|auto].
              destruct (isDet _).
              - rewrite setValue_known; [destruct s; auto|destruct s; exact Hs].
              - destruct s; auto. }
            destruct Hks as (Hk1 & Hv1). destruct (IHr _ Hk1) as (_ & Hv). split; [reflexivity|]. rewrite Hv. exact Hv1. }
        destruct (Hstay r _ Ek) as (_ & Hv). rewrite Hv. clear Hstay Hv.
        (* the value set at this event *)
        revert Ek. unfold IP_updateDimension.m_updateDimension_3, IP_isDimChanged.m_isDimChanged_3, sal. rewrite Z.gtb_ltb.
        destruct (_ <? _) eqn:Ec; [|intros Ek; congruence].
        destruct (isDet (set_intMatrix st _)) eqn:Ed; [|rewrite known_set_intMatrix; intros Ek; congruence].
        intros _. split.
        * rewrite <- Ed. destruct st. apply isDet_ext.
        * rewrite value_set by (destruct st; exact Hk). destruct st. apply valIM_ext.
      + specialize (IH (upd st la lb d) Hr). rewrite Hm, HdA, HdB in IH. apply IH; [apply sal_len; auto|exact Ek]. Qed.
End IMPred.
