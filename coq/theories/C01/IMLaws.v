(* C02 — algebra of the DE-9IM predicate definitions: every "way of asking" is a function of one matrix, and the
   functions are related as set algebra dictates. All statements are for arbitrary integer matrices. *)
From Coq Require Import ZArith List Bool Lia String.
From GeosV.Lib Require Import IM.
Import ListNotations.
Require Import ZifyBool.
Local Open Scope Z_scope.

Ltac spec_unfold := cbv [spec_disjoint spec_intersects spec_within spec_contains spec_covers spec_coveredBy spec_equals spec_crosses
  spec_overlaps spec_touches spec_containsProperly any_pat existsb pat_matches P sym_matches dT dF transpose mk9].
Lemma if_bool (b x y : bool) : (if b then x else y) = (b && x) || (negb b && y).
Proof. destruct b, x, y; reflexivity. Qed.
Ltac case_dim d :=
  destruct (Z.eqb_spec d 0) as [->|?]; [| destruct (Z.eqb_spec d 1) as [->|?]; [| destruct (Z.eqb_spec d 2) as [->|?]]].

Section Laws.
  Variables a b c d e f g h i : Z.
  Let m := mk9 a b c d e f g h i.

  Theorem transpose_involutive : transpose (transpose m) = m. Proof. reflexivity. Qed.
  Theorem within_transpose : spec_within (transpose m) = spec_contains m.
  Proof. subst m. spec_unfold. lia. Qed.
  Theorem coveredBy_transpose : spec_coveredBy (transpose m) = spec_covers m.
  Proof. subst m. spec_unfold. lia. Qed.
  Theorem disjoint_not_intersects : spec_disjoint m = negb (spec_intersects m).
  Proof. unfold spec_intersects. rewrite negb_involutive. reflexivity. Qed.
  Theorem intersects_transpose : spec_intersects (transpose m) = spec_intersects m.
  Proof. subst m. spec_unfold. lia. Qed.
  Theorem equals_transpose dA dB : spec_equals dA dB (transpose m) = spec_equals dB dA m.
  Proof. subst m. spec_unfold. lia. Qed.
  Theorem touches_transpose dA dB : spec_touches dA dB (transpose m) = spec_touches dB dA m.
  Proof. subst m. spec_unfold. lia. Qed.
  Theorem overlaps_transpose dA dB : spec_overlaps dA dB (transpose m) = spec_overlaps dB dA m.
  Proof. subst m. spec_unfold. case_dim dA; case_dim dB; cbv beta iota; cbn [andb orb negb]; rewrite ?if_bool; lia. Qed.
  Theorem crosses_transpose dA dB : spec_crosses dA dB (transpose m) = spec_crosses dB dA m.
  Proof. subst m. spec_unfold. case_dim dA; case_dim dB; cbv beta iota; cbn [andb orb negb]; rewrite ?if_bool; lia. Qed.
  Theorem contains_covers : spec_contains m = true -> spec_covers m = true.
  Proof. subst m. spec_unfold. lia. Qed.
  Theorem within_coveredBy : spec_within m = true -> spec_coveredBy m = true.
  Proof. subst m. spec_unfold. lia. Qed.
  Theorem containsProperly_contains : spec_containsProperly m = true -> spec_contains m = true.
  Proof. subst m. spec_unfold. lia. Qed.
  Theorem equals_covers dA dB : spec_equals dA dB m = true -> spec_covers m = true /\ spec_coveredBy m = true /\ spec_contains m = true /\ spec_within m = true.
  Proof. subst m. spec_unfold. lia. Qed.
  Theorem covers_intersects : spec_covers m = true -> spec_intersects m = true.
  Proof. subst m. spec_unfold. lia. Qed.
  Theorem touches_intersects dA dB : spec_touches dA dB m = true -> spec_intersects m = true.
  Proof. subst m. spec_unfold. lia. Qed.
  Theorem overlaps_intersects dA dB : spec_overlaps dA dB m = true -> spec_intersects m = true.
  Proof. subst m. spec_unfold. case_dim dA; case_dim dB; cbv beta iota; cbn [andb orb negb]; rewrite ?if_bool; lia. Qed.
  Theorem crosses_intersects dA dB : spec_crosses dA dB m = true -> spec_intersects m = true.
  Proof. subst m. spec_unfold. case_dim dA; case_dim dB; cbv beta iota; cbn [andb orb negb]; rewrite ?if_bool; lia. Qed.
  (* a matrix of the shape a non-empty geometry has with itself *)
  Theorem self_relation dA : 0 <= a -> c = dF -> f = dF -> g = dF -> h = dF ->
    spec_equals dA dA m = true /\ spec_covers m = true /\ spec_coveredBy m = true /\ spec_intersects m = true.
  Proof. subst m. unfold dF. intros. subst. spec_unfold. lia. Qed.
End Laws.
