(* C01/C02 — the envelope gate of the evaluation protocol (C01/Pred.v: `gate`) IS the generated
   RelateNG::hasRequiredEnvelopeInteraction of the C++. *)
From Coq Require Import ZArith Bool.
From GeosV.Lib Require Import GenPreludePred GenPreludeGate.
From GeosV.Gen Require RNG_hasRequiredEnvelopeInteraction.
From GeosV.C01 Require Import Pred.

Theorem gen_gate : forall (vt : vtable) (eA eB : envl),
  RNG_hasRequiredEnvelopeInteraction.m_hasRequiredEnvelopeInteraction_2 (mkRng eA) eB (mkPvt (vt_reqCovers vt) (vt_reqInteraction vt))
  = gate vt eA eB.
Proof. intros vt eA eB.
  unfold RNG_hasRequiredEnvelopeInteraction.m_hasRequiredEnvelopeInteraction_2, gate, GEOM_B, GEOM_A,
    m_requireCovers_1, m_requireInteraction_0, m_getEnvelopeInternal_0, m_getEnvelope_0, f_geomA, pv_reqCovers, pv_reqInteraction.
  change RNG_hasRequiredEnvelopeInteraction.g_GEOM_A with true. change RNG_hasRequiredEnvelopeInteraction.g_GEOM_B with false.
  change RP_Contains_requireCovers.g_GEOM_A with true. cbn [negb].
  destruct (vt_reqCovers vt true), (vt_reqCovers vt false), (vt_reqInteraction vt), (m_covers_1 eA eB), (m_covers_1 eB eA), (m_intersects_1 eA eB); reflexivity. Qed.
