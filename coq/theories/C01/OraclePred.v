(* C01/OraclePred — the part of the oracle's interface that refers to the GENERATED RelateNG predicate classes (C01/Pred.v):
   the decision procedure for PredSound.realizable on the oracle's matrix.  Definitions only. *)
From Coq Require Import ZArith List Bool.
From GeosV.Lib Require Import GeomDefs LocateDefs ValidDefs GenPreludePred IM.
From GeosV.C01 Require Import ArrangementDefs OracleDefs Pred.
Import ListNotations.
Local Open Scope Z_scope.

(* C01/PredSound.realizable, as a decision procedure *)
Definition none4 (ii ib bi bb : Z) : bool := (ii =? -1) && (ib =? -1) && (bi =? -1) && (bb =? -1).
Definition realizable_b (dA dB : Z) (eA eB : envl) (m : matrix) : bool :=
  match m with
  | [ii; ib; ie; bi; bb; be; ei; eb; ee] =>
      (m_intersects_1 eA eB || none4 ii ib bi bb) &&
      (m_covers_1 eA eB || ((0 <=? ei) || (0 <=? eb)) || none4 ii ib bi bb) &&
      (m_covers_1 eB eA || ((0 <=? ie) || (0 <=? be)) || none4 ii ib bi bb) &&
      (IP_isDimsCompatibleWithCovers.c_isDimsCompatibleWithCovers_2 dA dB || ((0 <=? ei) || (0 <=? eb))) &&
      (IP_isDimsCompatibleWithCovers.c_isDimsCompatibleWithCovers_2 dB dA || ((0 <=? ie) || (0 <=? be))) &&
      (negb ((dA =? 1) && (dB =? 1)) || (ii <=? 1))
  | _ => false
  end.
Definition oracle_realizable (r : bnrule) (A B : geom) : bool :=
  realizable_b (dim_real A) (dim_real B) (env_of A) (env_of B) (relate_oracle r A B).

