(* C01/C02 — soundness of the early exits of every named RelateNG predicate (generated units), see Pred.v. *)
From Coq Require Import ZArith List Bool Lia.
From GeosV.Lib Require Import GenPreludePred IM.
From GeosV.C01 Require Import IMGen Pred.
Import ListNotations.
Require Import ZifyBool.
Local Open Scope Z_scope.

(* The geometric facts the short-cuts lean on, stated on the final matrix [II IB IE BI BB BE EI EB EE].
   Each is a theorem of point-set topology about non-empty / empty geometries and their envelopes; the correspondence
   harness monitors them on every (dims, envelopes, matrix) it observes. *)
Definition realizable (dA dB : Z) (eA eB : envl) (m : im) : Prop :=
  match m with
  | [ii; ib; ie; bi; bb; be; ei; eb; ee] =>
      (* envelopes do not meet (or one geometry is empty): no common point *)
      (m_intersects_1 eA eB = false -> ii = -1 /\ ib = -1 /\ bi = -1 /\ bb = -1) /\
      (* env(A) does not cover env(B): some point of B lies outside A, unless B is empty (then B meets nothing) *)
      (m_covers_1 eA eB = false -> (0 <= ei \/ 0 <= eb) \/ (ii = -1 /\ ib = -1 /\ bi = -1 /\ bb = -1)) /\
      (m_covers_1 eB eA = false -> (0 <= ie \/ 0 <= be) \/ (ii = -1 /\ ib = -1 /\ bi = -1 /\ bb = -1)) /\
      (* a geometry of higher dimension is not covered by one of lower dimension (points in zero-length lines excepted) *)
      (IP_isDimsCompatibleWithCovers.c_isDimsCompatibleWithCovers_2 dA dB = false -> 0 <= ei \/ 0 <= eb) /\
      (IP_isDimsCompatibleWithCovers.c_isDimsCompatibleWithCovers_2 dB dA = false -> 0 <= ie \/ 0 <= be) /\
      (* the interiors of two lines meet in dimension at most 1 *)
      (dA = 1 -> dB = 1 -> ii <= 1)
  | _ => False
  end.

Lemma le9_inv a b c d e f g h i a' b' c' d' e' f' g' h' i' :
  le9 [a; b; c; d; e; f; g; h; i] [a'; b'; c'; d'; e'; f'; g'; h'; i'] ->
  a <= a' /\ b <= b' /\ c <= c' /\ d <= d' /\ e <= e' /\ f <= f' /\ g <= g' /\ h <= h' /\ i <= i'.
Proof. unfold le9. intros H. repeat match goal with H : Forall2 _ (_ :: _) (_ :: _) |- _ => inversion H; clear H; subst end. repeat split; assumption. Qed.

Ltac pred_unfold :=
  cbv [RP_Contains_isDetermined.m_isDetermined_0 RP_Within_isDetermined.m_isDetermined_0 RP_Covers_isDetermined.m_isDetermined_0
       RP_CoveredBy_isDetermined.m_isDetermined_0 RP_Crosses_isDetermined.m_isDetermined_0 RP_EqualsTopo_isDetermined.m_isDetermined_0
       RP_Overlaps_isDetermined.m_isDetermined_0 RP_Touches_isDetermined.m_isDetermined_0
       IP_intersectsExteriorOf.m_intersectsExteriorOf_1 IP_isIntersects.m_isIntersects_2 IP_getDimension.m_getDimension_2 IP_isDimension.m_isDimension_3
       f_intMatrix f_dimA f_dimB m_get_2 nth Z.to_nat Pos.to_nat Pos.iter_op Init.Nat.add Z.mul Z.add Pos.mul Pos.add Pos.succ
       RP_Contains_isDetermined.g_GEOM_A RP_Within_isDetermined.g_GEOM_B RP_Covers_isDetermined.g_GEOM_A RP_CoveredBy_isDetermined.g_GEOM_B
       IP_intersectsExteriorOf.E_Location_INTERIOR IP_intersectsExteriorOf.E_Location_BOUNDARY IP_intersectsExteriorOf.E_Location_EXTERIOR
       IP_isIntersects.E_DimensionType_P
       RP_Crosses_isDetermined.E_DimensionType_L RP_Crosses_isDetermined.E_DimensionType_P RP_Crosses_isDetermined.E_Location_INTERIOR RP_Crosses_isDetermined.E_Location_EXTERIOR
       RP_EqualsTopo_isDetermined.E_Location_INTERIOR RP_EqualsTopo_isDetermined.E_Location_BOUNDARY RP_EqualsTopo_isDetermined.E_Location_EXTERIOR
       RP_Overlaps_isDetermined.E_DimensionType_L RP_Overlaps_isDetermined.E_DimensionType_P RP_Overlaps_isDetermined.E_DimensionType_A
       RP_Overlaps_isDetermined.E_Location_INTERIOR RP_Overlaps_isDetermined.E_Location_EXTERIOR
       RP_Touches_isDetermined.E_Location_INTERIOR].
Ltac spec_unfold := cbv [spec_disjoint spec_intersects spec_within spec_contains spec_covers spec_coveredBy spec_equals spec_crosses
  spec_overlaps spec_touches any_pat existsb pat_matches P sym_matches dT dF mk9].

(* valueIM of each class is the pattern-set specification of its predicate *)
Section Val.
  Variables (v dA dB a b c d e f g h i : Z).
  Let st := mkP v dA dB [a; b; c; d; e; f; g; h; i].
  Lemma val_contains : RP_Contains_valueIM.m_valueIM_0 st = spec_contains (f_intMatrix st). Proof. apply gen_isContains. Qed.
  Lemma val_within : RP_Within_valueIM.m_valueIM_0 st = spec_within (f_intMatrix st). Proof. apply gen_isWithin. Qed.
  Lemma val_covers : RP_Covers_valueIM.m_valueIM_0 st = spec_covers (f_intMatrix st). Proof. apply gen_isCovers. Qed.
  Lemma val_coveredBy : RP_CoveredBy_valueIM.m_valueIM_0 st = spec_coveredBy (f_intMatrix st). Proof. apply gen_isCoveredBy. Qed.
  Lemma val_crosses : RP_Crosses_valueIM.m_valueIM_0 st = spec_crosses dA dB (f_intMatrix st). Proof. apply gen_isCrosses. Qed.
  Lemma val_equals : RP_EqualsTopo_valueIM.m_valueIM_0 st = spec_equals dA dB (f_intMatrix st). Proof. apply gen_isEquals. Qed.
  Lemma val_overlaps : RP_Overlaps_valueIM.m_valueIM_0 st = spec_overlaps dA dB (f_intMatrix st). Proof. apply gen_isOverlaps. Qed.
  Lemma val_touches : RP_Touches_valueIM.m_valueIM_0 st = spec_touches dA dB (f_intMatrix st). Proof. apply gen_isTouches. Qed.
End Val.

(* stability of a determined value under pointwise increase of the matrix *)
Section Stable.
  Variables (dA dB a b c d e f g h i a' b' c' d' e' f' g' h' i' : Z).
  Let q := [a; b; c; d; e; f; g; h; i].
  Let m := [a'; b'; c'; d'; e'; f'; g'; h'; i'].
  Hypothesis Hle : le9 q m.
  Ltac start := pose proof (le9_inv _ _ _ _ _ _ _ _ _ _ _ _ _ _ _ _ _ _ Hle) as (?&?&?&?&?&?&?&?&?); subst q m; pred_unfold; spec_unfold.

  Lemma stable_contains : RP_Contains_isDetermined.m_isDetermined_0 (mkP 0 dA dB q) = true -> spec_contains q = spec_contains m.
  Proof. start. rewrite ?if_bool. lia. Qed.
  Lemma stable_within : RP_Within_isDetermined.m_isDetermined_0 (mkP 0 dA dB q) = true -> spec_within q = spec_within m.
  Proof. start. rewrite ?if_bool. lia. Qed.
  Lemma stable_covers : RP_Covers_isDetermined.m_isDetermined_0 (mkP 0 dA dB q) = true -> spec_covers q = spec_covers m.
  Proof. start. rewrite ?if_bool. lia. Qed.
  Lemma stable_coveredBy : RP_CoveredBy_isDetermined.m_isDetermined_0 (mkP 0 dA dB q) = true -> spec_coveredBy q = spec_coveredBy m.
  Proof. start. rewrite ?if_bool. lia. Qed.
  Lemma stable_equals : RP_EqualsTopo_isDetermined.m_isDetermined_0 (mkP 0 dA dB q) = true -> spec_equals dA dB q = spec_equals dA dB m.
  Proof. start. rewrite ?if_bool. lia. Qed.
  Lemma stable_touches : RP_Touches_isDetermined.m_isDetermined_0 (mkP 0 dA dB q) = true -> spec_touches dA dB q = spec_touches dA dB m.
  Proof. start. rewrite ?if_bool. lia. Qed.
  Lemma stable_crosses : (dA = 1 -> dB = 1 -> a' <= 1) ->
    RP_Crosses_isDetermined.m_isDetermined_0 (mkP 0 dA dB q) = true -> spec_crosses dA dB q = spec_crosses dA dB m.
  Proof. intros HLL. start. case_dim dA; case_dim dB; cbv beta iota; cbn [andb orb negb]; rewrite ?if_bool; lia. Qed.
  Lemma stable_overlaps : (dA = 1 -> dB = 1 -> a' <= 1) -> dA = dB ->
    RP_Overlaps_isDetermined.m_isDetermined_0 (mkP 0 dA dB q) = true -> spec_overlaps dA dB q = spec_overlaps dA dB m.
  Proof. intros HLL Heq. start. subst dB. case_dim dA; cbv beta iota; cbn [andb orb negb]; rewrite ?if_bool; lia. Qed.
End Stable.

(* ------------------------------------------------------------------ the generic argument for IM predicates *)
Lemma final_len evs : Forall ev_ok evs -> length (final evs) = 9%nat.
Proof. intros. apply fold_sal_len; [assumption|reflexivity]. Qed.

Section Generic.
  Variables (isDet valIM : pst -> bool) (spec : Z -> Z -> im -> bool).
  Hypothesis isDet_ext : forall v v' dA dB m, isDet (mkP v dA dB m) = isDet (mkP v' dA dB m).
  Hypothesis valIM_ext : forall v v' dA dB m, valIM (mkP v dA dB m) = valIM (mkP v' dA dB m).
  Hypothesis val_spec : forall v dA dB m, length m = 9%nat -> valIM (mkP v dA dB m) = spec dA dB m.

  (* once past the init short-cuts, with a state that still carries the initial matrix *)
  Lemma events_value dA dB v evs : Forall ev_ok evs -> known (mkP v dA dB m0) = false ->
    (forall q, length q = 9%nat -> le9 q (final evs) -> isDet (mkP 0 dA dB q) = true -> spec dA dB q = spec dA dB (final evs)) ->
    value (IP_finish.m_finish_0 valIM (fold_left (fun st (e : ev) => let '(la, lb, d) := e in
             IP_updateDimension.m_updateDimension_3 isDet valIM st la lb d) evs (mkP v dA dB m0)))
    = spec dA dB (final evs).
  Proof. intros Hev Hk Hst.
    destruct (run_events_value isDet valIM isDet_ext valIM_ext evs (mkP v dA dB m0) Hev eq_refl Hk) as [H|(q & Hq & Hle & Hd & H)];
      cbn [f_dimA f_dimB f_intMatrix] in *; rewrite H.
    - apply val_spec. apply final_len, Hev.
    - rewrite val_spec by exact Hq. apply Hst; assumption. Qed.
End Generic.

(* ------------------------------------------------------------------ per-predicate soundness *)
Lemma final_shape evs : Forall ev_ok evs -> exists a b c d e f g h i, final evs = [a; b; c; d; e; f; g; h; i].
Proof. intros H. apply len9, final_len, H. Qed.

Ltac unfold_defaults := cbv [dflt_reqCovers dflt_reqInteraction TP_requireCovers.m_requireCovers_1 TP_requireInteraction.m_requireInteraction_0
  RP_Disjoint_requireInteraction.m_requireInteraction_0 RP_EqualsTopo_requireInteraction.m_requireInteraction_0].
Ltac bp_unfold := cbv [known value BP_isKnown.m_isKnown_0 BP_isKnownV.c_isKnown_1 BP_value.m_value_0 BP_toBoolean.c_toBoolean_1
  BP_setValue.m_setValue_1 BP_toValue.c_toValue_1 BP_require.m_require_1 BP_setValueIf.m_setValueIf_2 BP_requireCovers.m_requireCovers_2
  IP_init.m_init_2 IP_finish.m_finish_0 f_m_value f_dimA f_dimB f_intMatrix set_m_value set_dimA set_dimB set_intMatrix pst0
  BP_isKnownV.g_UNKNOWN BP_toBoolean.g_TRUE BP_toValue.g_TRUE BP_toValue.g_FALSE].

(* state after init(dimA,dimB) of the covers-family: unknown with the dims recorded, or FALSE when the dims are incompatible *)
Definition after_dims (ok : bool) (dA dB : Z) : pst := mkP (if ok then -1 else 0) dA dB m0.
Lemma known_after ok dA dB : known (after_dims ok dA dB) = negb ok.
Proof. destruct ok; reflexivity. Qed.
Lemma finish_false valIM dA dB : value (IP_finish.m_finish_0 valIM (after_dims false dA dB)) = false.
Proof. reflexivity. Qed.
Lemma req_unknown_true st : known st = false -> BP_require.m_require_1 st true = st.
Proof. reflexivity. Qed.

Section Sound.
  Variables (dA dB : Z) (eA eB : envl) (evs : list ev).
  Hypothesis Hev : Forall ev_ok evs.
  Hypothesis HR : realizable dA dB eA eB (final evs).

  Ltac open_final := destruct (final_shape evs Hev) as (a & b & c & d & e & f & g & h & i & Hf); rewrite Hf in HR |- *;
    destruct HR as (R1 & R2 & R2' & R3 & R3' & RLL).
  Ltac ext_tac := intros; reflexivity.

  Theorem contains_sound : evaluate vt_contains dA dB eA eB evs = spec_contains (final evs).
  Proof. unfold evaluate, gate. cbn [vt_contains im_vt vt_reqCovers vt_reqInteraction vt_initDim vt_initEnv vt_finish vt_update]. unfold_defaults.
    change (RP_Contains_requireCovers.m_requireCovers_1 GEOM_A) with true. cbv iota.
    destruct (m_covers_1 eA eB) eqn:Ecov; cbn [negb].
    2: { open_final. specialize (R2 Ecov). spec_unfold. lia. }
    assert (Hi : RP_Contains_initDim.m_init_2 pst0 dA dB = after_dims (IP_isDimsCompatibleWithCovers.c_isDimsCompatibleWithCovers_2 dA dB) dA dB).
    { unfold RP_Contains_initDim.m_init_2. cbn [IP_init.m_init_2 f_dimA f_dimB set_dimA set_dimB pst0 f_m_value f_intMatrix].
      destruct (IP_isDimsCompatibleWithCovers.c_isDimsCompatibleWithCovers_2 dA dB); reflexivity. }
    rewrite Hi. clear Hi. rewrite known_after. destruct (IP_isDimsCompatibleWithCovers.c_isDimsCompatibleWithCovers_2 dA dB) eqn:Ec; cbn [negb].
    2: { rewrite finish_false. open_final. specialize (R3 Ec). spec_unfold. lia. }
    assert (He : RP_Contains_initEnv.m_init_2 (after_dims true dA dB) eA eB = after_dims true dA dB).
    { unfold RP_Contains_initEnv.m_init_2, BP_requireCovers.m_requireCovers_2. rewrite Ecov. reflexivity. }
    rewrite He. clear He. change (known (after_dims true dA dB)) with false. cbv iota.
    unfold run_events. cbn [vt_update].
    apply (events_value _ _ (fun _ _ m => spec_contains m)); try ext_tac; auto.
    - intros v x y m Hm. destruct (len9 m Hm) as (a & b & c & d & e & f & g & h & i & ->). apply val_contains.
    - intros q Hq Hle Hd. destruct (len9 q Hq) as (a & b & c & d & e & f & g & h & i & ->). destruct (final_shape evs Hev) as (a1 & b1 & c1 & d1 & e1 & f1 & g1 & h1 & i1 & Hf).
      rewrite Hf in *. eapply stable_contains; eauto. Qed.

  Theorem within_sound : evaluate vt_within dA dB eA eB evs = spec_within (final evs).
  Proof. unfold evaluate, gate. cbn [vt_within im_vt vt_reqCovers vt_reqInteraction vt_initDim vt_initEnv vt_finish vt_update]. unfold_defaults.
    change (RP_Within_requireCovers.m_requireCovers_1 GEOM_A) with false. change (RP_Within_requireCovers.m_requireCovers_1 GEOM_B) with true. cbv iota.
    destruct (m_covers_1 eB eA) eqn:Ecov; cbn [negb].
    2: { open_final. specialize (R2' Ecov). spec_unfold. lia. }
    assert (Hi : RP_Within_initDim.m_init_2 pst0 dA dB = after_dims (IP_isDimsCompatibleWithCovers.c_isDimsCompatibleWithCovers_2 dB dA) dA dB).
    { unfold RP_Within_initDim.m_init_2. cbn [IP_init.m_init_2 f_dimA f_dimB set_dimA set_dimB pst0 f_m_value f_intMatrix].
      destruct (IP_isDimsCompatibleWithCovers.c_isDimsCompatibleWithCovers_2 dB dA); reflexivity. }
    rewrite Hi. clear Hi. rewrite known_after. destruct (IP_isDimsCompatibleWithCovers.c_isDimsCompatibleWithCovers_2 dB dA) eqn:Ec; cbn [negb].
    2: { rewrite finish_false. open_final. specialize (R3' Ec). spec_unfold. lia. }
    assert (He : RP_Within_initEnv.m_init_2 (after_dims true dA dB) eA eB = after_dims true dA dB).
    { unfold RP_Within_initEnv.m_init_2, BP_requireCovers.m_requireCovers_2. rewrite Ecov. reflexivity. }
    rewrite He. clear He. change (known (after_dims true dA dB)) with false. cbv iota.
    unfold run_events. cbn [vt_update].
    apply (events_value _ _ (fun _ _ m => spec_within m)); try ext_tac; auto.
    - intros v x y m Hm. destruct (len9 m Hm) as (a & b & c & d & e & f & g & h & i & ->). apply val_within.
    - intros q Hq Hle Hd. destruct (len9 q Hq) as (a & b & c & d & e & f & g & h & i & ->). destruct (final_shape evs Hev) as (a1 & b1 & c1 & d1 & e1 & f1 & g1 & h1 & i1 & Hf).
      rewrite Hf in *. eapply stable_within; eauto. Qed.

  Theorem covers_sound : evaluate vt_covers dA dB eA eB evs = spec_covers (final evs).
  Proof. unfold evaluate, gate. cbn [vt_covers im_vt vt_reqCovers vt_reqInteraction vt_initDim vt_initEnv vt_finish vt_update]. unfold_defaults.
    change (RP_Covers_requireCovers.m_requireCovers_1 GEOM_A) with true. cbv iota.
    destruct (m_covers_1 eA eB) eqn:Ecov; cbn [negb].
    2: { open_final. specialize (R2 Ecov). spec_unfold. lia. }
    assert (Hi : RP_Covers_initDim.m_init_2 pst0 dA dB = after_dims (IP_isDimsCompatibleWithCovers.c_isDimsCompatibleWithCovers_2 dA dB) dA dB).
    { unfold RP_Covers_initDim.m_init_2. cbn [IP_init.m_init_2 f_dimA f_dimB set_dimA set_dimB pst0 f_m_value f_intMatrix].
      destruct (IP_isDimsCompatibleWithCovers.c_isDimsCompatibleWithCovers_2 dA dB); reflexivity. }
    rewrite Hi. clear Hi. rewrite known_after. destruct (IP_isDimsCompatibleWithCovers.c_isDimsCompatibleWithCovers_2 dA dB) eqn:Ec; cbn [negb].
    2: { rewrite finish_false. open_final. specialize (R3 Ec). spec_unfold. lia. }
    assert (He : RP_Covers_initEnv.m_init_2 (after_dims true dA dB) eA eB = after_dims true dA dB).
    { unfold RP_Covers_initEnv.m_init_2, BP_requireCovers.m_requireCovers_2. rewrite Ecov. reflexivity. }
    rewrite He. clear He. change (known (after_dims true dA dB)) with false. cbv iota.
    unfold run_events. cbn [vt_update].
    apply (events_value _ _ (fun _ _ m => spec_covers m)); try ext_tac; auto.
    - intros v x y m Hm. destruct (len9 m Hm) as (a & b & c & d & e & f & g & h & i & ->). apply val_covers.
    - intros q Hq Hle Hd. destruct (len9 q Hq) as (a & b & c & d & e & f & g & h & i & ->). destruct (final_shape evs Hev) as (a1 & b1 & c1 & d1 & e1 & f1 & g1 & h1 & i1 & Hf).
      rewrite Hf in *. eapply stable_covers; eauto. Qed.

  Theorem coveredBy_sound : evaluate vt_coveredBy dA dB eA eB evs = spec_coveredBy (final evs).
  Proof. unfold evaluate, gate. cbn [vt_coveredBy im_vt vt_reqCovers vt_reqInteraction vt_initDim vt_initEnv vt_finish vt_update]. unfold_defaults.
    change (RP_CoveredBy_requireCovers.m_requireCovers_1 GEOM_A) with false. change (RP_CoveredBy_requireCovers.m_requireCovers_1 GEOM_B) with true. cbv iota.
    destruct (m_covers_1 eB eA) eqn:Ecov; cbn [negb].
    2: { open_final. specialize (R2' Ecov). spec_unfold. lia. }
    assert (Hi : RP_CoveredBy_initDim.m_init_2 pst0 dA dB = after_dims (IP_isDimsCompatibleWithCovers.c_isDimsCompatibleWithCovers_2 dB dA) dA dB).
    { unfold RP_CoveredBy_initDim.m_init_2. cbn [IP_init.m_init_2 f_dimA f_dimB set_dimA set_dimB pst0 f_m_value f_intMatrix].
      destruct (IP_isDimsCompatibleWithCovers.c_isDimsCompatibleWithCovers_2 dB dA); reflexivity. }
    rewrite Hi. clear Hi. rewrite known_after. destruct (IP_isDimsCompatibleWithCovers.c_isDimsCompatibleWithCovers_2 dB dA) eqn:Ec; cbn [negb].
    2: { rewrite finish_false. open_final. specialize (R3' Ec). spec_unfold. lia. }
    assert (He : RP_CoveredBy_initEnv.m_init_2 (after_dims true dA dB) eA eB = after_dims true dA dB).
    { unfold RP_CoveredBy_initEnv.m_init_2, BP_requireCovers.m_requireCovers_2. rewrite Ecov. reflexivity. }
    rewrite He. clear He. change (known (after_dims true dA dB)) with false. cbv iota.
    unfold run_events. cbn [vt_update].
    apply (events_value _ _ (fun _ _ m => spec_coveredBy m)); try ext_tac; auto.
    - intros v x y m Hm. destruct (len9 m Hm) as (a & b & c & d & e & f & g & h & i & ->). apply val_coveredBy.
    - intros q Hq Hle Hd. destruct (len9 q Hq) as (a & b & c & d & e & f & g & h & i & ->). destruct (final_shape evs Hev) as (a1 & b1 & c1 & d1 & e1 & f1 & g1 & h1 & i1 & Hf).
      rewrite Hf in *. eapply stable_coveredBy; eauto. Qed.

  Theorem crosses_sound : evaluate vt_crosses dA dB eA eB evs = spec_crosses dA dB (final evs).
  Proof. unfold evaluate, gate. cbn [vt_crosses im_vt vt_reqCovers vt_reqInteraction vt_initDim vt_initEnv vt_finish vt_update dflt_reqCovers dflt_initEnv]. unfold_defaults.
    destruct (m_intersects_1 eA eB) eqn:Eint; cbn [negb].
    2: { open_final. specialize (R1 Eint). spec_unfold. case_dim dA; case_dim dB; cbv beta iota; cbn [andb orb negb]; rewrite ?if_bool; lia. }
    set (ok := (negb (orb (andb (Z.eqb dA RP_Crosses_initDim.E_DimensionType_P) (Z.eqb dB RP_Crosses_initDim.E_DimensionType_P)) (andb (Z.eqb dA RP_Crosses_initDim.E_DimensionType_A) (Z.eqb dB RP_Crosses_initDim.E_DimensionType_A))))).
    assert (Hi : RP_Crosses_initDim.m_init_2 pst0 dA dB = after_dims ok dA dB).
    { unfold RP_Crosses_initDim.m_init_2. cbn [IP_init.m_init_2 f_dimA f_dimB set_dimA set_dimB pst0 f_m_value f_intMatrix]. fold ok.
      destruct ok; reflexivity. }
    rewrite Hi. clear Hi. rewrite known_after. destruct ok eqn:Ec; cbn [negb].
    2: { rewrite finish_false. subst ok. open_final. revert Ec. cbv [RP_Crosses_initDim.E_DimensionType_P RP_Crosses_initDim.E_DimensionType_A]. spec_unfold. intros Ec. case_dim dA; case_dim dB; cbv beta iota; cbn [andb orb negb] in *; rewrite ?if_bool; lia. }
    change (known (after_dims true dA dB)) with false. cbv iota.
    unfold run_events. cbn [vt_update].
    apply (events_value _ _ spec_crosses); try ext_tac; auto.
    - intros v x y m Hm. destruct (len9 m Hm) as (a & b & c & d & e & f & g & h & i & ->). apply val_crosses.
    - intros q Hq Hle Hd. destruct (len9 q Hq) as (a & b & c & d & e & f & g & h & i & ->). destruct (final_shape evs Hev) as (a1 & b1 & c1 & d1 & e1 & f1 & g1 & h1 & i1 & Hf).
      rewrite Hf in *. destruct HR as (_ & _ & _ & _ & _ & RLL). eapply stable_crosses; eauto. Qed.

  Theorem overlaps_sound : evaluate vt_overlaps dA dB eA eB evs = spec_overlaps dA dB (final evs).
  Proof. unfold evaluate, gate. cbn [vt_overlaps im_vt vt_reqCovers vt_reqInteraction vt_initDim vt_initEnv vt_finish vt_update dflt_reqCovers dflt_initEnv]. unfold_defaults.
    destruct (m_intersects_1 eA eB) eqn:Eint; cbn [negb].
    2: { open_final. specialize (R1 Eint). spec_unfold. case_dim dA; case_dim dB; cbv beta iota; cbn [andb orb negb]; rewrite ?if_bool; lia. }
    set (ok := (Z.eqb dA dB)).
    assert (Hi : RP_Overlaps_initDim.m_init_2 pst0 dA dB = after_dims ok dA dB).
    { unfold RP_Overlaps_initDim.m_init_2. cbn [IP_init.m_init_2 f_dimA f_dimB set_dimA set_dimB pst0 f_m_value f_intMatrix]. fold ok.
      destruct ok; reflexivity. }
    rewrite Hi. clear Hi. rewrite known_after. destruct ok eqn:Ec; cbn [negb].
    2: { rewrite finish_false. subst ok. open_final. revert Ec.  spec_unfold. intros Ec. case_dim dA; case_dim dB; cbv beta iota; cbn [andb orb negb] in *; rewrite ?if_bool; lia. }
    change (known (after_dims true dA dB)) with false. cbv iota.
    unfold run_events. cbn [vt_update].
    apply (events_value _ _ spec_overlaps); try ext_tac; auto.
    - intros v x y m Hm. destruct (len9 m Hm) as (a & b & c & d & e & f & g & h & i & ->). apply val_overlaps.
    - intros q Hq Hle Hd. destruct (len9 q Hq) as (a & b & c & d & e & f & g & h & i & ->). destruct (final_shape evs Hev) as (a1 & b1 & c1 & d1 & e1 & f1 & g1 & h1 & i1 & Hf).
      rewrite Hf in *. destruct HR as (_ & _ & _ & _ & _ & RLL). apply Z.eqb_eq in Ec. eapply stable_overlaps; eauto. Qed.

  Theorem touches_sound : evaluate vt_touches dA dB eA eB evs = spec_touches dA dB (final evs).
  Proof. unfold evaluate, gate. cbn [vt_touches im_vt vt_reqCovers vt_reqInteraction vt_initDim vt_initEnv vt_finish vt_update dflt_reqCovers dflt_initEnv]. unfold_defaults.
    destruct (m_intersects_1 eA eB) eqn:Eint; cbn [negb].
    2: { open_final. specialize (R1 Eint). spec_unfold. case_dim dA; case_dim dB; cbv beta iota; cbn [andb orb negb]; rewrite ?if_bool; lia. }
    set (ok := (negb (andb (Z.eqb dA 0) (Z.eqb dB 0)))).
    assert (Hi : RP_Touches_initDim.m_init_2 pst0 dA dB = after_dims ok dA dB).
    { unfold RP_Touches_initDim.m_init_2. cbn [IP_init.m_init_2 f_dimA f_dimB set_dimA set_dimB pst0 f_m_value f_intMatrix]. fold ok.
      destruct ok; reflexivity. }
    rewrite Hi. clear Hi. rewrite known_after. destruct ok eqn:Ec; cbn [negb].
    2: { rewrite finish_false. subst ok. open_final. revert Ec.  spec_unfold. intros Ec. rewrite ?if_bool. lia. }
    change (known (after_dims true dA dB)) with false. cbv iota.
    unfold run_events. cbn [vt_update].
    apply (events_value _ _ spec_touches); try ext_tac; auto.
    - intros v x y m Hm. destruct (len9 m Hm) as (a & b & c & d & e & f & g & h & i & ->). apply val_touches.
    - intros q Hq Hle Hd. destruct (len9 q Hq) as (a & b & c & d & e & f & g & h & i & ->). destruct (final_shape evs Hev) as (a1 & b1 & c1 & d1 & e1 & f1 & g1 & h1 & i1 & Hf).
      rewrite Hf in *. destruct HR as (_ & _ & _ & _ & _ & RLL). eapply stable_touches; eauto. Qed.

  Lemma equals_false_covers : m_equals_1 eA eB = false -> m_covers_1 eA eB = false \/ m_covers_1 eB eA = false.
  Proof. clear HR Hev. unfold m_equals_1, m_covers_1, m_isNull_0. destruct eA as [[[[ax0 ax1] ay0] ay1]|], eB as [[[[bx0 bx1] by0] by1]|]; intros H; try (left; reflexivity); try discriminate. lia. Qed.

  (* equalsTopo: sound unless BOTH geometries are empty — see equals_both_empty_refuted below *)
  Theorem equals_sound : ~ (eA = None /\ eB = None) -> evaluate vt_equals dA dB eA eB evs = spec_equals dA dB (final evs).
  Proof. intros Hne. unfold evaluate, gate. cbn [vt_equals im_vt vt_reqCovers vt_reqInteraction vt_initDim vt_initEnv vt_finish vt_update dflt_reqCovers]. unfold_defaults. cbn [negb].
    assert (Hi : RP_EqualsTopo_initDim.m_init_2 pst0 dA dB = after_dims true dA dB) by reflexivity.
    rewrite Hi. clear Hi. change (known (after_dims true dA dB)) with false. cbv iota.
    assert (Hnull : andb (m_isNull_0 eA) (m_isNull_0 eB) = false).
    { destruct eA, eB; try reflexivity. exfalso. apply Hne. auto. }
    assert (He : RP_EqualsTopo_initEnv.m_init_2 (after_dims true dA dB) eA eB = after_dims (m_equals_1 eA eB) dA dB).
    { unfold RP_EqualsTopo_initEnv.m_init_2. rewrite Hnull. destruct (m_equals_1 eA eB); reflexivity. }
    rewrite He. clear He. rewrite known_after. destruct (m_equals_1 eA eB) eqn:Eeq; cbn [negb].
    2: { rewrite finish_false. open_final. destruct (equals_false_covers Eeq) as [Hc|Hc]; [specialize (R2 Hc)|specialize (R2' Hc)]; spec_unfold; lia. }
    unfold run_events. cbn [vt_update].
    apply (events_value _ _ spec_equals); try ext_tac; auto.
    - intros v x y m Hm. destruct (len9 m Hm) as (a & b & c & d & e & f & g & h & i & ->). apply val_equals.
    - intros q Hq Hle Hd. destruct (len9 q Hq) as (a & b & c & d & e & f & g & h & i & ->). destruct (final_shape evs Hev) as (a1 & b1 & c1 & d1 & e1 & f1 & g1 & h1 & i1 & Hf).
      rewrite Hf in *. eapply stable_equals; eauto. Qed.
End Sound.

(* The implementation answers TRUE for two empty geometries (init(env,env): setValueIf(true, both null)), while the DE-9IM
   definition T*F**FFF* on their matrix FFFFFFFF2 is false: the property's clause "every named predicate returns the truth value
   its DE-9IM definition assigns" fails exactly there (finding F20; replayed on the library by the C02 harness). *)
Theorem equals_both_empty_refuted :
  evaluate vt_equals (-1) (-1) None None [] = true /\ spec_equals (-1) (-1) (final []) = false /\ realizable (-1) (-1) None None (final []).
Proof. split; [reflexivity|split; [reflexivity|]]. cbv [realizable final fold_left m0 pst0 f_intMatrix m_intersects_1 m_covers_1].
  repeat split; intros; try lia; try discriminate; auto. Qed.

(* ------------------------------------------------------------------ intersects / disjoint (BasicPredicate subclasses) *)
Definition hit (evs : list ev) : bool := existsb (fun e : ev => let '(la, lb, _) := e in negb (la =? 2) && negb (lb =? 2)) evs.

Lemma final_hit evs : Forall ev_ok evs -> forall m, length m = 9%nat -> spec_intersects (fold_left sal evs m) = spec_intersects m || hit evs.
Proof. induction 1 as [|[[la lb] d] r He _ IH]; intros m Hm; cbn [fold_left hit existsb]; [rewrite orb_false_r; reflexivity|].
  rewrite IH by (apply sal_len; assumption). fold (hit r). rewrite orb_assoc. f_equal.
  destruct (len9 m Hm) as (a & b & c & d0 & e & f & g & h & i & ->). destruct He as (Ha & Hb & Hd).
  unfold sal. destruct (Z.ltb_spec (m_get_2 [a; b; c; d0; e; f; g; h; i] la lb) d) as [Hlt|Hge];
    destruct Ha as [-> | [-> | ->]], Hb as [-> | [-> | ->]];
    cbv [m_get_2 m_set_3 upd_nth nth Z.to_nat Pos.to_nat Pos.iter_op Init.Nat.add Z.mul Z.add Pos.mul Pos.add Pos.succ] in *;
    spec_unfold; cbn [Z.eqb Pos.eqb negb andb orb]; lia. Qed.

Lemma disjoint_not_intersects_spec m : spec_disjoint m = negb (spec_intersects m).
Proof. unfold spec_intersects. rewrite negb_involutive. reflexivity. Qed.

Lemma isect_events evs : Forall ev_ok evs -> forall st, known st = false ->
    value (RP_Intersects_finish.m_finish_0 (fold_left (fun st (e : ev) => let '(la, lb, d) := e in RP_Intersects_updateDimension.m_updateDimension_3 st la lb d) evs st)) = hit evs.
  Proof. induction 1 as [|[[la lb] d] r He _ IH]; intros st Hk; cbn [fold_left hit existsb].
    - unfold RP_Intersects_finish.m_finish_0. rewrite value_set by exact Hk. reflexivity.
    - fold (hit r). destruct He as (Ha & Hb & _).
      unfold RP_Intersects_updateDimension.m_updateDimension_3 at 2, BP_setValueIf.m_setValueIf_2, BP_isIntersection.c_isIntersection_2, zneb.
      change BP_isIntersection.E_Location_EXTERIOR with 2.
      destruct (negb (la =? 2) && negb (lb =? 2)) eqn:Eh; cbn [orb].
      + (* set to true here; stays *)
        assert (Hstay : forall evs' s, known s = true ->
          value (RP_Intersects_finish.m_finish_0 (fold_left (fun st (e : ev) => let '(la, lb, d) := e in RP_Intersects_updateDimension.m_updateDimension_3 st la lb d) evs' s)) = value s).
        { induction evs' as [|[[a b] c] r' IHr]; intros s Hs; cbn [fold_left].
          - unfold RP_Intersects_finish.m_finish_0. rewrite setValue_known by exact Hs. reflexivity.
          - rewrite IHr.
            + unfold RP_Intersects_updateDimension.m_updateDimension_3, BP_setValueIf.m_setValueIf_2. destruct (BP_isIntersection.c_isIntersection_2 a b); [rewrite setValue_known by exact Hs|]; reflexivity.
            + unfold RP_Intersects_updateDimension.m_updateDimension_3, BP_setValueIf.m_setValueIf_2. destruct (BP_isIntersection.c_isIntersection_2 a b); [rewrite setValue_known by exact Hs|]; exact Hs. }
        rewrite Hstay by apply known_set. apply value_set, Hk.
      + apply IH, Hk. Qed.

Lemma disj_events evs : Forall ev_ok evs -> forall st, known st = false ->
    value (RP_Disjoint_finish.m_finish_0 (fold_left (fun st (e : ev) => let '(la, lb, d) := e in RP_Disjoint_updateDimension.m_updateDimension_3 st la lb d) evs st)) = negb (hit evs).
  Proof. induction 1 as [|[[la lb] d] r He _ IH]; intros st Hk; cbn [fold_left hit existsb].
    - unfold RP_Disjoint_finish.m_finish_0. rewrite value_set by exact Hk. reflexivity.
    - fold (hit r). destruct He as (Ha & Hb & _).
      unfold RP_Disjoint_updateDimension.m_updateDimension_3 at 2, BP_setValueIf.m_setValueIf_2, BP_isIntersection.c_isIntersection_2, zneb.
      change BP_isIntersection.E_Location_EXTERIOR with 2.
      destruct (negb (la =? 2) && negb (lb =? 2)) eqn:Eh; cbn [orb negb].
      + assert (Hstay : forall evs' s, known s = true ->
          value (RP_Disjoint_finish.m_finish_0 (fold_left (fun st (e : ev) => let '(la, lb, d) := e in RP_Disjoint_updateDimension.m_updateDimension_3 st la lb d) evs' s)) = value s).
        { induction evs' as [|[[a b] c] r' IHr]; intros s Hs; cbn [fold_left].
          - unfold RP_Disjoint_finish.m_finish_0. rewrite setValue_known by exact Hs. reflexivity.
          - rewrite IHr.
            + unfold RP_Disjoint_updateDimension.m_updateDimension_3, BP_setValueIf.m_setValueIf_2. destruct (BP_isIntersection.c_isIntersection_2 a b); [rewrite setValue_known by exact Hs|]; reflexivity.
            + unfold RP_Disjoint_updateDimension.m_updateDimension_3, BP_setValueIf.m_setValueIf_2. destruct (BP_isIntersection.c_isIntersection_2 a b); [rewrite setValue_known by exact Hs|]; exact Hs. }
        rewrite Hstay by apply known_set. apply value_set, Hk.
      + apply IH, Hk. Qed.

Section Basic.
  Variables (dA dB : Z) (eA eB : envl) (evs : list ev).
  Hypothesis Hev : Forall ev_ok evs.
  Hypothesis HR : realizable dA dB eA eB (final evs).



  Theorem intersects_sound : evaluate vt_intersects dA dB eA eB evs = spec_intersects (final evs).
  Proof. unfold evaluate, gate. cbn [vt_intersects vt_reqCovers vt_reqInteraction vt_initDim vt_initEnv vt_finish vt_update dflt_reqCovers]. unfold_defaults. unfold basic_initDim.
    destruct (m_intersects_1 eA eB) eqn:Eint; cbn [negb].
    2: { destruct (final_shape evs Hev) as (a & b & c & d & e & f & g & h & i & Hf). rewrite Hf in *. destruct HR as (R1 & _). specialize (R1 Eint). spec_unfold. lia. }
    change (known pst0) with false. cbv iota.
    assert (He : RP_Intersects_initEnv.m_init_2 pst0 eA eB = pst0).
    { unfold RP_Intersects_initEnv.m_init_2. rewrite Eint. reflexivity. }
    rewrite He. change (known pst0) with false. cbv iota. unfold run_events. cbn [vt_update].
    rewrite isect_events by (try assumption; reflexivity). unfold final. rewrite final_hit by (try assumption; reflexivity). reflexivity. Qed.



  Theorem disjoint_sound : evaluate vt_disjoint dA dB eA eB evs = spec_disjoint (final evs).
  Proof. unfold evaluate, gate. cbn [vt_disjoint vt_reqCovers vt_reqInteraction vt_initDim vt_initEnv vt_finish vt_update dflt_reqCovers]. unfold_defaults. unfold basic_initDim. cbn [negb].
    change (known pst0) with false. cbv iota.
    unfold RP_Disjoint_initEnv.m_init_2, m_disjoint_1, BP_setValueIf.m_setValueIf_2.
    destruct (m_intersects_1 eA eB) eqn:Eint; cbn [negb].
    - change (known pst0) with false. cbv iota. unfold run_events. cbn [vt_update].
      rewrite disj_events by (try assumption; reflexivity). rewrite disjoint_not_intersects_spec. unfold final. rewrite final_hit by (try assumption; reflexivity). reflexivity.
    - match goal with |- ?L = _ => let v := eval vm_compute in L in change L with v end.
      destruct (final_shape evs Hev) as (a & b & c & d & e & f & g & h & i & Hf). rewrite Hf in *. destruct HR as (R1 & _). specialize (R1 Eint). spec_unfold. lia. Qed.
End Basic.

(* ------------------------------------------------------------------ converse classes are mirror images
   within / coveredBy are contains / covers with the roles of A and B exchanged: their configuration functions
   (which input must cover the other, whose exterior has to be checked) must be each other's mirror, otherwise
   P(A,B) and its converse asked as (B,A) would examine different things. *)
From GeosV.Gen Require RP_Contains_requireExteriorCheck RP_Within_requireExteriorCheck RP_Covers_requireExteriorCheck RP_CoveredBy_requireExteriorCheck.
Theorem mirror_requireCovers : forall isA : bool,
  RP_Within_requireCovers.m_requireCovers_1 isA = RP_Contains_requireCovers.m_requireCovers_1 (negb isA) /\
  RP_CoveredBy_requireCovers.m_requireCovers_1 isA = RP_Covers_requireCovers.m_requireCovers_1 (negb isA) /\
  RP_Covers_requireCovers.m_requireCovers_1 isA = RP_Contains_requireCovers.m_requireCovers_1 isA.
Proof. intros []; repeat split; reflexivity. Qed.
Theorem mirror_requireExteriorCheck : forall isA : bool,
  RP_Within_requireExteriorCheck.m_requireExteriorCheck_1 isA = RP_Contains_requireExteriorCheck.m_requireExteriorCheck_1 (negb isA) /\
  RP_CoveredBy_requireExteriorCheck.m_requireExteriorCheck_1 isA = RP_Covers_requireExteriorCheck.m_requireExteriorCheck_1 (negb isA) /\
  RP_Covers_requireExteriorCheck.m_requireExteriorCheck_1 isA = RP_Contains_requireExteriorCheck.m_requireExteriorCheck_1 isA /\
  (* the exterior that matters is that of the geometry which has to cover the other *)
  RP_Contains_requireExteriorCheck.m_requireExteriorCheck_1 isA = negb (RP_Contains_requireCovers.m_requireCovers_1 isA).
Proof. intros []; repeat split; reflexivity. Qed.
