(* C01/OracleInvariance — the oracle is invariant under the similarities of the grid: translation by a grid vector, reflection
   in either axis, axis swap.  Stated once for an abstract map with the properties collected in `osim` (Lib/Valid.sim plus what
   the arrangement construction uses) and instantiated four times. *)
From Coq Require Import ZArith List Bool Lia.
From GeosV.Lib Require Import GeomDefs LocateDefs ValidDefs Geom Locate Valid GenPreludePred IM.
From GeosV.C01 Require Import ArrangementDefs ArrangementProofs OracleDefs OracleProofs Pred.
Import ListNotations.
Local Open Scope Z_scope.

Definition T2 (T : pt -> pt) (s : seg) : seg := (T (fst s), T (snd s)).
Definition ThW (Th : hpt -> hpt) (w : hpt * Z) : hpt * Z := (Th (fst w), snd w).
Definition Th2 (Th : hpt -> hpt) (pq : hpt * hpt) : hpt * hpt := (Th (fst pq), Th (snd pq)).

Record osim (T : pt -> pt) (Th : hpt -> hpt) (sg : Z) : Prop := {
  os_sim : sim T Th sg;
  os_loc : forall r g q, loc_dim_h r (map_geom T g) (Th q) = loc_dim_h r g q;
  os_on : forall q a b, on_seg_h (Th q) (T a) (T b) = on_seg_h q a b;
  os_lt : forall a b p q, lt_on (T a) (T b) (Th p) (Th q) = lt_on a b p q;
  os_mid : forall p q, midh (Th p) (Th q) = Th (midh p q);
  os_shift : forall s a b m, shift s (T a) (T b) (Th m) = Th (shift (sg * s) a b m);
  os_norm : forall q, hnorm (Th q) = Th (hnorm q) }.

(* ------------------------------------------------------------------ coordinate maps on the geometry tree *)
Lemma map_geom_compose : forall f g x, map_geom f (map_geom g x) = map_geom (fun a => f (g a)) x.
Proof.
  intros f g. induction x using geom_ind'; cbn [map_geom].
  - destruct p; reflexivity.
  - rewrite map_map. reflexivity.
  - rewrite map_map. reflexivity.
  - rewrite !map_map. f_equal. apply map_ext. intros. apply map_map.
  - rewrite map_map. f_equal. apply map_ext. intros [a|]; reflexivity.
  - rewrite map_map. f_equal. apply map_ext. intros. apply map_map.
  - rewrite map_map. f_equal. apply map_ext. intros [s hs]. unfold map_poly. cbn [fst snd]. rewrite !map_map. f_equal.
    apply map_ext. intros. apply map_map.
  - rewrite map_map. f_equal. induction H as [|x l Hx _ IH]; [reflexivity|]. cbn [map]. rewrite Hx, IH. reflexivity.
Qed.
Lemma map_geom_ext : forall f g x, (forall a, f a = g a) -> map_geom f x = map_geom g x.
Proof.
  intros f g x E. induction x using geom_ind'; cbn [map_geom].
  - destruct p; cbn; [rewrite E|]; reflexivity.
  - f_equal. apply map_ext, E.
  - f_equal. apply map_ext, E.
  - f_equal; [apply map_ext, E|]. apply map_ext. intros. apply map_ext, E.
  - f_equal. apply map_ext. intros [a|]; cbn; [rewrite E|]; reflexivity.
  - f_equal. apply map_ext. intros. apply map_ext, E.
  - f_equal. apply map_ext. intros [s hs]. unfold map_poly. cbn [fst snd]. f_equal; [apply map_ext, E|]. apply map_ext. intros. apply map_ext, E.
  - f_equal. induction H as [|x l Hx _ IH]; [reflexivity|]. cbn [map]. rewrite Hx, IH. reflexivity.
Qed.

(* ------------------------------------------------------------------ loc_dim under an integer map that preserves rings and segments *)
Section LocCov.
  Variable T : pt -> pt.
  Hypothesis Hinj : forall a b, pt_eqb (T a) (T b) = pt_eqb a b.
  Hypothesis Hon : forall p a b, on_seg (T p) (T a) (T b) = on_seg p a b.
  Hypothesis Hring : forall p r, in_ring (T p) (map T r) = in_ring p r.

  Lemma on_path_T : forall p r, on_path (T p) (map T r) = on_path p r.
  Proof. apply on_path_cov; assumption. Qed.
  Lemma loc_poly_cov : forall p a, loc_poly (T p) (map_poly T a) = loc_poly p a.
  Proof.
    intros p [s hs]. unfold loc_poly, map_poly, poly_rings. cbn [fst snd].
    change (map T s :: map (map T) hs) with (map (map T) (s :: hs)).
    rewrite (existsb_map_comm (map T) (on_path (T p)) (on_path p)) by (intros; apply on_path_T).
    rewrite Hring.
    rewrite (existsb_map_comm (map T) (fun h => location_eqb (in_ring (T p) h) Interior) (fun h => location_eqb (in_ring p h) Interior))
      by (intros; rewrite Hring; reflexivity).
    reflexivity.
  Qed.
  Lemma end_count_cov : forall p ls, end_count (T p) (map (map T) ls) = end_count p ls.
  Proof.
    intros p ls. induction ls as [|l ls IH]; [reflexivity|].
    cbn [map end_count fold_right]. fold (end_count (T p) (map (map T) ls)). fold (end_count p ls). rewrite IH.
    destruct l as [|a l]; [reflexivity|].
    change (map T (a :: l)) with (T a :: map T l) at 1. cbv beta iota.
    change (T a :: map T l) with (map T (a :: l)). rewrite (last_map T), !Hinj. reflexivity.
  Qed.
  Lemma loc_lines_cov : forall r p ls, loc_lines r (T p) (map (map T) ls) = loc_lines r p ls.
  Proof.
    intros. unfold loc_lines. rewrite end_count_cov.
    rewrite (existsb_map_comm (map T) (on_path (T p)) (on_path p)) by (intros; apply on_path_T). reflexivity.
  Qed.
  Lemma loc_dim_cov : forall r g p, loc_dim r (map_geom T g) (T p) = loc_dim r g p.
  Proof.
    intros. unfold loc_dim. rewrite polys_of_map, lines_of_map, points_of_map.
    rewrite (existsb_map_comm (map_poly T) (fun a => location_eqb (loc_poly (T p) a) Interior) (fun a => location_eqb (loc_poly p a) Interior))
      by (intros; rewrite loc_poly_cov; reflexivity).
    rewrite (existsb_map_comm (map_poly T) (fun a => location_eqb (loc_poly (T p) a) Boundary) (fun a => location_eqb (loc_poly p a) Boundary))
      by (intros; rewrite loc_poly_cov; reflexivity).
    rewrite loc_lines_cov.
    rewrite (existsb_map_comm T (pt_eqb (T p)) (pt_eqb p)) by (intros; apply Hinj). reflexivity.
  Qed.
End LocCov.

(* ------------------------------------------------------------------ the generic argument *)
Section Inv.
  Variable T : pt -> pt.
  Variable Th : hpt -> hpt.
  Variable sg : Z.
  Hypothesis OS : osim T Th sg.
  Let S := os_sim _ _ _ OS.
  Notation t2 := (T2 T).

  Lemma poly_rings_map : forall a, poly_rings (map_poly T a) = map (map T) (poly_rings a).
  Proof. intros [s hs]. reflexivity. Qed.
  Lemma line_segs_map : forall g, line_segs (map_geom T g) = map t2 (line_segs g).
  Proof. intros. unfold line_segs. rewrite lines_of_map. apply flat_map_map_comm. intros l. apply segs_map. Qed.
  Lemma ring_segs_map : forall g, ring_segs (map_geom T g) = map t2 (ring_segs g).
  Proof.
    intros. unfold ring_segs. rewrite polys_of_map. apply flat_map_map_comm. intros a. rewrite poly_rings_map.
    apply flat_map_map_comm. intros l. apply segs_map.
  Qed.
  Lemma geom_segs_map : forall g, geom_segs (map_geom T g) = map t2 (geom_segs g).
  Proof. intros. unfold geom_segs. rewrite line_segs_map, ring_segs_map, map_app. reflexivity. Qed.
  Lemma seg_eqb_map : forall s t, seg_eqb (t2 s) (t2 t) = seg_eqb s t.
  Proof. intros. unfold seg_eqb, T2. cbn [fst snd]. rewrite !(sim_inj _ _ _ S). reflexivity. Qed.

  Lemma all_segs_map : forall A B, seteq (all_segs (map_geom T A) (map_geom T B)) (map t2 (all_segs A B)).
  Proof.
    intros. unfold all_segs. rewrite !geom_segs_map, <- map_app.
    eapply seteq_trans; [apply (nodup_by_seteq seg_eqb seg_eqb_eq)|].
    apply seteq_map. apply seteq_sym. apply (nodup_by_seteq seg_eqb seg_eqb_eq).
  Qed.

  Lemma sres_nodes_map : forall r, sres_nodes (map_sres T Th r) = map Th (sres_nodes r).
  Proof.
    intros [|q|p|p q]; cbn [map_sres sres_nodes map]; try reflexivity.
    - rewrite (os_norm _ _ _ OS). reflexivity.
    - rewrite (sim_hp _ _ _ S). reflexivity.
    - rewrite !(sim_hp _ _ _ S). reflexivity.
  Qed.
  Lemma raw_nodes_map : forall ss cs, raw_nodes (map t2 ss) (map T cs) = map Th (raw_nodes ss cs).
  Proof.
    intros. unfold raw_nodes. rewrite map_app, !map_map.
    rewrite (map_ext (fun x => hp (T x)) (fun x => Th (hp x))) by (intros; symmetry; apply (sim_hp _ _ _ S)).
    f_equal. apply flat_map_map_comm. intros s. apply flat_map_map_comm. intros t.
    unfold T2. cbn [fst snd]. rewrite (seg_int_map _ _ _ S). apply sres_nodes_map.
  Qed.
  Lemma nodes_map : forall A B, seteq (nodes (map_geom T A) (map_geom T B)) (map Th (nodes A B)).
  Proof.
    intros. unfold nodes.
    eapply seteq_trans; [apply (nodup_by_seteq hpt_eqb hpt_eqb_eq)|].
    eapply seteq_trans; [apply raw_nodes_seteq; [apply all_segs_map | apply seteq_refl]|].
    rewrite !coords_of_map, <- map_app, raw_nodes_map.
    apply seteq_map. apply seteq_sym. apply (nodup_by_seteq hpt_eqb hpt_eqb_eq).
  Qed.

  Lemma sub_edges_map : forall a b l, sub_edges (T a) (T b) (map Th l) = map (Th2 Th) (sub_edges a b l).
  Proof.
    intros a b l. unfold sub_edges. apply flat_map_map_comm. intros p. apply flat_map_map_comm. intros q.
    rewrite (os_lt _ _ _ OS).
    rewrite (existsb_map_comm Th (fun r => lt_on (T a) (T b) (Th p) r && lt_on (T a) (T b) r (Th q)) (fun r => lt_on a b p r && lt_on a b r q))
      by (intros; rewrite !(os_lt _ _ _ OS); reflexivity).
    destruct (lt_on a b p q && _); reflexivity.
  Qed.
  Lemma sg_cases : sg = 1 \/ sg = -1.
  Proof. exact (sim_sg _ _ _ S). Qed.
  Lemma seg_witnesses_map : forall ns sd s, seteq (seg_witnesses (map Th ns) sd (t2 s)) (map (ThW Th) (seg_witnesses ns sd s)).
  Proof.
    intros ns sd s. unfold seg_witnesses. unfold T2 at 1 2 3 4 5 6. cbn [fst snd].
    rewrite (filter_map_comm Th _ (fun q => on_seg_h q (fst s) (snd s))) by (intros; apply (os_on _ _ _ OS)).
    rewrite sub_edges_map.
    intros w. rewrite in_map_iff, !in_flat_map. split.
    - intros (pq' & Hpq & Hw). apply in_map_iff in Hpq. destruct Hpq as (pq & <- & Hpq).
      unfold Th2 in Hw. cbn [fst snd] in Hw. rewrite (os_mid _ _ _ OS), !(os_shift _ _ _ OS) in Hw.
      destruct sd; cbn [In] in Hw.
      + destruct Hw as [<- | [<- | [<- | []]]].
        * exists (midh (fst pq) (snd pq), 1). split; [reflexivity|]. apply in_flat_map. exists pq. split; [exact Hpq | left; reflexivity].
        * exists (shift (sg * 1) (fst s) (snd s) (midh (fst pq) (snd pq)), 2). split; [reflexivity|]. apply in_flat_map. exists pq. split; [exact Hpq|].
          destruct sg_cases as [-> | ->]; cbn [Z.mul Pos.mul Z.opp In]; auto.
        * exists (shift (sg * -1) (fst s) (snd s) (midh (fst pq) (snd pq)), 2). split; [reflexivity|]. apply in_flat_map. exists pq. split; [exact Hpq|].
          destruct sg_cases as [-> | ->]; cbn [Z.mul Pos.mul Z.opp In]; auto.
      + destruct Hw as [<- | []].
        exists (midh (fst pq) (snd pq), 1). split; [reflexivity|]. apply in_flat_map. exists pq. split; [exact Hpq | left; reflexivity].
    - intros (w0 & <- & Hw0). apply in_flat_map in Hw0. destruct Hw0 as (pq & Hpq & Hw0).
      exists (Th2 Th pq). split; [apply in_map; exact Hpq|].
      unfold Th2. cbn [fst snd]. rewrite (os_mid _ _ _ OS), !(os_shift _ _ _ OS).
      destruct sd; cbn [In] in Hw0 |- *.
      + destruct Hw0 as [<- | [<- | [<- | []]]]; unfold ThW; cbn [fst snd]; [auto | |];
          destruct sg_cases as [-> | ->]; cbn [Z.mul Pos.mul Z.opp]; auto.
      + destruct Hw0 as [<- | []]. left. reflexivity.
  Qed.

  Lemma ring_flag_map : forall A B s,
    existsb (seg_eqb (t2 s)) (ring_segs (map_geom T A) ++ ring_segs (map_geom T B)) = existsb (seg_eqb s) (ring_segs A ++ ring_segs B).
  Proof.
    intros. rewrite !ring_segs_map, <- map_app. apply existsb_map_comm. intros. apply seg_eqb_map.
  Qed.

  Theorem witnesses_map : forall A B, seteq (witnesses (map_geom T A) (map_geom T B)) (map (ThW Th) (witnesses A B)).
  Proof.
    intros A B. unfold witnesses. rewrite map_app. apply seteq_app.
    - rewrite map_map. eapply seteq_trans; [apply seteq_map; apply nodes_map|]. rewrite map_map. apply seteq_refl.
    - eapply seteq_trans.
      { apply seteq_flat_map; [|apply all_segs_map]. intros s. apply seg_witnesses_seteq. apply nodes_map. }
      intros w. rewrite in_flat_map, in_map_iff. split.
      + intros (s' & Hs' & Hw). apply in_map_iff in Hs'. destruct Hs' as (s & <- & Hs).
        rewrite ring_flag_map in Hw. apply seg_witnesses_map in Hw. apply in_map_iff in Hw. destruct Hw as (w0 & <- & Hw0).
        exists w0. split; [reflexivity|]. apply in_flat_map. exists s. split; assumption.
      + intros (w0 & <- & Hw0). apply in_flat_map in Hw0. destruct Hw0 as (s & Hs & Hw0).
        exists (t2 s). split; [apply in_map; exact Hs|]. rewrite ring_flag_map. apply seg_witnesses_map. apply in_map. exact Hw0.
  Qed.

  Lemma counts_map : forall r A B w,
    witness_counts loc_dim_h r (map_geom T A) (map_geom T B) (ThW Th w) = witness_counts loc_dim_h r A B w.
  Proof. intros. unfold witness_counts, ThW. cbn [fst snd]. rewrite !(os_loc _ _ _ OS). reflexivity. Qed.
  Lemma event_map : forall r A B w,
    event_of loc_dim_h r (map_geom T A) (map_geom T B) (ThW Th w) = event_of loc_dim_h r A B w.
  Proof. intros. unfold event_of, ThW. cbn [fst snd]. rewrite !(os_loc _ _ _ OS). reflexivity. Qed.

  Theorem events_map : forall r A B, seteq (oracle_events_spec r (map_geom T A) (map_geom T B)) (oracle_events_spec r A B).
  Proof.
    intros r A B e. unfold oracle_events_spec, events_with. rewrite !in_map_iff. split.
    - intros (w' & <- & Hw'). apply filter_In in Hw'. destruct Hw' as (Hw' & Hc).
      apply witnesses_map in Hw'. apply in_map_iff in Hw'. destruct Hw' as (w & <- & Hw).
      exists w. split; [symmetry; apply event_map|]. apply filter_In. split; [exact Hw|]. rewrite <- counts_map. exact Hc.
    - intros (w & <- & Hw). apply filter_In in Hw. destruct Hw as (Hw & Hc).
      exists (ThW Th w). split; [apply event_map|]. apply filter_In. split.
      + apply witnesses_map. apply in_map. exact Hw.
      + rewrite counts_map. exact Hc.
  Qed.

  Theorem oracle_invariant : forall r A B, relate_oracle r (map_geom T A) (map_geom T B) = relate_oracle r A B.
  Proof.
    intros. rewrite !relate_oracle_spec. unfold relate_spec, matrix_of.
    rewrite !(max_dim_seteq _ _ _ _ (events_map r A B)). reflexivity.
  Qed.
End Inv.

(* ------------------------------------------------------------------ instances *)
Lemma hnorm_unfold : forall x y w, hnorm (x, y, w) =
  if w =? 1 then (x, y, w) else if Z.gcd (Z.gcd x y) w <=? 1 then (x, y, w) else (x / Z.gcd (Z.gcd x y) w, y / Z.gcd (Z.gcd x y) w, w / Z.gcd (Z.gcd x y) w).
Proof. reflexivity. Qed.

Lemma gcd3_add : forall x y w a b, Z.gcd (Z.gcd (x + w * a) (y + w * b)) w = Z.gcd (Z.gcd x y) w.
Proof.
  intros. rewrite <- !Z.gcd_assoc.
  replace (Z.gcd (y + w * b) w) with (Z.gcd y w) by (rewrite (Z.gcd_comm (y + w * b) w), (Z.mul_comm w b), Z.gcd_add_mult_diag_r; apply Z.gcd_comm).
  rewrite (Z.gcd_comm y w), Z.gcd_assoc.
  replace (Z.gcd (x + w * a) w) with (Z.gcd x w) by (rewrite (Z.gcd_comm (x + w * a) w), (Z.mul_comm w a), Z.gcd_add_mult_diag_r; apply Z.gcd_comm).
  rewrite <- Z.gcd_assoc. reflexivity.
Qed.
Lemma div_add_mul : forall x w a g, g <> 0 -> (g | w) -> (x + w * a) / g = x / g + (w / g) * a.
Proof.
  intros x w a g Hg [k ->]. rewrite Z.div_mul by exact Hg.
  replace (x + k * g * a) with (x + (k * a) * g) by ring. apply Z.div_add. exact Hg.
Qed.

Lemma osim_translate : forall d, osim (translate d) (translate_h d) 1.
Proof.
  intros [dx dy]. constructor.
  - apply sim_translate.
  - intros r g [[x y] w]. unfold loc_dim_h, translate_h, hx, hy, hw. cbn [fst snd].
    rewrite map_geom_compose.
    rewrite (map_geom_ext _ (fun a => translate (scale_pt w (dx, dy)) (scale_pt w a))) by (intros; apply scale_translate).
    rewrite <- (map_geom_compose (translate (scale_pt w (dx, dy))) (scale_pt w)).
    change (x + w * dx, y + w * dy) with (translate (scale_pt w (dx, dy)) (x, y)).
    apply loc_dim_cov; [apply pt_eqb_translate | apply on_seg_translate | apply in_ring_translate].
  - intros [[x y] w] [ax ay] [bx by_]. unfold on_seg_h, qdet, translate_h, translate, between, hx, hy, hw. cbn [fst snd].
    apply Locate.bool_eq_iff. rewrite !andb_true_iff, !Z.eqb_eq, !Z.leb_le. nia.
  - intros [ax ay] [bx by_] [[px py] pw] [[qx qy] qw]. unfold lt_on, par, translate_h, translate, hx, hy, hw. cbn [fst snd].
    f_equal; ring.
  - intros [[px py] pw] [[qx qy] qw]. unfold midh, translate_h, hx, hy, hw. cbn [fst snd]. apply triple_eq; ring.
  - intros s [ax ay] [bx by_] [[mx my] mw]. unfold shift, translate_h, translate, hx, hy, hw. cbn [fst snd]. apply triple_eq; ring.
  - intros [[x y] w]. unfold translate_h. rewrite !hnorm_unfold, gcd3_add.
    destruct (w =? 1); [reflexivity|]. destruct (Z.leb_spec (Z.gcd (Z.gcd x y) w) 1) as [|Hg]; [reflexivity|].
    assert (Hg0 : Z.gcd (Z.gcd x y) w <> 0) by lia.
    apply triple_eq; [| |reflexivity]; apply div_add_mul; try exact Hg0; apply Z.gcd_divide_r.
Qed.

(* the three linear symmetries: T negates or swaps coordinates *)
Lemma div_opp_exact : forall x g, g <> 0 -> (g | x) -> (- x) / g = - (x / g).
Proof. intros x g Hg Hd. apply Z.div_opp_l_z; [exact Hg|]. apply Z.mod_divide; assumption. Qed.
Lemma gcd3_divide_x : forall x y w, (Z.gcd (Z.gcd x y) w | x).
Proof. intros. eapply Z.divide_trans; [apply Z.gcd_divide_l | apply Z.gcd_divide_l]. Qed.
Lemma gcd3_divide_y : forall x y w, (Z.gcd (Z.gcd x y) w | y).
Proof. intros. eapply Z.divide_trans; [apply Z.gcd_divide_l | apply Z.gcd_divide_r]. Qed.

Section Linear.
  Variable T : pt -> pt.
  Hypothesis Tscale : forall w a, scale_pt w (T a) = T (scale_pt w a).
  Hypothesis Tinj : forall a b, pt_eqb (T a) (T b) = pt_eqb a b.
  Hypothesis Ton : forall p a b, on_seg (T p) (T a) (T b) = on_seg p a b.
  Hypothesis Tring : forall p r, in_ring (T p) (map T r) = in_ring p r.
  Lemma lin_loc : forall r g q, loc_dim_h r (map_geom T g) (lin_h T q) = loc_dim_h r g q.
  Proof.
    intros r g [[x y] w]. unfold loc_dim_h, lin_h, hx, hy, hw. cbn [fst snd].
    rewrite map_geom_compose. rewrite (map_geom_ext _ (fun a => T (scale_pt w a))) by (intros; apply Tscale).
    rewrite <- (map_geom_compose T (scale_pt w)). rewrite <- surjective_pairing.
    apply loc_dim_cov; assumption.
  Qed.
End Linear.

Ltac lin_solve_bool := apply Locate.bool_eq_iff; rewrite ?andb_true_iff, ?Z.eqb_eq, ?Z.leb_le, ?Z.ltb_lt; nia.

Lemma osim_reflect_x : osim reflect_x (lin_h reflect_x) (-1).
Proof.
  constructor.
  - apply sim_reflect_x.
  - apply lin_loc; [apply scale_reflect_x | apply pt_eqb_reflect_x | apply on_seg_reflect_x | apply in_ring_reflect_x].
  - intros [[x y] w] [ax ay] [bx by_]. unfold on_seg_h, qdet, lin_h, reflect_x, between, hx, hy, hw. cbn [fst snd]. lin_solve_bool.
  - intros [ax ay] [bx by_] [[px py] pw] [[qx qy] qw]. unfold lt_on, par, lin_h, reflect_x, hx, hy, hw. cbn [fst snd]. f_equal; ring.
  - intros [[px py] pw] [[qx qy] qw]. unfold midh, lin_h, reflect_x, hx, hy, hw. cbn [fst snd]. apply triple_eq; ring.
  - intros s [ax ay] [bx by_] [[mx my] mw]. unfold shift, lin_h, reflect_x, hx, hy, hw. cbn [fst snd]. apply triple_eq; ring.
  - intros [[x y] w]. unfold lin_h, reflect_x. cbn [fst snd]. rewrite !hnorm_unfold, Z.gcd_opp_l.
    destruct (w =? 1); [reflexivity|]. destruct (Z.leb_spec (Z.gcd (Z.gcd x y) w) 1) as [|Hg]; [reflexivity|].
    cbn [fst snd]. apply triple_eq; [|reflexivity|reflexivity]. apply div_opp_exact; [lia | apply gcd3_divide_x].
Qed.
Lemma osim_reflect_y : osim reflect_y (lin_h reflect_y) (-1).
Proof.
  constructor.
  - apply sim_reflect_y.
  - apply lin_loc; [apply scale_reflect_y | apply pt_eqb_reflect_y | apply on_seg_reflect_y | apply in_ring_reflect_y].
  - intros [[x y] w] [ax ay] [bx by_]. unfold on_seg_h, qdet, lin_h, reflect_y, between, hx, hy, hw. cbn [fst snd]. lin_solve_bool.
  - intros [ax ay] [bx by_] [[px py] pw] [[qx qy] qw]. unfold lt_on, par, lin_h, reflect_y, hx, hy, hw. cbn [fst snd]. f_equal; ring.
  - intros [[px py] pw] [[qx qy] qw]. unfold midh, lin_h, reflect_y, hx, hy, hw. cbn [fst snd]. apply triple_eq; ring.
  - intros s [ax ay] [bx by_] [[mx my] mw]. unfold shift, lin_h, reflect_y, hx, hy, hw. cbn [fst snd]. apply triple_eq; ring.
  - intros [[x y] w]. unfold lin_h, reflect_y. cbn [fst snd]. rewrite !hnorm_unfold, Z.gcd_opp_r.
    destruct (w =? 1); [reflexivity|]. destruct (Z.leb_spec (Z.gcd (Z.gcd x y) w) 1) as [|Hg]; [reflexivity|].
    cbn [fst snd]. apply triple_eq; [reflexivity| |reflexivity]. apply div_opp_exact; [lia | apply gcd3_divide_y].
Qed.
Lemma osim_swap : osim swap_xy (lin_h swap_xy) (-1).
Proof.
  constructor.
  - apply sim_swap.
  - apply lin_loc; [apply scale_swap | apply pt_eqb_swap | apply on_seg_swap | apply in_ring_swap].
  - intros [[x y] w] [ax ay] [bx by_]. unfold on_seg_h, qdet, lin_h, swap_xy, between, hx, hy, hw. cbn [fst snd]. lin_solve_bool.
  - intros [ax ay] [bx by_] [[px py] pw] [[qx qy] qw]. unfold lt_on, par, lin_h, swap_xy, hx, hy, hw. cbn [fst snd]. f_equal; ring.
  - intros [[px py] pw] [[qx qy] qw]. unfold midh, lin_h, swap_xy, hx, hy, hw. cbn [fst snd]. apply triple_eq; ring.
  - intros s [ax ay] [bx by_] [[mx my] mw]. unfold shift, lin_h, swap_xy, hx, hy, hw. cbn [fst snd]. apply triple_eq; ring.
  - intros [[x y] w]. unfold lin_h, swap_xy. cbn [fst snd]. rewrite !hnorm_unfold, (Z.gcd_comm y x).
    destruct (w =? 1); [reflexivity|]. destruct (Z.leb_spec (Z.gcd (Z.gcd x y) w) 1) as [|Hg]; reflexivity.
Qed.

Theorem oracle_translate : forall d r A B, relate_oracle r (map_geom (translate d) A) (map_geom (translate d) B) = relate_oracle r A B.
Proof. intros d. apply (oracle_invariant _ _ _ (osim_translate d)). Qed.
Theorem oracle_reflect_x : forall r A B, relate_oracle r (map_geom reflect_x A) (map_geom reflect_x B) = relate_oracle r A B.
Proof. apply (oracle_invariant _ _ _ osim_reflect_x). Qed.
Theorem oracle_reflect_y : forall r A B, relate_oracle r (map_geom reflect_y A) (map_geom reflect_y B) = relate_oracle r A B.
Proof. apply (oracle_invariant _ _ _ osim_reflect_y). Qed.
Theorem oracle_swap_xy : forall r A B, relate_oracle r (map_geom swap_xy A) (map_geom swap_xy B) = relate_oracle r A B.
Proof. apply (oracle_invariant _ _ _ osim_swap). Qed.
