(* C01/OracleProofs — lemmas about the DE-9IM oracle (C01/OracleDefs).
   1. the accumulated matrix (Pred.final) is the matrix of maxima, and the fast evaluation is the specification;
   2. every entry is the maximum over the witnesses with that pair of locations (soundness of the entries, EE = 2, <= 2);
   3. relate(B, A) is the transpose of relate(A, B) (the witness family is symmetric as a set);
   4. realizable_b reflects PredSound.realizable, hence every named predicate evaluated through the generated protocol on the
      oracle's events returns its pattern-set definition on the oracle's matrix. *)
From Coq Require Import ZArith List Bool Lia.
From GeosV.Lib Require Import GeomDefs LocateDefs ValidDefs Geom GenPreludePred IM.
From GeosV.C01 Require Import ArrangementDefs ArrangementProofs OracleDefs OraclePred IMGen Pred PredSound.
Import ListNotations.
Local Open Scope Z_scope.

(* ------------------------------------------------------------------ lists as sets *)
Definition seteq {X} (l l' : list X) : Prop := forall x, In x l <-> In x l'.
Lemma seteq_refl : forall {X} (l : list X), seteq l l.
Proof. intros X l x. tauto. Qed.
Lemma seteq_sym : forall {X} (l l' : list X), seteq l l' -> seteq l' l.
Proof. intros X l l' H x. symmetry. apply H. Qed.
Lemma seteq_trans : forall {X} (l1 l2 l3 : list X), seteq l1 l2 -> seteq l2 l3 -> seteq l1 l3.
Proof. intros X l1 l2 l3 H1 H2 x. rewrite (H1 x). apply H2. Qed.
Lemma seteq_app : forall {X} (a a' b b' : list X), seteq a a' -> seteq b b' -> seteq (a ++ b) (a' ++ b').
Proof. intros X a a' b b' Ha Hb x. rewrite !in_app_iff, (Ha x), (Hb x). tauto. Qed.
Lemma seteq_app_comm : forall {X} (a b : list X), seteq (a ++ b) (b ++ a).
Proof. intros X a b x. rewrite !in_app_iff. tauto. Qed.
Lemma seteq_map : forall {X Y} (f : X -> Y) l l', seteq l l' -> seteq (map f l) (map f l').
Proof. intros X Y f l l' H y. rewrite !in_map_iff. split; intros (x & E & Hx); exists x; (split; [exact E | apply H; exact Hx]). Qed.
Lemma seteq_filter : forall {X} (f g : X -> bool) l l', (forall x, f x = g x) -> seteq l l' -> seteq (filter f l) (filter g l').
Proof. intros X f g l l' Hfg H x. rewrite !filter_In, (H x), (Hfg x). tauto. Qed.
Lemma seteq_flat_map : forall {X Y} (f g : X -> list Y) l l', (forall x, seteq (f x) (g x)) -> seteq l l' -> seteq (flat_map f l) (flat_map g l').
Proof.
  intros X Y f g l l' Hfg H y. rewrite !in_flat_map.
  split; intros (x & Hx & Hy); exists x; (split; [apply H; exact Hx | apply (Hfg x); exact Hy]).
Qed.
Lemma existsb_seteq : forall {X} (f : X -> bool) l l', seteq l l' -> existsb f l = existsb f l'.
Proof.
  intros X f l l' H. apply Locate.bool_eq_iff. rewrite !existsb_exists.
  split; intros (x & Hx & E); exists x; (split; [apply H; exact Hx | exact E]).
Qed.

Section Nodup.
  Context {X : Type} (eqb : X -> X -> bool).
  Hypothesis eqb_eq : forall a b, eqb a b = true -> a = b.
  Lemma nodup_by_seteq : forall l, seteq (nodup_by eqb l) l.
  Proof.
    induction l as [|a l IH]; [apply seteq_refl|]. intros x. cbn [nodup_by].
    destruct (existsb (eqb a) l) eqn:E.
    - rewrite (IH x). cbn [In]. split; [tauto|]. intros [<- | H]; [|exact H].
      apply existsb_exists in E. destruct E as (b & Hb & Eab). apply eqb_eq in Eab. subst b. exact Hb.
    - cbn [In]. rewrite (IH x). tauto.
  Qed.
End Nodup.
Lemma seg_eqb_eq : forall s t, seg_eqb s t = true -> s = t.
Proof.
  intros [a b] [c d]. unfold seg_eqb. cbn [fst snd]. rewrite andb_true_iff, !pt_eqb_eq. intros [-> ->]. reflexivity.
Qed.
Lemma hpt_eqb_eq : forall p q, hpt_eqb p q = true -> p = q.
Proof.
  intros [[x y] w] [[x' y'] w']. unfold hpt_eqb, hx, hy, hw. cbn [fst snd]. rewrite !andb_true_iff, !Z.eqb_eq.
  intros [[-> ->] ->]. reflexivity.
Qed.

(* ------------------------------------------------------------------ the witness family is symmetric *)
Lemma raw_nodes_seteq : forall ss ss' cs cs', seteq ss ss' -> seteq cs cs' -> seteq (raw_nodes ss cs) (raw_nodes ss' cs').
Proof.
  intros ss ss' cs cs' Hs Hc. unfold raw_nodes. apply seteq_app; [apply seteq_map; exact Hc|].
  apply seteq_flat_map; [|exact Hs]. intros s. apply seteq_flat_map; [intros; apply seteq_refl | exact Hs].
Qed.
Lemma sub_edges_seteq : forall a b l l', seteq l l' -> seteq (sub_edges a b l) (sub_edges a b l').
Proof.
  intros a b l l' H. unfold sub_edges. apply seteq_flat_map; [|exact H]. intros p.
  apply seteq_flat_map; [|exact H]. intros q. rewrite (existsb_seteq _ l l' H). apply seteq_refl.
Qed.
Lemma seg_witnesses_seteq : forall ns ns' sd s, seteq ns ns' -> seteq (seg_witnesses ns sd s) (seg_witnesses ns' sd s).
Proof.
  intros ns ns' sd s H. unfold seg_witnesses. apply seteq_flat_map; [intros; apply seteq_refl|].
  apply sub_edges_seteq. apply seteq_filter; [reflexivity | exact H].
Qed.
Lemma all_segs_swap : forall A B, seteq (all_segs A B) (all_segs B A).
Proof.
  intros. unfold all_segs.
  eapply seteq_trans; [apply (nodup_by_seteq seg_eqb seg_eqb_eq)|].
  eapply seteq_trans; [apply seteq_app_comm|]. apply seteq_sym. apply (nodup_by_seteq seg_eqb seg_eqb_eq).
Qed.
Lemma nodes_swap : forall A B, seteq (nodes A B) (nodes B A).
Proof.
  intros. unfold nodes.
  eapply seteq_trans; [apply (nodup_by_seteq hpt_eqb hpt_eqb_eq)|].
  eapply seteq_trans; [|apply seteq_sym; apply (nodup_by_seteq hpt_eqb hpt_eqb_eq)].
  apply raw_nodes_seteq; [apply all_segs_swap | apply seteq_app_comm].
Qed.
Theorem witnesses_swap : forall A B, seteq (witnesses A B) (witnesses B A).
Proof.
  intros. unfold witnesses. apply seteq_app.
  - apply seteq_map. apply nodes_swap.
  - apply seteq_flat_map; [|apply all_segs_swap]. intros s.
    rewrite (existsb_seteq (seg_eqb s) (ring_segs A ++ ring_segs B) (ring_segs B ++ ring_segs A)) by apply seteq_app_comm.
    apply seg_witnesses_seteq. apply nodes_swap.
Qed.

(* ------------------------------------------------------------------ dimensions of the witnesses, well-formed events *)
Lemma witnesses_dim : forall A B w, In w (witnesses A B) -> snd w = 0 \/ snd w = 1 \/ snd w = 2.
Proof.
  intros A B w. unfold witnesses. rewrite in_app_iff, in_map_iff, in_flat_map.
  intros [(q & <- & _) | (s & _ & H)]; [left; reflexivity|].
  unfold seg_witnesses in H. apply in_flat_map in H. destruct H as (pq & _ & H).
  destruct (existsb _ _); cbn [In] in H; [destruct H as [<- | [<- | [<- | []]]] | destruct H as [<- | []]]; cbn [snd]; auto.
Qed.
Lemma loc_code_range : forall l, loc_code l = 0 \/ loc_code l = 1 \/ loc_code l = 2.
Proof. intros []; cbn; auto. Qed.
Lemma events_ok : forall L r A B, Forall ev_ok (events_with L r A B).
Proof.
  intros. apply Forall_forall. intros e He. unfold events_with in He. apply in_map_iff in He.
  destruct He as (w & <- & Hw). apply filter_In in Hw. destruct Hw as (Hw & _).
  unfold event_of, ev_ok. split; [apply loc_code_range|]. split; [apply loc_code_range|].
  destruct (witnesses_dim _ _ _ Hw) as [-> | [-> | ->]]; lia.
Qed.

(* ------------------------------------------------------------------ maxima *)
Lemma max_dim_lower : forall evs la lb, dF <= max_dim evs la lb.
Proof.
  intros. induction evs as [|[[a b] d] evs IH]; cbn [max_dim fold_right]; [lia|].
  fold (max_dim evs la lb). destruct ((a =? la) && (b =? lb)); lia.
Qed.
Lemma max_dim_ge : forall evs la lb d, In (la, lb, d) evs -> d <= max_dim evs la lb.
Proof.
  intros evs la lb d. induction evs as [|[[a b] d'] evs IH]; [intros []|].
  cbn [max_dim fold_right In]. fold (max_dim evs la lb). intros [E | H].
  - inversion E; subst. rewrite !Z.eqb_refl. cbn [andb]. lia.
  - specialize (IH H). destruct ((a =? la) && (b =? lb)); lia.
Qed.
Lemma max_dim_in : forall evs la lb, dF < max_dim evs la lb -> In (la, lb, max_dim evs la lb) evs.
Proof.
  intros evs la lb. induction evs as [|[[a b] d] evs IH]; cbn [max_dim fold_right In]; [lia|].
  fold (max_dim evs la lb). destruct ((a =? la) && (b =? lb)) eqn:E.
  - apply andb_true_iff in E. rewrite !Z.eqb_eq in E. destruct E as [-> ->]. intros H.
    destruct (Z.max_spec d (max_dim evs la lb)) as [[Hlt ->] | [Hle ->]]; [right; apply IH; lia | left; reflexivity].
  - intros H. right. apply IH. exact H.
Qed.
Lemma max_dim_upper : forall evs la lb k, dF <= k -> (forall a b d, In (a, b, d) evs -> d <= k) -> max_dim evs la lb <= k.
Proof.
  intros evs la lb k Hk H. destruct (Z_le_gt_dec (max_dim evs la lb) dF) as [Hle|Hgt]; [lia|].
  apply (H la lb). apply max_dim_in. lia.
Qed.
Lemma max_dim_incl : forall evs evs' la lb, (forall e, In e evs -> In e evs') -> max_dim evs la lb <= max_dim evs' la lb.
Proof.
  intros evs evs' la lb H. destruct (Z_le_gt_dec (max_dim evs la lb) dF) as [Hle|Hgt].
  - pose proof (max_dim_lower evs' la lb). lia.
  - apply max_dim_ge. apply H. apply max_dim_in. lia.
Qed.
Lemma max_dim_seteq : forall evs evs' la lb, seteq evs evs' -> max_dim evs la lb = max_dim evs' la lb.
Proof.
  intros evs evs' la lb H. apply Z.le_antisymm; apply max_dim_incl; intros e; apply H.
Qed.

(* ------------------------------------------------------------------ IntersectionMatrix accumulation = maxima *)
Definition cmax (m : im) (evs : list ev) : im :=
  match m with
  | [a; b; c; d; e; f; g; h; i] =>
      [Z.max a (max_dim evs 0 0); Z.max b (max_dim evs 0 1); Z.max c (max_dim evs 0 2);
       Z.max d (max_dim evs 1 0); Z.max e (max_dim evs 1 1); Z.max f (max_dim evs 1 2);
       Z.max g (max_dim evs 2 0); Z.max h (max_dim evs 2 1); Z.max i (max_dim evs 2 2)]
  | _ => m
  end.
Lemma max_dim_cons : forall a b d evs la lb,
  max_dim ((a, b, d) :: evs) la lb = if (a =? la) && (b =? lb) then Z.max d (max_dim evs la lb) else max_dim evs la lb.
Proof. reflexivity. Qed.
Lemma le9_lower : forall k p m, le9 p m -> Forall (Z.le k) p -> Forall (Z.le k) m.
Proof. unfold le9. intros k p m H. induction H; intros Hp; inversion Hp; subst; constructor; [lia | auto]. Qed.
Lemma fold_sal_cmax : forall evs m, Forall ev_ok evs -> length m = 9%nat -> Forall (Z.le dF) m -> fold_left sal evs m = cmax m evs.
Proof.
  induction evs as [|[[la lb] d] evs IH]; intros m Hev Hm Hlo.
  - destruct (len9 m Hm) as (a & b & c & d & e & f & g & h & i & ->). cbn [fold_left cmax max_dim fold_right].
    repeat match goal with H : Forall _ (_ :: _) |- _ => inversion H; clear H; subst end.
    repeat (f_equal; try lia).
  - inversion Hev as [|? ? He Hr]; subst. cbn [fold_left].
    rewrite IH; [| assumption | apply sal_len; assumption | apply (le9_lower dF m); [apply sal_le; assumption | assumption]].
    destruct (len9 m Hm) as (a & b & c & d0 & e & f & g & h & i & ->). destruct He as (Ha & Hb & Hd).
    unfold sal. destruct (Z.ltb_spec (m_get_2 [a; b; c; d0; e; f; g; h; i] la lb) d) as [Hlt|Hge];
      destruct Ha as [-> | [-> | ->]], Hb as [-> | [-> | ->]];
      cbv [m_get_2 m_set_3 upd_nth nth Z.to_nat Pos.to_nat Pos.iter_op Init.Nat.add Z.mul Z.add Pos.mul Pos.add Pos.succ] in *;
      cbn [cmax]; rewrite !max_dim_cons; cbn [Z.eqb Pos.eqb andb]; repeat (f_equal; try lia).
Qed.
Lemma ofinal_final : forall evs, ofinal evs = final evs.
Proof. reflexivity. Qed.
Theorem final_matrix_of : forall evs, Forall ev_ok evs -> final evs = matrix_of evs.
Proof.
  intros evs H. unfold final. rewrite fold_sal_cmax by (try assumption; try reflexivity; unfold m0, pst0, f_intMatrix, dF; repeat constructor; lia).
  unfold m0, pst0, f_intMatrix, cmax, matrix_of.
  pose proof (max_dim_lower evs) as L. unfold dF in L.
  repeat (f_equal; try (rewrite Z.max_r; [reflexivity | apply L])).
Qed.

(* ------------------------------------------------------------------ evaluation = specification *)
Lemma events_with_ext : forall L L' r A B, (forall r g q, L r g q = L' r g q) -> events_with L r A B = events_with L' r A B.
Proof.
  intros L L' r A B H. unfold events_with.
  rewrite (filter_ext (witness_counts L r A B) (witness_counts L' r A B)) by (intros w; unfold witness_counts; rewrite !H; reflexivity).
  apply map_ext. intros w. unfold event_of. rewrite !H. reflexivity.
Qed.
Theorem oracle_events_eq : forall r A B, oracle_events r A B = oracle_events_spec r A B.
Proof. intros. apply events_with_ext. apply loc_dim_fast_eq. Qed.
Theorem relate_oracle_spec : forall r A B, relate_oracle r A B = relate_spec r A B.
Proof.
  intros. unfold relate_oracle, relate_spec. rewrite oracle_events_eq, ofinal_final. apply final_matrix_of. apply events_ok.
Qed.
Lemma forallb_ext' : forall {X} (f g : X -> bool) l, (forall a, f a = g a) -> forallb f l = forallb g l.
Proof. intros X f g l H. induction l as [|a l IH]; cbn; [reflexivity|]. rewrite H, IH. reflexivity. Qed.
Theorem side_ok_spec : forall r A B, side_ok r A B = side_ok_with loc_dim_h r A B.
Proof.
  intros. unfold side_ok, side_ok_with. apply forallb_ext'. intros w. unfold witness_counts. rewrite !loc_dim_fast_eq. reflexivity.
Qed.

Lemma map_fst_filter_snd : forall {X Y} (f : X -> Y) (c : X -> bool) l,
  map fst (filter snd (map (fun w => (f w, c w)) l)) = map f (filter c l).
Proof. intros. induction l as [|a l IH]; [reflexivity|]. cbn [map filter snd]. destruct (c a); cbn [map fst]; rewrite IH; reflexivity. Qed.
Lemma forallb_snd_map : forall {X Y} (f : X -> Y) (c : X -> bool) l, forallb snd (map (fun w => (f w, c w)) l) = forallb c l.
Proof. intros. induction l as [|a l IH]; [reflexivity|]. cbn [map forallb snd]. rewrite IH. reflexivity. Qed.
Theorem oracle_run_eq : forall r A B, oracle_run r A B = (relate_oracle r A B, side_ok r A B).
Proof. intros. unfold oracle_run. rewrite map_fst_filter_snd, forallb_snd_map. reflexivity. Qed.

(* ------------------------------------------------------------------ the entries are maxima over the witnesses *)
(* w is a witness of dimension d located la in A and lb in B (codes 0 = Interior, 1 = Boundary, 2 = Exterior); a witness of
   dimension 2 is moreover open in both geometries *)
Definition is_witness (r : bnrule) (A B : geom) (la lb d : Z) (w : hpt * Z) : Prop :=
  In w (witnesses A B) /\ snd w = d /\
  loc_code (loc_rule_h r A (fst w)) = la /\ loc_code (loc_rule_h r B (fst w)) = lb /\
  (d = 2 -> open_loc (loc_dim_h r A (fst w)) = true /\ open_loc (loc_dim_h r B (fst w)) = true).

Lemma in_events_iff : forall r A B la lb d,
  In (la, lb, d) (oracle_events_spec r A B) <-> exists w, is_witness r A B la lb d w.
Proof.
  intros. unfold oracle_events_spec, events_with, is_witness. rewrite in_map_iff. split.
  - intros (w & E & Hw). apply filter_In in Hw. destruct Hw as (Hw & Hc). exists w. unfold event_of in E. inversion E; subst.
    split; [exact Hw|]. split; [reflexivity|]. split; [reflexivity|]. split; [reflexivity|].
    intros H2. unfold witness_counts in Hc. rewrite H2 in Hc. cbn [Z.eqb Pos.eqb] in Hc. apply andb_true_iff in Hc. exact Hc.
  - intros (w & Hw & Hd & Ha & Hb & Ho). exists w. split.
    + unfold event_of. unfold loc_rule_h in Ha, Hb. rewrite Ha, Hb, Hd. reflexivity.
    + apply filter_In. split; [exact Hw|]. unfold witness_counts. destruct (Z.eqb_spec (snd w) 2) as [E|_]; [|reflexivity].
      rewrite Hd in E. destruct (Ho E) as [-> ->]. reflexivity.
Qed.

Definition mentry (m : matrix) (la lb : Z) : Z := m_get_2 m la lb.
Lemma matrix_of_entry : forall evs la lb, (la = 0 \/ la = 1 \/ la = 2) -> (lb = 0 \/ lb = 1 \/ lb = 2) ->
  mentry (matrix_of evs) la lb = if (la =? 2) && (lb =? 2) then Z.max 2 (max_dim evs 2 2) else max_dim evs la lb.
Proof. intros evs la lb [-> | [-> | ->]] [-> | [-> | ->]]; reflexivity. Qed.

Theorem oracle_entry_is_max : forall r A B la lb, (la = 0 \/ la = 1 \/ la = 2) -> (lb = 0 \/ lb = 1 \/ lb = 2) ->
  let d := mentry (relate_oracle r A B) la lb in
  dF <= d <= 2 /\
  (forall d' w, is_witness r A B la lb d' w -> d' <= d) /\
  (0 <= d -> (la = 2 /\ lb = 2 /\ d = 2) \/ exists w, is_witness r A B la lb d w) /\
  mentry (relate_oracle r A B) 2 2 = 2.
Proof.
  intros r A B la lb Hla Hlb. cbv zeta. rewrite relate_oracle_spec. unfold relate_spec.
  assert (Hup : forall a b, max_dim (oracle_events_spec r A B) a b <= 2).
  { intros. apply max_dim_upper; [unfold dF; lia|]. intros a' b' d' H.
    pose proof (events_ok loc_dim_h r A B) as Hok. rewrite Forall_forall in Hok. specialize (Hok _ H). cbn in Hok. lia. }
  assert (HEE : mentry (matrix_of (oracle_events_spec r A B)) 2 2 = 2).
  { rewrite matrix_of_entry by auto. cbn [Z.eqb Pos.eqb andb]. specialize (Hup 2 2). lia. }
  rewrite matrix_of_entry by assumption.
  pose proof (max_dim_lower (oracle_events_spec r A B)) as Hlo.
  destruct ((la =? 2) && (lb =? 2)) eqn:E.
  - apply andb_true_iff in E. rewrite !Z.eqb_eq in E. destruct E as [-> ->].
    specialize (Hup 2 2). specialize (Hlo 2 2). unfold dF in *. rewrite Z.max_l by lia.
    split; [lia|]. split; [|split; [intros _; left; auto | exact HEE]].
    intros d' w Hw. assert (H : In (2, 2, d') (oracle_events_spec r A B)) by (apply in_events_iff; exists w; exact Hw).
    apply max_dim_ge in H. lia.
  - split; [specialize (Hup la lb); specialize (Hlo la lb); lia|]. split; [|split; [|exact HEE]].
    + intros d' w Hw. apply max_dim_ge. apply in_events_iff. exists w. exact Hw.
    + intros Hd. right. apply in_events_iff. apply max_dim_in. unfold dF. lia.
Qed.

(* ------------------------------------------------------------------ transposition *)
Lemma is_witness_swap : forall r A B la lb d w, is_witness r A B la lb d w -> is_witness r B A lb la d w.
Proof.
  intros r A B la lb d w (Hw & Hd & Ha & Hb & Ho). split; [apply (witnesses_swap A B); exact Hw|].
  split; [exact Hd|]. split; [exact Hb|]. split; [exact Ha|]. intros H. destruct (Ho H). auto.
Qed.
Lemma max_dim_swap : forall r A B la lb, max_dim (oracle_events_spec r B A) lb la = max_dim (oracle_events_spec r A B) la lb.
Proof.
  intros. apply Z.le_antisymm.
  - destruct (Z_le_gt_dec (max_dim (oracle_events_spec r B A) lb la) dF) as [Hle|Hgt].
    + pose proof (max_dim_lower (oracle_events_spec r A B) la lb). lia.
    + apply max_dim_ge. apply in_events_iff.
      assert (H : In (lb, la, max_dim (oracle_events_spec r B A) lb la) (oracle_events_spec r B A)) by (apply max_dim_in; lia).
      apply in_events_iff in H. destruct H as (w & Hw). exists w. apply is_witness_swap. exact Hw.
  - destruct (Z_le_gt_dec (max_dim (oracle_events_spec r A B) la lb) dF) as [Hle|Hgt].
    + pose proof (max_dim_lower (oracle_events_spec r B A) lb la). lia.
    + apply max_dim_ge. apply in_events_iff.
      assert (H : In (la, lb, max_dim (oracle_events_spec r A B) la lb) (oracle_events_spec r A B)) by (apply max_dim_in; lia).
      apply in_events_iff in H. destruct H as (w & Hw). exists w. apply is_witness_swap. exact Hw.
Qed.
Theorem oracle_transpose : forall r A B, relate_oracle r B A = transpose (relate_oracle r A B).
Proof.
  intros. rewrite !relate_oracle_spec. unfold relate_spec, matrix_of, transpose.
  rewrite !(max_dim_swap r A B). reflexivity.
Qed.

(* ------------------------------------------------------------------ realizability and the named predicates *)
Lemma realizable_reflect : forall dA dB eA eB m, realizable_b dA dB eA eB m = true -> realizable dA dB eA eB m.
Proof.
  intros dA dB eA eB m. unfold realizable_b, realizable.
  destruct m as [|ii [|ib [|ie [|bi [|bb [|be [|ei [|eb [|ee [|? ?]]]]]]]]]]; try discriminate.
  unfold none4. rewrite !andb_true_iff, !orb_true_iff, !andb_true_iff, negb_true_iff, !Z.leb_le, !Z.eqb_eq.
  intros (((((H1 & H2) & H3) & H4) & H5) & H6).
  split; [intros E; rewrite E in H1; destruct H1 as [H1|H1]; [discriminate | tauto]|].
  split; [intros E; rewrite E in H2; destruct H2 as [[H2|H2]|H2]; [discriminate | tauto | tauto]|].
  split; [intros E; rewrite E in H3; destruct H3 as [[H3|H3]|H3]; [discriminate | tauto | tauto]|].
  split; [intros E; rewrite E in H4; destruct H4 as [H4|H4]; [discriminate | tauto]|].
  split; [intros E; rewrite E in H5; destruct H5 as [H5|H5]; [discriminate | tauto]|].
  intros -> ->. destruct H6 as [H6|H6]; [discriminate | exact H6].
Qed.

Theorem oracle_named_predicates : forall r A B,
  let dA := dim_real A in let dB := dim_real B in let eA := env_of A in let eB := env_of B in
  let evs := oracle_events r A B in let m := relate_oracle r A B in
  oracle_realizable r A B = true ->
  evaluate vt_contains dA dB eA eB evs = spec_contains m /\
  evaluate vt_within dA dB eA eB evs = spec_within m /\
  evaluate vt_covers dA dB eA eB evs = spec_covers m /\
  evaluate vt_coveredBy dA dB eA eB evs = spec_coveredBy m /\
  evaluate vt_crosses dA dB eA eB evs = spec_crosses dA dB m /\
  evaluate vt_overlaps dA dB eA eB evs = spec_overlaps dA dB m /\
  evaluate vt_touches dA dB eA eB evs = spec_touches dA dB m /\
  evaluate vt_intersects dA dB eA eB evs = spec_intersects m /\
  evaluate vt_disjoint dA dB eA eB evs = spec_disjoint m /\
  (~ (eA = None /\ eB = None) -> evaluate vt_equals dA dB eA eB evs = spec_equals dA dB m).
Proof.
  intros r A B dA dB eA eB evs m HR. apply realizable_reflect in HR.
  assert (Hev : Forall ev_ok evs) by apply events_ok.
  change m with (final evs). change (relate_oracle r A B) with (final evs) in HR.
  repeat split;
  first [apply contains_sound | apply within_sound | apply covers_sound | apply coveredBy_sound | apply crosses_sound | apply overlaps_sound
        | apply touches_sound | apply intersects_sound | apply disjoint_sound | intros; apply equals_sound]; assumption.
Qed.

(* ------------------------------------------------------------------ without lines the boundary node rule is irrelevant *)
Lemma events_with_ext2 : forall L L' r r' A B,
  (forall q, L r A q = L' r' A q) -> (forall q, L r B q = L' r' B q) -> events_with L r A B = events_with L' r' A B.
Proof.
  intros L L' r r' A B HA HB. unfold events_with.
  rewrite (filter_ext (witness_counts L r A B) (witness_counts L' r' A B)) by (intros w; unfold witness_counts; rewrite HA, HB; reflexivity).
  apply map_ext. intros w. unfold event_of. rewrite HA, HB. reflexivity.
Qed.
Lemma in_boundary_0 : forall r, in_boundary r 0 = false.
Proof. intros []; reflexivity. Qed.
Lemma loc_dim_no_lines : forall r r' g p, lines_of g = [] -> loc_dim r g p = loc_dim r' g p.
Proof.
  intros r r' g p H. unfold loc_dim, loc_lines. rewrite H. cbn [end_count fold_right existsb]. rewrite !in_boundary_0. reflexivity.
Qed.
Lemma loc_dim_h_no_lines : forall r r' g q, lines_of g = [] -> loc_dim_h r g q = loc_dim_h r' g q.
Proof. intros. unfold loc_dim_h. apply loc_dim_no_lines. rewrite lines_of_map, H. reflexivity. Qed.
Theorem oracle_rule_irrelevant : forall r r' A B, lines_of A = [] -> lines_of B = [] ->
  relate_oracle r A B = relate_oracle r' A B /\ side_ok r A B = side_ok r' A B.
Proof.
  intros r r' A B HA HB. split.
  - unfold relate_oracle, oracle_events. f_equal. apply events_with_ext2; intros q; rewrite !loc_dim_fast_eq; apply loc_dim_h_no_lines; assumption.
  - unfold side_ok, side_ok_with. apply forallb_ext'. intros w. unfold witness_counts.
    rewrite !loc_dim_fast_eq, (loc_dim_h_no_lines r r' A), (loc_dim_h_no_lines r r' B) by assumption. reflexivity.
Qed.

(* ------------------------------------------------------------------ every witness is a proper homogeneous point (w > 0) *)
Lemma hnorm_pos : forall q, 0 < hw q -> 0 < hw (hnorm q).
Proof.
  intros [[x y] w]. unfold hnorm, hw. cbn [snd]. intros Hw.
  destruct (w =? 1); [exact Hw|]. destruct (Z.leb_spec (Z.gcd (Z.gcd x y) w) 1) as [|Hg]; [exact Hw|]. cbn [snd].
  apply Z.div_str_pos. split; [lia|]. apply Z.divide_pos_le; [exact Hw | apply Z.gcd_divide_r].
Qed.
Lemma proper_pt_pos : forall a b o3 o4, o3 - o4 <> 0 -> 0 < hw (proper_pt a b o3 o4).
Proof. intros a b o3 o4 H. unfold proper_pt, hw. destruct (Z.ltb_spec 0 (o3 - o4)); cbn [snd]; lia. Qed.
Lemma seg_int_pos : forall a b c d q, In q (sres_nodes (seg_int a b c d)) -> 0 < hw q.
Proof.
  intros a b c d q. unfold seg_int.
  destruct (opposite (orient a b c) (orient a b d) && opposite (orient c d a) (orient c d b)) eqn:E.
  - cbn [sres_nodes In]. intros [<- | []]. apply hnorm_pos, proper_pt_pos.
    apply andb_true_iff in E. destruct E as [_ E]. unfold opposite in E.
    rewrite orb_true_iff, !andb_true_iff, !Z.ltb_lt in E. lia.
  - destruct (nodup_pts _) as [|p [|p' l]]; cbn [sres_nodes In]; [tauto | intros [<- | []] | intros [<- | [<- | []]]]; cbn; lia.
Qed.
Lemma nodes_pos : forall A B q, In q (nodes A B) -> 0 < hw q.
Proof.
  intros A B q H. unfold nodes in H. apply (proj1 (nodup_by_seteq hpt_eqb hpt_eqb_eq _ q)) in H. unfold raw_nodes in H.
  apply in_app_iff in H. destruct H as [H|H].
  - apply in_map_iff in H. destruct H as (c & <- & _). cbn. lia.
  - apply in_flat_map in H. destruct H as (s & _ & H). apply in_flat_map in H. destruct H as (t & _ & H). eapply seg_int_pos; exact H.
Qed.
Lemma eps_den_pos : 0 < EPS_DEN.
Proof. reflexivity. Qed.
Theorem witnesses_pos : forall A B w, In w (witnesses A B) -> 0 < hw (fst w).
Proof.
  intros A B w. unfold witnesses. rewrite in_app_iff, in_map_iff, in_flat_map.
  intros [(q & <- & Hq) | (s & _ & H)]; [cbn [fst]; eapply nodes_pos; exact Hq|].
  unfold seg_witnesses in H. apply in_flat_map in H. destruct H as ([p q] & Hpq & H).
  unfold sub_edges in Hpq. apply in_flat_map in Hpq. destruct Hpq as (p' & Hp & Hpq). apply in_flat_map in Hpq. destruct Hpq as (q' & Hq & Hpq).
  destruct (lt_on _ _ _ _ && _); [|destruct Hpq]. destruct Hpq as [E | []]. inversion E; subst p' q'. clear E.
  apply filter_In in Hp, Hq. destruct Hp as (Hp & _), Hq as (Hq & _). apply nodes_pos in Hp, Hq.
  assert (Hm : 0 < hw (midh p q)) by (unfold midh, hw in *; cbn [fst snd] in *; nia).
  pose proof eps_den_pos as He.
  assert (Hs : forall sg, 0 < hw (shift sg (fst s) (snd s) (midh p q))) by (intros sg; unfold shift; unfold hw at 1; cbn [snd]; nia).
  cbn [fst snd] in H. destruct (existsb _ _); cbn [In] in H; [destruct H as [<- | [<- | [<- | []]]] | destruct H as [<- | []]]; cbn [fst]; auto.
Qed.

(* ------------------------------------------------------------------ one of the facts of PredSound.realizable, proved:
   a geometry without (non-empty) polygons has no 2-dimensional interior or boundary part, so for two lines II <= 1 *)
Lemma loc_poly_empty_shell : forall p a, fst a = [] -> loc_poly p a <> Interior.
Proof.
  intros p [s hs] H. cbn [fst] in H. subst s. unfold loc_poly, poly_rings. cbn [fst snd].
  match goal with |- (if ?c then _ else _) <> _ => destruct c end; cbv iota; [discriminate|].
  assert (E : in_ring p [] = Exterior) by reflexivity. rewrite E. cbn [location_eqb andb]. cbv iota. discriminate.
Qed.
Lemma loc_dim_interior2 : forall r g p, loc_dim r g p = (Interior, 2) ->
  existsb (fun a => location_eqb (loc_poly p a) Interior) (polys_of g) = true.
Proof.
  intros r g p. unfold loc_dim. destruct (existsb (fun a => location_eqb (loc_poly p a) Interior) (polys_of g)); [reflexivity|].
  destruct (existsb (fun a => location_eqb (loc_poly p a) Boundary) (polys_of g)); [discriminate|].
  destruct (loc_lines r p (lines_of g)); try discriminate. destruct (existsb _ _); discriminate.
Qed.
Lemma no_area_no_interior2 : forall r g q, existsb nonempty_poly (polys_of g) = false -> loc_dim_h r g q <> (Interior, 2).
Proof.
  intros r g q H E. unfold loc_dim_h in E. apply loc_dim_interior2 in E. rewrite polys_of_map in E.
  apply existsb_exists in E. destruct E as (a' & Ha' & E). apply in_map_iff in Ha'. destruct Ha' as (a & <- & Ha).
  assert (Hne : nonempty_poly a = false).
  { destruct (nonempty_poly a) eqn:En; [|reflexivity]. assert (existsb nonempty_poly (polys_of g) = true) by (apply existsb_exists; exists a; auto). congruence. }
  unfold nonempty_poly, poly_is_empty in Hne. destruct a as [s hs]. cbn [fst] in Hne. destruct s; [|discriminate].
  assert (Hl : forall l, location_eqb l Interior = true -> l = Interior) by (intros []; [reflexivity | discriminate | discriminate]).
  apply Hl in E. revert E. apply loc_poly_empty_shell. reflexivity.
Qed.
Theorem oracle_lines_II : forall r A B, existsb nonempty_poly (polys_of A) = false -> mentry (relate_oracle r A B) 0 0 <= 1.
Proof.
  intros r A B H. destruct (oracle_entry_is_max r A B 0 0) as ((_ & Hle) & _ & Hw & _); auto.
  destruct (Z.eq_dec (mentry (relate_oracle r A B) 0 0) 2) as [E2|]; [|lia]. exfalso.
  destruct Hw as [(Hc & _) | (w & _ & _ & Ha & _ & Ho)]; [lia | discriminate |].
  rewrite E2 in Ho. destruct (Ho eq_refl) as (HoA & _). unfold loc_rule_h in Ha.
  apply (no_area_no_interior2 r A (fst w) H). unfold open_loc in HoA.
  destruct (loc_dim_h r A (fst w)) as [l d]. cbn [fst snd] in *. destruct l; cbn in Ha; try discriminate.
  apply Z.eqb_eq in HoA. subst d. reflexivity.
Qed.
Lemma dim_real_le1 : forall g, dim_real g <= 1 -> existsb nonempty_poly (polys_of g) = false.
Proof. intros g. unfold dim_real. destruct (existsb nonempty_poly (polys_of g)); [lia | reflexivity]. Qed.
Corollary oracle_realizable_LL : forall r A B, dim_real A = 1 -> dim_real B = 1 -> mentry (relate_oracle r A B) 0 0 <= 1.
Proof. intros r A B HA _. apply oracle_lines_II. apply dim_real_le1. lia. Qed.
