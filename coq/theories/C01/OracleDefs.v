(* C01/OracleDefs — the DE-9IM ORACLE: the dimensionally extended intersection matrix of two geometries over exact grid
   coordinates, as a specification-level model (S).  Definitions only; lemmas in OracleProofs.v.

     relate_oracle rule A B : matrix        [II IB IE BI BB BE EI EB EE], F = -1
       entry (la, lb) = the largest dimension of a witness w of the arrangement of A and B (C01/ArrangementDefs) with
       location la in A and lb in B (Lib/LocateDefs.loc_dim, line boundaries by `rule`), F when there is none; EE = 2.
       A side witness (dimension 2) counts only if it is OPEN in both geometries: its location is decided by areas alone
       (area interior, or exterior and on no line and no point) — so that a disc round it has the same pair of locations.

   Scope: Point / LineString / LinearRing / Polygon / Multi* / GeometryCollection whose polygons do not overlap and do not
   share boundary SEGMENTS (then the component-wise `loc_dim` is the point set of the union; RelateNG's union semantics for
   overlapping or edge-adjacent polygons of a collection is not modelled here).

   `relate_spec` is the definition by maxima, `relate_oracle` accumulates the same events the way IntersectionMatrix does
   (setAtLeast; the same function as C01/Pred.final), evaluated with the fast locator; OracleProofs: the two coincide.
   This file depends on hand-written library files only (nothing generated from the C++, no proof file), so that the oracle
   still builds and runs when a generated unit or a proof about one breaks; what needs the generated predicate classes is in
   OraclePred.v. *)
From Coq Require Import ZArith List Bool.
From GeosV.Lib Require Import GeomDefs LocateDefs ValidDefs GenPreludePred IM.
From GeosV.C01 Require Import ArrangementDefs.
Import ListNotations.
Local Open Scope Z_scope.

(* an event: (location in A, location in B, dimension); IntersectionMatrix::setAtLeast; the empty matrix with EE = 2 *)
Definition ev := (Z * Z * Z)%type.
Definition osal (m : im) (e : ev) : im := let '(la, lb, d) := e in if m_get_2 m la lb <? d then m_set_3 m la lb d else m.
Definition om0 : im := [-1; -1; -1; -1; -1; -1; -1; -1; 2].
Definition ofinal (evs : list ev) : im := fold_left osal evs om0.

Definition loc_code (l : location) : Z := match l with Interior => 0 | Boundary => 1 | Exterior => 2 end.

(* a location is open: decided by an area, or exterior *)
Definition open_loc (ld : location * Z) : bool :=
  match fst ld with Boundary => false | _ => snd ld =? 2 end.

Section WithLocator.
  (* the locator: specification = loc_dim_h, evaluation = loc_dim_fast *)
  Variable L : bnrule -> geom -> hpt -> location * Z.
  Variable r : bnrule.
  Variables A B : geom.

  Definition witness_counts (w : hpt * Z) : bool :=
    if snd w =? 2 then open_loc (L r A (fst w)) && open_loc (L r B (fst w)) else true.
  Definition event_of (w : hpt * Z) : ev := (loc_code (fst (L r A (fst w))), loc_code (fst (L r B (fst w))), snd w).
  Definition events_with : list ev := map event_of (filter witness_counts (witnesses A B)).
  (* every side witness is open (the certificate that K_EPS is small enough not to land on linework) *)
  Definition side_ok_with : bool := forallb witness_counts (witnesses A B).
End WithLocator.

(* ---- specification: entry = maximum over the witnesses with that pair of locations ---- *)
Definition max_dim (evs : list ev) (la lb : Z) : Z :=
  fold_right (fun e acc => let '(a, b, d) := e in if (a =? la) && (b =? lb) then Z.max d acc else acc) dF evs.
Definition matrix_of (evs : list ev) : matrix :=
  [max_dim evs 0 0; max_dim evs 0 1; max_dim evs 0 2;
   max_dim evs 1 0; max_dim evs 1 1; max_dim evs 1 2;
   max_dim evs 2 0; max_dim evs 2 1; Z.max 2 (max_dim evs 2 2)].
Definition oracle_events_spec (r : bnrule) (A B : geom) : list ev := events_with loc_dim_h r A B.
Definition relate_spec (r : bnrule) (A B : geom) : matrix := matrix_of (oracle_events_spec r A B).

(* ---- evaluation ---- *)
Definition oracle_events (r : bnrule) (A B : geom) : list ev := events_with loc_dim_fast r A B.
Definition relate_oracle (r : bnrule) (A B : geom) : matrix := ofinal (oracle_events r A B).
Definition side_ok (r : bnrule) (A B : geom) : bool := side_ok_with loc_dim_fast r A B.

(* ---- nodes whose coordinates are not binary64 numbers ----
   The implementation computes a proper intersection point in binary64 and uses the rounded point as the identity of the node
   and as the point it locates in the two geometries.  When the exact point is not representable and at least three segments
   pass through it (counted per geometry: the segments of A and those of B separately, a segment and its reverse once), the
   points computed for different segment pairs differ, or the rounded point is located off a segment it should lie on: the
   node topology the implementation builds is not that of the exact arrangement (known finding C01-F3).  `fragile_nodes`
   lists these nodes; the check accepts a disagreement as that known finding only when this list is not empty. *)
Fixpoint pos_odd (p : positive) : positive := match p with xO q => pos_odd q | _ => p end.
Definition odd_part (x : Z) : Z := match x with Z0 => 0 | Zpos p => Zpos (pos_odd p) | Zneg p => Zpos (pos_odd p) end.
(* x / w is a binary64 number (w > 0, fraction in lowest terms, magnitudes far inside the exponent range) *)
Definition representable (q : hpt) : bool :=
  (odd_part (hw q) =? 1) && (odd_part (hx q) <? 2 ^ 53) && (odd_part (hy q) <? 2 ^ 53).
Definition seg_same (s t : seg) : bool := seg_eqb s t || seg_eqb s (snd t, fst t).
Definition segs_through (q : hpt) (ss : list seg) : Z :=
  Z.of_nat (length (nodup_by seg_same (filter (fun s => on_seg_h q (fst s) (snd s)) ss))).
Definition fragile_nodes (A B : geom) : list hpt :=
  let sa := geom_segs A in let sb := geom_segs B in
  filter (fun q => negb (representable q) && (3 <=? segs_through q sa + segs_through q sb)) (nodes A B).

(* matrix and certificate in one pass over the witnesses (OracleProofs.oracle_run_eq: = (relate_oracle, side_ok)) *)
Definition oracle_run (r : bnrule) (A B : geom) : matrix * bool :=
  let cs := map (fun w => (event_of loc_dim_fast r A B w, witness_counts loc_dim_fast r A B w)) (witnesses A B) in
  (ofinal (map fst (filter snd cs)), forallb snd cs).

(* ---- scope: valid, and all polygons of the geometry taken together form a valid MultiPolygon (interiors disjoint, boundaries
   meeting in points only): then the component-wise loc_dim is the point set of the union of the elements ---- *)
Definition in_scope (g : geom) : bool := valid_geom g && valid_geom (GMPoly (polys_of g)).

(* ---- what the predicates are told about the two geometries ---- *)
(* RelateGeometry::getDimensionReal: -1 empty; areas 2; lines 1 unless every line is zero-length; points 0 *)
Definition zero_length (l : seq) : bool := match l with [] => true | a :: t => forallb (pt_eqb a) t end.
Definition nonempty_poly (a : poly) : bool := negb (poly_is_empty a).
Definition nonempty_line (l : seq) : bool := match l with [] => false | _ => true end.
Definition dim_real (g : geom) : Z :=
  if existsb nonempty_poly (polys_of g) then 2
  else if existsb (fun l => negb (zero_length l)) (lines_of g) then 1
  else if existsb nonempty_line (lines_of g) then 0
  else match points_of g with [] => -1 | _ => 0 end.
(* Geometry::getEnvelopeInternal: null for an empty geometry *)
Definition env_of (g : geom) : envl :=
  match coords_of g with
  | [] => None
  | p :: t => Some (fold_left (fun e q => let '(x0, x1, y0, y1) := e in
                                (Z.min x0 (fst q), Z.max x1 (fst q), Z.min y0 (snd q), Z.max y1 (snd q))) t
                              (fst p, fst p, snd p, snd p))
  end.

(* the value each named predicate must return (Lib/IM pattern sets on the oracle matrix, real dimensions) *)
Definition named_values (dA dB : Z) (m : matrix) : list bool :=
  [spec_intersects m; spec_disjoint m; spec_touches dA dB m; spec_crosses dA dB m; spec_within m; spec_contains m;
   spec_overlaps dA dB m; spec_equals dA dB m; spec_covers m; spec_coveredBy m; spec_containsProperly m].
