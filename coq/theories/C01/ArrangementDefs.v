(* C01/ArrangementDefs — the arrangement of two geometries on exact coordinates and its finite WITNESS FAMILY.
   Definitions only (executable, stdlib + Lib definitions), no proofs (lemmas: ArrangementProofs.v).

   Input: two geometries A, B over integer grid coordinates (Lib/GeomDefs).
     segments   every pair of consecutive points of every line and of every polygon ring of A and of B
     nodes      every coordinate of A and B, and for EVERY ORDERED PAIR of segments (also two segments of one geometry, also
                a segment with itself) what Lib/ValidDefs.seg_int reports: the exact proper intersection point (homogeneous
                integer triple, reduced to lowest terms), the touch point, the two ends of a collinear overlap
     sub-edges  for a segment ab: the pairs (p, q) of nodes lying on ab with p strictly before q along ab and no node of ab
                strictly between them (the open piece ]p, q[ then contains no node at all)
     witnesses  dimension 0: the nodes;
                dimension 1: the midpoint of every sub-edge;
                dimension 2: for every sub-edge of a polygon ring its two SIDES, the midpoint m moved by +eps and by -eps times
                             the normal (-(b.y-a.y), b.x-a.x) of its segment, eps = 2^-K.
   All witnesses are actual rational points (x, y, w) = (x/w, y/w), w > 0; they are located in A and in B with the point-set
   semantics of Lib/LocateDefs (`loc_dim`), nothing else.

   The constant K.  eps must be so small that the side point stays inside the face of the arrangement adjacent to the
   sub-edge.  Bound for grid inputs, |ordinate| <= 2^25 (NOT machine checked, see `side_ok` for what is checked on every
   instance instead): differences < 2^26, determinants < 2^53, a proper intersection point has w < 2^54, a midpoint of two
   nodes w < 2^109; a segment t that does not pass through the midpoint m is at distance >= 1 / (w_m |t|) > 2^-136 from m
   (a non-zero integer determinant divided by w_m |t|), or, when m lies on the line of t, at distance >= 1 / w_m from m;
   the displacement is eps |n| < 2^-K 2^27.  So K >= 164 suffices; K = 200 leaves a factor 2^36.
   What is machine checked on every evaluated pair: `side_ok` (OracleDefs) — no side point lies on any linework or point of A
   or B (its location in both geometries is decided by areas only: area interior, or exterior), so an open disc round it has
   the same pair of locations and the dimension-2 claim it supports is true whatever K is; and `eps_ok` — the path from the
   sub-edge midpoint to the side point crosses no polygon ring segment, so the side point is in the adjacent face. *)
From Coq Require Import ZArith List Bool.
From GeosV.Lib Require Import GeomDefs LocateDefs ValidDefs.
Import ListNotations.
Local Open Scope Z_scope.

Definition K_EPS : Z := 200.
Definition EPS_DEN : Z := 2 ^ K_EPS.

Definition seg := (pt * pt)%type.
Definition hx (q : hpt) : Z := fst (fst q).
Definition hy (q : hpt) : Z := snd (fst q).
Definition hw (q : hpt) : Z := snd q.

(* ---- segments and coordinates of a geometry ---- *)
Definition line_segs (g : geom) : list seg := flat_map segs (lines_of g).
Definition ring_segs (g : geom) : list seg := flat_map (fun a => flat_map segs (poly_rings a)) (polys_of g).
Definition geom_segs (g : geom) : list seg := line_segs g ++ ring_segs g.

Definition seg_eqb (s t : seg) : bool := pt_eqb (fst s) (fst t) && pt_eqb (snd s) (snd t).
Definition hpt_eqb (p q : hpt) : bool := (hx p =? hx q) && (hy p =? hy q) && (hw p =? hw q).
Fixpoint nodup_by {A} (eqb : A -> A -> bool) (l : list A) : list A :=
  match l with [] => [] | a :: t => if existsb (eqb a) t then nodup_by eqb t else a :: nodup_by eqb t end.

(* ---- nodes ---- *)
(* lowest terms (w > 0 is kept) *)
Definition hnorm (q : hpt) : hpt :=
  let '(x, y, w) := q in
  if w =? 1 then q else
  let g := Z.gcd (Z.gcd x y) w in
  if g <=? 1 then q else (x / g, y / g, w / g).
Definition sres_nodes (r : sres) : list hpt :=
  match r with
  | SNone => []
  | SProper q => [hnorm q]
  | STouch p => [hp p]
  | SOverlap p q => [hp p; hp q]
  end.
Definition raw_nodes (ss : list seg) (cs : list pt) : list hpt :=
  map hp cs ++ flat_map (fun s => flat_map (fun t => sres_nodes (seg_int (fst s) (snd s) (fst t) (snd t))) ss) ss.

(* ---- a rational point against a segment ---- *)
(* (b - a) x (q - a), times w *)
Definition qdet (a b : pt) (q : hpt) : Z :=
  (fst b - fst a) * (hy q - hw q * snd a) - (snd b - snd a) * (hx q - hw q * fst a).
Definition on_seg_h (q : hpt) (a b : pt) : bool :=
  (qdet a b q =? 0) && between (hx q) (hw q * fst a) (hw q * fst b) && between (hy q) (hw q * snd a) (hw q * snd b).
(* (b - a) . (q - a), times w : the parameter of q along ab, up to the positive factor |b - a|^2 w *)
Definition par (a b : pt) (q : hpt) : Z :=
  (fst b - fst a) * (hx q - hw q * fst a) + (snd b - snd a) * (hy q - hw q * snd a).
Definition lt_on (a b : pt) (p q : hpt) : bool := par a b p * hw q <? par a b q * hw p.

Definition sub_edges (a b : pt) (ns : list hpt) : list (hpt * hpt) :=
  flat_map (fun p => flat_map (fun q =>
      if lt_on a b p q && negb (existsb (fun r => lt_on a b p r && lt_on a b r q) ns) then [(p, q)] else []) ns) ns.

Definition midh (p q : hpt) : hpt := (hx p * hw q + hx q * hw p, hy p * hw q + hy q * hw p, 2 * (hw p * hw q)).
(* m + sg * eps * (-(b.y - a.y), b.x - a.x) *)
Definition shift (sg : Z) (a b : pt) (m : hpt) : hpt :=
  (EPS_DEN * hx m - sg * ((snd b - snd a) * hw m), EPS_DEN * hy m + sg * ((fst b - fst a) * hw m), EPS_DEN * hw m).

(* ---- the witness family: (point, dimension) ---- *)
Definition all_segs (A B : geom) : list seg := nodup_by seg_eqb (geom_segs A ++ geom_segs B).
Definition nodes (A B : geom) : list hpt :=
  nodup_by hpt_eqb (raw_nodes (all_segs A B) (coords_of A ++ coords_of B)).
(* Sides are taken for the sub-edges of POLYGON RING segments only: the location of a side point is decided by areas alone,
   and the pair (area location in A, area location in B) changes only across ring sub-edges — on a straight walk from any
   face to infinity the last face with the original pair is left through a ring sub-edge, whose side it is. *)
Definition seg_witnesses (ns : list hpt) (sides : bool) (s : seg) : list (hpt * Z) :=
  let a := fst s in let b := snd s in
  flat_map (fun pq => let m := midh (fst pq) (snd pq) in
                      if sides then [(m, 1); (shift 1 a b m, 2); (shift (-1) a b m, 2)] else [(m, 1)])
           (sub_edges a b (filter (fun q => on_seg_h q a b) ns)).
Definition witnesses (A B : geom) : list (hpt * Z) :=
  let ns := nodes A B in
  let rs := ring_segs A ++ ring_segs B in
  map (fun q => (q, 0)) ns ++ flat_map (fun s => seg_witnesses ns (existsb (seg_eqb s) rs) s) (all_segs A B).

(* ---- a per-instance certificate for eps ----
   The straight path from the midpoint m of a ring sub-edge to its side point p must not meet any polygon ring segment t
   (other than those through m, which are collinear with the sub-edge): then p lies in the face of the ring arrangement that
   is adjacent to the sub-edge, which is all the oracle needs of eps.  Sufficient test, exact: m and p strictly on one side of
   the line of t, or both ends of t strictly on one side of the line through m and p. *)
Definition cross_n (a b : pt) (m : hpt) (c : pt) : Z :=
  (- (snd b - snd a)) * (hw m * snd c - hy m) - (fst b - fst a) * (hw m * fst c - hx m).
(* n . (c - m), times w_m : the position of c along the normal through m *)
Definition dot_n (a b : pt) (m : hpt) (c : pt) : Z :=
  (- (snd b - snd a)) * (hw m * fst c - hx m) + (fst b - fst a) * (hw m * snd c - hy m).
Definition nn (a b : pt) : Z := (snd b - snd a) * (snd b - snd a) + (fst b - fst a) * (fst b - fst a).
Definition same_strict (u v : Z) : bool := ((0 <? u) && (0 <? v)) || ((u <? 0) && (v <? 0)).
(* t = cd does not meet the path from m to p = m + sg eps n, by one of four exact sufficient tests:
   m and p strictly on one side of the line of t; c and d strictly on one side of the line through m and p;
   c and d strictly behind m (n-coordinate of sign opposite to sg); c and d strictly beyond p (n-coordinate > eps |n|^2) *)
Definition side_clear (rs : list seg) (sg : Z) (a b : pt) (m p : hpt) : bool :=
  forallb (fun t => let c := fst t in let d := snd t in
                    on_seg_h m c d
                    || same_strict (qdet c d m) (qdet c d p)
                    || same_strict (cross_n a b m c) (cross_n a b m d)
                    || ((sg * dot_n a b m c <? 0) && (sg * dot_n a b m d <? 0))
                    || ((hw m * nn a b <? EPS_DEN * (sg * dot_n a b m c)) && (hw m * nn a b <? EPS_DEN * (sg * dot_n a b m d)))) rs.
Definition side_paths (A B : geom) : list (seg * Z * hpt * hpt) :=
  let ns := nodes A B in
  let rs := ring_segs A ++ ring_segs B in
  flat_map (fun s => if existsb (seg_eqb s) rs then
                       flat_map (fun pq => let m := midh (fst pq) (snd pq) in
                                           [(s, 1, m, shift 1 (fst s) (snd s) m); (s, -1, m, shift (-1) (fst s) (snd s) m)])
                                (sub_edges (fst s) (snd s) (filter (fun q => on_seg_h q (fst s) (snd s)) ns))
                     else []) (all_segs A B).
Definition eps_ok (A B : geom) : bool :=
  let rs := filter (fun t => negb (pt_eqb (fst t) (snd t))) (ring_segs A ++ ring_segs B) in
  forallb (fun x => let '(s, sg, m, p) := x in side_clear rs sg (fst s) (snd s) m p) (side_paths A B).

(* ---- locating a rational point: the specification ---- *)
(* Lib/LocateDefs.loc_dim on the geometry scaled by w (LocateDefs.loc_h is this for the mod-2 rule) *)
Definition loc_dim_h (r : bnrule) (g : geom) (q : hpt) : location * Z :=
  loc_dim r (map_geom (scale_pt (hw q)) g) (hx q, hy q).
Definition loc_rule_h (r : bnrule) (g : geom) (q : hpt) : location := fst (loc_dim_h r g q).

(* ---- the same, evaluated without multiplying two large numbers (ArrangementProofs: loc_dim_fast = loc_dim_h) ----
   A vertex a is carried with its scaled copy sa = w a.  With p = (x, y):
     orient sa sb p = w * oq,   oq = (b - a) x (p - sa)      (one small factor in every product)
   and the bounding-box tests of on_seg come first, turn8 asks for the orientation only when the octants are opposite. *)
Definition zpt := (pt * pt)%type.                  (* (a, w a) *)
Definition zip_scale (w : Z) (l : seq) : list zpt := map (fun a => (a, scale_pt w a)) l.
Definition oq (p : pt) (a b : zpt) : Z :=
  (fst (fst b) - fst (fst a)) * (snd p - snd (snd a)) - (snd (fst b) - snd (fst a)) * (fst p - fst (snd a)).
Definition on_seg_f (p : pt) (a b : zpt) : bool :=
  between (fst p) (fst (snd a)) (fst (snd b)) && between (snd p) (snd (snd a)) (snd (snd b)) && (oq p a b =? 0).
Fixpoint zsegs (l : list zpt) : list (zpt * zpt) :=
  match l with
  | a :: t => match t with b :: _ => (a, b) :: zsegs t | [] => [] end
  | [] => []
  end.
Definition on_path_f (p : pt) (l : list zpt) : bool :=
  match l with
  | [a] => pt_eqb p (snd a)
  | _ => existsb (fun s => on_seg_f p (fst s) (snd s)) (zsegs l)
  end.
Definition edge_turn_f (p : pt) (a b : zpt) : Z :=
  if pt_eqb p (snd a) || pt_eqb p (snd b) then 0 else
  let d := oct_of p (snd b) - oct_of p (snd a) in
  let d' := if 4 <? d then d - 8 else if d <? -4 then d + 8 else d in
  if (d' =? 4) || (d' =? -4) then (let o := oq p a b in if 0 <? o then 4 else if o <? 0 then -4 else 0) else d'.
Definition winding8_f (p : pt) (r : list zpt) : Z :=
  fold_right (fun s acc => edge_turn_f p (fst s) (snd s) + acc) 0 (zsegs r).
Definition in_ring_f (p : pt) (r : list zpt) : location :=
  if on_path_f p r then Boundary
  else if Z.odd (Z.quot (winding8_f p r) 8) then Interior else Exterior.
(* the parity alone (the point is known not to lie on the ring) *)
Definition inside_f (p : pt) (r : list zpt) : bool := Z.odd (Z.quot (winding8_f p r) 8).
Definition zpoly := (list zpt * list (list zpt))%type.
Definition zip_poly (w : Z) (a : poly) : zpoly := (zip_scale w (fst a), map (zip_scale w) (snd a)).
Definition loc_poly_f (p : pt) (a : zpoly) : location :=
  if existsb (on_path_f p) (fst a :: snd a) then Boundary
  else if inside_f p (fst a) && negb (existsb (inside_f p) (snd a)) then Interior
  else Exterior.
Definition end_count_f (p : pt) (ls : list (list zpt)) : Z :=
  fold_right (fun l acc =>
     match l with
     | [] => acc
     | a :: _ => (if pt_eqb p (snd a) then 1 else 0) + (if pt_eqb p (snd (last l a)) then 1 else 0) + acc
     end) 0 ls.
Definition loc_lines_f (r : bnrule) (p : pt) (ls : list (list zpt)) : location :=
  if in_boundary r (end_count_f p ls) then Boundary
  else if existsb (on_path_f p) ls then Interior
  else Exterior.
Definition loc_dim_f (r : bnrule) (w : Z) (g : geom) (p : pt) : location * Z :=
  let locs := map (fun a => loc_poly_f p (zip_poly w a)) (polys_of g) in
  if existsb (fun l => location_eqb l Interior) locs then (Interior, 2)
  else if existsb (fun l => location_eqb l Boundary) locs then (Boundary, 2)
  else match loc_lines_f r p (map (zip_scale w) (lines_of g)) with
       | Interior => (Interior, 1)
       | Boundary => (Boundary, 1)
       | Exterior => if existsb (fun a => pt_eqb p (scale_pt w a)) (points_of g) then (Interior, 0) else (Exterior, 2)
       end.
Definition loc_dim_fast (r : bnrule) (g : geom) (q : hpt) : location * Z :=
  if 0 <? hw q then loc_dim_f r (hw q) g (hx q, hy q) else loc_dim_h r g q.
