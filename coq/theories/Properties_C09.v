(* C09 — property theorems only. Each is closed by `exact <lemma>` and followed by Print Assumptions. *)
From Coq Require Import NArith List Bool.
From GeosV.Lib Require Import Bytes.
From GeosV.C09 Require Import WKBDefs WKBProofs WKBExpect.
Import ListNotations.
Local Open Scope N_scope.

(* writing any well-formed geometry tree (all 13 type codes, any nesting, empties anywhere, any 64-bit ordinates) under any
   writer configuration and reading the bytes back (whatever follows them) returns exactly `expect`: the ordinates beyond the
   output dimension dropped (M first, then Z), stand-alone linear rings as line strings, a point with NaN X and Y as the empty
   point, the SRID kept iff extended flavour with includeSRID. Ordinates are words, so bit identity is part of the statement. *)
Theorem C09_wkb_roundtrip : forall c g rest, wf g = true -> (depth g <= MAX_DEPTH)%nat ->
  wkb_read (wkb_write c g ++ rest) = Ok (expect c g, rest).
Proof. exact wkb_roundtrip. Qed.
Print Assumptions C09_wkb_roundtrip.

(* what `expect` is on regular trees (one dimensionality per polygon / compound curve, canonical empty surfaces, sub-curve SRIDs 0,
   element SRIDs = the collection's): exactly what the property text promises *)
Theorem C09_expect_regular : forall c g, wf g = true -> regular g = true -> expect c g = ideal c g.
Proof. exact expect_regular. Qed.
Print Assumptions C09_expect_regular.
(* ... so with four output dimensions, extended flavour and SRID the cycle is the identity up to the two documented exceptions
   (ideal_shape: stand-alone linear rings become line strings, NaN-XY points become the empty point) *)
Theorem C09_wkb_identity : forall c g rest, wf g = true -> (depth g <= MAX_DEPTH)%nat -> regular g = true ->
  c_dim c = D4 -> c_fl c = Ext -> c_srid c = true ->
  wkb_read (wkb_write c g ++ rest) = Ok (ideal_shape g, rest).
Proof. exact wkb_identity. Qed.
Print Assumptions C09_wkb_identity.
(* ... and in every other configuration it is the input with exactly the excess ordinates dropped and, unless extended+SRID, the SRID cleared *)
Theorem C09_wkb_drop : forall c g rest, wf g = true -> (depth g <= MAX_DEPTH)%nat -> regular g = true ->
  wkb_read (wkb_write c g ++ rest)
  = Ok (ideal_shape (drop_dims (c_dim c) (if c_srid c && is_ext (c_fl c) then g else clear_srid g)), rest).
Proof. exact wkb_drop. Qed.
Print Assumptions C09_wkb_drop.

(* re-writing the re-read tree reproduces the bytes (for every tree whose NaN-XY points are stored with canonical NaNs) *)
Theorem C09_wkb_rewrite_fixpoint : forall c g, wf g = true -> nan_canon g = true -> wkb_write c (expect c g) = wkb_write c g.
Proof. exact wkb_rewrite_fixpoint. Qed.
Print Assumptions C09_wkb_rewrite_fixpoint.
(* ... and not otherwise: POINT Z (NaN NaN 5) re-reads as POINT Z EMPTY whose encoding has a NaN Z (known finding class nan-point-rewrite) *)
Theorem C09_wkb_rewrite_fixpoint_refuted :
  wf nan_point_witness = true /\
  wkb_write (mkCfg LE Ext D4 false) (expect (mkCfg LE Ext D4 false) nan_point_witness) <> wkb_write (mkCfg LE Ext D4 false) nan_point_witness.
Proof. exact wkb_rewrite_fixpoint_refuted. Qed.
Print Assumptions C09_wkb_rewrite_fixpoint_refuted.

(* the literal property text ("identical type tree, identical Z/M flags, SRID preserved", "every geometry") fails on the faithful model
   outside the regular trees; one witness per class of known_findings.json *)
Theorem C09_identity_refuted_mixed_dims :
  let g := GPoly 0 ring_xyz [ring_xy] in wf g = true /\ expect cfg4 g <> ideal_shape g /\ regular g = false.
Proof. exact identity_refuted_mixed_dims. Qed.
Print Assumptions C09_identity_refuted_mixed_dims.
Theorem C09_identity_refuted_empty_surface :
  let g := GPoly 0 (empty_seq false false) [empty_seq false false] in
  let g2 := GCurvePoly 0 (GSimple SCirc 0 (empty_seq false false)) [] in
  wf g = true /\ expect cfg4 g <> ideal_shape g /\ wf g2 = true /\ expect cfg4 g2 <> ideal_shape g2.
Proof. exact identity_refuted_empty_surface. Qed.
Print Assumptions C09_identity_refuted_empty_surface.
Theorem C09_identity_refuted_sub_srid :
  let g := GCompound 7 [(SLine, 7, mkSeq false false [mkCoord 0 0 NAN64 NAN64; mkCoord w1 w1 NAN64 NAN64])] in
  wf g = true /\ expect cfg4 g <> ideal_shape g.
Proof. exact identity_refuted_sub_srid. Qed.
Print Assumptions C09_identity_refuted_sub_srid.
Theorem C09_own_output_rejected_witness :
  let g := GCompound 0 [(SLine, 0, empty_seq false false)] in
  wf g = false /\ wkb_read (wkb_write cfg4 g) = Err EMinMem.
Proof. exact own_output_rejected_witness. Qed.
Print Assumptions C09_own_output_rejected_witness.

(* the depth hypothesis is necessary: the reader refuses more than MAX_DEPTH = 200 nested geometries (201 levels are written, not read back) *)
Theorem C09_nesting_limit_witness :
  wf (nest 200) = true /\ depth (nest 200) = 201%nat /\ wkb_read (wkb_write cfg4 (nest 200)) = Err EFuel /\
  wkb_read (wkb_write cfg4 (nest 199)) = Ok (nest 199, []).
Proof. exact nesting_limit_witness. Qed.
Print Assumptions C09_nesting_limit_witness.

(* the same through HEX text, upper, lower or mixed case *)
Theorem C09_hex_roundtrip : forall c g s, map upper s = hex_write c g -> wf g = true -> (depth g <= MAX_DEPTH)%nat ->
  hex_read s = Ok (expect c g, []).
Proof. exact hex_case_insensitive. Qed.
Print Assumptions C09_hex_roundtrip.
Theorem C09_hex_binary_same_value : forall c g, unhex (hex_write c g) = Some (wkb_write c g).
Proof. exact hex_binary_same_value. Qed.
Print Assumptions C09_hex_binary_same_value.
Theorem C09_unhex_hex : forall l, Forall (fun b => b < 256) l -> unhex (hex l) = Some l.
Proof. exact unhex_hex. Qed.
Print Assumptions C09_unhex_hex.
Theorem C09_hex_unhex : forall s l, unhex s = Some l -> hex l = map upper s /\ Forall (fun b => b < 256) l.
Proof. exact hex_unhex. Qed.
Print Assumptions C09_hex_unhex.
Theorem C09_unhex_case_insensitive : forall s s', map upper s = map upper s' -> unhex s = unhex s'.
Proof. exact unhex_case_insensitive. Qed.
Print Assumptions C09_unhex_case_insensitive.

(* both byte orders decode to the same value *)
Theorem C09_byte_order_irrelevant : forall c g, wf g = true -> (depth g <= MAX_DEPTH)%nat ->
  wkb_read (wkb_write (with_bo LE c) g) = wkb_read (wkb_write (with_bo BE c) g).
Proof. exact byte_order_irrelevant. Qed.
Print Assumptions C09_byte_order_irrelevant.

(* the type word of either flavour decodes to the code, Z, M and SRID flags it was built from (12 codes x 2 flavours x Z x M x SRID) *)
Theorem C09_type_word_decode_encode : forall fl sf code oz om, In code codes ->
  decode_type (type_word fl sf code oz om) = (code, oz, om, sf && is_ext fl) /\ type_word fl sf code oz om < W32.
Proof. exact type_word_ok. Qed.
Print Assumptions C09_type_word_decode_encode.

(* which ordinates survive an output dimension: M goes first, then Z *)
Theorem C09_out_ords_spec : forall d z m,
  out_ords d (z, m) = match d with D4 => (z, m) | D3 => (z, m && negb z) | D2 => (false, false) end.
Proof. exact out_ords_spec. Qed.
Print Assumptions C09_out_ords_spec.

(* non-vacuity: a nested collection with empties at every level, XYZM, curved types, NaN payloads, written big endian ISO *)
Definition ex_pt : coord := mkCoord 4607182418800017408 9221120237041090561 9223372036854775808 1.   (* 1.0, NaN with payload, -0.0, denormal *)
Definition ex_ring : cseq := mkSeq true true [mkCoord 0 0 1 2; mkCoord 4607182418800017408 0 3 4; mkCoord 0 4607182418800017408 5 6; mkCoord 9223372036854775808 0 7 8].
Definition ex_geom : geom :=
  GColl CGC 4326
    [ GPoint 4326 (mkSeq true true [ex_pt]);
      GPoint 4326 (empty_seq false true);
      GColl CMSurf 4326 [GPoly 4326 ex_ring [empty_seq true true]; GCurvePoly 4326 (GSimple SCirc 0 (mkSeq true true [mkCoord 0 0 1 2; mkCoord 4607182418800017408 0 3 4; mkCoord 0 0 5 6])) []];
      GCompound 4326 [(SLine, 0, mkSeq true true [mkCoord 0 0 1 2; mkCoord 4607182418800017408 0 3 4]); (SCirc, 0, mkSeq true true [mkCoord 4607182418800017408 0 3 4; mkCoord 0 0 1 2; mkCoord 0 4607182418800017408 5 6])];
      GColl CMLine 4326 []; GColl CGC 4326 [GColl CMPoint 4326 [GPoint 4326 (empty_seq true false)]] ].
Example ex_wf : wf ex_geom = true /\ regular ex_geom = true /\ nan_canon ex_geom = true. Proof. vm_compute. auto. Qed.
Example ex_cycle_identity : wkb_read (wkb_write (mkCfg BE Ext D4 true) ex_geom) = Ok (ex_geom, []).
Proof. vm_compute. reflexivity. Qed.
Example ex_cycle_iso3 : exists g', wkb_read (wkb_write (mkCfg LE Iso D3 true) ex_geom) = Ok (g', []) /\ g' <> ex_geom /\ g' = expect (mkCfg LE Iso D3 true) ex_geom.
Proof. eexists. split; [vm_compute; reflexivity|]. split; [intro H; discriminate H | vm_compute; reflexivity]. Qed.
Example ex_hex_lower : hex_read (map lower (hex_write (mkCfg LE Ext D4 true) ex_geom)) = Ok (ex_geom, []).
Proof. vm_compute. reflexivity. Qed.
Example ex_type_words : map (fun fl => type_word fl true 10 true true) [Ext; Iso] = [3758096394; 3010].
Proof. vm_compute. reflexivity. Qed.
