(* C09 — property theorems only. Each is closed by `exact <lemma>` and followed by Print Assumptions. *)
From Coq Require Import NArith List Bool.
From GeosV.Lib Require Import Bytes.
From GeosV.C09 Require Import WKBDefs WKBProofs WKBExpect.
Import ListNotations.
Local Open Scope N_scope.

(* writing any well-formed geometry tree (all 13 type codes, any nesting, empties anywhere, any 64-bit ordinates) under any
   writer configuration and reading the bytes back (whatever follows them) returns exactly `expect`: the ordinates beyond the
   output dimension dropped (M first, then Z), stand-alone linear rings as line strings, a point with NaN X and Y as the empty
   point, the SRID kept iff extended flavour with includeSRID. Ordinates are words, so bit identity is part of the statement. *)
Theorem C09_wkb_roundtrip : forall c g rest, wf g = true -> (depth g <= MAX_DEPTH)%nat ->
  wkb_read (wkb_write c g ++ rest) = Ok (expect c g, rest).
Proof. exact wkb_roundtrip. Qed.
Print Assumptions C09_wkb_roundtrip.

(* what `expect` is on regular trees (one dimensionality per polygon / compound curve, canonical empty surfaces, sub-curve SRIDs 0,
   element SRIDs = the collection's): exactly what the property text promises *)
Theorem C09_expect_regular : forall c g, wf g = true -> regular g = true -> expect c g = ideal c g.
Proof. exact expect_regular. Qed.
Print Assumptions C09_expect_regular.
(* ... so with four output dimensions, extended flavour and SRID the cycle is the identity up to the two documented exceptions
   (ideal_shape: stand-alone linear rings become line strings, NaN-XY points become the empty point) *)
Theorem C09_wkb_identity : forall c g rest, wf g = true -> (depth g <= MAX_DEPTH)%nat -> regular g = true ->
  c_dim c = D4 -> c_fl c = Ext -> c_srid c = true ->
  wkb_read (wkb_write c g ++ rest) = Ok (ideal_shape g, rest).
Proof. exact wkb_identity. Qed.
Print Assumptions C09_wkb_identity.
(* ... and in every other configuration it is the input with exactly the excess ordinates dropped and, unless extended+SRID, the SRID cleared *)
Theorem C09_wkb_drop : forall c g rest, wf g = true -> (depth g <= MAX_DEPTH)%nat -> regular g = true ->
  wkb_read (wkb_write c g ++ rest)
  = Ok (ideal_shape (drop_dims (c_dim c) (if c_srid c && is_ext (c_fl c) then g else clear_srid g)), rest).
Proof. exact wkb_drop. Qed.
Print Assumptions C09_wkb_drop.

(* re-writing the re-read tree reproduces the bytes (for every tree whose NaN-XY points are stored with canonical NaNs) *)
Theorem C09_wkb_rewrite_fixpoint : forall c g, wf g = true -> nan_canon g = true -> wkb_write c (expect c g) = wkb_write c g.
Proof. exact wkb_rewrite_fixpoint. Qed.
Print Assumptions C09_wkb_rewrite_fixpoint.
(* ... and not otherwise: POINT Z (NaN NaN 5) re-reads as POINT Z EMPTY whose encoding has a NaN Z (known finding class nan-point-rewrite) *)
Theorem C09_wkb_rewrite_fixpoint_refuted :
  wf nan_point_witness = true /\
  wkb_write (mkCfg LE Ext D4 false) (expect (mkCfg LE Ext D4 false) nan_point_witness) <> wkb_write (mkCfg LE Ext D4 false) nan_point_witness.
Proof. exact wkb_rewrite_fixpoint_refuted. Qed.
Print Assumptions C09_wkb_rewrite_fixpoint_refuted.

(* the literal property text ("identical type tree, identical Z/M flags, SRID preserved", "every geometry") fails on the faithful model
   outside the regular trees; one witness per class of known_findings.json *)
Theorem C09_identity_refuted_mixed_dims :
  let g := GPoly 0 ring_xyz [ring_xy] in wf g = true /\ expect cfg4 g <> ideal_shape g /\ regular g = false.
Proof. exact identity_refuted_mixed_dims. Qed.
Print Assumptions C09_identity_refuted_mixed_dims.
Theorem C09_identity_refuted_empty_surface :
  let g := GPoly 0 (empty_seq false false) [empty_seq false false] in
  let g2 := GCurvePoly 0 (GSimple SCirc 0 (empty_seq false false)) [] in
  wf g = true /\ expect cfg4 g <> ideal_shape g /\ wf g2 = true /\ expect cfg4 g2 <> ideal_shape g2.
Proof. exact identity_refuted_empty_surface. Qed.
Print Assumptions C09_identity_refuted_empty_surface.
Theorem C09_identity_refuted_sub_srid :
  let g := GCompound 7 [(SLine, 7, mkSeq false false [mkCoord 0 0 NAN64 NAN64; mkCoord w1 w1 NAN64 NAN64])] in
  wf g = true /\ expect cfg4 g <> ideal_shape g.
Proof. exact identity_refuted_sub_srid. Qed.
Print Assumptions C09_identity_refuted_sub_srid.
Theorem C09_own_output_rejected_witness :
  let g := GCompound 0 [(SLine, 0, empty_seq false false)] in
  wf g = false /\ wkb_read (wkb_write cfg4 g) = Err EMinMem.
Proof. exact own_output_rejected_witness. Qed.
Print Assumptions C09_own_output_rejected_witness.

(* the depth hypothesis is necessary: the reader refuses more than MAX_DEPTH = 200 nested geometries (201 levels are written, not read back) *)
Theorem C09_nesting_limit_witness :
  wf (nest 200) = true /\ depth (nest 200) = 201%nat /\ wkb_read (wkb_write cfg4 (nest 200)) = Err EFuel /\
  wkb_read (wkb_write cfg4 (nest 199)) = Ok (nest 199, []).
Proof. exact nesting_limit_witness. Qed.
Print Assumptions C09_nesting_limit_witness.

(* the same through HEX text, upper, lower or mixed case *)
Theorem C09_hex_roundtrip : forall c g s, map upper s = hex_write c g -> wf g = true -> (depth g <= MAX_DEPTH)%nat ->
  hex_read s = Ok (expect c g, []).
Proof. exact hex_case_insensitive. Qed.
Print Assumptions C09_hex_roundtrip.
Theorem C09_hex_binary_same_value : forall c g, unhex (hex_write c g) = Some (wkb_write c g).
Proof. exact hex_binary_same_value. Qed.
Print Assumptions C09_hex_binary_same_value.
Theorem C09_unhex_hex : forall l, Forall (fun b => b < 256) l -> unhex (hex l) = Some l.
Proof. exact unhex_hex. Qed.
Print Assumptions C09_unhex_hex.
Theorem C09_hex_unhex : forall s l, unhex s = Some l -> hex l = map upper s /\ Forall (fun b => b < 256) l.
Proof. exact hex_unhex. Qed.
Print Assumptions C09_hex_unhex.
Theorem C09_unhex_case_insensitive : forall s s', map upper s = map upper s' -> unhex s = unhex s'.
Proof. exact unhex_case_insensitive. Qed.
Print Assumptions C09_unhex_case_insensitive.

(* both byte orders decode to the same value *)
Theorem C09_byte_order_irrelevant : forall c g, wf g = true -> (depth g <= MAX_DEPTH)%nat ->
  wkb_read (wkb_write (with_bo LE c) g) = wkb_read (wkb_write (with_bo BE c) g).
Proof. exact byte_order_irrelevant. Qed.
Print Assumptions C09_byte_order_irrelevant.

(* the type word of either flavour decodes to the code, Z, M and SRID flags it was built from (12 codes x 2 flavours x Z x M x SRID) *)
Theorem C09_type_word_decode_encode : forall fl sf code oz om, In code codes ->
  decode_type (type_word fl sf code oz om) = (code, oz, om, sf && is_ext fl) /\ type_word fl sf code oz om < W32.
Proof. exact type_word_ok. Qed.
Print Assumptions C09_type_word_decode_encode.

(* which ordinates survive an output dimension: M goes first, then Z *)
Theorem C09_out_ords_spec : forall d z m,
  out_ords d (z, m) = match d with D4 => (z, m) | D3 => (z, m && negb z) | D2 => (false, false) end.
Proof. exact out_ords_spec. Qed.
Print Assumptions C09_out_ords_spec.

(* non-vacuity: a nested collection with empties at every level, XYZM, curved types, NaN payloads, written big endian ISO *)
Definition ex_pt : coord := mkCoord 4607182418800017408 9221120237041090561 9223372036854775808 1.   (* 1.0, NaN with payload, -0.0, denormal *)
Definition ex_ring : cseq := mkSeq true true [mkCoord 0 0 1 2; mkCoord 4607182418800017408 0 3 4; mkCoord 0 4607182418800017408 5 6; mkCoord 9223372036854775808 0 7 8].
Definition ex_geom : geom :=
  GColl CGC 4326
    [ GPoint 4326 (mkSeq true true [ex_pt]);
      GPoint 4326 (empty_seq false true);
      GColl CMSurf 4326 [GPoly 4326 ex_ring [empty_seq true true]; GCurvePoly 4326 (GSimple SCirc 0 (mkSeq true true [mkCoord 0 0 1 2; mkCoord 4607182418800017408 0 3 4; mkCoord 0 0 5 6])) []];
      GCompound 4326 [(SLine, 0, mkSeq true true [mkCoord 0 0 1 2; mkCoord 4607182418800017408 0 3 4]); (SCirc, 0, mkSeq true true [mkCoord 4607182418800017408 0 3 4; mkCoord 0 0 1 2; mkCoord 0 4607182418800017408 5 6])];
      GColl CMLine 4326 []; GColl CGC 4326 [GColl CMPoint 4326 [GPoint 4326 (empty_seq true false)]] ].
Example ex_wf : wf ex_geom = true /\ regular ex_geom = true /\ nan_canon ex_geom = true. Proof. vm_compute. auto. Qed.
Example ex_cycle_identity : wkb_read (wkb_write (mkCfg BE Ext D4 true) ex_geom) = Ok (ex_geom, []).
Proof. vm_compute. reflexivity. Qed.
Example ex_cycle_iso3 : exists g', wkb_read (wkb_write (mkCfg LE Iso D3 true) ex_geom) = Ok (g', []) /\ g' <> ex_geom /\ g' = expect (mkCfg LE Iso D3 true) ex_geom.
Proof. eexists. split; [vm_compute; reflexivity|]. split; [intro H; discriminate H | vm_compute; reflexivity]. Qed.
Example ex_hex_lower : hex_read (map lower (hex_write (mkCfg LE Ext D4 true) ex_geom)) = Ok (ex_geom, []).
Proof. vm_compute. reflexivity. Qed.
Example ex_type_words : map (fun fl => type_word fl true 10 true true) [Ext; Iso] = [3758096394; 3010].
Proof. vm_compute. reflexivity. Qed.

(* ------------------------------------------------------------------------------------------------------------------------
   the byte-order codec of src/io/ByteOrderValues.cpp, on the definitions GENERATED from the C++ on every run
   (Gen/BO_getInt, BO_getUnsigned, BO_getLong, BO_putInt, BO_putUnsigned, BO_putLong; meanings in C09/GenPreludeBO.v:
   a buffer is a function index -> byte, a put function returns the updated buffer, integral casts and `<<` wrap into their
   C++ type).  BIG is ENDIAN_BIG as probed from the header; any other order value takes the source's else branch (little endian). *)
From Coq Require Import ZArith.
From GeosV.C09 Require Import GenPreludeBO BODefs BOProofs BOTheorems.
From GeosV.Gen Require Import BO_getInt BO_getUnsigned BO_getLong BO_putInt BO_putUnsigned BO_putLong.
Local Open Scope Z_scope.

(* (a) the generated functions are the hand model's words (Lib/Bytes through WKBDefs.enc / dec), both byte orders, every value *)
Theorem C09_gen_putInt_is_model : forall b o v buf, order_is b o -> map Z.to_N (rd4 (g_putInt v buf o)) = enc b 4 (Z.to_N (cast_u32 v)).
Proof. exact putInt_model. Qed.
Print Assumptions C09_gen_putInt_is_model.
Theorem C09_gen_putUnsigned_is_model : forall b o v buf, order_is b o -> map Z.to_N (rd4 (g_putUnsigned v buf o)) = enc b 4 (Z.to_N (cast_u32 v)).
Proof. exact putUnsigned_model. Qed.
Print Assumptions C09_gen_putUnsigned_is_model.
Theorem C09_gen_putLong_is_model : forall b o v buf, order_is b o -> map Z.to_N (rd8 (g_putLong v buf o)) = enc b 8 (Z.to_N (cast_u64 v)).
Proof. exact putLong_model. Qed.
Print Assumptions C09_gen_putLong_is_model.
Theorem C09_gen_getInt_is_model : forall b o buf, order_is b o -> bytes4 buf ->
  g_getInt buf o = cast_i32 (Z.of_N (dec b (map Z.to_N (rd4 buf)))).
Proof. exact getInt_model. Qed.
Print Assumptions C09_gen_getInt_is_model.
Theorem C09_gen_getUnsigned_is_model : forall b o buf, order_is b o -> bytes4 buf ->
  g_getUnsigned buf o = Z.of_N (dec b (map Z.to_N (rd4 buf))).
Proof. exact getUnsigned_model. Qed.
Print Assumptions C09_gen_getUnsigned_is_model.
Theorem C09_gen_getLong_is_model : forall b o buf, order_is b o -> bytes8 buf ->
  g_getLong buf o = cast_i64 (Z.of_N (dec b (map Z.to_N (rd8 buf)))).
Proof. exact getLong_model. Qed.
Print Assumptions C09_gen_getLong_is_model.

(* (b) round trips over the generated definitions themselves: every int32 / uint32 / int64, every order value, every buffer *)
Theorem C09_gen_getInt_putInt : forall v buf o, int32 v -> g_getInt (g_putInt v buf o) o = v.
Proof. exact getInt_putInt. Qed.
Print Assumptions C09_gen_getInt_putInt.
Theorem C09_gen_getUnsigned_putUnsigned : forall v buf o, uint32 v -> g_getUnsigned (g_putUnsigned v buf o) o = v.
Proof. exact getUnsigned_putUnsigned. Qed.
Print Assumptions C09_gen_getUnsigned_putUnsigned.
Theorem C09_gen_getLong_putLong : forall v buf o, int64 v -> g_getLong (g_putLong v buf o) o = v.
Proof. exact getLong_putLong. Qed.
Print Assumptions C09_gen_getLong_putLong.
Theorem C09_gen_putInt_getInt : forall buf o, bytes4 buf -> rd4 (g_putInt (g_getInt buf o) buf o) = rd4 buf.
Proof. exact putInt_getInt. Qed.
Print Assumptions C09_gen_putInt_getInt.
Theorem C09_gen_putUnsigned_getUnsigned : forall buf o, bytes4 buf -> rd4 (g_putUnsigned (g_getUnsigned buf o) buf o) = rd4 buf.
Proof. exact putUnsigned_getUnsigned. Qed.
Print Assumptions C09_gen_putUnsigned_getUnsigned.
Theorem C09_gen_putLong_getLong : forall buf o, bytes8 buf -> rd8 (g_putLong (g_getLong buf o) buf o) = rd8 buf.
Proof. exact putLong_getLong. Qed.
Print Assumptions C09_gen_putLong_getLong.
(* ... and a put function writes nothing but its 4 / 8 bytes *)
Theorem C09_gen_put_frame : forall v buf o j,
  (~ (0 <= j < 4) -> idx (g_putInt v buf o) j = idx buf j /\ idx (g_putUnsigned v buf o) j = idx buf j) /\
  (~ (0 <= j < 8) -> idx (g_putLong v buf o) j = idx buf j).
Proof. exact (fun v buf o j => conj (fun H => conj (putInt_frame v buf o j H) (putUnsigned_frame v buf o j H)) (putLong_frame v buf o j)). Qed.
Print Assumptions C09_gen_put_frame.

(* (c) the two byte orders of the same value are byte reversals of each other, writing and reading *)
Theorem C09_gen_put_orders_reversed : forall v buf buf' o, o <> BIG ->
  rd4 (g_putInt v buf BIG) = rev (rd4 (g_putInt v buf' o)) /\
  rd4 (g_putUnsigned v buf BIG) = rev (rd4 (g_putUnsigned v buf' o)) /\
  rd8 (g_putLong v buf BIG) = rev (rd8 (g_putLong v buf' o)).
Proof. exact (fun v buf buf' o H => conj (putInt_orders_reversed v buf buf' o H) (conj (putUnsigned_orders_reversed v buf buf' o H) (putLong_orders_reversed v buf buf' o H))). Qed.
Print Assumptions C09_gen_put_orders_reversed.
Theorem C09_gen_getInt_orders_reversed : forall buf buf' o, o <> BIG -> bytes4 buf -> rd4 buf' = rev (rd4 buf) -> g_getInt buf' o = g_getInt buf BIG.
Proof. exact getInt_orders_reversed. Qed.
Print Assumptions C09_gen_getInt_orders_reversed.
Theorem C09_gen_getUnsigned_orders_reversed : forall buf buf' o, o <> BIG -> bytes4 buf -> rd4 buf' = rev (rd4 buf) -> g_getUnsigned buf' o = g_getUnsigned buf BIG.
Proof. exact getUnsigned_orders_reversed. Qed.
Print Assumptions C09_gen_getUnsigned_orders_reversed.
Theorem C09_gen_getLong_orders_reversed : forall buf buf' o, o <> BIG -> bytes8 buf -> rd8 buf' = rev (rd8 buf) -> g_getLong buf' o = g_getLong buf BIG.
Proof. exact getLong_orders_reversed. Qed.
Print Assumptions C09_gen_getLong_orders_reversed.

(* non-vacuity: the hypotheses are inhabited and the generated functions compute the familiar bytes *)
Definition ex_buf : buffer := fun i => 255 - i.
Example ex_bo_hyps : order_is BE BIG /\ order_is LE 1 /\ 1 <> BIG /\ bytes4 ex_buf /\ bytes8 ex_buf /\
  int32 (-2147483648) /\ int32 2147483647 /\ uint32 4294967295 /\ int64 (-9223372036854775808) /\ int64 9223372036854775807.
Proof. unfold order_is, bytes4, bytes8, rd4, rd8, ex_buf, idx, isbyte, int32, uint32, int64. repeat split; try discriminate; try (cbv; congruence); repeat constructor; cbv; congruence. Qed.
Example ex_bo_srid_bytes : rd4 (g_putInt 4326 ex_buf 1) = [230; 16; 0; 0] /\ rd4 (g_putInt 4326 ex_buf BIG) = [0; 0; 16; 230] /\
  rd4 (g_putInt (-1) ex_buf 1) = [255; 255; 255; 255] /\ g_getInt (g_putInt (-2147483648) ex_buf 1) 1 = -2147483648 /\
  rd8 (g_putLong 4607182418800017408 ex_buf BIG) = [63; 240; 0; 0; 0; 0; 0; 0] /\ g_getLong ex_buf 1 = -506097522914230529 /\
  g_getUnsigned ex_buf BIG = 4294901244 /\ idx (g_putLong 0 ex_buf 1) 8 = 247.
Proof. vm_compute. repeat split; reflexivity. Qed.

(* ---- tie G, the writer's type word and SRID word: WKBWriter::writeGeometryType / writeSRID REGENERATED from the C++ ---- *)
From GeosV.C09 Require Import GenPreludeWW WWProofs.
From GeosV.Gen Require WW_writeGeometryType WW_writeSRID.

(* for both flavours, every Z / M / includeSRID / SRID and every geometry type code below 1000 (the bound of the sweep), the
   generated function throws nothing and appends exactly one word whose 32-bit image is the model's type_word *)
Theorem C09_gen_type_word : forall fl oz om inc srid code out0, (0 <= code < 1000)%Z ->
  let st' := WW_writeGeometryType.g_writeGeometryType (wst0 fl oz om inc out0) code srid in
  w_thrown st' = false /\
  exists w, w_out st' = out0 ++ [w] /\
            (w mod 2 ^ 32)%Z = Z.of_N (type_word fl (inc && negb (srid =? 0)%Z) (Z.to_N code) oz om).
Proof. exact gen_type_word. Qed.
Print Assumptions C09_gen_type_word.

(* a flavour value that is neither enumerator throws and writes nothing *)
Theorem C09_gen_type_word_unknown_flavour : forall f oz om inc out0 code srid,
  f <> WW_writeGeometryType.E_wkbFlavour_wkbExtended -> f <> WW_writeGeometryType.E_wkbFlavour_wkbIso ->
  w_thrown (WW_writeGeometryType.g_writeGeometryType (mkW f (mkOrds oz om) inc out0 false) code srid) = true.
Proof. exact gen_type_word_unknown_flavour. Qed.
Print Assumptions C09_gen_type_word_unknown_flavour.

(* the SRID word is emitted exactly when includeSRID, SRID <> 0 and the flavour is extended (the clause of w_header) *)
Theorem C09_gen_write_srid : forall fl oz om inc srid out0,
  w_out (WW_writeSRID.g_writeSRID (wst0 fl oz om inc out0) srid) =
  out0 ++ (if (inc && negb (srid =? 0)%Z) && is_ext fl then [srid] else []).
Proof. exact gen_write_srid. Qed.
Print Assumptions C09_gen_write_srid.

Example ex_gen_type_word : last_word Ext true false true true 1 = Some (-2147483648 + 536870912 + 1)%Z /\ last_word Iso true true true true 3 = Some 3003%Z.
Proof. exact ex_type_word. Qed.
