(* C10 — property theorems only (placeholder while the proofs are being written). *)
From Coq Require Import ZArith List.
From GeosV.C10 Require Import NumDefs WktDefs JsonDefs.
Example placeholder : decimalLength17 5 = 1%Z.
Proof. reflexivity. Qed.
