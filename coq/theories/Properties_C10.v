(* C10 — property theorems only. Each is closed by `exact <lemma>` and followed by Print Assumptions. *)
From Coq Require Import ZArith List Ascii String QArith Qabs Reals.
From Flocq Require Import Core.

From GeosV.C10 Require Import NumDefs NumProofs ShortestProofs RoundInterval ShortestRoundtrip WktDefs WktProofs WktExpect JsonDefs.
Import ListNotations.
Local Open Scope Z_scope.

(* fixed_layout_value. to_chars_fixed (d2s.c) applied to digits m*10^e (1 <= m < 10^17) with `prec` decimals emits a string that the
   number language reads as (-1)^neg * N * 10^E with: the exact value when no digit has to go (e >= 0 or -e <= prec); otherwise the
   digits rounded half-even to prec decimals; in both cases within half a unit of the last requested decimal; and a minus sign only in
   front of a non-zero value (never "-0"). *)
Theorem C10_fixed_layout_value : forall m e sign prec, 1 <= m < 10 ^ 17 -> 0 <= prec ->
  exists N E,
    parse_number (to_chars_fixed m e sign prec) = Some (NVdec (sign && negb (N =? 0)) N E) /\ 0 <= N /\
    (0 <= e \/ - e <= prec -> (dval N E == dval m e)%Q) /\
    (e < 0 -> prec < - e -> (dval N E == dval (round_half_even m (10 ^ (- e - prec))) (- prec))%Q) /\
    (Qabs (dval N E - dval m e) <= (1 # 2) * (10 # 1) ^ (- prec))%Q /\
    Z.min e 0 <= E <= 0 /\ (0 <= e \/ - e <= prec -> same_val N E m e).
Proof. exact fixed_layout_value. Qed.
Print Assumptions C10_fixed_layout_value.

(* ... and the same for the exponent notation (geos_d2sexp_buffered_n): mantissa digits in fixed layout, then e, sign, exponent *)
Theorem C10_exp_layout_value : forall k g sign prec, 1 <= k < 10 ^ 17 -> 0 <= prec -> -1000 <= g <= 1000 ->
  let X := g + decimalLength17 k - 1 in
  exists N E,
    parse_number (to_chars_fixed k (1 - decimalLength17 k) sign prec ++ exp_suffix X) = Some (NVdec (sign && negb (N =? 0)) N E) /\ 0 <= N /\
    (decimalLength17 k - 1 <= prec -> (dval N E == dval k g)%Q) /\
    (Qabs (dval N E - dval k g) <= (1 # 2) * (10 # 1) ^ (X - prec))%Q /\
    g <= E <= X /\ (decimalLength17 k - 1 <= prec -> same_val N E k g).
Proof. exact exp_layout_value. Qed.
Print Assumptions C10_exp_layout_value.

(* number_grammar. Whatever the double d and the digits (k, g) handed to the layout (1 <= k < 10^17), the string of the trimmed writer
   (WKTWriter::writeTrimmedNumber = GEOS_printDouble: fixed or exponent notation, NaN / Infinity / 0) is accepted by the number language
   of the tokenizer and contains none of its delimiters; the same for the untrimmed std::fixed path for every bit pattern. *)
Theorem C10_number_grammar_trimmed : forall d k g prec, 1 <= k < 10 ^ 17 -> 0 <= prec -> -1000 <= g <= 1000 ->
  number_token (print_trimmed_sd d (k, g) prec).
Proof. exact trimmed_number_token. Qed.
Print Assumptions C10_number_grammar_trimmed.

Theorem C10_number_grammar_untrimmed : forall bits prec, 0 <= prec -> number_token (print_untrimmed bits prec).
Proof. exact untrimmed_number_token. Qed.
Print Assumptions C10_number_grammar_untrimmed.

(* ... and for bit patterns: every string of the model of GEOS_printDouble is a number token, the digit range being the checked condition *)
Theorem C10_number_grammar_printDouble : forall bits prec, 0 <= prec -> digits_ok bits = true -> number_token (print_trimmed bits prec).
Proof. exact print_trimmed_number_token. Qed.
Print Assumptions C10_number_grammar_printDouble.

(* length_bound. The trimmed writer's buffer is char[28]; the layout never emits more than 24 characters (24 is attained:
   "-1.2345678901234567e-308"), for any precision, given at most 17 digits, a 3-digit exponent and, in fixed notation, a value in [1e-5, 1e17). *)
Theorem C10_length_bound : forall d k g prec, 1 <= k < 10 ^ 17 -> 0 <= prec ->
  Z.abs (g + decimalLength17 k - 1) <= 999 ->
  (uses_fixed d = true -> -4 <= g + decimalLength17 k <= 17) ->
  zlen (print_trimmed_sd d (k, g) prec) <= 24.
Proof. exact trimmed_length_bound. Qed.
Print Assumptions C10_length_bound.

(* shortest_roundtrip.
   (a) whatever digits the search `shortest` returns denote a value inside the rounding interval of the double (end points only for an
       even binary mantissa) — by construction of the search; *)
Theorem C10_shortest_in_interval : forall m2 e2 closer, 0 < m2 ->
  let '(k, g) := shortest m2 e2 closer in
  let '(A, C, B, D) := interval m2 e2 closer in
  in_interval (Z.even m2) A B D k g = true.
Proof. exact shortest_in_interval. Qed.
Print Assumptions C10_shortest_in_interval.

(* (b) binary64 round-to-nearest-even maps every real of that interval to the double (Flocq; this is the float half) *)
Theorem C10_round_interval : forall (m : positive) (e : Z), SpecFloat.bounded 53 1024 m e = true -> forall x : R,
  (if Z.even (Zpos m) then (lo m e <= x <= hi m e)%R else (lo m e < x < hi m e)%R) ->
  Generic_fmt.round Zaux.radix2 fexp64 Round_NE.ZnearestE x = Defs.F2R (Defs.Float Zaux.radix2 (Zpos m) e).
Proof. exact round_interval. Qed.
Print Assumptions C10_round_interval.

(* (c) the round trip itself. FULL STATEMENT (shortest_roundtrip): for every finite non-zero bit pattern and every precision that keeps all
       shortest digits, strtod_spec (print_trimmed bits prec) = Some (of_dbl (decode bits)).
       PROVED under the hypothesis that the digits returned by the model's own search are in range (1 <= k < 10^17, -400 <= g <= 380:
       "17 significant digits suffice"); this hypothesis concerns NumDefs.shortest only and is evaluated on every double the tie generates. *)
Theorem C10_shortest_roundtrip_partial : forall bits prec s m2 e2 c k g,
  decode bits = DFin s m2 e2 c -> shortest m2 e2 c = (k, g) -> 1 <= k < 10 ^ 17 -> -400 <= g <= 380 ->
  0 <= prec -> - g <= prec -> decimalLength17 k - 1 <= prec ->
  strtod_spec (print_trimmed bits prec) = Some (of_dbl (decode bits)).
Proof. exact ShortestRoundtrip.shortest_roundtrip_partial. Qed.
Print Assumptions C10_shortest_roundtrip_partial.

(* wkt_structure_roundtrip. For every well-formed geometry tree and every writer setting, the reader model applied to the writer model's
   tokens returns exactly `expect`: the same tree with the dimensionality the writer's dropping rule yields — or rejects exactly when
   `expect` says so. *)
Theorem C10_wkt_structure_roundtrip : forall c g, wf g = true -> parse (print_tokens c g) = expect c g.
Proof. exact parse_print. Qed.
Print Assumptions C10_wkt_structure_roundtrip.

(* what an accepted round trip preserves: the type tree, emptiness, the number of coordinates and every X and Y (erase forgets the
   dimension flags and the Z/M values) ... *)
Theorem C10_wkt_roundtrip_shape : forall c g g', wf g = true -> parse (print_tokens c g) = Some g' -> erase g' = erase g.
Proof. exact roundtrip_shape. Qed.
Print Assumptions C10_wkt_roundtrip_shape.

(* ... and, with standard tags (old-3D off), the dimensionality the writer's dropping rule yields: every coordinate sequence that comes back
   has exactly the ordinates clip(output dimension)(hasZ g, hasM g) — dimension 3 keeps Z over M, dimension 2 drops both *)
Theorem C10_wkt_roundtrip_dims : forall c g g', wf g = true -> valid_cfg c = true -> c_old3d c = false ->
  parse (print_tokens c g) = Some g' -> all_leaves (out_ordinates c g) g' = true.
Proof. exact roundtrip_dims. Qed.
Print Assumptions C10_wkt_roundtrip_dims.

(* ... and the faithful model REFUTES "every written string is accepted" in two input classes (both replayed on the implementation): *)
Definition mixed_collection : geom :=
  GNode KCollection [GLeaf KPoint (mkdims true false) [mkc 1 2 3 nan_bits]; GLeaf KPoint XY [mkc 1 2 nan_bits nan_bits]].
Theorem C10_wkt_mixed_collection_refuted :
  wf mixed_collection = true /\ parse (print_tokens (mkcfg 4 false) mixed_collection) = None.
Proof. vm_compute. split; reflexivity. Qed.
Print Assumptions C10_wkt_mixed_collection_refuted.

Definition old3d_empty_member : geom :=
  GNode KMultiCurve [GLeaf KLineString (mkdims true false) [mkc 1 2 3 nan_bits; mkc 4 5 6 nan_bits]; GLeaf KCircularString (mkdims true false) []].
Theorem C10_wkt_old3d_empty_member_refuted :
  wf old3d_empty_member = true /\ parse (print_tokens (mkcfg 4 true) old3d_empty_member) = None /\
  exists g', parse (print_tokens (mkcfg 4 false) old3d_empty_member) = Some g'.
Proof. vm_compute. split; [reflexivity|]. split; [reflexivity|]. eexists. reflexivity. Qed.
Print Assumptions C10_wkt_old3d_empty_member_refuted.

(* ------------------------------------------------------------------ non-vacuity *)
Definition show (s : str) : string := string_of_list_ascii s.
Example ex_fixed_round : show (to_chars_fixed 12345 (-3) true 1) = "-12.3"%string /\ show (to_chars_fixed 5 (-1) true 0) = "0"%string
                         /\ show (to_chars_fixed 95 (-1) false 0) = "10"%string /\ show (to_chars_fixed 25 (-1) false 0) = "2"%string.
Proof. vm_compute. repeat split; reflexivity. Qed.
Example ex_trimmed : show (print_trimmed 0x3F1A36E2EB1C432D 2) = "0.0001"%string /\ show (print_trimmed 0x3F1A36E2EB1C432C 2) = "10e-5"%string
                     /\ show (print_trimmed 0x4376345785D8A000 3) = "1e+17"%string /\ show (print_trimmed 0x4376345785D89FFF 3) = "99999999999999980"%string
                     /\ show (print_trimmed 0xB9B90A3E33C69AC3 20) = "-1.2345678901234568e-30"%string.
Proof. vm_compute. repeat split; reflexivity. Qed.
Example ex_length_24 : zlen (print_trimmed 0x8008E0A3A2BC301F 20) = 24.
Proof. vm_compute. reflexivity. Qed.
Example ex_untrimmed : show (print_untrimmed 0x3FC3333333333333 2) = "0.15"%string /\ show (print_untrimmed 0x8000000000000000 2) = "-0.00"%string.
Proof. vm_compute. repeat split; reflexivity. Qed.
Example ex_roundtrip_number :
  (* 0.1, 1e23 (an exact tie between two doubles, read back to the even one), the largest double, the smallest subnormal *)
  map (fun b => option_map to_bits (strtod_spec (print_trimmed b 20))) [0x3FB999999999999A; 0x44B52D02C7E14AF6; 0x7FEFFFFFFFFFFFFF; 0x8000000000000001]
  = [Some 0x3FB999999999999A; Some 0x44B52D02C7E14AF6; Some 0x7FEFFFFFFFFFFFFF; Some 0x8000000000000001]
  /\ shortest (2 ^ 52 + 0x52D02C7E14AF6) (0x44B - 1075) false = (1, 23).
Proof. vm_compute. split; reflexivity. Qed.
Example ex_roundtrip_tree :
  let g := GNode KCollection [GNode KMultiPoint [GLeaf KPoint (mkdims true true) []; GLeaf KPoint (mkdims true true) [mkc 1 2 3 4]];
                              GNode KCurvePolygon [GNode KCompoundCurve [GLeaf KCircularString (mkdims true true) [mkc 0 0 1 1; mkc 2 0 1 1; mkc 2 1 1 1];
                                                                         GLeaf KLineString (mkdims true true) [mkc 2 1 1 1; mkc 0 0 1 1]]]] in
  wf g = true /\ exists g', parse (print_tokens (mkcfg 3 false) g) = Some g' /\ hasZ g' = true /\ hasM g' = false.
Proof. vm_compute. split; [reflexivity|]. eexists. repeat split; reflexivity. Qed.
