(* C20 — Hilbert code: theorems about the GENERATED definitions (tie G: Gen/HC_encode.v, Gen/HC_decode.v are the
   translator's rendering of HilbertCode::encode / decode), by exhaustive sweep of a bounded domain. *)
From Coq Require Import ZArith List Bool Lia.
From GeosV.C20 Require Import HilbertPrelude.
From GeosV.Gen Require Import HC_interleave HC_deinterleave HC_prefixScan HC_descan HC_encode HC_decode.
Import ListNotations.
Local Open Scope Z_scope.

Definition zrange (n : Z) : list Z := map Z.of_nat (seq 0 (Z.to_nat n)).
Definition side (level : Z) : Z := 2 ^ level.
(* one cell: decode (encode) is the identity, the code is below 4^level, and every intermediate left shift of encode /
   decode stays below 2^32 (so that the missing 32-bit wrap of the generated text is irrelevant) *)
Definition cell_ok (level x y : Z) : bool :=
  let i := c_encode_3 level x y in
  let '(dx, dy) := c_decode_2 level i in
  (dx =? x) && (dy =? y) && (0 <=? i) && (i <? 4 ^ level)
  && (Z.shiftl x (16 - level) <? 2 ^ 16) && (Z.shiftl y (16 - level) <? 2 ^ 16) && (Z.shiftl i (32 - 2 * level) <? 2 ^ 32).
(* consecutive codes are edge-adjacent cells (the curve is continuous) *)
Definition step_ok (level i : Z) : bool :=
  let '(x0, y0) := c_decode_2 level i in
  let '(x1, y1) := c_decode_2 level (i + 1) in
  (Z.abs (x1 - x0) + Z.abs (y1 - y0) =? 1) && (c_encode_3 level x0 y0 =? i).
Definition level_ok (level : Z) : bool :=
  forallb (fun x => forallb (fun y => cell_ok level x y) (zrange (side level))) (zrange (side level))
  && forallb (step_ok level) (zrange (4 ^ level - 1)).
Definition LEVEL_BOUND : Z := 7.

Lemma sweep : forallb level_ok (zrange (LEVEL_BOUND + 1)) = true.
Proof. vm_compute. reflexivity. Qed.

Lemma in_zrange : forall n k, 0 <= k < n -> In k (zrange n).
Proof.
  intros n k H. unfold zrange. apply in_map_iff. exists (Z.to_nat k). split; [lia|].
  apply in_seq. lia.
Qed.

Lemma level_ok_of_bound : forall level, 0 <= level <= LEVEL_BOUND -> level_ok level = true.
Proof.
  intros level H. pose proof sweep as S. rewrite forallb_forall in S. apply S. apply in_zrange. lia.
Qed.

(* decode (encode (x,y)) = (x,y) for every cell of every level up to the bound *)
Theorem hilbert_decode_encode : forall level x y, 0 <= level <= LEVEL_BOUND -> 0 <= x < 2 ^ level -> 0 <= y < 2 ^ level ->
  c_decode_2 level (c_encode_3 level x y) = (x, y) /\ 0 <= c_encode_3 level x y < 4 ^ level.
Proof.
  intros level x y Hl Hx Hy. pose proof (level_ok_of_bound level Hl) as L. unfold level_ok in L.
  apply andb_true_iff in L. destruct L as [L _]. rewrite forallb_forall in L.
  specialize (L x (in_zrange _ _ Hx)). rewrite forallb_forall in L. specialize (L y (in_zrange _ _ Hy)).
  unfold cell_ok in L. destruct (c_decode_2 level (c_encode_3 level x y)) as [dx dy].
  repeat (apply andb_true_iff in L; destruct L as [L ?]).
  apply Z.eqb_eq in L. subst dx. split; [f_equal|split]; lia.
Qed.

(* encode (decode i) = i and consecutive codes are neighbouring cells *)
Theorem hilbert_encode_decode_adjacent : forall level i, 0 <= level <= LEVEL_BOUND -> 0 <= i < 4 ^ level - 1 ->
  let '(x0, y0) := c_decode_2 level i in let '(x1, y1) := c_decode_2 level (i + 1) in
  c_encode_3 level x0 y0 = i /\ Z.abs (x1 - x0) + Z.abs (y1 - y0) = 1.
Proof.
  intros level i Hl Hi. pose proof (level_ok_of_bound level Hl) as L. unfold level_ok in L.
  apply andb_true_iff in L. destruct L as [_ L]. rewrite forallb_forall in L. specialize (L i (in_zrange _ _ Hi)).
  unfold step_ok in L. destruct (c_decode_2 level i) as [x0 y0]. destruct (c_decode_2 level (i + 1)) as [x1 y1].
  apply andb_true_iff in L. destruct L as [A B]. split; lia.
Qed.
