(* C20 — envelope fold is tight; the exact centroid commutes with translation; the triangle-fan sums of a closed ring do
   not depend on the base point. *)
From Coq Require Import ZArith List Bool Lia.
From GeosV.C20 Require Import Defs.
Import ListNotations.
Local Open Scope Z_scope.

(* ------------------------------------------------------------------ induction over the nested geometry tree *)
Section GeomInd.
  Variable P : geom -> Prop.
  Hypothesis HP : forall c, P (GPoint c).
  Hypothesis HL : forall c, P (GLine c).
  Hypothesis HR : forall c, P (GRing c).
  Hypothesis HY : forall s hs, P (GPoly s hs).
  Hypothesis HC : forall t gs, Forall P gs -> P (GColl t gs).
  Fixpoint geom_ind' (g : geom) : P g :=
    match g with
    | GPoint c => HP c | GLine c => HL c | GRing c => HR c | GPoly s hs => HY s hs
    | GColl t gs => HC t gs ((fix go (l : list geom) : Forall P l :=
                                match l with [] => Forall_nil P | x :: r => Forall_cons x (geom_ind' x) (go r) end) gs)
    end.
End GeomInd.

(* ------------------------------------------------------------------ envelope *)
Definition bounds (e : env) (l : list pt) : Prop :=
  forall p, In p l -> minx e <= px p <= maxx e /\ miny e <= py p <= maxy e.
Definition attained (e : env) (l : list pt) : Prop :=
  (exists p, In p l /\ px p = minx e) /\ (exists p, In p l /\ px p = maxx e) /\
  (exists p, In p l /\ py p = miny e) /\ (exists p, In p l /\ py p = maxy e).

Lemma env_fold_some : forall l e0, exists e, fold_left env_add l (Some e0) = Some e.
Proof. induction l as [|p r IH]; intros e0; cbn; [eauto | apply IH]. Qed.

Lemma env_fold_tight : forall l l0 e0 e, bounds e0 l0 -> attained e0 l0 -> fold_left env_add l (Some e0) = Some e ->
  bounds e (l0 ++ l) /\ attained e (l0 ++ l).
Proof.
  induction l as [|p r IH]; intros l0 e0 e Hb Ha H.
  - cbn in H. inversion H; subst. rewrite app_nil_r. auto.
  - cbn [fold_left env_add] in H. replace (l0 ++ p :: r) with ((l0 ++ [p]) ++ r) by (rewrite <- app_assoc; reflexivity).
    eapply IH; [| |exact H].
    + intros q Hq. cbn [minx maxx miny maxy]. apply in_app_or in Hq. destruct Hq as [Hq|[<-|[]]]; [specialize (Hb q Hq)|]; lia.
    + destruct Ha as [[p1 [I1 E1]] [[p2 [I2 E2]] [[p3 [I3 E3]] [p4 [I4 E4]]]]]. cbn [minx maxx miny maxy].
      assert (Hp : In p (l0 ++ [p])) by (apply in_or_app; right; left; reflexivity).
      repeat split.
      * destruct (Z.min_spec (minx e0) (px p)) as [[_ ->]|[_ ->]]; [exists p1|exists p]; split; auto using in_or_app.
      * destruct (Z.max_spec (maxx e0) (px p)) as [[_ ->]|[_ ->]]; [exists p|exists p2]; split; auto using in_or_app.
      * destruct (Z.min_spec (miny e0) (py p)) as [[_ ->]|[_ ->]]; [exists p3|exists p]; split; auto using in_or_app.
      * destruct (Z.max_spec (maxy e0) (py p)) as [[_ ->]|[_ ->]]; [exists p|exists p4]; split; auto using in_or_app.
Qed.

(* the fold returns the tight axis-parallel bound: it bounds every vertex and each of its four sides touches a vertex *)
Theorem envelope_tight : forall pts,
  match envelope pts with
  | None => pts = []
  | Some e => bounds e pts /\ attained e pts
  end.
Proof.
  intros [|p r]; [reflexivity|]. unfold envelope. cbn [fold_left env_add].
  destruct (env_fold_some r (mkEnv (px p) (px p) (py p) (py p))) as [e He]. rewrite He.
  change (p :: r) with ([p] ++ r). eapply env_fold_tight; [| |exact He].
  - intros q [<-|[]]. cbn. lia.
  - repeat split; exists p; cbn; auto.
Qed.

Example envelope_ex : envelope [(3,1); (-2,5); (0,0)] = Some (mkEnv (-2) 3 0 5).
Proof. vm_compute. reflexivity. Qed.

(* ------------------------------------------------------------------ triangle fan: independence of the base point *)
(* the contribution of the triangle (b, b', p) *)
Definition tri (b b' p : pt) : Z * Z * Z :=
  let a := orient b b' p in (a, a * (px b + px b' + px p), a * (py b + py b' + py p)).
Definition t3add (u v : Z * Z * Z) : Z * Z * Z := (fst (fst u) + fst (fst v), snd (fst u) + snd (fst v), snd u + snd v).
Definition t3sub (u v : Z * Z * Z) : Z * Z * Z := (fst (fst u) - fst (fst v), snd (fst u) - snd (fst v), snd u - snd v).

Lemma fan_cons2 : forall b p q t, fan b (p :: q :: t) = t3add (tri b p q) (fan b (q :: t)).
Proof.
  intros b p q t.
  change (fan b (p :: q :: t)) with
    (let '(a, mx, my) := fan b (q :: t) in
     let a2 := orient b p q in (a2 + a, a2 * (px b + px p + px q) + mx, a2 * (py b + py p + py q) + my)).
  destruct (fan b (q :: t)) as [[a mx] my]. unfold t3add, tri. cbn [fst snd]. reflexivity.
Qed.

Lemma fan_base_change : forall b b' c d, c <> [] ->
  fan b c = t3sub (t3add (fan b' c) (tri b b' (last c d))) (tri b b' (hd d c)).
Proof.
  intros b b' c d. induction c as [|p [|q t] IH]; intros Hne; [congruence| |].
  - cbn [fan last hd]. unfold t3sub, t3add, tri. cbn [fst snd]. f_equal; [f_equal|]; ring.
  - rewrite !fan_cons2. rewrite IH by discriminate.
    change (last (p :: q :: t) d) with (last (q :: t) d). cbn [hd].
    destruct (fan b' (q :: t)) as [[a mx] my]. unfold t3sub, t3add, tri, orient. cbn [fst snd].
    f_equal; [f_equal|]; ring.
Qed.

(* for a closed ring (first = last) the three sums are the same for every base point *)
Theorem centroid_fan_origin_independent : forall b b' r d, r <> [] -> hd d r = last r d -> fan b r = fan b' r.
Proof.
  intros b b' r d Hne Hcl. rewrite (fan_base_change b b' r d Hne). rewrite Hcl.
  destruct (fan b' r) as [[a mx] my]. unfold t3sub, t3add. cbn [fst snd]. f_equal; [f_equal|]; ring.
Qed.

Example fan_ex : fan (7, -3) [(0,0); (4,0); (4,4); (0,4); (0,0)] = fan (0, 0) [(0,0); (4,0); (4,4); (0,4); (0,0)].
Proof. vm_compute. reflexivity. Qed.

(* ------------------------------------------------------------------ translation *)
Definition tr (t p : pt) : pt := (px p + px t, py p + py t).
Lemma translate_pts_map : forall t l, translate_pts t l = map (tr t) l.
Proof. intros t l. induction l as [|p r IH]; cbn; [reflexivity | rewrite IH; reflexivity]. Qed.
Lemma orient_tr : forall t a b c, orient (tr t a) (tr t b) (tr t c) = orient a b c.
Proof. intros. unfold orient, tr, px, py. cbn [fst snd]. ring. Qed.
Lemma dist2_tr : forall t a b, dist2 (tr t a) (tr t b) = dist2 a b.
Proof. intros. unfold dist2, tr, px, py. cbn [fst snd]. ring. Qed.

Lemma fan_tr : forall t b c, fan (tr t b) (map (tr t) c) =
  let '(a, mx, my) := fan b c in (a, mx + 3 * px t * a, my + 3 * py t * a).
Proof.
  intros t b c. induction c as [|p [|q r] IH]; [cbn; f_equal; [f_equal|]; ring | cbn; f_equal; [f_equal|]; ring |].
  change (map (tr t) (p :: q :: r)) with (tr t p :: tr t q :: map (tr t) r).
  rewrite fan_cons2.
  change (tr t q :: map (tr t) r) with (map (tr t) (q :: r)).
  rewrite IH, (fan_cons2 b p q r). destruct (fan b (q :: r)) as [[a mx] my].
  unfold t3add, tri. rewrite orient_tr. unfold tr, px, py. cbn [fst snd]. f_equal; [f_equal|]; ring.
Qed.

Lemma lin_tr : forall k t c, lin k (map (tr t) c) =
  let '(l, sx, sy) := lin k c in (l, sx + 2 * px t * l, sy + 2 * py t * l).
Proof.
  intros k t c. induction c as [|p [|q r] IH]; [cbn; f_equal; [f_equal|]; ring | cbn; f_equal; [f_equal|]; ring |].
  change (map (tr t) (p :: q :: r)) with (tr t p :: map (tr t) (q :: r)).
  change (lin k (tr t p :: map (tr t) (q :: r))) with
    (let '(l, sx, sy) := lin k (map (tr t) (q :: r)) in
     let w := sqrt_scaled k (dist2 (tr t p) (tr t q)) in
     (w + l, w * (px (tr t p) + px (tr t q)) + sx, w * (py (tr t p) + py (tr t q)) + sy)).
  rewrite IH. change (lin k (p :: q :: r)) with
    (let '(l, sx, sy) := lin k (q :: r) in let w := sqrt_scaled k (dist2 p q) in
     (w + l, w * (px p + px q) + sx, w * (py p + py q) + sy)).
  destruct (lin k (q :: r)) as [[l sx] sy]. rewrite dist2_tr. unfold tr, px, py. cbn [fst snd].
  f_equal; [f_equal|]; ring.
Qed.

(* how the nine accumulated sums move under a translation by t *)
Definition shift (t : pt) (a : cacc) : cacc :=
  mkAcc (aA a) (aMx a + 3 * px t * aA a) (aMy a + 3 * py t * aA a)
        (aL a) (aLx a + 2 * px t * aL a) (aLy a + 2 * py t * aL a)
        (aN a) (aPx a + px t * aN a) (aPy a + py t * aN a).
Lemma acc_eq : forall a b, aA a = aA b -> aMx a = aMx b -> aMy a = aMy b -> aL a = aL b -> aLx a = aLx b -> aLy a = aLy b ->
  aN a = aN b -> aPx a = aPx b -> aPy a = aPy b -> a = b.
Proof. intros [] []. cbn. intros. subst. reflexivity. Qed.
Lemma shift_add : forall t a b, shift t (acc_add a b) = acc_add (shift t a) (shift t b).
Proof. intros t a b. apply acc_eq; unfold shift, acc_add; cbn; ring. Qed.
Lemma shift_0 : forall t, shift t acc0 = acc0.
Proof. intros t. apply acc_eq; cbn; ring. Qed.

Lemma acc_line_tr : forall k t c, acc_line k (map (tr t) c) = shift t (acc_line k c).
Proof.
  intros k t c. unfold acc_line. rewrite lin_tr. destruct (lin k c) as [[l sx] sy].
  destruct c as [|f r]; [cbn [map]; symmetry; apply shift_0|]. cbn [map].
  destruct (l =? 0); apply acc_eq; unfold shift, tr, px, py; cbn; ring.
Qed.
Lemma acc_ring_tr : forall k t b s r, acc_ring k (tr t b) s (map (tr t) r) = shift t (acc_ring k b s r).
Proof.
  intros k t b s r. unfold acc_ring. rewrite fan_tr, acc_line_tr. destruct (fan b r) as [[a mx] my].
  rewrite shift_add. f_equal. apply acc_eq; unfold shift; cbn; ring.
Qed.

Lemma acc_poly_tr : forall k t b s hs,
  fold_right (fun h acc => acc_add (acc_ring k (tr t b) (-1) h) acc) (acc_ring k (tr t b) 1 (map (tr t) s)) (map (translate_pts t) hs)
  = shift t (fold_right (fun h acc => acc_add (acc_ring k b (-1) h) acc) (acc_ring k b 1 s) hs).
Proof.
  intros k t b s hs. induction hs as [|h hr IHh]; cbn [map fold_right].
  - apply acc_ring_tr.
  - rewrite IHh, shift_add. f_equal. rewrite translate_pts_map. apply acc_ring_tr.
Qed.

Lemma acc_geom_translate : forall k t g, acc_geom k (translate t g) = shift t (acc_geom k g).
Proof.
  intros k t. induction g as [c|c|c|s hs|ty gs IH] using geom_ind'; cbn [translate acc_geom]; rewrite ?translate_pts_map.
  - destruct c as [|f r]; [symmetry; apply shift_0|]. cbn [map]. apply acc_eq; unfold shift, tr, px, py; cbn; ring.
  - apply acc_line_tr.
  - apply acc_line_tr.
  - destruct s as [|b s']; [symmetry; apply shift_0|].
    exact (acc_poly_tr k t b (b :: s') hs).
  - induction IH as [|x r Hx _ IHr]; cbn [map fold_right]; [symmetry; apply shift_0|].
    rewrite Hx, IHr, shift_add. reflexivity.
Qed.

(* translating the geometry by t translates the exact centroid by t (same weighting kind, same denominator) *)
Theorem centroid_translation : forall k t g kind nx ny d, centroid k g = Some (kind, nx, ny, d) ->
  centroid k (translate t g) = Some (kind, nx + px t * d, ny + py t * d, d).
Proof.
  intros k t g kind nx ny d H. unfold centroid in *. rewrite acc_geom_translate.
  set (a := acc_geom k g) in *. unfold centroid_of_acc in *. unfold shift. cbn [aA aMx aMy aL aLx aLy aN aPx aPy].
  remember (3 * aA a) as d3 eqn:E3. remember (2 * aL a) as d2 eqn:E2.
  destruct (negb (aA a =? 0)); [injection H; intros; subst kind nx ny d; apply f_equal; repeat (apply injective_projections; cbn [fst snd]); try reflexivity; subst d3; ring|].
  destruct (0 <? aL a); [injection H; intros; subst kind nx ny d; apply f_equal; repeat (apply injective_projections; cbn [fst snd]); try reflexivity; subst d2; ring|].
  destruct (0 <? aN a); [injection H; intros; subst kind nx ny d; apply f_equal; repeat (apply injective_projections; cbn [fst snd]); try reflexivity; ring|].
  discriminate.
Qed.

Example centroid_ex_area : centroid 8 (GColl 7 [GPoint [(9,9)]; GPoly [(0,0); (6,0); (6,6); (0,6); (0,0)] [[(1,1); (1,2); (2,2); (2,1); (1,1)]]])
  = Some (2, 639, 639, 210).
Proof. vm_compute. reflexivity. Qed.
Example centroid_ex_fallback : centroid 8 (GColl 7 [GPoly [(0,0); (1,0); (2,0); (0,0)] []; GPoint [(5,5)]]) = Some (1, 2048, 0, 2048).
Proof. vm_compute. reflexivity. Qed.
