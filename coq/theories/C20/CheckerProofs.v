(* C20 — soundness of the brute-force checkers (they are NOT proved minimal in the geometric sense, see Properties_C20):
   the bounding-circle check implies containment within r(1+eps) and two support points; the minimum over hull edges is
   attained by an edge and no edge does better. *)
From Coq Require Import ZArith List Bool Lia.
From GeosV.C20 Require Import Defs.
Import ListNotations.
Local Open Scope Z_scope.

Definition d2s (cx cy sc : Z) (p : pt) : Z := (px p * sc - cx) * (px p * sc - cx) + (py p * sc - cy) * (py p * sc - cy).
Theorem mbc_check_sound : forall pts cx cy r sc einv, mbc_check pts cx cy r sc einv = true ->
  (forall p, In p pts -> d2s cx cy sc p * einv * einv <= r * r * (einv + 1) * (einv + 1)) /\
  (2 <= Z.of_nat (length (filter (fun p => r * r * (einv - 1) * (einv - 1) <=? d2s cx cy sc p * einv * einv) pts))).
Proof.
  intros pts cx cy r sc einv H. unfold mbc_check in H. apply andb_true_iff in H. destruct H as [H1 H2].
  rewrite forallb_forall in H1. split.
  - intros p Hp. apply Z.leb_le. exact (H1 p Hp).
  - apply Z.leb_le. exact H2.
Qed.

Definition fle (a b : Z * Z) : Prop := fst a * snd b <= fst b * snd a.        (* a <= b as fractions with positive denominators *)
Lemma fle_trans : forall a b c, 0 < snd a -> 0 < snd b -> 0 < snd c -> fle a b -> fle b c -> fle a c.
Proof.
  intros [a1 a2] [b1 b2] [c1 c2]. unfold fle. cbn [fst snd]. intros Ha Hb Hc H1 H2.
  assert (H : a1 * c2 * b2 <= c1 * a2 * b2) by nia. nia.
Qed.
Definition min_step (best : option (Z * Z)) (x : Z * Z) : option (Z * Z) :=
  match best with None => Some x | Some b => if frac_ltb x b then Some x else best end.
Lemma min_frac_fold : forall l best, (forall y, In y l -> 0 < snd y) -> (forall b, best = Some b -> 0 < snd b) ->
  match fold_left min_step l best with
  | None => best = None /\ l = []
  | Some m => (In m l \/ best = Some m) /\ 0 < snd m /\ (forall y, In y l -> fle m y) /\ (forall b, best = Some b -> fle m b)
  end.
Proof.
  induction l as [|x r IH]; intros best Hpos Hb; cbn [fold_left].
  - destruct best as [b|]; [|split; reflexivity]. split; [right; reflexivity|]. split; [apply Hb; reflexivity|].
    split; [intros y []|]. intros b' E. inversion E; subst. unfold fle. lia.
  - assert (Hx : 0 < snd x) by (apply Hpos; left; reflexivity).
    assert (Hr : forall y, In y r -> 0 < snd y) by (intros; apply Hpos; right; assumption).
    specialize (IH (min_step best x) Hr).
    assert (Hb' : forall b, min_step best x = Some b -> 0 < snd b).
    { intros b E. unfold min_step in E. destruct best as [b0|]; [destruct (frac_ltb x b0)|]; inversion E; subst; auto. }
    specialize (IH Hb'). destruct (fold_left min_step r (min_step best x)) as [m|].
    + destruct IH as (Hin & Hm & Hall & Hbest). split; [|split; [exact Hm|split]].
      * destruct Hin as [Hin|Hin]; [left; right; exact Hin|]. unfold min_step in Hin. destruct best as [b0|].
        -- destruct (frac_ltb x b0); [inversion Hin; subst; left; left; reflexivity|right; exact Hin].
        -- inversion Hin; subst. left; left; reflexivity.
      * intros y [<-|Hy]; [|apply Hall; exact Hy]. unfold min_step in Hbest. destruct best as [b0|].
        -- destruct (frac_ltb x b0) eqn:E; [apply Hbest; reflexivity|].
           apply (fle_trans m b0 x); [exact Hm|apply Hb; reflexivity|exact Hx|apply Hbest; reflexivity|]. unfold frac_ltb in E. apply Z.ltb_ge in E. unfold fle. lia.
        -- apply Hbest. reflexivity.
      * intros b E. subst best. unfold min_step in Hbest. destruct (frac_ltb x b) eqn:E.
        -- apply (fle_trans m x b); [exact Hm|exact Hx|apply Hb; reflexivity|apply Hbest; reflexivity|]. unfold frac_ltb in E. apply Z.ltb_lt in E. unfold fle. lia.
        -- apply Hbest. reflexivity.
    + destruct IH as [E _]. unfold min_step in E. destruct best as [b0|]; [destruct (frac_ltb x b0)|]; discriminate.
Qed.
(* the minimum over the hull edges is attained by an edge and no edge gives a smaller value *)
Theorem min_frac_spec : forall l m, (forall y, In y l -> 0 < snd y) -> min_frac l = Some m -> In m l /\ forall y, In y l -> fle m y.
Proof.
  intros l m Hpos H. unfold min_frac in H. pose proof (min_frac_fold l None Hpos) as F. fold min_step in H.
  change (fold_left (fun best x => match best with None => Some x | Some b => if frac_ltb x b then Some x else best end) l None)
    with (fold_left min_step l None) in H. rewrite H in F. destruct F as (Hin & _ & Hall & _); [intros b E; discriminate|].
  split; [destruct Hin as [Hin|Hin]; [exact Hin|discriminate]|exact Hall].
Qed.
Theorem min_width2_attained : forall h w, (forall e, In e (edges h) -> fst e <> snd e) -> min_width2 h = Some w ->
  exists e, In e (edges h) /\ w = edge_width2 h e /\ forall e', In e' (edges h) -> fle w (edge_width2 h e').
Proof.
  intros h w Hne H. unfold min_width2 in H. apply min_frac_spec in H.
  - destruct H as [Hin Hall]. apply in_map_iff in Hin. destruct Hin as (e & <- & He). exists e. split; [exact He|]. split; [reflexivity|].
    intros e' He'. apply Hall. apply in_map. exact He'.
  - intros y Hy. apply in_map_iff in Hy. destruct Hy as (e & <- & He). unfold edge_width2. cbn [snd].
    specialize (Hne e He). unfold dist2. destruct (fst e) as [ax ay], (snd e) as [bx by_]. unfold px, py. cbn [fst snd].
    assert (Hd : ax <> bx \/ ay <> by_) by (destruct (Z.eq_dec ax bx), (Z.eq_dec ay by_); subst; auto; exfalso; apply Hne; reflexivity).
    pose proof (Z.square_nonneg (ax - bx)) as S1. pose proof (Z.square_nonneg (ay - by_)) as S2.
    destruct Hd as [Hd|Hd]; [assert (0 < (ax - bx) * (ax - bx)) by nia|assert (0 < (ay - by_) * (ay - by_)) by nia]; lia.
Qed.
Example min_width2_ex : min_width2 [(0,0); (4,0); (4,3); (0,3)] = Some (144, 16).
Proof. vm_compute. reflexivity. Qed.
Example mbc_ex : mbc_exact [(0,0); (4,0); (4,3); (0,3)] [(0,0); (4,0); (4,3); (0,3); (2,1)] = Some (mkCircle 4 3 2 25 4).
Proof. vm_compute. reflexivity. Qed.
