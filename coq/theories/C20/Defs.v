(* C20 — executable definitions only (no proofs): exact planar primitives over Z, the relational hull checker R,
   the monotone-chain hull S, envelope fold, exact centroid S, even-odd point location, brute-force minimum
   bounding circle / minimum width / minimum-area rectangle over hull edges, and the code-level model M of
   normalize / compareTo / reverse / orientRings (src/geom/*.cpp) with Orientation::isCCW.
   Coordinates are integers: a geometry whose ordinates are binary64 values is scaled by one common power of two
   (done exactly by the Python glue), so "full-precision" inputs are handled by the same definitions. *)
From Coq Require Import ZArith List Bool Arith.
Import ListNotations.
Local Open Scope Z_scope.

Definition pt := (Z * Z)%type.
Definition px (p : pt) : Z := fst p.
Definition py (p : pt) : Z := snd p.
Definition pt_eqb (a b : pt) : bool := (px a =? px b) && (py a =? py b).
(* Orientation::index(a,b,c) = sign of this determinant: > 0 counter-clockwise (c left of a->b) *)
Definition orient (a b c : pt) : Z := (px b - px a) * (py c - py a) - (px c - px a) * (py b - py a).
Definition dot (o a b : pt) : Z := (px a - px o) * (px b - px o) + (py a - py o) * (py b - py o).
Definition dist2 (a b : pt) : Z := (px a - px b) * (px a - px b) + (py a - py b) * (py a - py b).
(* CoordinateXY::compareTo : x first, then y *)
Definition cmp_pt (a b : pt) : comparison :=
  match px a ?= px b with Eq => py a ?= py b | c => c end.
Fixpoint mem_pt (p : pt) (l : list pt) : bool :=
  match l with [] => false | q :: r => pt_eqb p q || mem_pt p r end.

(* ------------------------------------------------------------------ generic insertion sort
   `before x y` = x may stand directly before y. std::sort is modelled as ANY sorted permutation (see Proofs:
   sorted_perm_unique); this is one of them. *)
Section Sort.
  Context {A : Type} (before : A -> A -> bool).
  Fixpoint insert (x : A) (l : list A) : list A :=
    match l with [] => [x] | y :: r => if before x y then x :: l else y :: insert x r end.
  Fixpoint isort (l : list A) : list A :=
    match l with [] => [] | x :: r => insert x (isort r) end.
End Sort.

(* ------------------------------------------------------------------ convex hull: checker R *)
Definition cyc_next {A} (l : list A) : list A := match l with [] => [] | x :: r => r ++ [x] end.
Definition edges (h : list pt) : list (pt * pt) := combine h (cyc_next h).
Definition triples (h : list pt) : list (pt * (pt * pt)) := combine h (combine (cyc_next h) (cyc_next (cyc_next h))).
(* p on the closed segment ab (a = b allowed: then p = a) *)
Definition on_seg (a b p : pt) : bool :=
  (orient a b p =? 0) && (0 <=? dot a b p) && (0 <=? dot b a p) && (negb (pt_eqb a b) || pt_eqb a p).
(* h: vertex cycle without the closing point. [] for empty input, [a] when all inputs equal a, [a;b] when all inputs lie
   on the segment ab (a<>b), otherwise a strictly convex counter-clockwise cycle. *)
Definition check_hull (pts h : list pt) : bool :=
  match h with
  | [] => match pts with [] => true | _ => false end
  | [a] => mem_pt a pts && forallb (pt_eqb a) pts
  | [a; b] => negb (pt_eqb a b) && mem_pt a pts && mem_pt b pts && forallb (on_seg a b) pts
  | _ => forallb (fun v => mem_pt v pts) h
         && forallb (fun e => forallb (fun p => 0 <=? orient (fst e) (snd e) p) pts) (edges h)
         && forallb (fun t => 0 <? orient (fst t) (fst (snd t)) (snd (snd t))) (triples h)
  end.

(* ------------------------------------------------------------------ convex hull: monotone chain S *)
Definition pt_leb (a b : pt) : bool := match cmp_pt a b with Gt => false | _ => true end.
Fixpoint dedup_sorted (l : list pt) : list pt :=
  match l with
  | a :: (b :: _) as r => if pt_eqb a b then dedup_sorted r else a :: dedup_sorted r
  | _ => l
  end.
(* stack, top first; pop while the last two and p do not make a strict left turn *)
Fixpoint chain_push (st : list pt) (p : pt) : list pt :=
  match st with
  | a :: ((b :: _) as r) => if orient b a p <=? 0 then chain_push r p else p :: st
  | _ => p :: st
  end.
Definition half_hull (sorted : list pt) : list pt := rev (fold_left chain_push sorted []).
Definition hull_mc (pts : list pt) : list pt :=
  let s := dedup_sorted (isort pt_leb pts) in
  match s with
  | [] => [] | [a] => [a]
  | _ => removelast (half_hull s) ++ removelast (half_hull (rev s))
  end.
(* twice the signed area of the closed polygon through the cycle h (counter-clockwise positive) *)
Definition shoelace_open (h : list pt) : Z :=
  fold_right (fun e acc => (px (fst e) * py (snd e) - px (snd e) * py (fst e)) + acc) 0 (edges h).
Fixpoint min_pt (l : list pt) (m : pt) : pt :=
  match l with [] => m | p :: r => min_pt r (match cmp_pt p m with Lt => p | _ => m end) end.
Fixpoint index_of (p : pt) (l : list pt) : nat :=
  match l with [] => O | q :: r => if pt_eqb p q then O else S (index_of p r) end.
Definition rotate_to {A} (k : nat) (l : list A) : list A := skipn k l ++ firstn k l.
(* canonical presentation of a vertex cycle: counter-clockwise, starting at the lexicographically smallest vertex *)
Definition canon_cycle (h : list pt) : list pt :=
  match h with
  | [] => [] | [a] => [a]
  | [a; b] => if pt_leb a b then [a; b] else [b; a]
  | a :: _ => let h1 := if shoelace_open h <? 0 then rev h else h in
              rotate_to (index_of (min_pt h1 a) h1) h1
  end.
Fixpoint list_pt_eqb (a b : list pt) : bool :=
  match a, b with [], [] => true | x :: r, y :: s => pt_eqb x y && list_pt_eqb r s | _, _ => false end.
(* verdict for an implementation hull: 0 ok, 1 checker rejects, 2 differs from the monotone-chain hull, 3 both *)
Definition hull_verdict (pts h : list pt) : Z :=
  let c := canon_cycle h in
  (if check_hull pts c then 0 else 1) + (if list_pt_eqb c (hull_mc pts) then 0 else 2).

(* ------------------------------------------------------------------ envelope *)
Record env := mkEnv { minx : Z; maxx : Z; miny : Z; maxy : Z }.
Definition env_add (e : option env) (p : pt) : option env :=
  match e with
  | None => Some (mkEnv (px p) (px p) (py p) (py p))
  | Some e => Some (mkEnv (Z.min (minx e) (px p)) (Z.max (maxx e) (px p)) (Z.min (miny e) (py p)) (Z.max (maxy e) (py p)))
  end.
Definition envelope (pts : list pt) : option env := fold_left env_add pts None.
(* the envelope geometry returned for `pts` has vertices `out`: every output vertex is a corner of the fold's box and
   the box of the output is the same box *)
Definition env_eqb (a b : env) : bool :=
  (minx a =? minx b) && (maxx a =? maxx b) && (miny a =? miny b) && (maxy a =? maxy b).
Definition is_corner (e : env) (p : pt) : bool :=
  ((px p =? minx e) || (px p =? maxx e)) && ((py p =? miny e) || (py p =? maxy e)).
Definition check_envelope (pts out : list pt) : bool :=
  match envelope pts, envelope out with
  | None, None => true
  | Some e, Some o => env_eqb e o && forallb (is_corner e) out
  | _, _ => false
  end.

(* ------------------------------------------------------------------ geometry tree *)
Inductive geom :=
| GPoint (c : list pt)                       (* [] (empty) or [p] *)
| GLine (c : list pt)
| GRing (c : list pt)                        (* LinearRing *)
| GPoly (shell : list pt) (holes : list (list pt))   (* rings closed (first = last); shell [] = empty polygon *)
| GColl (t : Z) (gs : list geom).            (* t: 4 MultiPoint, 5 MultiLineString, 6 MultiPolygon, 7 GeometryCollection *)

Fixpoint coords (g : geom) : list pt :=
  match g with
  | GPoint c | GLine c | GRing c => c
  | GPoly s hs => s ++ concat hs
  | GColl _ gs => flat_map coords gs
  end.
Fixpoint is_empty (g : geom) : bool :=
  match g with
  | GPoint c | GLine c | GRing c => match c with [] => true | _ => false end
  | GPoly s _ => match s with [] => true | _ => false end
  | GColl _ gs => forallb is_empty gs
  end.
Fixpoint dimension (g : geom) : Z :=
  match g with
  | GPoint _ => 0 | GLine _ | GRing _ => 1 | GPoly _ _ => 2
  | GColl t gs => if t =? 4 then 0 else if t =? 5 then 1 else if t =? 6 then 2 else fold_right (fun x acc => Z.max (dimension x) acc) (-1) gs
  end.
Fixpoint num_geoms_deep (g : geom) : Z :=
  match g with GColl _ gs => 1 + fold_right (fun x acc => num_geoms_deep x + acc) 0 gs | _ => 1 end.
Definition num_coords (g : geom) : Z := Z.of_nat (length (coords g)).
Fixpoint translate_pts (t : pt) (l : list pt) : list pt :=
  match l with [] => [] | p :: r => (px p + px t, py p + py t) :: translate_pts t r end.
Fixpoint translate (t : pt) (g : geom) : geom :=
  match g with
  | GPoint c => GPoint (translate_pts t c) | GLine c => GLine (translate_pts t c) | GRing c => GRing (translate_pts t c)
  | GPoly s hs => GPoly (translate_pts t s) (map (translate_pts t) hs)
  | GColl k gs => GColl k (map (translate t) gs)
  end.

(* ------------------------------------------------------------------ area, length *)
(* twice the signed area of a CLOSED ring given with its closing point (counter-clockwise positive) *)
Fixpoint shoelace (r : list pt) : Z :=
  match r with
  | a :: ((b :: _) as t) => (px a * py b - px b * py a) + shoelace t
  | _ => 0
  end.
(* Polygon::getArea: |shell| - sum |holes| ; collections add up *)
Fixpoint area2 (g : geom) : Z :=
  match g with
  | GPoly s hs => Z.abs (shoelace s) - fold_right (fun h acc => Z.abs (shoelace h) + acc) 0 hs
  | GColl _ gs => fold_right (fun x acc => area2 x + acc) 0 gs
  | _ => 0
  end.
Fixpoint seg_d2s (c : list pt) : list Z :=
  match c with a :: ((b :: _) as t) => dist2 a b :: seg_d2s t | _ => [] end.
(* the squared lengths of all segments that Geometry::getLength sums (lines, rings, polygon rings) *)
Fixpoint all_seg_d2s (g : geom) : list Z :=
  match g with
  | GPoint _ => []
  | GLine c | GRing c => seg_d2s c
  | GPoly s hs => seg_d2s s ++ flat_map seg_d2s hs
  | GColl _ gs => flat_map all_seg_d2s gs
  end.
(* floor (2^p * sqrt d2) *)
Definition sqrt_scaled (p : Z) (d2 : Z) : Z := Z.sqrt (d2 * 4 ^ p).
Definition length_scaled (p : Z) (g : geom) : Z := fold_right (fun d acc => sqrt_scaled p d + acc) 0 (all_seg_d2s g).

(* ------------------------------------------------------------------ centroid S (Centroid.cpp accumulation, exact) *)
(* triangle fan over the path c from the base point b: (sum of 2*area, sum of 2*area*(b+p+q).x, ... .y) *)
Fixpoint fan (b : pt) (c : list pt) : Z * Z * Z :=
  match c with
  | p :: ((q :: _) as t) =>
      let '(a, mx, my) := fan b t in
      let a2 := orient b p q in
      (a2 + a, a2 * (px b + px p + px q) + mx, a2 * (py b + py p + py q) + my)
  | _ => (0, 0, 0)
  end.
(* line part: (sum L, sum L*(x_i + x_{i+1}), sum L*(y_i+y_{i+1})) with L = sqrt_scaled p ; midpoints are doubled *)
Fixpoint lin (p : Z) (c : list pt) : Z * Z * Z :=
  match c with
  | a :: ((b :: _) as t) =>
      let '(l, sx, sy) := lin p t in
      let w := sqrt_scaled p (dist2 a b) in
      (w + l, w * (px a + px b) + sx, w * (py a + py b) + sy)
  | _ => (0, 0, 0)
  end.
Record cacc := mkAcc { aA : Z; aMx : Z; aMy : Z; aL : Z; aLx : Z; aLy : Z; aN : Z; aPx : Z; aPy : Z }.
Definition acc0 := mkAcc 0 0 0 0 0 0 0 0 0.
Definition acc_add (a b : cacc) : cacc :=
  mkAcc (aA a + aA b) (aMx a + aMx b) (aMy a + aMy b) (aL a + aL b) (aLx a + aLx b) (aLy a + aLy b) (aN a + aN b) (aPx a + aPx b) (aPy a + aPy b).
(* addLineSegments: a curve of zero length counts as its first point *)
Definition acc_line (p : Z) (c : list pt) : cacc :=
  let '(l, sx, sy) := lin p c in
  match c with
  | [] => acc0
  | f :: _ => if l =? 0 then mkAcc 0 0 0 0 0 0 1 (px f) (py f) else mkAcc 0 0 0 l sx sy 0 0 0
  end.
(* a ring of a polygon with the polygon's base point; sgn = +1 shell, -1 hole; weight = |area| (sign of the shoelace sum) *)
Definition acc_ring (p : Z) (b : pt) (sgn : Z) (r : list pt) : cacc :=
  let '(a, mx, my) := fan b r in
  let s := sgn * Z.sgn a in
  acc_add (mkAcc (s * a) (s * mx) (s * my) 0 0 0 0 0 0) (acc_line p r).
Fixpoint acc_geom (p : Z) (g : geom) : cacc :=
  match g with
  | GPoint c => match c with [] => acc0 | f :: _ => mkAcc 0 0 0 0 0 0 1 (px f) (py f) end
  | GLine c | GRing c => acc_line p c
  | GPoly s hs => match s with
                  | [] => acc0
                  | b :: _ => fold_right (fun h acc => acc_add (acc_ring p b (-1) h) acc) (acc_ring p b 1 s) hs
                  end
  | GColl _ gs => fold_right (fun x acc => acc_add (acc_geom p x) acc) acc0 gs
  end.
(* (kind, num_x, num_y, den): centroid = (num_x/den, num_y/den); kind 2 area-, 1 length-, 0 count-weighted *)
Definition centroid_of_acc (a : cacc) : option (Z * Z * Z * Z) :=
  if negb (aA a =? 0) then Some (2, aMx a, aMy a, 3 * aA a)
  else if 0 <? aL a then Some (1, aLx a, aLy a, 2 * aL a)
  else if 0 <? aN a then Some (0, aPx a, aPy a, aN a)
  else None.
Definition centroid (p : Z) (g : geom) : option (Z * Z * Z * Z) := centroid_of_acc (acc_geom p g).

(* ------------------------------------------------------------------ exact even-odd location: 0 interior, 1 boundary, 2 exterior *)
(* crossing of the ray from p towards +x with the segment ab (half-open rule on y) *)
Definition crosses (p a b : pt) : bool :=
  if (py p <? py a) && (py b <=? py p) then 0 <? orient b a p          (* downward edge: p strictly left of b->a *)
  else if (py p <? py b) && (py a <=? py p) then 0 <? orient a b p     (* upward edge *)
  else false.
Fixpoint ring_scan (p : pt) (r : list pt) : bool * bool :=            (* (on boundary, parity) *)
  match r with
  | a :: ((b :: _) as t) => let '(on, par) := ring_scan p t in (on || on_seg a b p, xorb par (crosses p a b))
  | _ => (false, false)
  end.
Definition locate_ring (p : pt) (r : list pt) : Z :=
  let '(on, par) := ring_scan p r in if on then 1 else if par then 0 else 2.
Definition locate_poly (p : pt) (s : list pt) (hs : list (list pt)) : Z :=
  match locate_ring p s with
  | 0 => fold_right (fun h acc => if acc =? 0 then (match locate_ring p h with 0 => 2 | 1 => 1 | _ => 0 end) else acc) 0 hs
  | l => l
  end.
(* areal components only; for non-overlapping polygons (valid MultiPolygon) *)
Fixpoint locate_area (p : pt) (g : geom) : Z :=
  match g with
  | GPoly s hs => match s with [] => 2 | _ => locate_poly p s hs end
  | GColl _ gs => fold_right (fun x acc => Z.min (locate_area p x) acc) 2 gs
  | _ => 2
  end.

(* ------------------------------------------------------------------ minimum bounding circle, brute force over pairs / triples *)
(* circle: centre (cxn/cd, cyn/cd), squared radius rn/rd ; cd > 0, rd > 0 *)
Record circle := mkCircle { cxn : Z; cyn : Z; cd : Z; rn : Z; rd : Z }.
Definition circle2 (a b : pt) : circle := mkCircle (px a + px b) (py a + py b) 2 (dist2 a b) 4.
Definition circle3 (a b c : pt) : option circle :=
  let d := 2 * orient a b c in
  if d =? 0 then None else
  let bx := px b - px a in let by_ := py b - py a in let cx := px c - px a in let cy := py c - py a in
  let b2 := bx * bx + by_ * by_ in let c2 := cx * cx + cy * cy in
  let ux := cy * b2 - by_ * c2 in let uy := bx * c2 - cx * b2 in      (* circumcentre - a = (ux/d, uy/d) *)
  let s := Z.sgn d in
  Some (mkCircle (s * (px a * d + ux)) (s * (py a * d + uy)) (s * d) (ux * ux + uy * uy) (d * d)).
(* |p - centre|^2 <= r^2 *)
Definition in_circle (k : circle) (p : pt) : bool :=
  let dx := px p * cd k - cxn k in let dy := py p * cd k - cyn k in
  (dx * dx + dy * dy) * rd k <=? rn k * (cd k * cd k).
Definition on_circle (k : circle) (p : pt) : bool :=
  let dx := px p * cd k - cxn k in let dy := py p * cd k - cyn k in
  (dx * dx + dy * dy) * rd k =? rn k * (cd k * cd k).
Definition r2_ltb (a b : circle) : bool := rn a * rd b <? rn b * rd a.
Definition better (pts : list pt) (best : option circle) (k : circle) : option circle :=
  match best with
  | Some b => if r2_ltb k b && forallb (in_circle k) pts then Some k else best
  | None => if forallb (in_circle k) pts then Some k else None
  end.
Fixpoint pairs {A} (l : list A) : list (A * A) :=
  match l with [] => [] | x :: r => map (fun y => (x, y)) r ++ pairs r end.
Fixpoint triples3 {A} (l : list A) : list (A * A * A) :=
  match l with [] => [] | x :: r => map (fun yz => (x, fst yz, snd yz)) (pairs r) ++ triples3 r end.
(* cand: the points circles are built from (hull vertices suffice); pts: the points that must be covered *)
Definition mbc_exact (cand pts : list pt) : option circle :=
  match cand with
  | [] => None
  | [a] => Some (mkCircle (px a) (py a) 1 0 1)
  | _ =>
    let b2 := fold_left (fun best ab => better pts best (circle2 (fst ab) (snd ab))) (pairs cand) None in
    fold_left (fun best abc => match circle3 (fst (fst abc)) (snd (fst abc)) (snd abc) with
                               | Some k => better pts best k | None => best end) (triples3 cand) b2
  end.
Definition support_count (k : circle) (pts : list pt) : Z := Z.of_nat (length (filter (on_circle k) pts)).
(* relational check of an implementation circle given as exact numbers: centre (cx/sc, cy/sc), radius r/sc with a
   relative slack eps = 1/einv: every vertex within r(1+eps), and at least two vertices at distance >= r(1-eps) *)
Definition mbc_check (pts : list pt) (cx cy r sc einv : Z) : bool :=
  let d2 p := (px p * sc - cx) * (px p * sc - cx) + (py p * sc - cy) * (py p * sc - cy) in
  let hi := r * r * (einv + 1) * (einv + 1) in
  let lo := r * r * (einv - 1) * (einv - 1) in
  forallb (fun p => d2 p * einv * einv <=? hi) pts
  && (2 <=? Z.of_nat (length (filter (fun p => lo <=? d2 p * einv * einv) pts))).

(* ------------------------------------------------------------------ minimum width / minimum-area rectangle over hull edges *)
Definition zmax_list (l : list Z) (d : Z) : Z := fold_right Z.max d l.
Definition zmin_list (l : list Z) (d : Z) : Z := fold_right Z.min d l.
(* width^2 of the vertex set measured perpendicular to edge ab  =  (max orient)^2 / |ab|^2   (h on the left of ab) *)
Definition edge_width2 (h : list pt) (e : pt * pt) : Z * Z :=
  let m := zmax_list (map (fun v => Z.abs (orient (fst e) (snd e) v)) h) 0 in (m * m, dist2 (fst e) (snd e)).
(* area of the enclosing rectangle with one side along ab  =  (max orient - min orient)(max dot - min dot)/|ab|^2 *)
Definition edge_rect_area (h : list pt) (e : pt * pt) : Z * Z :=
  let os := map (fun v => orient (fst e) (snd e) v) h in
  let ds := map (fun v => dot (fst e) (snd e) v) h in
  ((zmax_list os 0 - zmin_list os 0) * (zmax_list ds 0 - zmin_list ds 0), dist2 (fst e) (snd e)).
Definition frac_ltb (a b : Z * Z) : bool := fst a * snd b <? fst b * snd a.      (* positive denominators *)
Definition min_frac (l : list (Z * Z)) : option (Z * Z) :=
  fold_left (fun best x => match best with None => Some x | Some b => if frac_ltb x b then Some x else best end) l None.
(* h: hull cycle with >= 3 vertices *)
Definition min_width2 (h : list pt) : option (Z * Z) := min_frac (map (edge_width2 h) (edges h)).
Definition min_rect_area (h : list pt) : option (Z * Z) := min_frac (map (edge_rect_area h) (edges h)).

(* ------------------------------------------------------------------ code-level model M: CoordinateSequence helpers *)
Definition nthp (l : list pt) (i : nat) : pt := nth i l (0, 0).
(* CoordinateSequence::minCoordinate: first strictly smaller wins *)
Fixpoint min_coord_from (m : pt) (l : list pt) : pt :=
  match l with [] => m | p :: r => min_coord_from (match cmp_pt m p with Gt => p | _ => m end) r end.
Definition min_coord (l : list pt) : pt := match l with [] => (0, 0) | p :: r => min_coord_from p r end.
(* CoordinateSequence::scroll: rotate so that the FIRST occurrence of m comes first *)
Definition scroll (m : pt) (l : list pt) : list pt := rotate_to (index_of m l) l.
(* CoordinateSequence::closeRing(allowRepeated) *)
Definition close_ring (allow_repeated : bool) (l : list pt) : list pt :=
  match l with
  | [] => []
  | f :: _ => if allow_repeated || negb (pt_eqb f (last l f)) then l ++ [f] else l
  end.

(* Orientation::isCCW (src/algorithm/Orientation.cpp), ring given with its closing point *)
Definition isccw_scan (ring : list pt) (n : nat) : nat * pt * pt :=
  let '(i, hi, lo, _) :=
    fold_left (fun (st : nat * pt * pt * Z) (i : nat) =>
                 let '(iup, hi, lo, prevy) := st in
                 let p := nthp ring i in
                 if (prevy <? py p) && (py hi <=? py p) then (i, p, nthp ring (i - 1), py p) else (iup, hi, lo, py p))
              (seq 1 n) (O, nthp ring 0, (0, 0), py (nthp ring 0)) in
  (i, hi, lo).
Fixpoint down_low (ring : list pt) (n iup : nat) (hiy : Z) (i : nat) (fuel : nat) : nat :=
  let j := ((i + 1) mod n)%nat in
  match fuel with
  | O => j
  | S f => if negb (Nat.eqb j iup) && (py (nthp ring j) =? hiy) then down_low ring n iup hiy j f else j
  end.
Definition isCCW (ring : list pt) : bool :=
  let n := (length ring - 1)%nat in
  if (n <? 3)%nat then false else
  let '(iup, hi, uplow) := isccw_scan ring n in
  if Nat.eqb iup 0 then false else
  let idl := down_low ring n iup (py hi) iup n in
  let downlow := nthp ring idl in
  let idh := if (0 <? idl)%nat then (idl - 1)%nat else (n - 1)%nat in
  let downhi := nthp ring idh in
  if pt_eqb hi downhi then
    if pt_eqb uplow hi || pt_eqb downlow hi || pt_eqb uplow downlow then false
    else 0 <? orient uplow hi downlow
  else px downhi - px hi <? 0.

(* Polygon::normalize(LinearRing*, bool clockwise) calls coords.closeRing(true) since fix 97a16010e (C20-F1); before it was
   closeRing(), i.e. allowRepeated = false, which dropped a repeated point at the ring seam *)
Definition POLY_CLOSE_ALLOW_REPEATED : bool := true.
Definition norm_ring (clockwise : bool) (r : list pt) : list pt :=
  match r with
  | [] => []
  | _ => let o := removelast r in
         let c := close_ring POLY_CLOSE_ALLOW_REPEATED (scroll (min_coord o) o) in
         if Bool.eqb (isCCW c) clockwise then rev c else c
  end.
(* SimpleCurve::normalizeClosed *)
Definition norm_closed (r : list pt) : list pt :=
  let o := removelast r in
  let c := close_ring true (scroll (min_coord o) o) in
  if (4 <=? length c)%nat && isCCW c then rev c else c.
(* SimpleCurve::normalize, open case: compare mirrored positions from the ends, reverse if the first differing pair is decreasing *)
Fixpoint first_diff (a b : list pt) (k : nat) : comparison :=
  match k, a, b with
  | S k', x :: ra, y :: rb => if pt_eqb x y then first_diff ra rb k' else cmp_pt x y
  | _, _, _ => Eq
  end.
Definition is_closed (c : list pt) : bool := match c with [] => false | f :: _ => pt_eqb f (last c f) end.
Definition norm_line (c : list pt) : list pt :=
  match c with
  | [] => []
  | _ => if is_closed c then norm_closed c
         else match first_diff c (rev c) (length c / 2) with Gt => rev c | _ => c end
  end.

(* ------------------------------------------------------------------ code-level model M: compareTo *)
Definition lex (a b : comparison) : comparison := match a with Eq => b | _ => a end.
Fixpoint cmp_pts (a b : list pt) : comparison :=        (* pointwise, equal lengths assumed *)
  match a, b with
  | x :: ra, y :: rb => lex (cmp_pt x y) (cmp_pts ra rb)
  | [], [] => Eq | [], _ => Lt | _, [] => Gt
  end.
(* SimpleCurve::compareToSameClass : number of points first, then pointwise *)
Definition cmp_seq (a b : list pt) : comparison := lex (Nat.compare (length a) (length b)) (cmp_pts a b).
(* Geometry::compareTo on two curves of the same class: empty < non-empty *)
Definition cmp_curve (a b : list pt) : comparison :=
  match a, b with [], [] => Eq | [], _ => Lt | _, [] => Gt | _, _ => cmp_seq a b end.
Section CmpList.                (* Geometry::compare(vector, vector); the comparator is a section variable so that nested recursion is accepted *)
  Context {A : Type} (c : A -> A -> comparison).
  Fixpoint cmp_list (a b : list A) : comparison :=
    match a, b with
    | x :: ra, y :: rb => lex (c x y) (cmp_list ra rb)
    | [], [] => Eq | [], _ => Lt | _, [] => Gt
    end.
End CmpList.
Definition sort_index (g : geom) : Z :=
  match g with
  | GPoint _ => 0 | GLine _ => 2 | GRing _ => 3 | GPoly _ _ => 5
  | GColl t _ => if t =? 4 then 1 else if t =? 5 then 4 else if t =? 6 then 6 else 7
  end.
(* Surface::compareToSameClass (both non-empty) *)
Definition cmp_poly (s1 : list pt) (h1 : list (list pt)) (s2 : list pt) (h2 : list (list pt)) : comparison :=
  lex (cmp_curve s1 s2) (lex (Nat.compare (length h1) (length h2)) (cmp_list cmp_curve h1 h2)).
Fixpoint cmp_geom (a b : geom) {struct a} : comparison :=
  match sort_index a ?= sort_index b with
  | Eq =>
    if is_empty a && is_empty b then Eq else if is_empty a then Lt else if is_empty b then Gt else
    match a, b with
    | GPoint c1, GPoint c2 => cmp_pts c1 c2
    | GLine c1, GLine c2 => cmp_seq c1 c2
    | GRing c1, GRing c2 => cmp_seq c1 c2
    | GPoly s1 h1, GPoly s2 h2 => cmp_poly s1 h1 s2 h2
    | GColl _ g1, GColl _ g2 => cmp_list (fun x y => cmp_geom x y) g1 g2
    | _, _ => Eq
    end
  | c => c
  end.
(* the comparator handed to std::sort in Polygon::normalize / GeometryCollection::normalize is  a.compareTo(b) > 0 :
   descending order. `before x y` = not (y strictly before x) *)
Definition desc {A} (c : A -> A -> comparison) (x y : A) : bool := match c x y with Lt => false | _ => true end.

(* ------------------------------------------------------------------ code-level model M: normalize, reverse, orientRings *)
Fixpoint normalize (g : geom) : geom :=
  match g with
  | GPoint c => GPoint c
  | GLine c => GLine (norm_line c)
  | GRing c => GRing (norm_line c)
  | GPoly s hs => GPoly (norm_ring true s) (isort (desc cmp_curve) (map (norm_ring false) hs))
  | GColl t gs => GColl t (isort (desc cmp_geom) (map normalize gs))
  end.
Fixpoint reverse (g : geom) : geom :=
  match g with
  | GPoint c => GPoint c
  | GLine c => GLine (rev c)
  | GRing c => GRing (rev c)
  | GPoly s hs => GPoly (rev s) (map (@rev pt) hs)
  | GColl t gs => GColl t (map reverse gs)
  end.
(* LinearRing::orient(isCW) *)
Definition orient_ring (cw : bool) (r : list pt) : list pt :=
  match r with [] => [] | _ => if Bool.eqb (isCCW r) cw then rev r else r end.
Fixpoint orient_polygons (ext_cw : bool) (g : geom) : geom :=
  match g with
  | GPoly s hs => GPoly (orient_ring ext_cw s) (map (orient_ring (negb ext_cw)) hs)
  | GColl t gs => GColl t (map (orient_polygons ext_cw) gs)
  | _ => g
  end.
Fixpoint list_eqb {A} (e : A -> A -> bool) (a b : list A) : bool :=
  match a, b with [], [] => true | x :: r, y :: s => e x y && list_eqb e r s | _, _ => false end.
Fixpoint geom_eqb (a b : geom) {struct a} : bool :=
  match a, b with
  | GPoint c1, GPoint c2 | GLine c1, GLine c2 | GRing c1, GRing c2 => list_pt_eqb c1 c2
  | GPoly s1 h1, GPoly s2 h2 => list_pt_eqb s1 s2 && list_eqb list_pt_eqb h1 h2
  | GColl t1 g1, GColl t2 g2 =>
      (t1 =? t2) &&
      (fix el (l1 l2 : list geom) {struct l1} : bool :=
         match l1, l2 with [], [] => true | x :: r1, y :: r2 => geom_eqb x y && el r1 r2 | _, _ => false end) g1 g2
  | _, _ => false
  end.

(* hypotheses of the canonical-form theorems, as executable tests (recorded per generated case):
   the minimum vertex occurs once, and isCCW answers oppositely on the two directions of the scrolled ring *)
Definition count_pt (p : pt) (l : list pt) : nat := length (filter (pt_eqb p) l).
Definition ring_ok (r : list pt) : bool :=
  match r with
  | [] => true
  | _ => let o := removelast r in
         let c := close_ring POLY_CLOSE_ALLOW_REPEATED (scroll (min_coord o) o) in
         Nat.eqb (count_pt (min_coord o) o) 1 && (2 <=? length o)%nat && Bool.eqb (isCCW (rev c)) (negb (isCCW c))
  end.
(* closed curves (LineString / LinearRing) are oriented only when they have >= 4 points *)
Definition curve_ok (c : list pt) : bool :=
  if is_closed c then
    let o := removelast c in
    let k := close_ring true (scroll (min_coord o) o) in
    Nat.eqb (count_pt (min_coord o) o) 1 && ((length k <? 4)%nat || Bool.eqb (isCCW (rev k)) (negb (isCCW k)))
  else true.
Fixpoint rings_ok (g : geom) : bool :=
  match g with
  | GPoint _ => true
  | GLine c | GRing c => curve_ok c
  | GPoly s hs => ring_ok s && forallb ring_ok hs
  | GColl _ gs => forallb rings_ok gs
  end.

(* ------------------------------------------------------------------ small models of the remaining observed functions *)
(* UniqueCoordinateArrayFilter: first occurrences, in traversal order *)
Fixpoint uniq_first (seen l : list pt) : list pt :=
  match l with [] => [] | p :: r => if mem_pt p seen then uniq_first seen r else p :: uniq_first (p :: seen) r end.
Definition unique_points (g : geom) : list pt := uniq_first [] (coords g).
(* Mod-2 boundary of linework: endpoints of the non-closed... (every non-empty curve contributes both ends; a closed curve
   contributes the same point twice), those with odd count, sorted by coordinate (std::map order) *)
Fixpoint curves (g : geom) : list (list pt) :=
  match g with GLine c | GRing c => [c] | GColl _ gs => flat_map curves gs | _ => [] end.
Definition endpoints (cs : list (list pt)) : list pt :=
  flat_map (fun c => match c with [] => [] | f :: _ => [f; last c f] end) cs.
Definition boundary_mod2 (g : geom) : list pt :=
  let e := endpoints (curves g) in
  filter (fun p => Nat.odd (count_pt p e)) (dedup_sorted (isort pt_leb e)).

(* ------------------------------------------------------------------ composites used by the driver *)
Definition is_poly_hull (h : list pt) : bool := match h with _ :: _ :: _ :: _ => true | _ => false end.
Definition min_width2_of (pts : list pt) : option (Z * Z) := let h := hull_mc pts in if is_poly_hull h then min_width2 h else None.
Definition min_rect_area_of (pts : list pt) : option (Z * Z) := let h := hull_mc pts in if is_poly_hull h then min_rect_area h else None.
Definition mbc_of (pts : list pt) : option circle := mbc_exact (hull_mc pts) pts.

(* classification keys of inputs on which the canonical-form clauses are known to fail (known_findings.json) *)
Definition min_repeated_seq (r : list pt) : bool :=
  match r with [] => false | _ => let o := removelast r in (1 <? count_pt (min_coord o) o)%nat end.
Definition ccw_indeterminate_ring (allow_repeated : bool) (r : list pt) : bool :=
  match r with
  | [] => false
  | _ => let o := removelast r in
         let c := close_ring allow_repeated (scroll (min_coord o) o) in
         (4 <=? length c)%nat && Bool.eqb (isCCW (rev c)) (isCCW c)
  end.
Fixpoint min_repeated (g : geom) : bool :=
  match g with
  | GPoint _ => false
  | GLine c | GRing c => is_closed c && min_repeated_seq c
  | GPoly s hs => min_repeated_seq s || existsb min_repeated_seq hs
  | GColl _ gs => existsb min_repeated gs
  end.
Fixpoint ccw_indeterminate (g : geom) : bool :=
  match g with
  | GPoint _ => false
  | GLine c | GRing c => is_closed c && ccw_indeterminate_ring true c
  | GPoly s hs => ccw_indeterminate_ring POLY_CLOSE_ALLOW_REPEATED s || existsb (ccw_indeterminate_ring POLY_CLOSE_ALLOW_REPEATED) hs
  | GColl _ gs => existsb ccw_indeterminate gs
  end.
