(* C20 — the relational hull checker is sound: an accepted cycle is convex, contains every input vertex, and has only
   input vertices as corners. *)
From Coq Require Import ZArith List Bool Lia.
From GeosV.C20 Require Import Defs.
Import ListNotations.
Local Open Scope Z_scope.

Lemma pt_eqb_eq : forall a b : pt, pt_eqb a b = true <-> a = b.
Proof.
  intros [ax ay] [bx by_]. unfold pt_eqb, px, py. cbn [fst snd]. rewrite andb_true_iff, !Z.eqb_eq.
  split; [intros [-> ->]; reflexivity | intros H; inversion H; auto].
Qed.
Lemma pt_eqb_refl : forall a, pt_eqb a a = true.
Proof. intros a. apply pt_eqb_eq. reflexivity. Qed.
Lemma pt_eqb_neq : forall a b : pt, pt_eqb a b = false <-> a <> b.
Proof. intros a b. rewrite <- pt_eqb_eq. destruct (pt_eqb a b); split; congruence. Qed.
Lemma mem_pt_In : forall p l, mem_pt p l = true <-> In p l.
Proof.
  intros p l. induction l as [|q r IH]; cbn [mem_pt In]; [split; [discriminate | tauto]|].
  rewrite orb_true_iff, IH, pt_eqb_eq. split; intros [H|H]; auto.
Qed.

(* the closed region of a hull cycle: the point, the closed segment, or the intersection of the left half-planes of all edges *)
Definition inside (h : list pt) (p : pt) : Prop :=
  match h with
  | [] => False
  | [a] => p = a
  | [a; b] => orient a b p = 0 /\ 0 <= dot a b p /\ 0 <= dot b a p
  | _ => forall e, In e (edges h) -> 0 <= orient (fst e) (snd e) p
  end.
(* strictly convex, counter-clockwise: every three consecutive vertices turn left, and every vertex lies in the closed
   left half-plane of EVERY edge (so the cycle winds once: a pentagram is rejected) *)
Definition convex_ccw (h : list pt) : Prop :=
  match h with
  | [] | [_] => True
  | [a; b] => a <> b
  | _ => (forall t, In t (triples h) -> 0 < orient (fst t) (fst (snd t)) (snd (snd t))) /\ (forall v, In v h -> inside h v)
  end.

Lemma on_seg_spec : forall a b p, on_seg a b p = true -> orient a b p = 0 /\ 0 <= dot a b p /\ 0 <= dot b a p.
Proof.
  intros a b p H. unfold on_seg in H. apply andb_true_iff in H. destruct H as [H _].
  repeat (apply andb_true_iff in H; destruct H as [H ?]).
  apply Z.eqb_eq in H. apply Z.leb_le in H0. apply Z.leb_le in H1. auto.
Qed.

Theorem check_hull_sound : forall pts h, check_hull pts h = true ->
  convex_ccw h /\ (forall p, In p pts -> inside h p) /\ (forall v, In v h -> In v pts) /\ (h = [] <-> pts = []).
Proof.
  intros pts h H. destruct h as [|a [|b [|c r]]].
  - (* empty *) cbn in H. destruct pts; [|discriminate]. cbn.
    split; [exact I|]. split; [intros p []|]. split; [intros v []|]. split; reflexivity.
  - (* point *) cbn [check_hull] in H. apply andb_true_iff in H. destruct H as [Hm Hall].
    rewrite forallb_forall in Hall.
    split; [exact I|]. split; [|split; [|split]].
    + intros p Hp. cbn. symmetry. apply pt_eqb_eq. auto.
    + intros v [<-|[]]. apply mem_pt_In. exact Hm.
    + discriminate.
    + intros ->. cbn in Hm. discriminate.
  - (* segment *) cbn [check_hull] in H.
    apply andb_true_iff in H. destruct H as [H Hall]. apply andb_true_iff in H. destruct H as [H Hb].
    apply andb_true_iff in H. destruct H as [Hne Ha].
    rewrite forallb_forall in Hall. apply negb_true_iff, pt_eqb_neq in Hne.
    split; [exact Hne|]. split; [|split; [|split]].
    + intros p Hp. cbn. apply on_seg_spec. auto.
    + intros v [<-|[<-|[]]]; apply mem_pt_In; auto.
    + discriminate.
    + intros ->. cbn in Ha. discriminate.
  - (* polygon *) cbn [check_hull] in H.
    apply andb_true_iff in H. destruct H as [H Htri]. apply andb_true_iff in H. destruct H as [Hmem Hedge].
    rewrite forallb_forall in Hmem, Hedge, Htri.
    assert (Hin : forall v, In v (a :: b :: c :: r) -> In v pts) by (intros v Hv; apply mem_pt_In; auto).
    assert (Hcont : forall p, In p pts -> inside (a :: b :: c :: r) p).
    { intros p Hp e He. specialize (Hedge e He). rewrite forallb_forall in Hedge. apply Z.leb_le. auto. }
    split; [|split; [|split; [|split]]]; auto; try discriminate.
    + split; [|auto]. intros t Ht. apply Z.ltb_lt. auto.
    + intros ->. specialize (Hin a (or_introl eq_refl)). contradiction.
Qed.

(* non-vacuity *)
Example check_hull_ex : check_hull [(0,0); (4,0); (2,1); (4,4); (0,4); (2,0)] [(0,0); (4,0); (4,4); (0,4)] = true.
Proof. vm_compute. reflexivity. Qed.
Example check_hull_rejects_collinear_vertex : check_hull [(0,0); (4,0); (4,4); (0,4); (2,0)] [(0,0); (2,0); (4,0); (4,4); (0,4)] = false.
Proof. vm_compute. reflexivity. Qed.
Example check_hull_rejects_pentagram :
  check_hull [(0,3); (2,-3); (-3,1); (3,1); (-2,-3)] [(0,3); (-2,-3); (3,1); (-3,1); (2,-3)] = false.
Proof. vm_compute. reflexivity. Qed.
Example hull_mc_ex : hull_mc [(2,1); (0,0); (4,4); (2,0); (0,4); (4,0); (4,0)] = [(0,0); (4,0); (4,4); (0,4)].
Proof. vm_compute. reflexivity. Qed.
