(* Meaning of the primitive names that the generated HilbertCode units (Gen/HC_*.v) refer to.
   uint32_t values are Z; << is Z.shiftl WITHOUT a 32-bit wrap: the theorems about these units are restricted to
   level <= 16 and ordinates / indices in range, where no shift leaves 32 bits (bounds_ok in Hilbert.v sweeps that too).
   geom::Coordinate is a pair; the uint32 -> double conversion is exact (values < 2^16). *)
From Coq Require Import ZArith.
Local Open Scope Z_scope.
Definition dflt : Z := 0.
Definition ofZ (z : Z) : Z := z.
Definition mk_Coordinate_0 (_ : unit) : Z * Z := (0, 0).
Definition set_x (c : Z * Z) (v : Z) : Z * Z := (v, snd c).
Definition set_y (c : Z * Z) (v : Z) : Z * Z := (fst c, v).
